import GrolProofs.EvalOps
/-!
# C15 part 3 — chunked evaluation, the model-level fold lemma

"Feeding the top-level statements in chunks equals evaluating them in one go", at the level of
the evaluator model's statement loop `Grol.E.evalStatements` (lean/Grol/Eval/Eval.lean, the model
of `evalStatements` in eval/eval.go).

## What IS proved here (for every fuel parameter `n`, all statement lists, every state)

Equations between computations in `M = ExceptT Stop (StateM St)`; such an equation says that for
every start state the two sides produce the same outcome (value / Go panic / depth guard / fuel /
unmodelled stop) AND the same final state (frames, output writers, memo cache, step counter, …).

* `C15.evalStatements_append` — evaluating `a ++ b` from an incoming non-stopping result `res`
  = evaluating `a`, and then, unless its result is a return / error VALUE (`Obj.stops`), evaluating
  `b` from the state `a` left, starting with `a`'s result.  Fuel bookkeeping is exact: with total
  fuel `n + |a| + 1`, every statement gets the same fuel on both sides and `b` runs with `n + 1`.
* `C15.evalStatements_append_null` — the same for the block start value `.null`.
* `C15.evalStatements_init_irrelevant`, `C15.evalStatements_all_comments`,
  `C15.evalStatements_append_fresh` — the start value of a block matters only when the block
  consists of comments only; hence if `b` holds a real statement, `b` is evaluated exactly like a
  FRESH block (start value `.null`) in the state left by `a`.  (If `b` is comments only, the one-go
  value is `a`'s value whereas a separate block yields `.null`: see the `example`s at the end.)
* `C15.evalI_stmts`, `C15.evalI_stmts_append` — a block node at the `evalI` level: the prologue
  `C15.enter` (step count + context-deadline check) followed by the statement loop;
  `C15.outcome_enter`, `C15.stateAfter_enter`, `C15.evalI_stmts_outcome`,
  `C15.evalI_stmts_append_outcome` — the same in outcome / final-state form when no deadline is
  configured (`cfg.deadlineAfter = none`).
* `C15.chunks_outcome` (`_gen`), `C15.chunks_outcome_stops`, `C15.chunks_outcome_error` — the
  three cases in `outcome` / `stateAfter` form: `a` ran to a non-stopping value (then the whole is
  `b` run from there); `a` ended in a return / error value; `a` stopped abnormally (Go panic,
  depth guard, fuel, unmodelled) — in the last two the whole has that very outcome and state.
* `C15.chunks_fold` (`_gen`) — any number of chunks: `evalStatements` on `chunks.flatten`
  = `evalChunks` (chunk after chunk, threading value and state, stopping at a stops-value).

## What is NOT proved here

The `runInput`-level equality (lean/Grol/Eval/Sexp.lean: two REPL inputs `a`, `b` versus the one
input `a ++ b`) does NOT follow from the above alone.  It additionally needs
 (i)   fuel monotonicity of the whole mutual block (more fuel never changes a non-fuel outcome):
       `runInput` gives every input the same constant `defaultFuel`, whereas here the second chunk
       runs with `|a|` units less than the whole;
 (ii)  a frame lemma: evaluation depends on `St.steps` / `St.outs` only by counting / by appending
       to the innermost writer (`runInput` resets `steps := 0, outs := [[]]` per input, and with a
       configured deadline the step counter is observable);
 (iii) the depth counter is back at its entry value after a normal return (`runInput` enters through
       `eval`, which guards and bumps `St.depth` and unwraps return values / references, and it
       resets `cur` / `depth` after a Go panic or depth-guard stop).
Also, whether a later input still runs after an earlier one produced a return / error VALUE is
decided by the session driver, not by `evalStatements` (inside one block the rest is skipped); the
REPL-level statement is therefore about chunks whose values do not stop.
(i)–(iii) are validated by the `chunks` correspondence suite against the real interpreter rather
than proved.
-/
namespace Grol.E

/-- the values at which a statement list stops early: `ReturnValue` (return / break / continue)
and `Error` objects -/
def Obj.stops : Obj → Bool
  | .ret .. => true
  | .error _ => true
  | _ => false

theorem C15.evalStatements_zero (l : List Node) (res : Obj) :
    evalStatements 0 l res = stop .fuel := by
  rw [evalStatements]

theorem C15.evalStatements_nil (f : Nat) (res : Obj) :
    evalStatements (f + 1) [] res = pure res := by
  rw [evalStatements]

theorem C15.evalStatements_comment (f : Nat) (rest : List Node) (res : Obj) :
    evalStatements (f + 1) (.comment :: rest) res = evalStatements f rest res := by
  rw [evalStatements]

theorem C15.evalStatements_cons (f : Nat) (s : Node) (rest : List Node) (res : Obj)
    (hs : s ≠ .comment) :
    evalStatements (f + 1) (s :: rest) res =
      (do let r ← evalI f s
          if r.stops then pure r else evalStatements f rest r) := by
  rw [evalStatements]
  · congr 1
    funext r
    cases r <;> rfl
  · exact hs

theorem C15.evalStatements_append (n : Nat) (a b : List Node) (res : Obj)
    (hres : res.stops = false) :
    evalStatements (n + a.length + 1) (a ++ b) res =
      (do let r ← evalStatements (n + a.length + 1) a res
          if r.stops then pure r else evalStatements (n + 1) b r) := by
  induction a generalizing res with
  | nil =>
    simp only [List.nil_append, List.length_nil, Nat.add_zero]
    rw [C15.evalStatements_nil, pure_bind, hres]
    rfl
  | cons s a ih =>
    have hf : n + (s :: a).length + 1 = (n + a.length + 1) + 1 := rfl
    rw [hf, List.cons_append]
    by_cases hs : s = .comment
    · subst hs
      rw [C15.evalStatements_comment, C15.evalStatements_comment]
      exact ih res hres
    · rw [C15.evalStatements_cons _ _ _ _ hs, C15.evalStatements_cons _ _ _ _ hs, bind_assoc]
      congr 1
      funext r
      cases hr : r.stops
      · simp only [Bool.false_eq_true, if_false]
        exact ih r hr
      · simp only [if_true, pure_bind, hr]

/-- 3a: the top-level case (`evalI` starts a block with `.null`) -/
theorem C15.evalStatements_append_null (n : Nat) (a b : List Node) :
    evalStatements (n + a.length + 1) (a ++ b) .null =
      (do let r ← evalStatements (n + a.length + 1) a .null
          if r.stops then pure r else evalStatements (n + 1) b r) :=
  C15.evalStatements_append n a b .null rfl

/-! ### the initial result only matters for all-comment blocks -/

/-- a block with at least one non-comment statement does not depend on the incoming result -/
theorem C15.evalStatements_init_irrelevant (f : Nat) (b : List Node) (r r' : Obj)
    (hb : ∃ s, s ∈ b ∧ s ≠ .comment) :
    evalStatements f b r = evalStatements f b r' := by
  induction b generalizing f with
  | nil => obtain ⟨s, hs, _⟩ := hb; cases hs
  | cons s rest ih =>
    cases f with
    | zero => rw [C15.evalStatements_zero, C15.evalStatements_zero]
    | succ f =>
      by_cases hs : s = .comment
      · subst hs
        rw [C15.evalStatements_comment, C15.evalStatements_comment]
        apply ih
        obtain ⟨t, ht, htc⟩ := hb
        cases ht with
        | head => exact absurd rfl htc
        | tail _ h => exact ⟨t, h, htc⟩
      · rw [C15.evalStatements_cons _ _ _ _ hs, C15.evalStatements_cons _ _ _ _ hs]

/-- an all-comment block returns the incoming result unchanged (given enough fuel) -/
theorem C15.evalStatements_all_comments (n : Nat) (b : List Node) (r : Obj)
    (hb : ∀ s, s ∈ b → s = .comment) :
    evalStatements (n + b.length + 1) b r = pure r := by
  induction b with
  | nil => exact C15.evalStatements_nil _ _
  | cons s rest ih =>
    have hf : n + (s :: rest).length + 1 = (n + rest.length + 1) + 1 := rfl
    have hs : s = .comment := hb s (List.mem_cons_self ..)
    subst hs
    rw [hf, C15.evalStatements_comment]
    exact ih (fun t ht => hb t (List.mem_cons_of_mem _ ht))

/-- the "two separate blocks" form: when the second chunk has a real statement, it is evaluated
exactly as a fresh block (starting from `.null`) in the state the first chunk left -/
theorem C15.evalStatements_append_fresh (n : Nat) (a b : List Node)
    (hb : ∃ s, s ∈ b ∧ s ≠ .comment) :
    evalStatements (n + a.length + 1) (a ++ b) .null =
      (do let r ← evalStatements (n + a.length + 1) a .null
          if r.stops then pure r else evalStatements (n + 1) b .null) := by
  rw [C15.evalStatements_append_null]
  congr 1
  funext r
  rw [C15.evalStatements_init_irrelevant (n + 1) b r .null hb]

/-! ### 3b: the `evalI` level -/

/-- the prologue of `evalI` (`evalInternal`): count the step, check the context deadline -/
def C15.enter (k : M Obj) : M Obj := do
  let st ← get
  set { st with steps := st.steps + 1 }
  match st.cfg.deadlineAfter with
  | some d => if st.steps ≥ d then pure (err "context deadline exceeded") else k
  | none => k

theorem C15.evalI_stmts (f : Nat) (l : List Node) :
    evalI (f + 1) (.stmts l) = C15.enter (evalStatements f l .null) := by
  rw [evalI]
  unfold C15.enter
  congr 1
  funext st
  congr 1
  funext _
  cases st.cfg.deadlineAfter <;> rfl

/-- a block node holding `a ++ b`: prologue, then the statements of `a`, then (unless `a` ended in
a return / error value) those of `b`, continuing from the result and state of `a` -/
theorem C15.evalI_stmts_append (n : Nat) (a b : List Node) :
    evalI (n + a.length + 2) (.stmts (a ++ b)) =
      C15.enter (do
        let r ← evalStatements (n + a.length + 1) a .null
        if r.stops then pure r else evalStatements (n + 1) b r) := by
  rw [show n + a.length + 2 = (n + a.length + 1) + 1 from rfl, C15.evalI_stmts,
    C15.evalStatements_append_null]

/-- the state `evalI` hands to the block body -/
def C15.bump (st : St) : St := { st with steps := st.steps + 1 }

theorem C15.outcome_enter (k : M Obj) (st : St) (hd : st.cfg.deadlineAfter = none) :
    outcome (C15.enter k) st = outcome k (C15.bump st) := by
  have h1 : ∀ (f : St → M Obj), outcome (get >>= f) st = outcome (f st) st := fun _ => rfl
  have h2 : ∀ (s' : St) (f : Unit → M Obj) (s : St), outcome (set s' >>= f) s = outcome (f ()) s' :=
    fun _ _ _ => rfl
  unfold C15.enter
  rw [h1, h2]
  simp only [hd]
  rfl

theorem C15.stateAfter_enter (k : M Obj) (st : St) (hd : st.cfg.deadlineAfter = none) :
    stateAfter (C15.enter k) st = stateAfter k (C15.bump st) := by
  have h1 : ∀ (f : St → M Obj), stateAfter (get >>= f) st = stateAfter (f st) st := fun _ => rfl
  have h2 : ∀ (s' : St) (f : Unit → M Obj) (s : St),
      stateAfter (set s' >>= f) s = stateAfter (f ()) s' := fun _ _ _ => rfl
  unfold C15.enter
  rw [h1, h2]
  simp only [hd]
  rfl

/-! ### 3c: outcome / final-state forms -/

theorem C15.stateAfter_bind {α β : Type} (x : M α) (f : α → M β) (st : St) :
    stateAfter (x >>= f) st =
      match outcome x st with
      | .ok a => stateAfter (f a) (stateAfter x st)
      | .error _ => stateAfter x st := by
  unfold outcome stateAfter
  simp only [bind, ExceptT.bind, ExceptT.run, ExceptT.mk, StateT.bind, ExceptT.bindCont, Id.run]
  split
  next a s h =>
    simp only [h]
    cases a <;> rfl

/-- the chunk `a` ran to a non-stopping value `r`: the whole is `b` run from there -/
theorem C15.chunks_outcome_gen (n : Nat) (a b : List Node) (res r : Obj) (st : St)
    (hres : res.stops = false)
    (ha : outcome (evalStatements (n + a.length + 1) a res) st = .ok r) (hr : r.stops = false) :
    outcome (evalStatements (n + a.length + 1) (a ++ b) res) st =
        outcome (evalStatements (n + 1) b r) (stateAfter (evalStatements (n + a.length + 1) a res) st)
    ∧ stateAfter (evalStatements (n + a.length + 1) (a ++ b) res) st =
        stateAfter (evalStatements (n + 1) b r) (stateAfter (evalStatements (n + a.length + 1) a res) st) := by
  rw [C15.evalStatements_append n a b res hres, outcome_bind, C15.stateAfter_bind, ha]
  simp only [hr, Bool.false_eq_true, if_false]
  exact ⟨trivial, trivial⟩

theorem C15.chunks_outcome (n : Nat) (a b : List Node) (r : Obj) (st : St)
    (ha : outcome (evalStatements (n + a.length + 1) a .null) st = .ok r) (hr : r.stops = false) :
    outcome (evalStatements (n + a.length + 1) (a ++ b) .null) st =
        outcome (evalStatements (n + 1) b r) (stateAfter (evalStatements (n + a.length + 1) a .null) st)
    ∧ stateAfter (evalStatements (n + a.length + 1) (a ++ b) .null) st =
        stateAfter (evalStatements (n + 1) b r) (stateAfter (evalStatements (n + a.length + 1) a .null) st) :=
  C15.chunks_outcome_gen n a b .null r st rfl ha hr

/-- the chunk `a` ended in a return / error VALUE: `b` is not run, same value, same state -/
theorem C15.chunks_outcome_stops (n : Nat) (a b : List Node) (r : Obj) (st : St)
    (ha : outcome (evalStatements (n + a.length + 1) a .null) st = .ok r) (hr : r.stops = true) :
    outcome (evalStatements (n + a.length + 1) (a ++ b) .null) st = .ok r
    ∧ stateAfter (evalStatements (n + a.length + 1) (a ++ b) .null) st =
        stateAfter (evalStatements (n + a.length + 1) a .null) st := by
  rw [C15.evalStatements_append_null, outcome_bind, C15.stateAfter_bind, ha]
  simp only [hr, if_true]
  exact ⟨rfl, rfl⟩

/-- the chunk `a` stopped abnormally (Go panic, depth guard, out of fuel, unmodelled): `b` is not
run, same stop, same state -/
theorem C15.chunks_outcome_error (n : Nat) (a b : List Node) (e : Stop) (st : St)
    (ha : outcome (evalStatements (n + a.length + 1) a .null) st = .error e) :
    outcome (evalStatements (n + a.length + 1) (a ++ b) .null) st = .error e
    ∧ stateAfter (evalStatements (n + a.length + 1) (a ++ b) .null) st =
        stateAfter (evalStatements (n + a.length + 1) a .null) st := by
  rw [C15.evalStatements_append_null, outcome_bind, C15.stateAfter_bind, ha]
  exact ⟨rfl, rfl⟩

/-- 3b in outcome form, no deadline configured: a block node `{a; b}` evaluated by `evalI` from
`st`, where `a` ran to the non-stopping `r`, equals `b` run from the state `a` left -/
theorem C15.evalI_stmts_append_outcome (n : Nat) (a b : List Node) (r : Obj) (st : St)
    (hd : st.cfg.deadlineAfter = none)
    (ha : outcome (evalStatements (n + a.length + 1) a .null) (C15.bump st) = .ok r)
    (hr : r.stops = false) :
    outcome (evalI (n + a.length + 2) (.stmts (a ++ b))) st =
        outcome (evalStatements (n + 1) b r)
          (stateAfter (evalStatements (n + a.length + 1) a .null) (C15.bump st))
    ∧ stateAfter (evalI (n + a.length + 2) (.stmts (a ++ b))) st =
        stateAfter (evalStatements (n + 1) b r)
          (stateAfter (evalStatements (n + a.length + 1) a .null) (C15.bump st)) := by
  rw [C15.evalI_stmts_append, C15.outcome_enter _ _ hd, C15.stateAfter_enter _ _ hd,
    ← C15.evalStatements_append_null]
  exact C15.chunks_outcome n a b r (C15.bump st) ha hr

/-- … and the first chunk alone, as its own block node, leaves exactly that state and value -/
theorem C15.evalI_stmts_outcome (f : Nat) (a : List Node) (st : St)
    (hd : st.cfg.deadlineAfter = none) :
    outcome (evalI (f + 1) (.stmts a)) st = outcome (evalStatements f a .null) (C15.bump st)
    ∧ stateAfter (evalI (f + 1) (.stmts a)) st = stateAfter (evalStatements f a .null) (C15.bump st) := by
  rw [C15.evalI_stmts, C15.outcome_enter _ _ hd, C15.stateAfter_enter _ _ hd]
  exact ⟨rfl, rfl⟩

/-! ### 3d: any number of chunks -/

/-- evaluate chunk after chunk, threading result and state, stopping at a return / error value;
the first chunk of `c :: cs` gets the fuel the one-go evaluation of the concatenation has there -/
def evalChunks (n : Nat) : List (List Node) → Obj → M Obj
  | [], res => pure res
  | c :: cs, res => do
    let r ← evalStatements (n + cs.flatten.length + c.length + 1) c res
    if r.stops then pure r else evalChunks n cs r

theorem C15.chunks_fold_gen (n : Nat) (chunks : List (List Node)) (res : Obj)
    (hres : res.stops = false) :
    evalStatements (n + chunks.flatten.length + 1) chunks.flatten res = evalChunks n chunks res := by
  induction chunks generalizing res with
  | nil => exact C15.evalStatements_nil _ _
  | cons c cs ih =>
    have hf : n + (c :: cs).flatten.length + 1 = (n + cs.flatten.length) + c.length + 1 := by
      simp only [List.flatten_cons, List.length_append]
      omega
    rw [hf, List.flatten_cons, C15.evalStatements_append _ _ _ _ hres]
    unfold evalChunks
    congr 1
    funext r
    cases hr : r.stops
    · simp only [Bool.false_eq_true, if_false]
      exact ih r hr
    · rfl

theorem C15.chunks_fold (n : Nat) (chunks : List (List Node)) :
    evalStatements (n + chunks.flatten.length + 1) chunks.flatten .null = evalChunks n chunks .null :=
  C15.chunks_fold_gen n chunks .null rfl

/-! ### the statements typecheck at concrete programs -/

example :
    evalStatements (5 + 2 + 1) ([.int 1, .comment] ++ [.int 2]) .null =
      (do let r ← evalStatements (5 + 2 + 1) [.int 1, .comment] .null
          if r.stops then pure r else evalStatements (5 + 1) [.int 2] r) :=
  C15.evalStatements_append 5 [.int 1, .comment] [.int 2] .null rfl

example :
    evalStatements (3 + 3 + 1) [.int 1, .comment, .int 2] .null =
      evalChunks 3 [[.int 1, .comment], [], [.int 2]] .null :=
  C15.chunks_fold 3 [[.int 1, .comment], [], [.int 2]]

/-! ### non-vacuity: the hypotheses of the outcome forms hold at concrete programs
(kernel evaluation of the model; `{}` is the default state, no deadline) -/

/-- first chunk `1; // comment` runs to the non-stopping `1` … -/
example : outcome (evalStatements (1 + 2 + 1) [.int 1, .comment] .null) {} = .ok (.int 1) := rfl
example : (Obj.int 1).stops = false := rfl
/-- … and the whole `1; // comment; 2` gives `2` after two counted steps -/
example : outcome (evalStatements (1 + 2 + 1) ([.int 1, .comment] ++ [.int 2]) .null) {} = .ok (.int 2) := rfl
example : (stateAfter (evalStatements (1 + 2 + 1) ([.int 1, .comment] ++ [.int 2]) .null) {}).steps = 2 := rfl
/-- a first chunk ending in a return value: `chunks_outcome_stops` applies -/
example : outcome (evalStatements (1 + 2 + 1) [.ret .none, .comment] .null) {} =
    .ok (.ret .null "RETURN") := rfl
/-- out of fuel inside the first chunk: `chunks_outcome_error` applies -/
example : outcome (evalStatements (0 + 1 + 1) [.stmts [.int 1]] .null) {} = .error .fuel := rfl
/-- why `evalStatements_append_fresh` needs a real statement in `b`: a comment-only second chunk
keeps the first chunk's value in one go, but yields `.null` as a block of its own -/
example : outcome (evalStatements (1 + 1 + 1) ([.int 1] ++ [.comment]) .null) {} = .ok (.int 1) := rfl
example : outcome (evalStatements (1 + 1) [.comment] .null) {} = .ok .null := rfl

end Grol.E

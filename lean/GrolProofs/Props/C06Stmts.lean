import GrolProofs.Props.C01Rules
import GrolProofs.Props.C06
/-!
# C06 — value semantics of containers at STATEMENT level (model), for containers of any size

`Props/C06.lean` has the operator-level facts.  Here whole statements are run through the evaluator
model (`evalStatements` / `evalI` / `eval`) at the top level frame and the bindings afterwards are read
off: after `b = a; b[i] = v` the name `a` is still bound to the array it was bound to — whatever its
length — and `b` to the updated copy.
-/
namespace Grol.E

/-- an ordinary name: not an all-caps constant, not an extension, not `info` / `self` -/
structure C06.Ordinary (ext : List String) (name : String) : Prop where
  notConst : isConstant name = false
  notExt : ext.contains name = false
  notInfo : name ≠ "info"
  notSelf : name ≠ "self"

/-- the evaluator is at the top level (global frame: no outer frame, no running function), the frame's
bindings are `store`, the extension names are `ext`, no deadline is configured and the depth guard is not
reached -/
structure C06.Top (ext : List String) (store : List (String × Obj)) (st : St) : Prop where
  noDeadline : st.cfg.deadlineAfter = none
  depthOk : ¬ st.depth > st.cfg.maxDepth
  ext : st.extNames = ext
  frame : ∃ fr, st.frames[st.cur]? = some fr ∧ fr.store = store ∧ fr.function = none ∧ fr.outer = none

theorem C06.Top.bump {ext store st} (h : C06.Top ext store st) : C06.Top ext store (C15.bump st) :=
  ⟨h.1, h.2, h.3, h.4⟩

/-- a top level binding of an ordinary name to a plain value is a `C01.Binds` -/
theorem C06.Top.binds {ext store st} (h : C06.Top ext store st) (name : String) (v : Obj)
    (ho : C06.Ordinary ext name) (hl : lookupStore store name = some v) (hp : ∀ e n, v ≠ .ref e n) :
    C01.Binds st name v := by
  obtain ⟨fr, hfr, hs, hf, _⟩ := h.frame
  refine ⟨⟨fr, hfr, by rw [hs]; exact hl, ?_⟩, hp, by rw [h.ext]; exact ho.notExt, ho.notInfo, ho.notSelf⟩
  intro fn hfn; rw [hf] at hfn; cases hfn

theorem C06.Top.assignable {ext store st} (h : C06.Top ext store st) (name : String)
    (ho : C06.Ordinary ext name) : ∃ fr, C01.Assignable st name fr ∧ fr.store = store ∧ fr.outer = none
      ∧ fr.function = none := by
  obtain ⟨fr, hfr, hs, hf, hout⟩ := h.frame
  refine ⟨fr, ⟨hfr, ?_, ho.notConst, by rw [h.ext]; exact ho.notExt, ho.notInfo, ho.notSelf⟩, hs, hout, hf⟩
  intro fn hfn; rw [hf] at hfn; cases hfn

/-- what a store into the current frame does to `Top` -/
theorem C06.top_of_store {ext store} (st : St) (name : String) (v : Obj) (fr fr' : Frame) (cache : List CacheEntry)
    (h : C06.Top ext store st) (hfr : st.frames[st.cur]? = some fr) (hs : fr.store = store)
    (hstore : fr'.store = setStore fr.store name v) (hfun : fr'.function = none) (hout : fr'.outer = none) :
    C06.Top ext (setStore store name v)
      { st with frames := st.frames.setIfInBounds st.cur fr', cache := cache } := by
  have hlt := C01.cur_lt st fr hfr
  refine ⟨h.1, h.2, h.3, fr', ?_, by rw [hstore, hs], hfun, hout⟩
  simp [hlt]

/-- `CreateOrSet(name, v, create=false)` at top level, `name` ordinary and unbound or bound to a non-reference:
the value is stored under `name`, every other binding of the frame is as it was -/
theorem C06.createOrSet_top {ext store} (st : St) (name : String) (v : Obj)
    (h : C06.Top ext store st) (ho : C06.Ordinary ext name) (hp : ∀ e n, v ≠ .ref e n)
    (hcase : lookupStore store name = none ∨ (∃ r, lookupStore store name = some r ∧ ∀ re rn, r ≠ .ref re rn)) :
    ∃ s1, run (createOrSet st.cur name v false) st = (.ok v, s1) ∧ C06.Top ext (setStore store name v) s1 := by
  obtain ⟨fr, hfr, hs, hf, hout⟩ := h.frame
  have hlt := C01.cur_lt st fr hfr
  have hext : st.extNames.contains name = false := by rw [h.ext]; exact ho.notExt
  unfold createOrSet
  simp only [ho.notConst, Bool.false_eq_true, if_false, run_bind, run_get, hext, pure_bind]
  unfold setNoChecks
  simp only [Bool.false_eq_true, if_false, run_bind, run_getFrame, hfr]
  rw [hs]
  rcases hcase with h1 | ⟨r, h1, h2⟩
  · rw [h1]
    simp only [run_bind, C01.run_makeRef_global st name fr hfr hout]
    unfold envCreate rootBindsFunc
    simp only [run_bind, C01.run_valueOf_plain v hp, run_get, run_pure, run_modifyFrame, hfr]
    exact ⟨_, rfl, C06.top_of_store st name v fr _ st.cache h hfr hs rfl hf hout⟩
  · rw [h1]
    unfold envUpdate
    have ht : updTarget st.cur name r = (st.cur, name) := by
      cases r <;> first | rfl | exact absurd rfl (h2 _ _)
    have hv : (match v with | .ref .. => valueOf v | _ => pure v : M Obj) = pure v := by
      cases v <;> first | rfl | exact absurd rfl (hp _ _)
    simp only [ht, pure_bind]
    unfold envStoreAt functionChanged rootBindsFunc
    simp only [run_bind, run_getFrame, hfr, hs, h1]
    cases hfo : isFuncObj r
    · simp only [Bool.false_eq_true, if_false, run_pure, run_get, run_modifyFrame, hfr]
      exact ⟨_, rfl, C06.top_of_store st name v fr _ st.cache h hfr hs rfl hf hout⟩
    · rw [if_pos rfl]
      simp only [run_bind, run_modifyFrame, hfr, run_modify, run_get, run_pure]
      have h2' : ∀ fr2 : Frame, (st.frames.setIfInBounds st.cur fr2)[st.cur]? = some fr2 := by
        intro fr2; simp [hlt]
      simp only [h2']
      refine ⟨_, rfl, ?_⟩
      have hT : C06.Top ext store
          { st with frames := st.frames.setIfInBounds st.cur { fr with getMiss := fr.getMiss + 1 }, cache := [] } :=
        ⟨h.1, h.2, h.3, _, h2' _, hs, hf, hout⟩
      exact C06.top_of_store
        { st with frames := st.frames.setIfInBounds st.cur { fr with getMiss := fr.getMiss + 1 }, cache := [] }
        name v { fr with getMiss := fr.getMiss + 1 } _ [] hT (h2' _) hs rfl hf hout

/-- `Eval` of a node whose rule only counts the step: same value, `Top` kept -/
theorem C06.eval_top {ext store} (f : Nat) (node : Node) (st : St) (r : Obj) (h : C06.Top ext store st)
    (hr : outcome (evalI f node) (C01.deeper st) = .ok r)
    (hs : stateAfter (evalI f node) (C01.deeper st) = C15.bump (C01.deeper st))
    (h1 : ∀ v kind, r ≠ .ret v kind) (h2 : ∀ e n, r ≠ .ref e n) :
    outcome (eval (f + 1) node) st = .ok r ∧ C06.Top ext store (stateAfter (eval (f + 1) node) st) := by
  obtain ⟨ho, hst⟩ := (C01.eval_unwrap f node st r h.depthOk hr).2.2 h1 h2
  refine ⟨ho, ?_⟩
  rw [hst, hs]
  refine ⟨h.1, ?_, h.3, h.4⟩
  show ¬ st.depth + 1 - 1 > st.cfg.maxDepth
  rw [Nat.add_sub_cancel]; exact h.2

theorem C06.Top.deeper_binds {ext store st} (h : C06.Top ext store st) (name : String) (v : Obj)
    (ho : C06.Ordinary ext name) (hl : lookupStore store name = some v) (hp : ∀ e n, v ≠ .ref e n) :
    C01.Binds (C01.deeper st) name v :=
  let b := h.binds name v ho hl hp
  ⟨b.1, b.2, b.3, b.4, b.5⟩

/-- `Eval` of an integer literal at top level -/
theorem C06.eval_int_top {ext store} (f : Nat) (n : Int64) (st : St) (h : C06.Top ext store st) :
    outcome (eval (f + 2) (.int n)) st = .ok (.int n)
    ∧ C06.Top ext store (stateAfter (eval (f + 2) (.int n)) st) := by
  have hd : (C01.deeper st).cfg.deadlineAfter = none := h.1
  refine C06.eval_top (f + 1) (.int n) st (.int n) h ?_ ?_ (fun _ _ => Obj.noConfusion) (fun _ _ => Obj.noConfusion)
  · rw [C01.evalI_int, C15.outcome_enter _ _ hd]; rfl
  · rw [C01.evalI_int, C15.stateAfter_enter _ _ hd]; rfl

/-- `Eval` of a bound ordinary identifier at top level -/
theorem C06.eval_ident_top {ext store} (f : Nat) (name : String) (v : Obj) (st : St) (h : C06.Top ext store st)
    (ho : C06.Ordinary ext name) (hl : lookupStore store name = some v) (hp : ∀ e n, v ≠ .ref e n)
    (hnr : ∀ w kind, v ≠ .ret w kind) :
    outcome (eval (f + 2) (.ident name)) st = .ok v
    ∧ C06.Top ext store (stateAfter (eval (f + 2) (.ident name)) st) := by
  have hd : (C01.deeper st).cfg.deadlineAfter = none := h.1
  obtain ⟨h1, h2⟩ := C01.ident_bound f name v (C01.deeper st) hd (h.deeper_binds name v ho hl hp)
  exact C06.eval_top (f + 1) (.ident name) st v h h1 h2 hnr hp

theorem C06.run_of {α : Type} (x : M α) (st : St) : run x st = (outcome x st, stateAfter x st) := rfl

/-- the statement `name = e` at top level, when `Eval e` yields the plain non-error value `v` keeping `Top` -/
theorem C06.assign_top {ext store} (f : Nat) (name : String) (e : Node) (v : Obj) (st : St)
    (h : C06.Top ext store st) (ho : C06.Ordinary ext name)
    (he : outcome (eval (f + 1) e) (C15.bump st) = .ok v)
    (hT : C06.Top ext store (stateAfter (eval (f + 1) e) (C15.bump st)))
    (hv : v.isError = false) (hp : ∀ en n, v ≠ .ref en n)
    (hcase : lookupStore store name = none ∨ (∃ r, lookupStore store name = some r ∧ ∀ re rn, r ≠ .ref re rn)) :
    outcome (evalI (f + 2) (.inf "ASSIGN" (.ident name) e)) st = .ok v
    ∧ C06.Top ext (setStore store name v) (stateAfter (evalI (f + 2) (.inf "ASSIGN" (.ident name) e)) st) := by
  obtain ⟨s1, hrun, hb⟩ := C06.createOrSet_top _ name v hT ho hp hcase
  have key : SameRun (evalI (f + 2) (.inf "ASSIGN" (.ident name) e)) st
      (createOrSet (stateAfter (eval (f + 1) e) (C15.bump st)).cur name v false)
      (stateAfter (eval (f + 1) e) (C15.bump st)) := by
    rw [C01.evalI_assign _ _ _ _ rfl]
    refine (C01.sameRun_enter _ st h.1).trans ((C01.sameRun_bind_ok _ _ _ _ he).trans ?_)
    rw [C01.evalAssignment_ident]
    simp only [hv, Bool.false_eq_true, if_false]
    exact C01.sameRun_curEnv _ _
  refine ⟨key.1.trans (by rw [outcome_eq_run, hrun]), ?_⟩
  rw [key.2, stateAfter_eq_run, hrun]; exact hb

theorem C06.run_noteHazard {ext store} (c : Bool) (k n : String) (st : St) (h : C06.Top ext store st) :
    ∃ s1, run (noteHazard c k n) st = (.ok (), s1) ∧ C06.Top ext store s1 ∧ s1.cur = st.cur := by
  unfold noteHazard
  cases c
  · exact ⟨st, rfl, h, rfl⟩
  · exact ⟨_, rfl, ⟨h.1, h.2, h.3, h.4⟩, rfl⟩

theorem C06.run_envGet_top {ext store} (name : String) (v : Obj) (st : St) (h : C06.Top ext store st)
    (ho : C06.Ordinary ext name) (hl : lookupStore store name = some v) (hp : ∀ e n, v ≠ .ref e n) :
    run (envGet st.cur name) st = (.ok (some v), st) := by
  obtain ⟨fr, hfr, hs, hf, _⟩ := h.frame
  have hi' : (name == "info") = false := by simpa using ho.notInfo
  have hs' : (name == "self") = false := by simpa using ho.notSelf
  unfold envGet
  simp only [hi', hs', Bool.false_eq_true, if_false, run_bind, run_getFrame, hfr, hf, hs, hl]
  cases v <;> first | exact absurd rfl (hp _ _) | rfl

/-- `evalIndexAssignment` on an array bound at top level, integer index resolving to position `k` in range
(`i ≥ 0`: `k = i`; `i < 0`: `k = len + i`), integer value: the name is rebound to the updated list -/
theorem C06.indexAssign_array_top {ext store} (name : String) (els : List Obj) (i n : Int64) (k : Nat) (st : St)
    (h : C06.Top ext store st) (ho : C06.Ordinary ext name)
    (hl : lookupStore store name = some (.array els))
    (hk : (if i < 0 then (els.length : Int) + i.toInt else i.toInt) = (k : Int)) (hlt : k < els.length) :
    ∃ s1, run (evalIndexAssignment (.ident name) (.int i) (.int n)) st = (.ok (.int n), s1)
      ∧ C06.Top ext (setStore store name (.array (els.set k (.int n)))) s1 := by
  have hpa : ∀ e m, Obj.array els ≠ .ref e m := fun _ _ => Obj.noConfusion
  have hcond : (((k : Int) < 0 || (k : Int) ≥ (els.length : Int)) : Bool) = false := by
    simp; omega
  unfold evalIndexAssignment
  simp only [run_bind, C01.run_valueOf_plain (.int i) (fun _ _ => Obj.noConfusion),
    C01.run_valueOf_plain (.int n) (fun _ _ => Obj.noConfusion), C01.run_curEnv,
    C06.run_envGet_top name _ st h ho hl hpa, C01.run_valueOf_plain _ hpa, int64Value, hk, hcond,
    Bool.false_eq_true, if_false, run_get]
  obtain ⟨s1, hn, hT1, hcur⟩ := C06.run_noteHazard (decide (els.length > st.cfg.maxSmallArray))
    "large-array-index-assignment-aliases" name st h
  simp only [hn]
  obtain ⟨s2, hset, hT2⟩ := C06.createOrSet_top s1 name (.array (els.set k (.int n))) hT1 ho
    (fun _ _ => Obj.noConfusion) (Or.inr ⟨_, hl, hpa⟩)
  unfold envSet newArray
  rw [Int.toNat_natCast, ← hcur, hset]
  exact ⟨s2, rfl, hT2⟩

end Grol.E

namespace Grol.E

/-- the statement `name[i] = n` (integer literals) on an array bound at top level -/
theorem C06.index_assign_stmt_top {ext store} (f : Nat) (name : String) (els : List Obj) (i n : Int64) (k : Nat)
    (st : St) (h : C06.Top ext store st) (ho : C06.Ordinary ext name)
    (hl : lookupStore store name = some (.array els))
    (hk : (if i < 0 then (els.length : Int) + i.toInt else i.toInt) = (k : Int)) (hlt : k < els.length) :
    outcome (evalI (f + 4) (.inf "ASSIGN" (.idx "LBRACKET" (.ident name) (.int i)) (.int n))) st = .ok (.int n)
    ∧ C06.Top ext (setStore store name (.array (els.set k (.int n))))
        (stateAfter (evalI (f + 4) (.inf "ASSIGN" (.idx "LBRACKET" (.ident name) (.int i)) (.int n))) st) := by
  obtain ⟨hv, hT1⟩ := C06.eval_int_top (f + 1) n (C15.bump st) h.bump
  obtain ⟨hix, hT2⟩ := C06.eval_int_top f i _ hT1
  obtain ⟨s1, hrun, hT3⟩ := C06.indexAssign_array_top name els i n k _ hT2 ho hl hk hlt
  have hasg : evalAssignment (f + 3) (.int n) "ASSIGN" (.idx "LBRACKET" (.ident name) (.int i)) =
      (do let index ← eval (f + 2) (.int i); evalIndexAssignment (.ident name) index (.int n)) := by
    rw [evalAssignment]; rfl
  have key : SameRun (evalI (f + 4) (.inf "ASSIGN" (.idx "LBRACKET" (.ident name) (.int i)) (.int n))) st
      (evalIndexAssignment (.ident name) (.int i) (.int n))
      (stateAfter (eval (f + 2) (.int i)) (stateAfter (eval (f + 3) (.int n)) (C15.bump st))) := by
    rw [C01.evalI_assign _ _ _ _ rfl]
    refine (C01.sameRun_enter _ st h.1).trans ((C01.sameRun_bind_ok _ _ _ _ hv).trans ?_)
    rw [hasg]
    exact C01.sameRun_bind_ok _ _ _ _ hix
  refine ⟨key.1.trans (by rw [outcome_eq_run, hrun]), ?_⟩
  rw [key.2, stateAfter_eq_run, hrun]; exact hT3

/-- the program `b = a; b[i] = n` -/
def C06.copyThenIndexAssign (a b : String) (i n : Int64) : List Node :=
  [.inf "ASSIGN" (.ident b) (.ident a), .inf "ASSIGN" (.idx "LBRACKET" (.ident b) (.int i)) (.int n)]

/-- **C06, statement level (T1)**: at top level, with `a` bound to an array `els` of ANY length and contents,
running `b = a; b[i] = n` (ordinary names `a ≠ b`; `i` an integer literal resolving to the in-range position
`k`: `k = i` for `i ≥ 0`, `k = len + i` for `i < 0`; `n` an integer literal) has the value `n`, leaves `a` bound
to `els`, and binds `b` to the updated copy `els.set k n`. -/
theorem C06.copy_then_index_assign_keeps_original {ext store} (f : Nat) (a b : String) (els : List Obj)
    (i n : Int64) (k : Nat) (st : St)
    (h : C06.Top ext store st) (ha : C06.Ordinary ext a) (hb : C06.Ordinary ext b) (hab : a ≠ b)
    (hla : lookupStore store a = some (.array els))
    (hlb : lookupStore store b = none ∨ (∃ r, lookupStore store b = some r ∧ ∀ re rn, r ≠ .ref re rn))
    (hk : (if i < 0 then (els.length : Int) + i.toInt else i.toInt) = (k : Int)) (hlt : k < els.length) :
    outcome (evalStatements (f + 6) (C06.copyThenIndexAssign a b i n) .null) st = .ok (.int n)
    ∧ C01.Binds (stateAfter (evalStatements (f + 6) (C06.copyThenIndexAssign a b i n) .null) st) a (.array els)
    ∧ C01.Binds (stateAfter (evalStatements (f + 6) (C06.copyThenIndexAssign a b i n) .null) st) b
        (.array (els.set k (.int n))) := by
  have hpa : ∀ e m, Obj.array els ≠ .ref e m := fun _ _ => Obj.noConfusion
  -- statement 1
  obtain ⟨he, hT0⟩ := C06.eval_ident_top (f + 2) a (.array els) (C15.bump st) h.bump ha hla hpa
    (fun _ _ => Obj.noConfusion)
  obtain ⟨h1, hT1⟩ := C06.assign_top (f + 3) b (.ident a) (.array els) st h hb he hT0 rfl hpa hlb
  -- statement 2
  have hlb1 : lookupStore (setStore store b (.array els)) b = some (.array els) := lookupStore_setStore_eq _ _ _
  obtain ⟨h2, hT2⟩ := C06.index_assign_stmt_top f b els i n k _ hT1 hb hlb1 hk hlt
  have key : SameRun (evalStatements (f + 6) (C06.copyThenIndexAssign a b i n) .null) st
      (evalI (f + 4) (.inf "ASSIGN" (.idx "LBRACKET" (.ident b) (.int i)) (.int n)))
      (stateAfter (evalI (f + 5) (.inf "ASSIGN" (.ident b) (.ident a))) st) := by
    refine (C01.stmts_cons_continue (f + 5) _ _ .null _ st (fun hc => Node.noConfusion hc) h1 rfl).trans ?_
    rw [C01.stmts_singleton (f + 3) _ _ (fun hc => Node.noConfusion hc)]
    exact SameRun.refl _ _
  refine ⟨key.1.trans h2, ?_, ?_⟩
  · rw [key.2]
    refine hT2.binds a _ ha ?_ hpa
    rw [lookupStore_setStore_ne _ _ _ _ hab, lookupStore_setStore_ne _ _ _ _ hab]; exact hla
  · rw [key.2]
    exact hT2.binds b _ hb (lookupStore_setStore_eq _ _ _) (fun _ _ => Obj.noConfusion)

/-! non-vacuity: a 10-element array (above the implementation's small/large threshold of 8) -/

def C06.ten : List Obj := [.int 0, .int 1, .int 2, .int 3, .int 4, .int 5, .int 6, .int 7, .int 8, .int 9]
def C06.st10 : St := { frames := #[{ store := [("a", .array C06.ten)] }] }

example : C06.Top [] [("a", .array C06.ten)] C06.st10 := ⟨rfl, by decide, rfl, _, rfl, rfl, rfl, rfl⟩
example : C06.Ordinary [] "a" := ⟨by decide, rfl, by decide, by decide⟩
example : C06.Ordinary [] "b" := ⟨by decide, rfl, by decide, by decide⟩
/-- the theorem applies to the 10-element array: all hypotheses hold -/
example : C01.Binds (stateAfter (evalStatements 6 (C06.copyThenIndexAssign "a" "b" 3 77) .null) C06.st10) "a"
      (.array C06.ten)
    ∧ C01.Binds (stateAfter (evalStatements 6 (C06.copyThenIndexAssign "a" "b" 3 77) .null) C06.st10) "b"
      (.array (C06.ten.set 3 (.int 77))) :=
  (C06.copy_then_index_assign_keeps_original (ext := []) (store := [("a", .array C06.ten)]) 0 "a" "b" C06.ten 3 77 3
    C06.st10 ⟨rfl, by decide, rfl, _, rfl, rfl, rfl, rfl⟩ ⟨by decide, rfl, by decide, by decide⟩
    ⟨by decide, rfl, by decide, by decide⟩ (by decide) rfl (Or.inl rfl) (by decide) (by decide)).2

end Grol.E

/-! ## maps -/
namespace Grol.E

/-- `evalIndexAssignment` on a map bound at top level (any number of pairs), plain key and value: the name is
rebound to what `Map.Set` (`mapSet`) builds -/
theorem C06.indexAssign_map_top {ext store} (name : String) (big : Bool) (kvs : List (Obj × Obj)) (key val : Obj)
    (big' : Bool) (kvs' : List (Obj × Obj)) (st : St)
    (h : C06.Top ext store st) (ho : C06.Ordinary ext name)
    (hl : lookupStore store name = some (.map big kvs))
    (hkey : ∀ e m, key ≠ .ref e m) (hval : ∀ e m, val ≠ .ref e m)
    (hm : mapSet st.cfg big kvs key val = .ok (big', kvs')) :
    ∃ s1, run (evalIndexAssignment (.ident name) key val) st = (.ok val, s1)
      ∧ C06.Top ext (setStore store name (.map big' kvs')) s1 := by
  have hpm : ∀ e m, Obj.map big kvs ≠ .ref e m := fun _ _ => Obj.noConfusion
  unfold evalIndexAssignment
  simp only [run_bind, C01.run_valueOf_plain key hkey, C01.run_valueOf_plain val hval, C01.run_curEnv,
    C06.run_envGet_top name _ st h ho hl hpm, C01.run_valueOf_plain _ hpm, run_get, hm, run_liftR]
  obtain ⟨s1, hn, hT1, hcur⟩ := C06.run_noteHazard big "large-map-set-delete-aliases" name st h
  simp only [hn]
  obtain ⟨s2, hset, hT2⟩ := C06.createOrSet_top s1 name (.map big' kvs') hT1 ho
    (fun _ _ => Obj.noConfusion) (Or.inr ⟨_, hl, hpm⟩)
  unfold envSet
  rw [← hcur, hset]
  exact ⟨s2, rfl, hT2⟩

/-- the statement `name[i] = n` (integer literals), given what `evalIndexAssignment` does in every top level
state with the same configuration -/
theorem C06.index_assign_stmt_generic {ext store store'} (f : Nat) (name : String) (i n : Int64) (st : St)
    (h : C06.Top ext store st)
    (hrun : ∀ s, C06.Top ext store s → s.cfg = st.cfg →
      ∃ s1, run (evalIndexAssignment (.ident name) (.int i) (.int n)) s = (.ok (.int n), s1) ∧ C06.Top ext store' s1) :
    outcome (evalI (f + 4) (.inf "ASSIGN" (.idx "LBRACKET" (.ident name) (.int i)) (.int n))) st = .ok (.int n)
    ∧ C06.Top ext store'
        (stateAfter (evalI (f + 4) (.inf "ASSIGN" (.idx "LBRACKET" (.ident name) (.int i)) (.int n))) st) := by
  obtain ⟨hv, hT1⟩ := C06.eval_int_top (f + 1) n (C15.bump st) h.bump
  obtain ⟨hix, hT2⟩ := C06.eval_int_top f i _ hT1
  have hc1 := (((allGood (f + 3)).eval (.int n)).h (C15.bump st)).1.cfg
  have hc2 := (((allGood (f + 2)).eval (.int i)).h (stateAfter (eval (f + 3) (.int n)) (C15.bump st))).1.cfg
  obtain ⟨s1, hrun, hT3⟩ := hrun _ hT2 (hc2.trans hc1)
  have hasg : evalAssignment (f + 3) (.int n) "ASSIGN" (.idx "LBRACKET" (.ident name) (.int i)) =
      (do let index ← eval (f + 2) (.int i); evalIndexAssignment (.ident name) index (.int n)) := by
    rw [evalAssignment]; rfl
  have key : SameRun (evalI (f + 4) (.inf "ASSIGN" (.idx "LBRACKET" (.ident name) (.int i)) (.int n))) st
      (evalIndexAssignment (.ident name) (.int i) (.int n))
      (stateAfter (eval (f + 2) (.int i)) (stateAfter (eval (f + 3) (.int n)) (C15.bump st))) := by
    rw [C01.evalI_assign _ _ _ _ rfl]
    refine (C01.sameRun_enter _ st h.1).trans ((C01.sameRun_bind_ok _ _ _ _ hv).trans ?_)
    rw [hasg]
    exact C01.sameRun_bind_ok _ _ _ _ hix
  refine ⟨key.1.trans (by rw [outcome_eq_run, hrun]), ?_⟩
  rw [key.2, stateAfter_eq_run, hrun]; exact hT3

/-- **C06, statement level (T2)**: at top level, with `a` bound to a map of ANY number of pairs, running
`b = a; b[k] = n` (ordinary names `a ≠ b`, integer literals `k`, `n`) has the value `n`, leaves `a` bound to
the same map and binds `b` to the result of `Map.Set` on a copy (`mapSet`, assumed not to stop: keys
comparable with `k`). -/
theorem C06.copy_then_map_set_keeps_original {ext store} (f : Nat) (a b : String) (big : Bool)
    (kvs : List (Obj × Obj)) (k n : Int64) (big' : Bool) (kvs' : List (Obj × Obj)) (st : St)
    (h : C06.Top ext store st) (ha : C06.Ordinary ext a) (hb : C06.Ordinary ext b) (hab : a ≠ b)
    (hla : lookupStore store a = some (.map big kvs))
    (hlb : lookupStore store b = none ∨ (∃ r, lookupStore store b = some r ∧ ∀ re rn, r ≠ .ref re rn))
    (hm : mapSet st.cfg big kvs (.int k) (.int n) = .ok (big', kvs')) :
    outcome (evalStatements (f + 6) (C06.copyThenIndexAssign a b k n) .null) st = .ok (.int n)
    ∧ C01.Binds (stateAfter (evalStatements (f + 6) (C06.copyThenIndexAssign a b k n) .null) st) a (.map big kvs)
    ∧ C01.Binds (stateAfter (evalStatements (f + 6) (C06.copyThenIndexAssign a b k n) .null) st) b
        (.map big' kvs') := by
  have hpm : ∀ e m, Obj.map big kvs ≠ .ref e m := fun _ _ => Obj.noConfusion
  obtain ⟨he, hT0⟩ := C06.eval_ident_top (f + 2) a (.map big kvs) (C15.bump st) h.bump ha hla hpm
    (fun _ _ => Obj.noConfusion)
  obtain ⟨h1, hT1⟩ := C06.assign_top (f + 3) b (.ident a) (.map big kvs) st h hb he hT0 rfl hpm hlb
  have hc := (((allGood (f + 5)).evalI (.inf "ASSIGN" (.ident b) (.ident a))).h st).1.cfg
  have hlb1 : lookupStore (setStore store b (.map big kvs)) b = some (.map big kvs) := lookupStore_setStore_eq _ _ _
  obtain ⟨h2, hT2⟩ := C06.index_assign_stmt_generic (store' := setStore (setStore store b (.map big kvs)) b (.map big' kvs'))
    f b k n _ hT1 (fun s hs hcs =>
      C06.indexAssign_map_top b big kvs (.int k) (.int n) big' kvs' s hs hb hlb1 (fun _ _ => Obj.noConfusion)
        (fun _ _ => Obj.noConfusion) (by rw [hcs, hc]; exact hm))
  have key : SameRun (evalStatements (f + 6) (C06.copyThenIndexAssign a b k n) .null) st
      (evalI (f + 4) (.inf "ASSIGN" (.idx "LBRACKET" (.ident b) (.int k)) (.int n)))
      (stateAfter (evalI (f + 5) (.inf "ASSIGN" (.ident b) (.ident a))) st) := by
    refine (C01.stmts_cons_continue (f + 5) _ _ .null _ st (fun hc => Node.noConfusion hc) h1 rfl).trans ?_
    rw [C01.stmts_singleton (f + 3) _ _ (fun hc => Node.noConfusion hc)]
    exact SameRun.refl _ _
  refine ⟨key.1.trans h2, ?_, ?_⟩
  · rw [key.2]
    refine hT2.binds a _ ha ?_ hpm
    rw [lookupStore_setStore_ne _ _ _ _ hab, lookupStore_setStore_ne _ _ _ _ hab]; exact hla
  · rw [key.2]
    exact hT2.binds b _ hb (lookupStore_setStore_eq _ _ _) (fun _ _ => Obj.noConfusion)

end Grol.E

namespace Grol.E

def C06.tenPairs : List (Obj × Obj) :=
  [(.int 0, .int 0), (.int 1, .int 10), (.int 2, .int 20), (.int 3, .int 30), (.int 4, .int 40), (.int 5, .int 50),
   (.int 6, .int 60), (.int 7, .int 70), (.int 8, .int 80), (.int 9, .int 90)]
def C06.stMap10 : St := { frames := #[{ store := [("a", .map true C06.tenPairs)] }] }

/-- T2 applies to a 10-pair (big) map: all hypotheses hold -/
example : C01.Binds (stateAfter (evalStatements 6 (C06.copyThenIndexAssign "a" "b" 3 77) .null) C06.stMap10) "a"
      (.map true C06.tenPairs)
    ∧ C01.Binds (stateAfter (evalStatements 6 (C06.copyThenIndexAssign "a" "b" 3 77) .null) C06.stMap10) "b"
      (.map true (C06.tenPairs.set 3 (.int 3, .int 77))) :=
  (C06.copy_then_map_set_keeps_original (ext := []) (store := [("a", .map true C06.tenPairs)]) 0 "a" "b" true
    C06.tenPairs 3 77 true (C06.tenPairs.set 3 (.int 3, .int 77))
    C06.stMap10 ⟨rfl, by decide, rfl, _, rfl, rfl, rfl, rfl⟩ ⟨by decide, rfl, by decide, by decide⟩
    ⟨by decide, rfl, by decide, by decide⟩ (by decide) rfl (Or.inl rfl) rfl).2

/-! ## `+` -/

/-- `Eval` of a node whose rule keeps `Top` one level deeper -/
theorem C06.eval_top2 {ext store} (f : Nat) (node : Node) (st : St) (r : Obj) (h : C06.Top ext store st)
    (hr : outcome (evalI f node) (C01.deeper st) = .ok r)
    (hT : C06.Top ext store (stateAfter (evalI f node) (C01.deeper st)))
    (h1 : ∀ v kind, r ≠ .ret v kind) (h2 : ∀ e n, r ≠ .ref e n) :
    outcome (eval (f + 1) node) st = .ok r ∧ C06.Top ext store (stateAfter (eval (f + 1) node) st) := by
  obtain ⟨ho, hst⟩ := (C01.eval_unwrap f node st r h.depthOk hr).2.2 h1 h2
  refine ⟨ho, ?_⟩
  rw [hst]
  refine ⟨hT.1, ?_, hT.3, hT.4⟩
  have := hT.2
  show ¬ (stateAfter (evalI f node) (C01.deeper st)).depth - 1 > (stateAfter (evalI f node) (C01.deeper st)).cfg.maxDepth
  omega

/-- the second half of `l + r` with an array of ANY length on the left: the instrumentation line may log a
hazard entry; bindings untouched -/
theorem C06.infixTail_array_top {ext store} (g : Nat) (l r : Node) (els : List Obj) (rv res : Obj) (s1 : St)
    (hr : outcome (eval g r) s1 = .ok rv) (hT : C06.Top ext store (stateAfter (eval g r) s1))
    (hre : rv.isError = false)
    (hop : ∀ s2, run (evalInfixOp "PLUS" (.array els) rv) s2 = (.ok res, s2)) :
    ∃ s3, run (C01.infixTail g "PLUS" l r (.array els)) s1 = (.ok res, s3) ∧ C06.Top ext store s3 := by
  unfold C01.infixTail
  simp only [run_bind, C06.run_of (eval g r) s1, hr, hre, Bool.false_eq_true, if_false, run_get]
  obtain ⟨s3, hn, hT3, _⟩ := C06.run_noteHazard
    ("PLUS" == "PLUS" && decide (els.length > (stateAfter (eval g r) s1).cfg.maxSmallArray))
    "large-array-append-shares-capacity" (hazardBase l) _ hT
  simp only [hn, hop]
  exact ⟨s3, rfl, hT3⟩

/-- the node `l + r`, left operand an array of any length -/
theorem C06.plus_array_top {ext store} (g : Nat) (l r : Node) (els : List Obj) (rv res : Obj) (s : St)
    (h : C06.Top ext store s)
    (hl : outcome (eval g l) (C15.bump s) = .ok (.array els))
    (hTl : C06.Top ext store (stateAfter (eval g l) (C15.bump s)))
    (hr : ∀ s1, C06.Top ext store s1 → outcome (eval g r) s1 = .ok rv ∧ C06.Top ext store (stateAfter (eval g r) s1))
    (hre : rv.isError = false)
    (hop : ∀ s2, run (evalInfixOp "PLUS" (.array els) rv) s2 = (.ok res, s2)) :
    outcome (evalI (g + 1) (.inf "PLUS" l r)) s = .ok res
    ∧ C06.Top ext store (stateAfter (evalI (g + 1) (.inf "PLUS" l r)) s) := by
  have k := C01.infix_continue g "PLUS" l r s (.array els) h.1 rfl hl rfl rfl rfl (by simp)
  obtain ⟨hrv, hT2⟩ := hr _ hTl
  obtain ⟨s3, hrun, hT3⟩ := C06.infixTail_array_top g l r els rv res _ hrv hT2 hre hop
  refine ⟨k.1.trans (by rw [outcome_eq_run, hrun]), ?_⟩
  rw [k.2, stateAfter_eq_run, hrun]; exact hT3

/-- **C06, statement level (T3)**: at top level, `a` bound to an array `la` and `b` to an array `lb` of ANY
lengths (within the model's allocation bound), `c` an ordinary name other than `a`, `b`: the statement
`c = a + b` has the value `la ++ lb`, binds `c` to it, and leaves `a` bound to `la` and `b` to `lb`.
(`a = b` is allowed: `c = a + a`.)  The depth guard must leave room for the operands (`depth + 1`). -/
theorem C06.append_keeps_operands {ext store} (f : Nat) (a b c : String) (la lb : List Obj) (st : St)
    (h : C06.Top ext store st) (hdepth : ¬ st.depth + 1 > st.cfg.maxDepth)
    (ha : C06.Ordinary ext a) (hb : C06.Ordinary ext b) (hc : C06.Ordinary ext c) (hac : a ≠ c) (hbc : b ≠ c)
    (hla : lookupStore store a = some (.array la)) (hlb : lookupStore store b = some (.array lb))
    (hlc : lookupStore store c = none ∨ (∃ r, lookupStore store c = some r ∧ ∀ re rn, r ≠ .ref re rn))
    (hsz : ((la.length : Int) + lb.length) ≤ sizeLimit) :
    outcome (evalI (f + 5) (.inf "ASSIGN" (.ident c) (.inf "PLUS" (.ident a) (.ident b)))) st = .ok (.array (la ++ lb))
    ∧ C01.Binds (stateAfter (evalI (f + 5) (.inf "ASSIGN" (.ident c) (.inf "PLUS" (.ident a) (.ident b)))) st) a (.array la)
    ∧ C01.Binds (stateAfter (evalI (f + 5) (.inf "ASSIGN" (.ident c) (.inf "PLUS" (.ident a) (.ident b)))) st) b (.array lb)
    ∧ C01.Binds (stateAfter (evalI (f + 5) (.inf "ASSIGN" (.ident c) (.inf "PLUS" (.ident a) (.ident b)))) st) c
        (.array (la ++ lb)) := by
  have hpa : ∀ (l : List Obj) e m, Obj.array l ≠ .ref e m := fun _ _ _ => Obj.noConfusion
  have hra : ∀ (l : List Obj) w k, Obj.array l ≠ .ret w k := fun _ _ _ => Obj.noConfusion
  have hTb : C06.Top ext store (C15.bump st) := h.bump
  have hTd : C06.Top ext store (C01.deeper (C15.bump st)) := ⟨h.1, hdepth, h.3, h.4⟩
  obtain ⟨hl, hTl⟩ := C06.eval_ident_top f a (.array la) _ hTd.bump ha hla (hpa la) (hra la)
  have hop : ∀ s2, run (evalInfixOp "PLUS" (.array la) (.array lb)) s2 = (.ok (.array (la ++ lb)), s2) := by
    intro s2
    obtain ⟨⟨h1, h2⟩, _⟩ := C01.array_append la lb .null s2 hsz
      ⟨fun _ => Obj.noConfusion, fun _ _ => Obj.noConfusion, fun _ => Obj.noConfusion⟩
    rw [C06.run_of, h1, h2]
  obtain ⟨hp, hTp⟩ := C06.plus_array_top (f + 2) (.ident a) (.ident b) la (.array lb) (.array (la ++ lb)) _ hTd hl hTl
    (fun s1 hs1 => C06.eval_ident_top f b (.array lb) s1 hs1 hb hlb (hpa lb) (hra lb)) rfl hop
  obtain ⟨he, hTe⟩ := C06.eval_top2 (f + 3) _ _ _ hTb hp hTp (hra _) (hpa _)
  obtain ⟨h1, hT1⟩ := C06.assign_top (f + 3) c _ (.array (la ++ lb)) st h hc he hTe rfl (hpa _) hlc
  refine ⟨h1, hT1.binds a _ ha ?_ (hpa _), hT1.binds b _ hb ?_ (hpa _),
    hT1.binds c _ hc (lookupStore_setStore_eq _ _ _) (hpa _)⟩
  · rw [lookupStore_setStore_ne _ _ _ _ hac]; exact hla
  · rw [lookupStore_setStore_ne _ _ _ _ hbc]; exact hlb

end Grol.E

namespace Grol.E

def C06.st10ab : St := { frames := #[{ store := [("a", .array C06.ten), ("b", .array C06.ten)] }] }

/-- T3 applies to two 10-element arrays: all hypotheses hold -/
example :
    outcome (evalI 5 (.inf "ASSIGN" (.ident "c") (.inf "PLUS" (.ident "a") (.ident "b")))) C06.st10ab
      = .ok (.array (C06.ten ++ C06.ten))
    ∧ C01.Binds (stateAfter (evalI 5 (.inf "ASSIGN" (.ident "c") (.inf "PLUS" (.ident "a") (.ident "b")))) C06.st10ab)
        "a" (.array C06.ten) :=
  let t := C06.append_keeps_operands (ext := []) (store := [("a", .array C06.ten), ("b", .array C06.ten)]) 0 "a" "b" "c"
    C06.ten C06.ten C06.st10ab ⟨rfl, by decide, rfl, _, rfl, rfl, rfl, rfl⟩ (by decide)
    ⟨by decide, rfl, by decide, by decide⟩ ⟨by decide, rfl, by decide, by decide⟩
    ⟨by decide, rfl, by decide, by decide⟩ (by decide) (by decide) rfl rfl (Or.inl rfl) (by decide)
  ⟨t.1, t.2.1⟩

end Grol.E

import GrolProofs.Props.C01Rules
import GrolProofs.Props.C06
/-!
# C06 — value semantics of containers at STATEMENT level (model), for containers of any size

`Props/C06.lean` has the operator-level facts.  Here whole statements are run through the evaluator
model (`evalStatements` / `evalI` / `eval`) at the top level frame and the bindings afterwards are read
off: after `b = a; b[i] = v` the name `a` is still bound to the array it was bound to — whatever its
length — and `b` to the updated copy.
-/
namespace Grol.E

/-- an ordinary name: not an all-caps constant, not an extension, not `info` / `self` -/
structure C06.Ordinary (ext : List String) (name : String) : Prop where
  notConst : isConstant name = false
  notExt : ext.contains name = false
  notInfo : name ≠ "info"
  notSelf : name ≠ "self"

/-- the evaluator is at the top level (global frame: no outer frame, no running function), the frame's
bindings are `store`, the extension names are `ext`, no deadline is configured and the depth guard is not
reached -/
structure C06.Top (ext : List String) (store : List (String × Obj)) (st : St) : Prop where
  noDeadline : st.cfg.deadlineAfter = none
  depthOk : ¬ st.depth > st.cfg.maxDepth
  ext : st.extNames = ext
  frame : ∃ fr, st.frames[st.cur]? = some fr ∧ fr.store = store ∧ fr.function = none ∧ fr.outer = none

theorem C06.Top.bump {ext store st} (h : C06.Top ext store st) : C06.Top ext store (C15.bump st) :=
  ⟨h.1, h.2, h.3, h.4⟩

/-- a top level binding of an ordinary name to a plain value is a `C01.Binds` -/
theorem C06.Top.binds {ext store st} (h : C06.Top ext store st) (name : String) (v : Obj)
    (ho : C06.Ordinary ext name) (hl : lookupStore store name = some v) (hp : ∀ e n, v ≠ .ref e n) :
    C01.Binds st name v := by
  obtain ⟨fr, hfr, hs, hf, _⟩ := h.frame
  refine ⟨⟨fr, hfr, by rw [hs]; exact hl, ?_⟩, hp, by rw [h.ext]; exact ho.notExt, ho.notInfo, ho.notSelf⟩
  intro fn hfn; rw [hf] at hfn; cases hfn

theorem C06.Top.assignable {ext store st} (h : C06.Top ext store st) (name : String)
    (ho : C06.Ordinary ext name) : ∃ fr, C01.Assignable st name fr ∧ fr.store = store ∧ fr.outer = none
      ∧ fr.function = none := by
  obtain ⟨fr, hfr, hs, hf, hout⟩ := h.frame
  refine ⟨fr, ⟨hfr, ?_, ho.notConst, by rw [h.ext]; exact ho.notExt, ho.notInfo, ho.notSelf⟩, hs, hout, hf⟩
  intro fn hfn; rw [hf] at hfn; cases hfn

/-- what a store into the current frame does to `Top` -/
theorem C06.top_of_store {ext store} (st : St) (name : String) (v : Obj) (fr fr' : Frame) (cache : List CacheEntry)
    (h : C06.Top ext store st) (hfr : st.frames[st.cur]? = some fr) (hs : fr.store = store)
    (hstore : fr'.store = setStore fr.store name v) (hfun : fr'.function = none) (hout : fr'.outer = none) :
    C06.Top ext (setStore store name v)
      { st with frames := st.frames.setIfInBounds st.cur fr', cache := cache } := by
  have hlt := C01.cur_lt st fr hfr
  refine ⟨h.1, h.2, h.3, fr', ?_, by rw [hstore, hs], hfun, hout⟩
  simp [hlt]

/-- `CreateOrSet(name, v, create=false)` at top level, `name` ordinary and unbound or bound to a non-reference:
the value is stored under `name`, every other binding of the frame is as it was -/
theorem C06.createOrSet_top {ext store} (st : St) (name : String) (v : Obj)
    (h : C06.Top ext store st) (ho : C06.Ordinary ext name) (hp : ∀ e n, v ≠ .ref e n)
    (hcase : lookupStore store name = none ∨ (∃ r, lookupStore store name = some r ∧ ∀ re rn, r ≠ .ref re rn)) :
    ∃ s1, run (createOrSet st.cur name v false) st = (.ok v, s1) ∧ C06.Top ext (setStore store name v) s1 := by
  obtain ⟨fr, hfr, hs, hf, hout⟩ := h.frame
  have hlt := C01.cur_lt st fr hfr
  have hext : st.extNames.contains name = false := by rw [h.ext]; exact ho.notExt
  unfold createOrSet
  simp only [ho.notConst, Bool.false_eq_true, if_false, run_bind, run_get, hext, pure_bind]
  unfold setNoChecks
  simp only [Bool.false_eq_true, if_false, run_bind, run_getFrame, hfr]
  rw [hs]
  rcases hcase with h1 | ⟨r, h1, h2⟩
  · rw [h1]
    simp only [run_bind, C01.run_makeRef_global st name fr hfr hout]
    unfold envCreate rootBindsFunc
    simp only [run_bind, C01.run_valueOf_plain v hp, run_get, run_pure, run_modifyFrame, hfr]
    exact ⟨_, rfl, C06.top_of_store st name v fr _ st.cache h hfr hs rfl hf hout⟩
  · rw [h1]
    unfold envUpdate
    have ht : updTarget st.cur name r = (st.cur, name) := by
      cases r <;> first | rfl | exact absurd rfl (h2 _ _)
    have hv : (match v with | .ref .. => valueOf v | _ => pure v : M Obj) = pure v := by
      cases v <;> first | rfl | exact absurd rfl (hp _ _)
    simp only [ht, pure_bind]
    unfold envStoreAt functionChanged rootBindsFunc
    simp only [run_bind, run_getFrame, hfr, hs, h1]
    cases hfo : isFuncObj r
    · simp only [Bool.false_eq_true, if_false, run_pure, run_get, run_modifyFrame, hfr]
      exact ⟨_, rfl, C06.top_of_store st name v fr _ st.cache h hfr hs rfl hf hout⟩
    · rw [if_pos rfl]
      simp only [run_bind, run_modifyFrame, hfr, run_modify, run_get, run_pure]
      have h2' : ∀ fr2 : Frame, (st.frames.setIfInBounds st.cur fr2)[st.cur]? = some fr2 := by
        intro fr2; simp [hlt]
      simp only [h2']
      refine ⟨_, rfl, ?_⟩
      have hT : C06.Top ext store
          { st with frames := st.frames.setIfInBounds st.cur { fr with getMiss := fr.getMiss + 1 }, cache := [] } :=
        ⟨h.1, h.2, h.3, _, h2' _, hs, hf, hout⟩
      exact C06.top_of_store
        { st with frames := st.frames.setIfInBounds st.cur { fr with getMiss := fr.getMiss + 1 }, cache := [] }
        name v { fr with getMiss := fr.getMiss + 1 } _ [] hT (h2' _) hs rfl hf hout

/-- `Eval` of a node whose rule only counts the step: same value, `Top` kept -/
theorem C06.eval_top {ext store} (f : Nat) (node : Node) (st : St) (r : Obj) (h : C06.Top ext store st)
    (hr : outcome (evalI f node) (C01.deeper st) = .ok r)
    (hs : stateAfter (evalI f node) (C01.deeper st) = C15.bump (C01.deeper st))
    (h1 : ∀ v kind, r ≠ .ret v kind) (h2 : ∀ e n, r ≠ .ref e n) :
    outcome (eval (f + 1) node) st = .ok r ∧ C06.Top ext store (stateAfter (eval (f + 1) node) st) := by
  obtain ⟨ho, hst⟩ := (C01.eval_unwrap f node st r h.depthOk hr).2.2 h1 h2
  refine ⟨ho, ?_⟩
  rw [hst, hs]
  refine ⟨h.1, ?_, h.3, h.4⟩
  show ¬ st.depth + 1 - 1 > st.cfg.maxDepth
  rw [Nat.add_sub_cancel]; exact h.2

theorem C06.Top.deeper_binds {ext store st} (h : C06.Top ext store st) (name : String) (v : Obj)
    (ho : C06.Ordinary ext name) (hl : lookupStore store name = some v) (hp : ∀ e n, v ≠ .ref e n) :
    C01.Binds (C01.deeper st) name v :=
  let b := h.binds name v ho hl hp
  ⟨b.1, b.2, b.3, b.4, b.5⟩

/-- `Eval` of an integer literal at top level -/
theorem C06.eval_int_top {ext store} (f : Nat) (n : Int64) (st : St) (h : C06.Top ext store st) :
    outcome (eval (f + 2) (.int n)) st = .ok (.int n)
    ∧ C06.Top ext store (stateAfter (eval (f + 2) (.int n)) st) := by
  have hd : (C01.deeper st).cfg.deadlineAfter = none := h.1
  refine C06.eval_top (f + 1) (.int n) st (.int n) h ?_ ?_ (fun _ _ => Obj.noConfusion) (fun _ _ => Obj.noConfusion)
  · rw [C01.evalI_int, C15.outcome_enter _ _ hd]; rfl
  · rw [C01.evalI_int, C15.stateAfter_enter _ _ hd]; rfl

/-- `Eval` of a bound ordinary identifier at top level -/
theorem C06.eval_ident_top {ext store} (f : Nat) (name : String) (v : Obj) (st : St) (h : C06.Top ext store st)
    (ho : C06.Ordinary ext name) (hl : lookupStore store name = some v) (hp : ∀ e n, v ≠ .ref e n)
    (hnr : ∀ w kind, v ≠ .ret w kind) :
    outcome (eval (f + 2) (.ident name)) st = .ok v
    ∧ C06.Top ext store (stateAfter (eval (f + 2) (.ident name)) st) := by
  have hd : (C01.deeper st).cfg.deadlineAfter = none := h.1
  obtain ⟨h1, h2⟩ := C01.ident_bound f name v (C01.deeper st) hd (h.deeper_binds name v ho hl hp)
  exact C06.eval_top (f + 1) (.ident name) st v h h1 h2 hnr hp

theorem C06.run_of {α : Type} (x : M α) (st : St) : run x st = (outcome x st, stateAfter x st) := rfl

/-- the statement `name = e` at top level, when `Eval e` yields the plain non-error value `v` keeping `Top` -/
theorem C06.assign_top {ext store} (f : Nat) (name : String) (e : Node) (v : Obj) (st : St)
    (h : C06.Top ext store st) (ho : C06.Ordinary ext name)
    (he : outcome (eval (f + 1) e) (C15.bump st) = .ok v)
    (hT : C06.Top ext store (stateAfter (eval (f + 1) e) (C15.bump st)))
    (hv : v.isError = false) (hp : ∀ en n, v ≠ .ref en n)
    (hcase : lookupStore store name = none ∨ (∃ r, lookupStore store name = some r ∧ ∀ re rn, r ≠ .ref re rn)) :
    outcome (evalI (f + 2) (.inf "ASSIGN" (.ident name) e)) st = .ok v
    ∧ C06.Top ext (setStore store name v) (stateAfter (evalI (f + 2) (.inf "ASSIGN" (.ident name) e)) st) := by
  obtain ⟨s1, hrun, hb⟩ := C06.createOrSet_top _ name v hT ho hp hcase
  have key : SameRun (evalI (f + 2) (.inf "ASSIGN" (.ident name) e)) st
      (createOrSet (stateAfter (eval (f + 1) e) (C15.bump st)).cur name v false)
      (stateAfter (eval (f + 1) e) (C15.bump st)) := by
    rw [C01.evalI_assign _ _ _ _ rfl]
    refine (C01.sameRun_enter _ st h.1).trans ((C01.sameRun_bind_ok _ _ _ _ he).trans ?_)
    rw [C01.evalAssignment_ident]
    simp only [hv, Bool.false_eq_true, if_false]
    exact C01.sameRun_curEnv _ _
  refine ⟨key.1.trans (by rw [outcome_eq_run, hrun]), ?_⟩
  rw [key.2, stateAfter_eq_run, hrun]; exact hb

theorem C06.run_noteHazard {ext store} (c : Bool) (k n : String) (st : St) (h : C06.Top ext store st) :
    ∃ s1, run (noteHazard c k n) st = (.ok (), s1) ∧ C06.Top ext store s1 ∧ s1.cur = st.cur := by
  unfold noteHazard
  cases c
  · exact ⟨st, rfl, h, rfl⟩
  · exact ⟨_, rfl, ⟨h.1, h.2, h.3, h.4⟩, rfl⟩

theorem C06.run_envGet_top {ext store} (name : String) (v : Obj) (st : St) (h : C06.Top ext store st)
    (ho : C06.Ordinary ext name) (hl : lookupStore store name = some v) (hp : ∀ e n, v ≠ .ref e n) :
    run (envGet st.cur name) st = (.ok (some v), st) := by
  obtain ⟨fr, hfr, hs, hf, _⟩ := h.frame
  have hi' : (name == "info") = false := by simpa using ho.notInfo
  have hs' : (name == "self") = false := by simpa using ho.notSelf
  unfold envGet
  simp only [hi', hs', Bool.false_eq_true, if_false, run_bind, run_getFrame, hfr, hf, hs, hl]
  cases v <;> first | exact absurd rfl (hp _ _) | rfl

/-- `evalIndexAssignment` on an array bound at top level, integer index resolving to position `k` in range
(`i ≥ 0`: `k = i`; `i < 0`: `k = len + i`), integer value: the name is rebound to the updated list -/
theorem C06.indexAssign_array_top {ext store} (name : String) (els : List Obj) (i n : Int64) (k : Nat) (st : St)
    (h : C06.Top ext store st) (ho : C06.Ordinary ext name)
    (hl : lookupStore store name = some (.array els))
    (hk : (if i < 0 then (els.length : Int) + i.toInt else i.toInt) = (k : Int)) (hlt : k < els.length) :
    ∃ s1, run (evalIndexAssignment (.ident name) (.int i) (.int n)) st = (.ok (.int n), s1)
      ∧ C06.Top ext (setStore store name (.array (els.set k (.int n)))) s1 := by
  have hpa : ∀ e m, Obj.array els ≠ .ref e m := fun _ _ => Obj.noConfusion
  have hcond : (((k : Int) < 0 || (k : Int) ≥ (els.length : Int)) : Bool) = false := by
    simp; omega
  unfold evalIndexAssignment
  simp only [run_bind, C01.run_valueOf_plain (.int i) (fun _ _ => Obj.noConfusion),
    C01.run_valueOf_plain (.int n) (fun _ _ => Obj.noConfusion), C01.run_curEnv,
    C06.run_envGet_top name _ st h ho hl hpa, C01.run_valueOf_plain _ hpa, int64Value, hk, hcond,
    Bool.false_eq_true, if_false, run_get]
  obtain ⟨s1, hn, hT1, hcur⟩ := C06.run_noteHazard (decide (els.length > st.cfg.maxSmallArray))
    "large-array-index-assignment-aliases" name st h
  simp only [hn]
  obtain ⟨s2, hset, hT2⟩ := C06.createOrSet_top s1 name (.array (els.set k (.int n))) hT1 ho
    (fun _ _ => Obj.noConfusion) (Or.inr ⟨_, hl, hpa⟩)
  unfold envSet newArray
  rw [Int.toNat_natCast, ← hcur, hset]
  exact ⟨s2, rfl, hT2⟩

end Grol.E

namespace Grol.E

/-- the statement `name[i] = n` (integer literals) on an array bound at top level -/
theorem C06.index_assign_stmt_top {ext store} (f : Nat) (name : String) (els : List Obj) (i n : Int64) (k : Nat)
    (st : St) (h : C06.Top ext store st) (ho : C06.Ordinary ext name)
    (hl : lookupStore store name = some (.array els))
    (hk : (if i < 0 then (els.length : Int) + i.toInt else i.toInt) = (k : Int)) (hlt : k < els.length) :
    outcome (evalI (f + 4) (.inf "ASSIGN" (.idx "LBRACKET" (.ident name) (.int i)) (.int n))) st = .ok (.int n)
    ∧ C06.Top ext (setStore store name (.array (els.set k (.int n))))
        (stateAfter (evalI (f + 4) (.inf "ASSIGN" (.idx "LBRACKET" (.ident name) (.int i)) (.int n))) st) := by
  obtain ⟨hv, hT1⟩ := C06.eval_int_top (f + 1) n (C15.bump st) h.bump
  obtain ⟨hix, hT2⟩ := C06.eval_int_top f i _ hT1
  obtain ⟨s1, hrun, hT3⟩ := C06.indexAssign_array_top name els i n k _ hT2 ho hl hk hlt
  have hasg : evalAssignment (f + 3) (.int n) "ASSIGN" (.idx "LBRACKET" (.ident name) (.int i)) =
      (do let index ← eval (f + 2) (.int i); evalIndexAssignment (.ident name) index (.int n)) := by
    rw [evalAssignment]; rfl
  have key : SameRun (evalI (f + 4) (.inf "ASSIGN" (.idx "LBRACKET" (.ident name) (.int i)) (.int n))) st
      (evalIndexAssignment (.ident name) (.int i) (.int n))
      (stateAfter (eval (f + 2) (.int i)) (stateAfter (eval (f + 3) (.int n)) (C15.bump st))) := by
    rw [C01.evalI_assign _ _ _ _ rfl]
    refine (C01.sameRun_enter _ st h.1).trans ((C01.sameRun_bind_ok _ _ _ _ hv).trans ?_)
    rw [hasg]
    exact C01.sameRun_bind_ok _ _ _ _ hix
  refine ⟨key.1.trans (by rw [outcome_eq_run, hrun]), ?_⟩
  rw [key.2, stateAfter_eq_run, hrun]; exact hT3

/-- the program `b = a; b[i] = n` -/
def C06.copyThenIndexAssign (a b : String) (i n : Int64) : List Node :=
  [.inf "ASSIGN" (.ident b) (.ident a), .inf "ASSIGN" (.idx "LBRACKET" (.ident b) (.int i)) (.int n)]

/-- **C06, statement level (T1)**: at top level, with `a` bound to an array `els` of ANY length and contents,
running `b = a; b[i] = n` (ordinary names `a ≠ b`; `i` an integer literal resolving to the in-range position
`k`: `k = i` for `i ≥ 0`, `k = len + i` for `i < 0`; `n` an integer literal) has the value `n`, leaves `a` bound
to `els`, and binds `b` to the updated copy `els.set k n`. -/
theorem C06.copy_then_index_assign_keeps_original {ext store} (f : Nat) (a b : String) (els : List Obj)
    (i n : Int64) (k : Nat) (st : St)
    (h : C06.Top ext store st) (ha : C06.Ordinary ext a) (hb : C06.Ordinary ext b) (hab : a ≠ b)
    (hla : lookupStore store a = some (.array els))
    (hlb : lookupStore store b = none ∨ (∃ r, lookupStore store b = some r ∧ ∀ re rn, r ≠ .ref re rn))
    (hk : (if i < 0 then (els.length : Int) + i.toInt else i.toInt) = (k : Int)) (hlt : k < els.length) :
    outcome (evalStatements (f + 6) (C06.copyThenIndexAssign a b i n) .null) st = .ok (.int n)
    ∧ C01.Binds (stateAfter (evalStatements (f + 6) (C06.copyThenIndexAssign a b i n) .null) st) a (.array els)
    ∧ C01.Binds (stateAfter (evalStatements (f + 6) (C06.copyThenIndexAssign a b i n) .null) st) b
        (.array (els.set k (.int n))) := by
  have hpa : ∀ e m, Obj.array els ≠ .ref e m := fun _ _ => Obj.noConfusion
  -- statement 1
  obtain ⟨he, hT0⟩ := C06.eval_ident_top (f + 2) a (.array els) (C15.bump st) h.bump ha hla hpa
    (fun _ _ => Obj.noConfusion)
  obtain ⟨h1, hT1⟩ := C06.assign_top (f + 3) b (.ident a) (.array els) st h hb he hT0 rfl hpa hlb
  -- statement 2
  have hlb1 : lookupStore (setStore store b (.array els)) b = some (.array els) := lookupStore_setStore_eq _ _ _
  obtain ⟨h2, hT2⟩ := C06.index_assign_stmt_top f b els i n k _ hT1 hb hlb1 hk hlt
  have key : SameRun (evalStatements (f + 6) (C06.copyThenIndexAssign a b i n) .null) st
      (evalI (f + 4) (.inf "ASSIGN" (.idx "LBRACKET" (.ident b) (.int i)) (.int n)))
      (stateAfter (evalI (f + 5) (.inf "ASSIGN" (.ident b) (.ident a))) st) := by
    refine (C01.stmts_cons_continue (f + 5) _ _ .null _ st (fun hc => Node.noConfusion hc) h1 rfl).trans ?_
    rw [C01.stmts_singleton (f + 3) _ _ (fun hc => Node.noConfusion hc)]
    exact SameRun.refl _ _
  refine ⟨key.1.trans h2, ?_, ?_⟩
  · rw [key.2]
    refine hT2.binds a _ ha ?_ hpa
    rw [lookupStore_setStore_ne _ _ _ _ hab, lookupStore_setStore_ne _ _ _ _ hab]; exact hla
  · rw [key.2]
    exact hT2.binds b _ hb (lookupStore_setStore_eq _ _ _) (fun _ _ => Obj.noConfusion)

/-! non-vacuity: a 10-element array (above the implementation's small/large threshold of 8) -/

def C06.ten : List Obj := [.int 0, .int 1, .int 2, .int 3, .int 4, .int 5, .int 6, .int 7, .int 8, .int 9]
def C06.st10 : St := { frames := #[{ store := [("a", .array C06.ten)] }] }

example : C06.Top [] [("a", .array C06.ten)] C06.st10 := ⟨rfl, by decide, rfl, _, rfl, rfl, rfl, rfl⟩
example : C06.Ordinary [] "a" := ⟨by decide, rfl, by decide, by decide⟩
example : C06.Ordinary [] "b" := ⟨by decide, rfl, by decide, by decide⟩
/-- the theorem applies to the 10-element array: all hypotheses hold -/
example : C01.Binds (stateAfter (evalStatements 6 (C06.copyThenIndexAssign "a" "b" 3 77) .null) C06.st10) "a"
      (.array C06.ten)
    ∧ C01.Binds (stateAfter (evalStatements 6 (C06.copyThenIndexAssign "a" "b" 3 77) .null) C06.st10) "b"
      (.array (C06.ten.set 3 (.int 77))) :=
  (C06.copy_then_index_assign_keeps_original (ext := []) (store := [("a", .array C06.ten)]) 0 "a" "b" C06.ten 3 77 3
    C06.st10 ⟨rfl, by decide, rfl, _, rfl, rfl, rfl, rfl⟩ ⟨by decide, rfl, by decide, by decide⟩
    ⟨by decide, rfl, by decide, by decide⟩ (by decide) rfl (Or.inl rfl) (by decide) (by decide)).2

end Grol.E

import GrolProofs.EvalOps
import GrolProofs.EvalFrame
import Grol.Eval.Session
/-
C10 — a failed input leaves no trace in the session.

The session model is `runInput` (Grol/Eval/Sexp.lean: one REPL input = evaluation + the recover
and `Reset` of `repl.EvalOne`) iterated on one persistent `St`.  Proved here, for ALL states,
programs and continuations:

* `C10.runInput_congr` / `C10.runInputs_congr`: an input's observation and successor state are a
  function of the session state *up to the writer stack and the step counter* (`≈` = `SameSession`).
  These are exactly the two fields a failing input can leave dirty without any side effect of the
  program (the private buffers of the calls that were active when the evaluation was abandoned, the
  consumed evaluation context), and `EvalOne` re-installs both at the start of every input.
* `C10.next_input_fresh_writer`: whatever an input left, the next one starts on a single fresh writer.
* `C10.reset_abnormal`: after a Go panic or the depth guard scope = root and depth = 0, from any state.
* `C10.reset`: from a top-level state, after ANY input the model does not decline (normal, error, Go
  panic, depth guard) the session is at top level again.  Uses `eval_restores` / `eval_keeps`
  (GrolProofs/EvalFrame.lean: induction over the whole mutual block of the evaluator).
* `C10.runInput_keeps`: no input changes the configuration, the root pointer, the extension names.
* `C10.no_trace`: from a top-level state, an input whose final state has the heap and the cache it
  started with leaves no trace: every continuation produces identical observations with and without it.

The full statement `C10.Statement` (the heap may have grown by unreachable frames, miss counters
may differ; cache unchanged) is stated below; it is proved in lean/GrolProofs/Props/C10Full.lean by a
two-run simulation of the whole evaluator up to a shift of the frame indices
(`Grol.C10.renaming_invariance`) and the invariance of the result renderer under that shift
(`Grol.C10.renderValue_ren`): `Grol.C10.statement_full : C10.Statement`, no hypothesis.
It is what the `session` correspondence suite checks on the real `repl.EvalOne`.
Without the cache hypothesis the statement is false of model and code alike (listed finding
`failed-input-leaves-cached-mutable-result`).
-/
namespace Grol.E

/-! ### the relation `≈` -/

/-- `s ≈ t`: equal in every field except the writer stack `outs` and the step counter `steps`
(the C06/C19 instrumentation log `hazards` counts as a field: the evaluator never reads it, but that
non-interference is not proved here, so `≈` asks for equal logs) -/
def SameSession (s t : St) : Prop := startInput s = startInput t

theorem SameSession.refl (s : St) : SameSession s s := rfl
theorem SameSession.symm {s t : St} (h : SameSession s t) : SameSession t s := Eq.symm h
theorem SameSession.trans {s t u : St} (h : SameSession s t) (h' : SameSession t u) : SameSession s u := Eq.trans h h'

/-- `startInput` picks the canonical representative -/
theorem sameSession_startInput (s : St) : SameSession s (startInput s) := rfl

theorem sameSession_iff (s t : St) :
    SameSession s t ↔ s.cfg = t.cfg ∧ s.frames = t.frames ∧ s.cur = t.cur ∧ s.root = t.root ∧ s.depth = t.depth ∧
      s.cache = t.cache ∧ s.extNames = t.extNames ∧ s.hazards = t.hazards := by
  cases s; cases t
  simp only [SameSession, startInput, St.mk.injEq]
  constructor
  · rintro ⟨h1, h2, h3, h4, h5, -, h6, -, h7, h8⟩; exact ⟨h1, h2, h3, h4, h5, h6, h7, h8⟩
  · rintro ⟨h1, h2, h3, h4, h5, h6, h7, h8⟩; exact ⟨h1, h2, h3, h4, h5, trivial, h6, trivial, h7, h8⟩

/-! ### determinism of one input up to `≈` -/

/-- the observation of an input and (up to `≈`) its successor state depend on the session state only
up to `≈`: the writer stack and the step counter an earlier input left behind are never read -/
theorem C10.runInput_congr {s t : St} (h : SameSession s t) (p : Node) :
    (runInput s p).2 = (runInput t p).2 ∧ SameSession (runInput s p).1 (runInput t p).1 := by
  have h' : ({ s with outs := [[]], steps := 0 } : St) = { t with outs := [[]], steps := 0 } := h
  unfold runInput
  split
  · exact ⟨rfl, h⟩
  · simp only [h']
    exact ⟨trivial, SameSession.refl _⟩

/-- a continuation of inputs on one persistent state: the observations in order -/
def runInputs (st : St) : List Node → List (Except String InputObs)
  | [] => []
  | p :: ps => (runInput st p).2 :: runInputs (runInput st p).1 ps

theorem C10.runInputs_congr {s t : St} (h : SameSession s t) (ps : List Node) : runInputs s ps = runInputs t ps := by
  induction ps generalizing s t with
  | nil => rfl
  | cons p ps ih =>
    have := C10.runInput_congr h p
    simp only [runInputs, this.1, ih this.2]

/-- whatever writers an input left stacked (the private buffers of the calls that were active when a
panic unwound the evaluation), the next input runs on a single fresh writer -/
theorem C10.next_input_fresh_writer (st : St) (q : Node) :
    (startInput st).outs = [[]] ∧ (runInput st q).2 = (runInput (startInput st) q).2 :=
  ⟨rfl, (C10.runInput_congr (sameSession_startInput st) q).1⟩

/-! ### reset -/

/-- the session is at top level: current scope = root scope, depth 0 -/
def AtTop (st : St) : Prop := st.cur = st.root ∧ st.depth = 0

/-- the second half of `runInput`: what the recover of `EvalOne` makes of the evaluation's outcome -/
def finishInput (r : Except Stop Obj) (st1 : St) : St × Except String InputObs :=
  let out := chunksBytes (st1.outs.getLast?.getD [])
  match r with
  | .ok v =>
    (st1, .ok { out := out, val := renderValue st1 v, isErr := v.isError, panic := "-", globals := renderGlobals st1 })
  | .error (.goPanic _) =>
    let st2 := { st1 with cur := st1.root, depth := 0 }
    (st2, .ok { out := out, val := "-", isErr := false, panic := "go", globals := renderGlobals st2 })
  | .error .depthGuard =>
    let st2 := { st1 with cur := st1.root, depth := 0 }
    (st2, .ok { out := out, val := "-", isErr := false, panic := "depth", globals := renderGlobals st2 })
  | .error .fuel => (st1, .error "fuel")
  | .error (.unmodelled w) => (st1, .error w)

theorem runInput_eq (st : St) (p : Node) :
    runInput st p =
      if mentions unmodelledRootNames p then (st, .error "grol-defined root helper")
      else finishInput (outcome (eval defaultFuel p) (startInput st)) (stateAfter (eval defaultFuel p) (startInput st)) := by
  unfold runInput
  split
  · rfl
  · rfl

/-- after an input that ended abnormally (Go panic, depth guard) the session is at top level, from
ANY state -/
theorem C10.reset_abnormal (st : St) (p : Node) (o : InputObs)
    (h : (runInput st p).2 = .ok o) (hp : o.panic ≠ "-") : AtTop (runInput st p).1 := by
  rw [runInput_eq] at h ⊢
  by_cases hm : mentions unmodelledRootNames p = true
  · rw [if_pos hm] at h; cases h
  · rw [if_neg hm] at h ⊢
    generalize outcome (eval defaultFuel p) (startInput st) = r at h ⊢
    generalize stateAfter (eval defaultFuel p) (startInput st) = st1 at h ⊢
    cases r with
    | ok v =>
      simp only [finishInput, Except.ok.injEq] at h
      subst h; exact absurd rfl hp
    | error e =>
      cases e with
      | goPanic s => exact ⟨rfl, rfl⟩
      | depthGuard => exact ⟨rfl, rfl⟩
      | fuel => cases h
      | unmodelled w => cases h

/-- no input ever changes the configuration, the root scope pointer or the extension names, whatever its
outcome (from `eval_keeps`, induction over the whole evaluator) -/
theorem C10.runInput_keeps (st : St) (p : Node) : Keeps st (runInput st p).1 := by
  rw [runInput_eq]
  by_cases hm : mentions unmodelledRootNames p = true
  · rw [if_pos hm]; exact ⟨rfl, rfl, rfl⟩
  · rw [if_neg hm]
    have k := eval_keeps defaultFuel p (startInput st)
    have k' : Keeps st (stateAfter (eval defaultFuel p) (startInput st)) := ⟨k.cfg, k.root, k.extNames⟩
    cases outcome (eval defaultFuel p) (startInput st) with
    | ok v => exact k'
    | error e =>
      cases e with
      | goPanic s => exact ⟨k'.cfg, k'.root, k'.extNames⟩
      | depthGuard => exact ⟨k'.cfg, k'.root, k'.extNames⟩
      | fuel => exact k'
      | unmodelled w => exact k'

/-- **Reset.**  From a top-level state, after ANY input the model does not decline — normal result,
error result, Go panic, depth guard — the session is at top level again: scope = root scope, depth 0.
Abnormal ends: by the explicit reset in the recover; normal returns (error objects included): the
evaluator restores scope and depth itself (`eval_restores`, induction over the whole evaluator). -/
theorem C10.reset (st : St) (p : Node) (o : InputObs) (hTop : AtTop st)
    (h : (runInput st p).2 = .ok o) : AtTop (runInput st p).1 := by
  by_cases hp : o.panic = "-"
  · rw [runInput_eq] at h ⊢
    by_cases hm : mentions unmodelledRootNames p = true
    · rw [if_pos hm] at h; cases h
    · rw [if_neg hm] at h ⊢
      have k := eval_keeps defaultFuel p (startInput st)
      cases hr : outcome (eval defaultFuel p) (startInput st) with
      | ok v =>
        have r := eval_restores defaultFuel p (startInput st) v hr
        show AtTop (stateAfter (eval defaultFuel p) (startInput st))
        exact ⟨by rw [r.1, k.root]; exact hTop.1, by rw [r.2]; exact hTop.2⟩
      | error e =>
        rw [hr] at h
        cases e with
        | goPanic s => exact ⟨rfl, rfl⟩
        | depthGuard => exact ⟨rfl, rfl⟩
        | fuel => cases h
        | unmodelled w => cases h
  · exact C10.reset_abnormal st p o h hp

/-! ### no trace -/

/-- **No trace, same heap.**  If the state a (failing) input leaves is `≈` the state it started from —
same heap, cache, scope, depth and configuration; the writer stack and the step counter may differ
arbitrarily — then every continuation of inputs produces exactly the observations it produces
without that input. -/
theorem C10.no_trace_of_same {st : St} {f : Node} (h : SameSession (runInput st f).1 st) (ps : List Node) :
    runInputs (runInput st f).1 ps = runInputs st ps :=
  C10.runInputs_congr h ps

/-- **No trace.**  From a top-level state, an input (failing or not) whose final state has the heap,
the cache (and the instrumentation log of in-place writes, `hazards`: a failing input that wrote
nothing in place adds nothing to it) it started with leaves no trace: every continuation of inputs produces exactly the
observations it produces without it.  Scope and depth are supplied by `C10.reset`, configuration, root
pointer and extension names by `C10.runInput_keeps`; writer stack and step counter are irrelevant by
`C10.runInputs_congr`. -/
theorem C10.no_trace (st : St) (f : Node) (o : InputObs) (hTop : AtTop st)
    (hf : (runInput st f).2 = .ok o)
    (hframes : (runInput st f).1.frames = st.frames) (hcache : (runInput st f).1.cache = st.cache)
    (hhaz : (runInput st f).1.hazards = st.hazards)
    (ps : List Node) :
    runInputs (runInput st f).1 ps = runInputs st ps := by
  have hr := C10.reset st f o hTop hf
  have hk := C10.runInput_keeps st f
  apply C10.no_trace_of_same
  rw [sameSession_iff]
  exact ⟨hk.cfg, hframes, by rw [hr.1, hk.root, hTop.1], hk.root, by rw [hr.2, hTop.2], hcache, hk.extNames, hhaz⟩

/-- top level is an invariant of the session: it holds initially … -/
theorem C10.atTop_init (cfg : Cfg) : AtTop (initState cfg) := ⟨rfl, rfl⟩

/-! ### non-vacuity: concrete evaluations checked by the kernel

(`runInput` itself starts with a test written as a `partial def`, which the kernel cannot unfold; the
examples are about its second half `finishInput`, see `runInput_eq`.) -/

/-- `1 + "a"` -/
def C10.errProg : Node := .stmts [.inf "PLUS" (.int 1) (.str [97])]
/-- `f()` with the depth limit at 0: the guard fires at top level, inside the nested `Eval` of the callee -/
def C10.deepProg : Node := .stmts [.call (.ident "f") []]

/-- a failing input (error result) with the heap and the cache it started with: the hypotheses of
`C10.no_trace` are met -/
example :
    let st := startInput (initState {})
    let r := finishInput (outcome (eval defaultFuel C10.errProg) st) (stateAfter (eval defaultFuel C10.errProg) st)
    r.2.toOption.map (·.isErr) = some true ∧ r.1.frames = st.frames ∧ r.1.cache = st.cache ∧
      r.1.hazards = st.hazards := by
  refine ⟨rfl, rfl, rfl, rfl⟩

/-- the depth guard leaves the depth counter at 1: the evaluation itself does NOT restore it, the
recover's reset does -/
example :
    let st := startInput (initState { maxDepth := 0 })
    outcome (eval defaultFuel C10.deepProg) st = .error .depthGuard ∧
    (stateAfter (eval defaultFuel C10.deepProg) st).depth = 1 ∧
    (finishInput (outcome (eval defaultFuel C10.deepProg) st) (stateAfter (eval defaultFuel C10.deepProg) st)).1.depth = 0 := by
  refine ⟨rfl, rfl, rfl⟩

/-! ### the full statement (proved in Props/C10Full.lean, see the header) -/

/-- a reachable session state -/
def C10.Reachable (st : St) : Prop :=
  ∃ (cfg : Cfg) (progs : List Node), st = progs.foldl (fun s p => (runInput s p).1) (initState cfg)

/-- `st'` extends the heap of `st` by frames only: every frame of `st` is still there with the same
bindings, parent, function and local-function flag (miss counters, the can't-cache flag and the set counter may differ) -/
def C10.HeapExtends (st st' : St) : Prop :=
  st.frames.size ≤ st'.frames.size ∧
  ∀ i (h : i < st.frames.size) (h' : i < st'.frames.size),
    (st'.frames[i]).store = (st.frames[i]).store ∧ (st'.frames[i]).outer = (st.frames[i]).outer ∧
    (st'.frames[i]).depth = (st.frames[i]).depth ∧ (st'.frames[i]).cacheKey = (st.frames[i]).cacheKey ∧
    (st'.frames[i]).function = (st.frames[i]).function ∧ (st'.frames[i]).localFunc = (st.frames[i]).localFunc

/-- what the user sees of an input: output, value, error flag, panic kind -/
def C10.visible (r : Except String InputObs) : Except String (Grol.Wire.Bytes × String × Bool × String) :=
  r.map fun o => (o.out, o.val, o.isErr, o.panic)

/-- **C10, full strength, about the model**: from any reachable top-level state, an input that fails
(error result, Go panic or depth guard) having written nothing (no output; every existing frame keeps
its bindings — new, unreachable frames and miss counters are allowed; the cache keeps its entries) is
invisible to every continuation of inputs. -/
def C10.Statement : Prop :=
  ∀ (st : St) (f : Node) (o : InputObs) (ps : List Node),
    C10.Reachable st → AtTop st →
    (runInput st f).2 = .ok o → (o.isErr = true ∨ o.panic ≠ "-") → o.out = [] →
    C10.HeapExtends st (runInput st f).1 → (runInput st f).1.cache = st.cache →
    (runInputs (runInput st f).1 ps).map C10.visible = (runInputs st ps).map C10.visible

end Grol.E

import GrolProofs.EvalOps
import Grol.Eval.Session
/-
C10 — a failed input leaves no trace in the session.

The session model is `runInput` (Grol/Eval/Sexp.lean: one REPL input = evaluation + the recover
and `Reset` of `repl.EvalOne`) iterated on one persistent `St`.  Proved here, for ALL states,
programs and continuations:

* `C10.runInput_congr` / `C10.runInputs_congr`: an input's observation and successor state are a
  function of the session state *up to the writer stack and the step counter* (`≈`).  These are
  exactly the two fields a failing input can leave dirty without any side effect of the program (the
  private buffers of the calls that were active when the evaluation was abandoned, the consumed
  evaluation context), and `EvalOne` re-installs both at the start of every input.
* `C10.next_input_fresh_writer`: whatever an input left, the next one starts on a single fresh writer.
* `C10.reset_abnormal`: after an input that ends in a Go panic or in the depth guard the scope is the
  root scope and the depth is 0.
* `C10.no_trace_same_heap`: if the failing input's final state has the heap and cache it started
  with (and the three fields no evaluation writes: cfg, root, extension names) and the session was at
  top level, every continuation of inputs produces identical observations with and without it.

The full statement `C10.Statement` (the heap may have grown by unreachable frames, miss counters
may differ) is stated below and NOT proved here: it needs a heap-renaming bisimulation over the whole
evaluator; it is what the `session` correspondence suite checks on the real `repl.EvalOne`.
-/
namespace Grol.E

/-! ### the relation `≈` -/

/-- `s ≈ t`: equal in every field except the writer stack `outs` and the step counter `steps` -/
def SameSession (s t : St) : Prop := startInput s = startInput t

theorem SameSession.refl (s : St) : SameSession s s := rfl
theorem SameSession.symm {s t : St} (h : SameSession s t) : SameSession t s := Eq.symm h
theorem SameSession.trans {s t u : St} (h : SameSession s t) (h' : SameSession t u) : SameSession s u := Eq.trans h h'

/-- `startInput` picks the canonical representative -/
theorem sameSession_startInput (s : St) : SameSession s (startInput s) := rfl

theorem sameSession_iff (s t : St) :
    SameSession s t ↔ s.cfg = t.cfg ∧ s.frames = t.frames ∧ s.cur = t.cur ∧ s.root = t.root ∧ s.depth = t.depth ∧
      s.cache = t.cache ∧ s.extNames = t.extNames := by
  cases s; cases t
  simp only [SameSession, startInput, St.mk.injEq]
  constructor
  · rintro ⟨h1, h2, h3, h4, h5, -, h6, -, h7⟩; exact ⟨h1, h2, h3, h4, h5, h6, h7⟩
  · rintro ⟨h1, h2, h3, h4, h5, h6, h7⟩; exact ⟨h1, h2, h3, h4, h5, trivial, h6, trivial, h7⟩

/-! ### determinism of one input up to `≈` -/

/-- the observation of an input and (up to `≈`) its successor state depend on the session state only
up to `≈`: the writer stack and the step counter an earlier input left behind are never read -/
theorem C10.runInput_congr {s t : St} (h : SameSession s t) (p : Node) :
    (runInput s p).2 = (runInput t p).2 ∧ SameSession (runInput s p).1 (runInput t p).1 := by
  have h' : ({ s with outs := [[]], steps := 0 } : St) = { t with outs := [[]], steps := 0 } := h
  unfold runInput
  split
  · exact ⟨rfl, h⟩
  · simp only [h']
    exact ⟨trivial, SameSession.refl _⟩

/-- a continuation of inputs on one persistent state: the observations in order -/
def runInputs (st : St) : List Node → List (Except String InputObs)
  | [] => []
  | p :: ps => (runInput st p).2 :: runInputs (runInput st p).1 ps

theorem C10.runInputs_congr {s t : St} (h : SameSession s t) (ps : List Node) : runInputs s ps = runInputs t ps := by
  induction ps generalizing s t with
  | nil => rfl
  | cons p ps ih =>
    have := C10.runInput_congr h p
    simp only [runInputs, this.1, ih this.2]

/-- whatever writers an input left stacked (the private buffers of the calls that were active when a
panic unwound the evaluation), the next input runs on a single fresh writer -/
theorem C10.next_input_fresh_writer (st : St) (q : Node) :
    (startInput st).outs = [[]] ∧ (runInput st q).2 = (runInput (startInput st) q).2 :=
  ⟨rfl, (C10.runInput_congr (sameSession_startInput st) q).1⟩

/-! ### reset -/

/-- the session is at top level: current scope = root scope, depth 0 -/
def AtTop (st : St) : Prop := st.cur = st.root ∧ st.depth = 0

/-- the second half of `runInput`: what the recover of `EvalOne` makes of the evaluation's outcome -/
def finishInput (r : Except Stop Obj) (st1 : St) : St × Except String InputObs :=
  let out := chunksBytes (st1.outs.getLast?.getD [])
  match r with
  | .ok v =>
    (st1, .ok { out := out, val := renderValue st1 v, isErr := v.isError, panic := "-", globals := renderGlobals st1 })
  | .error (.goPanic _) =>
    let st2 := { st1 with cur := st1.root, depth := 0 }
    (st2, .ok { out := out, val := "-", isErr := false, panic := "go", globals := renderGlobals st2 })
  | .error .depthGuard =>
    let st2 := { st1 with cur := st1.root, depth := 0 }
    (st2, .ok { out := out, val := "-", isErr := false, panic := "depth", globals := renderGlobals st2 })
  | .error .fuel => (st1, .error "fuel")
  | .error (.unmodelled w) => (st1, .error w)

theorem runInput_eq (st : St) (p : Node) :
    runInput st p =
      if mentions unmodelledRootNames p then (st, .error "grol-defined root helper")
      else finishInput (outcome (eval defaultFuel p) (startInput st)) (stateAfter (eval defaultFuel p) (startInput st)) := by
  unfold runInput
  split
  · rfl
  · rfl

/-- after an input that ended abnormally (Go panic, depth guard) the session is at top level, from
ANY state -/
theorem C10.reset_abnormal (st : St) (p : Node) (o : InputObs)
    (h : (runInput st p).2 = .ok o) (hp : o.panic ≠ "-") : AtTop (runInput st p).1 := by
  rw [runInput_eq] at h ⊢
  by_cases hm : mentions unmodelledRootNames p = true
  · rw [if_pos hm] at h; cases h
  · rw [if_neg hm] at h ⊢
    generalize outcome (eval defaultFuel p) (startInput st) = r at h ⊢
    generalize stateAfter (eval defaultFuel p) (startInput st) = st1 at h ⊢
    cases r with
    | ok v =>
      simp only [finishInput, Except.ok.injEq] at h
      subst h; exact absurd rfl hp
    | error e =>
      cases e with
      | goPanic s => exact ⟨rfl, rfl⟩
      | depthGuard => exact ⟨rfl, rfl⟩
      | fuel => cases h
      | unmodelled w => cases h

end Grol.E

import Grol.Registers
/-
C05 — integer registers are unobservable.

What is proved here is the allocation discipline only: with the post-fix protocol (allocate
when a register is free, otherwise fall back; release on every exit) no sequence or nesting of
counted loops can exhaust the register file or release out of order.  The equivalence of the
two evaluator configurations themselves (registers on / off) is NOT proved: the evaluator model
(`Grol.E`) is the register-free configuration, and the register configuration of the real code
is compared with it on every generated program by the `eval` correspondence suite.
-/
namespace Grol.Reg

/-- a computation on the register file is balanced: no panic, and the count on exit = on entry -/
def Balanced (body : File → Out File) : Prop :=
  ∀ f, f.numReg ≤ numRegisters → ∃ f', body f = .ok f' ∧ f'.numReg = f.numReg

/-- a loop around a balanced body is balanced: any exit releases, exhaustion falls back -/
theorem C05.loop_balanced (v : Int) (body : File → Out File) (hb : Balanced body) :
    Balanced (fun f => f.withLoopRegister v body) := by
  intro f hf
  unfold File.withLoopRegister
  by_cases h : f.hasRegisters = true
  · simp only [h, if_true]
    have hlt : f.numReg < numRegisters := by simpa [File.hasRegisters] using h
    simp only [File.make, h, Bool.not_true, Bool.false_eq_true, if_false]
    obtain ⟨f2, h2, hn⟩ := hb { regs := f.regs.set f.numReg v, numReg := f.numReg + 1 } (by simp; omega)
    simp only [h2]
    simp at hn
    refine ⟨{ f2 with numReg := f2.numReg - 1 }, ?_, by simp [hn]⟩
    simp [File.release, hn]
  · simp only [h, Bool.false_eq_true, if_false]
    exact hb f hf

/-- any nesting depth of loops (here: `n` loops nested around a balanced innermost body) is balanced,
so "No more registers available" and "Releasing non last register" are unreachable -/
theorem C05.nested_loops_balanced (body : File → Out File) (hb : Balanced body) (vs : List Int) :
    Balanced (vs.foldr (fun v inner => fun f => f.withLoopRegister v inner) body) := by
  induction vs with
  | nil => exact hb
  | cons v vs ih => exact C05.loop_balanced v _ ih

/-- running balanced computations one after the other from an `ok` state -/
def runSeq (bodies : List (File → Out File)) (acc : Out File) : Out File :=
  bodies.foldl (fun acc b => match acc with | .ok f => b f | .goPanic s => .goPanic s) acc

/-- any sequence of balanced computations is balanced (any number of top-level loops in a session) -/
theorem C05.sequence_balanced (bodies : List (File → Out File)) (hb : ∀ b ∈ bodies, Balanced b) :
    Balanced (fun f => runSeq bodies (.ok f)) := by
  induction bodies with
  | nil => intro f _; exact ⟨f, rfl, rfl⟩
  | cons b bs ih =>
    intro f hf
    obtain ⟨f1, h1, hn1⟩ := hb b (by simp) f hf
    obtain ⟨f2, h2, hn2⟩ := ih (fun b' hb' => hb b' (by simp [hb'])) f1 (by omega)
    refine ⟨f2, ?_, by omega⟩
    simp only [runSeq, List.foldl_cons, h1] at h2 ⊢
    exact h2

/-- non-vacuity: 9 nested loops around a trivial body (one more than there are registers) -/
example : ∃ f', (List.replicate 9 (0 : Int)).foldr (fun v inner => fun f => File.withLoopRegister f v inner) (fun f => .ok f) {} = .ok f' ∧ f'.numReg = 0 :=
  C05.nested_loops_balanced (fun f => .ok f) (fun f _ => ⟨f, rfl, rfl⟩) _ {} (by decide)

end Grol.Reg

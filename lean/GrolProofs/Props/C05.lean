import Grol.Registers
import GrolProofs.RegRewrite
import Grol.Generated.RegFacts
/-
C05 — integer registers are unobservable.

Part 1 (`Grol.Reg`): the allocation discipline: with the post-fix protocol (allocate when a register
is free, otherwise fall back; release on every exit) no sequence or nesting of counted loops can
exhaust the register file or release out of order.

Part 2 (`Grol.RegRewrite`): the optimisation itself.  `modifyR` is the model of
`ast.Modify(body, ModifyRegister(register))`, tied to the code by the `regrewrite` suite.
`rewrite_shape`: a successful rewrite replaced exactly the identifier nodes of the name, nothing else;
`rewrite_refuses`: it gives up exactly on the listed syntactic conditions; `useRegister_spec`: the whole
decision of `evalForInteger` / `extendFunctionEnv`.

Part 3 (`GrolProofs/RegSim.lean`): the simulation between the two configurations — see there for what
is proved and what is only stated.
-/
namespace Grol.Reg

/-- a computation on the register file is balanced: no panic, and the count on exit = on entry -/
def Balanced (body : File → Out File) : Prop :=
  ∀ f, f.numReg ≤ numRegisters → ∃ f', body f = .ok f' ∧ f'.numReg = f.numReg

/-- a loop around a balanced body is balanced: any exit releases, exhaustion falls back -/
theorem C05.loop_balanced (v : Int) (body : File → Out File) (hb : Balanced body) :
    Balanced (fun f => f.withLoopRegister v body) := by
  intro f hf
  unfold File.withLoopRegister
  by_cases h : f.hasRegisters = true
  · simp only [h, if_true]
    have hlt : f.numReg < numRegisters := by simpa [File.hasRegisters] using h
    simp only [File.make, h, Bool.not_true, Bool.false_eq_true, if_false]
    obtain ⟨f2, h2, hn⟩ := hb { regs := f.regs.set f.numReg v, numReg := f.numReg + 1 } (by simp; omega)
    simp only [h2]
    simp at hn
    refine ⟨{ f2 with numReg := f2.numReg - 1 }, ?_, by simp [hn]⟩
    simp [File.release, hn]
  · simp only [h, Bool.false_eq_true, if_false]
    exact hb f hf

/-- any nesting depth of loops (here: `n` loops nested around a balanced innermost body) is balanced,
so "No more registers available" and "Releasing non last register" are unreachable -/
theorem C05.nested_loops_balanced (body : File → Out File) (hb : Balanced body) (vs : List Int) :
    Balanced (vs.foldr (fun v inner => fun f => f.withLoopRegister v inner) body) := by
  induction vs with
  | nil => exact hb
  | cons v vs ih => exact C05.loop_balanced v _ ih

/-- running balanced computations one after the other from an `ok` state -/
def runSeq (bodies : List (File → Out File)) (acc : Out File) : Out File :=
  bodies.foldl (fun acc b => match acc with | .ok f => b f | .goPanic s => .goPanic s) acc

/-- any sequence of balanced computations is balanced (any number of top-level loops in a session) -/
theorem C05.sequence_balanced (bodies : List (File → Out File)) (hb : ∀ b ∈ bodies, Balanced b) :
    Balanced (fun f => runSeq bodies (.ok f)) := by
  induction bodies with
  | nil => intro f _; exact ⟨f, rfl, rfl⟩
  | cons b bs ih =>
    intro f hf
    obtain ⟨f1, h1, hn1⟩ := hb b (by simp) f hf
    obtain ⟨f2, h2, hn2⟩ := ih (fun b' hb' => hb b' (by simp [hb'])) f1 (by omega)
    refine ⟨f2, ?_, by omega⟩
    simp only [runSeq, List.foldl_cons, h1] at h2 ⊢
    exact h2

/-- non-vacuity: 9 nested loops around a trivial body (one more than there are registers) -/
example : ∃ f', (List.replicate 9 (0 : Int)).foldr (fun v inner => fun f => File.withLoopRegister f v inner) (fun f => .ok f) {} = .ok f' ∧ f'.numReg = 0 :=
  C05.nested_loops_balanced (fun f => .ok f) (fun f _ => ⟨f, rfl, rfl⟩) _ {} (by decide)

end Grol.Reg

namespace Grol.RegRewrite
open Grol.E

/-- (a) shape of a successful rewrite, for a body that may already hold registers of enclosing
rewrites: erasing the registers gives the same tree as before; the result is the body with every
identifier node of the name replaced and nothing else changed (`substAll`); no identifier node of
the name is left; the new register occurs once per replaced identifier -/
theorem C05.rewrite_shape_nested (name : String) (idx : Nat) (b b' : RNode) (h : modifyR name idx b = some b') :
    erase b' = erase b ∧ b' = substAll name idx b ∧ countIdent name b' = 0 ∧
      countReg name idx b' = countIdent name b + countReg name idx b := by
  rw [modifyR_spec] at h
  by_cases hr : refuses name idx b = true
  · simp [hr] at h
  · have hr' : refuses name idx b = false := by simpa using hr
    rw [hr'] at h
    simp only [Bool.false_eq_true, if_false, Option.some.injEq] at h
    subst h
    exact ⟨erase_substAll name idx b, rfl, countIdent_substAll name idx b, countReg_substAll name idx b⟩

/-- (a) for a parsed body: `erase b' = b` and every identifier occurrence of the name is a register -/
theorem C05.rewrite_shape (name : String) (idx : Nat) (b : Node) (b' : RNode) (h : modifyRegister name idx b = some b') :
    erase b' = b ∧ b' = substAll name idx (embed b) ∧ countIdent name b' = 0 ∧
      countReg name idx b' = countIdent name (embed b) := by
  obtain ⟨h1, h2, h3, h4⟩ := C05.rewrite_shape_nested name idx (embed b) b' h
  refine ⟨by rw [h1, erase_embed], h2, h3, ?_⟩
  rw [h4, countReg_embed]; omega

/-- (b) the rewrite gives up exactly when the body `refuses` the register: it contains a function literal,
`x++`/`x--`, `x = …`/`x := …` (also as the variable of an inner loop), `++x`/`--x`, `m.x`, `del(x)`, a `quote(…)`,
a direct call `eval(…)` (repo fix 5c922e6), or a macro literal with the parameter `x` (`refuses` is this list, as a
recursive predicate on the tree) -/
theorem C05.rewrite_refuses (name : String) (idx : Nat) (b : RNode) :
    modifyR name idx b = none ↔ refuses name idx b = true := by
  rw [modifyR_spec]
  by_cases hr : refuses name idx b = true <;> simp [hr]

/-- the decision of `evalForInteger` / `extendFunctionEnv` for one variable never panics, and the
variable lives in a register iff: integer value, non-empty name, registers enabled, a register free,
not a constant name, not a reserved name (`self`, `info`; repo fix: such a name is not read from the variable), and the body
does not refuse.  The file grows by exactly that register. -/
theorem C05.useRegister_spec (noReg : Bool) (f : Reg.File) (name : String) (isInt : Bool) (v : Int) (body : RNode) :
    ∃ d, useRegister noReg f name isInt v body = .ok d ∧
      (d.kept = true ↔ (isInt = true ∧ name ≠ "" ∧ noReg = false ∧ f.numReg < Reg.numRegisters ∧
                        isConstant name = false ∧ reservedName name = false ∧ refuses name f.numReg body = false)) ∧
      (d.kept = true → d.file.numReg = f.numReg + 1 ∧ d.idx = some f.numReg ∧
          d.body = if countIdent name body = 0 then body else substAll name f.numReg body) ∧
      (d.kept = false → d.file.numReg = f.numReg ∧ d.body = body) := by
  unfold useRegister
  by_cases he : (isInt && registerEligible noReg f name) = true
  · have he' := he
    simp only [registerEligible, Bool.and_eq_true, Bool.not_eq_true', bne_iff_ne, ne_eq, Reg.File.hasRegisters,
      decide_eq_true_eq] at he'
    obtain ⟨hi, ⟨⟨⟨hn, hr⟩, hh⟩, hc⟩, hrs⟩ := he'
    have hh' : f.hasRegisters = true := by simpa [Reg.File.hasRegisters] using hh
    simp only [he, Bool.not_true, Bool.false_eq_true, if_false, Reg.File.make, hh']
    rw [modifyR_spec]
    by_cases hrf : refuses name f.numReg body = true
    · simp only [hrf, if_true, Reg.File.release]
      simp [hrf]
    · simp only [hrf, if_false]
      simp [hi, hn, hr, hh, hc, hrs, hrf]
  · simp only [he, Bool.not_false, if_true]
    refine ⟨_, rfl, ?_, by simp, by simp⟩
    simp only [Bool.false_eq_true, false_iff]
    intro ⟨hi, hn, hr, hh, hc, hrs, _⟩
    apply he
    simp [registerEligible, hi, hn, hr, hc, hrs, Reg.File.hasRegisters, hh]

/-- non-vacuity: `for i = 3 { s = s + i * i }` rewrites both occurrences of `i` -/
example : modifyRegister "i" 0 (.stmts [.inf "ASSIGN" (.ident "s") (.inf "PLUS" (.ident "s") (.inf "ASTERISK" (.ident "i") (.ident "i")))]) =
    some (.stmts [.inf "ASSIGN" (.ident "s") (.inf "PLUS" (.ident "s") (.inf "ASTERISK" (.reg "i" 0) (.reg "i" 0)))]) := by rfl

/-- non-vacuity: `i = 1`, `i++`, `m.i`, `del(i)`, a function literal are refused -/
example : modifyRegister "i" 0 (.stmts [.post "INCR" "i"]) = none ∧
    modifyRegister "i" 0 (.stmts [.inf "ASSIGN" (.ident "i") (.int 1)]) = none ∧
    modifyRegister "i" 0 (.idx "DOT" (.ident "m") (.ident "i")) = none ∧
    modifyRegister "i" 0 (.builtin "DEL" [.ident "i"]) = none ∧
    modifyRegister "i" 0 (.fn none [] false true "" (.stmts [])) = none := ⟨rfl, rfl, rfl, rfl, rfl⟩

end Grol.RegRewrite

/-! ### the eligibility tests of the Go source, pinned (regenerated from eval/eval.go on every run)

The parameter site (`extendFunctionEnv`) is driven for real by the `regrewrite` suite.  The loop site
(`evalForInteger`) cannot be observed without running the loop: its test is pinned here as source text, and
`Grol.RegRewrite.registerEligible noReg f name = (name != "" && !noReg && f.hasRegisters && !isConstant name && !reservedName name)`
is that text with `s.NoReg` ↦ `noReg`, `s.env.HasRegisters()` ↦ `f.hasRegisters`, `object.Constant` ↦ `isConstant`,
`object.ReservedName` ↦ `reservedName` (`self`, `info`; the names of registered extension functions, the third kind, are
told to the regrewrite suite per candidate by the harness).  The loop site's last conjunct `!s.env.IsOwnFunctionName(name)` (repo fix
07c7aea: inside a named function its name means the function) is the counterpart of the parameter site's `!ownName`: both are
outside `registerEligible` (the model has no function name; the hook's function has none) and are covered by the eval suite.
The parameter test is the same conjunction without `name != ""` (the empty name is a constant name:
`isConstant "" = true`), with the integer test (`isInt` in `useRegister`) and `!ownName` (the parameter is not
named like the function itself; the hook's function has no name). A change of either expression fails here. -/
namespace Grol.Generated.RegFacts

theorem C05.loop_eligibility_pinned :
    loopEligibility = ["name != \"\" && !s.NoReg && s.env.HasRegisters() && !object.Constant(name) && !object.ReservedName(name) && !s.env.IsOwnFunctionName(name)"] := rfl

theorem C05.param_eligibility_pinned :
    paramEligibility = ["!s.NoReg && pval.Type() == object.INTEGER && env.HasRegisters() && !object.Constant(param.Value().Literal()) && !object.ReservedName(param.Value().Literal()) && !ownName && !shadowed"] ∧
    paramOwnName = ["fn.Name != nil && fn.Name.Literal() == param.Value().Literal()"] := ⟨rfl, rfl⟩

end Grol.Generated.RegFacts

namespace Grol.RegRewrite
/-- the model's test, literally the pinned conjunction; and the empty name is never eligible at the parameter
site either, where `name != ""` is not tested -/
theorem C05.registerEligible_is_the_pinned_test (noReg : Bool) (f : Reg.File) (name : String) :
    registerEligible noReg f name = (name != "" && !noReg && f.hasRegisters && !Grol.E.isConstant name && !reservedName name) ∧
    Grol.E.isConstant "" = true := ⟨rfl, by decide⟩
end Grol.RegRewrite

import Grol.Sanitize
import Grol.Generated.IOFacts
/-
C17 — restricted IO confines file access to plain `.gr` names of the current directory.

Part 1: theorems about the model `Grol.Sanitize.sanitize` of extensions.sanitizeFileName (tied to the
Go code by the `sanitize` suite: exhaustive names over the property's alphabet through the real
function, and save/load through repl.EvalStringWithOption on a real scratch tree).
Part 2: expectation theorems (by `decide`) on facts regenerated from the Go sources on every run
(`Grol.Generated.IOFacts`): the list of file-system / process API call sites and the conditions under
which save / load / exec / run are registered.  A new call site or a moved registration breaks them.
-/
namespace Grol.Sanitize
open Grol.Wire

/-! ### Part 1: the sanitiser -/

theorem trimSuffix_append_ext (b : Bytes) : trimSuffix (b ++ ext) = b := by
  unfold trimSuffix
  have h : ext.isSuffixOf (b ++ ext) = true := by
    rw [List.isSuffixOf_iff_suffix]; exact List.suffix_append b ext
  rw [if_pos h]
  simp

theorem trimSuffix_of_not_suffix (s : Bytes) (h : ¬ ext <:+ s) : trimSuffix s = s := by
  unfold trimSuffix
  have : ¬ (ext.isSuffixOf s = true) := by rw [List.isSuffixOf_iff_suffix]; exact h
  rw [if_neg this]

theorem dot_not_alphaNum : isAlphaNum 46 = false := by decide

/-- a name made of identifier characters does not end in ".gr" -/
theorem not_suffix_of_all_alphaNum (s : Bytes) (h : ∀ c ∈ s, isAlphaNum c = true) : ¬ ext <:+ s := by
  rintro ⟨t, rfl⟩
  have := h 46 (by simp [ext])
  rw [dot_not_alphaNum] at this
  cases this

/-- **C17 (1)**: under restricted IO every accepted request — with or without argument — names
`b ++ ".gr"` with `b` over `[A-Za-z0-9_]`; in empty-only mode it names ".gr". -/
theorem C17.restricted_shape (cfg : Config) (arg : Option Bytes) (f : Bytes)
    (hr : cfg.unrestricted = false) (h : sanitize cfg arg = some f) :
    ∃ b, f = b ++ ext ∧ (∀ c ∈ b, isAlphaNum c = true) ∧ (cfg.emptyOnly = true → f = ext) := by
  cases arg with
  | none =>
    simp [sanitize] at h
    exact ⟨[], by simp [h], by simp, fun _ => h.symm⟩
  | some file =>
    unfold sanitize at h
    simp only [hr] at h
    by_cases he : (cfg.emptyOnly && file != []) = true
    · rw [if_pos he] at h; cases h
    · rw [if_neg he] at h
      simp only [Bool.false_eq_true, if_false] at h
      by_cases ha : (trimSuffix file).all isAlphaNum = true
      · rw [if_pos ha] at h
        injection h with h
        refine ⟨trimSuffix file, h.symm, ?_, ?_⟩
        · simpa [List.all_eq_true] using ha
        · intro hE
          have : file = [] := by
            cases file with
            | nil => rfl
            | cons a t => simp [hE] at he
          subst this
          rw [← h]; rfl
      · rw [if_neg ha] at h; cases h

/-- no argument: always ".gr" -/
theorem C17.no_argument (cfg : Config) : sanitize cfg none = some ext := rfl

theorem count_dot_alphaNum (b : Bytes) (h : ∀ c ∈ b, isAlphaNum c = true) : b.count 46 = 0 := by
  rw [List.count_eq_zero]
  intro hm
  have := h 46 hm
  rw [dot_not_alphaNum] at this
  cases this

/-- **C17 (1'), confinement**: such a name contains no '/', no '\\', no NUL byte and no "..": it is a
plain file name of the current directory (and it is not empty). -/
theorem C17.restricted_confined (cfg : Config) (arg : Option Bytes) (f : Bytes)
    (hr : cfg.unrestricted = false) (h : sanitize cfg arg = some f) :
    (∀ c ∈ f, c ≠ 47 ∧ c ≠ 92 ∧ c ≠ 0) ∧ ¬ [46, 46] <:+: f ∧ f ≠ [] := by
  obtain ⟨b, rfl, hb, _⟩ := C17.restricted_shape cfg arg f hr h
  refine ⟨?_, ?_, by simp [ext]⟩
  · intro c hc
    rw [List.mem_append] at hc
    rcases hc with hc | hc
    · have := hb c hc
      refine ⟨?_, ?_, ?_⟩ <;> (rintro rfl; revert this; decide)
    · simp [ext] at hc
      rcases hc with rfl | rfl | rfl <;> decide
  · rintro ⟨s, t, hst⟩
    have h1 : (b ++ ext).count 46 = 1 := by
      rw [List.count_append, count_dot_alphaNum b hb]; decide
    rw [← hst] at h1
    simp [List.count_append] at h1
    omega

/-- **C17 (2)**: acceptance is a (decidable) function of the name and the configuration alone — the
model has no other input — and, for the restricted configuration, it is exactly: the name, after
removing one ".gr" suffix if present, consists of identifier characters. -/
theorem C17.accepted_iff (n f : Bytes) :
    sanitize ⟨false, false⟩ (some n) = some f ↔
      ((∀ c ∈ n, isAlphaNum c = true) ∧ f = n ++ ext) ∨
      (∃ b, n = b ++ ext ∧ (∀ c ∈ b, isAlphaNum c = true) ∧ f = n) := by
  constructor
  · intro h
    simp only [sanitize, Bool.false_and, Bool.false_eq_true, if_false] at h
    by_cases ha : (trimSuffix n).all isAlphaNum = true
    · rw [if_pos ha] at h
      injection h with h
      have ha' : ∀ c ∈ trimSuffix n, isAlphaNum c = true := by simpa [List.all_eq_true] using ha
      by_cases hs : ext <:+ n
      · obtain ⟨b, rfl⟩ := hs
        rw [trimSuffix_append_ext] at h ha'
        exact Or.inr ⟨b, rfl, ha', h.symm⟩
      · rw [trimSuffix_of_not_suffix n hs] at h ha'
        exact Or.inl ⟨ha', h.symm⟩
    · rw [if_neg ha] at h; cases h
  · rintro (⟨ha, rfl⟩ | ⟨b, rfl, hb, rfl⟩)
    · simp only [sanitize, Bool.false_and, Bool.false_eq_true, if_false]
      rw [trimSuffix_of_not_suffix n (not_suffix_of_all_alphaNum n ha)]
      have : n.all isAlphaNum = true := by simpa [List.all_eq_true] using ha
      rw [if_pos this]
    · simp only [sanitize, Bool.false_and, Bool.false_eq_true, if_false]
      rw [trimSuffix_append_ext]
      have : b.all isAlphaNum = true := by simpa [List.all_eq_true] using hb
      rw [if_pos this]

/-- empty-only mode accepts the empty name only (and then names ".gr") -/
theorem C17.emptyOnly_iff (n f : Bytes) :
    sanitize ⟨false, true⟩ (some n) = some f ↔ n = [] ∧ f = ext := by
  cases n with
  | nil => simp [sanitize, trimSuffix, ext]; exact eq_comm
  | cons a t => simp [sanitize]

/-! non-vacuity -/
example : sanitize ⟨false, false⟩ (some [102, 105, 98, 95, 53, 48]) = some [102, 105, 98, 95, 53, 48, 46, 103, 114] := by decide
example : sanitize ⟨false, false⟩ (some [97, 46, 103, 114]) = some [97, 46, 103, 114] := by decide
example : sanitize ⟨false, false⟩ (some [46, 46, 47, 97]) = none := by decide        -- "../a"
example : sanitize ⟨false, false⟩ (some [97, 46, 103, 114, 46, 103, 114]) = none := by decide  -- "a.gr.gr": one suffix only
example : sanitize ⟨true, false⟩ (some [46, 46, 47, 97]) = some [46, 46, 47, 97] := by decide  -- unrestricted: unchanged
example : sanitize ⟨false, true⟩ (some [97]) = none := by decide

end Grol.Sanitize

/-! ### Part 2: expectations on the facts extracted from the Go sources -/
namespace Grol.Generated.IOFacts

/-- Every call of a file-system / process / network API in the production sources, classified:
* program-named, through sanitizeFileName: `saveFunc` os.Create(file), `loadFunc` os.Open(file)
* fixed name in the current directory: image.save os.Create("grol.png"); AutoLoad os.Open(".gr");
  AutoSave os.CreateTemp(".", ".grol*.tmp") + os.Rename(temp, ".gr")
* process execution: `createCmd` exec.CommandContext — only reachable from exec/run (below)
* chosen by the host, not by the program: main.go processOneFile (script named on the command line),
  main_pprof.go (the profile-cpu and profile-mem flags), wasm/dev_server.go (a development web server, `!wasm`) -/
def expectedFileSites : List Site := [
  ⟨"extensions/extension.go", "loadFunc", "os.Open", "file"⟩,
  ⟨"extensions/extension.go", "saveFunc", "os.Create", "file"⟩,
  ⟨"extensions/images.go", "createImageFunctions", "os.Create", "\"grol.png\""⟩,
  ⟨"extensions/shell.go", "createCmd", "exec.CommandContext", "s.Context, cmdArgs[0], cmdArgs[1:]"⟩,
  ⟨"main.go", "processOneFile", "os.Open", "file"⟩,
  ⟨"main_pprof.go", "pprofAfterHook", "os.Create", "*memprofile"⟩,
  ⟨"main_pprof.go", "pprofBeforeHook", "os.Create", "*cpuprofile"⟩,
  ⟨"repl/repl.go", "AutoLoad", "os.Open", "AutoSaveFile"⟩,
  ⟨"repl/repl.go", "AutoSave", "os.CreateTemp", "\".\", \".grol*.tmp\""⟩,
  ⟨"repl/repl.go", "AutoSave", "os.Rename", "f.Name(), AutoSaveFile"⟩,
  ⟨"wasm/dev_server.go", "main", "http.Dir", "path"⟩,
  ⟨"wasm/dev_server.go", "main", "http.FileServer", "http.Dir(path)"⟩,
  ⟨"wasm/dev_server.go", "main", "http.ListenAndServe", "port, fs"⟩ ]

/-- **C17 (3a)**: the file / process API call sites are exactly the classified ones -/
theorem C17.file_sites_expected : fileSites = expectedFileSites := by decide

/-- all `if` conditions guarding the registrations of the extension `name`: its own enclosing conditions
together with those of every call of the create* function it is registered in -/
def guards (name : String) : List (List String) :=
  (extensionNames.filter (·.1 == name)).flatMap fun e =>
    match createCalls.filter (·.1 == e.2.1) with
    | [] => [e.2.2]          -- registered in a function that is not called through a create* call
    | calls => calls.map fun c => c.2.2 ++ e.2.2

/-- **C17 (3b)**: exec and run are registered in one place each, and only under `c.UnrestrictedIOs`;
save only under `c.HasSave`, load only under `c.HasLoad` -/
theorem C17.registration_conditions :
    guards "exec" = [["c.UnrestrictedIOs"]] ∧ guards "run" = [["c.UnrestrictedIOs"]] ∧
    guards "save" = [["c.HasSave"]] ∧ guards "load" = [["c.HasLoad"]] := by decide

/-- **C17 (3c)**: the process API site `createCmd` is called from createShellFunctions only (whose one
call is under `c.UnrestrictedIOs`), and image.save — the only other extension with a file site — is
registered unconditionally with its fixed name -/
theorem C17.process_site_confined :
    (createCalls.filter (·.1 == "createCmd")).all (·.2.1 == "createShellFunctions") = true ∧
    (createCalls.filter (·.1 == "createShellFunctions")) = [("createShellFunctions", "initInternal", ["c.UnrestrictedIOs"])] ∧
    guards "image.save" = [[]] := by decide

end Grol.Generated.IOFacts

import Grol.Sanitize
/- C17: theorems (in progress) -/

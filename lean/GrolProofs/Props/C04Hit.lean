import GrolProofs.Props.C04Det
/-
C04 (B) — "a cache HIT returns what a cache-OFF evaluation from the current state returns": the invariant, the
parts of the argument that are proved, and the exact statements that are still missing.

`C04.EntryValid st c` (semantic form): whatever call the entry `c` can serve in `st` — a function with the
entry's key, arguments that pass the key test — there is a completed QUIET cache-off evaluation of that call (up
to the renaming of `C04.quiet_call_deterministic`) from a state that `C04.rerunState st` simulates (`StRq`: same
bindings except on a dirty set of untrusted, untracked ones), and it produced the entry's result and output.
`C04.rerunState st` is `st` with the memoization off, an empty cache, one fresh writer and a fresh step/depth
budget (a hit shortens the recursion: the current depth and step counters are no part of the statement).

PROVED here
  (a) `C04.cacheValid_nil`, `C04.cacheValid_init`: the empty cache is valid.
  (c0) `C04.cacheValid_congr`: validity only depends on `rerunState`: it survives every step that changes only
      the cache (dropping entries: `functionChanged`, the constant-deletion path, `Cache.Set`'s replacement of an
      equal key), the output writers, the step and depth counters.
  (d) `C04.hit_is_evaluation_of_valid`: in a state whose cache is valid, a hit for `f(args)` returns the value and
      the output of a quiet cache-off evaluation of `f(args)` from `rerunState st` (from `C04.cacheGet_hit_mem` and
      `C04.quiet_call_deterministic`).

NOT proved — stated below as `def … : Prop`
  (b) `C04.CacheOnOffSim`: the entry `finishCall` stores is valid.  The storing run ran with the cache ON: its nested
      hits evaluated nothing.  Needed: by induction on the nesting of calls (a nested hit is valid by the invariant),
      a quiet cache-ON call from a valid state is reproduced by a cache-OFF call — a NON-lockstep simulation (the
      cache-off run allocates the frames the hits skipped: a general renaming of frame indices, not a shift).
  (c) `C04.StepsPreserveValid`: every evaluator step keeps the cache valid.  Needed beyond (c0): writes to untrusted
      bindings enlarge the dirty set, which `StRq`'s `clean` (no value of ANY frame refers to a dirty binding)
      does not allow — dead frames keep the references `makeRef` stored in them; the relation has to be restricted
      to the frames reachable from the callee.  And validity is relative to the CALLER (`StRq.cur`): it has to
      survive the change of the current frame at a call.  With the code as it is this is FALSE: known finding
      `recursive-call-hit-ignores-callers-local-function` (a same-function call is parented to its caller's frame,
      so `f(0)` called from `f(1)` sees the caller's local `g`, the cached `f(0)` saw the root `g`).
-/
namespace Grol.E
open Grol.R

/-- where "evaluating the call now, without the cache" happens: memoization off, empty cache, one fresh writer,
fresh step and depth budget -/
def C04.rerunState (st : St) : St := { C04.cacheOff st with outs := [[]], steps := 0, depth := 0 }

/-- what a run that started with the single fresh writer has written -/
def C04.written (st : St) : Grol.Wire.Bytes :=
  match st.outs with
  | o :: _ => chunksBytes o
  | [] => []

/-- the entry `c` is valid in `st`: every call it can serve there has a quiet cache-off evaluation (from a state
`rerunState st` simulates) that returned the entry's result and output.  `K` = the function values of the session:
the entry only records the KEY (the printed text) of the function; that equal keys mean equal code among the
functions of `K` is what (b) needs (C02's injectivity of the printed form, with its recorded classes), not (d). -/
def C04.EntryValid (K : FuncVal → Prop) (st : St) (c : CacheEntry) : Prop :=
  ∀ (f : FuncVal) (args : List Obj), K f → f.key = c.key → keyEqList c.args args = true →
    ∃ (P : Qp) (g : FuncVal) (bargs : List Obj) (fuel : Nat) (t t' : St) (w : Obj),
      StRq P (C04.rerunState st) t ∧ cleanL P bargs ∧ renFn P.σ g = f ∧ renL P.σ bargs = args ∧
      runM (applyFunction fuel (.func g) bargs) t = (.ok w, t') ∧ missOf t' t.cur = missOf t t.cur ∧
      c.result = ren P.σ w ∧ c.output = C04.written t'

/-- the invariant: every entry of the cache is valid -/
def C04.CacheValid (K : FuncVal → Prop) (st : St) : Prop := ∀ c ∈ st.cache, C04.EntryValid K st c

/-! ### (a) initially -/

theorem C04.cacheValid_nil (K : FuncVal → Prop) (st : St) (h : st.cache = []) : C04.CacheValid K st := by
  intro c hc; rw [h] at hc; cases hc

theorem C04.cacheValid_init (K : FuncVal → Prop) (cfg : Cfg) : C04.CacheValid K (initState cfg) :=
  C04.cacheValid_nil K _ rfl

/-! ### (c0) steps that do not touch the frames -/

/-- validity depends on the state only through `rerunState` (frames, current and root frame, configuration but the
switch, extension names): dropping entries, writing output, counting steps and depth keep the cache valid -/
theorem C04.cacheValid_congr {K : FuncVal → Prop} {st st' : St} (h : C04.rerunState st' = C04.rerunState st)
    (hc : ∀ c ∈ st'.cache, c ∈ st.cache) (hv : C04.CacheValid K st) : C04.CacheValid K st' := by
  intro c hcm f args hK hk he
  have := hv c (hc c hcm) f args hK hk he
  rw [← h] at this
  exact this

/-- emptying the cache (`functionChanged`, the constant-deletion path of `del`) -/
theorem C04.cacheValid_clear (K : FuncVal → Prop) (st : St) : C04.CacheValid K { st with cache := [] } :=
  C04.cacheValid_nil K _ rfl

/-- writing output -/
theorem C04.cacheValid_outs {K : FuncVal → Prop} (st : St) (o : List (List Grol.Wire.Bytes)) (hv : C04.CacheValid K st) :
    C04.CacheValid K { st with outs := o } :=
  C04.cacheValid_congr (st := st) rfl (fun _ h => h) hv

/-- the step and depth counters -/
theorem C04.cacheValid_budget {K : FuncVal → Prop} (st : St) (n d : Nat) (hv : C04.CacheValid K st) :
    C04.CacheValid K { st with steps := n, depth := d } :=
  C04.cacheValid_congr (st := st) rfl (fun _ h => h) hv

/-- `Cache.Set` replaces the entries with an equal key: the others stay valid (the new one is (b)) -/
theorem C04.cacheValid_filter {K : FuncVal → Prop} (st : St) (p : CacheEntry → Bool) (hv : C04.CacheValid K st) :
    C04.CacheValid K { st with cache := st.cache.filter p } :=
  C04.cacheValid_congr (st := st) rfl (fun _ h => (List.mem_filter.1 h).1) hv

/-! ### (d) a hit in a valid cache is an evaluation -/

/-- a hit comes from an entry of the cache that passes the key test -/
theorem C04.cacheGet_hit_mem (key : String) (args : List Obj) (st : St) (v : Obj) (out : Grol.Wire.Bytes)
    (h : outcome (cacheGet key args) st = .ok (some (v, out))) :
    ∃ c ∈ st.cache, c.key = key ∧ keyEqList c.args args = true ∧ c.result = v ∧ c.output = out := by
  rw [outcome_eq] at h
  unfold cacheGet at h
  rw [runM_bind, runM_get] at h
  dsimp only at h
  split at h
  · cases h
  · split at h
    · cases h
    · split at h
      · cases h
      · cases hf : st.cache.find? (fun c => c.key == key && keyEqList c.args args) with
        | none => rw [hf] at h; cases h
        | some c =>
          rw [hf] at h
          cases h
          have hp := List.find?_some hf
          simp only [Bool.and_eq_true, beq_iff_eq] at hp
          exact ⟨c, List.mem_of_find?_eq_some hf, hp.1, hp.2, rfl, rfl⟩

/-- (d) In a state whose cache is valid, a hit for `f(args)` returns the value and the output of a cache-off
evaluation of `f(args)` from the current state (`rerunState st`: cache off and empty, fresh writer and budget), and
that evaluation does not move the caller's miss counter. -/
theorem C04.hit_is_evaluation_of_valid (K : FuncVal → Prop) (st : St) (hv : C04.CacheValid K st) (f : FuncVal)
    (hK : K f) (args : List Obj) (v : Obj) (out : Grol.Wire.Bytes) (hhit : outcome (cacheGet f.key args) st = .ok (some (v, out))) :
    ∃ fuel s', runM (applyFunction fuel (.func f) args) (C04.rerunState st) = (.ok v, s') ∧ C04.written s' = out ∧
      missOf s' (C04.rerunState st).cur = missOf (C04.rerunState st) (C04.rerunState st).cur := by
  obtain ⟨c, hcm, hk, he, hr, ho⟩ := C04.cacheGet_hit_mem f.key args st v out hhit
  obtain ⟨P, g, bargs, fuel, t, t', w, hR, hcl, hg, hargs, hrun, hq, hres, hout⟩ := hv c hcm f args hK hk.symm he
  obtain ⟨s', h1, _, _, h4, h5⟩ := C04.quiet_call_deterministic P fuel g bargs (C04.rerunState st) t hR hcl w t' hrun hq
  rw [hg, hargs] at h1
  refine ⟨fuel, s', ?_, ?_, h5⟩
  · rw [← hr, hres]; exact h1
  · rw [← ho, hout]; unfold C04.written; rw [h4]


/-! ### non-vacuity: a valid non-empty cache, and the hit theorem applied to it -/

mutual
theorem cleanD_false : ∀ v : Obj, cleanD (fun _ _ => False) v
  | .array els => cleanLD_false els
  | .map _ kvs => cleanPD_false kvs
  | .ret v _ => cleanD_false v
  | .ref _ _ => fun h => h
  | .null => trivial
  | .bool _ => trivial
  | .int _ => trivial
  | .float _ => trivial
  | .str _ => trivial
  | .func _ => trivial
  | .ext _ => trivial
  | .error _ => trivial
  | .quote _ => trivial
theorem cleanLD_false : ∀ l : List Obj, cleanLD (fun _ _ => False) l
  | [] => trivial
  | x :: xs => ⟨cleanD_false x, cleanLD_false xs⟩
theorem cleanPD_false : ∀ l : List (Obj × Obj), cleanPD (fun _ _ => False) l
  | [] => trivial
  | (k, v) :: xs => ⟨cleanD_false k, cleanD_false v, cleanPD_false xs⟩
end

/-- a state agrees with itself, with no dirty binding -/
theorem C04.agree_refl (t : St) (hoff : t.cfg.cacheOn = false) (hpos : 0 < t.frames.size) (hdec : RefDec t) :
    C04.AgreeExcept (fun _ _ => False) t t :=
  ⟨rfl, hoff, rfl, rfl, rfl, rfl, rfl, rfl, rfl, hpos, fun _ ft h => ⟨ft, h, rfl, rfl, rfl, rfl, rfl, fun _ _ => rfl⟩,
    fun _ _ h => h.elim, fun _ _ h => h.elim, fun _ _ _ v _ _ _ => cleanD_false v, hdec⟩

/-- the state after `func fib(n){…}; x = 5; fib(6)` with the cache on: one entry, `fib(6) ↦ 8` -/
def hitState : St := { detState 5 with cfg := { cacheOn := true }, cache := [⟨fibKey, [.int 6], .int 8, []⟩] }

theorem hit_run : (match runM (applyFunction 100 (.func fibVal) [.int 6]) (detState 5) with
    | (.ok (.int v), st) => v == 8 && missOf st (detState 5).cur == missOf (detState 5) (detState 5).cur &&
        C04.written st == []
    | _ => false) = true := by decide +kernel

theorem keyEqList_int6 (args : List Obj) (h : keyEqList [.int 6] args = true) : args = [.int 6] := by
  cases args with
  | nil => simp [keyEqList] at h
  | cons a rest =>
    cases rest with
    | cons b r => simp [keyEqList] at h
    | nil =>
      cases a <;> simp [keyEqList, keyEq] at h
      subst h; rfl

/-- its cache is valid (for the functions `K` = `fib`) … -/
theorem hitState_valid : C04.CacheValid (fun f => f = fibVal) hitState := by
  intro c hc f args hK _ he
  have hcv : c = ⟨fibKey, [.int 6], .int 8, []⟩ := by simpa [hitState] using hc
  subst hcv
  subst hK
  have hargs := keyEqList_int6 args he
  subst hargs
  have h := hit_run
  cases hr : runM (applyFunction 100 (.func fibVal) [.int 6]) (detState 5) with
  | mk r t' =>
    rw [hr] at h
    cases r with
    | error e => simp at h
    | ok o =>
      cases o with
      | int v =>
        simp only [Bool.and_eq_true, beq_iff_eq] at h
        obtain ⟨⟨hv, hq⟩, hw⟩ := h
        subst hv
        have hd : (C04.agreeP (fun _ _ => False) (detState 5) (detState 5)).σ.d = 0 := rfl
        refine ⟨C04.agreeP (fun _ _ => False) (detState 5) (detState 5), fibVal, [.int 6], 100, detState 5, t', .int 8,
          C04.agree_stRq (C04.agree_refl (detState 5) rfl (by decide) det_agree.dec), ⟨trivial, trivial⟩, renFn_id hd _,
          renL_id hd _, hr, hq, rfl, hw.symm⟩
      | _ => all_goals simp at h

/-- … so the hit `fib(6)` is what the cache-off evaluation returns -/
example : ∃ fuel s', runM (applyFunction fuel (.func fibVal) [.int 6]) (C04.rerunState hitState) = (.ok (.int 8), s') ∧
    C04.written s' = [] :=
  have hhit : outcome (cacheGet fibVal.key [.int 6]) hitState = .ok (some (.int 8, [])) := rfl
  let ⟨fuel, s', h1, h2, _⟩ := C04.hit_is_evaluation_of_valid _ hitState hitState_valid fibVal rfl [.int 6] (.int 8) [] hhit
  ⟨fuel, s', h1, h2⟩

/-! ### what is missing -/

/-- (b) NOT proved.  A quiet cache-ON call from a state with a valid cache is reproduced by a cache-off call from
`rerunState`: same value, same output.  With it the entry `finishCall` stores satisfies `EntryValid` (take the
cache-off run as the witness, `P` the identity with an empty dirty set).  Proof needed: induction on the nesting
of calls, a nested hit being replaced by the evaluation `hit_is_evaluation_of_valid` provides — a non-lockstep
simulation with a general renaming of frame indices. -/
def C04.CacheOnOffSim (K : FuncVal → Prop) : Prop :=
  ∀ (st : St) (fuel : Nat) (f : FuncVal) (args : List Obj) (v : Obj) (st' : St),
    C04.CacheValid K st → K f → st.cfg.cacheOn = true →
    runM (applyFunction fuel (.func f) args) { st with outs := [[]] } = (.ok v, st') →
    missOf st' st.cur = missOf st st.cur →
    ∃ fuel' s', runM (applyFunction fuel' (.func f) args) (C04.rerunState st) = (.ok v, s') ∧
      C04.written s' = C04.written st' ∧
      missOf s' (C04.rerunState st).cur = missOf (C04.rerunState st) (C04.rerunState st).cur

/-- (c) NOT proved, and FALSE of the code as it is (known finding `recursive-call-hit-ignores-callers-local-function`:
validity is relative to the caller, and a same-function call is parented to its caller's frame).  Every evaluation
keeps the cache valid.  Beyond `cacheValid_congr` this needs (1) (b) for the stores, (2) a state relation restricted
to the frames reachable from the callee, so that a write to an untrusted binding can enlarge the dirty set although
dead frames still hold references to it, (3) the repair of the finding (or the exclusion of calls parented to a
same-function caller) for the change of the current frame. -/
def C04.StepsPreserveValid (K : FuncVal → Prop) : Prop :=
  ∀ (fuel : Nat) (node : Node) (st : St) (r : Except Stop Obj) (st' : St),
    C04.CacheValid K st → runM (eval fuel node) st = (r, st') → C04.CacheValid K st'

/-- what (b) needs of `K`: among the functions of the session equal keys mean equal code (the entry records only the key) -/
def C04.KeyFaithful (K : FuncVal → Prop) : Prop :=
  ∀ f g, K f → K g → f.key = g.key → f.params = g.params ∧ f.variadic = g.variadic ∧ f.body = g.body ∧ f.name = g.name

end Grol.E

import GrolProofs.EnvConst
/-
C06 — arrays and maps are values: no aliasing, at any size.

The full statement (`C06.Statement`) speaks about the IMPLEMENTATION: its observations equal those
of the value-semantic model on every session.  It is false of the current code for large containers
(three open classes in known_findings.json, replayed on every run by the `values` suite); the Go
heap is not modelled in Lean, so there is no `decide`d refutation witness here — the refutation is
the replayed witness on the real interpreter.  What is proved below is that the MODEL the
implementation is compared with has the three properties the statement names:
(1) a write to one name changes no other name (frame lemmas), (2) `x + y` — every infix operator — has
no effect on the state at all, (3) the operator layer does not depend on the small/large thresholds.
-/
namespace Grol.E

/-- full statement: for every session, every configuration of the implementation observes what the
model observes (`implObs` is the real interpreter: not a Lean object; checked by the `values` suite) -/
def C06.Statement (implObs : Cfg → List Node → List (Except String String)) : Prop :=
  ∀ (cfg : Cfg) (progs : List Node),
    implObs cfg progs = (progs.foldl (fun (acc : St × List (Except String String)) p =>
      let (st', r) := runInput acc.1 p
      (st', acc.2 ++ [r.map fun o => o.render])) (initState cfg, [])).2

/-! ### (2) operators have no effect on the state -/

macro "ro_step" : tactic => `(tactic| first
  | exact ReadOnly.pure _
  | exact ReadOnly.stop _
  | exact ReadOnly.throw _
  | exact ReadOnly.liftR _
  | exact readOnly_valueOf _
  | exact ReadOnly.get
  | refine ReadOnly.bind ?_ (fun _ => ?_)
  | refine ReadOnly.ite ?_ ?_
  | split)

theorem readOnly_mustBeOk (n : Int) : ReadOnly (mustBeOk n) := by
  unfold mustBeOk; repeat ro_step

theorem readOnly_evalIntegerInfix (op : String) (l r : Int64) : ReadOnly (evalIntegerInfix op l r) := by
  unfold evalIntegerInfix
  split
  all_goals first
    | exact ReadOnly.pure _
    | (split <;> first | exact ReadOnly.pure _ | (split <;> exact ReadOnly.pure _))
    | skip
  all_goals
    dsimp only
    split
    · exact ReadOnly.pure _
    · exact ReadOnly.bind (readOnly_mustBeOk _) fun _ => ReadOnly.pure _

theorem readOnly_evalFloatInfix (op : String) (l r : Obj) : ReadOnly (evalFloatInfix op l r) := by
  unfold evalFloatInfix
  split
  · split <;> first | exact ReadOnly.pure _ | exact ReadOnly.stop _
  · exact ReadOnly.pure _

theorem readOnly_evalStringInfix (op : String) (l : Grol.Wire.Bytes) (r : Obj) : ReadOnly (evalStringInfix op l r) := by
  unfold evalStringInfix
  split
  · exact ReadOnly.bind (readOnly_mustBeOk _) fun _ => ReadOnly.pure _
  · split
    · exact ReadOnly.pure _
    · exact ReadOnly.bind (readOnly_mustBeOk _) fun _ => by split <;> exact ReadOnly.pure _
  · exact ReadOnly.pure _

theorem readOnly_evalArrayInfix (op : String) (l : List Obj) (r : Obj) : ReadOnly (evalArrayInfix op l r) := by
  unfold evalArrayInfix
  split
  · split
    · exact ReadOnly.pure _
    · split
      · exact ReadOnly.pure _
      · exact ReadOnly.bind (readOnly_mustBeOk _) fun _ => by split <;> exact ReadOnly.pure _
  · split
    · exact ReadOnly.bind (readOnly_mustBeOk _) fun _ => ReadOnly.pure _
    · exact ReadOnly.bind (readOnly_valueOf _) fun _ => ReadOnly.pure _
  · exact ReadOnly.pure _

theorem readOnly_equalsM (a b : Obj) : ReadOnly (equalsM a b) := by
  unfold equalsM
  split
  · exact ReadOnly.pure _
  · exact ReadOnly.bind (readOnly_valueOf _) fun _ => ReadOnly.bind (readOnly_valueOf _) fun _ =>
      ReadOnly.bind (ReadOnly.liftR _) fun _ => ReadOnly.pure _

theorem readOnly_cmpM (a b : Obj) : ReadOnly (cmpM a b) := by
  unfold cmpM
  exact ReadOnly.bind (readOnly_valueOf _) fun _ => ReadOnly.bind (readOnly_valueOf _) fun _ => ReadOnly.liftR _

/-- **C06 (2)**: `x + y` — every infix operator on evaluated operands — returns a value (or an error
object, or stops) and leaves the whole state as it was: no operand, no binding, nothing is modified. -/
theorem evalInfixOp_readOnly (op : String) (l r : Obj) : ReadOnly (evalInfixOp op l r) := by
  unfold evalInfixOp
  split
  all_goals first
    | exact ReadOnly.bind (readOnly_equalsM _ _) fun _ => ReadOnly.pure _
    | exact ReadOnly.bind (readOnly_cmpM _ _) fun _ => ReadOnly.pure _
    | exact ReadOnly.pure _
    | skip
  split
  · exact readOnly_evalIntegerInfix _ _ _
  · exact readOnly_evalFloatInfix _ _ _
  · exact readOnly_evalFloatInfix _ _ _
  · exact readOnly_evalStringInfix _ _ _
  · exact readOnly_evalArrayInfix _ _ _
  · split
    · exact ReadOnly.bind (fun _ => rfl) fun _ => ReadOnly.bind (ReadOnly.liftR _) fun x => by
        obtain ⟨big, kvs⟩ := x; exact ReadOnly.pure _
    · exact ReadOnly.pure _
  · exact ReadOnly.pure _

theorem C06.plus_has_no_effect (l r : Obj) (st : St) : stateAfter (evalInfixOp "PLUS" l r) st = st :=
  evalInfixOp_readOnly "PLUS" l r st

/-! ### (1) a write changes only the assigned name -/

/-- store level: writing name `b` leaves what every other name `a` reads unchanged -/
theorem C06.write_frame (s : List (String × Obj)) (a b : String) (v : Obj) (h : a ≠ b) :
    lookupStore (setStore s b v) a = lookupStore s a := lookupStore_setStore_ne s b a v h

theorem C06.delete_frame (s : List (String × Obj)) (a b : String) (h : a ≠ b) :
    lookupStore (delStore s b) a = lookupStore s a := lookupStore_delStore_ne s b a h

/-- what name `a` is bound to in frame `e'` (raw entry: value or reference) -/
def entry (st : St) (e' : Nat) (a : String) : Option Obj :=
  match st.frames[e']? with
  | some f => lookupStore f.store a
  | none => none

/-- state level: `create` of name `b` in frame `e` (`SetNoChecks(…, create=true)`, the binding of
parameters and of `:=`) leaves the entry of every other name, in every frame, unchanged — and
the entries of `b` itself in every OTHER frame -/
theorem C06.envCreate_frame (e : Nat) (b : String) (v : Obj) (st : St) (e' : Nat) (a : String)
    (h : a ≠ b ∨ e' ≠ e) : entry (run (envCreate e b v) st).2 e' a = entry st e' a := by
  unfold envCreate
  rw [run_bind]
  have hro := readOnly_valueOf v st
  split
  next v' st1 hv =>
    rw [hv] at hro; simp only at hro; subst hro
    have hrb : run (rootBindsFunc b) st1 = (.ok (rootFnOf st1 b), st1) := rfl
    rw [run_bind, hrb]
    dsimp only
    rw [run_bind, run_modifyFrame]
    cases hf : st1.frames[e]? with
    | none => rfl
    | some f =>
      obtain ⟨hlt, hfe⟩ := Array.getElem?_eq_some_iff.mp hf
      simp only [run_pure]
      unfold entry
      simp only [Array.getElem?_setIfInBounds]
      by_cases he : e = e'
      · subst he
        rcases h with h | h
        · simp [hlt, hfe, lookupStore_setStore_ne _ _ _ _ h]
        · exact absurd rfl h
      · simp [he]
  next err st1 hv => rw [hv] at hro; simp only at hro; subst hro; rfl

/-- index assignment and deletion build NEW values: the old list is a value like any other -/
theorem C06.index_assignment_builds_new_value (els : List Obj) (i : Nat) (v : Obj) (j : Nat) (h : j ≠ i) :
    (els.set i v)[j]? = els[j]? := by
  simp [List.getElem?_set, Ne.symm h]

/-! ### (3) the operator layer does not depend on the thresholds -/

/-- `Map.Set`: the resulting pair list is the same whatever `maxSmallMap` is and whichever
representation (`big`) the map had; the thresholds only decide the `big` flag -/
theorem C06.mapSet_threshold_independent (c1 c2 : Cfg) (b1 b2 : Bool) (kvs : List (Obj × Obj)) (k v : Obj) :
    (mapSet c1 b1 kvs k v).map Prod.snd = (mapSet c2 b2 kvs k v).map Prod.snd := by
  unfold mapSet
  cases hfind : mapFind kvs k with
  | error e => rfl
  | ok r =>
    obtain ⟨found, i⟩ := r
    cases found <;> rfl

-- `mapDelete`, `mapGet`, `mapFind`, `objFirst` take no configuration at all; `objRest` and slicing use
-- `maxSmallMap` only for the `big` flag of the result.

/-- `hashable` (the only other consumer of the thresholds) is consulted by the memoization cache only:
with the cache off a lookup never reads it -/
theorem C06.thresholds_only_feed_cache (key : String) (args : List Obj) (st : St) (h : st.cfg.cacheOn = false) :
    run (cacheGet key args) st = (.ok none, st) := by
  unfold cacheGet
  rw [run_bind, run_get]
  simp [h]

end Grol.E

import GrolProofs.MapOps
import GrolProofs.CmpModel
/-
C11 — maps behave as finite maps in key order, whatever their history.

Statements about the model `Grol.Map` of object.go's `SmallMap`/`BigMap` (tied to /repo by the
`mapops` correspondence suite).  Quantifiers: every key type `κ` with a three-way comparison `c`
that is a total preorder (`∀ a, PW c a`; C12 proves this for `Cmp` on data values, see
`C11.grol`), every value type, every `maxSmall` (the code has `MaxSmallMap = 4`; nothing needs
`maxSmall ≥ 1`, so the theorems also cover 0), every history `ops` of literal construction, `m[k]=v`,
`del`, `+`, `rest` and range slicing.
-/
namespace Grol.Map
open Grol.Ord

variable {κ ν : Type}

section
variable (c : κ → κ → Int) (hc : ∀ a, PW c a) (maxSmall : Nat)
include hc

/-- For every history: the variable is NULL exactly when the reference says so; otherwise the
representation invariant holds (strictly sorted keys — no two keys `c`-equal — and a small map has at
most `maxSmall` pairs) and the stored pairs *are* the reference finite map. -/
theorem C11.run_refines (ops : List (Op κ ν)) :
    Rel c maxSmall (run c maxSmall ops) (Spec.run c ops) :=
  run_spec_from c hc maxSmall ops none none trivial

/-- Every observation is a function of the reference map: length, lookup of any key, first pair,
and the sequence of pairs (which is what iteration, the printed form and `==` read). -/
theorem C11.observations (ops : List (Op κ ν)) (m : M κ ν) (hm : run c maxSmall ops = some m) :
    ∃ l, Spec.run c ops = some l ∧ Sorted c l ∧ m.kvs = l ∧ m.len = l.length ∧ first m = l.head?
      ∧ (∀ k, get c m k = Spec.lookup c k l) ∧ (m.isBig = false → l.length ≤ maxSmall) := by
  have h := C11.run_refines c hc maxSmall ops
  rw [hm] at h
  cases hl : Spec.run c ops with
  | none => rw [hl] at h; exact h.elim
  | some l =>
    rw [hl] at h
    obtain ⟨hI, e⟩ := h
    refine ⟨l, rfl, e ▸ hI.1, e, by rw [M.len, e], by rw [first, e], fun k => ?_, fun hb => ?_⟩
    · rw [get_eq c hc m hI.1 k, e]
    · have := hI.2 hb; rw [M.len, e] at this; exact this

/-- Hence two histories with the same reference result are indistinguishable, whatever their
insertion orders and whether the maps are, were or became small or big. -/
theorem C11.history_independent (ops1 ops2 : List (Op κ ν)) (h : Spec.run c ops1 = Spec.run c ops2) :
    (run c maxSmall ops1).map M.kvs = (run c maxSmall ops2).map M.kvs
    ∧ (∀ k, (run c maxSmall ops1).map (fun m => get c m k) = (run c maxSmall ops2).map (fun m => get c m k)) := by
  have h1 := C11.run_refines c hc maxSmall ops1
  have h2 := C11.run_refines c hc maxSmall ops2
  rw [h] at h1
  cases hr1 : run c maxSmall ops1 <;> cases hr2 : run c maxSmall ops2 <;> cases hl : Spec.run c ops2 <;>
    rw [hr1, hl] at h1 <;> rw [hr2, hl] at h2 <;> simp only [Rel] at h1 h2 <;> try contradiction
  · exact ⟨rfl, fun _ => rfl⟩
  · rename_i m1 m2 l
    refine ⟨by simp [h1.2, h2.2], fun k => ?_⟩
    simp only [Option.map]
    rw [get_eq c hc m1 h1.1.1 k, get_eq c hc m2 h2.1.1 k, h1.2, h2.2]

/-- finite-map laws of the two representations: lookup after `Set` and after `Delete` -/
theorem C11.get_set (m : M κ ν) (hI : Inv c maxSmall m) (k k' : κ) (v : ν) :
    get c (set c maxSmall m k v) k' = if c k k' = 0 then some v else get c m k' := by
  obtain ⟨e, hI'⟩ := set_spec c hc maxSmall m hI k v
  rw [get_eq c hc _ hI'.1, e, lookup_insert c hc k v k' m.kvs hI.1, get_eq c hc m hI.1]

theorem C11.get_delete (m : M κ ν) (hI : Inv c maxSmall m) (k k' : κ) :
    get c (delete c m k).1 k' = if c k k' = 0 then none else get c m k' := by
  obtain ⟨e, hI', _⟩ := delete_spec c hc maxSmall m hI k
  rw [get_eq c hc _ hI'.1, e, lookup_erase c hc k k' m.kvs hI.1, get_eq c hc m hI.1]

/-- insertion order of two different keys is irrelevant -/
theorem C11.set_comm (m : M κ ν) (hI : Inv c maxSmall m) (k1 k2 : κ) (v1 v2 : ν) (hne : c k1 k2 ≠ 0) :
    (set c maxSmall (set c maxSmall m k2 v2) k1 v1).kvs = (set c maxSmall (set c maxSmall m k1 v1) k2 v2).kvs := by
  obtain ⟨e2, hI2⟩ := set_spec c hc maxSmall m hI k2 v2
  obtain ⟨e1, hI1⟩ := set_spec c hc maxSmall m hI k1 v1
  rw [(set_spec c hc maxSmall _ hI2 k1 v1).1, (set_spec c hc maxSmall _ hI1 k2 v2).1, e1, e2]
  exact insert_comm c hc k1 k2 v1 v2 m.kvs hI.1 hne

end

/-- the instance the driver runs: keys and values are grol objects, the comparison is `Cmp` on data
values (`cmpD`, a total preorder by C12), `MaxSmallMap = 4` -/
theorem C11.grol (ops : List (Op Obj Obj)) :
    Rel Obj.cmpD 4 (run Obj.cmpD 4 ops) (Spec.run Obj.cmpD ops) :=
  C11.run_refines Obj.cmpD Obj.cmpD_PW 4 ops

/-! ### non-vacuity: histories that cross the small/big threshold in both directions -/

open Grol.Obj in
example : (run cmpD 4 [.lit [(int 3, nil), (float ⟨0x3ff0000000000000⟩, nil), (int 1, bool true), (str [97], nil), (nil, nil)],
                       .set (arr []) nil]).map (fun m => (m.isBig, m.len)) = some (true, 5) := by decide +kernel

open Grol.Obj in
example : (run cmpD 4 [.lit [(int 3, nil), (int 1, nil)], .set (int 2) nil, .set (str []) nil, .set nil nil, .del (int 2), .rest]).map
    (fun m => (m.isBig, m.len)) = some (false, 3) := by decide +kernel

open Grol.Obj in
example : (run cmpD 4 [.lit [(int 3, nil), (int 1, nil)], .set (int 2) nil, .set (str []) nil, .set nil nil]).map
    (fun m => (m.isBig, m.len)) = some (true, 5) := by decide +kernel

end Grol.Map

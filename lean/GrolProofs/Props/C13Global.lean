import GrolProofs.Props.C13
import Grol.Eval.MacroSpec
/-
C13, whole-program form — macro expansion IS hand substitution.

`handExpand` / `handSubst` (lean/Grol/Eval/MacroSpec.lean) are the total structural specification
the `macro` correspondence suite judges the real implementation against (MacroSuite.specExpand is
defined as `handExpand`).  Here:

  `expand_is_hand_substitution`   for EVERY program `p` on which `handExpand store p` is defined (all the
        macros it calls — at any nesting depth, any number of call sites, arguments that are macro
        calls themselves, a callee that is a macro call — are one `quote(T)` with distinct parameters,
        parameter-only unquotes, and are called with the right arity), the model's ExpandMacros returns
        exactly the hand-substituted program.
        No hypothesis on `Limits`: on such programs the macro body never reaches the evaluator model
        (`general`), every unquote is a parameter lookup, so neither the fuel, the depth limit nor the
        deadline of `lim` can make the expansion stop.  The theorem holds for all `lim`.
  `call_sites_independent`        what one site expands to does not depend on its siblings
  `expand_again`                  when the result contains no macro call a second expansion changes nothing
  `hand_noCalls`                  on programs without macro calls hand expansion is the identity

Side condition built into `handExpand` (MacroSpec.handCall): a call of a macro NAMED `info` or `self`
is outside the quantifier (`none`); the implementation never finds such a macro.
-/
namespace Grol.Macro.C13
open Grol.E Grol.Macro

/-! ### the patterns of the specification -/

theorem identName_some (x : Node) (p : String) (h : identName x = some p) : x = .ident p := by
  cases x <;> simp [identName] at h
  rw [h]

theorem unquoteParam_some (n : String) (l : List Node) (p : String) (h : unquoteParam n l = some p) :
    n = "UNQUOTE" ∧ l = [.ident p] := by
  unfold unquoteParam at h
  by_cases hn : n = "UNQUOTE"
  · simp only [hn, if_true] at h
    match l, h with
    | [], h => simp at h
    | [x], h => exact ⟨hn, by rw [identName_some x p h]⟩
    | _ :: _ :: _, h => simp at h
  · simp [hn] at h

theorem unquoteParam_ne (n : String) (l : List Node) (hn : n ≠ "UNQUOTE") : unquoteParam n l = none := by
  simp [unquoteParam, hn]

/-! ### the environment of `extendMacroEnv` and the zipped parameter list agree -/

theorem lookup_zip_none (p : String) : ∀ (ps : List String) (as : List Node), ps.contains p = false →
    (ps.zip as).lookup p = none
  | [], _, _ => by simp
  | _ :: _, [], _ => by simp
  | q :: ps, a :: as, h => by
    simp only [List.contains_cons, Bool.or_eq_false_iff] at h
    simp only [List.zip_cons_cons, List.lookup_cons, h.1]
    exact lookup_zip_none p ps as h.2

theorem lookupArg_extend (p : String) : ∀ (ps : List String) (as : List Node) (env : MEnv), distinct ps = true →
    lookupArg (extendMacroEnv ps as env) p
      = match (ps.zip as).lookup p with
        | some a => some a
        | none => lookupArg env p
  | [], as, env, _ => by simp [extendMacroEnv]
  | _ :: _, [], env, _ => by simp [extendMacroEnv]
  | q :: ps, a :: as, env, h => by
    simp only [distinct, Bool.and_eq_true, Bool.not_eq_true'] at h
    simp only [extendMacroEnv]
    rw [lookupArg_extend p ps as (setArg env q a) h.2, lookupArg_setArg]
    simp only [List.zip_cons_cons, List.lookup_cons]
    by_cases hpq : p = q
    · subst hpq
      simp [lookup_zip_none p ps as h.1]
    · have h1 : (p == q) = false := by simp [hpq]
      have h2 : (q == p) = false := by simp [Ne.symm hpq]
      simp [h1, h2]

/-- on the parameters `ps` the macro environment `env` and the association list `zenv` bind the same trees -/
def EnvOK (ps : List String) (env : MEnv) (zenv : List (String × Node)) : Prop :=
  ∀ p, ps.contains p = true → p ≠ "info" ∧ p ≠ "self" ∧ ∃ a, lookupArg env p = some a ∧ zenv.lookup p = some a

theorem envOK_extend (ps : List String) (as : List Node) (hd : distinct ps = true) (hl : as.length = ps.length)
    (hi : ps.contains "info" = false) (hs : ps.contains "self" = false) :
    EnvOK ps (extendMacroEnv ps as []) (ps.zip as) := by
  intro p hp
  refine ⟨?_, ?_, ?_⟩
  · intro h; subst h; rw [hi] at hp; cases hp
  · intro h; subst h; rw [hs] at hp; cases hp
  · have hb := bound_extend p ps as [] hl (.inl (by simpa using hp))
    have he := lookupArg_extend p ps as [] hd
    cases hz : (ps.zip as).lookup p with
    | none =>
      rw [hz] at he
      simp only [lookupArg] at he
      rw [he] at hb
      cases hb
    | some a =>
      rw [hz] at he
      exact ⟨a, he, rfl⟩

/-! ### `handSubst` is the `subst` of the local theorems, and its side condition implies theirs -/

mutual
theorem hand_bridge (ps : List String) (env : MEnv) (zenv : List (String × Node)) (H : EnvOK ps env zenv) :
    ∀ (t : Node), handParamOnly ps t = true → paramOnly env t = true ∧ subst env t = handSubst zenv t
  | .builtin n l, h => by
    by_cases hn : n = "UNQUOTE"
    · subst hn
      simp only [handParamOnly, if_true] at h
      cases hu : unquoteParam "UNQUOTE" l with
      | none => simp [hu] at h
      | some p =>
        simp only [hu] at h
        obtain ⟨_, hl⟩ := unquoteParam_some _ _ _ hu
        subst hl
        obtain ⟨h1, h2, a, ha, hz⟩ := H p h
        constructor
        · simp [paramOnly, paramOnlyList, substList, subst, okUnquote, h1, h2, ha]
        · simp [subst, substList, substUnquote, handSubst, hu, ha, hz]
    · simp only [handParamOnly, hn, if_false] at h
      have ⟨h1, h2⟩ := hand_bridgeList ps env zenv H l h
      constructor
      · simp [paramOnly, h1, okUnquote, hn]
      · simp [subst, substUnquote, hn, handSubst, unquoteParam_ne _ _ hn, h2]
  | .pre op r, h => by
    simp only [handParamOnly] at h
    have ⟨a1, a2⟩ := hand_bridge ps env zenv H r h
    exact ⟨by simp [paramOnly, a1], by simp [subst, handSubst, a2]⟩
  | .inf op l r, h => by
    simp only [handParamOnly, Bool.and_eq_true] at h
    have ⟨a1, a2⟩ := hand_bridge ps env zenv H l h.1
    have ⟨b1, b2⟩ := hand_bridge ps env zenv H r h.2
    exact ⟨by simp [paramOnly, a1, b1], by simp [subst, handSubst, a2, b2]⟩
  | .stmts l, h => by
    simp only [handParamOnly] at h
    have ⟨a1, a2⟩ := hand_bridgeList ps env zenv H l h
    exact ⟨by simp [paramOnly, a1], by simp [subst, handSubst, a2]⟩
  | .ifE c a b, h => by
    simp only [handParamOnly, Bool.and_eq_true] at h
    have ⟨a1, a2⟩ := hand_bridge ps env zenv H c h.1.1
    have ⟨b1, b2⟩ := hand_bridge ps env zenv H a h.1.2
    have ⟨c1, c2⟩ := hand_bridge ps env zenv H b h.2
    exact ⟨by simp [paramOnly, a1, b1, c1], by simp [subst, handSubst, a2, b2, c2]⟩
  | .forE c b, h => by
    simp only [handParamOnly, Bool.and_eq_true] at h
    have ⟨a1, a2⟩ := hand_bridge ps env zenv H c h.1
    have ⟨b1, b2⟩ := hand_bridge ps env zenv H b h.2
    exact ⟨by simp [paramOnly, a1, b1], by simp [subst, handSubst, a2, b2]⟩
  | .ret v, h => by
    simp only [handParamOnly] at h
    have ⟨a1, a2⟩ := hand_bridge ps env zenv H v h
    exact ⟨by simp [paramOnly, a1], by simp [subst, handSubst, a2]⟩
  | .fn _ _ _ _ _ body, h => by
    simp only [handParamOnly] at h
    have ⟨a1, a2⟩ := hand_bridge ps env zenv H body h
    exact ⟨by simp [paramOnly, a1], by simp [subst, handSubst, a2]⟩
  | .call f as, h => by
    simp only [handParamOnly, Bool.and_eq_true] at h
    have ⟨a1, a2⟩ := hand_bridge ps env zenv H f h.1
    have ⟨b1, b2⟩ := hand_bridgeList ps env zenv H as h.2
    exact ⟨by simp [paramOnly, a1, b1], by simp [subst, handSubst, a2, b2]⟩
  | .arr els, h => by
    simp only [handParamOnly] at h
    have ⟨a1, a2⟩ := hand_bridgeList ps env zenv H els h
    exact ⟨by simp [paramOnly, a1], by simp [subst, handSubst, a2]⟩
  | .mapLit ks vs, h => by
    simp only [handParamOnly, Bool.and_eq_true] at h
    have ⟨a1, a2⟩ := hand_bridgeList ps env zenv H ks h.1
    have ⟨b1, b2⟩ := hand_bridgeList ps env zenv H vs h.2
    exact ⟨by simp [paramOnly, a1, b1], by simp [subst, handSubst, a2, b2]⟩
  | .idx _ l i, h => by
    simp only [handParamOnly, Bool.and_eq_true] at h
    have ⟨a1, a2⟩ := hand_bridge ps env zenv H l h.1
    have ⟨b1, b2⟩ := hand_bridge ps env zenv H i h.2
    exact ⟨by simp [paramOnly, a1, b1], by simp [subst, handSubst, a2, b2]⟩
  | .macroLit _ body, h => by
    simp only [handParamOnly] at h
    have ⟨a1, a2⟩ := hand_bridge ps env zenv H body h
    exact ⟨by simp [paramOnly, a1], by simp [subst, handSubst, a2]⟩
  | .ident _, _ => ⟨by simp [paramOnly], by simp [subst, handSubst]⟩
  | .int _, _ => ⟨by simp [paramOnly], by simp [subst, handSubst]⟩
  | .float _, _ => ⟨by simp [paramOnly], by simp [subst, handSubst]⟩
  | .str _, _ => ⟨by simp [paramOnly], by simp [subst, handSubst]⟩
  | .bool _, _ => ⟨by simp [paramOnly], by simp [subst, handSubst]⟩
  | .post _ _, _ => ⟨by simp [paramOnly], by simp [subst, handSubst]⟩
  | .none, _ => ⟨by simp [paramOnly], by simp [subst, handSubst]⟩
  | .ctl _, _ => ⟨by simp [paramOnly], by simp [subst, handSubst]⟩
  | .comment, _ => ⟨by simp [paramOnly], by simp [subst, handSubst]⟩
theorem hand_bridgeList (ps : List String) (env : MEnv) (zenv : List (String × Node)) (H : EnvOK ps env zenv) :
    ∀ (l : List Node), handParamOnlyList ps l = true → paramOnlyList env l = true ∧ substList env l = handSubstList zenv l
  | [], _ => ⟨by simp [paramOnlyList], by simp [substList, handSubstList]⟩
  | x :: xs, h => by
    simp only [handParamOnlyList, Bool.and_eq_true] at h
    have ⟨a1, a2⟩ := hand_bridge ps env zenv H x h.1
    have ⟨b1, b2⟩ := hand_bridgeList ps env zenv H xs h.2
    exact ⟨by simp [paramOnlyList, a1, b1], by simp [substList, handSubstList, a2, b2]⟩
end

/-! ### one call site whose callee and arguments are already expanded -/

theorem simpleTemplate_some (m : MacroDef) (t : Node) (h : simpleTemplate m = some t) :
    m.body = .stmts [.builtin "QUOTE" [t]] ∧ distinct m.params = true ∧ m.params.contains "info" = false
      ∧ m.params.contains "self" = false ∧ handParamOnly m.params t = true := by
  unfold simpleTemplate at h
  split at h
  · rename_i t' hb
    split at h
    · rename_i hc
      cases h
      simp only [Bool.and_eq_true, Bool.not_eq_true'] at hc
      exact ⟨hb, hc.1.1.1, hc.1.1.2, hc.1.2, hc.2⟩
    · cases h
  · cases h

theorem isMacroCall_nonIdent (store : Store) (f : Node) (h : identName f = none) : isMacroCall store f = none := by
  cases f <;> simp [identName, isMacroCall] at h ⊢

/-- the callback of ExpandMacros on a call of a simple macro with expanded arguments -/
theorem expandCb_simple (lim : Limits) (store : Store) (name : String) (m : MacroDef) (T : Node) (as' : List Node)
    (hname : name ≠ "info" ∧ name ≠ "self")
    (hm : lookupDef store name = some m)
    (hbody : m.body = .stmts [.builtin "QUOTE" [T]])
    (hlen : as'.length = m.params.length)
    (hpo : paramOnly (extendMacroEnv m.params as' []) T = true) :
    expandCb lim store (.call (.ident name) as') = .ok (subst (extendMacroEnv m.params as' []) T) := by
  have hmc : isMacroCall store (.ident name) = some m := by
    have : (name == "info" || name == "self") = false := by simp [hname.1, hname.2]
    simp only [isMacroCall, this, hm]
    rfl
  simp only [expandCb, hmc]
  have : (as'.length != m.params.length) = false := by simp [hlen]
  simp only [this, hbody, evalBody, evalBodyStatements, evalUnquoteCalls,
    modify_unquote lim store _ T hpo, ok_bind, pure_eq_ok]
  rfl

/-- `handCall` is what the callback of ExpandMacros does at a call site -/
theorem expandCb_hand (lim : Limits) (store : Store) (f' : Node) (as' : List Node) (q : Node)
    (h : handCall store f' as' = some q) : expandCb lim store (.call f' as') = .ok q := by
  unfold handCall at h
  cases hi : identName f' with
  | none =>
    simp only [hi] at h
    cases h
    exact expandCb_notMacro _ _ _ _ (isMacroCall_nonIdent store f' hi)
  | some name =>
    have hf := identName_some f' name hi
    subst hf
    simp only [hi] at h
    cases hl : lookupDef store name with
    | none =>
      simp only [hl] at h
      cases h
      apply expandCb_notMacro
      simp only [isMacroCall, hl]
      split <;> rfl
    | some m =>
      simp only [hl] at h
      by_cases hn : (name == "info" || name == "self") = true
      · simp [hn] at h
      · have hn' : (name == "info" || name == "self") = false := by simpa using hn
        simp only [hn', Bool.false_eq_true, if_false] at h
        cases hs : simpleTemplate m with
        | none => simp [hs] at h
        | some t =>
          simp only [hs] at h
          by_cases hlen : as'.length = m.params.length
          · have : (as'.length != m.params.length) = false := by simp [hlen]
            simp only [this, Bool.false_eq_true, if_false] at h
            cases h
            obtain ⟨hb, hd, hinfo, hself, hp⟩ := simpleTemplate_some m t hs
            have hname : name ≠ "info" ∧ name ≠ "self" := by
              simp only [Bool.or_eq_false_iff, beq_eq_false_iff_ne, ne_eq] at hn'
              exact hn'
            have hE := envOK_extend m.params as' hd hlen hinfo hself
            have ⟨b1, b2⟩ := hand_bridge m.params _ _ hE t hp
            rw [expandCb_simple lim store name m t as' hname hl hb hlen b1, b2]
          · have : (as'.length != m.params.length) = true := by simp [hlen]
            simp [this] at h

/-! ### the whole tree -/

mutual
theorem modify_hand (lim : Limits) (store : Store) :
    ∀ (p q : Node), handExpand store p = some q → modify (expandCb lim store) p = .ok q
  | .pre op r, q, h => by
    simp only [handExpand] at h
    cases hr : handExpand store r with
    | none => simp [hr] at h
    | some r' =>
      simp [hr] at h
      subst h
      simp only [modify, modify_hand lim store r r' hr, ok_bind]
      exact expandCb_other _ _ _ (by intros; simp)
  | .inf op l r, q, h => by
    simp only [handExpand] at h
    cases hl : handExpand store l with
    | none => simp [hl] at h
    | some l' =>
      cases hr : handExpand store r with
      | none => simp [hl, hr] at h
      | some r' =>
        simp [hl, hr] at h
        subst h
        simp only [modify, modify_hand lim store l l' hl, modify_hand lim store r r' hr, ok_bind]
        exact expandCb_other _ _ _ (by intros; simp)
  | .idx t l r, q, h => by
    simp only [handExpand] at h
    cases hl : handExpand store l with
    | none => simp [hl] at h
    | some l' =>
      cases hr : handExpand store r with
      | none => simp [hl, hr] at h
      | some r' =>
        simp [hl, hr] at h
        subst h
        simp only [modify, modify_hand lim store l l' hl, modify_hand lim store r r' hr, ok_bind]
        exact expandCb_other _ _ _ (by intros; simp)
  | .forE l r, q, h => by
    simp only [handExpand] at h
    cases hl : handExpand store l with
    | none => simp [hl] at h
    | some l' =>
      cases hr : handExpand store r with
      | none => simp [hl, hr] at h
      | some r' =>
        simp [hl, hr] at h
        subst h
        simp only [modify, modify_hand lim store l l' hl, modify_hand lim store r r' hr, ok_bind]
        exact expandCb_other _ _ _ (by intros; simp)
  | .ifE c a b, q, h => by
    simp only [handExpand] at h
    cases hc : handExpand store c with
    | none => simp [hc] at h
    | some c' =>
      cases ha : handExpand store a with
      | none => simp [hc, ha] at h
      | some a' =>
        cases hb : handExpand store b with
        | none => simp [hc, ha, hb] at h
        | some b' =>
          simp [hc, ha, hb] at h
          subst h
          have ic := modify_hand lim store c c' hc
          have ia := modify_hand lim store a a' ha
          have ib := modify_hand lim store b b' hb
          by_cases hn : b = .none
          · subst hn
            simp only [handExpand] at hb
            cases hb
            simp only [modify, ic, ia, ok_bind]
            exact expandCb_other _ _ _ (by intros; simp)
          · rw [modify_ifE _ _ _ _ hn]
            simp only [ic, ia, ib, ok_bind]
            exact expandCb_other _ _ _ (by intros; simp)
  | .ret v, q, h => by
    simp only [handExpand] at h
    cases hv : handExpand store v with
    | none => simp [hv] at h
    | some v' =>
      simp [hv] at h
      subst h
      have iv := modify_hand lim store v v' hv
      by_cases hn : v = .none
      · subst hn
        simp only [handExpand] at hv
        cases hv
        simp only [modify]
        exact expandCb_other _ _ _ (by intros; simp)
      · rw [modify_ret _ _ hn]
        simp only [iv, ok_bind]
        exact expandCb_other _ _ _ (by intros; simp)
  | .fn a b c d e body, q, h => by
    simp only [handExpand] at h
    cases hr : handExpand store body with
    | none => simp [hr] at h
    | some r' =>
      simp [hr] at h
      subst h
      simp only [modify, modify_hand lim store body r' hr, ok_bind]
      exact expandCb_other _ _ _ (by intros; simp)
  | .macroLit ps body, q, h => by
    simp only [handExpand] at h
    cases hr : handExpand store body with
    | none => simp [hr] at h
    | some r' =>
      simp [hr] at h
      subst h
      simp only [modify, modify_hand lim store body r' hr, ok_bind]
      exact expandCb_other _ _ _ (by intros; simp)
  | .stmts l, q, h => by
    simp only [handExpand] at h
    cases hr : handExpandList store l with
    | none => simp [hr] at h
    | some l' =>
      simp [hr] at h
      subst h
      simp only [modify, modifyList_hand lim store l l' hr, ok_bind]
      exact expandCb_other _ _ _ (by intros; simp)
  | .arr l, q, h => by
    simp only [handExpand] at h
    cases hr : handExpandList store l with
    | none => simp [hr] at h
    | some l' =>
      simp [hr] at h
      subst h
      simp only [modify, modifyList_hand lim store l l' hr, ok_bind]
      exact expandCb_other _ _ _ (by intros; simp)
  | .builtin n l, q, h => by
    simp only [handExpand] at h
    cases hr : handExpandList store l with
    | none => simp [hr] at h
    | some l' =>
      simp [hr] at h
      subst h
      simp only [modify, modifyList_hand lim store l l' hr, ok_bind]
      exact expandCb_other _ _ _ (by intros; simp)
  | .mapLit ks vs, q, h => by
    simp only [handExpand] at h
    cases hk : handExpandList store ks with
    | none => simp [hk] at h
    | some ks' =>
      cases hv : handExpandList store vs with
      | none => simp [hk, hv] at h
      | some vs' =>
        simp [hk, hv] at h
        subst h
        simp only [modify, modifyList_hand lim store ks ks' hk, modifyList_hand lim store vs vs' hv, ok_bind]
        exact expandCb_other _ _ _ (by intros; simp)
  | .call f as, q, h => by
    simp only [handExpand] at h
    cases hf : handExpand store f with
    | none => simp [hf] at h
    | some f' =>
      cases ha : handExpandList store as with
      | none => simp [hf, ha] at h
      | some as' =>
        simp [hf, ha] at h
        simp only [modify, modify_hand lim store f f' hf, modifyList_hand lim store as as' ha, ok_bind]
        exact expandCb_hand lim store f' as' q h
  | .ident _, q, h => by
    simp only [handExpand] at h; cases h
    simp only [modify]; exact expandCb_other _ _ _ (by intros; simp)
  | .int _, q, h => by
    simp only [handExpand] at h; cases h
    simp only [modify]; exact expandCb_other _ _ _ (by intros; simp)
  | .float _, q, h => by
    simp only [handExpand] at h; cases h
    simp only [modify]; exact expandCb_other _ _ _ (by intros; simp)
  | .str _, q, h => by
    simp only [handExpand] at h; cases h
    simp only [modify]; exact expandCb_other _ _ _ (by intros; simp)
  | .bool _, q, h => by
    simp only [handExpand] at h; cases h
    simp only [modify]; exact expandCb_other _ _ _ (by intros; simp)
  | .post _ _, q, h => by
    simp only [handExpand] at h; cases h
    simp only [modify]; exact expandCb_other _ _ _ (by intros; simp)
  | .none, q, h => by
    simp only [handExpand] at h; cases h
    simp only [modify]; exact expandCb_other _ _ _ (by intros; simp)
  | .ctl _, q, h => by
    simp only [handExpand] at h; cases h
    simp only [modify]; exact expandCb_other _ _ _ (by intros; simp)
  | .comment, q, h => by
    simp only [handExpand] at h; cases h
    simp only [modify]; exact expandCb_other _ _ _ (by intros; simp)
theorem modifyList_hand (lim : Limits) (store : Store) :
    ∀ (l l' : List Node), handExpandList store l = some l' → modifyList (expandCb lim store) l = .ok l'
  | [], l', h => by
    simp only [handExpandList] at h; cases h
    simp only [modifyList]; rfl
  | x :: xs, l', h => by
    simp only [handExpandList] at h
    cases hx : handExpand store x with
    | none => simp [hx] at h
    | some x' =>
      cases hxs : handExpandList store xs with
      | none => simp [hx, hxs] at h
      | some xs' =>
        simp [hx, hxs] at h
        subst h
        simp only [modifyList, modify_hand lim store x x' hx, modifyList_hand lim store xs xs' hxs, ok_bind]
        rfl
end

/-! ### the theorem -/

/-- WHOLE-PROGRAM form of C13.  For every macro store, every program `p` and every `Limits`: if the
hand-substitution specification is defined on `p` (every macro called anywhere in `p`, at any depth,
is a one-`quote` template with distinct parameters and parameter-only unquotes, called with the right
arity), the model's ExpandMacros succeeds and returns exactly the hand-substituted program.
No side condition on `lim` is needed (the macro bodies of such programs never run the evaluator). -/
theorem expand_is_hand_substitution (lim : Limits) (store : Store) (p q : Node)
    (h : handExpand store p = some q) : expandMacros lim store p = .ok q :=
  modify_hand lim store p q h

theorem expandList_is_hand_substitution (lim : Limits) (store : Store) (l l' : List Node)
    (h : handExpandList store l = some l') : expandList lim store l = .ok l' :=
  modifyList_hand lim store l l' h

/-- in particular the expansion of such a program does not depend on the limits of the session -/
theorem expand_limits_irrelevant (lim lim' : Limits) (store : Store) (p q : Node)
    (h : handExpand store p = some q) : expandMacros lim store p = expandMacros lim' store p := by
  rw [expand_is_hand_substitution lim store p q h, expand_is_hand_substitution lim' store p q h]

/-! ### corollaries -/

theorem handExpandList_append (store : Store) : ∀ (xs ys : List Node) (r : List Node),
    handExpandList store (xs ++ ys) = some r →
    ∃ xs' ys', handExpandList store xs = some xs' ∧ handExpandList store ys = some ys' ∧ r = xs' ++ ys'
  | [], ys, r, h => ⟨[], r, by simp [handExpandList], by simpa using h, by simp⟩
  | x :: xs, ys, r, h => by
    simp only [List.cons_append, handExpandList] at h
    cases hx : handExpand store x with
    | none => simp [hx] at h
    | some x' =>
      cases hxs : handExpandList store (xs ++ ys) with
      | none => simp [hx, hxs] at h
      | some r' =>
        simp [hx, hxs] at h
        subst h
        obtain ⟨xs', ys', h1, h2, h3⟩ := handExpandList_append store xs ys r' hxs
        refine ⟨x' :: xs', ys', ?_, h2, by simp [h3]⟩
        simp [handExpandList, hx, h1]

/-- call sites are independent: in a block (argument list, array, …) `xs ++ y :: zs` on which the
specification is defined, the model's expansion is the concatenation of the expansions of the parts, and the
tree at the site `y` is the expansion of `y` ALONE — it does not depend on the siblings `xs`, `zs`. -/
theorem call_sites_independent (lim : Limits) (store : Store) (xs zs : List Node) (y : Node) (r : List Node)
    (h : handExpandList store (xs ++ y :: zs) = some r) :
    ∃ xs' y' zs', r = xs' ++ y' :: zs' ∧ expandList lim store (xs ++ y :: zs) = .ok (xs' ++ y' :: zs')
      ∧ expandMacros lim store y = .ok y' ∧ handExpand store y = some y'
      ∧ expandList lim store xs = .ok xs' ∧ expandList lim store zs = .ok zs' := by
  obtain ⟨xs', yzs', h1, h2, h3⟩ := handExpandList_append store xs (y :: zs) r h
  simp only [handExpandList] at h2
  cases hy : handExpand store y with
  | none => simp [hy] at h2
  | some y' =>
    cases hz : handExpandList store zs with
    | none => simp [hy, hz] at h2
    | some zs' =>
      simp [hy, hz] at h2
      subst h2
      subst h3
      exact ⟨xs', y', zs', rfl, expandList_is_hand_substitution lim store _ _ h,
        expand_is_hand_substitution lim store y y' hy, rfl,
        expandList_is_hand_substitution lim store xs xs' h1, expandList_is_hand_substitution lim store zs zs' hz⟩

/-- replacing the siblings of a site changes nothing at the site -/
theorem site_ignores_siblings (lim : Limits) (store : Store) (xs zs us ws : List Node) (y : Node) (r s : List Node)
    (h1 : handExpandList store (xs ++ y :: zs) = some r) (h2 : handExpandList store (us ++ y :: ws) = some s) :
    r[xs.length]? = s[us.length]? ∧ r[xs.length]? = (expandMacros lim store y).toOption := by
  obtain ⟨xs', y', zs', e1, _, hy, hy', hx, _⟩ := call_sites_independent lim store xs zs y r h1
  obtain ⟨us', y'', ws', e2, _, _, hy'', hu, _⟩ := call_sites_independent lim store us ws y s h2
  rw [hy'] at hy''
  cases hy''
  have l1 : xs'.length = xs.length := modifyList_length _ _ _ hx
  have l2 : us'.length = us.length := modifyList_length _ _ _ hu
  subst e1 e2
  rw [hy, ← l1, ← l2]
  simp [Except.toOption]

/-- a second expansion changes nothing when the hand-substituted program contains no macro call -/
theorem expand_again (lim : Limits) (store : Store) (p q : Node) (h : handExpand store p = some q)
    (hq : noCalls store q = true) :
    (expandMacros lim store p >>= expandMacros lim store) = .ok q := by
  rw [expand_is_hand_substitution lim store p q h]
  simp only [ok_bind]
  exact expand_noCalls lim store q hq

mutual
/-- on a program without macro calls the specification is the identity (and defined), provided no macro
is named `info` / `self` (a call of such a name is kept by the implementation — `noCalls` holds — but is
outside the specification's quantifier) -/
theorem hand_noCalls (store : Store) (hst : lookupDef store "info" = none ∧ lookupDef store "self" = none) : ∀ (p : Node), noCalls store p = true → handExpand store p = some p
  | .pre op r, h => by
    simp only [noCalls] at h
    simp [handExpand, hand_noCalls store hst r h]
  | .inf op l r, h => by
    simp only [noCalls, Bool.and_eq_true] at h
    simp [handExpand, hand_noCalls store hst l h.1, hand_noCalls store hst r h.2]
  | .idx t l r, h => by
    simp only [noCalls, Bool.and_eq_true] at h
    simp [handExpand, hand_noCalls store hst l h.1, hand_noCalls store hst r h.2]
  | .forE l r, h => by
    simp only [noCalls, Bool.and_eq_true] at h
    simp [handExpand, hand_noCalls store hst l h.1, hand_noCalls store hst r h.2]
  | .ifE c a b, h => by
    simp only [noCalls, Bool.and_eq_true] at h
    simp [handExpand, hand_noCalls store hst c h.1.1, hand_noCalls store hst a h.1.2, hand_noCalls store hst b h.2]
  | .ret v, h => by
    simp only [noCalls] at h
    simp [handExpand, hand_noCalls store hst v h]
  | .fn _ _ _ _ _ body, h => by
    simp only [noCalls] at h
    simp [handExpand, hand_noCalls store hst body h]
  | .macroLit _ body, h => by
    simp only [noCalls] at h
    simp [handExpand, hand_noCalls store hst body h]
  | .stmts l, h => by
    simp only [noCalls] at h
    simp [handExpand, hand_noCallsList store hst l h]
  | .arr l, h => by
    simp only [noCalls] at h
    simp [handExpand, hand_noCallsList store hst l h]
  | .builtin _ l, h => by
    simp only [noCalls] at h
    simp [handExpand, hand_noCallsList store hst l h]
  | .mapLit ks vs, h => by
    simp only [noCalls, Bool.and_eq_true] at h
    simp [handExpand, hand_noCallsList store hst ks h.1, hand_noCallsList store hst vs h.2]
  | .call f as, h => by
    simp only [noCalls, Bool.and_eq_true, Option.isNone_iff_eq_none] at h
    simp only [handExpand, hand_noCalls store hst f h.1.1, hand_noCallsList store hst as h.1.2]
    show handCall store f as = some (.call f as)
    unfold handCall
    cases hi : identName f with
    | none => rfl
    | some name =>
      have hf := identName_some f name hi
      subst hf
      have h2 := h.2
      simp only [isMacroCall] at h2
      cases hl : lookupDef store name with
      | none => simp [hl]
      | some m =>
        by_cases hn : (name == "info" || name == "self") = true
        · simp only [Bool.or_eq_true, beq_iff_eq] at hn
          cases hn with
          | inl e => subst e; rw [hst.1] at hl; cases hl
          | inr e => subst e; rw [hst.2] at hl; cases hl
        · simp [hn, hl] at h2
  | .ident _, _ => by simp [handExpand]
  | .int _, _ => by simp [handExpand]
  | .float _, _ => by simp [handExpand]
  | .str _, _ => by simp [handExpand]
  | .bool _, _ => by simp [handExpand]
  | .post _ _, _ => by simp [handExpand]
  | .none, _ => by simp [handExpand]
  | .ctl _, _ => by simp [handExpand]
  | .comment, _ => by simp [handExpand]
theorem hand_noCallsList (store : Store) (hst : lookupDef store "info" = none ∧ lookupDef store "self" = none) : ∀ (l : List Node), noCallsList store l = true → handExpandList store l = some l
  | [], _ => by simp [handExpandList]
  | x :: xs, h => by
    simp only [noCallsList, Bool.and_eq_true] at h
    simp [handExpandList, hand_noCalls store hst x h.1, hand_noCallsList store hst xs h.2]
end

/-! ### `distinct` is the suite's former test on the parameter list -/

theorem eraseDups_length_le : ∀ (n : Nat) (l : List String), l.length ≤ n → l.eraseDups.length ≤ l.length
  | _, [], _ => by simp
  | 0, _ :: _, h => by simp at h
  | n + 1, a :: as, h => by
    rw [List.eraseDups_cons]
    have h1 := List.length_filter_le (fun b => !b == a) as
    have h2 := eraseDups_length_le n (as.filter fun b => !b == a) (by simp at h; omega)
    simp only [List.length_cons]
    omega

/-- `distinct` is the test the suite used before (`eraseDups` removes nothing) -/
theorem distinct_iff_eraseDups : ∀ (n : Nat) (l : List String), l.length ≤ n →
    (distinct l = true ↔ l.eraseDups.length = l.length)
  | _, [], _ => by simp [distinct]
  | 0, _ :: _, h => by simp at h
  | n + 1, a :: as, h => by
    have hlen : as.length ≤ n := by simp at h; omega
    rw [List.eraseDups_cons]
    have h1 := List.length_filter_le (fun b => !b == a) as
    have h2 := eraseDups_length_le n (as.filter fun b => !b == a) (by omega)
    simp only [distinct, List.length_cons, Bool.and_eq_true, Bool.not_eq_true']
    constructor
    · intro ⟨hc, hd⟩
      have hf : as.filter (fun b => !b == a) = as := by
        rw [List.filter_eq_self]
        intro b hb
        have : b ≠ a := by
          intro e; subst e
          have : as.contains b = true := by simpa using hb
          rw [this] at hc; cases hc
        simp [this]
      rw [hf, (distinct_iff_eraseDups n as hlen).1 hd]
    · intro he
      have hfl : (as.filter fun b => !b == a).length = as.length := by omega
      have hf : as.filter (fun b => !b == a) = as := by
        rw [List.filter_eq_self]; exact List.length_filter_eq_length_iff.1 hfl
      rw [hf] at he
      refine ⟨?_, (distinct_iff_eraseDups n as hlen).2 (by omega)⟩
      rw [List.filter_eq_self] at hf
      cases hc : as.contains a with
      | false => rfl
      | true =>
        have := hf a (by simpa using hc)
        simp at this

theorem distinct_eq_eraseDups (l : List String) : distinct l = (l.eraseDups.length == l.length) := by
  have := distinct_iff_eraseDups l.length l (Nat.le_refl _)
  cases hd : distinct l with
  | true => simp [this.1 hd]
  | false =>
    cases he : (l.eraseDups.length == l.length) with
    | false => rfl
    | true =>
      have := this.2 (by simpa using he)
      rw [hd] at this; cases this
/-- … so `simpleTemplate` is, extensionally, the predicate the suite had before the switch to the total functions -/
theorem simpleTemplate_eq_suite (m : MacroDef) :
    simpleTemplate m = (match m.body with
      | .stmts [.builtin "QUOTE" [t]] =>
        if m.params.eraseDups.length == m.params.length && !m.params.contains "info" && !m.params.contains "self" && handParamOnly m.params t
        then some t else none
      | _ => none) := by
  unfold simpleTemplate
  rw [distinct_eq_eraseDups]
  split
  · rename_i t h; simp only [h]
  · rename_i h
    split
    · rename_i t h'; exact absurd h' (h t)
    · rfl

/-! ### non-vacuity (store0 of Props/C13.lean: `m(x) = x * 2`, `d(x) = x + x`, `k(y) = m(y)` as a template) -/

/-- `for i < 3 { func f(a) { return m(a) }; s = m(1) + d(m(i)) }`: a macro call inside a function body inside
a loop, two different macros in one expression, an argument that is itself a macro call -/
def loopFn : Node :=
  .forE (.inf "LT" (.ident "i") (.int 3))
    (.stmts [.fn (some "f") ["a"] false false "" (.stmts [.ret (.call (.ident "m") [.ident "a"])]),
             .inf "ASSIGN" (.ident "s") (.inf "PLUS" (.call (.ident "m") [.int 1]) (.call (.ident "d") [.call (.ident "m") [.ident "i"]]))])
/-- the same program substituted by hand -/
def loopFnHand : Node :=
  .forE (.inf "LT" (.ident "i") (.int 3))
    (.stmts [.fn (some "f") ["a"] false false "" (.stmts [.ret (.inf "ASTERISK" (.ident "a") (.int 2))]),
             .inf "ASSIGN" (.ident "s") (.inf "PLUS" (.inf "ASTERISK" (.int 1) (.int 2))
               (.inf "PLUS" (.inf "ASTERISK" (.ident "i") (.int 2)) (.inf "ASTERISK" (.ident "i") (.int 2))))])

example : handExpand store0 loopFn = some loopFnHand := by rfl
/-- … so, whatever the limits of the session, the model's ExpandMacros returns the hand-substituted program -/
example (lim : Limits) : expandMacros lim store0 loopFn = .ok loopFnHand :=
  expand_is_hand_substitution lim store0 loopFn loopFnHand (by rfl)
/-- even with no fuel, depth 0 and an expired deadline -/
example : expandMacros { fuel := 0, maxDepth := 0, deadlineAfter := some 0 } store0 loopFn = .ok loopFnHand :=
  expand_is_hand_substitution _ store0 loopFn loopFnHand (by rfl)

/-- nested: `[d(m(m(1))), k(d(2))]` — three levels, and `k`'s template brings in a call of `m` that one pass keeps -/
example : handExpand store0 (.arr [.call (.ident "d") [.call (.ident "m") [.call (.ident "m") [.int 1]]],
                                   .call (.ident "k") [.call (.ident "d") [.int 2]]])
    = some (.arr [.inf "PLUS" (.inf "ASTERISK" (.inf "ASTERISK" (.int 1) (.int 2)) (.int 2))
                              (.inf "ASTERISK" (.inf "ASTERISK" (.int 1) (.int 2)) (.int 2)),
                  .call (.ident "m") [.inf "PLUS" (.int 2) (.int 2)]]) := by rfl

/-- outside the quantifier: wrong arity; a macro whose body is not one quote -/
example : handExpand store0 (.stmts [.call (.ident "m") [.int 1, .int 2]]) = none := by rfl
example : handExpand [("z", { params := [], body := .stmts [.int 1] })] (.call (.ident "z") []) = none := by rfl
/-- a call of something that is not a macro is kept, its arguments expanded -/
example : handExpand store0 (.call (.ident "g") [.call (.ident "m") [.int 1]])
    = some (.call (.ident "g") [.inf "ASTERISK" (.int 1) (.int 2)]) := by rfl

/-- the hypotheses of `expand_again` and `hand_noCalls` are satisfiable -/
example : noCalls store0 loopFnHand = true := by rfl
example : lookupDef store0 "info" = none ∧ lookupDef store0 "self" = none := ⟨by rfl, by rfl⟩
example (lim : Limits) : (expandMacros lim store0 loopFn >>= expandMacros lim store0) = .ok loopFnHand :=
  expand_again lim store0 loopFn loopFnHand (by rfl) (by rfl)

end Grol.Macro.C13

import GrolProofs.ParseNoPanic
import GrolProofs.PrintNoPanic
import GrolProofs.StreamWF
import GrolProofs.ParseGood
import GrolProofs.ParseTerm
import GrolProofs.LexStreamEnd
/-
C08 — the front end is total on arbitrary bytes (parser and printer halves; the lexer half and
the composition `bytes → TokStream` belong to the lexer component).

Proved here, for the Lean model of parser/parser.go and of the PrettyPrint methods of ast/ast.go
(tied to the Go code by the `parse` correspondence suite):
  * `C08.parser_never_panics`   for EVERY token stream satisfying the two lexer facts `StreamWF`
                                 and EVERY fuel, `parseProgram` is not a Go panic;
  * `C08.printer_never_panics`  a program without missing children whose operator tokens have a
                                 precedence prints without panic in all four modes;
  * `C08.partial`               the two combined: statement of C08 at a stream, under `C08.Safe`.
  * `C08.parse_good`            for EVERY token stream and fuel: no error and no continuation ⇒ the tree
                                 has no missing child and every operator token has a precedence;
  * `C08.front_end_total`       the three combined, `C08.StatementAt` for every well-formed stream and fuel
                                 (no `Safe` hypothesis left).
  * `C08.terminates`            when the repeated end marker is EOF or EOL (`EndOK`), fuel ≥ 7·(tokens + 2) is never
                                 exhausted (`GrolProofs/ParseTerm.lean`);
  * `C08.statement`             `C08.Statement`: all of the above; `C08.statement_lexer` instantiates it with the
                                 token stream of the lexer MODEL, for which `StreamWF` and `EndOK` are theorems.
Nothing of the parser/printer half is left unproved.  (The bound 7·(n+2) is sufficient, not tight: the driver
runs with 4·n + 64, which was never exhausted on any case.)
-/
namespace Grol.C08
open Grol Grol.Parser Grol.Printer Grol.Generated

/-- C08 at one token stream and one fuel -/
def StatementAt (tbl : Nat → Bool) (s : TokStream) (fuel : Nat) : Prop :=
  (∀ site, parseProgram s fuel ≠ .goPanic site) ∧
  (∀ r, parseProgram s fuel = .ok r → r.errors = 0 → r.cont = false →
     noNilL r.program = true ∧
     ∀ compact allParens e, printProgram tbl r.program compact allParens ≠ .error e)

/-- the repeated end marker of the stream is EOF or EOL (third lexer fact; without it — an end marker that is,
say, a comma — the Go parser itself would loop for ever) -/
def EndOK (s : TokStream) : Prop := s.eof.type = .EOF ∨ s.eof.type = .EOL

/-- the full statement: every well-formed stream, every fuel; and a fuel LINEAR in the number of tokens suffices -/
def Statement : Prop :=
  ∀ tbl s, StreamWF s → EndOK s →
    (∀ fuel, StatementAt tbl s fuel) ∧ ∀ fuel, 7 * (s.toks.length + 2) ≤ fuel → parseProgram s fuel ≠ .outOfFuel

/-- what is assumed about the parser's own output (decidable; evaluated on every case by the driver) -/
def Safe (s : TokStream) (fuel : Nat) : Bool :=
  match parseProgram s fuel with
  | .ok r => !(r.errors == 0 && !r.cont) || (noNilL r.program && precOKL r.program)
  | _ => true

theorem parser_never_panics (s : TokStream) (hwf : StreamWF s) (fuel : Nat) (site : PanicSite) :
    parseProgram s fuel ≠ .goPanic site :=
  parseProgram_no_panic s hwf fuel site

theorem printer_never_panics (tbl : Nat → Bool) (prog : NList) (compact allParens : Bool)
    (hn : noNilL prog = true) (hp : precOKL prog = true) (e : PrintPanic) :
    printProgram tbl prog compact allParens ≠ .error e :=
  printProgram_no_panic tbl prog compact allParens hn hp e

theorem «partial» (tbl : Nat → Bool) (s : TokStream) (hwf : StreamWF s) (fuel : Nat) (hs : Safe s fuel = true) :
    StatementAt tbl s fuel := by
  refine ⟨parser_never_panics s hwf fuel, fun r hr he hc => ?_⟩
  unfold Safe at hs
  rw [hr] at hs
  simp only [he, hc, beq_self_eq_true, Bool.not_false, Bool.and_self, Bool.not_true, Bool.false_or,
    Bool.and_eq_true] at hs
  exact ⟨hs.1, fun c a e => printer_never_panics tbl r.program c a hs.1 hs.2 e⟩

/-- **C08 part 2** (no `Safe` needed): for EVERY token stream and fuel, a parse that reports no error and
requests no continuation returns a tree without missing children in which every operator token has a
precedence (`GrolProofs/ParseGood.lean`: every nil-returning parse path records an error or sets
continuation; the `… =>` look-ahead, which returns nil silently, always ends in an error or in a tree
that does not contain the nil). -/
theorem parse_good (s : TokStream) (fuel : Nat) (r : ParseResult) (h : parseProgram s fuel = .ok r)
    (he : r.errors = 0) (hc : r.cont = false) : noNilL r.program = true ∧ precOKL r.program = true :=
  parseProgram_good s fuel r h he hc

/-- `Safe` holds of every stream and fuel -/
theorem safe_always (s : TokStream) (fuel : Nat) : Safe s fuel = true := by
  unfold Safe
  cases h : parseProgram s fuel with
  | goPanic p => rfl
  | outOfFuel => rfl
  | ok r =>
    by_cases hc : r.errors = 0 ∧ r.cont = false
    · have := parse_good s fuel r h hc.1 hc.2
      simp [hc.1, hc.2, this.1, this.2]
    · by_cases he : r.errors = 0
      · have : r.cont = true := by cases hcc : r.cont <;> simp_all
        simp [he, this]
      · simp [he]

/-- **C08, parser + printer, without the termination clause**: on a stream satisfying the two lexer
facts, for every fuel, the parser does not panic, and an error-free continuation-free result has no
missing child and prints without panic in all four modes. -/
theorem front_end_total (tbl : Nat → Bool) (s : TokStream) (hwf : StreamWF s) (fuel : Nat) : StatementAt tbl s fuel :=
  «partial» tbl s hwf fuel (safe_always s fuel)

/-- **C08, termination clause** with an explicit linear bound: 7 units of fuel (= call depth of the model) per
token; no hypothesis other than the end marker being EOF or EOL -/
theorem terminates (s : TokStream) (he : EndOK s) (fuel : Nat) (hf : 7 * (s.toks.length + 2) ≤ fuel) :
    parseProgram s fuel ≠ .outOfFuel :=
  parseProgram_terminates s he fuel hf

/-- **C08 for the parser and the printer**: the full statement -/
theorem statement : Statement :=
  fun tbl s hwf he => ⟨fun fuel => front_end_total tbl s hwf fuel, fun fuel hf => terminates s he fuel hf⟩

/-- with enough fuel the parser returns a result: it neither panics nor runs out of fuel -/
theorem parse_returns (s : TokStream) (hwf : StreamWF s) (he : EndOK s) :
    ∃ r, parseProgram s (7 * (s.toks.length + 2)) = .ok r := by
  cases h : parseProgram s (7 * (s.toks.length + 2)) with
  | ok r => exact ⟨r, rfl⟩
  | goPanic p => exact absurd h (parser_never_panics s hwf _ p)
  | outOfFuel => exact absurd h (terminates s he _ (Nat.le_refl _))

/-- corollary for the streams of the LEXER MODEL (`LexStream.tokStream`, every input, both modes, any
classification of number literals): both stream hypotheses are theorems there -/
theorem statement_lexer (tbl : Nat → Bool) (nc : Grol.Token.Tok → NumClass) (input : Array UInt8) (lineMode : Bool) :
    let s := LexStream.tokStream nc input lineMode
    (∀ fuel, StatementAt tbl s fuel) ∧ ∀ fuel, 7 * (s.toks.length + 2) ≤ fuel → parseProgram s fuel ≠ .outOfFuel :=
  statement tbl _ (LexStream.lexer_streamWF nc input lineMode) (LexStream.tokStream_eof nc input lineMode)

/-! ### non-vacuity: a concrete stream (`a - (b - c)`) is well-formed, safe, and parses to a tree -/

def exampleStream : TokStream :=
  { toks := [ { type := .IDENT, lit := [97], posAfter := 1 }, { type := .MINUS, lit := [45], posBefore := 1, posAfter := 3, hadWs := true },
              { type := .LPAREN, lit := [40], posBefore := 3, posAfter := 5, hadWs := true }, { type := .IDENT, lit := [98], posBefore := 5, posAfter := 6 },
              { type := .MINUS, lit := [45], posBefore := 6, posAfter := 8, hadWs := true }, { type := .IDENT, lit := [99], posBefore := 8, posAfter := 10, hadWs := true },
              { type := .RPAREN, lit := [41], posBefore := 10, posAfter := 11 }, { type := .EOF, lit := [], posBefore := 11, posAfter := 12 } ],
    eof := { type := .EOF, lit := [], posBefore := 12, posAfter := 13 }, inputLen := 11 }

example : StreamWF exampleStream := streamWF_of_b (by decide)
example : Safe exampleStream 20 = true := by decide
example : (match parseProgram exampleStream 20 with | .ok r => r.program.length | _ => 0) = 1 := by decide
example : StatementAt isPrintTable exampleStream 20 := «partial» _ _ (streamWF_of_b (by decide)) _ (by decide)
example : EndOK exampleStream := Or.inl rfl
example : parseProgram exampleStream (7 * (exampleStream.toks.length + 2)) ≠ .outOfFuel :=
  terminates _ (Or.inl rfl) _ (Nat.le_refl _)
/-- the bound is not vacuous the other way either: with too little fuel the model does run out -/
example : (match parseProgram exampleStream 3 with | .outOfFuel => true | _ => false) = true := by decide

end Grol.C08

import Grol.LexSuite
/-
C16 — the lexer is lossless (placeholder while the model follows the unfixed code).
-/
namespace Grol.Lexer
open Grol.Token

theorem C16.placeholder : (next (State.new #[] false)).1.type = TType.EOF := by decide

end Grol.Lexer

import GrolProofs.LexNext
import GrolProofs.LexString
import GrolProofs.LexLines
import GrolProofs.LexTrim
import Grol.LexSuite
/-
C16 — the lexer is lossless: tokens tile the input.

Statements about the model `Grol.Lexer` / `Grol.Token` (tied to /repo/lexer/lexer.go and
token/token.go by the `lex` correspondence suite, which also evaluates the executable statement
`Grol.LexSuite.statement` on the real lexer's observations).  Quantifiers: every lexer state `s`
(any input bytes, any position, both modes) — in particular every state reached from
`State.new input lineMode`.

`start s := (skipWhitespace s).pos` is where the token returned by `next s` begins,
`(next s).2.pos` where it ends; the next call starts from `(next s).2`, so the position before
token i+1 *is* the end of token i.
-/
namespace Grol.Lexer
open Grol.Token Grol.Token.TType Grol.LexSuite

/-- where the token returned by `next s` starts -/
def start (s : State) : Nat := (skipWhitespace s).pos

/-- the token is the end marker (`EOLT` / `EOFT`) -/
def isMarker (t : Tok) : Prop := t.src = .eoleof

theorem next_spec (s : State) : CoreSpec (skipWhitespace s) (next s) := nextCore_spec _

/-- every token is either the end marker of the mode or a well-formed token spanning
`[start, end)`; the end marker is only returned on a NUL byte / at the end of the input, or
where an unterminated string starts -/
theorem C16.cases (s : State) :
    ((next s).1 = eolEof s.lineMode ∧ start s ≤ (next s).2.pos ∧ peekAt s.input (next s).2.pos = 0
        ∧ ((next s).2.pos = start s ∨ peekAt s.input (start s) = 34 ∨ peekAt s.input (start s) = 96))
    ∨ TokOK s.input (start s) (next s).1 (next s).2.pos := by
  have h := (next_spec s).2
  have sk := skipWhitespace_spec s
  rw [sk.input, sk.mode] at h
  exact h

/-- (1) progress: a token that is not the end marker consumes at least one byte and ends inside
the input -/
theorem C16.progress (s : State) (h : ¬ isMarker (next s).1) :
    start s < (next s).2.pos ∧ (next s).2.pos ≤ s.input.size := by
  cases C16.cases s with
  | inl m => exact absurd (by rw [m.1]; rfl) h
  | inr ok => exact ⟨ok.lt, ok.le⟩

/-- (2) tiling: the bytes between the position before the call and the start of the token are
whitespace, the token starts on a non-whitespace byte, ends at or after its start, and the
call leaves input and mode unchanged (so the next token is cut from the same bytes, starting
where this one ended) -/
theorem C16.tiling (s : State) :
    s.pos ≤ start s
    ∧ (∀ i, s.pos ≤ i → i < start s → isWhiteSpace (peekAt s.input i) = true)
    ∧ isWhiteSpace (peekAt s.input (start s)) = false
    ∧ start s ≤ (next s).2.pos
    ∧ (next s).2.input = s.input ∧ (next s).2.lineMode = s.lineMode := by
  have sk := skipWhitespace_spec s
  have h := next_spec s
  have e : (next s).2.input = s.input ∧ (next s).2.lineMode = s.lineMode := by
    rw [h.1]; exact ⟨sk.input, sk.mode⟩
  refine ⟨sk.ge, sk.gap, sk.stop, ?_, e⟩
  cases C16.cases s with
  | inl m => exact m.2.1
  | inr ok => exact Nat.le_of_lt ok.lt

/-- the whitespace flags reported after the call are those computed by `skipWhitespace` -/
theorem C16.flags (s : State) :
    (next s).2.hadWhitespace = (skipWhitespace s).hadWhitespace
    ∧ (next s).2.hadNewline = (skipWhitespace s).hadNewline := by
  have h := (next_spec s).1
  rw [h]; exact ⟨rfl, rfl⟩

/-- (3a) the literal of an operator, identifier, keyword, number or block-comment token is
exactly the bytes it spans -/
theorem C16.literal_span (s : State) (h : ¬ isMarker (next s).1)
    (hk : (next s).1.src = .char1 ∨ (next s).1.src = .char2 ∨ (next s).1.src = .lookup ∨
      ((next s).1.src = .intern ∧ ((next s).1.type = INT ∨ (next s).1.type = FLOAT ∨ (next s).1.type = BLOCKCOMMENT))) :
    (next s).1.lit = spanL s.input (start s) (next s).2.pos := by
  cases C16.cases s with
  | inl m => exact absurd (by rw [m.1]; rfl) h
  | inr ok => exact ok.lit hk

/-- (3b) a string token spans an opening quote … the same closing quote -/
theorem C16.string_span (s : State) (h1 : (next s).1.src = .intern) (h2 : (next s).1.type = STRING) :
    start s + 2 ≤ (next s).2.pos ∧ (next s).2.pos ≤ s.input.size
    ∧ (peekAt s.input (start s) = 34 ∨ peekAt s.input (start s) = 96)
    ∧ peekAt s.input ((next s).2.pos - 1) = peekAt s.input (start s) := by
  cases C16.cases s with
  | inl m => rw [m.1] at h1; cases h1
  | inr ok => exact ⟨(ok.str h1 h2).1, ok.le, (ok.str h1 h2).2⟩

/-- (3c) a line comment spans `//` up to, not including, the next newline / NUL / end of input,
and its literal is that span with trailing space runes removed -/
theorem C16.linecomment_span (s : State) (h1 : (next s).1.src = .intern) (h2 : (next s).1.type = LINECOMMENT) :
    (next s).1.lit = trimSpaceRight (spanL s.input (start s) (next s).2.pos)
    ∧ peekAt s.input (start s) = 47 ∧ peekAt s.input (start s + 1) = 47
    ∧ (∀ i, start s + 1 ≤ i → i < (next s).2.pos → notEOL (peekAt s.input i) = true)
    ∧ notEOL (peekAt s.input (next s).2.pos) = false := by
  cases C16.cases s with
  | inl m => rw [m.1] at h1; cases h1
  | inr ok => exact ok.lc h1 h2

/-- (3d) a block comment spans `/*` … `*/`, or `/*` … up to a NUL byte / the end of the input
when it is not closed -/
theorem C16.blockcomment_span (s : State) (h1 : (next s).1.src = .intern) (h2 : (next s).1.type = BLOCKCOMMENT) :
    peekAt s.input (start s) = 47 ∧ peekAt s.input (start s + 1) = 42 ∧
      ((start s + 4 ≤ (next s).2.pos ∧ peekAt s.input ((next s).2.pos - 2) = 42 ∧ peekAt s.input ((next s).2.pos - 1) = 47)
        ∨ peekAt s.input (next s).2.pos = 0) := by
  cases C16.cases s with
  | inl m => rw [m.1] at h1; cases h1
  | inr ok => exact ok.bc h1 h2

/-- the lexer never returns a nil pointer and never hits a slice-bounds panic -/
theorem C16.no_nil_no_panic (s : State) : (next s).1.src ≠ .nil ∧ (next s).1.src ≠ .panic := by
  cases C16.cases s with
  | inl m => rw [m.1]; exact ⟨by simp [eolEof], by simp [eolEof]⟩
  | inr ok =>
    have wf := ok.wf
    unfold Tok.WF at wf
    constructor <;> (intro h; rw [h] at wf; exact wf)

/-! ### (4) the end marker is sticky -/

/-- once the end marker has been returned, the next call returns it again and does not move -/
theorem C16.sticky_step (s : State) (h : isMarker (next s).1) :
    (next (next s).2).1 = (next s).1 ∧ (next (next s).2).2.pos = (next s).2.pos := by
  cases C16.cases s with
  | inr ok => exact absurd h ok.notMarker
  | inl m =>
    obtain ⟨m1, _, m3, _⟩ := m
    have t := C16.tiling s
    -- the state after the marker stands on a 0 byte: no whitespace to skip, `case 0` again
    have sk := skipWhitespace_spec (next s).2
    have hpos : (skipWhitespace (next s).2).pos = (next s).2.pos := by
      have hstop : ∀ i, (next s).2.pos ≤ i → i < (skipWhitespace (next s).2).pos →
          isWhiteSpace (peekAt (next s).2.input i) = true := sk.gap
      apply Classical.byContradiction
      intro hne
      have hlt : (next s).2.pos < (skipWhitespace (next s).2).pos := by have := sk.ge; omega
      have := hstop (next s).2.pos (Nat.le_refl _) hlt
      rw [t.2.2.2.2.1, m3] at this
      revert this; decide
    have h0 : peekAt (skipWhitespace (next s).2).input (skipWhitespace (next s).2).pos = 0 := by
      rw [sk.input, hpos, t.2.2.2.2.1]; exact m3
    have e : next (next s).2 = (eolEof (skipWhitespace (next s).2).lineMode,
        { (skipWhitespace (next s).2) with pos := (skipWhitespace (next s).2).pos + 1 - 1 }) := by
      show nextSwitch _ _ _ = _
      unfold nextSwitch
      simp only [State.readChar, State.peekChar, h0]
      rfl
    rw [e, m1, sk.mode, t.2.2.2.2.2]
    exact ⟨rfl, by simp [hpos]⟩

/-- state after `k` calls -/
def iter : Nat → State → State
  | 0, s => s
  | k + 1, s => iter k (next s).2

theorem iter_succ' (k : Nat) (s : State) : iter (k + 1) s = (next (iter k s)).2 := by
  induction k generalizing s with
  | zero => rfl
  | succ k ih => exact ih (next s).2

/-- (4) stickiness: after the first end marker every further call returns it -/
theorem C16.sticky (s : State) (h : isMarker (next s).1) (k : Nat) :
    (next (iter k s)).1 = (next s).1 ∧ (next (iter k s)).2.pos = (next s).2.pos := by
  induction k with
  | zero => exact ⟨rfl, rfl⟩
  | succ k ih =>
    rw [iter_succ']
    have hm : isMarker (next (iter k s)).1 := by unfold isMarker; rw [ih.1]; exact h
    have st := C16.sticky_step (iter k s) hm
    exact ⟨st.1.trans ih.1, st.2.trans ih.2⟩

/-! ### (1') the end marker is reached within n+1 tokens -/

theorem marker_within_aux : ∀ (m : Nat) (s : State), s.pos ≤ s.input.size → s.input.size - s.pos ≤ m →
    ∃ k, k ≤ m ∧ isMarker (next (iter k s)).1 := by
  intro m
  induction m with
  | zero =>
    intro s h1 h2
    refine ⟨0, Nat.le_refl _, ?_⟩
    apply Classical.byContradiction
    intro hm
    have p := C16.progress s hm
    have t := C16.tiling s
    omega
  | succ m ih =>
    intro s h1 h2
    by_cases hm : isMarker (next s).1
    · exact ⟨0, Nat.zero_le _, hm⟩
    · have p := C16.progress s hm
      have t := C16.tiling s
      obtain ⟨k, hk, hk2⟩ := ih (next s).2 (by rw [t.2.2.2.2.1]; exact p.2) (by rw [t.2.2.2.2.1]; omega)
      exact ⟨k + 1, by omega, hk2⟩

/-- (1') lexing an input of `n` bytes returns the end marker after at most `n` other tokens,
i.e. within `n+1` calls; the driver's fuel `n + 5` therefore always shows the marker and three
further calls -/
theorem C16.marker_within (input : Array UInt8) (lineMode : Bool) :
    ∃ k, k ≤ input.size ∧ isMarker (next (iter k (State.new input lineMode))).1 :=
  marker_within_aux input.size (State.new input lineMode) (Nat.zero_le _) (by simp [State.new])

/-- all tokens before the first end marker lie inside the input, in order: positions never
decrease from call to call -/
theorem C16.monotone (s : State) : s.pos ≤ (next s).2.pos := by
  have t := C16.tiling s; omega

/-! ### (5) keywords never lex as identifiers -/

theorem lookup_mem {α β : Type} [BEq α] [LawfulBEq α] (k : α) (v : β) :
    ∀ l : List (α × β), l.lookup k = some v → (k, v) ∈ l := by
  intro l
  induction l with
  | nil => intro h; cases h
  | cons x xs ih =>
    intro h
    obtain ⟨a, b⟩ := x
    simp only [List.lookup] at h
    split at h
    · rename_i he
      have : k = a := by simpa using he
      cases h; subst this; exact List.mem_cons_self
    · exact List.mem_cons_of_mem _ (ih h)

theorem keywords_not_ident : ∀ p ∈ keywords, p.2 ≠ IDENT := by decide
theorem cTokens_not_ident : ∀ p ∈ cTokens, p.2 ≠ IDENT := by decide
theorem c2Tokens_not_ident : ∀ p ∈ c2Tokens, p.2 ≠ IDENT := by decide

/-- `LookupIdent` on a keyword never yields IDENT -/
theorem C16.lookupIdent_keyword (w : Bytes) (ty : TType) (h : keywords.lookup w = some ty) :
    (lookupIdent w).type = ty ∧ (lookupIdent w).type ≠ IDENT := by
  have e : (lookupIdent w).type = ty := by unfold lookupIdent; rw [h]
  exact ⟨e, by rw [e]; exact keywords_not_ident _ (lookup_mem _ _ _ h)⟩

/-- (5) a token of type IDENT returned by the lexer is never spelled like a keyword -/
theorem C16.keywords_never_ident (s : State) (h : (next s).1.type = IDENT) :
    keywords.lookup (next s).1.lit = none := by
  cases C16.cases s with
  | inl m => rw [m.1] at h; simp [eolEof] at h; split at h <;> cases h
  | inr ok =>
    have wf := ok.wf
    unfold Tok.WF at wf
    split at wf
    · rcases wf.1 with e | e <;> (rw [e] at h; cases h)
    · obtain ⟨c, _, hc⟩ := wf
      exact absurd h.symm (fun e => cTokens_not_ident _ (lookup_mem _ _ _ hc) e.symm)
    · obtain ⟨a, b, _, hc⟩ := wf
      exact absurd h.symm (fun e => c2Tokens_not_ident _ (lookup_mem _ _ _ hc) e.symm)
    · rcases wf with e | e | e | e | e | e <;> (rw [e] at h; cases h)
    · cases hl : keywords.lookup (next s).1.lit with
      | none => rfl
      | some ty =>
        rw [hl] at wf
        simp only [Option.getD] at wf
        exact absurd (wf.symm.trans h) (keywords_not_ident _ (lookup_mem _ _ _ hl))
    · exact wf.elim
    · exact wf.elim

/-! ### (6) interning -/

theorem idx_lt_iff (k : Key) : ∀ tb : Table, idx k tb < tb.length ↔ k ∈ tb := by
  intro tb
  induction tb with
  | nil => simp [idx]
  | cons x xs ih =>
    unfold idx
    by_cases h : x = k
    · simp [h]
    · simp only [h, ↓reduceIte, List.length_cons, Nat.add_lt_add_iff_right, ih, List.mem_cons]
      constructor
      · exact Or.inr
      · rintro (e | e)
        · exact absurd e.symm h
        · exact e

theorem idx_getElem? (k : Key) : ∀ tb : Table, k ∈ tb → tb[idx k tb]? = some k := by
  intro tb
  induction tb with
  | nil => intro h; cases h
  | cons x xs ih =>
    intro hm
    unfold idx
    by_cases h : x = k
    · simp [h]
    · simp only [h, ↓reduceIte, List.getElem?_cons_succ]
      cases hm with
      | head => exact absurd rfl h
      | tail _ hm => exact ih hm

theorem idx_append (k : Key) (ext : Table) : ∀ tb : Table, k ∈ tb → idx k (tb ++ ext) = idx k tb := by
  intro tb
  induction tb with
  | nil => intro h; cases h
  | cons x xs ih =>
    intro hm
    simp only [List.cons_append]
    unfold idx
    by_cases h : x = k
    · simp [h]
    · simp only [h, ↓reduceIte, Nat.add_right_cancel_iff]
      cases hm with
      | head => exact absurd rfl h
      | tail _ hm => exact ih hm

theorem idx_append_new (k : Key) : ∀ tb : Table, k ∉ tb → idx k (tb ++ [k]) = tb.length := by
  intro tb
  induction tb with
  | nil => intro _; simp [idx]
  | cons x xs ih =>
    intro hm
    simp only [List.cons_append]
    unfold idx
    have h : x ≠ k := fun e => hm (e ▸ List.mem_cons_self)
    simp only [h, ↓reduceIte, List.length_cons, Nat.add_right_cancel_iff]
    exact ih (fun e => hm (List.mem_cons_of_mem _ e))

/-- `Intern`: the pointer returned is the slot of the *first* occurrence of the key in the
resulting table, which extends the old one -/
theorem intern_spec (tb : Table) (k : Key) :
    (intern tb k).1 = .slot (idx k (intern tb k).2) ∧ k ∈ (intern tb k).2 ∧ ∃ ext, (intern tb k).2 = tb ++ ext := by
  unfold intern
  simp only []
  by_cases h : idx k tb < tb.length
  · simp only [h, ↓reduceIte]
    exact ⟨by first | trivial | rfl, (idx_lt_iff k tb).mp h, [], by simp⟩
  · simp only [h, ↓reduceIte]
    have hn : k ∉ tb := fun e => h ((idx_lt_iff k tb).mpr e)
    exact ⟨by rw [idx_append_new k tb hn], by simp, [k], rfl⟩

/-- (6) interning uniqueness: whatever was interned in between (`ext`), interning `k2` after
`k1` returns the same pointer iff the keys `(type, literal)` are equal -/
theorem C16.intern_unique (tb : Table) (k1 k2 : Key) (ext : Table) :
    (intern ((intern tb k1).2 ++ ext) k2).1 = (intern tb k1).1 ↔ k2 = k1 := by
  obtain ⟨p1, m1, _⟩ := intern_spec tb k1
  obtain ⟨p2, m2, e2, he2⟩ := intern_spec ((intern tb k1).2 ++ ext) k2
  rw [p1, p2]
  have hm1 : k1 ∈ (intern ((intern tb k1).2 ++ ext) k2).2 := by
    rw [he2]; simp [m1]
  have i1 : idx k1 (intern ((intern tb k1).2 ++ ext) k2).2 = idx k1 (intern tb k1).2 := by
    rw [he2, List.append_assoc]; exact idx_append k1 _ _ m1
  constructor
  · intro h
    have h : idx k2 (intern ((intern tb k1).2 ++ ext) k2).2 = idx k1 (intern tb k1).2 := by
      injection h
    rw [← i1] at h
    have a := idx_getElem? k2 _ m2
    have b := idx_getElem? k1 _ hm1
    rw [h, b] at a
    injection a with a
    exact a.symm
  · intro h
    subst h
    rw [i1]

/-- the interning table built by `Init` holds every keyword and two-character operator once -/
theorem C16.initTable_nodup : initTable.Nodup := by decide

/-- full interning statement over a whole token stream (any well-formed tokens, any table that
extends the one built by `Init`): two calls return the same pointer iff type and literal agree -/
def C16.InterningStatement : Prop :=
  ∀ (ts : List Tok), (∀ t ∈ ts, t.WF) → ∀ (ext : Table) (i j : Nat) (hi : i < ts.length) (hj : j < ts.length),
    ((resolveAll (initTable ++ ext) ts)[i]? = (resolveAll (initTable ++ ext) ts)[j]?
      ↔ (ts[i].type, ts[i].lit) = (ts[j].type, ts[j].lit))

/-- the `Intern` calls alone (every value token: numbers, strings, comments, illegal bytes,
non-keyword identifiers), with anything interned in between; a corollary-sized special case kept
for reference — the full statement is `C16.interning` below -/
theorem C16.interning_partial (tb : Table) (k1 k2 : Key) (ext : Table) :
    (intern ((intern tb k1).2 ++ ext) k2).1 = (intern tb k1).1 ↔ k2 = k1 :=
  C16.intern_unique tb k1 k2 ext

/-- every token returned by the lexer is well-formed (the hypothesis of `C16.InterningStatement`) -/
theorem C16.next_wf (s : State) : (next s).1.WF := by
  cases C16.cases s with
  | inl m => rw [m.1]; unfold Tok.WF eolEof; cases s.lineMode <;> simp
  | inr ok => exact ok.wf

/-! ### towards the full interning statement: what each pointer denotes -/

def key (t : Tok) : Key := (t.type, t.lit)

/-- what pointer a well-formed token denotes in (any extension of) table `T` -/
def PtrDen (T : Table) (t : Tok) (p : Ptr) : Prop :=
  match t.src with
  | .eoleof => p = (if t.type = EOL then Ptr.eolt else Ptr.eoft)
  | .char1 => ∃ c, t.lit = [c] ∧ p = Ptr.c1 c
  | .char2 => p = Ptr.slot (idx (key t) T) ∧ key t ∈ T
  | .intern => p = Ptr.slot (idx (key t) T) ∧ key t ∈ T
  | .lookup => p = Ptr.slot (idx (key t) T) ∧ key t ∈ T
  | .nil => False
  | .panic => False

theorem PtrDen.ext {T : Table} {t : Tok} {p : Ptr} (h : PtrDen T t p) (e : Table) : PtrDen (T ++ e) t p := by
  unfold PtrDen at *
  split <;> simp_all [idx_append]

theorem kw_mem_init (w : Bytes) (ty : TType) (h : keywords.lookup w = some ty) : (ty, w) ∈ initTable := by
  have := lookup_mem _ _ _ h
  unfold initTable
  exact List.mem_append_left _ (List.mem_map.mpr ⟨(w, ty), this, rfl⟩)

theorem c2_mem_init (a b : UInt8) (ty : TType) (h : c2Tokens.lookup (a, b) = some ty) : (ty, [a, b]) ∈ initTable := by
  have := lookup_mem _ _ _ h
  unfold initTable
  exact List.mem_append_right _ (List.mem_map.mpr ⟨((a, b), ty), this, rfl⟩)

theorem resolve_den (ext : Table) (t : Tok) (wf : t.WF) :
    ∃ e, (resolve (initTable ++ ext) t).2 = initTable ++ ext ++ e
      ∧ PtrDen (initTable ++ ext ++ e) t (resolve (initTable ++ ext) t).1 := by
  unfold Tok.WF at wf
  unfold resolve PtrDen
  split at wf
  · rename_i hs; simp only [hs]; exact ⟨[], by simp, by first | trivial | rfl⟩
  · rename_i hs; simp only [hs]
    obtain ⟨c, hc, _⟩ := wf
    exact ⟨[], by simp, c, hc, by first | trivial | rfl | (rw [hc])⟩
  · rename_i hs; simp only [hs]
    obtain ⟨a, b, hl, hc⟩ := wf
    have hm : key t ∈ initTable := by unfold key; rw [hl]; exact c2_mem_init a b _ hc
    refine ⟨[], by simp, ?_, by simp [hm]⟩
    simp only [List.append_nil]
    rw [idx_append _ _ _ hm]; rfl
  · rename_i hs; simp only [hs]
    obtain ⟨p, m, e, he⟩ := intern_spec (initTable ++ ext) (t.type, t.lit)
    exact ⟨e, he, by rw [← he]; exact p, by rw [← he]; exact m⟩
  · rename_i hs; simp only [hs]
    cases hl : keywords.lookup t.lit with
    | some ty =>
      rw [hl] at wf; simp only [Option.getD] at wf
      have hm : key t ∈ initTable := by unfold key; rw [wf]; exact kw_mem_init _ _ hl
      refine ⟨[], by simp, ?_, by simp [hm]⟩
      simp only [List.append_nil]
      rw [idx_append _ _ _ hm]; unfold key; rw [wf]
    | none =>
      rw [hl] at wf; simp only [Option.getD] at wf
      obtain ⟨p, m, e, he⟩ := intern_spec (initTable ++ ext) (IDENT, t.lit)
      have hk : key t = (IDENT, t.lit) := by unfold key; rw [wf]
      exact ⟨e, he, by rw [← he, hk]; exact p, by rw [← he, hk]; exact m⟩
  · exact wf.elim
  · exact wf.elim

/-! ### (6) the full interning statement -/

theorem resolveAll_length : ∀ (ts : List Tok) (tb : Table), (resolveAll tb ts).length = ts.length := by
  intro ts
  induction ts with
  | nil => intro tb; rfl
  | cons t ts ih => intro tb; simp [resolveAll, ih]

/-- every pointer of the stream denotes its token's key in one final table -/
theorem resolveAll_den : ∀ (ts : List Tok) (ext : Table), (∀ t ∈ ts, t.WF) →
    ∃ e, ∀ (i : Nat) (t : Tok) (p : Ptr), ts[i]? = some t → (resolveAll (initTable ++ ext) ts)[i]? = some p →
      PtrDen (initTable ++ ext ++ e) t p := by
  intro ts
  induction ts with
  | nil => intro ext _; exact ⟨[], fun i t p h => by simp at h⟩
  | cons t ts ih =>
    intro ext wf
    obtain ⟨e1, he1, hd1⟩ := resolve_den ext t (wf t List.mem_cons_self)
    obtain ⟨e2, h2⟩ := ih (ext ++ e1) (fun u hu => wf u (List.mem_cons_of_mem _ hu))
    refine ⟨e1 ++ e2, ?_⟩
    intro i u p hu hp
    have assoc : initTable ++ ext ++ (e1 ++ e2) = initTable ++ ext ++ e1 ++ e2 := by simp
    cases i with
    | zero =>
      simp only [List.getElem?_cons_zero, Option.some.injEq] at hu
      subst hu
      simp only [resolveAll, List.getElem?_cons_zero, Option.some.injEq] at hp
      subst hp
      rw [assoc]
      exact hd1.ext e2
    | succ j =>
      simp only [List.getElem?_cons_succ] at hu
      simp only [resolveAll, List.getElem?_cons_succ] at hp
      rw [he1, List.append_assoc] at hp
      have := h2 j u p hu hp
      rw [assoc, List.append_assoc initTable ext e1]
      exact this

/-- 0 = end marker, 1 = single-character constant, 2 = token held by the interning map -/
def kind (t : Tok) : Nat :=
  match t.src with
  | .eoleof => 0
  | .char1 => 1
  | _ => 2

def isC1Type (ty : TType) : Bool := (cTokens.map (·.2)).contains ty

/-- the same classification read off the type alone -/
def tcls (ty : TType) : Nat := if ty = EOL ∨ ty = EOF then 0 else if isC1Type ty then 1 else 2

theorem cTokens_cls : ∀ p ∈ cTokens, tcls p.2 = 1 := by decide
theorem c2Tokens_cls : ∀ p ∈ c2Tokens, tcls p.2 = 2 := by decide
theorem keywords_cls : ∀ p ∈ keywords, tcls p.2 = 2 := by decide

theorem wf_cls (t : Tok) (wf : t.WF) : tcls t.type = kind t := by
  unfold Tok.WF at wf
  unfold kind
  split at wf
  · rename_i hs; simp only [hs]; rcases wf.1 with e | e <;> (rw [e]; decide)
  · rename_i hs; simp only [hs]
    obtain ⟨c, _, hc⟩ := wf
    exact cTokens_cls _ (lookup_mem _ _ _ hc)
  · rename_i hs; simp only [hs]
    obtain ⟨a, b, _, hc⟩ := wf
    exact c2Tokens_cls _ (lookup_mem _ _ _ hc)
  · rename_i hs; simp only [hs]
    rcases wf with e | e | e | e | e | e <;> (rw [e]; decide)
  · rename_i hs; simp only [hs]
    cases hl : keywords.lookup t.lit with
    | none => rw [hl] at wf; simp only [Option.getD] at wf; rw [wf]; decide
    | some ty =>
      rw [hl] at wf; simp only [Option.getD] at wf; rw [wf]
      exact keywords_cls _ (lookup_mem _ _ _ hl)
  · exact wf.elim
  · exact wf.elim

/-- normal form of `PtrDen` by kind -/
theorem den_norm {T : Table} {t : Tok} {p : Ptr} (wf : t.WF) (h : PtrDen T t p) :
    (kind t = 0 ∧ t.lit = [] ∧ p = (if t.type = EOL then Ptr.eolt else Ptr.eoft))
    ∨ (kind t = 1 ∧ ∃ c, t.lit = [c] ∧ cTokens.lookup c = some t.type ∧ p = Ptr.c1 c)
    ∨ (kind t = 2 ∧ p = Ptr.slot (idx (key t) T) ∧ key t ∈ T) := by
  unfold Tok.WF at wf
  unfold PtrDen at h
  unfold kind
  split at wf
  · rename_i hs; simp only [hs] at h ⊢; exact Or.inl ⟨trivial, wf.2, h⟩
  · rename_i hs; simp only [hs] at h ⊢
    obtain ⟨c, hc, hl⟩ := wf
    obtain ⟨c', hc', hp⟩ := h
    have : c' = c := by rw [hc] at hc'; injection hc' with h1; exact h1.symm
    subst this
    exact Or.inr (Or.inl ⟨trivial, c', hc, hl, hp⟩)
  · rename_i hs; simp only [hs] at h ⊢; exact Or.inr (Or.inr ⟨trivial, h⟩)
  · rename_i hs; simp only [hs] at h ⊢; exact Or.inr (Or.inr ⟨trivial, h⟩)
  · rename_i hs; simp only [hs] at h ⊢; exact Or.inr (Or.inr ⟨trivial, h⟩)
  · exact wf.elim
  · exact wf.elim

theorem idx_inj {T : Table} {k1 k2 : Key} (m1 : k1 ∈ T) (m2 : k2 ∈ T) (h : idx k1 T = idx k2 T) : k1 = k2 := by
  have a := idx_getElem? k1 T m1
  have b := idx_getElem? k2 T m2
  rw [h, b] at a
  injection a with a
  exact a.symm

/-- in one table, two well-formed tokens denote the same pointer iff type and literal agree -/
theorem den_inj {T : Table} {t1 t2 : Tok} {p1 p2 : Ptr} (w1 : t1.WF) (w2 : t2.WF)
    (d1 : PtrDen T t1 p1) (d2 : PtrDen T t2 p2) : p1 = p2 ↔ key t1 = key t2 := by
  have c1 := wf_cls t1 w1
  have c2 := wf_cls t2 w2
  have kk : key t1 = key t2 → kind t1 = kind t2 := by
    intro h
    have : t1.type = t2.type := congrArg Prod.fst h
    rw [← c1, ← c2, this]
  rcases den_norm w1 d1 with ⟨k1, l1, e1⟩ | ⟨k1, a, la, ha, e1⟩ | ⟨k1, e1, m1⟩ <;>
  rcases den_norm w2 d2 with ⟨k2, l2, e2⟩ | ⟨k2, b, lb, hb, e2⟩ | ⟨k2, e2, m2⟩
  · -- two end markers
    have ty1 : t1.type = EOL ∨ t1.type = EOF := by
      unfold tcls at c1; rw [k1] at c1
      by_cases h : t1.type = EOL ∨ t1.type = EOF
      · exact h
      · rw [if_neg h] at c1; split at c1 <;> cases c1
    have ty2 : t2.type = EOL ∨ t2.type = EOF := by
      unfold tcls at c2; rw [k2] at c2
      by_cases h : t2.type = EOL ∨ t2.type = EOF
      · exact h
      · rw [if_neg h] at c2; split at c2 <;> cases c2
    subst e1; subst e2
    unfold key
    rw [l1, l2]
    rcases ty1 with h1 | h1 <;> rcases ty2 with h2 | h2 <;> simp [h1, h2]
  · subst e1; subst e2
    constructor
    · intro h; split at h <;> cases h
    · intro h; have := kk h; omega
  · subst e1; subst e2
    constructor
    · intro h; split at h <;> cases h
    · intro h; have := kk h; omega
  · subst e1; subst e2
    constructor
    · intro h; split at h <;> cases h
    · intro h; have := kk h; omega
  · -- two single-character constants
    subst e1; subst e2
    unfold key
    constructor
    · intro h
      injection h with h
      subst h
      rw [ha] at hb; injection hb with hb
      rw [la, lb, hb]
    · intro h
      have : t1.lit = t2.lit := congrArg Prod.snd h
      rw [la, lb] at this
      injection this with this
      rw [this]
  · subst e1; subst e2
    constructor
    · intro h; cases h
    · intro h; have := kk h; omega
  · subst e1; subst e2
    constructor
    · intro h; split at h <;> cases h
    · intro h; have := kk h; omega
  · subst e1; subst e2
    constructor
    · intro h; cases h
    · intro h; have := kk h; omega
  · -- two slots of the interning map
    subst e1; subst e2
    constructor
    · intro h; injection h with h; exact idx_inj m1 m2 h
    · intro h; rw [h]

/-- (6) interning, full statement: over any stream of well-formed tokens (every token the lexer
returns is one: `C16.next_wf`), resolved against any table that extends the one built by `Init`,
two calls return the same pointer iff type and literal are equal -/
theorem C16.interning : C16.InterningStatement := by
  intro ts wf ext i j hi hj
  obtain ⟨e, hd⟩ := resolveAll_den ts ext wf
  have li : i < (resolveAll (initTable ++ ext) ts).length := by rw [resolveAll_length]; exact hi
  have lj : j < (resolveAll (initTable ++ ext) ts).length := by rw [resolveAll_length]; exact hj
  have di := hd i ts[i] _ (List.getElem?_eq_getElem hi) (List.getElem?_eq_getElem li)
  have dj := hd j ts[j] _ (List.getElem?_eq_getElem hj) (List.getElem?_eq_getElem lj)
  have := den_inj (wf _ (List.getElem_mem hi)) (wf _ (List.getElem_mem hj)) di dj
  rw [List.getElem?_eq_getElem li, List.getElem?_eq_getElem lj]
  constructor
  · intro h; injection h with h; exact this.mp h
  · intro h; rw [this.mpr h]

/-- the pointers of the tokens returned by `k` successive calls of the lexer, from any state -/
theorem C16.interning_lexer (s : State) (k : Nat) (ext : Table) (i j : Nat) (hi : i < k) (hj : j < k) :
    let ts := (List.range k).map fun n => (next (iter n s)).1
    ((resolveAll (initTable ++ ext) ts)[i]? = (resolveAll (initTable ++ ext) ts)[j]?
      ↔ ((next (iter i s)).1.type, (next (iter i s)).1.lit) = ((next (iter j s)).1.type, (next (iter j s)).1.lit)) := by
  intro ts
  have wf : ∀ t ∈ ts, t.WF := by
    intro t ht
    obtain ⟨n, _, rfl⟩ := List.mem_map.mp ht
    exact C16.next_wf _
  have hi' : i < ts.length := by simp [ts]; exact hi
  have hj' : j < ts.length := by simp [ts]; exact hj
  have := C16.interning ts wf ext i j hi' hj'
  simpa [ts] using this

/-! ### (3b') string literal = unescape(content) -/

/-- `NextToken` on a quote: the `case '"', '`'` branch -/
theorem nextCore_quote (s1 : State) (q : UInt8) (hq : q = 34 ∨ q = 96) (h : peekAt s1.input s1.pos = q) :
    nextCore s1 =
      (if (!(readString { s1 with pos := s1.pos + 1 } q).2.1) = true then
        ((readString { s1 with pos := s1.pos + 1 } q).2.2.eolEof,
          { (readString { s1 with pos := s1.pos + 1 } q).2.2 with
            pos := (readString { s1 with pos := s1.pos + 1 } q).2.2.pos - 1 })
      else (internTok STRING (readString { s1 with pos := s1.pos + 1 } q).1,
          (readString { s1 with pos := s1.pos + 1 } q).2.2)) := by
  unfold nextCore nextSwitch
  simp only [State.readChar, State.peekChar, h]
  rcases hq with rfl | rfl <;> rfl

/-- (3b') string literal = unescape(content), by proof: for a STRING token the statement's own
decoder, run exactly as `LexSuite.checkTok` runs it (same quote, same fuel, same bytes), returns
the token's literal and the token's length after the opening quote -/
theorem C16.string_literal (s : State) (h1 : (next s).1.src = .intern) (h2 : (next s).1.type = STRING) :
    specString (peekAt s.input (start s) == 34) (peekAt s.input (start s)) (s.input.size + 1)
        ((s.input.extract (start s + 1) s.input.size).toList)
      = some ((next s).1.lit, (next s).2.pos - start s - 1) := by
  have sp := C16.string_span s h1 h2
  have sk := skipWhitespace_spec s
  have hq : peekAt (skipWhitespace s).input (skipWhitespace s).pos = peekAt s.input (start s) := by
    rw [sk.input]; rfl
  obtain ⟨S, hS⟩ : ∃ S : State, S = { skipWhitespace s with pos := (skipWhitespace s).pos + 1 } := ⟨_, rfl⟩
  have hSi : S.input = s.input := by rw [hS]; exact sk.input
  have hSp : S.pos = start s + 1 := by rw [hS]; rfl
  have e := nextCore_quote (skipWhitespace s) _ sp.2.2.1 hq
  rw [← hS] at e
  have ag := readString_eq_spec S _ sp.2.2.1 (by omega)
  rw [hSi, hSp] at ag
  have e' : next s = nextCore (skipWhitespace s) := rfl
  rw [e'] at h1 h2 ⊢
  rw [e] at h1 h2 ⊢
  show specString _ _ _ (restL s.input (start s + 1)) = _
  generalize specString (peekAt s.input (start s) == 34) (peekAt s.input (start s)) (s.input.size + 1)
    (restL s.input (start s + 1)) = o at ag ⊢
  cases o with
  | none =>
    unfold Agree at ag
    simp only [] at ag
    rw [ag] at h1
    simp [State.eolEof, eolEof] at h1
  | some vm =>
    obtain ⟨v, m⟩ := vm
    unfold Agree at ag
    simp only [] at ag
    rw [ag]
    simp only [Bool.not_true, Bool.false_eq_true, ↓reduceIte, internTok]
    congr 2
    rw [hSp]; omega

/-- … and where the lexer returns the end marker on a quote, that decoder says "not terminated"
(the `checkMarker` clause of the executable statement) -/
theorem C16.unterminated_string (s : State) (hm : isMarker (next s).1)
    (hq : peekAt s.input (start s) = 34 ∨ peekAt s.input (start s) = 96) :
    specString (peekAt s.input (start s) == 34) (peekAt s.input (start s)) (s.input.size + 1)
        ((s.input.extract (start s + 1) s.input.size).toList) = none := by
  have sk := skipWhitespace_spec s
  have hq' : peekAt (skipWhitespace s).input (skipWhitespace s).pos = peekAt s.input (start s) := by
    rw [sk.input]; rfl
  obtain ⟨S, hS⟩ : ∃ S : State, S = { skipWhitespace s with pos := (skipWhitespace s).pos + 1 } := ⟨_, rfl⟩
  have hSi : S.input = s.input := by rw [hS]; exact sk.input
  have hSp : S.pos = start s + 1 := by rw [hS]; rfl
  have e := nextCore_quote (skipWhitespace s) _ hq hq'
  rw [← hS] at e
  have ag := readString_eq_spec S _ hq (by omega)
  rw [hSi, hSp] at ag
  have e' : next s = nextCore (skipWhitespace s) := rfl
  rw [e', e] at hm
  show specString _ _ _ (restL s.input (start s + 1)) = _
  generalize specString (peekAt s.input (start s) == 34) (peekAt s.input (start s)) (s.input.size + 1)
    (restL s.input (start s + 1)) = o at ag ⊢
  cases o with
  | none => rfl
  | some vm =>
    obtain ⟨v, m⟩ := vm
    unfold Agree at ag
    simp only [] at ag
    rw [ag] at hm
    simp [isMarker, internTok] at hm

/-! ### (7) line bookkeeping: `lastNewLine`, `lineNumber`, `hadNewline`, `hadWhitespace` -/

/-- `next` keeps the line invariant: `lastNewLine ≤ pos`, `lastNewLine ≤ len(input)`, `lastNewLine`
is 0 or just after a newline byte, `1 ≤ lineNumber ≤ 1 + #newlines before pos` -/
theorem C16.lineInv_next (s : State) (h : LineInv s) : LineInv (next s).2 := by
  have h1 := (skipWhitespace_flags s).1 h
  have sp := next_spec s
  have t := C16.tiling s
  rw [sp.1]
  exact h1.advance t.2.2.2.1

theorem C16.lineInv_iter (s : State) (h : LineInv s) (k : Nat) : LineInv (iter k s) := by
  induction k with
  | zero => exact h
  | succ k ih => rw [iter_succ']; exact C16.lineInv_next _ ih

/-- after every call, from the initial state of either mode: `LastNewLine() ≤ min Pos() len(input)`
(the first hypothesis of the parser's `StreamWF`) -/
theorem C16.lastNewLine_le (input : Array UInt8) (lineMode : Bool) (k : Nat) :
    (next (iter k (State.new input lineMode))).2.lastNewLine
      ≤ min (next (iter k (State.new input lineMode))).2.pos input.size := by
  have h := C16.lineInv_next _ (C16.lineInv_iter _ (LineInv.new input lineMode) k)
  have e : (next (iter k (State.new input lineMode))).2.input = input := by
    have : ∀ k, (iter k (State.new input lineMode)).input = input := by
      intro k
      induction k with
      | zero => rfl
      | succ k ih => rw [iter_succ', (C16.tiling _).2.2.2.2.1]; exact ih
    rw [(C16.tiling _).2.2.2.2.1]; exact this k
  have := h.le_pos
  have := h.le_size
  rw [e] at this
  omega

/-- the flags after the call say exactly what lies between the previous token and this one -/
theorem C16.flags_exact (s : State) :
    ((next s).2.hadWhitespace = true ↔ s.pos < start s)
    ∧ ((next s).2.hadNewline = true ↔ ∃ i, s.pos ≤ i ∧ i < start s ∧ peekAt s.input i = 10) := by
  have f := C16.flags s
  have k := skipWhitespace_flags s
  rw [f.1, f.2]
  exact ⟨k.2.1, k.2.2⟩

/-- on a NUL byte / at the end of the input the call returns the end marker -/
theorem next_of_zero (s : State) (h : peekAt s.input s.pos = 0) : isMarker (next s).1 := by
  have sk := skipWhitespace_spec s
  have hpos : (skipWhitespace s).pos = s.pos := by
    apply Classical.byContradiction
    intro hne
    have hlt : s.pos < (skipWhitespace s).pos := by have := sk.ge; omega
    have := sk.gap s.pos (Nat.le_refl _) hlt
    rw [h] at this
    revert this; decide
  have h0 : peekAt (skipWhitespace s).input (skipWhitespace s).pos = 0 := by
    rw [sk.input, hpos]; exact h
  have e : next s = (eolEof (skipWhitespace s).lineMode,
      { (skipWhitespace s) with pos := (skipWhitespace s).pos + 1 - 1 }) := by
    show nextSwitch _ _ _ = _
    unfold nextSwitch
    simp only [State.readChar, State.peekChar, h0]
    rfl
  rw [e]; rfl

theorem src_of_linecomment (t : Tok) (wf : t.WF) (h : t.type = LINECOMMENT) : t.src = .intern := by
  unfold Tok.WF at wf
  split at wf
  · rcases wf.1 with e | e <;> (rw [e] at h; cases h)
  · obtain ⟨c, _, hc⟩ := wf
    have : ∀ p ∈ cTokens, p.2 ≠ LINECOMMENT := by decide
    exact absurd h (this _ (lookup_mem _ _ _ hc))
  · obtain ⟨a, b, _, hc⟩ := wf
    have : ∀ p ∈ c2Tokens, p.2 ≠ LINECOMMENT := by decide
    exact absurd h (this _ (lookup_mem _ _ _ hc))
  · assumption
  · cases hl : keywords.lookup t.lit with
    | none => rw [hl] at wf; simp only [Option.getD] at wf; rw [wf] at h; cases h
    | some ty =>
      rw [hl] at wf; simp only [Option.getD] at wf
      have : ∀ p ∈ keywords, p.2 ≠ LINECOMMENT := by decide
      exact absurd (wf.symm.trans h) (this _ (lookup_mem _ _ _ hl))
  · exact wf.elim
  · exact wf.elim

/-- a line comment is followed by a token with `HadNewline()`, or by the end marker (the second
hypothesis of the parser's `StreamWF`) -/
theorem C16.after_linecomment (s : State) (h : (next s).1.type = LINECOMMENT) :
    (next (next s).2).2.hadNewline = true ∨ isMarker (next (next s).2).1 := by
  have hsrc := src_of_linecomment _ (C16.next_wf s) h
  have lc := C16.linecomment_span s hsrc h
  have t := C16.tiling s
  have hstop := lc.2.2.2.2
  have : peekAt s.input (next s).2.pos = 10 ∨ peekAt s.input (next s).2.pos = 0 := by
    unfold notEOL at hstop
    simp only [Bool.and_eq_false_imp, bne_iff_ne, ne_eq, bne_eq_false_iff_eq] at hstop
    by_cases h10 : peekAt s.input (next s).2.pos = 10
    · exact Or.inl h10
    · exact Or.inr (hstop h10)
  rcases this with h10 | h0
  · left
    rw [(C16.flags_exact (next s).2).2]
    have sk := skipWhitespace_spec (next s).2
    refine ⟨(next s).2.pos, Nat.le_refl _, ?_, by rw [t.2.2.2.2.1]; exact h10⟩
    unfold start
    have hstp := sk.stop
    rw [t.2.2.2.2.1] at hstp
    apply Classical.byContradiction
    intro hn
    have : (skipWhitespace (next s).2).pos = (next s).2.pos := by have := sk.ge; omega
    rw [this, h10] at hstp
    revert hstp; decide
  · right
    exact next_of_zero _ (by rw [t.2.2.2.2.1]; exact h0)

/-- `lineNumber` is *not* "1 + number of newlines before pos": newlines inside strings and block
comments are not counted (only `skipWhitespace` counts).  Input: a backquoted string holding a
newline, then `x`: after both tokens `lineNumber` is still 1 although a newline lies before `pos`. -/
example : (iter 2 (State.new #[96, 10, 96, 32, 120] false)).lineNumber = 1
    ∧ countNL #[96, 10, 96, 32, 120] (iter 2 (State.new #[96, 10, 96, 32, 120] false)).pos = 1 := by
  decide +kernel

/-! ### (3c') line-comment literal = TrimSpace(span) in the statement's sense; literals that end a line -/

/-- the literal of a LINECOMMENT token passes the statement's `isTrimOf` check on its span (and by
`isTrimOf_iff` it is the only literal that does) -/
theorem C16.linecomment_literal (s : State) (h1 : (next s).1.src = .intern) (h2 : (next s).1.type = LINECOMMENT) :
    isTrimOf (next s).1.lit (spanOf s.input (start s) (next s).2.pos) = true := by
  rw [(C16.linecomment_span s h1 h2).1]
  exact isTrimOf_trimSpaceRight _

theorem mem_spanL {input : Array UInt8} {a b : Nat} {x : UInt8} (h : x ∈ spanL input a b) :
    ∃ i, a ≤ i ∧ i < b ∧ x = peekAt input i := by
  obtain ⟨i, hi⟩ := List.mem_iff_getElem?.mp h
  rw [spanL_getElem?] at hi
  split at hi
  · rename_i hlt
    refine ⟨a + i, by omega, by omega, ?_⟩
    unfold peekAt; rw [hi]; rfl
  · cases hi

theorem getLast?_mem {l : Bytes} {x : UInt8} (h : l.getLast? = some x) : x ∈ l := by
  rw [List.getLast?_eq_getElem?] at h
  exact List.mem_iff_getElem?.mpr ⟨_, h⟩

/-- a non-empty span without newline bytes: non-empty, last byte is not a newline -/
theorem span_litOK {input : Array UInt8} {a b : Nat} (h1 : a < b) (h2 : b ≤ input.size)
    (hn : ∀ i, a ≤ i → i < b → peekAt input i ≠ 10) :
    spanL input a b ≠ [] ∧ (spanL input a b).getLast? ≠ some 10 := by
  constructor
  · intro h
    have := congrArg List.length h
    rw [spanL_length] at this
    simp at this; omega
  · intro h
    obtain ⟨i, hi1, hi2, hx⟩ := mem_spanL (getLast?_mem h)
    exact hn i hi1 hi2 hx.symm

theorem spaces_head_ne_slash {l : Bytes} (h : Spaces l) : l[0]? ≠ some 47 := by
  cases h with
  | nil => simp
  | cons q l' hq _ =>
    have hne := seq_ne_nil q hq
    have hh := seq_head_ne_slash q hq
    cases q with
    | nil => exact absurd rfl hne
    | cons a t => simpa using hh

theorem cTokens_key_nl : ∀ p ∈ cTokens, p.1 ≠ 10 := by decide
theorem c2Tokens_key_nl : ∀ p ∈ c2Tokens, p.1.2 ≠ 10 := by decide

/-- operators, identifiers, keywords, numbers and line comments have a non-empty literal that does
not end in a newline byte (what the printer needs of the last token of a line) -/
theorem C16.literal_ends_line (s : State)
    (hk : (next s).1.src = .char1 ∨ (next s).1.src = .char2 ∨ (next s).1.src = .lookup ∨
      ((next s).1.src = .intern ∧ ((next s).1.type = INT ∨ (next s).1.type = FLOAT ∨ (next s).1.type = LINECOMMENT))) :
    (next s).1.lit ≠ [] ∧ (next s).1.lit.getLast? ≠ some 10 := by
  cases C16.cases s with
  | inl m =>
    rw [m.1] at hk
    simp [eolEof] at hk
  | inr ok =>
    have wf := ok.wf
    rcases hk with h | h | h | ⟨h, hty⟩
    · unfold Tok.WF at wf; rw [h] at wf
      obtain ⟨c, hl, hc⟩ := wf
      rw [hl]
      exact ⟨by simp, by simp; exact cTokens_key_nl _ (lookup_mem _ _ _ hc)⟩
    · unfold Tok.WF at wf; rw [h] at wf
      obtain ⟨a, b, hl, hc⟩ := wf
      rw [hl]
      exact ⟨by simp, by simp; exact c2Tokens_key_nl _ (lookup_mem _ _ _ hc)⟩
    · rw [ok.lit (Or.inr (Or.inr (Or.inl h)))]
      exact span_litOK ok.lt ok.le (ok.nonl (Or.inl h))
    · rcases hty with hty | hty | hty
      · rw [ok.lit (Or.inr (Or.inr (Or.inr ⟨h, Or.inl hty⟩)))]
        exact span_litOK ok.lt ok.le (ok.nonl (Or.inr ⟨h, Or.inl hty⟩))
      · rw [ok.lit (Or.inr (Or.inr (Or.inr ⟨h, Or.inr (Or.inl hty)⟩)))]
        exact span_litOK ok.lt ok.le (ok.nonl (Or.inr ⟨h, Or.inr hty⟩))
      · obtain ⟨hl, h47, h47', hall, _⟩ := ok.lc h hty
        obtain ⟨suf, hs, he, _⟩ := trimSpaceRight_spec (spanL s.input (start s) (next s).2.pos)
        rw [← hl] at he
        -- no newline in the span
        have hn : ∀ i, start s ≤ i → i < (next s).2.pos → peekAt s.input i ≠ 10 := by
          intro i hi1 hi2
          by_cases hi : i = start s
          · rw [hi, h47]; decide
          · have := hall i (by omega) hi2
            intro h10; rw [h10] at this; revert this; decide
        constructor
        · intro hnil
          rw [hnil, List.nil_append] at he
          -- the span would be a run of space runes, but it starts with '/'
          have hsp : Spaces (spanL s.input (start s) (next s).2.pos) := by rw [he]; exact hs
          have hhead : (spanL s.input (start s) (next s).2.pos)[0]? = some 47 := by
            rw [spanL_getElem?]
            have := ok.lt; have := ok.le
            rw [if_pos (by omega)]
            have hlt : start s < s.input.size := by omega
            simp only [Nat.add_zero]
            rw [Array.getElem?_eq_getElem hlt]
            rw [peekAt_of_lt hlt] at h47
            rw [h47]
          exact spaces_head_ne_slash hsp hhead
        · intro hlast
          have hm := getLast?_mem hlast
          have : (10 : UInt8) ∈ spanL s.input (start s) (next s).2.pos := by rw [he]; exact List.mem_append_left _ hm
          obtain ⟨i, hi1, hi2, hx⟩ := mem_spanL this
          exact hn i hi1 hi2 hx.symm

/-! ### non-vacuity: the three repaired inputs, evaluated by the kernel -/

def lexTypes (input : List UInt8) (lineMode : Bool) (k : Nat) : List (TType × Bytes × Nat) :=
  (List.range k).map fun i =>
    let r := next (iter i (State.new input.toArray lineMode))
    (r.1.type, r.1.lit, r.2.pos)

/-- `1e+ x` : INT "1" ends at 1, then `e`, `+`, `x`, EOF (was: INT "1" ending at 3) -/
example : lexTypes [49, 101, 43, 32, 120] false 5 =
    [(INT, [49], 1), (IDENT, [101], 2), (PLUS, [43], 3), (IDENT, [120], 5), (EOF, [], 5)] := by decide +kernel

/-- `.5.` : FLOAT ".5" ends at 2, then DOT (was: FLOAT "." ending at 2) -/
example : lexTypes [46, 53, 46] false 3 = [(FLOAT, [46, 53], 2), (DOT, [46], 3), (EOF, [], 3)] := by decide +kernel

/-- `a\0b` in line mode: IDENT, then EOL for ever (was: a, EOL, b, EOL) -/
example : lexTypes [97, 0, 98] true 4 = [(IDENT, [97], 1), (EOL, [], 1), (EOL, [], 1), (EOL, [], 1)] := by decide +kernel

/-- keywords and identifiers -/
example : lexTypes [105, 102, 32, 105, 102, 102] false 3 = [(IF, [105, 102], 2), (IDENT, [105, 102, 102], 6), (EOF, [], 6)] := by
  decide +kernel

end Grol.Lexer

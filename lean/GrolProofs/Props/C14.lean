import GrolProofs.SaveOrder
import GrolProofs.SaveLines
import GrolProofs.SaveRead
import GrolProofs.SaveQuote
/-
C14 — saved state loads back to the same state.

Model: `Grol.Save` (`SaveGlobals` as a function from the store to lines, every `Inspect` of data
values and functions), tied to object/state.go and object/object.go by the `saveload` suite, which
also evaluates the property itself on the implementation (both ways of loading, second save, calls of
the reloaded functions, length limit, the real save()/load() and AutoSave/AutoLoad files).

What is proved here, for every store (unbounded):
* `sorted_one_per_binding`: the lines are written in bytewise key order, exactly one for each binding
  that is written, and it is that binding's line;
* `one_line`: the printed form of a data value has no newline byte, so a data binding occupies
  exactly one line (`data_binding_line`);
* `limit_skips`: with a length limit a binding's line is either the unlimited line or absent;
* `quote_roundtrip`: for every string of bytes < 0x80 the lexer model's string reader applied to its quoted form
  returns exactly the string and consumes exactly the literal (needs fix db71ff2);
* `int_roundtrip`: the printed form of EVERY int64 evaluates back to it (`-9223372036854775808`
  included, after fix 61e5755).
The full property (`Statement`) needs the composition of the lexer, parser and evaluator models on
the printed text (`readBack`); it is proved for the part `Safe` = integers, booleans, nil, ASCII strings (`partial`), the rest is covered by
the suite only.  See known_findings.json for what is false of the code (functions).
-/
namespace Grol.Save.C14
open Grol.E Grol.Save
open Grol.Wire (Bytes)

/-- (4) lines are sorted by name and there is exactly one per written binding -/
theorem sorted_one_per_binding (fm : Fmt) (maxLen : Nat) (store : List Binding) (out : List (Bytes × Bytes))
    (h : saveGlobals fm maxLen store = .ok out) :
    (sortB store).Perm store ∧ SortedB (sortB store) ∧
    out.map (·.1) = ((sortB store).filter (wrote fm maxLen)).map (·.name) ∧
    (out.map (·.1)).Pairwise (fun a b => nameLe a b = true) ∧
    ∀ p ∈ out, ∃ b ∈ store, p.1 = b.name ∧ saveLine fm maxLen b = .ok (some p.2) := by
  have hs := saveSorted_spec fm maxLen (sortB store) out h
  refine ⟨sortB_perm store, sortB_sorted store, hs.1, ?_, ?_⟩
  · rw [hs.1]
    have hsub : ((sortB store).filter (wrote fm maxLen)).Sublist (sortB store) := List.filter_sublist
    have := (sortB_sorted store).sublist hsub
    exact List.pairwise_map.mpr this
  · intro p hp
    obtain ⟨b, hb, h1, h2⟩ := hs.2 p hp
    exact ⟨b, (sortB_perm store).mem_iff.mp hb, h1, h2⟩

/-- (2) the printed form of a data value contains no newline -/
theorem one_line (fm : Fmt) (hf : fm.OneLine) (v : Obj) (out : Bytes) (hd : isData v = true)
    (h : inspectP fm v = .ok out) : NoNL out :=
  inspectP_noNL fm hf v out hd h

theorem one_line_std (v : Obj) (out : Bytes) (hd : isData v = true) (h : inspectP stdFmt v = .ok out) : NoNL out :=
  one_line stdFmt stdFmt_oneLine v out hd h

/-- the line of a data binding is `name=<printed value>\n` with a printed value free of newlines -/
theorem data_binding_line (fm : Fmt) (hf : fm.OneLine) (maxLen : Nat) (b : Binding) (line : Bytes)
    (hd : isData b.val = true) (h : saveLine fm maxLen b = .ok (some line)) :
    ∃ val, inspectP fm b.val = .ok val ∧ NoNL val ∧ line = b.name ++ [61] ++ val ++ [10] := by
  unfold saveLine at h
  split at h
  · simp [pure, Except.pure] at h
  · have hv : ∀ (r : R (Option Bytes)),
        r = (do
          let val ← inspectP fm b.val
          if maxLen > 0 && val.length > maxLen then pure none
          else pure (some (b.name ++ [61] ++ val ++ [10]))) →
        r = .ok (some line) →
        ∃ val, inspectP fm b.val = .ok val ∧ NoNL val ∧ line = b.name ++ [61] ++ val ++ [10] := by
      intro r hr h
      subst hr
      cases hi : inspectP fm b.val with
      | error e => simp [hi, bind, Except.bind] at h
      | ok val =>
        simp only [hi, bind, Except.bind] at h
        split at h
        · simp [pure, Except.pure] at h
        · simp [pure, Except.pure] at h
          exact ⟨val, rfl, one_line fm hf b.val val hd hi, by rw [← h]; simp⟩
    cases hb : b.val with
    | func f => simp [hb, isData] at hd
    | null => simp only [hb] at h hv; exact hv _ rfl h
    | bool x => simp only [hb] at h hv; exact hv _ rfl h
    | int x => simp only [hb] at h hv; exact hv _ rfl h
    | float x => simp only [hb] at h hv; exact hv _ rfl h
    | str x => simp only [hb] at h hv; exact hv _ rfl h
    | array x => simp only [hb] at h hv; exact hv _ rfl h
    | map x y => simp only [hb] at h hv; exact hv _ rfl h
    | ext x => simp [hb, isData] at hd
    | error x => simp [hb, isData] at hd
    | ret x y => simp [hb, isData] at hd
    | ref x y => simp [hb, isData] at hd
    | quote x => simp [hb, isData] at hd

/-- with a length limit a binding is written in full or not at all: a line written under a limit is
the line written without limit (nothing is ever truncated) -/
theorem limit_skips (fm : Fmt) (maxLen : Nat) (b : Binding) (line : Bytes)
    (h : saveLine fm maxLen b = .ok (some line)) : saveLine fm 0 b = .ok (some line) := by
  unfold saveLine at h ⊢
  split
  · rename_i hc; simp [hc, pure, Except.pure] at h
  · rename_i hc
    simp only [hc] at h
    have hv : ∀ (r0 r : R (Option Bytes)),
        r = (do
          let val ← inspectP fm b.val
          if maxLen > 0 && val.length > maxLen then pure none
          else pure (some (b.name ++ [61] ++ val ++ [10]))) →
        r0 = (do
          let val ← inspectP fm b.val
          if 0 > 0 && val.length > 0 then pure none
          else pure (some (b.name ++ [61] ++ val ++ [10]))) →
        r = .ok (some line) → r0 = .ok (some line) := by
      intro r0 r hr hr0 h
      subst hr hr0
      cases hi : inspectP fm b.val with
      | error e => simp [hi, bind, Except.bind] at h
      | ok val =>
        simp only [hi, bind, Except.bind] at h ⊢
        split at h
        · simp [pure, Except.pure] at h
        · simpa using h
    cases hb : b.val with
    | func f =>
      simp only [hb] at h hv ⊢
      split
      · rename_i hn; simpa [hn] using h
      · rename_i hn; simp only [hn, if_false] at h; exact hv _ _ rfl rfl h
    | null => simp only [hb] at h hv ⊢; exact hv _ _ rfl rfl h
    | bool x => simp only [hb] at h hv ⊢; exact hv _ _ rfl rfl h
    | int x => simp only [hb] at h hv ⊢; exact hv _ _ rfl rfl h
    | float x => simp only [hb] at h hv ⊢; exact hv _ _ rfl rfl h
    | str x => simp only [hb] at h hv ⊢; exact hv _ _ rfl rfl h
    | array x => simp only [hb] at h hv ⊢; exact hv _ _ rfl rfl h
    | map x y => simp only [hb] at h hv ⊢; exact hv _ _ rfl rfl h
    | ext x =>
      -- written by name: the same text with and without limit
      simp only [hb] at h ⊢
      by_cases hl : 0 < maxLen ∧ maxLen < (toBytes x).length
      · simp [hl, pure, Except.pure] at h
      · simp [hl] at h; simpa using h
    | error x => simp only [hb] at h hv ⊢; exact hv _ _ rfl rfl h
    | ret x y => simp only [hb] at h hv ⊢; exact hv _ _ rfl rfl h
    | ref x y => simp only [hb] at h hv ⊢; exact hv _ _ rfl rfl h
    | quote x => simp only [hb] at h hv ⊢; exact hv _ _ rfl rfl h

/-- (3) every int64 reads back from its printed form -/
theorem int_roundtrip (i : Int64) : readIntText (intBytes i) = some i := Grol.Save.int_roundtrip i

/-! ### (1) the Quote / readString pair

`quoteBody` is the modelled part of strconv.Quote (bytes < 0x80); `Lexer.readString` is the lexer model's
string reader, called just after the opening quote.  True only after fix db71ff2 (before it
`\\a \\b \\f \\v` decoded to the letters).  Proof: `readLoop_quoted` (GrolProofs/SaveQuote.lean), by
induction on `s`, one case per shape of `quoteByte` (plain byte, two-byte escape, `\\xHH`; the shape table
over the 256 bytes is a finite `decide`). -/

/-- what `readString` returns on `"<quoted s>"<post>`, started after the opening quote:
(decoded bytes, terminated, position after the closing quote) -/
def readQuoted (body post : Bytes) : Bytes × Bool × Nat :=
  let r := Grol.Lexer.readString { input := (34 :: (body ++ 34 :: post)).toArray, pos := 1 } 34
  (r.1, r.2.1, r.2.2.pos)

def QuoteRoundtrip : Prop :=
  ∀ (s body post : Bytes), quoteBody s = some body → readQuoted body post = (s, true, body.length + 2)

/-- (1) for every byte string with all bytes < 0x80 (where `quoteBody` is defined), reading the quoted text
back gives exactly the string and consumes exactly the literal, whatever follows it -/
theorem quote_roundtrip : QuoteRoundtrip := by
  intro s body post hb
  unfold readQuoted Grol.Lexer.readString
  have hsep : ((34 : UInt8) == 34) = true := by decide
  have := readLoop_quoted s body hb [34] post
    ((34 :: (body ++ 34 :: post)).toArray.size + 1 - 1)
    { input := (34 :: (body ++ 34 :: post)).toArray, pos := 1 } (by simp) rfl (by simp <;> omega)
  simp only [hsep] at this ⊢
  rw [this]
  simp
  omega

/-- every all-ASCII string has a quoted form -/
theorem quoteBody_ascii (s : Bytes) (h : ∀ b ∈ s, b < 128) : ∃ body, quoteBody s = some body := by
  induction s with
  | nil => exact ⟨[], rfl⟩
  | cons b rest ih =>
    obtain ⟨r, hr⟩ := ih (fun x hx => h x (List.mem_cons_of_mem _ hx))
    have hb : b < 128 := h b List.mem_cons_self
    have : ∃ q, quoteByte b = some q := by
      unfold quoteByte
      rw [if_pos hb]
      repeat' split
      all_goals exact ⟨_, rfl⟩
    obtain ⟨q, hq⟩ := this
    exact ⟨q ++ r, by simp [quoteBody, hq, hr]⟩

/-- bytes 7, 8, 11, 12 (the repaired escapes), quote, backslash, newline, CR, tab, NUL, DEL, letters -/
example : (quoteBody [7, 8, 11, 12, 34, 92, 10, 13, 9, 0, 127, 65, 120]).map (fun body => readQuoted body [32, 34, 120]) =
    some ([7, 8, 11, 12, 34, 92, 10, 13, 9, 0, 127, 65, 120], true, 30) := by decide

example : (quoteBody []).map (fun body => readQuoted body []) = some ([], true, 2) := by decide

/-! ### the property -/

/-- the value a fresh session gives to the printed form of a scalar (the part of "load" that is
composed from the models so far: integer literals with the prefix minus, `nil`, `true`, `false`, string
literals through the lexer model's `readString`);
`none` = not composed yet (floats through strconv.ParseFloat, containers and functions through the parser and evaluator models) -/
def readBack (t : Bytes) : Option Obj :=
  if t == nilB then some .null
  else if t == trueB then some (.bool true)
  else if t == falseB then some (.bool false)
  else match readIntText t with
    | some i => some (.int i)
    | none =>
      -- a string literal: the lexer model's reader must consume the whole text
      match t with
      | 34 :: _ =>
        let r := Grol.Lexer.readString { input := t.toArray, pos := 1 } 34
        if r.2.1 && r.2.2.pos == t.length then some (.str r.1) else none
      | _ => none

/-- C14 for data bindings, at full strength: whatever `SaveGlobals` writes for a data binding is one
line `name=text`, and `text` evaluates back to the binding's value -/
def Statement : Prop :=
  ∀ (store : List Binding) (out : List (Bytes × Bytes)), saveGlobals stdFmt 0 store = .ok out →
    ∀ p ∈ out, ∃ b ∈ store, p.1 = b.name ∧
      (isData b.val = true → ∃ text, p.2 = b.name ++ [61] ++ text ++ [10] ∧ NoNL text ∧ readBack text = some b.val)

/-- the part for which the reading side is composed: integers (all of int64), booleans, nil, strings of
bytes below 0x80 -/
def Safe (v : Obj) : Bool :=
  match v with
  | .null | .bool _ | .int _ => true
  | .str s => s.all (· < 128)
  | _ => false

def StatementAt (store : List Binding) : Prop :=
  ∀ (out : List (Bytes × Bytes)), saveGlobals stdFmt 0 store = .ok out →
    ∀ p ∈ out, ∃ b ∈ store, p.1 = b.name ∧
      (isData b.val = true → ∃ text, p.2 = b.name ++ [61] ++ text ++ [10] ∧ NoNL text ∧ readBack text = some b.val)

theorem intBytes_not_keyword (i : Int64) : intBytes i ≠ nilB ∧ intBytes i ≠ trueB ∧ intBytes i ≠ falseB := by
  have key : ∀ l : Bytes, (∃ x ∈ l, 97 ≤ x) → intBytes i ≠ l := by
    intro l ⟨x, hx, h97⟩ heq
    rw [← heq] at hx
    unfold intBytes at hx
    have hdig : ∀ n, x ∈ digitBytes n → False := by
      intro n hm
      unfold digitBytes at hm
      obtain ⟨c, hc, rfl⟩ := List.mem_map.mp hm
      have hd := Nat.isDigit_of_mem_toDigits (by decide) (by decide) hc
      simp only [Char.isDigit, Bool.and_eq_true, decide_eq_true_eq] at hd
      have h57 : c.toNat ≤ 57 := UInt32.le_iff_toNat_le.mp hd.2
      have hb : (c.toNat.toUInt8).toNat = c.toNat := by
        simp [Nat.toUInt8, UInt8.toNat_ofNat']
        omega
      have := UInt8.le_iff_toNat_le.mp h97
      rw [hb] at this
      simp at this
      omega
    split at hx
    · rcases List.mem_cons.mp hx with rfl | hm
      · exact absurd h97 (by decide)
      · exact hdig _ hm
    · exact hdig _ hx
  exact ⟨key nilB ⟨110, by decide, by decide⟩, key trueB ⟨116, by decide, by decide⟩, key falseB ⟨102, by decide, by decide⟩⟩

theorem readBack_printed (v : Obj) (hs : Safe v = true) (text : Bytes) (h : inspectP stdFmt v = .ok text) :
    readBack text = some v := by
  cases v with
  | null => simp [inspectP, pure, Except.pure] at h; subst h; simp [readBack, nilB]
  | bool b =>
    simp [inspectP, pure, Except.pure] at h; subst h
    cases b <;> simp [readBack, nilB, trueB, falseB]
  | int i =>
    simp [inspectP, pure, Except.pure] at h; subst h
    have hk := intBytes_not_keyword i
    simp [readBack, hk.1, hk.2.1, hk.2.2, int_roundtrip]
  | str sv =>
    simp only [Safe, List.all_eq_true, decide_eq_true_eq] at hs
    simp only [inspectP, stdFmt] at h
    obtain ⟨body, hbody⟩ := quoteBody_ascii sv hs
    simp [quoteAscii, hbody, pure, Except.pure] at h
    subst h
    have hq := quote_roundtrip sv body [] hbody
    simp only [readQuoted, Prod.mk.injEq] at hq
    obtain ⟨h1, h2, h3⟩ := hq
    have hint : readIntText (34 :: (body ++ [34])) = none := by
      simp [readIntText, parseDecInt, digitsVal]
    simp only [readBack, nilB, trueB, falseB]
    rw [if_neg (by simp), if_neg (by simp), if_neg (by simp), hint]
    simp only [h1, h2, h3]
    simp
  | _ => simp [Safe] at hs

/-- the property holds for every store whose data bindings are integers, booleans, nil and ASCII strings -/
theorem «partial» (store : List Binding) (hsafe : ∀ b ∈ store, isData b.val = true → Safe b.val = true) :
    StatementAt store := by
  intro out h p hp
  obtain ⟨_, _, _, _, hb⟩ := sorted_one_per_binding stdFmt 0 store out h
  obtain ⟨b, hbs, h1, h2⟩ := hb p hp
  refine ⟨b, hbs, h1, ?_⟩
  intro hd
  obtain ⟨val, hv, hn, hl⟩ := data_binding_line stdFmt stdFmt_oneLine 0 b p.2 hd h2
  exact ⟨val, hl, hn, readBack_printed b.val (hsafe b hbs hd) val hv⟩

/-- non-vacuity: a store with both int64 extremes, a boolean, nil and a lambda -/
def exampleStore : List Binding :=
  [⟨[120], false, .int (Int64.ofInt (-9223372036854775808))⟩, ⟨[97], false, .int 9223372036854775807⟩,
   ⟨[98], false, .bool true⟩, ⟨[110], false, .null⟩, ⟨[115], false, .str [7, 8, 11, 12, 34, 92, 10, 0, 127, 65]⟩,
   ⟨[102], false, .func { name := none, params := [], variadic := false, lambda := true, key := "x=>x", body := .none, env := 0 }⟩]

example : ∀ b ∈ exampleStore, isData b.val = true → Safe b.val = true := by decide

end Grol.Save.C14

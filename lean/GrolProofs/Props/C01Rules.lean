import GrolProofs.EvalOps
import GrolProofs.Props.C15chunks
import GrolProofs.EnvConst
import GrolProofs.EvalFrame
import GrolProofs.MemoMono
/-!
# C01 — the syntax-directed reference rules of the language, as theorems about the model

The evaluator model (`Grol.E.eval` / `evalI` / …, lean/Grol/Eval/Eval.lean) is the reference
evaluator of C01.  This file states the documented evaluation rules of grol (README "language
features", eval/eval.go) as kernel-checked theorems about that model, for ALL sub-terms, values and
states.  A model edit that changes one of these rules breaks a theorem here.

Two forms are used:

* equations between computations in `M = ExceptT Stop (StateM St)` — for every start state both
  sides have the same outcome (value / Go panic / depth guard / fuel / unmodelled) and the same
  final state;
* `outcome` / `stateAfter` forms, under the explicit hypothesis `st.cfg.deadlineAfter = none`
  (no evaluation-context deadline configured), where `C15.bump st` is the state `evalI` hands to
  the node's rule (`steps` counted).

Contents: tools (`SameRun x st y st'` = same outcome and same final state); 1 literals; 2/5 binary operator
nodes, `&&` / `||`; 3 `if`; 4 statement lists; 6 prefix operators; 7 `for` (while form, counting form, 7b with a
loop variable); 10 integer comparison, string and array `+`; 8 identifier lookup, assignment then lookup;
9 `return`, the `Eval` wrapper, function literal, call node, application (cache off) and what
`extendFunctionEnv` builds for a plain call; one-step equations for the remaining node kinds.

Fuel: `evalI (f + 1) node` gives its sub-terms fuel `f`; running out of fuel is the outcome
`.error .fuel`, never totalised away.  `eval` is the wrapper `(*State).Eval` (depth guard, unwraps
`return` values and one reference level), `evalI` is `evalInternal`.
-/
namespace Grol.E

/-- the proof of every "one step of `evalI`" equation: unfold, align the prologue with `C15.enter` -/
local macro "evalI_step" : tactic =>
  `(tactic| (rw [evalI]; unfold C15.enter; congr 1; funext st; congr 1; funext _;
             cases st.cfg.deadlineAfter <;> rfl))

/-- outcome and final state of `C15.enter k` when no deadline is configured -/
theorem C01.enter_run (k : M Obj) (st : St) (hd : st.cfg.deadlineAfter = none) :
    outcome (C15.enter k) st = outcome k (C15.bump st)
    ∧ stateAfter (C15.enter k) st = stateAfter k (C15.bump st) :=
  ⟨C15.outcome_enter k st hd, C15.stateAfter_enter k st hd⟩

/-- with a deadline configured and reached, EVERY node evaluates to the error value
"context deadline exceeded" (eval.go `evalInternal`: `s.Context.Err() != nil`) -/
theorem C01.deadline_reached (f : Nat) (node : Node) (st : St) (d : Nat)
    (hd : st.cfg.deadlineAfter = some d) (hs : st.steps ≥ d) :
    outcome (evalI (f + 1) node) st = .ok (err "context deadline exceeded")
    ∧ stateAfter (evalI (f + 1) node) st = C15.bump st := by
  have h1 : ∀ (g : St → M Obj), outcome (get >>= g) st = outcome (g st) st := fun _ => rfl
  have h2 : ∀ (s' : St) (g : Unit → M Obj) (s : St), outcome (set s' >>= g) s = outcome (g ()) s' :=
    fun _ _ _ => rfl
  have h3 : ∀ (g : St → M Obj), stateAfter (get >>= g) st = stateAfter (g st) st := fun _ => rfl
  have h4 : ∀ (s' : St) (g : Unit → M Obj) (s : St),
      stateAfter (set s' >>= g) s = stateAfter (g ()) s' := fun _ _ _ => rfl
  constructor
  · rw [evalI.eq_def]; dsimp only; rw [h1, h2]; simp only [hd, hs]; rfl
  · rw [evalI.eq_def]; dsimp only; rw [h3, h4]; simp only [hd, hs]; rfl


/-! ## tools -/

/-- `x` run from `st` behaves exactly as `y` run from `st'`: same outcome (value, or the same abnormal
stop) and same final state -/
def SameRun {α : Type} (x : M α) (st : St) (y : M α) (st' : St) : Prop :=
  outcome x st = outcome y st' ∧ stateAfter x st = stateAfter y st'

theorem SameRun.refl {α : Type} (x : M α) (st : St) : SameRun x st x st := ⟨rfl, rfl⟩
theorem SameRun.trans {α : Type} {x y z : M α} {s t u : St} (h : SameRun x s y t) (h' : SameRun y t z u) :
    SameRun x s z u := ⟨h.1.trans h'.1, h.2.trans h'.2⟩

theorem C01.sameRun_enter (k : M Obj) (st : St) (hd : st.cfg.deadlineAfter = none) :
    SameRun (C15.enter k) st k (C15.bump st) := C01.enter_run k st hd

/-- sequencing, first part ran to the value `a`: the whole is the continuation run from the state it left -/
theorem C01.sameRun_bind_ok {α β : Type} (x : M α) (g : α → M β) (st : St) (a : α) (h : outcome x st = .ok a) :
    SameRun (x >>= g) st (g a) (stateAfter x st) := by
  unfold SameRun
  rw [outcome_bind, C15.stateAfter_bind, h]
  exact ⟨rfl, rfl⟩

/-- sequencing, first part stopped abnormally (Go panic, depth guard, fuel, unmodelled): the continuation is
not run -/
theorem C01.bind_err {α β : Type} (x : M α) (g : α → M β) (st : St) (e : Stop) (h : outcome x st = .error e) :
    outcome (x >>= g) st = .error e ∧ stateAfter (x >>= g) st = stateAfter x st := by
  rw [outcome_bind, C15.stateAfter_bind, h]
  exact ⟨rfl, rfl⟩

/-! ## 1. literals -/

theorem C01.evalI_int (f : Nat) (v : Int64) : evalI (f + 1) (.int v) = C15.enter (pure (.int v)) := by
  evalI_step
theorem C01.evalI_float (f : Nat) (b : UInt64) : evalI (f + 1) (.float b) = C15.enter (pure (.float b)) := by
  evalI_step
theorem C01.evalI_bool (f : Nat) (b : Bool) : evalI (f + 1) (.bool b) = C15.enter (pure (.bool b)) := by
  evalI_step
theorem C01.evalI_str (f : Nat) (s : Grol.Wire.Bytes) : evalI (f + 1) (.str s) = C15.enter (pure (.str s)) := by
  evalI_step

/-- literals evaluate to themselves; the only state change is the step count -/
theorem C01.literals (f : Nat) (st : St) (hd : st.cfg.deadlineAfter = none)
    (v : Int64) (b : Bool) (s : Grol.Wire.Bytes) (fb : UInt64) :
    (outcome (evalI (f + 1) (.int v)) st = .ok (.int v) ∧ stateAfter (evalI (f + 1) (.int v)) st = C15.bump st)
    ∧ (outcome (evalI (f + 1) (.bool b)) st = .ok (.bool b) ∧ stateAfter (evalI (f + 1) (.bool b)) st = C15.bump st)
    ∧ (outcome (evalI (f + 1) (.str s)) st = .ok (.str s) ∧ stateAfter (evalI (f + 1) (.str s)) st = C15.bump st)
    ∧ (outcome (evalI (f + 1) (.float fb)) st = .ok (.float fb)
        ∧ stateAfter (evalI (f + 1) (.float fb)) st = C15.bump st) := by
  rw [C01.evalI_int, C01.evalI_bool, C01.evalI_str, C01.evalI_float]
  exact ⟨C01.enter_run _ st hd, C01.enter_run _ st hd, C01.enter_run _ st hd, C01.enter_run _ st hd⟩


/-! ## 2. / 5. binary operator nodes: left operand, short-circuit, right operand, operator -/

def Obj.isFalse : Obj → Bool
  | .bool false => true
  | _ => false
def Obj.isTrue : Obj → Bool
  | .bool true => true
  | _ => false
def Obj.isStr : Obj → Bool
  | .str _ => true
  | _ => false

/-- the second half of a binary operator node: right operand, then the operator (the `noteHazard` line is
instrumentation only: it appends to `St.hazards`, which the evaluator never reads) -/
def C01.infixTail (f : Nat) (op : String) (l r : Node) (left : Obj) : M Obj := do
  let right ← eval f r
  if right.isError then pure right
  else match left with
    | .array els => do
      noteHazard (op == "PLUS" && els.length > (← get).cfg.maxSmallArray) "large-array-append-shares-capacity"
        (hazardBase l)
      evalInfixOp op left right
    | _ => evalInfixOp op left right

theorem C01.evalI_inf (f : Nat) (op : String) (l r : Node)
    (hop : (op == "ASSIGN" || op == "DEFINE") = false) :
    evalI (f + 1) (.inf op l r) = C15.enter (do
      let left ← eval f l
      if left.isError then pure left
      else if op == "AND" && left.isFalse then pure (.bool false)
      else if op == "OR" && left.isTrue then pure (.bool true)
      else if op == "BITOR" && left.isStr && r.tokType == "LPAREN" then stop (.unmodelled "pipe")
      else C01.infixTail f op l r left) := by
  rw [evalI]; unfold C15.enter; congr 1; funext st; congr 1; funext _
  have key : (if (op == "ASSIGN" || op == "DEFINE") = true then do
      let right ← eval f r
      evalAssignment f right op l
    else do
      let left ← eval f l
      if left.isError = true then pure left
        else
          if (op == "AND") = true then
            match left with
            | Obj.bool false => pure (Obj.bool false)
            | x =>
              if (op == "OR") = true then
                match left with
                | Obj.bool true => pure (Obj.bool true)
                | x =>
                  if (op == "BITOR") = true then
                    match left with
                    | Obj.str s =>
                      if (r.tokType == "LPAREN") = true then do
                        stop (Stop.unmodelled "pipe")
                        C01.infixTail f op l r left
                      else C01.infixTail f op l r left
                    | x => C01.infixTail f op l r left
                  else C01.infixTail f op l r left
              else
                if (op == "BITOR") = true then
                  match left with
                  | Obj.str s =>
                    if (r.tokType == "LPAREN") = true then do
                      stop (Stop.unmodelled "pipe")
                      C01.infixTail f op l r left
                    else C01.infixTail f op l r left
                  | x => C01.infixTail f op l r left
                else C01.infixTail f op l r left
          else
            if (op == "OR") = true then
                match left with
                | Obj.bool true => pure (Obj.bool true)
                | x =>
                  if (op == "BITOR") = true then
                    match left with
                    | Obj.str s =>
                      if (r.tokType == "LPAREN") = true then do
                        stop (Stop.unmodelled "pipe")
                        C01.infixTail f op l r left
                      else C01.infixTail f op l r left
                    | x => C01.infixTail f op l r left
                  else C01.infixTail f op l r left
              else
                if (op == "BITOR") = true then
                  match left with
                  | Obj.str s =>
                    if (r.tokType == "LPAREN") = true then do
                      stop (Stop.unmodelled "pipe")
                      C01.infixTail f op l r left
                    else C01.infixTail f op l r left
                  | x => C01.infixTail f op l r left
                else C01.infixTail f op l r left : M Obj) = (do
      let left ← eval f l
      if left.isError then pure left
      else if op == "AND" && left.isFalse then pure (.bool false)
      else if op == "OR" && left.isTrue then pure (.bool true)
      else if op == "BITOR" && left.isStr && r.tokType == "LPAREN" then stop (.unmodelled "pipe")
      else C01.infixTail f op l r left) := by
    rw [hop]
    simp only [Bool.false_eq_true, if_false]
    congr 1; funext left
    cases op == "AND" <;> cases op == "OR" <;> cases op == "BITOR" <;> cases r.tokType == "LPAREN" <;>
      cases left <;> first | rfl | (rename_i b; cases b <;> rfl)
  cases st.cfg.deadlineAfter
  · exact key
  · simp only []
    rw [← key]
    rfl

/-- a stopped left operand (Go panic, depth guard, fuel, unmodelled) stops the node: the right operand is
not evaluated -/
theorem C01.infix_left_stop (f : Nat) (op : String) (l r : Node) (st : St) (e : Stop)
    (hd : st.cfg.deadlineAfter = none) (hop : (op == "ASSIGN" || op == "DEFINE") = false)
    (hl : outcome (eval f l) (C15.bump st) = .error e) :
    outcome (evalI (f + 1) (.inf op l r)) st = .error e
    ∧ stateAfter (evalI (f + 1) (.inf op l r)) st = stateAfter (eval f l) (C15.bump st) := by
  rw [C01.evalI_inf f op l r hop, C15.outcome_enter _ _ hd, C15.stateAfter_enter _ _ hd]
  exact C01.bind_err _ _ _ e hl

/-- a left operand that evaluates to an error VALUE is the result: the right operand is not evaluated -/
theorem C01.infix_left_error (f : Nat) (op : String) (l r : Node) (st : St) (m : String)
    (hd : st.cfg.deadlineAfter = none) (hop : (op == "ASSIGN" || op == "DEFINE") = false)
    (hl : outcome (eval f l) (C15.bump st) = .ok (.error m)) :
    SameRun (evalI (f + 1) (.inf op l r)) st (eval f l) (C15.bump st) := by
  rw [C01.evalI_inf f op l r hop]
  refine (C01.sameRun_enter _ st hd).trans ((C01.sameRun_bind_ok _ _ _ _ hl).trans ?_)
  exact ⟨hl.symm, rfl⟩

/-- `&&` short-circuits: a left operand evaluating to `false` is the result, and the right operand is NOT
evaluated (outcome and final state are those of the left operand alone) -/
theorem C01.and_short_circuit (f : Nat) (l r : Node) (st : St) (hd : st.cfg.deadlineAfter = none)
    (hl : outcome (eval f l) (C15.bump st) = .ok (.bool false)) :
    SameRun (evalI (f + 1) (.inf "AND" l r)) st (eval f l) (C15.bump st) := by
  rw [C01.evalI_inf f "AND" l r rfl]
  refine (C01.sameRun_enter _ st hd).trans ((C01.sameRun_bind_ok _ _ _ _ hl).trans ?_)
  exact ⟨hl.symm, rfl⟩

/-- `||` short-circuits on `true` -/
theorem C01.or_short_circuit (f : Nat) (l r : Node) (st : St) (hd : st.cfg.deadlineAfter = none)
    (hl : outcome (eval f l) (C15.bump st) = .ok (.bool true)) :
    SameRun (evalI (f + 1) (.inf "OR" l r)) st (eval f l) (C15.bump st) := by
  rw [C01.evalI_inf f "OR" l r rfl]
  refine (C01.sameRun_enter _ st hd).trans ((C01.sameRun_bind_ok _ _ _ _ hl).trans ?_)
  exact ⟨hl.symm, rfl⟩

/-- the left operand ran to the value `lv` which is neither an error nor short-circuiting (nor the unmodelled
string-pipe form): the node continues with the right operand IN THE STATE THE LEFT OPERAND LEFT -/
theorem C01.infix_continue (f : Nat) (op : String) (l r : Node) (st : St) (lv : Obj)
    (hd : st.cfg.deadlineAfter = none) (hop : (op == "ASSIGN" || op == "DEFINE") = false)
    (hl : outcome (eval f l) (C15.bump st) = .ok lv) (he : lv.isError = false)
    (hand : (op == "AND" && lv.isFalse) = false) (hor : (op == "OR" && lv.isTrue) = false)
    (hpipe : (op == "BITOR" && lv.isStr && r.tokType == "LPAREN") = false) :
    SameRun (evalI (f + 1) (.inf op l r)) st (C01.infixTail f op l r lv) (stateAfter (eval f l) (C15.bump st)) := by
  rw [C01.evalI_inf f op l r hop]
  refine (C01.sameRun_enter _ st hd).trans ((C01.sameRun_bind_ok _ _ _ _ hl).trans ?_)
  simp only [he, hand, hor, hpipe, Bool.false_eq_true, if_false]
  exact SameRun.refl _ _

/-- the right operand stopped abnormally: so does the node -/
theorem C01.infixTail_stop (f : Nat) (op : String) (l r : Node) (lv : Obj) (s1 : St) (e : Stop)
    (hr : outcome (eval f r) s1 = .error e) :
    outcome (C01.infixTail f op l r lv) s1 = .error e
    ∧ stateAfter (C01.infixTail f op l r lv) s1 = stateAfter (eval f r) s1 :=
  C01.bind_err _ _ _ e hr

/-- the right operand evaluated to an error value: that is the result -/
theorem C01.infixTail_error (f : Nat) (op : String) (l r : Node) (lv : Obj) (s1 : St) (m : String)
    (hr : outcome (eval f r) s1 = .ok (.error m)) :
    SameRun (C01.infixTail f op l r lv) s1 (eval f r) s1 := by
  unfold C01.infixTail
  refine (C01.sameRun_bind_ok _ _ _ _ hr).trans ?_
  exact ⟨hr.symm, rfl⟩

/-- both operands evaluated (left first, to `lv`; then right, to `rv`, from the state the left one left):
the result is the operator applied to the two values, in the state after the right operand.  (For an array
on the left the instrumentation line may log a hazard first; stated for the other values.) -/
theorem C01.infixTail_apply (f : Nat) (op : String) (l r : Node) (lv rv : Obj) (s1 : St)
    (hr : outcome (eval f r) s1 = .ok rv) (he : rv.isError = false) (hna : ∀ els, lv ≠ .array els) :
    SameRun (C01.infixTail f op l r lv) s1 (evalInfixOp op lv rv) (stateAfter (eval f r) s1) := by
  unfold C01.infixTail
  refine (C01.sameRun_bind_ok _ _ _ _ hr).trans ?_
  simp only [he, Bool.false_eq_true, if_false]
  cases lv with
  | array els => exact absurd rfl (hna els)
  | _ => exact SameRun.refl _ _

/-- … and for an array on the left: the same, preceded by the (never read) hazard log entry -/
theorem C01.infixTail_apply_array (f : Nat) (op : String) (l r : Node) (els : List Obj) (rv : Obj) (s1 : St)
    (hr : outcome (eval f r) s1 = .ok rv) (he : rv.isError = false)
    (hsmall : (op == "PLUS" && decide (els.length > (stateAfter (eval f r) s1).cfg.maxSmallArray)) = false) :
    SameRun (C01.infixTail f op l r (.array els)) s1 (evalInfixOp op (.array els) rv) (stateAfter (eval f r) s1) := by
  unfold C01.infixTail
  refine (C01.sameRun_bind_ok _ _ _ _ hr).trans ?_
  simp only [he, Bool.false_eq_true, if_false]
  have hg : SameRun (do
      noteHazard (op == "PLUS" && els.length > (← get).cfg.maxSmallArray) "large-array-append-shares-capacity"
        (hazardBase l)
      evalInfixOp op (.array els) rv) (stateAfter (eval f r) s1) (evalInfixOp op (.array els) rv)
        (stateAfter (eval f r) s1) := by
    have h1 : ∀ (g : St → M Obj) (s : St), SameRun (get >>= g) s (g s) s := fun _ _ => ⟨rfl, rfl⟩
    refine (h1 _ _).trans ?_
    simp only [hsmall, noteHazard, Bool.false_eq_true, if_false]
    exact ⟨rfl, rfl⟩
  exact hg

/-- the value of `&&` / `||` once the right operand is evaluated: `true && v`, `false || v` are `true` exactly
when `v` is `true` (a non-boolean `v` gives `false`, as in eval.go: `left == TRUE && right == TRUE`);
no state change -/
theorem C01.and_or_apply (rv : Obj) :
    evalInfixOp "AND" (.bool true) rv = pure (.bool rv.isTrue)
    ∧ evalInfixOp "OR" (.bool false) rv = pure (.bool rv.isTrue) := by
  constructor <;> (cases rv <;> first | rfl | (rename_i b; cases b <;> rfl))

/-- `a && b` with `a` true and `b` evaluating to a non-error value: the result is `b`'s truth, the state is
the one after evaluating `a` then `b` -/
theorem C01.and_true (f : Nat) (l r : Node) (st : St) (rv : Obj) (hd : st.cfg.deadlineAfter = none)
    (hl : outcome (eval f l) (C15.bump st) = .ok (.bool true))
    (hr : outcome (eval f r) (stateAfter (eval f l) (C15.bump st)) = .ok rv) (he : rv.isError = false) :
    outcome (evalI (f + 1) (.inf "AND" l r)) st = .ok (.bool rv.isTrue)
    ∧ stateAfter (evalI (f + 1) (.inf "AND" l r)) st =
        stateAfter (eval f r) (stateAfter (eval f l) (C15.bump st)) := by
  have h := (C01.infix_continue f "AND" l r st (.bool true) hd rfl hl rfl rfl rfl rfl).trans
    (C01.infixTail_apply f "AND" l r (.bool true) rv _ hr he (fun _ h => by cases h))
  rw [(C01.and_or_apply rv).1] at h
  exact h

theorem C01.or_false (f : Nat) (l r : Node) (st : St) (rv : Obj) (hd : st.cfg.deadlineAfter = none)
    (hl : outcome (eval f l) (C15.bump st) = .ok (.bool false))
    (hr : outcome (eval f r) (stateAfter (eval f l) (C15.bump st)) = .ok rv) (he : rv.isError = false) :
    outcome (evalI (f + 1) (.inf "OR" l r)) st = .ok (.bool rv.isTrue)
    ∧ stateAfter (evalI (f + 1) (.inf "OR" l r)) st =
        stateAfter (eval f r) (stateAfter (eval f l) (C15.bump st)) := by
  have h := (C01.infix_continue f "OR" l r st (.bool false) hd rfl hl rfl rfl rfl rfl).trans
    (C01.infixTail_apply f "OR" l r (.bool false) rv _ hr he (fun _ h => by cases h))
  rw [(C01.and_or_apply rv).2] at h
  exact h

/-- a plain binary operator (not assignment, `&&`, `||`, `|`): left, then right, then `evalInfixOp` -/
theorem C01.infix_plain (f : Nat) (op : String) (l r : Node) (st : St) (lv rv : Obj)
    (hd : st.cfg.deadlineAfter = none)
    (hop : (op == "ASSIGN" || op == "DEFINE" || op == "AND" || op == "OR" || op == "BITOR") = false)
    (hl : outcome (eval f l) (C15.bump st) = .ok lv) (hle : lv.isError = false) (hna : ∀ els, lv ≠ .array els)
    (hr : outcome (eval f r) (stateAfter (eval f l) (C15.bump st)) = .ok rv) (hre : rv.isError = false) :
    SameRun (evalI (f + 1) (.inf op l r)) st (evalInfixOp op lv rv)
      (stateAfter (eval f r) (stateAfter (eval f l) (C15.bump st))) := by
  simp only [Bool.or_eq_false_iff] at hop
  obtain ⟨⟨⟨⟨h1, h2⟩, h3⟩, h4⟩, h5⟩ := hop
  refine (C01.infix_continue f op l r st lv hd (by simp [h1, h2]) hl hle (by simp [h3]) (by simp [h4])
    (by simp [h5])).trans ?_
  exact C01.infixTail_apply f op l r lv rv _ hr hre hna

/-! non-vacuity: `false && (1/0 …)`, `true && false`, `1 + 2` at concrete fuel in the default state -/
example : outcome (eval 2 (.bool false)) (C15.bump {}) = .ok (.bool false) := rfl
example : outcome (evalI 3 (.inf "AND" (.bool false) (.ident "nosuch"))) {} = .ok (.bool false) := rfl
example : outcome (eval 2 (.bool true)) (C15.bump {}) = .ok (.bool true) := rfl
example : outcome (evalI 3 (.inf "AND" (.bool true) (.bool false))) {} = .ok (.bool false) := rfl
example : outcome (evalI 3 (.inf "PLUS" (.int 1) (.int 2))) {} = .ok (.int 3) := rfl
example : ("PLUS" == "ASSIGN" || "PLUS" == "DEFINE" || "PLUS" == "AND" || "PLUS" == "OR" || "PLUS" == "BITOR") = false := by
  decide

example : ({} : St).cfg.deadlineAfter = none := rfl
example : outcome (evalI 1 (.int 7)) {} = .ok (.int 7) := rfl

/-- `object.Value` of anything but a reference is the value itself, no state change -/
theorem C01.valueOf_nonref (o : Obj) (h : ∀ e n, o ≠ .ref e n) : valueOf o = pure o := by
  cases o <;> first | rfl | exact absurd rfl (h _ _)

/-! ## 3. `if` -/

theorem C01.evalI_if (f : Nat) (c cons alt : Node) :
    evalI (f + 1) (.ifE c cons alt) = C15.enter (evalIf f c cons alt) := by
  evalI_step

/-- `evalIfExpression`: condition (dereferenced), then exactly one branch -/
theorem C01.evalIf_eq (f : Nat) (c cons alt : Node) :
    evalIf (f + 1) c cons alt = (do
      let condition ← valueOf (← evalI f c)
      match condition with
      | .bool true => evalI f cons
      | .bool false =>
        match alt with
        | .none => pure .null
        | _ => evalI f alt
      | _ => pure (err "condition is not a boolean")) := by
  cases alt <;> (rw [evalIf] <;> first | rfl | (intro h; cases h))

/-- condition true: the consequence, evaluated in the state the condition left; the alternative is not evaluated -/
theorem C01.if_true (f : Nat) (c cons alt : Node) (st : St) (hd : st.cfg.deadlineAfter = none)
    (hc : outcome (evalI f c) (C15.bump st) = .ok (.bool true)) :
    SameRun (evalI (f + 2) (.ifE c cons alt)) st (evalI f cons) (stateAfter (evalI f c) (C15.bump st)) := by
  rw [C01.evalI_if, C01.evalIf_eq]
  refine (C01.sameRun_enter _ st hd).trans ?_
  refine (C01.sameRun_bind_ok _ _ _ _ hc).trans ?_
  rw [C01.valueOf_nonref _ (fun _ _ h' => by cases h'), pure_bind]
  exact SameRun.refl _ _

/-- condition false, with an `else`: the alternative, evaluated in the state the condition left -/
theorem C01.if_false_else (f : Nat) (c cons alt : Node) (st : St) (hd : st.cfg.deadlineAfter = none)
    (hc : outcome (evalI f c) (C15.bump st) = .ok (.bool false)) (halt : alt = .none → False) :
    SameRun (evalI (f + 2) (.ifE c cons alt)) st (evalI f alt) (stateAfter (evalI f c) (C15.bump st)) := by
  rw [C01.evalI_if, C01.evalIf_eq]
  refine (C01.sameRun_enter _ st hd).trans ?_
  refine (C01.sameRun_bind_ok _ _ _ _ hc).trans ?_
  rw [C01.valueOf_nonref _ (fun _ _ h => by cases h), pure_bind]
  cases alt <;> first | exact SameRun.refl _ _ | exact (halt rfl).elim

/-- condition false, no `else`: nil, in the state the condition left -/
theorem C01.if_false_noelse (f : Nat) (c cons : Node) (st : St) (hd : st.cfg.deadlineAfter = none)
    (hc : outcome (evalI f c) (C15.bump st) = .ok (.bool false)) :
    outcome (evalI (f + 2) (.ifE c cons .none)) st = .ok .null
    ∧ stateAfter (evalI (f + 2) (.ifE c cons .none)) st = stateAfter (evalI f c) (C15.bump st) := by
  change SameRun _ st (pure Obj.null : M Obj) _
  rw [C01.evalI_if, C01.evalIf_eq]
  refine (C01.sameRun_enter _ st hd).trans ?_
  refine (C01.sameRun_bind_ok _ _ _ _ hc).trans ?_
  rw [C01.valueOf_nonref _ (fun _ _ h => by cases h), pure_bind]
  exact ⟨rfl, rfl⟩

/-- a condition that is not a boolean (an integer, nil, a string, even an error value) is the error
"condition is not a boolean" (eval.go `evalIfExpression` default case); no branch is evaluated -/
theorem C01.if_nonbool (f : Nat) (c cons alt : Node) (st : St) (cv : Obj) (hd : st.cfg.deadlineAfter = none)
    (hc : outcome (evalI f c) (C15.bump st) = .ok cv) (hnb : ∀ b, cv ≠ .bool b) (hnr : ∀ e n, cv ≠ .ref e n) :
    outcome (evalI (f + 2) (.ifE c cons alt)) st = .ok (err "condition is not a boolean")
    ∧ stateAfter (evalI (f + 2) (.ifE c cons alt)) st = stateAfter (evalI f c) (C15.bump st) := by
  change SameRun _ st (pure (err "condition is not a boolean") : M Obj) _
  rw [C01.evalI_if, C01.evalIf_eq]
  refine (C01.sameRun_enter _ st hd).trans ?_
  refine (C01.sameRun_bind_ok _ _ _ _ hc).trans ?_
  rw [C01.valueOf_nonref _ hnr, pure_bind]
  cases cv <;> first | exact ⟨rfl, rfl⟩ | exact absurd rfl (hnb _) 

/-- the condition stopped abnormally: no branch is evaluated -/
theorem C01.if_stop (f : Nat) (c cons alt : Node) (st : St) (e : Stop) (hd : st.cfg.deadlineAfter = none)
    (hc : outcome (evalI f c) (C15.bump st) = .error e) :
    outcome (evalI (f + 2) (.ifE c cons alt)) st = .error e
    ∧ stateAfter (evalI (f + 2) (.ifE c cons alt)) st = stateAfter (evalI f c) (C15.bump st) := by
  rw [C01.evalI_if, C01.evalIf_eq, C15.outcome_enter _ _ hd, C15.stateAfter_enter _ _ hd]
  exact C01.bind_err _ _ _ e hc

example : outcome (evalI 1 (.bool true)) (C15.bump {}) = .ok (.bool true) := rfl
example : outcome (evalI 3 (.ifE (.bool true) (.int 1) (.int 2))) {} = .ok (.int 1) := rfl
example : outcome (evalI 3 (.ifE (.bool false) (.int 1) (.int 2))) {} = .ok (.int 2) := rfl
example : outcome (evalI 3 (.ifE (.int 5) (.int 1) (.int 2))) {} = .ok (err "condition is not a boolean") := rfl

/-! ## 4. statement lists: left to right, threading the state; the value is the last statement's -/

/-- a statement that ran to a non-stopping value: the list continues with the rest, in the state the
statement left, carrying its value -/
theorem C01.stmts_cons_continue (f : Nat) (s : Node) (rest : List Node) (res v : Obj) (st : St)
    (hs : s ≠ .comment) (h : outcome (evalI f s) st = .ok v) (hv : v.stops = false) :
    SameRun (evalStatements (f + 1) (s :: rest) res) st (evalStatements f rest v) (stateAfter (evalI f s) st) := by
  rw [C15.evalStatements_cons _ _ _ _ hs]
  refine (C01.sameRun_bind_ok _ _ _ _ h).trans ?_
  simp only [hv, Bool.false_eq_true, if_false]
  exact SameRun.refl _ _

/-- a statement whose value is an error or a `return`/`break`/`continue` value stops the list: the rest is
NOT evaluated, value and state are the statement's -/
theorem C01.stmts_cons_stops (f : Nat) (s : Node) (rest : List Node) (res v : Obj) (st : St)
    (hs : s ≠ .comment) (h : outcome (evalI f s) st = .ok v) (hv : v.stops = true) :
    SameRun (evalStatements (f + 1) (s :: rest) res) st (evalI f s) st := by
  rw [C15.evalStatements_cons _ _ _ _ hs]
  refine (C01.sameRun_bind_ok _ _ _ _ h).trans ?_
  simp only [hv]
  exact ⟨h.symm, rfl⟩

/-- a statement that stopped abnormally stops the list -/
theorem C01.stmts_cons_stop (f : Nat) (s : Node) (rest : List Node) (res : Obj) (st : St) (e : Stop)
    (hs : s ≠ .comment) (h : outcome (evalI f s) st = .error e) :
    outcome (evalStatements (f + 1) (s :: rest) res) st = .error e
    ∧ stateAfter (evalStatements (f + 1) (s :: rest) res) st = stateAfter (evalI f s) st := by
  rw [C15.evalStatements_cons _ _ _ _ hs]
  exact C01.bind_err _ _ _ e h

/-- a one-statement list is the statement -/
theorem C01.stmts_singleton (f : Nat) (s : Node) (res : Obj) (hs : s ≠ .comment) :
    evalStatements (f + 2) [s] res = evalI (f + 1) s := by
  rw [C15.evalStatements_cons _ _ _ _ hs]
  have : ∀ r : Obj, (if r.stops then pure r else evalStatements (f + 1) [] r : M Obj) = pure r := by
    intro r; rw [C15.evalStatements_nil]; split <;> rfl
  simp only [this, bind_pure]

/-- the value of a list is the value of its LAST statement, evaluated in the state the statements before it
left (when none of them stopped the list) -/
theorem C01.stmts_last (n : Nat) (a : List Node) (s : Node) (res r : Obj) (st : St)
    (hres : res.stops = false) (hs : s ≠ .comment)
    (ha : outcome (evalStatements (n + 1 + a.length + 1) a res) st = .ok r) (hr : r.stops = false) :
    SameRun (evalStatements (n + 1 + a.length + 1) (a ++ [s]) res) st (evalI (n + 1) s)
      (stateAfter (evalStatements (n + 1 + a.length + 1) a res) st) := by
  have h := C15.chunks_outcome_gen (n + 1) a [s] res r st hres ha hr
  rw [C01.stmts_singleton n s r hs] at h
  exact h

example : outcome (evalStatements 4 ([.int 1, .int 2] ++ [.int 3]) .null) {} = .ok (.int 3) := rfl
example : outcome (evalStatements 4 [.int 1, .ret (.int 2), .ident "nosuch"] .null) {} = .ok (.ret (.int 2) "RETURN") := rfl

/-! ## 6. prefix operators -/

/-- `!e`, `-e`, `+e`, `^e`/`~e`: the operand is evaluated (through `Eval`), an error value propagates,
otherwise `evalPrefixOp` applies -/
theorem C01.evalI_pre (f : Nat) (op : String) (right : Node) (hop : (op == "INCR" || op == "DECR") = false) :
    evalI (f + 1) (.pre op right) = C15.enter (do
      let r ← eval f right
      if r.isError then pure r else pure (evalPrefixOp op r)) := by
  rw [evalI]; unfold C15.enter; congr 1; funext st; congr 1; funext _
  cases st.cfg.deadlineAfter <;> simp only [hop, Bool.false_eq_true, if_false]

theorem C01.prefix_apply (f : Nat) (op : String) (right : Node) (st : St) (v : Obj)
    (hd : st.cfg.deadlineAfter = none) (hop : (op == "INCR" || op == "DECR") = false)
    (hr : outcome (eval f right) (C15.bump st) = .ok v) (he : v.isError = false) :
    outcome (evalI (f + 1) (.pre op right)) st = .ok (evalPrefixOp op v)
    ∧ stateAfter (evalI (f + 1) (.pre op right)) st = stateAfter (eval f right) (C15.bump st) := by
  change SameRun _ st (pure (evalPrefixOp op v) : M Obj) _
  rw [C01.evalI_pre f op right hop]
  refine (C01.sameRun_enter _ st hd).trans ((C01.sameRun_bind_ok _ _ _ _ hr).trans ?_)
  simp only [he, Bool.false_eq_true, if_false]
  exact SameRun.refl _ _

/-- the operator table of `evalPrefixExpression` -/
theorem C01.prefix_table (i : Int64) (b : Bool) (fb : UInt64) (s : Grol.Wire.Bytes) :
    evalPrefixOp "BANG" (.bool b) = .bool (!b) ∧ evalPrefixOp "BANG" .null = .bool true
    ∧ evalPrefixOp "BANG" (.int i) = err "not of"
    ∧ evalPrefixOp "MINUS" (.int i) = .int (-i) ∧ evalPrefixOp "MINUS" (.float fb) = .float (-(f64 fb)).toBits
    ∧ evalPrefixOp "MINUS" (.str s) = err "minus of" ∧ evalPrefixOp "MINUS" (.bool b) = err "minus of"
    ∧ evalPrefixOp "PLUS" (.int i) = .int i ∧ evalPrefixOp "PLUS" (.str s) = .str s
    ∧ evalPrefixOp "BITNOT" (.int i) = .int (~~~i) ∧ evalPrefixOp "BITXOR" (.int i) = .int (~~~i)
    ∧ evalPrefixOp "BITNOT" (.bool b) = err "bitwise not of" :=
  ⟨rfl, rfl, rfl, rfl, rfl, rfl, rfl, rfl, rfl, rfl, rfl, rfl⟩

example : outcome (evalI 3 (.pre "MINUS" (.int 5))) {} = .ok (.int (-5)) := rfl
example : outcome (evalI 3 (.pre "BANG" (.bool true))) {} = .ok (.bool false) := rfl

/-! ## 7. `for` -/

theorem C01.evalI_for (f : Nat) (c body : Node) :
    evalI (f + 1) (.forE c body) = C15.enter (evalFor f c body) := by
  evalI_step

/-- a loop header that is not an assignment `x = …` / `x := …` is no special form … -/
theorem C01.forSpecial_none (f : Nat) (c body : Node) (hc : ∀ op l r, c ≠ .inf op l r) :
    evalForSpecialForms (f + 1) c body = pure none := by
  cases c <;> first | exact absurd rfl (hc _ _ _) | (rw [evalForSpecialForms]; exact hc)

/-- … so `for c {body}` is the generic loop, started with the value nil -/
theorem C01.evalFor_generic (f : Nat) (c body : Node) (hc : ∀ op l r, c ≠ .inf op l r) :
    evalFor (f + 2) c body = evalForLoop (f + 1) c body .null := by
  rw [evalFor, C01.forSpecial_none f c body hc, pure_bind]

/-! the generic loop `for cond {body}` (`evalForExpression`): one iteration -/

/-- condition false (or nil): the loop ends with the value of the last iteration (nil if there was none) -/
theorem C01.while_done (k : Nat) (c body : Node) (last cv : Obj) (st : St)
    (hc : outcome (evalI k c) st = .ok cv) (hcv : cv = .bool false ∨ cv = .null) :
    outcome (evalForLoop (k + 1) c body last) st = .ok last
    ∧ stateAfter (evalForLoop (k + 1) c body last) st = stateAfter (evalI k c) st := by
  change SameRun _ st (pure last : M Obj) _
  rw [evalForLoop]
  refine (C01.sameRun_bind_ok _ _ _ _ hc).trans ?_
  rcases hcv with h | h <;> subst h <;> exact SameRun.refl _ _

/-- condition true, the body ran to an ordinary value `r`: the loop goes on (condition again, in the state the
body left) with `r` as the value so far -/
theorem C01.while_unroll (k : Nat) (c body : Node) (last r : Obj) (st : St)
    (hc : outcome (evalI k c) st = .ok (.bool true))
    (hb : outcome (evalI k body) (stateAfter (evalI k c) st) = .ok r) (hr : r.stops = false) :
    SameRun (evalForLoop (k + 1) c body last) st (evalForLoop k c body r)
      (stateAfter (evalI k body) (stateAfter (evalI k c) st)) := by
  rw [evalForLoop]
  refine (C01.sameRun_bind_ok _ _ _ _ hc).trans ?_
  rw [C01.valueOf_nonref _ (fun _ _ h' => by cases h'), pure_bind]
  refine (C01.sameRun_bind_ok _ _ _ _ hb).trans ?_
  cases r <;> first | exact SameRun.refl _ _ | cases hr

/-- `break`: the loop ends with the value of the iteration before; `continue`: the loop goes on, keeping that
value; `return` (or any other control value) and an error value end the loop and are its value -/
theorem C01.while_control (k : Nat) (c body : Node) (last v : Obj) (st : St) (m : String)
    (hc : outcome (evalI k c) st = .ok (.bool true)) :
    (outcome (evalI k body) (stateAfter (evalI k c) st) = .ok (.ret v "BREAK") →
      SameRun (evalForLoop (k + 1) c body last) st (pure last)
        (stateAfter (evalI k body) (stateAfter (evalI k c) st)))
    ∧ (outcome (evalI k body) (stateAfter (evalI k c) st) = .ok (.ret v "CONTINUE") →
      SameRun (evalForLoop (k + 1) c body last) st (evalForLoop k c body last)
        (stateAfter (evalI k body) (stateAfter (evalI k c) st)))
    ∧ (outcome (evalI k body) (stateAfter (evalI k c) st) = .ok (.ret v "RETURN") →
      SameRun (evalForLoop (k + 1) c body last) st (pure (.ret v "RETURN"))
        (stateAfter (evalI k body) (stateAfter (evalI k c) st)))
    ∧ (outcome (evalI k body) (stateAfter (evalI k c) st) = .ok (.error m) →
      SameRun (evalForLoop (k + 1) c body last) st (pure (.error m))
        (stateAfter (evalI k body) (stateAfter (evalI k c) st))) := by
  refine ⟨fun hb => ?_, fun hb => ?_, fun hb => ?_, fun hb => ?_⟩ <;>
  · rw [evalForLoop]
    refine (C01.sameRun_bind_ok _ _ _ _ hc).trans ?_
    rw [C01.valueOf_nonref _ (fun _ _ h' => by cases h'), pure_bind]
    refine (C01.sameRun_bind_ok _ _ _ _ hb).trans ?_
    exact SameRun.refl _ _

/-- an integer condition `for n {body}`: the counting loop over `[0, n)` without a loop variable, started in
the state the evaluation of `n` left -/
theorem C01.while_int (k : Nat) (c body : Node) (last : Obj) (n : Int64) (st : St)
    (hc : outcome (evalI k c) st = .ok (.int n)) :
    SameRun (evalForLoop (k + 1) c body last) st (evalForInteger k body 0 n.toInt "" .null)
      (stateAfter (evalI k c) st) := by
  rw [evalForLoop]
  refine (C01.sameRun_bind_ok _ _ _ _ hc).trans ?_
  exact SameRun.refl _ _

/-- any other condition value (a string, an array, …) is an error -/
theorem C01.while_bad_condition (k : Nat) (c body : Node) (last : Obj) (s : Grol.Wire.Bytes) (st : St)
    (hc : outcome (evalI k c) st = .ok (.str s)) :
    outcome (evalForLoop (k + 1) c body last) st =
      .ok (err "for condition is not a boolean nor integer nor assignment") := by
  have : SameRun (evalForLoop (k + 1) c body last) st
      (pure (err "for condition is not a boolean nor integer nor assignment")) (stateAfter (evalI k c) st) := by
    rw [evalForLoop]
    refine (C01.sameRun_bind_ok _ _ _ _ hc).trans ?_
    exact SameRun.refl _ _
  exact this.1

/-! the counting loop (`evalForInteger`), no loop variable (`name = ""`) -/

/-- `for 0 {…}` and the end of every counting loop: no iteration left, the value so far, NO effect at all -/
theorem C01.forInteger_done (k : Nat) (body : Node) (i : Int) (name : String) (last : Obj) :
    evalForInteger (k + 1) body i i name last = pure last := by
  rw [evalForInteger]
  simp

/-- a negative count is an error -/
theorem C01.forInteger_negative (k : Nat) (body : Node) (i endV : Int) (name : String) (last : Obj)
    (h : endV < i) :
    evalForInteger (k + 1) body i endV name last = pure (err "for loop with negative count") := by
  rw [evalForInteger]
  have : endV - i < 0 := by omega
  simp [this]

/-- the unrolling law: with iterations left (`i < end`), the loop is the body, and then — when the body ran
to an ordinary value `r` — the loop from `i + 1` in the state the body left, with `r` as the value so far -/
theorem C01.forInteger_unroll (k : Nat) (body : Node) (i endV : Int) (last r : Obj) (st : St)
    (h : i < endV) (hb : outcome (evalI k body) st = .ok r) (hr : r.stops = false) :
    SameRun (evalForInteger (k + 1) body i endV "" last) st (evalForInteger k body (i + 1) endV "" r)
      (stateAfter (evalI k body) st) := by
  rw [evalForInteger]
  have h1 : ¬ (endV - i < 0) := by omega
  have h2 : ¬ (i ≥ endV) := by omega
  simp only [h1, h2, if_false, bne_self_eq_false, Bool.false_eq_true]
  refine (C01.sameRun_bind_ok _ _ _ _ hb).trans ?_
  cases r <;> first | exact SameRun.refl _ _ | cases hr

/-- `break` / `continue` / `return` / error value in a counting loop -/
theorem C01.forInteger_control (k : Nat) (body : Node) (i endV : Int) (last v : Obj) (st : St) (m : String)
    (h : i < endV) :
    (outcome (evalI k body) st = .ok (.ret v "BREAK") →
      SameRun (evalForInteger (k + 1) body i endV "" last) st (pure last) (stateAfter (evalI k body) st))
    ∧ (outcome (evalI k body) st = .ok (.ret v "CONTINUE") →
      SameRun (evalForInteger (k + 1) body i endV "" last) st (evalForInteger k body (i + 1) endV "" last)
        (stateAfter (evalI k body) st))
    ∧ (outcome (evalI k body) st = .ok (.ret v "RETURN") →
      SameRun (evalForInteger (k + 1) body i endV "" last) st (pure (.ret v "RETURN")) (stateAfter (evalI k body) st))
    ∧ (outcome (evalI k body) st = .ok (.error m) →
      SameRun (evalForInteger (k + 1) body i endV "" last) st (pure (.error m)) (stateAfter (evalI k body) st)) := by
  have h1 : ¬ (endV - i < 0) := by omega
  have h2 : ¬ (i ≥ endV) := by omega
  refine ⟨fun hb => ?_, fun hb => ?_, fun hb => ?_, fun hb => ?_⟩ <;>
  · rw [evalForInteger]
    simp only [h1, h2, if_false, bne_self_eq_false, Bool.false_eq_true]
    refine (C01.sameRun_bind_ok _ _ _ _ hb).trans ?_
    exact SameRun.refl _ _

/-- `for n {body}` as a node, `n` an integer literal: the prologue, the literal, then the counting loop -/
example : outcome (evalI 9 (.forE (.int 3) (.int 7))) {} = .ok (.int 7) := rfl
example : outcome (evalI 6 (.forE (.int 0) (.ident "nosuch"))) {} = .ok .null := rfl
example : outcome (evalI 6 (.forE (.bool false) (.int 7))) {} = .ok .null := rfl
example : outcome (evalI 1 (.int 7)) {} = .ok (.int 7) ∧ (Obj.int 7).stops = false := ⟨rfl, rfl⟩

/-! ## 10. comparison of integers, `+` on strings and arrays -/

theorem C01.cmpInt64_spec (a b : Int64) :
    (cmpInt64 a b == -1) = decide (a < b) ∧ (cmpInt64 a b == 1) = decide (b < a)
    ∧ (cmpInt64 a b == 0) = decide (a = b)
    ∧ decide (cmpInt64 a b ≤ 0) = decide (a ≤ b) ∧ decide (cmpInt64 a b ≥ 0) = decide (b ≤ a) := by
  unfold cmpInt64
  have e : a = b ↔ a.toInt = b.toInt := ⟨fun h => h ▸ rfl, Int64.toInt_inj.mp⟩
  by_cases h1 : a < b
  · have h1' := Int64.lt_iff_toInt_lt.mp h1
    have n2 : ¬ b < a := fun h => by have := Int64.lt_iff_toInt_lt.mp h; omega
    have n3 : ¬ a = b := fun h => by have := e.mp h; omega
    have p4 : a ≤ b := Int64.le_iff_toInt_le.mpr (by omega)
    have n5 : ¬ b ≤ a := fun h => by have := Int64.le_iff_toInt_le.mp h; omega
    simp [h1, n2, n3, p4, n5]
  · by_cases h2 : a > b
    · have h2' := Int64.lt_iff_toInt_lt.mp h2
      have n3 : ¬ a = b := fun h => by have := e.mp h; omega
      have n4 : ¬ a ≤ b := fun h => by have := Int64.le_iff_toInt_le.mp h; omega
      have p5 : b ≤ a := Int64.le_iff_toInt_le.mpr (by omega)
      simp [h1, h2, n3, n4, p5]
    · have n1 : ¬ a.toInt < b.toInt := fun h => h1 (Int64.lt_iff_toInt_lt.mpr h)
      have n2 : ¬ b.toInt < a.toInt := fun h => h2 (Int64.lt_iff_toInt_lt.mpr h)
      have p3 : a = b := e.mpr (by omega)
      subst p3
      simp [h1]

/-- `< > <= >= == !=` on two integers: booleans that agree with the order of `Int64`; no state change -/
theorem C01.int_compare (a b : Int64) (st : St) :
    outcome (evalInfixOp "LT" (.int a) (.int b)) st = .ok (.bool (decide (a < b)))
    ∧ outcome (evalInfixOp "GT" (.int a) (.int b)) st = .ok (.bool (decide (b < a)))
    ∧ outcome (evalInfixOp "LTEQ" (.int a) (.int b)) st = .ok (.bool (decide (a ≤ b)))
    ∧ outcome (evalInfixOp "GTEQ" (.int a) (.int b)) st = .ok (.bool (decide (b ≤ a)))
    ∧ outcome (evalInfixOp "EQ" (.int a) (.int b)) st = .ok (.bool (decide (a = b)))
    ∧ outcome (evalInfixOp "NOTEQ" (.int a) (.int b)) st = .ok (.bool (!decide (a = b)))
    ∧ (∀ op, op ∈ ["LT", "GT", "LTEQ", "GTEQ", "EQ", "NOTEQ"] →
        stateAfter (evalInfixOp op (.int a) (.int b)) st = st) := by
  obtain ⟨h1, h2, h3, h4, h5⟩ := C01.cmpInt64_spec a b
  refine ⟨?_, ?_, ?_, ?_, ?_, ?_, ?_⟩
  · rw [← h1]; rfl
  · rw [← h2]; rfl
  · rw [← h4]; rfl
  · rw [← h5]; rfl
  · rw [← h3]; rfl
  · rw [← h3]; rfl
  · intro op hop
    simp only [List.mem_cons, List.mem_nil_iff] at hop
    rcases hop with h | h | h | h | h | h | h <;> first | (subst h; rfl) | cases h

/-- string `+` is concatenation (below the model's allocation bound); no state change -/
theorem C01.string_concat (l r : Grol.Wire.Bytes) (st : St)
    (hsz : ((l.length + r.length : Nat) : Int) / 16 ≤ sizeLimit) :
    outcome (evalInfixOp "PLUS" (.str l) (.str r)) st = .ok (.str (l ++ r))
    ∧ stateAfter (evalInfixOp "PLUS" (.str l) (.str r)) st = st := by
  have h : evalInfixOp "PLUS" (.str l) (.str r) = (do
      mustBeOk (((l.length + r.length : Nat) : Int) / 16)
      pure (.str (l ++ r))) := rfl
  have hm : mustBeOk (((l.length + r.length : Nat) : Int) / 16) = pure () := by
    unfold mustBeOk
    rw [if_neg (by omega)]
  rw [h, hm]
  exact ⟨rfl, rfl⟩

/-- array `+` array is the concatenation, array `+` other value appends it; the result is a NEW value: the
state — hence every binding that held the left operand — is unchanged -/
theorem C01.array_append (l r : List Obj) (v : Obj) (st : St)
    (hsz : ((l.length : Int) + r.length) ≤ sizeLimit)
    (hv : (∀ els, v ≠ .array els) ∧ (∀ e n, v ≠ .ref e n) ∧ (∀ b, v ≠ .float b)) :
    (outcome (evalInfixOp "PLUS" (.array l) (.array r)) st = .ok (.array (l ++ r))
      ∧ stateAfter (evalInfixOp "PLUS" (.array l) (.array r)) st = st)
    ∧ (outcome (evalInfixOp "PLUS" (.array l) v) st = .ok (.array (l ++ [v]))
      ∧ stateAfter (evalInfixOp "PLUS" (.array l) v) st = st) := by
  constructor
  · have h : evalInfixOp "PLUS" (.array l) (.array r) = (do
        mustBeOk ((l.length : Int) + r.length)
        pure (newArray (l ++ r))) := rfl
    have hm : mustBeOk ((l.length : Int) + r.length) = pure () := by
      unfold mustBeOk
      rw [if_neg (by omega)]
    rw [h, hm]
    exact ⟨rfl, rfl⟩
  · obtain ⟨h1, h2, h3⟩ := hv
    cases v <;> first | exact ⟨rfl, rfl⟩ | exact absurd rfl (h1 _) | exact absurd rfl (h2 _ _) | exact absurd rfl (h3 _)

example : outcome (evalInfixOp "LT" (.int 2) (.int 3)) {} = .ok (.bool true) := rfl
example : outcome (evalInfixOp "PLUS" (.str [97]) (.str [98])) {} = .ok (.str [97, 98]) := rfl
example : outcome (evalInfixOp "PLUS" (.array [.int 1]) (.int 2)) {} = .ok (.array [.int 1, .int 2]) := rfl

/-! ## 8. assignment, then lookup in the same frame -/

/-- the current frame binds `name` to the plain (non-reference) value `v`, and `name` is an ordinary
identifier: not an extension, not `info` / `self`, not the name of the function the frame is running -/
structure C01.Binds (st : St) (name : String) (v : Obj) : Prop where
  frame : ∃ fr, st.frames[st.cur]? = some fr ∧ lookupStore fr.store name = some v
    ∧ (∀ fn, fr.function = some fn → fn.name ≠ some name)
  plain : ∀ e n, v ≠ .ref e n
  notExt : st.extNames.contains name = false
  notInfo : name ≠ "info"
  notSelf : name ≠ "self"

/-- `evalIdentifier`: an identifier bound in the current frame evaluates to the bound value; no state change -/
theorem C01.lookup_bound (name : String) (v : Obj) (st : St) (h : C01.Binds st name v) :
    run (evalIdentifier name) st = (.ok v, st) := by
  obtain ⟨⟨fr, hfr, hl, hfn⟩, hp, he, hi, hs⟩ := h
  have hi' : (name == "info") = false := by simpa using hi
  have hs' : (name == "self") = false := by simpa using hs
  unfold evalIdentifier
  simp only [run_bind, run_get, he, Bool.false_eq_true, if_false]
  unfold envGet
  simp only [hi', hs', Bool.false_eq_true, if_false, run_bind, run_getFrame, hfr]
  rw [hl]
  cases hf : fr.function with
  | none => cases v <;> first | exact absurd rfl (hp _ _) | rfl
  | some fn =>
    have hne : (fn.name == some name) = false := by simpa using hfn fn hf
    simp only [hne, Bool.false_eq_true, if_false]
    cases v <;> first | exact absurd rfl (hp _ _) | rfl

theorem C01.run_valueOf_plain (v : Obj) (hp : ∀ e n, v ≠ .ref e n) (st : St) : run (valueOf v) st = (.ok v, st) := by
  rw [C01.valueOf_nonref v hp]; rfl

/-- storing `v` under `name` in the current frame establishes the binding -/
theorem C01.binds_of_store (st : St) (name : String) (v : Obj) (fr fr' : Frame) (cache : List CacheEntry)
    (hfr : st.frames[st.cur]? = some fr)
    (hstore : fr'.store = setStore fr.store name v) (hfun : fr'.function = fr.function)
    (hfn : ∀ fn, fr.function = some fn → fn.name ≠ some name)
    (hp : ∀ e n, v ≠ .ref e n) (hext : st.extNames.contains name = false)
    (hi : name ≠ "info") (hs : name ≠ "self") :
    C01.Binds { st with frames := st.frames.setIfInBounds st.cur fr', cache := cache } name v := by
  have hlt : st.cur < st.frames.size := by
    rcases Nat.lt_or_ge st.cur st.frames.size with h | h
    · exact h
    · rw [Array.getElem?_eq_none h] at hfr; cases hfr
  refine ⟨⟨fr', ?_, ?_, ?_⟩, hp, hext, hi, hs⟩
  · simp [hlt]
  · rw [hstore]; exact lookupStore_setStore_eq _ _ _
  · rw [hfun]; exact hfn

/-- the conditions under which an assignment to `name` in the current frame is an ordinary store there -/
structure C01.Assignable (st : St) (name : String) (fr : Frame) : Prop where
  frame : st.frames[st.cur]? = some fr
  notFn : ∀ fn, fr.function = some fn → fn.name ≠ some name
  notConst : isConstant name = false
  notExt : st.extNames.contains name = false
  notInfo : name ≠ "info"
  notSelf : name ≠ "self"

theorem C01.envCreate_binds (st : St) (name : String) (v : Obj) (fr : Frame) (ha : C01.Assignable st name fr)
    (hp : ∀ e n, v ≠ .ref e n) :
    ∃ s1, run (envCreate st.cur name v) st = (.ok v, s1) ∧ C01.Binds s1 name v := by
  obtain ⟨hfr, hfn, hc, hext, hi, hs⟩ := ha
  unfold envCreate rootBindsFunc
  simp only [run_bind, C01.run_valueOf_plain v hp, run_get, run_pure, run_modifyFrame, hfr]
  exact ⟨_, rfl, C01.binds_of_store st name v fr _ st.cache hfr rfl rfl hfn hp hext hi hs⟩

theorem C01.cur_lt (st : St) (fr : Frame) (hfr : st.frames[st.cur]? = some fr) : st.cur < st.frames.size := by
  rcases Nat.lt_or_ge st.cur st.frames.size with h | h
  · exact h
  · rw [Array.getElem?_eq_none h] at hfr; cases hfr

/-- in the top level frame (no outer frame) an unbound name has nothing to refer to -/
theorem C01.run_makeRef_global (st : St) (name : String) (fr : Frame) (hfr : st.frames[st.cur]? = some fr)
    (ho : fr.outer = none) : run (makeRef st.cur name) st = (.ok none, st) := by
  have hlt := C01.cur_lt st fr hfr
  obtain ⟨k, hk⟩ : ∃ k, st.frames.size = k + 1 := ⟨st.frames.size - 1, by omega⟩
  unfold makeRef
  simp only [run_bind, run_get]
  rw [hk, makeRef.go]
  simp only [run_bind, run_getFrame, hfr, ho]
  rfl

theorem C01.envStoreAt_binds (st : St) (name : String) (v r : Obj) (fr : Frame) (ha : C01.Assignable st name fr)
    (hp : ∀ e n, v ≠ .ref e n) (hr : lookupStore fr.store name = some r) :
    ∃ s1, run (envStoreAt st.cur st.cur name v) st = (.ok v, s1) ∧ C01.Binds s1 name v := by
  obtain ⟨hfr, hfn, hc, hext, hi, hs⟩ := ha
  have hlt := C01.cur_lt st fr hfr
  unfold envStoreAt functionChanged rootBindsFunc
  simp only [run_bind, run_getFrame, hfr, hr]
  cases hf : isFuncObj r
  · simp only [Bool.false_eq_true, if_false, run_pure, run_get, run_modifyFrame, hfr]
    exact ⟨_, rfl, C01.binds_of_store st name v fr _ st.cache hfr rfl rfl hfn hp hext hi hs⟩
  · rw [if_pos rfl]
    simp only [run_bind, run_modifyFrame, hfr, run_modify, run_get, run_pure]
    have h2 : ∀ fr2 : Frame, (st.frames.setIfInBounds st.cur fr2)[st.cur]? = some fr2 := by
      intro fr2; simp [hlt]
    simp only [h2]
    refine ⟨_, rfl, ?_⟩
    exact C01.binds_of_store
      { st with frames := st.frames.setIfInBounds st.cur { fr with getMiss := fr.getMiss + 1 }, cache := [] }
      name v { fr with getMiss := fr.getMiss + 1 } _ [] (h2 _) rfl rfl hfn hp hext hi hs

theorem C01.createOrSet_binds (st : St) (name : String) (v : Obj) (create : Bool) (fr : Frame)
    (ha : C01.Assignable st name fr) (hp : ∀ e n, v ≠ .ref e n)
    (hcase : create = true ∨ (lookupStore fr.store name = none ∧ fr.outer = none)
      ∨ (∃ r, lookupStore fr.store name = some r ∧ ∀ re rn, r ≠ .ref re rn)) :
    ∃ s1, run (createOrSet st.cur name v create) st = (.ok v, s1) ∧ C01.Binds s1 name v := by
  have ha' := ha
  obtain ⟨hfr, hfn, hc, hext, hi, hs⟩ := ha
  unfold createOrSet
  simp only [hc, Bool.false_eq_true, if_false, run_bind, run_get, hext, pure_bind]
  unfold setNoChecks
  cases create with
  | true =>
    rw [if_pos rfl]
    exact C01.envCreate_binds st name v fr ha' hp
  | false =>
    simp only [Bool.false_eq_true, if_false, run_bind, run_getFrame, hfr]
    rcases hcase with h | ⟨h1, h2⟩ | ⟨r, h1, h2⟩
    · cases h
    · rw [h1]
      simp only [run_bind, C01.run_makeRef_global st name fr hfr h2]
      exact C01.envCreate_binds st name v fr ha' hp
    · rw [h1]
      unfold envUpdate
      have ht : updTarget st.cur name r = (st.cur, name) := by
        cases r <;> first | rfl | exact absurd rfl (h2 _ _)
      simp only [ht, pure_bind]
      exact C01.envStoreAt_binds st name v r fr ha' hp h1

/-- the step counter is no part of a binding -/
theorem C01.Binds.bump {st : St} {name : String} {v : Obj} (h : C01.Binds st name v) :
    C01.Binds (C15.bump st) name v := ⟨h.1, h.2, h.3, h.4, h.5⟩

/-- an identifier node, bound in the current frame: its value; the only state change is the step count -/
theorem C01.ident_bound (g : Nat) (name : String) (v : Obj) (st : St) (hd : st.cfg.deadlineAfter = none)
    (h : C01.Binds st name v) :
    outcome (evalI (g + 1) (.ident name)) st = .ok v ∧ stateAfter (evalI (g + 1) (.ident name)) st = C15.bump st := by
  have e : evalI (g + 1) (.ident name) = C15.enter (evalIdentifier name) := by evalI_step
  rw [e, C15.outcome_enter _ _ hd, C15.stateAfter_enter _ _ hd, outcome_eq_run, stateAfter_eq_run,
    C01.lookup_bound name v _ h.bump]
  exact ⟨rfl, rfl⟩

/-- an unbound identifier in the top level frame is the error value "identifier not found" -/
theorem C01.ident_unbound (g : Nat) (name : String) (st : St) (fr : Frame) (hd : st.cfg.deadlineAfter = none)
    (ha : C01.Assignable st name fr) (hl : lookupStore fr.store name = none) (ho : fr.outer = none) :
    outcome (evalI (g + 1) (.ident name)) st = .ok (err ("identifier not found: " ++ name)) := by
  obtain ⟨hfr, hfn, hc, hext, hi, hs⟩ := ha
  have hi' : (name == "info") = false := by simpa using hi
  have hs' : (name == "self") = false := by simpa using hs
  have e : evalI (g + 1) (.ident name) = C15.enter (evalIdentifier name) := by evalI_step
  have hfr' : (C15.bump st).frames[(C15.bump st).cur]? = some fr := hfr
  have hext' : (C15.bump st).extNames.contains name = false := hext
  rw [e, C15.outcome_enter _ _ hd, outcome_eq_run]
  unfold evalIdentifier
  simp only [run_bind, run_get, hext', Bool.false_eq_true, if_false]
  unfold envGet
  simp only [hi', hs', Bool.false_eq_true, if_false, run_bind, run_getFrame, hfr', hl, ho]
  cases hf : fr.function with
  | none => rfl
  | some fn =>
    have hne : (fn.name == some name) = false := by simpa using hfn fn hf
    simp only [hne, Bool.false_eq_true, if_false]
    rfl

theorem C01.sameRun_curEnv {α : Type} (g : Nat → M α) (s : St) : SameRun (curEnv >>= g) s (g s.cur) s :=
  ⟨rfl, rfl⟩

theorem C01.evalI_assign (f : Nat) (op : String) (l r : Node) (hop : (op == "ASSIGN" || op == "DEFINE") = true) :
    evalI (f + 1) (.inf op l r) = C15.enter (do
      let right ← eval f r
      evalAssignment f right op l) := by
  rw [evalI]; unfold C15.enter; congr 1; funext st; congr 1; funext _
  cases st.cfg.deadlineAfter <;> simp only [hop] <;> rfl

/-- `evalAssignment` to an identifier: an error value on the right is the result, nothing is stored;
otherwise `CreateOrSet` in the current environment (`:=` creates) -/
theorem C01.evalAssignment_ident (f : Nat) (right : Obj) (op name : String) :
    evalAssignment (f + 1) right op (.ident name) =
      if right.isError then pure right
      else (do let e ← curEnv; createOrSet e name right (op == "DEFINE")) := by
  rw [evalAssignment]
  rfl

/-- `x = e` / `x := e` then `x`, in one frame: the assignment evaluates `e` (first, through `Eval`), stores
its value `v` in the current frame and has the value `v`; looking `x` up afterwards yields `v`.
Stated for an ordinary name (`C01.Assignable`: not all-caps constant, not an extension, `info`, `self` or the
running function's own name) and for the three cases in which the store goes to the current frame: `:=`; the
name is unbound and the frame is the top level one; the name is bound there to a non-reference. -/
theorem C01.assign_then_lookup (f g : Nat) (op name : String) (e : Node) (st : St) (v : Obj) (fr : Frame)
    (hd : st.cfg.deadlineAfter = none) (hop : op = "ASSIGN" ∨ op = "DEFINE")
    (he : outcome (eval (f + 1) e) (C15.bump st) = .ok v) (hv : v.isError = false) (hp : ∀ en n, v ≠ .ref en n)
    (ha : C01.Assignable (stateAfter (eval (f + 1) e) (C15.bump st)) name fr)
    (hcase : op = "DEFINE" ∨ (lookupStore fr.store name = none ∧ fr.outer = none)
      ∨ (∃ r, lookupStore fr.store name = some r ∧ ∀ re rn, r ≠ .ref re rn)) :
    outcome (evalI (f + 2) (.inf op (.ident name) e)) st = .ok v
    ∧ outcome (evalI (g + 1) (.ident name)) (stateAfter (evalI (f + 2) (.inf op (.ident name) e)) st) = .ok v := by
  have hop' : (op == "ASSIGN" || op == "DEFINE") = true := by
    rcases hop with h | h <;> subst h <;> rfl
  have hcase' : (op == "DEFINE") = true ∨ (lookupStore fr.store name = none ∧ fr.outer = none)
      ∨ (∃ r, lookupStore fr.store name = some r ∧ ∀ re rn, r ≠ .ref re rn) := by
    rcases hcase with h | h
    · left; subst h; rfl
    · right; exact h
  obtain ⟨s1, hrun, hb⟩ := C01.createOrSet_binds _ name v (op == "DEFINE") fr ha hp hcase'
  have hcfg := (((allGood (f + 2)).evalI (.inf op (.ident name) e)).h st).1.cfg
  have key : SameRun (evalI (f + 2) (.inf op (.ident name) e)) st
      (createOrSet (stateAfter (eval (f + 1) e) (C15.bump st)).cur name v (op == "DEFINE"))
      (stateAfter (eval (f + 1) e) (C15.bump st)) := by
    rw [C01.evalI_assign _ _ _ _ hop']
    refine (C01.sameRun_enter _ st hd).trans ((C01.sameRun_bind_ok _ _ _ _ he).trans ?_)
    rw [C01.evalAssignment_ident]
    simp only [hv, Bool.false_eq_true, if_false]
    exact C01.sameRun_curEnv _ _
  have h1 : outcome (createOrSet (stateAfter (eval (f + 1) e) (C15.bump st)).cur name v (op == "DEFINE"))
      (stateAfter (eval (f + 1) e) (C15.bump st)) = .ok v := by rw [outcome_eq_run, hrun]
  have h2 : stateAfter (createOrSet (stateAfter (eval (f + 1) e) (C15.bump st)).cur name v (op == "DEFINE"))
      (stateAfter (eval (f + 1) e) (C15.bump st)) = s1 := by rw [stateAfter_eq_run, hrun]
  refine ⟨key.1.trans h1, ?_⟩
  have hs2 : stateAfter (evalI (f + 2) (.inf op (.ident name) e)) st = s1 := key.2.trans h2
  rw [hs2] at hcfg ⊢
  exact (C01.ident_bound g name v s1 (by rw [hcfg]; exact hd) hb).1

/-! non-vacuity: `x = 5` then `x` in the initial top level state -/
example : outcome (evalI 4 (.inf "ASSIGN" (.ident "x") (.int 5))) (initState {}) = .ok (.int 5) := rfl
example : outcome (evalI 2 (.ident "x")) (stateAfter (evalI 4 (.inf "ASSIGN" (.ident "x") (.int 5))) (initState {})) = .ok (.int 5) := rfl

/-! ## 9. `return`, the `Eval` wrapper, function application -/

theorem C01.evalI_return_nil (f : Nat) : evalI (f + 1) (.ret .none) = C15.enter (pure (.ret .null "RETURN")) := by
  evalI_step

/-- `return e`: the value of `e` (evaluated by `evalInternal`, not unwrapped) wrapped as a RETURN value -/
theorem C01.evalI_return (f : Nat) (e : Node) (he : e = .none → False) :
    evalI (f + 1) (.ret e) = C15.enter (do pure (.ret (← evalI f e) "RETURN")) := by
  cases e <;> first
    | exact (he rfl).elim
    | (rw [evalI] <;> first
        | exact he
        | (unfold C15.enter; congr 1; funext st; congr 1; funext _; cases st.cfg.deadlineAfter <;> rfl))

/-- `break` / `continue` are control values with a nil payload -/
theorem C01.evalI_ctl (f : Nat) (kind : String) : evalI (f + 1) (.ctl kind) = C15.enter (pure (.ret .null kind)) := by
  evalI_step

/-- `return e` stops the block it is in: the statements after it are NOT evaluated; the block's value is the
RETURN value carrying the value of `e`, the state is the one `e` left -/
theorem C01.return_stops_block (f : Nat) (e : Node) (rest : List Node) (res v : Obj) (st : St)
    (hd : st.cfg.deadlineAfter = none) (hne : e = .none → False)
    (he : outcome (evalI f e) (C15.bump st) = .ok v) :
    outcome (evalStatements (f + 2) (.ret e :: rest) res) st = .ok (.ret v "RETURN")
    ∧ stateAfter (evalStatements (f + 2) (.ret e :: rest) res) st = stateAfter (evalI f e) (C15.bump st) := by
  have h1 : SameRun (evalI (f + 1) (.ret e)) st (pure (.ret v "RETURN")) (stateAfter (evalI f e) (C15.bump st)) := by
    rw [C01.evalI_return f e hne]
    refine (C01.sameRun_enter _ st hd).trans ((C01.sameRun_bind_ok _ _ _ _ he).trans ?_)
    exact SameRun.refl _ _
  have h2 := C01.stmts_cons_stops (f + 1) (.ret e) rest res (.ret v "RETURN") st (fun h => by cases h) h1.1 rfl
  exact h2.trans h1

/-- the state `Eval` hands to `evalInternal`: one level deeper -/
def C01.deeper (st : St) : St := { st with depth := st.depth + 1 }
/-- … and what it does on the way back -/
def C01.shallower (st : St) : St := { st with depth := st.depth - 1 }

/-- `(*State).Eval`, depth guard: beyond `MaxDepth` nothing is evaluated -/
theorem C01.eval_depth_guard (f : Nat) (node : Node) (st : St) (h : st.depth > st.cfg.maxDepth) :
    outcome (eval (f + 1) node) st = .error .depthGuard ∧ stateAfter (eval (f + 1) node) st = st := by
  rw [outcome_eq_run, stateAfter_eq_run, eval]
  simp only [run_bind, run_get, h]
  exact ⟨rfl, rfl⟩

/-- `(*State).Eval` below the depth limit: `evalInternal` one level deeper; then a RETURN value is unwrapped
(this is where `return` ends at the function boundary), `break`/`continue` outside a loop are an error, and
any other plain value is passed through -/
theorem C01.eval_unwrap (f : Nat) (node : Node) (st : St) (r : Obj) (h : ¬ st.depth > st.cfg.maxDepth)
    (hr : outcome (evalI f node) (C01.deeper st) = .ok r) :
    (∀ v, r = .ret v "RETURN" → (∀ e n, v ≠ .ref e n) →
        outcome (eval (f + 1) node) st = .ok v
        ∧ stateAfter (eval (f + 1) node) st = C01.shallower (stateAfter (evalI f node) (C01.deeper st)))
    ∧ (∀ v kind, r = .ret v kind → kind ≠ "RETURN" →
        outcome (eval (f + 1) node) st = .ok (err "unexpected control type outside of for loops"))
    ∧ ((∀ v kind, r ≠ .ret v kind) → (∀ e n, r ≠ .ref e n) →
        outcome (eval (f + 1) node) st = .ok r
        ∧ stateAfter (eval (f + 1) node) st = C01.shallower (stateAfter (evalI f node) (C01.deeper st))) := by
  have hrun : run (evalI f node) { st with depth := st.depth + 1 } =
      (.ok r, stateAfter (evalI f node) (C01.deeper st)) := Prod.ext hr rfl
  refine ⟨fun v hv hp => ?_, fun v kind hv hk => ?_, fun h1 h2 => ?_⟩
  · subst hv
    rw [outcome_eq_run, stateAfter_eq_run, eval]
    simp only [run_bind, run_get, h, if_false, run_set, hrun, run_modify]
    cases v <;> first | exact absurd rfl (hp _ _) | exact ⟨rfl, rfl⟩
  · subst hv
    have hk' : (kind != "RETURN") = true := by simpa using hk
    rw [outcome_eq_run, eval]
    simp only [run_bind, run_get, h, if_false, run_set, hrun, run_modify, hk']
    rfl
  · rw [outcome_eq_run, stateAfter_eq_run, eval]
    simp only [run_bind, run_get, h, if_false, run_set, hrun, run_modify]
    cases r <;> first | exact absurd rfl (h1 _ _) | exact absurd rfl (h2 _ _) | exact ⟨rfl, rfl⟩

example : outcome (evalStatements 4 [.ret (.int 1), .ident "nosuch"] .null) {} = .ok (.ret (.int 1) "RETURN") := rfl
example : outcome (eval 5 (.stmts [.ret (.int 1), .ident "nosuch"])) {} = .ok (.int 1) := rfl

/-- a function literal evaluates to a closure over the CURRENT environment; no state change but the step -/
theorem C01.evalI_lambda (f : Nat) (params : List String) (variadic lambda : Bool) (key : String) (body : Node) :
    evalI (f + 1) (.fn none params variadic lambda key body) = C15.enter (do
      let e ← curEnv
      pure (.func { name := none, params := params, variadic := variadic, lambda := lambda || true,
                    key := key, body := body, env := e })) := by
  evalI_step

/-- a call node: the function expression (through `Eval`), then the arguments left to right, then the
application; an error value in function position is the result and no argument is evaluated -/
theorem C01.evalI_call (f : Nat) (fnode : Node) (args : List Node) :
    evalI (f + 1) (.call fnode args) = C15.enter (do
      let fv ← eval f fnode
      if fv.isError then pure fv
      else match ← evalExpressions f args [] with
        | .error e => pure e
        | .ok argv =>
          match fv with
          | .ext name => applyExtension f name argv
          | _ => applyFunction f fv argv) := by
  evalI_step

/-- arguments are evaluated left to right, each in the state its predecessor left; the first error value stops -/
theorem C01.evalExpressions_cons (f : Nat) (e : Node) (rest : List Node) (acc : List Obj) :
    evalExpressions (f + 1) (e :: rest) acc = (do
      let v ← evalI f e
      if v.isError then pure (.error v) else evalExpressions f rest (v :: acc))
    ∧ evalExpressions (f + 1) [] acc = pure (.ok acc.reverse) := by
  constructor <;> rw [evalExpressions]

theorem C01.run_writeOut (b : Grol.Wire.Bytes) (s : St) :
    ∃ s', run (writeOut b) s = (.ok (), s') ∧ s'.cfg = s.cfg ∧ s'.frames = s.frames := by
  unfold writeOut
  rw [run_modify]
  refine ⟨_, rfl, ?_, ?_⟩ <;> (split <;> rfl)

theorem C01.run_cacheGet_off (key : String) (args : List Obj) (s : St) (h : s.cfg.cacheOn = false) :
    run (cacheGet key args) s = (.ok none, s) := by
  unfold cacheGet
  simp only [run_bind, run_get, h]
  rfl

theorem C01.run_cacheSet_off (key : String) (args : List Obj) (res : Obj) (o : Grol.Wire.Bytes) (s : St)
    (h : s.cfg.cacheOn = false) : run (cacheSet key args res o) s = (.ok (), s) := by
  unfold cacheSet
  simp only [run_bind, run_get, h]
  rfl

/-- the end of a call with the cache switched off: whatever the bookkeeping does (replaying the captured
output into the caller's writer, propagating a miss to the caller's frame), the VALUE of the call is the value
of the body -/
theorem C01.finishCall_value (f : FuncVal) (args : List Obj) (curState before after : Nat) (cc : Bool)
    (res : Obj) (output : Grol.Wire.Bytes) (s : St) (cfr : Frame)
    (hoff : s.cfg.cacheOn = false) (hc : s.frames[curState]? = some cfr) :
    outcome (finishCall f args curState before after cc res output) s = .ok res := by
  rw [outcome_eq_run]
  unfold finishCall
  obtain ⟨s', hw, hcfg, hfrs⟩ := C01.run_writeOut output s
  have hc' : s'.frames[curState]? = some cfr := by rw [hfrs]; exact hc
  have hoff' : s'.cfg.cacheOn = false := by rw [hcfg]; exact hoff
  have tail : ∀ s0 : St, s0.cfg.cacheOn = false → s0.frames[curState]? = some cfr →
      (run (if (after != before) = true then do
          triggerNoCache curState
          pure res
        else
          if res.isError = true then pure res
          else
            if holdsFunc res = true then pure res
            else do
              cacheSet f.key args res output
              pure res : M Obj) s0).1 = .ok res := by
    intro s0 h0 h1
    by_cases hab : (after != before) = true
    · rw [if_pos hab, run_bind]
      unfold triggerNoCache
      simp only [run_modifyFrame, h1]
      rfl
    · rw [if_neg hab]
      cases res.isError
      · cases holdsFunc res
        · simp only [Bool.false_eq_true, if_false, run_bind, C01.run_cacheSet_off _ _ _ _ s0 h0]
          rfl
        · rfl
      · rfl
  by_cases ho : output.isEmpty = true
  · simp only [ho, Bool.not_true, Bool.false_eq_true, if_false]
    exact tail s hoff hc
  · have ho' : (!output.isEmpty) = true := by simpa using ho
    rw [if_pos ho', run_bind, hw]
    exact tail s' hoff' hc'

theorem C01.run_curEnv (s : St) : run curEnv s = (.ok s.cur, s) := rfl

theorem C01.getElem?_of_lt (fr : Array Frame) (i : Nat) (h : i < fr.size) : ∃ x, fr[i]? = some x := by
  cases hx : fr[i]? with
  | some x => exact ⟨x, rfl⟩
  | none => rw [Array.getElem?_eq_none_iff] at hx; omega

/-- FUNCTION APPLICATION, cache switched off (`cfg.cacheOn = false`): the value of applying a function value
to argument values is the value of its BODY, evaluated (through `Eval`, which unwraps `return`) in the
environment `extendFunctionEnv` built (new frame `nenv` with the parameters bound, parented to the closure's
environment), with a fresh output buffer -/
theorem C01.apply_is_body (fuel : Nat) (f : FuncVal) (args : List Obj) (st s1 : St) (cf : Frame) (nenv : Nat)
    (res : Obj) (hoff : st.cfg.cacheOn = false) (hcf : st.frames[st.cur]? = some cf)
    (hext : run (extendFunctionEnv f args) st = (.ok (.ok nenv), s1))
    (hn : nenv < s1.frames.size) (hc : s1.cur < s1.frames.size)
    (hbody : outcome (eval fuel f.body) { s1 with cur := nenv, outs := [] :: s1.outs } = .ok res) :
    outcome (applyFunction (fuel + 1) (.func f) args) st = .ok res := by
  have hget : ∀ skip : Bool, run (if skip then pure none else cacheGet f.key args) st = (.ok none, st) := by
    intro skip; cases skip
    · exact C01.run_cacheGet_off _ _ _ hoff
    · rfl
  have hb : run (eval fuel f.body) { s1 with cur := nenv, outs := [] :: s1.outs } =
      (.ok res, stateAfter (eval fuel f.body) { s1 with cur := nenv, outs := [] :: s1.outs }) := Prod.ext hbody rfl
  have hg := eval_grows fuel f.body { s1 with cur := nenv, outs := [] :: s1.outs }
  have hk := eval_keeps fuel f.body { s1 with cur := nenv, outs := [] :: s1.outs }
  have hk1 : s1.cfg = st.cfg := by
    have := ((good_extendFunctionEnv (f := f) (a := args)).h st).1.cfg
    rw [stateAfter_eq_run, hext] at this; exact this
  generalize stateAfter (eval fuel f.body) { s1 with cur := nenv, outs := [] :: s1.outs } = s3 at hb hg hk
  obtain ⟨fr, hfr⟩ := C01.getElem?_of_lt s3.frames nenv (Nat.lt_of_lt_of_le hn hg.size)
  obtain ⟨cfr, hcfr⟩ := C01.getElem?_of_lt s3.frames s1.cur (Nat.lt_of_lt_of_le hc hg.size)
  rw [outcome_eq_run, applyFunction]
  simp only [run_bind, C01.run_curEnv, run_getFrame, hcf, hget, hext, run_modify, hb, hfr, run_get, run_set]
  rw [← outcome_eq_run]
  refine C01.finishCall_value f args s1.cur 0 _ _ res _ _ cfr ?_ hcfr
  show s3.cfg.cacheOn = false
  rw [hk.cfg]
  show s1.cfg.cacheOn = false
  rw [hk1]; exact hoff

/-- … an error from binding the arguments (wrong number of arguments, …) is the value of the call: the body
is not evaluated -/
theorem C01.apply_bind_error (fuel : Nat) (f : FuncVal) (args : List Obj) (st s1 : St) (cf : Frame) (e : Obj)
    (hoff : st.cfg.cacheOn = false) (hcf : st.frames[st.cur]? = some cf)
    (hext : run (extendFunctionEnv f args) st = (.ok (.error e), s1)) :
    outcome (applyFunction (fuel + 1) (.func f) args) st = .ok e
    ∧ stateAfter (applyFunction (fuel + 1) (.func f) args) st = s1 := by
  have hget : ∀ skip : Bool, run (if skip then pure none else cacheGet f.key args) st = (.ok none, st) := by
    intro skip; cases skip
    · exact C01.run_cacheGet_off _ _ _ hoff
    · rfl
  rw [outcome_eq_run, stateAfter_eq_run, applyFunction]
  simp only [run_bind, C01.run_curEnv, run_getFrame, hcf, hget, hext, run_pure, and_self]

/-- applying a value that is not a function is the error "not a function" -/
theorem C01.apply_non_function (fuel : Nat) (v : Obj) (args : List Obj) (hv : ∀ f, v ≠ .func f) :
    applyFunction (fuel + 1) v args = pure (err "not a function") := by
  cases v <;> first | exact absurd rfl (hv _) | (rw [applyFunction]; exact hv)

/-! non-vacuity: `func(a){return a+1}(41)` in a one-frame state with the cache switched off (kernel evaluation) -/
example : (match outcome (eval 12 (.call (.fn none ["a"] false true "k" (.stmts [.ret (.inf "PLUS" (.ident "a") (.int 1))])) [.int 41]))
    { cfg := { cacheOn := false }, frames := #[{}] } with
    | .ok (.int v) => v == 42
    | _ => false) = true := by decide +kernel

/-! ### what `extendFunctionEnv` builds, for a plain (non variadic) function -/

/-- the store after binding parameters to arguments, in order -/
def C01.bindStore (store : List (String × Obj)) (pas : List (String × Obj)) : List (String × Obj) :=
  pas.foldl (fun s pa => setStore s pa.1 pa.2) store

/-- `s'` differs from `s` only in frame `e`, which went from `fr0` to a frame with the parameters bound -/
structure C01.Bound (s s' : St) (e : Nat) (fr0 : Frame) (pas : List (String × Obj)) : Prop where
  size : s'.frames.size = s.frames.size
  cur : s'.cur = s.cur
  cfg : s'.cfg = s.cfg
  outs : s'.outs = s.outs
  extNames : s'.extNames = s.extNames
  others : ∀ i, i ≠ e → s'.frames[i]? = s.frames[i]?
  frame : ∃ fr', s'.frames[e]? = some fr' ∧ fr'.store = C01.bindStore fr0.store pas ∧ fr'.outer = fr0.outer
    ∧ fr'.function = fr0.function ∧ fr'.depth = fr0.depth

/-- ordinary parameters and argument values: not all-caps, not an extension's name; plain non-error values -/
def C01.PlainBinding (s : St) (pa : String × Obj) : Prop :=
  isConstant pa.1 = false ∧ s.extNames.contains pa.1 = false ∧ (∀ e n, pa.2 ≠ .ref e n) ∧ pa.2.isError = false

theorem C01.bind_one (e : Nat) (p : String) (a : Obj) (s : St) (fr0 : Frame) (hfr : s.frames[e]? = some fr0)
    (hb : C01.PlainBinding s (p, a)) :
    ∃ fr1, run (createOrSet e p a true) s = (.ok a, { s with frames := s.frames.setIfInBounds e fr1 })
      ∧ fr1.store = setStore fr0.store p a ∧ fr1.outer = fr0.outer ∧ fr1.function = fr0.function
      ∧ fr1.depth = fr0.depth := by
  obtain ⟨hc, hx, hpl, hne⟩ := hb
  simp only at hc hx hpl hne
  unfold createOrSet setNoChecks envCreate rootBindsFunc
  simp only [run_bind, hc, Bool.false_eq_true, if_false, run_get, hx]
  rw [if_pos trivial]
  simp only [run_bind, C01.run_valueOf_plain a hpl, run_get, run_pure, run_modifyFrame, hfr]
  exact ⟨_, rfl, rfl, rfl, rfl, rfl⟩

theorem C01.bindParams_run (e : Nat) (pas : List (String × Obj)) (s : St) (fr0 : Frame)
    (hfr : s.frames[e]? = some fr0) (hp : ∀ pa, pa ∈ pas → C01.PlainBinding s pa) :
    ∃ s', run (bindParams e pas) s = (.ok none, s') ∧ C01.Bound s s' e fr0 pas := by
  induction pas generalizing s fr0 with
  | nil =>
    refine ⟨s, ?_, rfl, rfl, rfl, rfl, rfl, fun _ _ => rfl, fr0, hfr, rfl, rfl, rfl, rfl⟩
    rw [bindParams]; rfl
  | cons pa rest ih =>
    obtain ⟨p, a⟩ := pa
    have hpa := hp (p, a) (List.mem_cons_self ..)
    obtain ⟨fr1, hone, h1s, h1o, h1f, h1d⟩ := C01.bind_one e p a s fr0 hfr hpa
    obtain ⟨hc, hx, hpl, hne⟩ := hpa
    simp only at hc hx hpl hne
    have hlt : e < s.frames.size := by
      rcases Nat.lt_or_ge e s.frames.size with h | h
      · exact h
      · rw [Array.getElem?_eq_none h] at hfr; cases hfr
    rw [bindParams]
    simp only [run_bind, C01.run_valueOf_plain a hpl, hc, Bool.false_eq_true, if_false, hone, hne]
    have hget : ({ s with frames := s.frames.setIfInBounds e fr1 } : St).frames[e]? = some fr1 := by
      simp [hlt]
    obtain ⟨s', hrun, hb⟩ := ih { s with frames := s.frames.setIfInBounds e fr1 } fr1 hget
      (fun pa hpa => hp pa (List.mem_cons_of_mem _ hpa))
    refine ⟨s', hrun, ?_⟩
    obtain ⟨b1, b2, b3, b4, b5, b6, fr', b7, b8, b9, b10, b11⟩ := hb
    refine ⟨?_, b2, b3, b4, b5, ?_, fr', b7, ?_, b9.trans h1o, b10.trans h1f, b11.trans h1d⟩
    · rw [b1]; simp
    · intro i hi
      rw [b6 i hi]
      simp [Ne.symm hi]
    · rw [b8, h1s]; rfl

/-- what `extendFunctionEnv` builds for a plain call (not variadic, not a recursive call of the function the
caller's frame is running, as many arguments as parameters, ordinary parameter names, plain argument values):
a NEW frame at the end of the heap, parented to the closure's DEFINING environment `f.env` (lexical scoping),
one level deeper than it, running `f`, whose store binds the parameters to the arguments in order; the caller's
current environment, the writers and every existing frame are untouched -/
theorem C01.extend_plain (f : FuncVal) (args : List Obj) (st : St) (cf pf : Frame)
    (hcf : st.frames[st.cur]? = some cf) (hpf : st.frames[f.env]? = some pf)
    (hnv : f.variadic = false) (hns : sameFunction cf f = false) (hlen : args.length = f.params.length)
    (hp : ∀ pa, pa ∈ f.params.zip args → C01.PlainBinding st pa) :
    ∃ s1 fr, run (extendFunctionEnv f args) st = (.ok (.ok st.frames.size), s1)
      ∧ s1.cur = st.cur ∧ s1.cfg = st.cfg ∧ s1.outs = st.outs ∧ s1.frames.size = st.frames.size + 1
      ∧ (∀ i, i < st.frames.size → s1.frames[i]? = st.frames[i]?)
      ∧ s1.frames[st.frames.size]? = some fr ∧ fr.outer = some f.env ∧ fr.function = some f
      ∧ fr.depth = pf.depth + 1 ∧ fr.store = C01.bindStore [] (f.params.zip args) := by
  have hne : (args.length != f.params.length) = false := by simp [hlen]
  unfold extendFunctionEnv newFrame splitArgs
  simp only [run_bind, C01.run_curEnv, run_getFrame, hcf, hns, Bool.false_eq_true, if_false, hpf, run_get, run_set,
    run_pure, hnv, hne, Bool.false_and]
  have hget : ∀ F0 : Frame, ({ st with frames := st.frames.push F0 } : St).frames[st.frames.size]? = some F0 := by
    intro F0; simp
  obtain ⟨s', hrun, b1, b2, b3, b4, b5, b6, fr', b7, b8, b9, b10, b11⟩ :=
    C01.bindParams_run st.frames.size (f.params.zip args) _ _ (hget _) hp
  rw [hrun]
  refine ⟨s', fr', rfl, b2, b3, b4, ?_, ?_, b7, b9, b10, b11, b8⟩
  · rw [b1]; simp
  · intro i hi
    rw [b6 i (Nat.ne_of_lt hi)]
    simp [Array.getElem?_push, Nat.ne_of_lt hi]

/-- APPLICATION of a plain function, cache off, all in one: there is a state `s1` = the caller's state plus ONE
new frame `fr` (parent = the closure's defining environment, parameters bound to the arguments in order, nothing
else changed) such that the value of the call is the value of the body evaluated with `fr` as the current
environment and a fresh output buffer -/
theorem C01.apply_plain (fuel : Nat) (f : FuncVal) (args : List Obj) (st : St) (cf pf : Frame)
    (hoff : st.cfg.cacheOn = false)
    (hcf : st.frames[st.cur]? = some cf) (hpf : st.frames[f.env]? = some pf)
    (hnv : f.variadic = false) (hns : sameFunction cf f = false) (hlen : args.length = f.params.length)
    (hp : ∀ pa, pa ∈ f.params.zip args → C01.PlainBinding st pa) :
    ∃ (s1 : St) (fr : Frame), s1.frames.size = st.frames.size + 1
      ∧ (∀ i, i < st.frames.size → s1.frames[i]? = st.frames[i]?)
      ∧ s1.frames[st.frames.size]? = some fr ∧ fr.outer = some f.env ∧ fr.function = some f
      ∧ fr.store = C01.bindStore [] (f.params.zip args)
      ∧ s1.cur = st.cur ∧ s1.outs = st.outs ∧ s1.cfg = st.cfg
      ∧ ∀ res, outcome (eval fuel f.body) { s1 with cur := st.frames.size, outs := [] :: s1.outs } = .ok res →
          outcome (applyFunction (fuel + 1) (.func f) args) st = .ok res := by
  obtain ⟨s1, fr, hrun, c1, c2, c3, c4, c5, c6, c7, c8, _, c10⟩ :=
    C01.extend_plain f args st cf pf hcf hpf hnv hns hlen hp
  refine ⟨s1, fr, c4, c5, c6, c7, c8, c10, c1, c3, c2, fun res hres => ?_⟩
  have hlt := C01.cur_lt st cf hcf
  exact C01.apply_is_body fuel f args st s1 cf st.frames.size res hoff hcf hrun (by omega) (by omega) hres

/-! non-vacuity of the hypotheses: a closure of the top level frame called from the top level -/
example : C01.PlainBinding {} ("a", .int 41) :=
  ⟨by decide, rfl, fun _ _ h => (by cases h), rfl⟩
example : sameFunction ({} : Frame) { name := none, params := ["a"], variadic := false, lambda := true, key := "k", body := .ident "a", env := 0 } = false := by
  decide

/-! ## the remaining node kinds: one step of `evalInternal` (so that every constructor of `Node` has its rule) -/

theorem C01.evalI_ident (f : Nat) (name : String) : evalI (f + 1) (.ident name) = C15.enter (evalIdentifier name) := by
  evalI_step
theorem C01.evalI_incr_decr (f : Nat) (op : String) (right : Node) (hop : (op == "INCR" || op == "DECR") = true) :
    evalI (f + 1) (.pre op right) = C15.enter (evalPrefixIncrDecr op right) := by
  rw [evalI]; unfold C15.enter; congr 1; funext st; congr 1; funext _
  cases st.cfg.deadlineAfter <;> simp only [hop] <;> rfl
theorem C01.evalI_post (f : Nat) (op name : String) : evalI (f + 1) (.post op name) = C15.enter (evalPostfix op name) := by
  evalI_step
theorem C01.evalI_builtin (f : Nat) (name : String) (ps : List Node) :
    evalI (f + 1) (.builtin name ps) = C15.enter (evalBuiltin f name ps) := by
  evalI_step
/-- an array literal: the elements left to right (first error value wins), dereferenced, in a new array -/
theorem C01.evalI_arr (f : Nat) (els : List Node) :
    evalI (f + 1) (.arr els) = C15.enter (do
      match ← evalExpressions f els [] with
      | .error e => pure e
      | .ok v => do pure (newArray (← derefList v))) := by
  evalI_step
theorem C01.evalI_mapLit (f : Nat) (keys vals : List Node) :
    evalI (f + 1) (.mapLit keys vals) = C15.enter (do
      let cfg := (← get).cfg
      evalMapLiteral f keys vals (newMapBig cfg keys.length) []) := by
  evalI_step
/-- an index node `l[i]` / `l.i`: the indexed expression first (through `Eval`), then `evalIndexExpression` -/
theorem C01.evalI_idx (f : Nat) (tok : String) (l i : Node) :
    evalI (f + 1) (.idx tok l i) = C15.enter (do
      if tok == "DOT" then
        if (← get).extNames.contains (l.literal ++ "." ++ i.literal) then stop (.unmodelled "namespaced extension")
      let left ← eval f l
      evalIndexExpression f left tok i) := by
  evalI_step
theorem C01.evalI_comment (f : Nat) : evalI (f + 1) .comment = C15.enter (pure .null) := by
  evalI_step
theorem C01.evalI_nil_node (f : Nat) : evalI (f + 1) .none = C15.enter (pure (err "unknown node type: <nil>")) := by
  evalI_step
theorem C01.evalI_macroLit (f : Nat) (ps : List String) (b : Node) :
    evalI (f + 1) (.macroLit ps b) = C15.enter (stop (.unmodelled "macro literal reached the evaluator")) := by
  evalI_step
/-- a NAMED function literal `func f(..){..}` also binds its name in the current environment (`Set`) -/
theorem C01.evalI_func_named (f : Nat) (n : String) (params : List String) (variadic lambda : Bool) (key : String)
    (body : Node) :
    evalI (f + 1) (.fn (some n) params variadic lambda key body) = C15.enter (do
      let e ← curEnv
      let fv : FuncVal := ⟨some n, params, variadic, lambda || false, key, body, e⟩
      let oerr ← envSet e n (.func fv)
      if oerr.isError then pure oerr else pure (.func fv)) := by
  evalI_step
/-- running out of fuel is the outcome "fuel", for every node -/
theorem C01.evalI_no_fuel (node : Node) : evalI 0 node = stop .fuel := by
  rw [evalI]

/-- arguments / elements: left to right, each in the state its predecessor left; a non-error value is kept … -/
theorem C01.exprs_continue (f : Nat) (e : Node) (rest : List Node) (acc : List Obj) (st : St) (v : Obj)
    (h : outcome (evalI f e) st = .ok v) (hv : v.isError = false) :
    SameRun (evalExpressions (f + 1) (e :: rest) acc) st (evalExpressions f rest (v :: acc))
      (stateAfter (evalI f e) st) := by
  rw [(C01.evalExpressions_cons f e rest acc).1]
  refine (C01.sameRun_bind_ok _ _ _ _ h).trans ?_
  simp only [hv, Bool.false_eq_true, if_false]
  exact SameRun.refl _ _

/-- … the first error value ends the list: the remaining expressions are NOT evaluated -/
theorem C01.exprs_error (f : Nat) (e : Node) (rest : List Node) (acc : List Obj) (st : St) (m : String)
    (h : outcome (evalI f e) st = .ok (.error m)) :
    outcome (evalExpressions (f + 1) (e :: rest) acc) st = .ok (.error (.error m))
    ∧ stateAfter (evalExpressions (f + 1) (e :: rest) acc) st = stateAfter (evalI f e) st := by
  rw [(C01.evalExpressions_cons f e rest acc).1]
  exact C01.sameRun_bind_ok _ _ _ _ h

example : outcome (evalI 4 (.arr [.int 1, .int 2])) {} = .ok (.array [.int 1, .int 2]) := rfl

/-! ## 7b. the counting loop with a loop variable -/

/-- the counting loop WITH a loop variable (`for i = n {body}`): with iterations left, the variable is set to
the iteration number in the current frame (here: an ordinary name whose store goes to the current frame, see
`C01.createOrSet_binds`), the body runs in that state — where the variable reads `i` — and, when it ran to an
ordinary value `r`, the loop goes on from `i + 1` in the state the body left -/
theorem C01.forInteger_named_unroll (k : Nat) (body : Node) (i endV : Int) (name : String) (last : Obj) (st : St)
    (fr : Frame) (h : i < endV) (hname : name ≠ "") (ha : C01.Assignable st name fr)
    (hcase : (lookupStore fr.store name = none ∧ fr.outer = none)
      ∨ (∃ r, lookupStore fr.store name = some r ∧ ∀ re rn, r ≠ .ref re rn)) :
    ∃ s1, C01.Binds s1 name (.int (Int64.ofInt i))
      ∧ ∀ r, outcome (evalI k body) s1 = .ok r → r.stops = false →
          SameRun (evalForInteger (k + 1) body i endV name last) st (evalForInteger k body (i + 1) endV name r)
            (stateAfter (evalI k body) s1) := by
  obtain ⟨s1, hrun, hb⟩ := C01.createOrSet_binds st name (.int (Int64.ofInt i)) false fr ha
    (fun _ _ h => by cases h) (Or.inr hcase)
  refine ⟨s1, hb, fun r hr hstop => ?_⟩
  have h1 : ¬ (endV - i < 0) := by omega
  have h2 : ¬ (i ≥ endV) := by omega
  have h3 : (name != "") = true := by simpa using hname
  rw [evalForInteger]
  simp only [h1, h2, if_false, h3]
  rw [if_pos trivial]
  refine (C01.sameRun_curEnv _ st).trans ?_
  have hset : outcome (envSet st.cur name (.int (Int64.ofInt i))) st = .ok (.int (Int64.ofInt i)) := by
    unfold envSet; rw [outcome_eq_run, hrun]
  have hs1 : stateAfter (envSet st.cur name (.int (Int64.ofInt i))) st = s1 := by
    unfold envSet; rw [stateAfter_eq_run, hrun]
  refine (C01.sameRun_bind_ok _ _ _ _ hset).trans ?_
  rw [hs1]
  simp only [Obj.isError, Bool.false_eq_true, if_false]
  refine (C01.sameRun_bind_ok _ _ _ _ hr).trans ?_
  cases r <;> first | exact SameRun.refl _ _ | cases hstop

/-- `for i = n {body}` is the counting loop over `[0, n)` with the loop variable `i` -/
theorem C01.for_named_is_counting (k : Nat) (name : String) (r body : Node) (st : St) (n : Int64)
    (hr : outcome (evalI k r) st = .ok (.int n)) (hnc : ∀ a b, r ≠ .inf "COLON" a b) :
    SameRun (evalFor (k + 2) (.inf "ASSIGN" (.ident name) r) body) st
      (evalForInteger k body 0 n.toInt name .null) (stateAfter (evalI k r) st) := by
  rw [evalFor, evalForSpecialForms]
  · have hd : ¬ (("ASSIGN" != "ASSIGN" && "ASSIGN" != "DEFINE") = true) := by decide
    rw [if_neg hd]
    simp only [bind_assoc]
    refine (C01.sameRun_bind_ok _ _ _ _ hr).trans ?_
    rw [C01.valueOf_nonref _ (fun _ _ h' => by cases h'), pure_bind]
    simp only [bind_assoc, pure_bind, bind_pure]
    exact SameRun.refl _ _
  · intro a b hab; exact hnc a b hab

example : (match outcome (evalI 9 (.forE (.inf "ASSIGN" (.ident "i") (.int 3)) (.ident "i"))) { frames := #[{}] } with
    | .ok (.int v) => v == 2
    | _ => false) = true := by decide +kernel

end Grol.E

import GrolProofs.Props.C15
import GrolProofs.ParseGood
import GrolProofs.ParseTerm
/-
C15 part 1, positive half, at the token-stream level: a two-run simulation between the parser on the stream `s`
that the lexer yields in file mode (end marker of type EOF) and on `asLine s` (same stream, end marker of type EOL:
what the lexer yields in line mode on an input without unterminated string/comment).

Every parser state of the line-mode run is `lineSt` of the state of the file-mode run (same fields, EOF-typed tokens
retyped EOL), unless the file-mode run is already `Bad`: it recorded an error, asked for continuation, or made the
end marker its CURRENT token (`K + 2 ≤ idx`, `K` = position of the first end marker).  `Bad` is never undone
(`AllPres`, a unary pass), so a run that ends clean was never `Bad`; the only place where the end marker is current
without an error is the exit of a block loop on EOF — the recorded class `file-mode-accepts-unclosed-block` — and
the hypothesis `stmtsClosed` (no top-level statement of the file-mode run ends with the end marker as its current
token) excludes exactly that.
-/
set_option linter.unusedVariables false
set_option linter.unusedSimpArgs false
namespace Grol.Parser
open Grol.Generated

/-- the token line mode yields where file mode yields `t` -/
def lineTok (t : Tok) : Tok := if t.type = .EOF then { t with type := .EOL } else t

/-- the stream of line mode: every EOF-typed token (the end markers) retyped EOL, everything else the same -/
def asLine (s : TokStream) : TokStream := { toks := s.toks.map lineTok, eof := lineTok s.eof, inputLen := s.inputLen }

/-- the line-mode parser state corresponding to a file-mode state -/
def lineSt (st : PState) : PState := { st with prev := st.prev.map lineTok, cur := lineTok st.cur, peek := lineTok st.peek }

theorem get_asLine (s : TokStream) (i : Nat) : (asLine s).get i = lineTok (s.get i) := by
  unfold TokStream.get asLine
  simp only [List.getElem?_map]
  cases s.toks[i]? <;> rfl

theorem lineTok_self {t : Tok} (h : t.type ≠ .EOF) : lineTok t = t := by unfold lineTok; rw [if_neg h]
@[simp] theorem lineTok_lit (t : Tok) : (lineTok t).lit = t.lit := by unfold lineTok; split <;> rfl
@[simp] theorem lineTok_hadWs (t : Tok) : (lineTok t).hadWs = t.hadWs := by unfold lineTok; split <;> rfl
@[simp] theorem lineTok_hadNl (t : Tok) : (lineTok t).hadNl = t.hadNl := by unfold lineTok; split <;> rfl
@[simp] theorem lineTok_posAfter (t : Tok) : (lineTok t).posAfter = t.posAfter := by unfold lineTok; split <;> rfl
@[simp] theorem lineTok_lastNl (t : Tok) : (lineTok t).lastNl = t.lastNl := by unfold lineTok; split <;> rfl
@[simp] theorem lineTok_num (t : Tok) : (lineTok t).num = t.num := by unfold lineTok; split <;> rfl

theorem lineTok_type (t : Tok) (X : TokType) (h1 : X ≠ .EOF) (h2 : X ≠ .EOL) : ((lineTok t).type = X) = (t.type = X) := by
  unfold lineTok
  split
  · rename_i h; simp only [h]; exact propext ⟨fun e => absurd e.symm h2, fun e => absurd e.symm h1⟩
  · rfl
theorem lineTok_beq (t : Tok) (X : TokType) (h1 : X ≠ .EOF) (h2 : X ≠ .EOL) : ((lineTok t).type == X) = (t.type == X) := by
  have := lineTok_type t X h1 h2
  cases h : (t.type == X) <;> simp_all
theorem lineTok_bne (t : Tok) (X : TokType) (h1 : X ≠ .EOF) (h2 : X ≠ .EOL) : ((lineTok t).type != X) = (t.type != X) := by
  simp only [bne, lineTok_beq t X h1 h2]

theorem lineTok_type_cases (t : Tok) : (t.type = .EOF ∧ (lineTok t).type = .EOL) ∨ (t.type ≠ .EOF ∧ lineTok t = t) := by
  by_cases h : t.type = .EOF
  · left; exact ⟨h, by unfold lineTok; rw [if_pos h]⟩
  · right; exact ⟨h, lineTok_self h⟩

@[simp] theorem lineTok_prefix (t : Tok) : lookup prefixRegs (lineTok t).type = lookup prefixRegs t.type := by
  rcases lineTok_type_cases t with ⟨h, h'⟩ | ⟨_, h⟩
  · rw [h, h', tblE.1, tblE.2.1]
  · rw [h]
@[simp] theorem lineTok_infix (t : Tok) : lookup infixRegs (lineTok t).type = lookup infixRegs t.type := by
  rcases lineTok_type_cases t with ⟨h, h'⟩ | ⟨_, h⟩
  · rw [h, h', tblE.2.2.1, tblE.2.2.2.1]
  · rw [h]
@[simp] theorem lineTok_postfix (t : Tok) : lookup postfixRegs (lineTok t).type = lookup postfixRegs t.type := by
  rcases lineTok_type_cases t with ⟨h, h'⟩ | ⟨_, h⟩
  · rw [h, h', tblE.2.2.2.2.2.2.1, tblE.2.2.2.2.2.2.2]
  · rw [h]
@[simp] theorem lineTok_prec (t : Tok) : precOf (lineTok t).type = precOf t.type := by
  rcases lineTok_type_cases t with ⟨h, h'⟩ | ⟨_, h⟩
  · rw [h, h', tblE.2.2.2.2.1, tblE.2.2.2.2.2.1]
  · rw [h]

@[simp] theorem lineSt_cur (st : PState) : (lineSt st).cur = lineTok st.cur := rfl
@[simp] theorem lineSt_peek (st : PState) : (lineSt st).peek = lineTok st.peek := rfl
@[simp] theorem lineSt_prev (st : PState) : (lineSt st).prev = st.prev.map lineTok := rfl
@[simp] theorem lineSt_cont (st : PState) : (lineSt st).cont = st.cont := rfl
@[simp] theorem lineSt_errors (st : PState) : (lineSt st).errors = st.errors := rfl
@[simp] theorem lineSt_nextNewline (st : PState) : (lineSt st).nextNewline = st.nextNewline := rfl
@[simp] theorem lineSt_prevNewline (st : PState) : (lineSt st).prevNewline = st.prevNewline := rfl
@[simp] theorem lineSt_idx (st : PState) : (lineSt st).idx = st.idx := rfl

@[simp] theorem advance_lineSt (s : TokStream) (st : PState) : advance (asLine s) (lineSt st) = lineSt (advance s st) := by
  unfold advance lineSt
  simp only [get_asLine, lineTok_posAfter, lineTok_hadNl, Option.map_some]

theorem init_asLine (s : TokStream) : init (asLine s) = lineSt (init s) := by
  unfold init lineSt
  simp only [get_asLine, lineTok_posAfter, lineTok_hadNl, Option.map_none]

/-- the first end marker is at position `K`, and from there on every token is an end marker (no embedded NUL) -/
structure EndAt (s : TokStream) (K : Nat) : Prop where
  before : ∀ i, i < K → (s.get i).type ≠ .EOF
  after : ∀ i, K ≤ i → (s.get i).type = .EOF

/-- error recorded, continuation requested, or the end marker is the current token -/
def Bad (K : Nat) (st : PState) : Prop := D st ∨ K + 2 ≤ st.idx

def BadI (s : TokStream) (K : Nat) (st : PState) : Prop := Inv s st ∧ Bad K st

variable {s : TokStream} {K : Nat}

theorem BadI.adv {st : PState} (h : BadI s K st) : BadI s K (advance s st) :=
  ⟨inv_adv h.1, h.2.elim (fun d => Or.inl d) (fun k => Or.inr (by show K + 2 ≤ st.idx + 1; omega))⟩
theorem BadI.setCont {st : PState} (h : Inv s st) : BadI s K { st with cont := true } :=
  ⟨inv_setCont h, Or.inl (Or.inr rfl)⟩
theorem BadI.pushErr {st : PState} (e : ErrKind) (h : Inv s st) : BadI s K { st with errors := e :: st.errors } :=
  ⟨inv_pushErr e h, Or.inl (Or.inl (List.cons_ne_nil _ _))⟩

theorem cur_real (hE : EndAt s K) {st : PState} (hi : Inv s st) (hb : ¬ Bad K st) : st.cur.type ≠ .EOF := by
  rw [hi.cur]
  apply hE.before
  have := hi.idx
  have : ¬ (K + 2 ≤ st.idx) := fun h => hb (Or.inr h)
  omega

macro "cinv" : tactic => `(tactic| first
  | assumption
  | exact inv_adv (by assumption)
  | exact inv_adv (inv_adv (by assumption))
  | exact inv_adv (inv_adv (inv_adv (by assumption)))
  | exact inv_setCont (by assumption)
  | exact inv_pushErr _ (by assumption)
  | exact BadI.1 (by assumption)
  | exact inv_adv (And.left (by assumption)))

macro "badc" : tactic => `(tactic| first
  | assumption
  | exact BadI.adv (by assumption)
  | exact BadI.adv (BadI.adv (by assumption))
  | exact BadI.adv (BadI.adv (BadI.adv (by assumption)))
  | exact BadI.setCont (by cinv)
  | exact BadI.pushErr _ (by cinv)
  | exact BadI.setCont (And.left (by assumption))
  | exact BadI.pushErr _ (And.left (by assumption))
  | exact BadI.setCont (inv_adv (And.left (by assumption)))
  | exact BadI.pushErr _ (inv_adv (And.left (by assumption))))

/-- unary postcondition: still `Bad` -/
def PB (s : TokStream) (K : Nat) : α → PState → Prop := fun _ st' => BadI s K st'

/-! ### unary pass: `Bad` is never undone -/

macro "wv" : tactic => `(tactic| try simp only [wp_bind, wp_getSt, wp_ite, wp_nextToken, wp_pure, wp_setCont, wp_pushErr,
  wp_outOfFuel, wp_goPanic, advance_cur, advance_prev])

macro "presLeaf" : tactic => `(tactic| repeat' (wv; first
  | done
  | trivial
  | badc
  | apply errorLine_wp
  | split))

theorem peekError_pres (t : TokType) (st : PState) (hb : BadI s K st) : wp (peekError s t) (PB s K) st := by
  unfold peekError PB; presLeaf
theorem noPrefix_pres (st : PState) (hb : BadI s K st) : wp (noPrefixParseFnError s) (PB s K) st := by
  unfold noPrefixParseFnError PB; presLeaf
theorem expectPeek_pres (t : TokType) (st : PState) (hb : BadI s K st) : wp (expectPeek s t) (PB s K) st := by
  unfold expectPeek peekError PB; presLeaf
theorem parseComment_pres (st : PState) (hb : BadI s K st) : wp parseComment (PB s K) st := by
  unfold parseComment PB; presLeaf
theorem parseIdentifier_pres (st : PState) (hb : BadI s K st) : wp (parseIdentifier s) (PB s K) st := by
  unfold parseIdentifier parsePostfixExpression PB; presLeaf
theorem parseFloatLiteral_pres (st : PState) (hb : BadI s K st) : wp (parseFloatLiteral s) (PB s K) st := by
  unfold parseFloatLiteral PB; presLeaf
theorem parseIntegerLiteral_pres (st : PState) (hb : BadI s K st) : wp (parseIntegerLiteral s) (PB s K) st := by
  unfold parseIntegerLiteral parseFloatLiteral PB; presLeaf
theorem parseBoolean_pres (st : PState) (hb : BadI s K st) : wp parseBoolean (PB s K) st := by
  unfold parseBoolean PB; presLeaf
theorem parseStringLiteral_pres (st : PState) (hb : BadI s K st) : wp parseStringLiteral (PB s K) st := by
  unfold parseStringLiteral PB; presLeaf
theorem parseControlExpression_pres (st : PState) (hb : BadI s K st) : wp parseControlExpression (PB s K) st := by
  unfold parseControlExpression PB; presLeaf
theorem mapPairError_pres (st : PState) (hb : BadI s K st) : wp (mapPairError s) (PB s K) st := by
  unfold mapPairError peekError PB; presLeaf
theorem parameter_pres (st : PState) (hb : BadI s K st) : wp (parameter s) (PB s K) st := by
  unfold parameter PB; presLeaf

theorem parseFunctionParametersLoop_pres : ∀ (fuel : Nat) (acc : NList) (st : PState), BadI s K st →
    wp (parseFunctionParametersLoop s fuel acc) (PB s K) st
  | 0, _, _, _ => by unfold parseFunctionParametersLoop; trivial
  | n + 1, acc, st, hb => by
    unfold parseFunctionParametersLoop parameter
    wv
    split
    · exact parseFunctionParametersLoop_pres n _ _ (by badc)
    · exact hb

theorem parseFunctionParameters_pres (fuel : Nat) (st : PState) (hb : BadI s K st) :
    wp (parseFunctionParameters s fuel) (PB s K) st := by
  unfold parseFunctionParameters parameter
  wv
  split
  · exact BadI.adv hb
  · refine wp_conseq (parseFunctionParametersLoop_pres fuel _ _ (BadI.adv hb)) ?_
    intro ids st1 h1
    wv
    refine wp_conseq (expectPeek_pres _ st1 h1) ?_
    intro b st2 h2
    unfold PB; presLeaf

structure AllPres (s : TokStream) (K : Nat) (n : Nat) : Prop where
  pE : ∀ P st, BadI s K st → wp (parseExpression s n P) (PB s K) st
  pLoop : ∀ P left st, BadI s K st → wp (parseExpressionLoop s n P left) (PB s K) st
  pPre : ∀ fn st, BadI s K st → wp (prefixDispatch s n fn) (PB s K) st
  pInf : ∀ fn left st, BadI s K st → wp (infixDispatch s n fn left) (PB s K) st
  pStmt : ∀ st, BadI s K st → wp (parseStatement s n) (PB s K) st
  pRet : ∀ st, BadI s K st → wp (parseReturnStatement s n) (PB s K) st
  pArr : ∀ st, BadI s K st → wp (parseArrayLiteral s n) (PB s K) st
  pGrp : ∀ st, BadI s K st → wp (parseGroupedExpression s n) (PB s K) st
  pPfx : ∀ st, BadI s K st → wp (parsePrefixExpression s n) (PB s K) st
  pLam : ∀ left more st, BadI s K st → wp (parseLambdaMulti s n left more) (PB s K) st
  pInfix : ∀ left st, BadI s K st → wp (parseInfixExpression s n left) (PB s K) st
  pFor : ∀ st, BadI s K st → wp (parseForExpression s n) (PB s K) st
  pIf : ∀ st, BadI s K st → wp (parseIfExpression s n) (PB s K) st
  pBlk : ∀ st, BadI s K st → wp (parseBlockStatement s n) (PB s K) st
  pBlkLoop : ∀ acc st, BadI s K st → wp (parseBlockLoop s n acc) (PB s K) st
  pFn : ∀ st, BadI s K st → wp (parseFunctionLiteral s n) (PB s K) st
  pBi : ∀ st, BadI s K st → wp (parseBuiltin s n) (PB s K) st
  pCall : ∀ f st, BadI s K st → wp (parseCallExpression s n f) (PB s K) st
  pList : ∀ e st, BadI s K st → wp (parseExpressionList s n e) (PB s K) st
  pListLoop : ∀ args st, BadI s K st → wp (parseExpressionListLoop s n args) (PB s K) st
  pIdx : ∀ left st, BadI s K st → wp (parseIndexExpression s n left) (PB s K) st
  pMap : ∀ st, BadI s K st → wp (parseMapLiteral s n) (PB s K) st
  pMapLoop : ∀ tok kvs st, BadI s K st → wp (parseMapLoop s n tok kvs) (PB s K) st
  pMac : ∀ st, BadI s K st → wp (parseMacroLiteral s n) (PB s K) st

set_option hygiene false in
macro "pcall " t:term : tactic => `(tactic| (refine wp_conseq ($t) ?_; intro _ _ _))

set_option hygiene false in
macro "pres1" : tactic => `(tactic| first
  | done
  | trivial
  | badc
  | apply errorLine_wp
  | pcall (expectPeek_pres _ _ (by badc))
  | pcall (noPrefix_pres _ (by badc))
  | pcall (peekError_pres _ _ (by badc))
  | pcall (mapPairError_pres _ (by badc))
  | pcall (parseFunctionParameters_pres _ _ (by badc))
  | pcall (parseIdentifier_pres _ (by badc))
  | pcall (parseIntegerLiteral_pres _ (by badc))
  | pcall (parseFloatLiteral_pres _ (by badc))
  | pcall (parseBoolean_pres _ (by badc))
  | pcall (parseStringLiteral_pres _ (by badc))
  | pcall (parseControlExpression_pres _ (by badc))
  | pcall (parseComment_pres _ (by badc))
  | pcall (ihB.pE _ _ (by badc))
  | pcall (ihB.pLoop _ _ _ (by badc))
  | pcall (ihB.pPre _ _ (by badc))
  | pcall (ihB.pInf _ _ _ (by badc))
  | pcall (ihB.pStmt _ (by badc))
  | pcall (ihB.pRet _ (by badc))
  | pcall (ihB.pArr _ (by badc))
  | pcall (ihB.pGrp _ (by badc))
  | pcall (ihB.pPfx _ (by badc))
  | pcall (ihB.pLam _ _ _ (by badc))
  | pcall (ihB.pInfix _ _ (by badc))
  | pcall (ihB.pFor _ (by badc))
  | pcall (ihB.pIf _ (by badc))
  | pcall (ihB.pBlk _ (by badc))
  | pcall (ihB.pBlkLoop _ _ (by badc))
  | pcall (ihB.pFn _ (by badc))
  | pcall (ihB.pBi _ (by badc))
  | pcall (ihB.pCall _ _ (by badc))
  | pcall (ihB.pList _ _ (by badc))
  | pcall (ihB.pListLoop _ _ (by badc))
  | pcall (ihB.pIdx _ _ (by badc))
  | pcall (ihB.pMap _ (by badc))
  | pcall (ihB.pMapLoop _ _ _ (by badc))
  | pcall (ihB.pMac _ (by badc))
  | split)

set_option hygiene false in
macro "pres" : tactic => `(tactic| repeat' (wv; pres1))

theorem allPres_zero : AllPres s K 0 := by
  constructor <;> intros <;> first
    | (unfold parseExpression; exact trivial)
    | (unfold parseExpressionLoop; exact trivial)
    | (unfold prefixDispatch; exact trivial)
    | (unfold infixDispatch; exact trivial)
    | (unfold parseStatement; exact trivial)
    | (unfold parseReturnStatement; exact trivial)
    | (unfold parseArrayLiteral; exact trivial)
    | (unfold parseGroupedExpression; exact trivial)
    | (unfold parsePrefixExpression; exact trivial)
    | (unfold parseLambdaMulti; exact trivial)
    | (unfold parseInfixExpression; exact trivial)
    | (unfold parseForExpression; exact trivial)
    | (unfold parseIfExpression; exact trivial)
    | (unfold parseBlockStatement; exact trivial)
    | (unfold parseBlockLoop; exact trivial)
    | (unfold parseFunctionLiteral; exact trivial)
    | (unfold parseBuiltin; exact trivial)
    | (unfold parseCallExpression; exact trivial)
    | (unfold parseExpressionList; exact trivial)
    | (unfold parseExpressionListLoop; exact trivial)
    | (unfold parseIndexExpression; exact trivial)
    | (unfold parseMapLiteral; exact trivial)
    | (unfold parseMapLoop; exact trivial)
    | (unfold parseMacroLiteral; exact trivial)

theorem pstep_pE {n : Nat} (ihB : AllPres s K n) : ∀ P st, BadI s K st → wp (parseExpression s (n + 1) P) (PB s K) st := by
  intro P st hb; unfold parseExpression PB; pres

theorem pstep_pLoop {n : Nat} (ihB : AllPres s K n) : ∀ P left st, BadI s K st → wp (parseExpressionLoop s (n + 1) P left) (PB s K) st := by
  intro P left st hb; unfold parseExpressionLoop PB; pres

theorem pstep_pPre {n : Nat} (ihB : AllPres s K n) : ∀ fn st, BadI s K st → wp (prefixDispatch s (n + 1) fn) (PB s K) st := by
  intro fn st hb; unfold prefixDispatch PB; cases fn <;> pres

theorem pstep_pInf {n : Nat} (ihB : AllPres s K n) : ∀ fn left st, BadI s K st → wp (infixDispatch s (n + 1) fn left) (PB s K) st := by
  intro fn left st hb; unfold infixDispatch PB; cases fn <;> pres

theorem pstep_pStmt {n : Nat} (ihB : AllPres s K n) : ∀ st, BadI s K st → wp (parseStatement s (n + 1)) (PB s K) st := by
  intro st hb; unfold parseStatement PB; pres

theorem pstep_pRet {n : Nat} (ihB : AllPres s K n) : ∀ st, BadI s K st → wp (parseReturnStatement s (n + 1)) (PB s K) st := by
  intro st hb; unfold parseReturnStatement PB; pres

theorem pstep_pArr {n : Nat} (ihB : AllPres s K n) : ∀ st, BadI s K st → wp (parseArrayLiteral s (n + 1)) (PB s K) st := by
  intro st hb; unfold parseArrayLiteral PB; pres

theorem pstep_pGrp {n : Nat} (ihB : AllPres s K n) : ∀ st, BadI s K st → wp (parseGroupedExpression s (n + 1)) (PB s K) st := by
  intro st hb; unfold parseGroupedExpression PB; pres

theorem pstep_pPfx {n : Nat} (ihB : AllPres s K n) : ∀ st, BadI s K st → wp (parsePrefixExpression s (n + 1)) (PB s K) st := by
  intro st hb; unfold parsePrefixExpression PB; pres

theorem pstep_pLam {n : Nat} (ihB : AllPres s K n) : ∀ left more st, BadI s K st → wp (parseLambdaMulti s (n + 1) left more) (PB s K) st := by
  intro left more st hb; unfold parseLambdaMulti PB; pres

theorem pstep_pInfix {n : Nat} (ihB : AllPres s K n) : ∀ left st, BadI s K st → wp (parseInfixExpression s (n + 1) left) (PB s K) st := by
  intro left st hb; unfold parseInfixExpression PB; pres

theorem pstep_pFor {n : Nat} (ihB : AllPres s K n) : ∀ st, BadI s K st → wp (parseForExpression s (n + 1)) (PB s K) st := by
  intro st hb; unfold parseForExpression PB; pres

theorem pstep_pIf {n : Nat} (ihB : AllPres s K n) : ∀ st, BadI s K st → wp (parseIfExpression s (n + 1)) (PB s K) st := by
  intro st hb; unfold parseIfExpression PB; pres

theorem pstep_pBlk {n : Nat} (ihB : AllPres s K n) : ∀ st, BadI s K st → wp (parseBlockStatement s (n + 1)) (PB s K) st := by
  intro st hb; unfold parseBlockStatement PB; pres

theorem pstep_pBlkLoop {n : Nat} (ihB : AllPres s K n) : ∀ acc st, BadI s K st → wp (parseBlockLoop s (n + 1) acc) (PB s K) st := by
  intro acc st hb; unfold parseBlockLoop PB; pres

theorem pstep_pFn {n : Nat} (ihB : AllPres s K n) : ∀ st, BadI s K st → wp (parseFunctionLiteral s (n + 1)) (PB s K) st := by
  intro st hb; unfold parseFunctionLiteral PB; pres

theorem pstep_pBi {n : Nat} (ihB : AllPres s K n) : ∀ st, BadI s K st → wp (parseBuiltin s (n + 1)) (PB s K) st := by
  intro st hb; unfold parseBuiltin PB; pres

theorem pstep_pCall {n : Nat} (ihB : AllPres s K n) : ∀ f st, BadI s K st → wp (parseCallExpression s (n + 1) f) (PB s K) st := by
  intro f st hb; unfold parseCallExpression PB; pres

theorem pstep_pList {n : Nat} (ihB : AllPres s K n) : ∀ e st, BadI s K st → wp (parseExpressionList s (n + 1) e) (PB s K) st := by
  intro e st hb; unfold parseExpressionList PB; pres

theorem pstep_pListLoop {n : Nat} (ihB : AllPres s K n) : ∀ args st, BadI s K st → wp (parseExpressionListLoop s (n + 1) args) (PB s K) st := by
  intro args st hb; unfold parseExpressionListLoop PB; pres

theorem pstep_pIdx {n : Nat} (ihB : AllPres s K n) : ∀ left st, BadI s K st → wp (parseIndexExpression s (n + 1) left) (PB s K) st := by
  intro left st hb; unfold parseIndexExpression PB; pres

theorem pstep_pMap {n : Nat} (ihB : AllPres s K n) : ∀ st, BadI s K st → wp (parseMapLiteral s (n + 1)) (PB s K) st := by
  intro st hb; unfold parseMapLiteral PB; pres

theorem pstep_pMapLoop {n : Nat} (ihB : AllPres s K n) : ∀ tok kvs st, BadI s K st → wp (parseMapLoop s (n + 1) tok kvs) (PB s K) st := by
  intro tok kvs st hb; unfold parseMapLoop PB; pres

theorem pstep_pMac {n : Nat} (ihB : AllPres s K n) : ∀ st, BadI s K st → wp (parseMacroLiteral s (n + 1)) (PB s K) st := by
  intro st hb; unfold parseMacroLiteral PB; pres

theorem allPres_succ {n : Nat} (ihB : AllPres s K n) : AllPres s K (n + 1) where
  pE := pstep_pE ihB
  pLoop := pstep_pLoop ihB
  pPre := pstep_pPre ihB
  pInf := pstep_pInf ihB
  pStmt := pstep_pStmt ihB
  pRet := pstep_pRet ihB
  pArr := pstep_pArr ihB
  pGrp := pstep_pGrp ihB
  pPfx := pstep_pPfx ihB
  pLam := pstep_pLam ihB
  pInfix := pstep_pInfix ihB
  pFor := pstep_pFor ihB
  pIf := pstep_pIf ihB
  pBlk := pstep_pBlk ihB
  pBlkLoop := pstep_pBlkLoop ihB
  pFn := pstep_pFn ihB
  pBi := pstep_pBi ihB
  pCall := pstep_pCall ihB
  pList := pstep_pList ihB
  pListLoop := pstep_pListLoop ihB
  pIdx := pstep_pIdx ihB
  pMap := pstep_pMap ihB
  pMapLoop := pstep_pMapLoop ihB
  pMac := pstep_pMac ihB

theorem allPres : ∀ n, AllPres s K n
  | 0 => allPres_zero
  | n + 1 => allPres_succ (allPres n)


/-! ### relational pass: the line-mode run from `lineSt st` mirrors the file-mode run from `st` -/

/-- relational postcondition of the file-mode run from `st`: `line` is the outcome of the line-mode run from `lineSt st` -/
def SP (s : TokStream) (K : Nat) (line : Res (α × PState)) : α → PState → Prop :=
  fun a st1 => Inv s st1 ∧ (Bad K st1 ∨ line = .ok (a, lineSt st1))

theorem wp_SP_of_pres {m : PM α} {P : α → PState → Prop} {st : PState} (h : wp m (fun _ st' => BadI s K st') st) :
    wp m (fun a st1 => Inv s st1 ∧ (Bad K st1 ∨ P a st1)) st :=
  wp_conseq h (fun _ _ h => ⟨h.1, Or.inl h.2⟩)

theorem SP_of_badI {P : Prop} {st1 : PState} (h : BadI s K st1) :
    Inv s st1 ∧ (Bad K st1 ∨ P) := ⟨h.1, Or.inl h.2⟩

theorem app_bind_getSt (f : PState → PM β) (st' : PState) : (getSt >>= f) st' = f st' st' := rfl
theorem app_bind_nextToken (s : TokStream) (f : Unit → PM β) (st' : PState) : (nextToken s >>= f) st' = f () (advance s st') := rfl
theorem app_bind_pure (a : α) (f : α → PM β) (st' : PState) : ((pure a : PM α) >>= f) st' = f a st' := rfl
theorem app_bind_ite (c : Prop) [Decidable c] (a b : PM α) (f : α → PM β) (st' : PState) :
    ((if c then a else b) >>= f) st' = if c then (a >>= f) st' else (b >>= f) st' := by split <;> rfl
theorem app_ite (c : Prop) [Decidable c] (a b : PM α) (st' : PState) :
    (if c then a else b) st' = if c then a st' else b st' := by split <;> rfl
theorem app_pure (a : α) (st' : PState) : (pure a : PM α) st' = .ok (a, st') := rfl
theorem app_nextToken (s : TokStream) (st' : PState) : nextToken s st' = .ok ((), advance s st') := rfl
theorem app_bind_of_eq {m : PM α} {f : α → PM β} {st' : PState} {b : α} {stm' : PState} (h : m st' = .ok (b, stm')) :
    (m >>= f) st' = f b stm' := by
  show PM.bind m f st' = _
  unfold PM.bind; rw [h]
theorem app_bind_assoc (m : PM α) (g : α → PM β) (f : β → PM γ) (st' : PState) :
    ((m >>= g) >>= f) st' = (m >>= fun x => g x >>= f) st' := by
  show PM.bind (PM.bind m g) f st' = PM.bind m (fun x => PM.bind (g x) f) st'
  unfold PM.bind
  cases m st' with
  | ok r => obtain ⟨a, st2⟩ := r; rfl
  | goPanic p => rfl
  | outOfFuel => rfl

theorem lineTok_endtest (x : Bool) (t : Tok) :
    ((x && (lineTok t).type != .EOF) && (lineTok t).type != .EOL) = ((x && t.type != .EOF) && t.type != .EOL) := by
  rcases lineTok_type_cases t with ⟨h, h'⟩ | ⟨_, h⟩
  · rw [h, h']; cases x <;> rfl
  · rw [h]
theorem lineTok_endtest3 (X : Prop) (t : Tok) :
    ((X ∧ ¬ (lineTok t).type = .EOF) ∧ ¬ (lineTok t).type = .EOL) = ((X ∧ ¬ t.type = .EOF) ∧ ¬ t.type = .EOL) := by
  rcases lineTok_type_cases t with ⟨h, h'⟩ | ⟨_, h⟩
  · rw [h, h']; simp
  · rw [h]
theorem lineTok_endtest2 (X : Prop) (t : Tok) :
    ((X ∨ (lineTok t).type = .EOF) ∨ (lineTok t).type = .EOL) = ((X ∨ t.type = .EOF) ∨ t.type = .EOL) := by
  rcases lineTok_type_cases t with ⟨h, h'⟩ | ⟨_, h⟩
  · rw [h, h']; simp
  · rw [h]

theorem ite_of_both {c : Prop} [Decidable c] {A B : Prop} (h1 : c → A) (h2 : ¬c → B) : if c then A else B := by
  split
  · exact h1 (by assumption)
  · exact h2 (by assumption)

macro "sv" : tactic => `(tactic| try simp only [wp_bind, wp_getSt, wp_ite, wp_nextToken, wp_pure, wp_setCont, wp_pushErr,
  wp_outOfFuel, wp_goPanic, advance_cur, advance_prev, SP,
  app_bind_getSt, app_bind_nextToken, app_bind_pure, app_bind_ite, app_ite, app_pure, app_nextToken, app_bind_assoc,
  lineSt_cur, lineSt_peek, lineSt_prev, lineSt_cont, lineSt_errors, lineSt_nextNewline, lineSt_prevNewline, lineSt_idx,
  advance_lineSt, lineTok_lit, lineTok_hadWs, lineTok_hadNl, lineTok_posAfter, lineTok_lastNl, lineTok_num,
  lineTok_prefix, lineTok_infix, lineTok_postfix, lineTok_prec, lineTok_type, lineTok_beq, lineTok_bne, lineTok_self,
  lineTok_endtest, lineTok_endtest2, lineTok_endtest3,
  ne_eq, reduceCtorEq, not_false_eq_true, not_true_eq_false, ↓reduceIte, or_true, and_true, Tok.tk, Option.map_some,
  Bool.and_eq_true, Bool.or_eq_true, decide_eq_true_eq, bne_iff_ne, beq_iff_eq, Bool.not_eq_true', and_self, true_and, or_self,
  false_and, and_false, or_false, false_or, true_or, *])
macro "svd" : tactic => `(tactic| simp only [wp_bind, wp_getSt, wp_ite, wp_nextToken, wp_pure, wp_setCont, wp_pushErr,
  wp_outOfFuel, wp_goPanic, advance_cur, advance_prev, SP,
  app_bind_getSt, app_bind_nextToken, app_bind_pure, app_bind_ite, app_ite, app_pure, app_nextToken, app_bind_assoc,
  lineSt_cur, lineSt_peek, lineSt_prev, lineSt_cont, lineSt_errors, lineSt_nextNewline, lineSt_prevNewline, lineSt_idx,
  advance_lineSt, lineTok_lit, lineTok_hadWs, lineTok_hadNl, lineTok_posAfter, lineTok_lastNl, lineTok_num,
  lineTok_prefix, lineTok_infix, lineTok_postfix, lineTok_prec, lineTok_type, lineTok_beq, lineTok_bne, lineTok_self,
  lineTok_endtest, lineTok_endtest2, lineTok_endtest3,
  ne_eq, reduceCtorEq, not_false_eq_true, not_true_eq_false, ↓reduceIte, or_true, and_true, Tok.tk, Option.map_some,
  Bool.and_eq_true, Bool.or_eq_true, decide_eq_true_eq, bne_iff_ne, beq_iff_eq, Bool.not_eq_true', and_self, true_and, or_self,
  false_and, and_false, or_false, false_or, true_or, *])


set_option hygiene false in
macro "badcase" : tactic => `(tactic| repeat' ((try simp only [SP]); first
  | done
  | exact SP_of_badI (by badc)
  | (refine wp_conseq (?_ : wp _ (fun _ st' => BadI s K st') _) ?_
     · pres
     intro _ _ _)
  | (refine ite_of_both (fun _ => ?_) (fun _ => ?_))
  | split))

set_option hygiene false in
macro "scall " t:term : tactic => `(tactic| first
  | exact $t
  | (refine wp_conseq ($t) ?_
     rintro b stm ⟨hi', hb' | hs'⟩
     · (have hB' : BadI s K stm := ⟨hi', hb'⟩
        badcase)
     simp only [app_bind_of_eq hs']))

/-! leaves -/

theorem expectPeek_sim (t : TokType) (h1 : t ≠ .EOF) (h2 : t ≠ .EOL) (st : PState) (hi : Inv s st) :
    wp (expectPeek s t) (SP s K (expectPeek (asLine s) t (lineSt st))) st := by
  unfold expectPeek peekError
  sv
  split
  · sv; exact inv_adv hi
  · split
    · sv; exact SP_of_badI (BadI.setCont hi)
    · apply errorLine_wp
      split
      · sv
      · sv; exact SP_of_badI (BadI.pushErr _ hi)

theorem mapPairError_sim (st : PState) (hi : Inv s st) :
    wp (mapPairError s) (SP s K (mapPairError (asLine s) (lineSt st))) st := by
  refine wp_SP_of_pres ?_
  unfold mapPairError peekError
  wv
  split
  · exact BadI.setCont hi
  · apply errorLine_wp
    split
    · wv
    · wv; exact BadI.pushErr _ hi

theorem noPrefix_bad (st : PState) (hi : Inv s st) : wp (noPrefixParseFnError s) (fun _ st' => BadI s K st') st := by
  unfold noPrefixParseFnError
  wv
  apply errorLine_wp
  wv; exact BadI.pushErr _ hi

theorem parseComment_sim (st : PState) (hi : Inv s st) (hc : lineTok st.cur = st.cur) :
    wp parseComment (SP s K (parseComment (lineSt st))) st := by
  unfold parseComment
  sv
  split
  · split
    · sv; exact SP_of_badI (BadI.setCont hi)
    · sv
  · split
    · sv
    · sv

theorem parseIdentifier_sim (st : PState) (hi : Inv s st) (hc : lineTok st.cur = st.cur) :
    wp (parseIdentifier s) (SP s K (parseIdentifier (asLine s) (lineSt st))) st := by
  unfold parseIdentifier parsePostfixExpression
  sv
  cases hl : lookup postfixRegs st.peek.type with
  | none => sv
  | some fn =>
    cases fn
    have hp : lineTok st.peek = st.peek := lineTok_self (fun e => by rw [e, tblE.2.2.2.2.2.2.1] at hl; cases hl)
    sv
    exact inv_adv hi

theorem parseFloatLiteral_sim (st : PState) (hi : Inv s st) (hc : lineTok st.cur = st.cur) :
    wp (parseFloatLiteral s) (SP s K (parseFloatLiteral (asLine s) (lineSt st))) st := by
  unfold parseFloatLiteral
  sv
  split
  · sv
  · apply errorLine_wp; sv; exact SP_of_badI (BadI.pushErr _ hi)

theorem parseIntegerLiteral_sim (st : PState) (hi : Inv s st) (hc : lineTok st.cur = st.cur) :
    wp (parseIntegerLiteral s) (SP s K (parseIntegerLiteral (asLine s) (lineSt st))) st := by
  unfold parseIntegerLiteral
  sv
  split
  · sv
  · sv; exact parseFloatLiteral_sim st hi hc

theorem parseBoolean_sim (st : PState) (hi : Inv s st) (hc : lineTok st.cur = st.cur) :
    wp parseBoolean (SP s K (parseBoolean (lineSt st))) st := by
  unfold parseBoolean; sv
theorem parseStringLiteral_sim (st : PState) (hi : Inv s st) (hc : lineTok st.cur = st.cur) :
    wp parseStringLiteral (SP s K (parseStringLiteral (lineSt st))) st := by
  unfold parseStringLiteral; sv
theorem parseControlExpression_sim (st : PState) (hi : Inv s st) (hc : lineTok st.cur = st.cur) :
    wp parseControlExpression (SP s K (parseControlExpression (lineSt st))) st := by
  unfold parseControlExpression; sv



theorem parseFunctionParametersLoop_sim (hE : EndAt s K) : ∀ (fuel : Nat) (acc : NList) (st : PState), Inv s st →
    wp (parseFunctionParametersLoop s fuel acc) (SP s K (parseFunctionParametersLoop (asLine s) fuel acc (lineSt st))) st
  | 0, _, _, _ => by unfold parseFunctionParametersLoop; trivial
  | n + 1, acc, st, hi => by
    unfold parseFunctionParametersLoop parameter
    sv
    split
    · by_cases hb : Bad K (advance s (advance s st))
      · refine wp_SP_of_pres ?_
        exact parseFunctionParametersLoop_pres n _ _ ⟨inv_adv (inv_adv hi), hb⟩
      · have hc := lineTok_self (cur_real hE (inv_adv (inv_adv hi)) hb)
        simp only [advance_cur] at hc
        sv
        exact parseFunctionParametersLoop_sim hE n _ _ (inv_adv (inv_adv hi))
    · sv

theorem parseFunctionParameters_sim (hE : EndAt s K) (fuel : Nat) (st : PState) (hi : Inv s st) :
    wp (parseFunctionParameters s fuel) (SP s K (parseFunctionParameters (asLine s) fuel (lineSt st))) st := by
  by_cases hb : Bad K (advance s st)
  · refine wp_SP_of_pres ?_
    unfold parseFunctionParameters parameter
    wv
    split
    · exact ⟨inv_adv hi, hb⟩
    · have hB : BadI s K (advance s st) := ⟨inv_adv hi, hb⟩
      refine wp_conseq (parseFunctionParametersLoop_pres fuel _ _ hB) ?_
      intro ids st1 h1
      wv
      refine wp_conseq (expectPeek_pres _ st1 h1) ?_
      intro b st2 h2
      presLeaf
  · have hc := lineTok_self (cur_real hE (inv_adv hi) hb)
    simp only [advance_cur] at hc
    unfold parseFunctionParameters parameter
    sv
    split
    · sv; exact inv_adv hi
    · sv
      refine wp_conseq (parseFunctionParametersLoop_sim hE fuel _ _ (inv_adv hi)) ?_
      rintro ids st1 ⟨hi1, hb1 | hs1⟩
      · have hB1 : BadI s K st1 := ⟨hi1, hb1⟩
        refine wp_conseq (expectPeek_pres _ st1 hB1) ?_
        intro b st2 h2
        split
        · exact SP_of_badI h2
        · refine wp_SP_of_pres ?_; presLeaf
      · simp only [app_bind_of_eq hs1]
        refine wp_conseq (expectPeek_sim (K := K) _ (by decide) (by decide) st1 hi1) ?_
        rintro b st2 ⟨hi2, hb2 | hs2⟩
        · have hB2 : BadI s K st2 := ⟨hi2, hb2⟩
          split
          · first | exact SP_of_badI hB2 | (sv; done) | (sv; exact SP_of_badI hB2)
          · split
            · first | exact SP_of_badI hB2 | (sv; done) | (sv; exact SP_of_badI hB2)
            · refine wp_SP_of_pres ?_; presLeaf
        · simp only [app_bind_of_eq hs2]
          split
          · sv
          · split
            · sv
            · sv
              apply errorLine_wp
              sv
              exact SP_of_badI (BadI.pushErr _ hi2)

structure AllSim (s : TokStream) (K : Nat) (n : Nat) : Prop where
  pE : ∀ P st, Inv s st → wp (parseExpression s n P) (SP s K (parseExpression (asLine s) n P (lineSt st))) st
  pLoop : ∀ P left st, Inv s st → wp (parseExpressionLoop s n P left) (SP s K (parseExpressionLoop (asLine s) n P left (lineSt st))) st
  pPre : ∀ fn st, Inv s st → wp (prefixDispatch s n fn) (SP s K (prefixDispatch (asLine s) n fn (lineSt st))) st
  pInf : ∀ fn left st, Inv s st → wp (infixDispatch s n fn left) (SP s K (infixDispatch (asLine s) n fn left (lineSt st))) st
  pStmt : ∀ st, Inv s st → wp (parseStatement s n) (SP s K (parseStatement (asLine s) n (lineSt st))) st
  pRet : ∀ st, Inv s st → wp (parseReturnStatement s n) (SP s K (parseReturnStatement (asLine s) n (lineSt st))) st
  pArr : ∀ st, Inv s st → wp (parseArrayLiteral s n) (SP s K (parseArrayLiteral (asLine s) n (lineSt st))) st
  pGrp : ∀ st, Inv s st → wp (parseGroupedExpression s n) (SP s K (parseGroupedExpression (asLine s) n (lineSt st))) st
  pPfx : ∀ st, Inv s st → wp (parsePrefixExpression s n) (SP s K (parsePrefixExpression (asLine s) n (lineSt st))) st
  pLam : ∀ left more st, Inv s st → wp (parseLambdaMulti s n left more) (SP s K (parseLambdaMulti (asLine s) n left more (lineSt st))) st
  pInfix : ∀ left st, Inv s st → wp (parseInfixExpression s n left) (SP s K (parseInfixExpression (asLine s) n left (lineSt st))) st
  pFor : ∀ st, Inv s st → wp (parseForExpression s n) (SP s K (parseForExpression (asLine s) n (lineSt st))) st
  pIf : ∀ st, Inv s st → wp (parseIfExpression s n) (SP s K (parseIfExpression (asLine s) n (lineSt st))) st
  pBlk : ∀ st, Inv s st → wp (parseBlockStatement s n) (SP s K (parseBlockStatement (asLine s) n (lineSt st))) st
  pBlkLoop : ∀ acc st, Inv s st → wp (parseBlockLoop s n acc) (SP s K (parseBlockLoop (asLine s) n acc (lineSt st))) st
  pFn : ∀ st, Inv s st → wp (parseFunctionLiteral s n) (SP s K (parseFunctionLiteral (asLine s) n (lineSt st))) st
  pBi : ∀ st, Inv s st → wp (parseBuiltin s n) (SP s K (parseBuiltin (asLine s) n (lineSt st))) st
  pCall : ∀ f st, Inv s st → wp (parseCallExpression s n f) (SP s K (parseCallExpression (asLine s) n f (lineSt st))) st
  pList : ∀ e st, e ≠ .EOF → e ≠ .EOL → Inv s st → wp (parseExpressionList s n e) (SP s K (parseExpressionList (asLine s) n e (lineSt st))) st
  pListLoop : ∀ args st, Inv s st → wp (parseExpressionListLoop s n args) (SP s K (parseExpressionListLoop (asLine s) n args (lineSt st))) st
  pIdx : ∀ left st, Inv s st → wp (parseIndexExpression s n left) (SP s K (parseIndexExpression (asLine s) n left (lineSt st))) st
  pMap : ∀ st, Inv s st → wp (parseMapLiteral s n) (SP s K (parseMapLiteral (asLine s) n (lineSt st))) st
  pMapLoop : ∀ tok kvs st, Inv s st → wp (parseMapLoop s n tok kvs) (SP s K (parseMapLoop (asLine s) n tok kvs (lineSt st))) st
  pMac : ∀ st, Inv s st → wp (parseMacroLiteral s n) (SP s K (parseMacroLiteral (asLine s) n (lineSt st))) st

set_option hygiene false in
macro "sim1" : tactic => `(tactic| first
  | done
  | trivial
  | cinv
  | exact SP_of_badI (BadI.setCont (by cinv))
  | exact SP_of_badI (BadI.pushErr _ (by cinv))
  | apply errorLine_wp
  | scall (expectPeek_sim (K := K) _ (by first | assumption | decide) (by first | assumption | decide) _ (by cinv))
  | (refine wp_SP_of_pres (noPrefix_bad _ (by cinv)))
  | scall (mapPairError_sim (K := K) _ (by cinv))
  | scall (parseFunctionParameters_sim hE _ _ (by cinv))
  | scall (parseIdentifier_sim (K := K) _ (by cinv) (by assumption))
  | scall (parseIntegerLiteral_sim (K := K) _ (by cinv) (by assumption))
  | scall (parseFloatLiteral_sim (K := K) _ (by cinv) (by assumption))
  | scall (parseBoolean_sim (K := K) _ (by cinv) (by assumption))
  | scall (parseStringLiteral_sim (K := K) _ (by cinv) (by assumption))
  | scall (parseControlExpression_sim (K := K) _ (by cinv) (by assumption))
  | scall (parseComment_sim (K := K) _ (by cinv) (by assumption))
  | scall (ih.pE _ _ (by cinv))
  | scall (ih.pLoop _ _ _ (by cinv))
  | scall (ih.pPre _ _ (by cinv))
  | scall (ih.pInf _ _ _ (by cinv))
  | scall (ih.pStmt _ (by cinv))
  | scall (ih.pRet _ (by cinv))
  | scall (ih.pArr _ (by cinv))
  | scall (ih.pGrp _ (by cinv))
  | scall (ih.pPfx _ (by cinv))
  | scall (ih.pLam _ _ _ (by cinv))
  | scall (ih.pInfix _ _ (by cinv))
  | scall (ih.pFor _ (by cinv))
  | scall (ih.pIf _ (by cinv))
  | scall (ih.pBlk _ (by cinv))
  | scall (ih.pBlkLoop _ _ (by cinv))
  | scall (ih.pFn _ (by cinv))
  | scall (ih.pBi _ (by cinv))
  | scall (ih.pCall _ _ (by cinv))
  | scall (ih.pList _ _ (by first | assumption | decide) (by first | assumption | decide) (by cinv))
  | scall (ih.pListLoop _ _ (by cinv))
  | scall (ih.pIdx _ _ (by cinv))
  | scall (ih.pMap _ (by cinv))
  | scall (ih.pMapLoop _ _ _ (by cinv))
  | scall (ih.pMac _ (by cinv))
  | (refine ite_of_both (fun _ => ?_) (fun _ => ?_))
  | split
  | (exfalso; simp_all; done))

set_option hygiene false in
macro "simw" : tactic => `(tactic| repeat' (sv; sv; sim1))

theorem sstep_pE (hE : EndAt s K) {n : Nat} (ih : AllSim s K n) : ∀ P st, Inv s st → wp (parseExpression s (n + 1) P) (SP s K (parseExpression (asLine s) (n + 1) P (lineSt st))) st := by
  intro P st hi
  have ihB := allPres (s := s) (K := K) n
  by_cases hb : Bad K st
  · exact wp_SP_of_pres ((allPres (n + 1)).pE P st ⟨hi, hb⟩)
  have hc : lineTok st.cur = st.cur := lineTok_self (cur_real hE hi hb)
  unfold parseExpression
  simw

theorem sstep_pLoop (hE : EndAt s K) {n : Nat} (ih : AllSim s K n) : ∀ P left st, Inv s st → wp (parseExpressionLoop s (n + 1) P left) (SP s K (parseExpressionLoop (asLine s) (n + 1) P left (lineSt st))) st := by
  intro P left st hi
  have ihB := allPres (s := s) (K := K) n
  by_cases hb : Bad K st
  · exact wp_SP_of_pres ((allPres (n + 1)).pLoop P left st ⟨hi, hb⟩)
  have hc : lineTok st.cur = st.cur := lineTok_self (cur_real hE hi hb)
  unfold parseExpressionLoop
  simw

theorem sstep_pPre (hE : EndAt s K) {n : Nat} (ih : AllSim s K n) : ∀ fn st, Inv s st → wp (prefixDispatch s (n + 1) fn) (SP s K (prefixDispatch (asLine s) (n + 1) fn (lineSt st))) st := by
  intro fn st hi
  have ihB := allPres (s := s) (K := K) n
  by_cases hb : Bad K st
  · exact wp_SP_of_pres ((allPres (n + 1)).pPre fn st ⟨hi, hb⟩)
  have hc : lineTok st.cur = st.cur := lineTok_self (cur_real hE hi hb)
  unfold prefixDispatch
  simw

theorem sstep_pInf (hE : EndAt s K) {n : Nat} (ih : AllSim s K n) : ∀ fn left st, Inv s st → wp (infixDispatch s (n + 1) fn left) (SP s K (infixDispatch (asLine s) (n + 1) fn left (lineSt st))) st := by
  intro fn left st hi
  have ihB := allPres (s := s) (K := K) n
  by_cases hb : Bad K st
  · exact wp_SP_of_pres ((allPres (n + 1)).pInf fn left st ⟨hi, hb⟩)
  have hc : lineTok st.cur = st.cur := lineTok_self (cur_real hE hi hb)
  unfold infixDispatch
  simw

theorem sstep_pStmt (hE : EndAt s K) {n : Nat} (ih : AllSim s K n) : ∀ st, Inv s st → wp (parseStatement s (n + 1)) (SP s K (parseStatement (asLine s) (n + 1) (lineSt st))) st := by
  intro st hi
  have ihB := allPres (s := s) (K := K) n
  by_cases hb : Bad K st
  · exact wp_SP_of_pres ((allPres (n + 1)).pStmt  st ⟨hi, hb⟩)
  have hc : lineTok st.cur = st.cur := lineTok_self (cur_real hE hi hb)
  unfold parseStatement
  sv
  split
  · simw
  · refine wp_conseq (ih.pE _ _ (by cinv)) ?_
    rintro b stm ⟨hi', hb' | hs'⟩
    · have hB' : BadI s K stm := ⟨hi', hb'⟩
      badcase
    · simp only [app_bind_of_eq hs']
      simw

theorem sstep_pRet (hE : EndAt s K) {n : Nat} (ih : AllSim s K n) : ∀ st, Inv s st → wp (parseReturnStatement s (n + 1)) (SP s K (parseReturnStatement (asLine s) (n + 1) (lineSt st))) st := by
  intro st hi
  have ihB := allPres (s := s) (K := K) n
  by_cases hb : Bad K st
  · exact wp_SP_of_pres ((allPres (n + 1)).pRet  st ⟨hi, hb⟩)
  have hc : lineTok st.cur = st.cur := lineTok_self (cur_real hE hi hb)
  unfold parseReturnStatement
  simw

theorem sstep_pArr (hE : EndAt s K) {n : Nat} (ih : AllSim s K n) : ∀ st, Inv s st → wp (parseArrayLiteral s (n + 1)) (SP s K (parseArrayLiteral (asLine s) (n + 1) (lineSt st))) st := by
  intro st hi
  have ihB := allPres (s := s) (K := K) n
  by_cases hb : Bad K st
  · exact wp_SP_of_pres ((allPres (n + 1)).pArr  st ⟨hi, hb⟩)
  have hc : lineTok st.cur = st.cur := lineTok_self (cur_real hE hi hb)
  unfold parseArrayLiteral
  simw

set_option maxHeartbeats 3200000 in
theorem sstep_pGrp (hE : EndAt s K) {n : Nat} (ih : AllSim s K n) : ∀ st, Inv s st → wp (parseGroupedExpression s (n + 1)) (SP s K (parseGroupedExpression (asLine s) (n + 1) (lineSt st))) st := by
  intro st hi
  have ihB := allPres (s := s) (K := K) n
  by_cases hb : Bad K st
  · exact wp_SP_of_pres ((allPres (n + 1)).pGrp  st ⟨hi, hb⟩)
  have hc : lineTok st.cur = st.cur := lineTok_self (cur_real hE hi hb)
  unfold parseGroupedExpression
  simw

theorem sstep_pPfx (hE : EndAt s K) {n : Nat} (ih : AllSim s K n) : ∀ st, Inv s st → wp (parsePrefixExpression s (n + 1)) (SP s K (parsePrefixExpression (asLine s) (n + 1) (lineSt st))) st := by
  intro st hi
  have ihB := allPres (s := s) (K := K) n
  by_cases hb : Bad K st
  · exact wp_SP_of_pres ((allPres (n + 1)).pPfx  st ⟨hi, hb⟩)
  have hc : lineTok st.cur = st.cur := lineTok_self (cur_real hE hi hb)
  unfold parsePrefixExpression
  simw

set_option maxHeartbeats 3200000 in
theorem sstep_pLam (hE : EndAt s K) {n : Nat} (ih : AllSim s K n) : ∀ left more st, Inv s st → wp (parseLambdaMulti s (n + 1) left more) (SP s K (parseLambdaMulti (asLine s) (n + 1) left more (lineSt st))) st := by
  intro left more st hi
  have ihB := allPres (s := s) (K := K) n
  by_cases hb : Bad K st
  · exact wp_SP_of_pres ((allPres (n + 1)).pLam left more st ⟨hi, hb⟩)
  have hc : lineTok st.cur = st.cur := lineTok_self (cur_real hE hi hb)
  unfold parseLambdaMulti
  simw

theorem sstep_pInfix (hE : EndAt s K) {n : Nat} (ih : AllSim s K n) : ∀ left st, Inv s st → wp (parseInfixExpression s (n + 1) left) (SP s K (parseInfixExpression (asLine s) (n + 1) left (lineSt st))) st := by
  intro left st hi
  have ihB := allPres (s := s) (K := K) n
  by_cases hb : Bad K st
  · exact wp_SP_of_pres ((allPres (n + 1)).pInfix left st ⟨hi, hb⟩)
  have hc : lineTok st.cur = st.cur := lineTok_self (cur_real hE hi hb)
  unfold parseInfixExpression
  simw

theorem sstep_pFor (hE : EndAt s K) {n : Nat} (ih : AllSim s K n) : ∀ st, Inv s st → wp (parseForExpression s (n + 1)) (SP s K (parseForExpression (asLine s) (n + 1) (lineSt st))) st := by
  intro st hi
  have ihB := allPres (s := s) (K := K) n
  by_cases hb : Bad K st
  · exact wp_SP_of_pres ((allPres (n + 1)).pFor  st ⟨hi, hb⟩)
  have hc : lineTok st.cur = st.cur := lineTok_self (cur_real hE hi hb)
  unfold parseForExpression
  simw

set_option maxHeartbeats 3200000 in
theorem sstep_pIf (hE : EndAt s K) {n : Nat} (ih : AllSim s K n) : ∀ st, Inv s st → wp (parseIfExpression s (n + 1)) (SP s K (parseIfExpression (asLine s) (n + 1) (lineSt st))) st := by
  intro st hi
  have ihB := allPres (s := s) (K := K) n
  by_cases hb : Bad K st
  · exact wp_SP_of_pres ((allPres (n + 1)).pIf  st ⟨hi, hb⟩)
  have hc : lineTok st.cur = st.cur := lineTok_self (cur_real hE hi hb)
  unfold parseIfExpression
  simw

theorem sstep_pBlk (hE : EndAt s K) {n : Nat} (ih : AllSim s K n) : ∀ st, Inv s st → wp (parseBlockStatement s (n + 1)) (SP s K (parseBlockStatement (asLine s) (n + 1) (lineSt st))) st := by
  intro st hi
  have ihB := allPres (s := s) (K := K) n
  by_cases hb : Bad K st
  · exact wp_SP_of_pres ((allPres (n + 1)).pBlk  st ⟨hi, hb⟩)
  have hc : lineTok st.cur = st.cur := lineTok_self (cur_real hE hi hb)
  unfold parseBlockStatement
  simw

theorem sstep_pBlkLoop (hE : EndAt s K) {n : Nat} (ih : AllSim s K n) : ∀ acc st, Inv s st → wp (parseBlockLoop s (n + 1) acc) (SP s K (parseBlockLoop (asLine s) (n + 1) acc (lineSt st))) st := by
  intro acc st hi
  have ihB := allPres (s := s) (K := K) n
  by_cases hb : Bad K st
  · exact wp_SP_of_pres ((allPres (n + 1)).pBlkLoop acc st ⟨hi, hb⟩)
  have hc : lineTok st.cur = st.cur := lineTok_self (cur_real hE hi hb)
  unfold parseBlockLoop
  simw

set_option maxHeartbeats 3200000 in
theorem sstep_pFn (hE : EndAt s K) {n : Nat} (ih : AllSim s K n) : ∀ st, Inv s st → wp (parseFunctionLiteral s (n + 1)) (SP s K (parseFunctionLiteral (asLine s) (n + 1) (lineSt st))) st := by
  intro st hi
  have ihB := allPres (s := s) (K := K) n
  by_cases hb : Bad K st
  · exact wp_SP_of_pres ((allPres (n + 1)).pFn  st ⟨hi, hb⟩)
  have hc : lineTok st.cur = st.cur := lineTok_self (cur_real hE hi hb)
  unfold parseFunctionLiteral
  simw

theorem sstep_pBi (hE : EndAt s K) {n : Nat} (ih : AllSim s K n) : ∀ st, Inv s st → wp (parseBuiltin s (n + 1)) (SP s K (parseBuiltin (asLine s) (n + 1) (lineSt st))) st := by
  intro st hi
  have ihB := allPres (s := s) (K := K) n
  by_cases hb : Bad K st
  · exact wp_SP_of_pres ((allPres (n + 1)).pBi  st ⟨hi, hb⟩)
  have hc : lineTok st.cur = st.cur := lineTok_self (cur_real hE hi hb)
  unfold parseBuiltin
  simw

theorem sstep_pCall (hE : EndAt s K) {n : Nat} (ih : AllSim s K n) : ∀ f st, Inv s st → wp (parseCallExpression s (n + 1) f) (SP s K (parseCallExpression (asLine s) (n + 1) f (lineSt st))) st := by
  intro f st hi
  have ihB := allPres (s := s) (K := K) n
  by_cases hb : Bad K st
  · exact wp_SP_of_pres ((allPres (n + 1)).pCall f st ⟨hi, hb⟩)
  have hc : lineTok st.cur = st.cur := lineTok_self (cur_real hE hi hb)
  unfold parseCallExpression
  simw

theorem sstep_pList (hE : EndAt s K) {n : Nat} (ih : AllSim s K n) : ∀ e st, e ≠ .EOF → e ≠ .EOL → Inv s st → wp (parseExpressionList s (n + 1) e) (SP s K (parseExpressionList (asLine s) (n + 1) e (lineSt st))) st := by
  intro e st he1 he2 hi
  have ihB := allPres (s := s) (K := K) n
  by_cases hb : Bad K st
  · exact wp_SP_of_pres ((allPres (n + 1)).pList e st ⟨hi, hb⟩)
  have hc : lineTok st.cur = st.cur := lineTok_self (cur_real hE hi hb)
  unfold parseExpressionList
  simw

theorem sstep_pListLoop (hE : EndAt s K) {n : Nat} (ih : AllSim s K n) : ∀ args st, Inv s st → wp (parseExpressionListLoop s (n + 1) args) (SP s K (parseExpressionListLoop (asLine s) (n + 1) args (lineSt st))) st := by
  intro args st hi
  have ihB := allPres (s := s) (K := K) n
  by_cases hb : Bad K st
  · exact wp_SP_of_pres ((allPres (n + 1)).pListLoop args st ⟨hi, hb⟩)
  have hc : lineTok st.cur = st.cur := lineTok_self (cur_real hE hi hb)
  unfold parseExpressionListLoop
  simw

theorem sstep_pIdx (hE : EndAt s K) {n : Nat} (ih : AllSim s K n) : ∀ left st, Inv s st → wp (parseIndexExpression s (n + 1) left) (SP s K (parseIndexExpression (asLine s) (n + 1) left (lineSt st))) st := by
  intro left st hi
  have ihB := allPres (s := s) (K := K) n
  by_cases hb : Bad K st
  · exact wp_SP_of_pres ((allPres (n + 1)).pIdx left st ⟨hi, hb⟩)
  have hc : lineTok st.cur = st.cur := lineTok_self (cur_real hE hi hb)
  unfold parseIndexExpression
  simw

theorem sstep_pMap (hE : EndAt s K) {n : Nat} (ih : AllSim s K n) : ∀ st, Inv s st → wp (parseMapLiteral s (n + 1)) (SP s K (parseMapLiteral (asLine s) (n + 1) (lineSt st))) st := by
  intro st hi
  have ihB := allPres (s := s) (K := K) n
  by_cases hb : Bad K st
  · exact wp_SP_of_pres ((allPres (n + 1)).pMap  st ⟨hi, hb⟩)
  have hc : lineTok st.cur = st.cur := lineTok_self (cur_real hE hi hb)
  unfold parseMapLiteral
  simw

set_option maxHeartbeats 3200000 in
theorem sstep_pMapLoop (hE : EndAt s K) {n : Nat} (ih : AllSim s K n) : ∀ tok kvs st, Inv s st → wp (parseMapLoop s (n + 1) tok kvs) (SP s K (parseMapLoop (asLine s) (n + 1) tok kvs (lineSt st))) st := by
  intro tok kvs st hi
  have ihB := allPres (s := s) (K := K) n
  by_cases hb : Bad K st
  · exact wp_SP_of_pres ((allPres (n + 1)).pMapLoop tok kvs st ⟨hi, hb⟩)
  have hc : lineTok st.cur = st.cur := lineTok_self (cur_real hE hi hb)
  unfold parseMapLoop
  simw

set_option maxHeartbeats 3200000 in
theorem sstep_pMac (hE : EndAt s K) {n : Nat} (ih : AllSim s K n) : ∀ st, Inv s st → wp (parseMacroLiteral s (n + 1)) (SP s K (parseMacroLiteral (asLine s) (n + 1) (lineSt st))) st := by
  intro st hi
  have ihB := allPres (s := s) (K := K) n
  by_cases hb : Bad K st
  · exact wp_SP_of_pres ((allPres (n + 1)).pMac  st ⟨hi, hb⟩)
  have hc : lineTok st.cur = st.cur := lineTok_self (cur_real hE hi hb)
  unfold parseMacroLiteral
  simw

theorem allSim_zero : AllSim s K 0 := by
  constructor <;> intros <;> first
    | (unfold parseExpression; exact trivial)
    | (unfold parseExpressionLoop; exact trivial)
    | (unfold prefixDispatch; exact trivial)
    | (unfold infixDispatch; exact trivial)
    | (unfold parseStatement; exact trivial)
    | (unfold parseReturnStatement; exact trivial)
    | (unfold parseArrayLiteral; exact trivial)
    | (unfold parseGroupedExpression; exact trivial)
    | (unfold parsePrefixExpression; exact trivial)
    | (unfold parseLambdaMulti; exact trivial)
    | (unfold parseInfixExpression; exact trivial)
    | (unfold parseForExpression; exact trivial)
    | (unfold parseIfExpression; exact trivial)
    | (unfold parseBlockStatement; exact trivial)
    | (unfold parseBlockLoop; exact trivial)
    | (unfold parseFunctionLiteral; exact trivial)
    | (unfold parseBuiltin; exact trivial)
    | (unfold parseCallExpression; exact trivial)
    | (unfold parseExpressionList; exact trivial)
    | (unfold parseExpressionListLoop; exact trivial)
    | (unfold parseIndexExpression; exact trivial)
    | (unfold parseMapLiteral; exact trivial)
    | (unfold parseMapLoop; exact trivial)
    | (unfold parseMacroLiteral; exact trivial)

theorem allSim_succ (hE : EndAt s K) {n : Nat} (ih : AllSim s K n) : AllSim s K (n + 1) where
  pE := sstep_pE hE ih
  pLoop := sstep_pLoop hE ih
  pPre := sstep_pPre hE ih
  pInf := sstep_pInf hE ih
  pStmt := sstep_pStmt hE ih
  pRet := sstep_pRet hE ih
  pArr := sstep_pArr hE ih
  pGrp := sstep_pGrp hE ih
  pPfx := sstep_pPfx hE ih
  pLam := sstep_pLam hE ih
  pInfix := sstep_pInfix hE ih
  pFor := sstep_pFor hE ih
  pIf := sstep_pIf hE ih
  pBlk := sstep_pBlk hE ih
  pBlkLoop := sstep_pBlkLoop hE ih
  pFn := sstep_pFn hE ih
  pBi := sstep_pBi hE ih
  pCall := sstep_pCall hE ih
  pList := sstep_pList hE ih
  pListLoop := sstep_pListLoop hE ih
  pIdx := sstep_pIdx hE ih
  pMap := sstep_pMap hE ih
  pMapLoop := sstep_pMapLoop hE ih
  pMac := sstep_pMac hE ih

theorem allSim (hE : EndAt s K) : ∀ n, AllSim s K n
  | 0 => allSim_zero
  | n + 1 => allSim_succ hE (allSim hE n)


/-! ### the program loop and `parseProgram` -/

/-- `hclosed`: no top-level statement of the file-mode run ends with the end marker as its current token
(`idx < K + 2` at the exit of every `parseStatement` call of `ParseProgram`'s loop).  A block loop that stops on EOF
instead of `}` makes the end marker current, and the position never goes back, so this excludes the recorded class
`file-mode-accepts-unclosed-block` — and nothing else that is accepted by file mode without error. -/
def stmtsClosed (s : TokStream) (K : Nat) : Nat → PState → Bool
  | 0, _ => true
  | n + 1, st =>
    if st.cur.type != .EOF && st.cur.type != .EOL then
      match parseStatement s n st with
      | .ok (none, st1) => decide (st1.idx < K + 2)
      | .ok (some _, st1) => decide (st1.idx < K + 2) && stmtsClosed s K n (advance s st1)
      | _ => true
    else true

theorem wp_iff (m : PM α) (Q : α → PState → Prop) (st : PState) : wp m Q st ↔ ∀ a st', m st = .ok (a, st') → Q a st' := by
  unfold wp
  cases m st with
  | ok r => obtain ⟨a, st'⟩ := r; exact ⟨fun h _ _ e => (by cases e; exact h), fun h => h _ _ rfl⟩
  | goPanic p => exact ⟨fun _ _ _ e => (by cases e), fun _ => trivial⟩
  | outOfFuel => exact ⟨fun _ _ _ e => (by cases e), fun _ => trivial⟩

theorem parseProgramLoop_sim (hE : EndAt s K) : ∀ (n : Nat) (acc : NList) (st : PState), Inv s st →
    stmtsClosed s K n st = true →
    wp (parseProgramLoop s n acc)
      (fun prog stf => D stf ∨ parseProgramLoop (asLine s) n acc (lineSt st) = .ok (prog, lineSt stf)) st
  | 0, _, _, _, _ => by unfold parseProgramLoop; trivial
  | n + 1, acc, st, hi, hcl => by
    rcases lineTok_type_cases st.cur with ⟨h1, h2⟩ | ⟨h1, hc⟩
    · unfold parseProgramLoop
      simp only [wp_bind, wp_getSt, wp_ite, wp_pure, app_bind_getSt, app_ite, app_pure, lineSt_cur, h1, h2, bne_self_eq_false,
        Bool.false_and, Bool.and_false, Bool.false_eq_true, ↓reduceIte, or_true]
    · unfold parseProgramLoop
      unfold stmtsClosed at hcl
      sv
      split
      · rename_i hcond
        have hcond' : (st.cur.type != TokType.EOF && st.cur.type != TokType.EOL) = true := by
          simp only [Bool.and_eq_true, bne_iff_ne, ne_eq]; exact ⟨h1, hcond⟩
        rw [if_pos hcond'] at hcl
        rw [wp_iff]
        intro stmt st1 hp
        rw [hp] at hcl
        have hst := (allSim hE n).pStmt st hi
        rw [wp_iff] at hst
        obtain ⟨hi1, hbs⟩ := hst _ _ hp
        cases stmt with
        | none =>
          simp only [decide_eq_true_eq] at hcl
          sv
          rcases hbs with (hd | hk) | hs
          · exact Or.inl hd
          · omega
          · right; simp only [app_bind_of_eq hs, app_pure]
        | some x =>
          simp only [Bool.and_eq_true, decide_eq_true_eq] at hcl
          sv
          rcases hbs with (hd | hk) | hs
          · refine wp_conseq (parseProgramLoop_spec s n _ (advance s st1) (Or.inl ((D_advance s st1).mpr hd))) ?_
            intro r st' h
            exact Or.inl (h.1 ((D_advance s st1).mpr hd))
          · omega
          · simp only [app_bind_of_eq hs, app_bind_nextToken, advance_lineSt]
            exact parseProgramLoop_sim hE n _ _ (inv_adv hi1) hcl.2
      · sv

/-- the two-run simulation for `parseProgram`: an outcome of the file-mode run without error and without continuation
request is the outcome of the line-mode run -/
theorem parseProgram_sim (hE : EndAt s K) (fuel : Nat) (hcl : stmtsClosed s K fuel (init s) = true) (r : ParseResult)
    (h : parseProgram s fuel = .ok r) (he : r.errors = 0) (hc : r.cont = false) : parseProgram (asLine s) fuel = .ok r := by
  have hs := parseProgramLoop_sim hE fuel [] (init s) (inv_init s) hcl
  rw [wp_iff] at hs
  unfold parseProgram at h ⊢
  cases hp : parseProgramLoop s fuel [] (init s) with
  | goPanic p => rw [hp] at h; cases h
  | outOfFuel => rw [hp] at h; cases h
  | ok res =>
    obtain ⟨prog, stf⟩ := res
    rw [hp] at h
    simp only [Res.ok.injEq] at h
    subst h
    simp only at he hc
    rcases hs _ _ hp with hd | hl
    · exfalso
      rcases hd with hd | hd
      · exact hd (List.length_eq_zero_iff.mp he)
      · rw [hc] at hd; cases hd
    · rw [init_asLine, hl]
      rfl

/-- executable form of `EndAt` -/
def endAtB (s : TokStream) (K : Nat) : Bool :=
  (List.range K).all (fun i => (s.get i).type != .EOF) && decide (s.eof.type = .EOF) &&
  (List.range (s.toks.length + 1 - K)).all (fun d => decide ((s.get (K + d)).type = .EOF))

theorem endAt_of_b (h : endAtB s K = true) : EndAt s K := by
  unfold endAtB at h
  simp only [Bool.and_eq_true, List.all_eq_true, List.mem_range, bne_iff_ne, ne_eq, decide_eq_true_eq] at h
  obtain ⟨⟨h1, h2⟩, h3⟩ := h
  refine ⟨h1, fun i hi => ?_⟩
  by_cases hl : s.toks.length ≤ i
  · rw [get_of_le s hl]; exact h2
  · have := h3 (i - K) (by omega)
    have e : K + (i - K) = i := by omega
    rw [e] at this; exact this

end Grol.Parser

namespace Grol.C15
open Grol Grol.Wire Grol.Parser Grol.Generated

/-- C15 part 1 at the token-stream level, as a two-run simulation.  `s` is the stream of file mode with its first end
marker at `K` and nothing but end markers after it (`endAtB`: no embedded NUL); `asLine s` is the stream of line mode.
`hclosed` = `stmtsClosed`: no top-level statement of the file-mode run ends with the end marker as its current token —
this excludes exactly the recorded class `file-mode-accepts-unclosed-block` (see `excluded_class`).  No assumption on
the fuel and none on the lexer facts `StreamWF`. -/
theorem same_tree_partial (s : TokStream) (K fuel : Nat) (hend : endAtB s K = true) (hv : valid s fuel = true)
    (hclosed : stmtsClosed s K fuel (init s) = true) :
    valid (asLine s) fuel = true ∧ (result (asLine s) fuel).map (·.program) = (result s fuel).map (·.program) := by
  unfold valid result at hv
  cases hp : parseProgram s fuel with
  | goPanic p => rw [hp] at hv; cases hv
  | outOfFuel => rw [hp] at hv; cases hv
  | ok r =>
    rw [hp] at hv
    simp only [Bool.and_eq_true, beq_iff_eq, Bool.not_eq_true'] at hv
    have hl := parseProgram_sim (endAt_of_b hend) fuel hclosed r hp hv.1 hv.2
    unfold valid result
    rw [hl, hp]
    simp only [Bool.and_eq_true, beq_iff_eq, Bool.not_eq_true']
    refine ⟨hv, ?_⟩
    first | rfl | trivial

/-- the full token-level statement of part 1 (no `hclosed`): FALSE of the code, `witness_file_mode_accepts_unclosed_block` -/
def SameTreeTokStatement : Prop :=
  ∀ (s : TokStream) (K fuel : Nat), endAtB s K = true → valid s fuel = true →
    valid (asLine s) fuel = true ∧ (result (asLine s) fuel).map (·.program) = (result s fuel).map (·.program)

/-! non-vacuity: streams of the real lexer (file mode) that meet the hypotheses, and their line-mode image -/

/-- `if x { y } else { z }` followed by `f(1)`: closed blocks, a call — 15 tokens -/
def closedBlocks : TokStream :=
  { toks := [
    { type := .IF, lit := [105, 102] }, { type := .IDENT, lit := [120], hadWs := true }, { type := .LBRACE, lit := [123], hadWs := true },
    { type := .IDENT, lit := [121], hadWs := true }, { type := .RBRACE, lit := [125], hadWs := true },
    { type := .ELSE, lit := [101, 108, 115, 101], hadWs := true }, { type := .LBRACE, lit := [123], hadWs := true },
    { type := .IDENT, lit := [122], hadWs := true }, { type := .RBRACE, lit := [125], hadWs := true },
    { type := .IDENT, lit := [102], hadWs := true, hadNl := true }, { type := .LPAREN, lit := [40] },
    { type := .INT, lit := [49], num := .int }, { type := .RPAREN, lit := [41] },
    { type := .EOF, lit := [] } ],
    eof := { type := .EOF, lit := [] }, inputLen := 30 }

example : endAtB closedBlocks 13 = true ∧ valid closedBlocks 40 = true ∧ stmtsClosed closedBlocks 13 40 (init closedBlocks) = true ∧
    (result closedBlocks 40).map (·.program.length) = some 2 := by decide +kernel
example : endAtB emptyParens.whole 6 = true ∧ valid emptyParens.whole 40 = true ∧
    stmtsClosed emptyParens.whole 6 40 (init emptyParens.whole) = true := by decide +kernel
example : endAtB unclosedString.whole 2 = true ∧ valid unclosedString.whole 40 = true ∧
    stmtsClosed unclosedString.whole 2 40 (init unclosedString.whole) = true := by decide +kernel
/-- `asLine` of the file-mode stream of the real lexer is the line-mode stream of the real lexer (on these inputs) -/
example : (asLine openBlock.file).toks = openBlock.line.toks ∧ (asLine openBlock.file).eof = openBlock.line.eof ∧
    (asLine emptyParens.file).toks = emptyParens.line.toks ∧ (asLine fakeComment.file).eof = fakeComment.line.eof := by decide +kernel

/-- `hclosed` fails on the recorded class: `func(){` is accepted by file mode, its only statement ends on the end marker -/
theorem excluded_class : endAtB openBlock.file 4 = true ∧ valid openBlock.file 40 = true ∧
    stmtsClosed openBlock.file 4 40 (init openBlock.file) = false := by decide +kernel

end Grol.C15

import GrolProofs.Props.C15
import GrolProofs.ParseGood
import GrolProofs.ParseTerm
/-
C15 part 1, positive half, at the token-stream level: a two-run simulation between the parser on the stream `s`
that the lexer yields in file mode (end marker of type EOF) and on `asLine s` (same stream, end marker of type EOL:
what the lexer yields in line mode on an input without unterminated string/comment).

Every parser state of the line-mode run is `lineSt` of the state of the file-mode run (same fields, EOF-typed tokens
retyped EOL), unless the file-mode run is already `Bad`: it recorded an error, asked for continuation, or made the
end marker its CURRENT token (`K + 2 ≤ idx`, `K` = position of the first end marker).  `Bad` is never undone
(`AllPres`, a unary pass), so a run that ends clean was never `Bad`; the only place where the end marker is current
without an error is the exit of a block loop on EOF — the recorded class `file-mode-accepts-unclosed-block` — and
the hypothesis `stmtsClosed` (no top-level statement of the file-mode run ends with the end marker as its current
token) excludes exactly that.
-/
set_option linter.unusedVariables false
set_option linter.unusedSimpArgs false
namespace Grol.Parser
open Grol.Generated

/-- the token line mode yields where file mode yields `t` -/
def lineTok (t : Tok) : Tok := if t.type = .EOF then { t with type := .EOL } else t

/-- the stream of line mode: every EOF-typed token (the end markers) retyped EOL, everything else the same -/
def asLine (s : TokStream) : TokStream := { toks := s.toks.map lineTok, eof := lineTok s.eof, inputLen := s.inputLen }

/-- the line-mode parser state corresponding to a file-mode state -/
def lineSt (st : PState) : PState := { st with prev := st.prev.map lineTok, cur := lineTok st.cur, peek := lineTok st.peek }

theorem get_asLine (s : TokStream) (i : Nat) : (asLine s).get i = lineTok (s.get i) := by
  unfold TokStream.get asLine
  simp only [List.getElem?_map]
  cases s.toks[i]? <;> rfl

theorem lineTok_self {t : Tok} (h : t.type ≠ .EOF) : lineTok t = t := by unfold lineTok; rw [if_neg h]
@[simp] theorem lineTok_lit (t : Tok) : (lineTok t).lit = t.lit := by unfold lineTok; split <;> rfl
@[simp] theorem lineTok_hadWs (t : Tok) : (lineTok t).hadWs = t.hadWs := by unfold lineTok; split <;> rfl
@[simp] theorem lineTok_hadNl (t : Tok) : (lineTok t).hadNl = t.hadNl := by unfold lineTok; split <;> rfl
@[simp] theorem lineTok_posAfter (t : Tok) : (lineTok t).posAfter = t.posAfter := by unfold lineTok; split <;> rfl
@[simp] theorem lineTok_lastNl (t : Tok) : (lineTok t).lastNl = t.lastNl := by unfold lineTok; split <;> rfl
@[simp] theorem lineTok_num (t : Tok) : (lineTok t).num = t.num := by unfold lineTok; split <;> rfl

theorem lineTok_type (t : Tok) (X : TokType) (h1 : X ≠ .EOF) (h2 : X ≠ .EOL) : ((lineTok t).type = X) = (t.type = X) := by
  unfold lineTok
  split
  · rename_i h; simp only [h]; exact propext ⟨fun e => absurd e.symm h2, fun e => absurd e.symm h1⟩
  · rfl
theorem lineTok_beq (t : Tok) (X : TokType) (h1 : X ≠ .EOF) (h2 : X ≠ .EOL) : ((lineTok t).type == X) = (t.type == X) := by
  have := lineTok_type t X h1 h2
  cases h : (t.type == X) <;> simp_all
theorem lineTok_bne (t : Tok) (X : TokType) (h1 : X ≠ .EOF) (h2 : X ≠ .EOL) : ((lineTok t).type != X) = (t.type != X) := by
  simp only [bne, lineTok_beq t X h1 h2]

theorem lineTok_type_cases (t : Tok) : (t.type = .EOF ∧ (lineTok t).type = .EOL) ∨ (t.type ≠ .EOF ∧ lineTok t = t) := by
  by_cases h : t.type = .EOF
  · left; exact ⟨h, by unfold lineTok; rw [if_pos h]⟩
  · right; exact ⟨h, lineTok_self h⟩

@[simp] theorem lineTok_prefix (t : Tok) : lookup prefixRegs (lineTok t).type = lookup prefixRegs t.type := by
  rcases lineTok_type_cases t with ⟨h, h'⟩ | ⟨_, h⟩
  · rw [h, h', tblE.1, tblE.2.1]
  · rw [h]
@[simp] theorem lineTok_infix (t : Tok) : lookup infixRegs (lineTok t).type = lookup infixRegs t.type := by
  rcases lineTok_type_cases t with ⟨h, h'⟩ | ⟨_, h⟩
  · rw [h, h', tblE.2.2.1, tblE.2.2.2.1]
  · rw [h]
@[simp] theorem lineTok_postfix (t : Tok) : lookup postfixRegs (lineTok t).type = lookup postfixRegs t.type := by
  rcases lineTok_type_cases t with ⟨h, h'⟩ | ⟨_, h⟩
  · rw [h, h', tblE.2.2.2.2.2.2.1, tblE.2.2.2.2.2.2.2]
  · rw [h]
@[simp] theorem lineTok_prec (t : Tok) : precOf (lineTok t).type = precOf t.type := by
  rcases lineTok_type_cases t with ⟨h, h'⟩ | ⟨_, h⟩
  · rw [h, h', tblE.2.2.2.2.1, tblE.2.2.2.2.2.1]
  · rw [h]

@[simp] theorem lineSt_cur (st : PState) : (lineSt st).cur = lineTok st.cur := rfl
@[simp] theorem lineSt_peek (st : PState) : (lineSt st).peek = lineTok st.peek := rfl
@[simp] theorem lineSt_prev (st : PState) : (lineSt st).prev = st.prev.map lineTok := rfl
@[simp] theorem lineSt_cont (st : PState) : (lineSt st).cont = st.cont := rfl
@[simp] theorem lineSt_errors (st : PState) : (lineSt st).errors = st.errors := rfl
@[simp] theorem lineSt_nextNewline (st : PState) : (lineSt st).nextNewline = st.nextNewline := rfl
@[simp] theorem lineSt_prevNewline (st : PState) : (lineSt st).prevNewline = st.prevNewline := rfl
@[simp] theorem lineSt_idx (st : PState) : (lineSt st).idx = st.idx := rfl

@[simp] theorem advance_lineSt (s : TokStream) (st : PState) : advance (asLine s) (lineSt st) = lineSt (advance s st) := by
  unfold advance lineSt
  simp only [get_asLine, lineTok_posAfter, lineTok_hadNl, Option.map_some]

theorem init_asLine (s : TokStream) : init (asLine s) = lineSt (init s) := by
  unfold init lineSt
  simp only [get_asLine, lineTok_posAfter, lineTok_hadNl, Option.map_none]

/-- the first end marker is at position `K`, and from there on every token is an end marker (no embedded NUL) -/
structure EndAt (s : TokStream) (K : Nat) : Prop where
  before : ∀ i, i < K → (s.get i).type ≠ .EOF
  after : ∀ i, K ≤ i → (s.get i).type = .EOF

/-- error recorded, continuation requested, or the end marker is the current token -/
def Bad (K : Nat) (st : PState) : Prop := D st ∨ K + 2 ≤ st.idx

def BadI (s : TokStream) (K : Nat) (st : PState) : Prop := Inv s st ∧ Bad K st

variable {s : TokStream} {K : Nat}

theorem BadI.adv {st : PState} (h : BadI s K st) : BadI s K (advance s st) :=
  ⟨inv_adv h.1, h.2.elim (fun d => Or.inl d) (fun k => Or.inr (by show K + 2 ≤ st.idx + 1; omega))⟩
theorem BadI.setCont {st : PState} (h : Inv s st) : BadI s K { st with cont := true } :=
  ⟨inv_setCont h, Or.inl (Or.inr rfl)⟩
theorem BadI.pushErr {st : PState} (e : ErrKind) (h : Inv s st) : BadI s K { st with errors := e :: st.errors } :=
  ⟨inv_pushErr e h, Or.inl (Or.inl (List.cons_ne_nil _ _))⟩

theorem cur_real (hE : EndAt s K) {st : PState} (hi : Inv s st) (hb : ¬ Bad K st) : st.cur.type ≠ .EOF := by
  rw [hi.cur]
  apply hE.before
  have := hi.idx
  have : ¬ (K + 2 ≤ st.idx) := fun h => hb (Or.inr h)
  omega

macro "cinv" : tactic => `(tactic| first
  | assumption
  | exact inv_adv (by assumption)
  | exact inv_adv (inv_adv (by assumption))
  | exact inv_adv (inv_adv (inv_adv (by assumption)))
  | exact inv_setCont (by assumption)
  | exact inv_pushErr _ (by assumption)
  | exact BadI.1 (by assumption)
  | exact inv_adv (And.left (by assumption)))

macro "badc" : tactic => `(tactic| first
  | assumption
  | exact BadI.adv (by assumption)
  | exact BadI.adv (BadI.adv (by assumption))
  | exact BadI.adv (BadI.adv (BadI.adv (by assumption)))
  | exact BadI.setCont (by cinv)
  | exact BadI.pushErr _ (by cinv)
  | exact BadI.setCont (And.left (by assumption))
  | exact BadI.pushErr _ (And.left (by assumption))
  | exact BadI.setCont (inv_adv (And.left (by assumption)))
  | exact BadI.pushErr _ (inv_adv (And.left (by assumption))))

/-- unary postcondition: still `Bad` -/
def PB (s : TokStream) (K : Nat) : α → PState → Prop := fun _ st' => BadI s K st'

/-! ### unary pass: `Bad` is never undone -/

macro "wv" : tactic => `(tactic| try simp only [wp_bind, wp_getSt, wp_ite, wp_nextToken, wp_pure, wp_setCont, wp_pushErr,
  wp_outOfFuel, wp_goPanic, advance_cur, advance_prev])

macro "presLeaf" : tactic => `(tactic| repeat' (wv; first
  | done
  | trivial
  | badc
  | apply errorLine_wp
  | split))

theorem peekError_pres (t : TokType) (st : PState) (hb : BadI s K st) : wp (peekError s t) (PB s K) st := by
  unfold peekError PB; presLeaf
theorem noPrefix_pres (st : PState) (hb : BadI s K st) : wp (noPrefixParseFnError s) (PB s K) st := by
  unfold noPrefixParseFnError PB; presLeaf
theorem expectPeek_pres (t : TokType) (st : PState) (hb : BadI s K st) : wp (expectPeek s t) (PB s K) st := by
  unfold expectPeek peekError PB; presLeaf
theorem parseComment_pres (st : PState) (hb : BadI s K st) : wp parseComment (PB s K) st := by
  unfold parseComment PB; presLeaf
theorem parseIdentifier_pres (st : PState) (hb : BadI s K st) : wp (parseIdentifier s) (PB s K) st := by
  unfold parseIdentifier parsePostfixExpression PB; presLeaf
theorem parseFloatLiteral_pres (st : PState) (hb : BadI s K st) : wp (parseFloatLiteral s) (PB s K) st := by
  unfold parseFloatLiteral PB; presLeaf
theorem parseIntegerLiteral_pres (st : PState) (hb : BadI s K st) : wp (parseIntegerLiteral s) (PB s K) st := by
  unfold parseIntegerLiteral parseFloatLiteral PB; presLeaf
theorem parseBoolean_pres (st : PState) (hb : BadI s K st) : wp parseBoolean (PB s K) st := by
  unfold parseBoolean PB; presLeaf
theorem parseStringLiteral_pres (st : PState) (hb : BadI s K st) : wp parseStringLiteral (PB s K) st := by
  unfold parseStringLiteral PB; presLeaf
theorem parseControlExpression_pres (st : PState) (hb : BadI s K st) : wp parseControlExpression (PB s K) st := by
  unfold parseControlExpression PB; presLeaf
theorem mapPairError_pres (st : PState) (hb : BadI s K st) : wp (mapPairError s) (PB s K) st := by
  unfold mapPairError peekError PB; presLeaf
theorem parameter_pres (st : PState) (hb : BadI s K st) : wp (parameter s) (PB s K) st := by
  unfold parameter PB; presLeaf

theorem parseFunctionParametersLoop_pres : ∀ (fuel : Nat) (acc : NList) (st : PState), BadI s K st →
    wp (parseFunctionParametersLoop s fuel acc) (PB s K) st
  | 0, _, _, _ => by unfold parseFunctionParametersLoop; trivial
  | n + 1, acc, st, hb => by
    unfold parseFunctionParametersLoop parameter
    wv
    split
    · exact parseFunctionParametersLoop_pres n _ _ (by badc)
    · exact hb

theorem parseFunctionParameters_pres (fuel : Nat) (st : PState) (hb : BadI s K st) :
    wp (parseFunctionParameters s fuel) (PB s K) st := by
  unfold parseFunctionParameters parameter
  wv
  split
  · exact BadI.adv hb
  · refine wp_conseq (parseFunctionParametersLoop_pres fuel _ _ (BadI.adv hb)) ?_
    intro ids st1 h1
    wv
    refine wp_conseq (expectPeek_pres _ st1 h1) ?_
    intro b st2 h2
    unfold PB; presLeaf

structure AllPres (s : TokStream) (K : Nat) (n : Nat) : Prop where
  pE : ∀ P st, BadI s K st → wp (parseExpression s n P) (PB s K) st
  pLoop : ∀ P left st, BadI s K st → wp (parseExpressionLoop s n P left) (PB s K) st
  pPre : ∀ fn st, BadI s K st → wp (prefixDispatch s n fn) (PB s K) st
  pInf : ∀ fn left st, BadI s K st → wp (infixDispatch s n fn left) (PB s K) st
  pStmt : ∀ st, BadI s K st → wp (parseStatement s n) (PB s K) st
  pRet : ∀ st, BadI s K st → wp (parseReturnStatement s n) (PB s K) st
  pArr : ∀ st, BadI s K st → wp (parseArrayLiteral s n) (PB s K) st
  pGrp : ∀ st, BadI s K st → wp (parseGroupedExpression s n) (PB s K) st
  pPfx : ∀ st, BadI s K st → wp (parsePrefixExpression s n) (PB s K) st
  pLam : ∀ left more st, BadI s K st → wp (parseLambdaMulti s n left more) (PB s K) st
  pInfix : ∀ left st, BadI s K st → wp (parseInfixExpression s n left) (PB s K) st
  pFor : ∀ st, BadI s K st → wp (parseForExpression s n) (PB s K) st
  pIf : ∀ st, BadI s K st → wp (parseIfExpression s n) (PB s K) st
  pBlk : ∀ st, BadI s K st → wp (parseBlockStatement s n) (PB s K) st
  pBlkLoop : ∀ acc st, BadI s K st → wp (parseBlockLoop s n acc) (PB s K) st
  pFn : ∀ st, BadI s K st → wp (parseFunctionLiteral s n) (PB s K) st
  pBi : ∀ st, BadI s K st → wp (parseBuiltin s n) (PB s K) st
  pCall : ∀ f st, BadI s K st → wp (parseCallExpression s n f) (PB s K) st
  pList : ∀ e st, BadI s K st → wp (parseExpressionList s n e) (PB s K) st
  pListLoop : ∀ args st, BadI s K st → wp (parseExpressionListLoop s n args) (PB s K) st
  pIdx : ∀ left st, BadI s K st → wp (parseIndexExpression s n left) (PB s K) st
  pMap : ∀ st, BadI s K st → wp (parseMapLiteral s n) (PB s K) st
  pMapLoop : ∀ tok kvs st, BadI s K st → wp (parseMapLoop s n tok kvs) (PB s K) st
  pMac : ∀ st, BadI s K st → wp (parseMacroLiteral s n) (PB s K) st

set_option hygiene false in
macro "pcall " t:term : tactic => `(tactic| (refine wp_conseq ($t) ?_; intro _ _ _))

set_option hygiene false in
macro "pres1" : tactic => `(tactic| first
  | done
  | trivial
  | badc
  | apply errorLine_wp
  | pcall (expectPeek_pres _ _ (by badc))
  | pcall (noPrefix_pres _ (by badc))
  | pcall (peekError_pres _ _ (by badc))
  | pcall (mapPairError_pres _ (by badc))
  | pcall (parseFunctionParameters_pres _ _ (by badc))
  | pcall (parseIdentifier_pres _ (by badc))
  | pcall (parseIntegerLiteral_pres _ (by badc))
  | pcall (parseFloatLiteral_pres _ (by badc))
  | pcall (parseBoolean_pres _ (by badc))
  | pcall (parseStringLiteral_pres _ (by badc))
  | pcall (parseControlExpression_pres _ (by badc))
  | pcall (parseComment_pres _ (by badc))
  | pcall (ihB.pE _ _ (by badc))
  | pcall (ihB.pLoop _ _ _ (by badc))
  | pcall (ihB.pPre _ _ (by badc))
  | pcall (ihB.pInf _ _ _ (by badc))
  | pcall (ihB.pStmt _ (by badc))
  | pcall (ihB.pRet _ (by badc))
  | pcall (ihB.pArr _ (by badc))
  | pcall (ihB.pGrp _ (by badc))
  | pcall (ihB.pPfx _ (by badc))
  | pcall (ihB.pLam _ _ _ (by badc))
  | pcall (ihB.pInfix _ _ (by badc))
  | pcall (ihB.pFor _ (by badc))
  | pcall (ihB.pIf _ (by badc))
  | pcall (ihB.pBlk _ (by badc))
  | pcall (ihB.pBlkLoop _ _ (by badc))
  | pcall (ihB.pFn _ (by badc))
  | pcall (ihB.pBi _ (by badc))
  | pcall (ihB.pCall _ _ (by badc))
  | pcall (ihB.pList _ _ (by badc))
  | pcall (ihB.pListLoop _ _ (by badc))
  | pcall (ihB.pIdx _ _ (by badc))
  | pcall (ihB.pMap _ (by badc))
  | pcall (ihB.pMapLoop _ _ _ (by badc))
  | pcall (ihB.pMac _ (by badc))
  | split)

set_option hygiene false in
macro "pres" : tactic => `(tactic| repeat' (wv; pres1))

theorem allPres_zero : AllPres s K 0 := by
  constructor <;> intros <;> first
    | (unfold parseExpression; exact trivial)
    | (unfold parseExpressionLoop; exact trivial)
    | (unfold prefixDispatch; exact trivial)
    | (unfold infixDispatch; exact trivial)
    | (unfold parseStatement; exact trivial)
    | (unfold parseReturnStatement; exact trivial)
    | (unfold parseArrayLiteral; exact trivial)
    | (unfold parseGroupedExpression; exact trivial)
    | (unfold parsePrefixExpression; exact trivial)
    | (unfold parseLambdaMulti; exact trivial)
    | (unfold parseInfixExpression; exact trivial)
    | (unfold parseForExpression; exact trivial)
    | (unfold parseIfExpression; exact trivial)
    | (unfold parseBlockStatement; exact trivial)
    | (unfold parseBlockLoop; exact trivial)
    | (unfold parseFunctionLiteral; exact trivial)
    | (unfold parseBuiltin; exact trivial)
    | (unfold parseCallExpression; exact trivial)
    | (unfold parseExpressionList; exact trivial)
    | (unfold parseExpressionListLoop; exact trivial)
    | (unfold parseIndexExpression; exact trivial)
    | (unfold parseMapLiteral; exact trivial)
    | (unfold parseMapLoop; exact trivial)
    | (unfold parseMacroLiteral; exact trivial)

theorem pstep_pE {n : Nat} (ihB : AllPres s K n) : ∀ P st, BadI s K st → wp (parseExpression s (n + 1) P) (PB s K) st := by
  intro P st hb; unfold parseExpression PB; pres

theorem pstep_pLoop {n : Nat} (ihB : AllPres s K n) : ∀ P left st, BadI s K st → wp (parseExpressionLoop s (n + 1) P left) (PB s K) st := by
  intro P left st hb; unfold parseExpressionLoop PB; pres

theorem pstep_pPre {n : Nat} (ihB : AllPres s K n) : ∀ fn st, BadI s K st → wp (prefixDispatch s (n + 1) fn) (PB s K) st := by
  intro fn st hb; unfold prefixDispatch PB; cases fn <;> pres

theorem pstep_pInf {n : Nat} (ihB : AllPres s K n) : ∀ fn left st, BadI s K st → wp (infixDispatch s (n + 1) fn left) (PB s K) st := by
  intro fn left st hb; unfold infixDispatch PB; cases fn <;> pres

theorem pstep_pStmt {n : Nat} (ihB : AllPres s K n) : ∀ st, BadI s K st → wp (parseStatement s (n + 1)) (PB s K) st := by
  intro st hb; unfold parseStatement PB; pres

theorem pstep_pRet {n : Nat} (ihB : AllPres s K n) : ∀ st, BadI s K st → wp (parseReturnStatement s (n + 1)) (PB s K) st := by
  intro st hb; unfold parseReturnStatement PB; pres

theorem pstep_pArr {n : Nat} (ihB : AllPres s K n) : ∀ st, BadI s K st → wp (parseArrayLiteral s (n + 1)) (PB s K) st := by
  intro st hb; unfold parseArrayLiteral PB; pres

theorem pstep_pGrp {n : Nat} (ihB : AllPres s K n) : ∀ st, BadI s K st → wp (parseGroupedExpression s (n + 1)) (PB s K) st := by
  intro st hb; unfold parseGroupedExpression PB; pres

theorem pstep_pPfx {n : Nat} (ihB : AllPres s K n) : ∀ st, BadI s K st → wp (parsePrefixExpression s (n + 1)) (PB s K) st := by
  intro st hb; unfold parsePrefixExpression PB; pres

theorem pstep_pLam {n : Nat} (ihB : AllPres s K n) : ∀ left more st, BadI s K st → wp (parseLambdaMulti s (n + 1) left more) (PB s K) st := by
  intro left more st hb; unfold parseLambdaMulti PB; pres

theorem pstep_pInfix {n : Nat} (ihB : AllPres s K n) : ∀ left st, BadI s K st → wp (parseInfixExpression s (n + 1) left) (PB s K) st := by
  intro left st hb; unfold parseInfixExpression PB; pres

theorem pstep_pFor {n : Nat} (ihB : AllPres s K n) : ∀ st, BadI s K st → wp (parseForExpression s (n + 1)) (PB s K) st := by
  intro st hb; unfold parseForExpression PB; pres

theorem pstep_pIf {n : Nat} (ihB : AllPres s K n) : ∀ st, BadI s K st → wp (parseIfExpression s (n + 1)) (PB s K) st := by
  intro st hb; unfold parseIfExpression PB; pres

theorem pstep_pBlk {n : Nat} (ihB : AllPres s K n) : ∀ st, BadI s K st → wp (parseBlockStatement s (n + 1)) (PB s K) st := by
  intro st hb; unfold parseBlockStatement PB; pres

theorem pstep_pBlkLoop {n : Nat} (ihB : AllPres s K n) : ∀ acc st, BadI s K st → wp (parseBlockLoop s (n + 1) acc) (PB s K) st := by
  intro acc st hb; unfold parseBlockLoop PB; pres

theorem pstep_pFn {n : Nat} (ihB : AllPres s K n) : ∀ st, BadI s K st → wp (parseFunctionLiteral s (n + 1)) (PB s K) st := by
  intro st hb; unfold parseFunctionLiteral PB; pres

theorem pstep_pBi {n : Nat} (ihB : AllPres s K n) : ∀ st, BadI s K st → wp (parseBuiltin s (n + 1)) (PB s K) st := by
  intro st hb; unfold parseBuiltin PB; pres

theorem pstep_pCall {n : Nat} (ihB : AllPres s K n) : ∀ f st, BadI s K st → wp (parseCallExpression s (n + 1) f) (PB s K) st := by
  intro f st hb; unfold parseCallExpression PB; pres

theorem pstep_pList {n : Nat} (ihB : AllPres s K n) : ∀ e st, BadI s K st → wp (parseExpressionList s (n + 1) e) (PB s K) st := by
  intro e st hb; unfold parseExpressionList PB; pres

theorem pstep_pListLoop {n : Nat} (ihB : AllPres s K n) : ∀ args st, BadI s K st → wp (parseExpressionListLoop s (n + 1) args) (PB s K) st := by
  intro args st hb; unfold parseExpressionListLoop PB; pres

theorem pstep_pIdx {n : Nat} (ihB : AllPres s K n) : ∀ left st, BadI s K st → wp (parseIndexExpression s (n + 1) left) (PB s K) st := by
  intro left st hb; unfold parseIndexExpression PB; pres

theorem pstep_pMap {n : Nat} (ihB : AllPres s K n) : ∀ st, BadI s K st → wp (parseMapLiteral s (n + 1)) (PB s K) st := by
  intro st hb; unfold parseMapLiteral PB; pres

theorem pstep_pMapLoop {n : Nat} (ihB : AllPres s K n) : ∀ tok kvs st, BadI s K st → wp (parseMapLoop s (n + 1) tok kvs) (PB s K) st := by
  intro tok kvs st hb; unfold parseMapLoop PB; pres

theorem pstep_pMac {n : Nat} (ihB : AllPres s K n) : ∀ st, BadI s K st → wp (parseMacroLiteral s (n + 1)) (PB s K) st := by
  intro st hb; unfold parseMacroLiteral PB; pres

theorem allPres_succ {n : Nat} (ihB : AllPres s K n) : AllPres s K (n + 1) where
  pE := pstep_pE ihB
  pLoop := pstep_pLoop ihB
  pPre := pstep_pPre ihB
  pInf := pstep_pInf ihB
  pStmt := pstep_pStmt ihB
  pRet := pstep_pRet ihB
  pArr := pstep_pArr ihB
  pGrp := pstep_pGrp ihB
  pPfx := pstep_pPfx ihB
  pLam := pstep_pLam ihB
  pInfix := pstep_pInfix ihB
  pFor := pstep_pFor ihB
  pIf := pstep_pIf ihB
  pBlk := pstep_pBlk ihB
  pBlkLoop := pstep_pBlkLoop ihB
  pFn := pstep_pFn ihB
  pBi := pstep_pBi ihB
  pCall := pstep_pCall ihB
  pList := pstep_pList ihB
  pListLoop := pstep_pListLoop ihB
  pIdx := pstep_pIdx ihB
  pMap := pstep_pMap ihB
  pMapLoop := pstep_pMapLoop ihB
  pMac := pstep_pMac ihB

theorem allPres : ∀ n, AllPres s K n
  | 0 => allPres_zero
  | n + 1 => allPres_succ (allPres n)

end Grol.Parser

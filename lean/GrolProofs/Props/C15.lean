import Grol.Parser
import Grol.ParseSuite
import GrolProofs.StreamWF
/-
C15 — line mode ≡ file mode (parts 1 and 2; part 3, chunked evaluation, is not covered here: it
belongs to the evaluator/session component).

The statement is relative to a lexer (no lexer model in this component): `lexFile`/`lexLine` map a
source text to the token stream of the two lexer modes.  Parts 1 and 2 are FALSE of the code as it
stands; the witnesses below are kernel-evaluated facts about the parser model on the token streams
the REAL lexer produces (re-derived from the real code on every run by the known-finding replay of
the `parse15` suite).  Part 1 for programs outside the recorded class is proved in `Props/C15Sim.lean`
(`same_tree_partial`: a simulation between the two runs, which differ only in the end marker), at the
token-stream level; that line mode's lexer yields `asLine` of file mode's stream is left to the correspondence run.
-/
namespace Grol.C15
open Grol Grol.Wire Grol.Parser Grol.Generated Grol.Front

def result (s : TokStream) (fuel : Nat) : Option ParseResult :=
  match parseProgram s fuel with
  | .ok r => some r
  | _ => none

def valid (s : TokStream) (fuel : Nat) : Bool :=
  match result s fuel with
  | some r => r.errors == 0 && !r.cont
  | none => false

/-- part 1 at one source: file mode accepts ⇒ line mode gives the same tree, no error, no continuation -/
def SameTreeAt (lexFile lexLine : Bytes → TokStream) (fuel : Nat) (src : Bytes) : Prop :=
  valid (lexFile src) fuel = true →
    valid (lexLine src) fuel = true ∧
    (result (lexLine src) fuel).map (fun r => dumpProgram false false r.program) =
      (result (lexFile src) fuel).map (fun r => dumpProgram false false r.program)

/-- part 2 at one source and cut: the cut lies inside an open construct (`Front.cutKind`, the
decidable predicate the driver evaluates) ⇒ line mode on the prefix asks for more input, no error -/
def PrefixAt (lexFile lexLine : Bytes → TokStream) (fuel : Nat) (src : Bytes) (k : Nat) : Prop :=
  valid (lexFile src) fuel = true → (cutKind src (lexFile src).toks k).isSome = true →
    ∃ r, result (lexLine (src.take k)) fuel = some r ∧ r.cont = true ∧ r.errors = 0

def Statement (lexFile lexLine : Bytes → TokStream) : Prop :=
  ∀ src, ∃ fuel, SameTreeAt lexFile lexLine fuel src ∧ ∀ k, PrefixAt lexFile lexLine fuel src k

/-! ### witnesses (token streams of the real lexer) -/

/-- real lexer, file mode, on the whole program `x "abc"` -/
def unclosedString.whole : TokStream :=
  { toks := [
    { type := .IDENT, lit := [120], posBefore := 0, posAfter := 1, hadWs := false, hadNl := false, lastNl := 0, num := .na },
    { type := .STRING, lit := [97, 98, 99], posBefore := 1, posAfter := 7, hadWs := true, hadNl := false, lastNl := 0, num := .na },
    { type := .EOF, lit := [], posBefore := 7, posAfter := 8, hadWs := false, hadNl := false, lastNl := 0, num := .na } ],
    eof := { type := .EOF, lit := [], posBefore := 8, posAfter := 9, hadWs := false, hadNl := false, lastNl := 0, num := .na }, inputLen := 7 }

/-- real lexer, file mode, on `x "abc` -/
def unclosedString.file : TokStream :=
  { toks := [
    { type := .IDENT, lit := [120], posBefore := 0, posAfter := 1, hadWs := false, hadNl := false, lastNl := 0, num := .na },
    { type := .EOF, lit := [], posBefore := 1, posAfter := 7, hadWs := true, hadNl := false, lastNl := 0, num := .na } ],
    eof := { type := .EOF, lit := [], posBefore := 7, posAfter := 8, hadWs := false, hadNl := false, lastNl := 0, num := .na }, inputLen := 6 }

/-- real lexer, line mode, on `x "abc` -/
def unclosedString.line : TokStream :=
  { toks := [
    { type := .IDENT, lit := [120], posBefore := 0, posAfter := 1, hadWs := false, hadNl := false, lastNl := 0, num := .na },
    { type := .EOL, lit := [], posBefore := 1, posAfter := 7, hadWs := true, hadNl := false, lastNl := 0, num := .na } ],
    eof := { type := .EOL, lit := [], posBefore := 7, posAfter := 8, hadWs := false, hadNl := false, lastNl := 0, num := .na }, inputLen := 6 }

/-- real lexer, file mode, on the whole program `[() => 1]` -/
def emptyParens.whole : TokStream :=
  { toks := [
    { type := .LBRACKET, lit := [91], posBefore := 0, posAfter := 1, hadWs := false, hadNl := false, lastNl := 0, num := .na },
    { type := .LPAREN, lit := [40], posBefore := 1, posAfter := 2, hadWs := false, hadNl := false, lastNl := 0, num := .na },
    { type := .RPAREN, lit := [41], posBefore := 2, posAfter := 3, hadWs := false, hadNl := false, lastNl := 0, num := .na },
    { type := .LAMBDA, lit := [61, 62], posBefore := 3, posAfter := 6, hadWs := true, hadNl := false, lastNl := 0, num := .na },
    { type := .INT, lit := [49], posBefore := 6, posAfter := 8, hadWs := true, hadNl := false, lastNl := 0, num := .int },
    { type := .RBRACKET, lit := [93], posBefore := 8, posAfter := 9, hadWs := false, hadNl := false, lastNl := 0, num := .na },
    { type := .EOF, lit := [], posBefore := 9, posAfter := 10, hadWs := false, hadNl := false, lastNl := 0, num := .na } ],
    eof := { type := .EOF, lit := [], posBefore := 10, posAfter := 11, hadWs := false, hadNl := false, lastNl := 0, num := .na }, inputLen := 9 }

/-- real lexer, file mode, on `[()` -/
def emptyParens.file : TokStream :=
  { toks := [
    { type := .LBRACKET, lit := [91], posBefore := 0, posAfter := 1, hadWs := false, hadNl := false, lastNl := 0, num := .na },
    { type := .LPAREN, lit := [40], posBefore := 1, posAfter := 2, hadWs := false, hadNl := false, lastNl := 0, num := .na },
    { type := .RPAREN, lit := [41], posBefore := 2, posAfter := 3, hadWs := false, hadNl := false, lastNl := 0, num := .na },
    { type := .EOF, lit := [], posBefore := 3, posAfter := 4, hadWs := false, hadNl := false, lastNl := 0, num := .na } ],
    eof := { type := .EOF, lit := [], posBefore := 4, posAfter := 5, hadWs := false, hadNl := false, lastNl := 0, num := .na }, inputLen := 3 }

/-- real lexer, line mode, on `[()` -/
def emptyParens.line : TokStream :=
  { toks := [
    { type := .LBRACKET, lit := [91], posBefore := 0, posAfter := 1, hadWs := false, hadNl := false, lastNl := 0, num := .na },
    { type := .LPAREN, lit := [40], posBefore := 1, posAfter := 2, hadWs := false, hadNl := false, lastNl := 0, num := .na },
    { type := .RPAREN, lit := [41], posBefore := 2, posAfter := 3, hadWs := false, hadNl := false, lastNl := 0, num := .na },
    { type := .EOL, lit := [], posBefore := 3, posAfter := 4, hadWs := false, hadNl := false, lastNl := 0, num := .na } ],
    eof := { type := .EOL, lit := [], posBefore := 4, posAfter := 5, hadWs := false, hadNl := false, lastNl := 0, num := .na }, inputLen := 3 }

/-- real lexer, file mode, on the whole program `/*/ x */` -/
def fakeComment.whole : TokStream :=
  { toks := [
    { type := .BLOCKCOMMENT, lit := [47, 42, 47, 32, 120, 32, 42, 47], posBefore := 0, posAfter := 8, hadWs := false, hadNl := false, lastNl := 0, num := .na },
    { type := .EOF, lit := [], posBefore := 8, posAfter := 9, hadWs := false, hadNl := false, lastNl := 0, num := .na } ],
    eof := { type := .EOF, lit := [], posBefore := 9, posAfter := 10, hadWs := false, hadNl := false, lastNl := 0, num := .na }, inputLen := 8 }

/-- real lexer, file mode, on `/*/` -/
def fakeComment.file : TokStream :=
  { toks := [
    { type := .BLOCKCOMMENT, lit := [47, 42, 47], posBefore := 0, posAfter := 3, hadWs := false, hadNl := false, lastNl := 0, num := .na },
    { type := .EOF, lit := [], posBefore := 3, posAfter := 4, hadWs := false, hadNl := false, lastNl := 0, num := .na } ],
    eof := { type := .EOF, lit := [], posBefore := 4, posAfter := 5, hadWs := false, hadNl := false, lastNl := 0, num := .na }, inputLen := 3 }

/-- real lexer, line mode, on `/*/` -/
def fakeComment.line : TokStream :=
  { toks := [
    { type := .BLOCKCOMMENT, lit := [47, 42, 47], posBefore := 0, posAfter := 3, hadWs := false, hadNl := false, lastNl := 0, num := .na },
    { type := .EOL, lit := [], posBefore := 3, posAfter := 4, hadWs := false, hadNl := false, lastNl := 0, num := .na } ],
    eof := { type := .EOL, lit := [], posBefore := 4, posAfter := 5, hadWs := false, hadNl := false, lastNl := 0, num := .na }, inputLen := 3 }

/-- real lexer, file mode, on `func(){` -/
def openBlock.file : TokStream :=
  { toks := [
    { type := .FUNC, lit := [102, 117, 110, 99], posBefore := 0, posAfter := 4, hadWs := false, hadNl := false, lastNl := 0, num := .na },
    { type := .LPAREN, lit := [40], posBefore := 4, posAfter := 5, hadWs := false, hadNl := false, lastNl := 0, num := .na },
    { type := .RPAREN, lit := [41], posBefore := 5, posAfter := 6, hadWs := false, hadNl := false, lastNl := 0, num := .na },
    { type := .LBRACE, lit := [123], posBefore := 6, posAfter := 7, hadWs := false, hadNl := false, lastNl := 0, num := .na },
    { type := .EOF, lit := [], posBefore := 7, posAfter := 8, hadWs := false, hadNl := false, lastNl := 0, num := .na } ],
    eof := { type := .EOF, lit := [], posBefore := 8, posAfter := 9, hadWs := false, hadNl := false, lastNl := 0, num := .na }, inputLen := 7 }

/-- real lexer, line mode, on `func(){` -/
def openBlock.line : TokStream :=
  { toks := [
    { type := .FUNC, lit := [102, 117, 110, 99], posBefore := 0, posAfter := 4, hadWs := false, hadNl := false, lastNl := 0, num := .na },
    { type := .LPAREN, lit := [40], posBefore := 4, posAfter := 5, hadWs := false, hadNl := false, lastNl := 0, num := .na },
    { type := .RPAREN, lit := [41], posBefore := 5, posAfter := 6, hadWs := false, hadNl := false, lastNl := 0, num := .na },
    { type := .LBRACE, lit := [123], posBefore := 6, posAfter := 7, hadWs := false, hadNl := false, lastNl := 0, num := .na },
    { type := .EOL, lit := [], posBefore := 7, posAfter := 8, hadWs := false, hadNl := false, lastNl := 0, num := .na } ],
    eof := { type := .EOL, lit := [], posBefore := 8, posAfter := 9, hadWs := false, hadNl := false, lastNl := 0, num := .na }, inputLen := 7 }

/-- `x "abc"` is valid; on its prefix `x "abc` (cut just before the closing quote) line mode returns
the one-statement program `x`: no continuation — the unclosed string is silently dropped -/
theorem witness_unclosed_string_after_statement :
    valid unclosedString.whole 40 = true ∧ cutKind [120, 32, 34, 97, 98, 99, 34] unclosedString.whole.toks 6 = some "in-string"
    ∧ (result unclosedString.line 40).map (fun r => (r.errors, r.cont, r.program.length)) = some (0, false, 1) := by
  decide

/-- (was a refutation witness; repaired by the parser fix "line mode asks for more input after () at the end of a
line") `[() => 1]` is valid; on its prefix `[()` line mode now asks for more input and reports no error -/
theorem fixed_empty_lambda_parameter_list :
    valid emptyParens.whole 40 = true ∧ (cutKind [91, 40, 41, 32, 61, 62, 32, 49, 93] emptyParens.whole.toks 3).isSome = true
    ∧ (result emptyParens.line 40).map (fun r => (r.errors, r.cont)) = some (0, true) := by
  decide

/-- (was a refutation witness; repaired by the parser fix "the unterminated block comment /*/ is not taken for a
closed one") `/*/ x */` is valid; on its prefix `/*/`, an unclosed block comment whose text ends in `*/`, line mode
now asks for more input and reports no error -/
theorem fixed_unclosed_comment_ending_in_star_slash :
    valid fakeComment.whole 40 = true ∧ cutKind [47, 42, 47, 32, 120, 32, 42, 47] fakeComment.whole.toks 3 = some "in-comment"
    ∧ (result fakeComment.line 40).map (fun r => (r.errors, r.cont)) = some (0, true) := by
  decide

/-- part 1: file mode accepts `func(){` (block still open at the end of the input) without any error,
line mode asks for more input -/
theorem witness_file_mode_accepts_unclosed_block :
    valid openBlock.file 40 = true ∧ (result openBlock.line 40).map (fun r => (r.errors, r.cont)) = some (0, true) := by
  decide

example : StreamWF openBlock.line := streamWF_of_b (by decide)

end Grol.C15

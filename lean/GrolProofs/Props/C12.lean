import GrolProofs.CmpModel
/-
C12 — ordering and equality are coherent and total.

Statements about the model `Grol.Obj.cmp / equals / opLt … / minLoop` of object.go `Cmp`, `Equals`,
eval.go `evalInfixExpression` and the `min`/`max` extensions (tied to /repo by the `cmp`
correspondence suite).  Quantifier: all data values `a b c` (`isData`: any nesting of nil, booleans,
int64, every float64 bit pattern, strings, errors, functions, extensions, quotes, registers, arrays
and maps; excluded are RETURN and MACRO objects, which a program cannot hold and on which `Cmp`
panics by design).
-/
namespace Grol.Obj
open Grol.Ord

theorem typeEqual_comm (x y : Nat) : typeEqual x y = typeEqual y x := by
  rw [Bool.eq_iff_iff]
  simp only [typeEqual, isIntType, Bool.or_eq_true, Bool.and_eq_true, beq_iff_eq]
  omega

section
variable (a b c : Obj) (ha : isData a = true) (hb : isData b = true) (hc : isData c = true)
include ha hb

/-- comparing two values never panics and yields −1, 0 or 1 -/
theorem C12.no_panic : ∃ r, cmp a b = .ok r ∧ (r = -1 ∨ r = 0 ∨ r = 1) :=
  ⟨cmpI a b, cmp_eq a b ha hb, (cmpI_PW a).sign b⟩

/-- `cmp b a = − cmp a b` (antisymmetric up to equivalence) -/
theorem C12.antisymm : ∃ r, cmp a b = .ok r ∧ cmp b a = .ok (-r) :=
  ⟨cmpI a b, cmp_eq a b ha hb, by rw [cmp_eq b a hb ha, (cmpI_PW a).anti b]⟩

/-- the order is total -/
theorem C12.total : opLe a b = .ok true ∨ opLe b a = .ok true := by
  simp only [opLe, cmp_eq a b ha hb, cmp_eq b a hb ha, Outcome.map]
  have := total' cmpI_PW a b
  rcases this with h | h
  · left; simp [h]
  · right; simp [h]

/-- the four comparison operators are the three-way comparison and are mutually consistent:
`a<b ⇔ b>a`, `a<=b ⇔ b>=a`, `a<=b ⇔ ¬ a>b`, `a>=b ⇔ ¬ a<b`, `a!=b ⇔ ¬ a==b`; none panics -/
theorem C12.operators :
    ∃ lt le gt ge eq : Bool,
      opLt a b = .ok lt ∧ opLe a b = .ok le ∧ opGt a b = .ok gt ∧ opGe a b = .ok ge ∧ opEq a b = .ok eq
      ∧ opNe a b = .ok (!eq) ∧ opGt b a = .ok lt ∧ opGe b a = .ok le ∧ opLt b a = .ok gt ∧ opLe b a = .ok ge
      ∧ opEq b a = .ok eq
      ∧ le = !gt ∧ ge = !lt ∧ (eq = true → le = true ∧ ge = true) ∧ (lt = true → le = true) := by
  have hs := (cmpI_PW a).sign b
  have hanti := (cmpI_PW a).anti b
  have hte : typeEqual b.typ a.typ = typeEqual a.typ b.typ := typeEqual_comm _ _
  simp only [opLt, opLe, opGt, opGe, opEq, opNe, equals, cmp_eq a b ha hb, cmp_eq b a hb ha, Outcome.map, hanti, hte]
  cases hT : typeEqual a.typ b.typ <;> rcases hs with h | h | h <;> simp [h]

/-- `==` implies order-equivalence -/
theorem C12.equals_cmp (h : equals a b = .ok true) : cmp a b = .ok 0 := by
  simp only [equals, cmp_eq a b ha hb, Outcome.map] at h
  split at h
  · cases h
  · rw [cmp_eq a b ha hb]; simpa using h

/-- `==` is symmetric -/
theorem C12.equals_symm : equals a b = equals b a := by
  have hanti := (cmpI_PW a).anti b
  have hte : typeEqual b.typ a.typ = typeEqual a.typ b.typ := typeEqual_comm _ _
  simp only [equals, cmp_eq a b ha hb, cmp_eq b a hb ha, Outcome.map, hanti, hte]
  split
  · rfl
  · congr 1; rw [Bool.eq_iff_iff]; simp only [beq_iff_eq]; omega

include hc

/-- `<=` is transitive -/
theorem C12.trans (h1 : opLe a b = .ok true) (h2 : opLe b c = .ok true) : opLe a c = .ok true := by
  simp only [opLe, cmp_eq a b ha hb, cmp_eq b c hb hc, cmp_eq a c ha hc, Outcome.map, Outcome.ok.injEq, decide_eq_true_eq] at *
  exact le_trans' cmpI_PW a b c h1 h2

/-- `<` is transitive -/
theorem C12.lt_trans (h1 : opLt a b = .ok true) (h2 : opLt b c = .ok true) : opLt a c = .ok true := by
  simp only [opLt, cmp_eq a b ha hb, cmp_eq b c hb hc, cmp_eq a c ha hc, Outcome.map, Outcome.ok.injEq, beq_iff_eq] at *
  exact (cmpI_PW a).lt b c h1 h2

/-- order-equivalent values are interchangeable in every comparison -/
theorem C12.cmp_congr (h : cmp a b = .ok 0) : cmp a c = cmp b c ∧ cmp c a = cmp c b := by
  rw [cmp_eq a b ha hb] at h
  injection h with h
  rw [cmp_eq a c ha hc, cmp_eq b c hb hc, cmp_eq c a hc ha, cmp_eq c b hc hb, (cmpI_PW a).eqL b c h, (cmpI_PW c).eqR a b h]
  exact ⟨rfl, rfl⟩

/-- `==` is transitive -/
theorem C12.equals_trans (h1 : equals a b = .ok true) (h2 : equals b c = .ok true) : equals a c = .ok true := by
  have e1 := C12.equals_cmp a b ha hb h1
  have e2 := C12.equals_cmp b c hb hc h2
  have e3 : cmp a c = .ok 0 := by rw [(C12.cmp_congr a b c ha hb hc e1).1]; exact e2
  simp only [equals, Outcome.map] at h1 h2 ⊢
  have t1 : typeEqual a.typ b.typ = true := by
    cases h : typeEqual a.typ b.typ
    · simp [h] at h1
    · rfl
  have t2 : typeEqual b.typ c.typ = true := by
    cases h : typeEqual b.typ c.typ
    · simp [h] at h2
    · rfl
  have t3 : typeEqual a.typ c.typ = true := by
    simp only [typeEqual, isIntType, Bool.or_eq_true, Bool.and_eq_true, beq_iff_eq] at t1 t2 ⊢
    omega
  simp [t3, e3]

end

/-- reflexive; a value equals (`==`) a copy of itself -/
theorem C12.refl (a : Obj) (ha : isData a = true) : cmp a a = .ok 0 ∧ equals a a = .ok true := by
  have h : cmp a a = .ok 0 := by rw [cmp_eq a a ha ha, (cmpI_PW a).refl]
  refine ⟨h, ?_⟩
  simp [equals, typeEqual, h, Outcome.map]

/-- `min(a, b)` / `max(a, b)` (b not expanded) return one of the operands, which is `<=` / `>=` both -/
theorem C12.min_max (a b : Obj) (ha : isData a = true) (hb : isData b = true) :
    (∃ m, minLoop a [b] = .ok m ∧ (m = a ∨ m = b) ∧ opLe m a = .ok true ∧ opLe m b = .ok true)
    ∧ (∃ m, maxLoop a [b] = .ok m ∧ (m = a ∨ m = b) ∧ opGe m a = .ok true ∧ opGe m b = .ok true) := by
  have hs := (cmpI_PW a).sign b
  have hanti := (cmpI_PW a).anti b
  have raa := (cmpI_PW a).refl
  have rbb := (cmpI_PW b).refl
  constructor
  · simp only [minLoop, cmp_eq b a hb ha, hanti]
    by_cases h : -cmpI a b < 0
    · rw [if_pos h]
      refine ⟨b, rfl, Or.inr rfl, ?_, ?_⟩ <;> simp only [opLe, cmp_eq b a hb ha, cmp_eq b b hb hb, Outcome.map, hanti, rbb] <;> simp <;> omega
    · rw [if_neg h]
      refine ⟨a, rfl, Or.inl rfl, ?_, ?_⟩ <;> simp only [opLe, cmp_eq a a ha ha, cmp_eq a b ha hb, Outcome.map, raa] <;> simp <;> omega
  · simp only [maxLoop, cmp_eq b a hb ha, hanti]
    by_cases h : -cmpI a b > 0
    · rw [if_pos h]
      refine ⟨b, rfl, Or.inr rfl, ?_, ?_⟩ <;> simp only [opGe, cmp_eq b a hb ha, cmp_eq b b hb hb, Outcome.map, hanti, rbb] <;> simp <;> omega
    · rw [if_neg h]
      refine ⟨a, rfl, Or.inl rfl, ?_, ?_⟩ <;> simp only [opGe, cmp_eq a a ha ha, cmp_eq a b ha hb, Outcome.map, raa] <;> simp <;> omega

/-! ### the defect of the unfixed code (kept as a theorem about the legacy conversion), and non-vacuity -/

/-- `cmp.Compare(float64(i), f)`, the unfixed comparison, is not transitive:
x = 2^53+1, y = 2^53 (float), z = 2^53: x ≤ y, y ≤ z but x > z -/
theorem C12.legacy_int_float_not_transitive :
    cmpIntFloatLegacy 9007199254740993 ⟨0x4340000000000000⟩ ≤ 0
    ∧ -(cmpIntFloatLegacy 9007199254740992 ⟨0x4340000000000000⟩) ≤ 0
    ∧ cmpInt 9007199254740993 9007199254740992 = 1 := by decide +kernel

/-- with the exact comparison the same three values are ordered consistently -/
example : cmp (int 9007199254740993) (float ⟨0x4340000000000000⟩) = .ok 1
    ∧ cmp (float ⟨0x4340000000000000⟩) (int 9007199254740992) = .ok 0
    ∧ cmp (int 9007199254740993) (int 9007199254740992) = .ok 1 := by decide +kernel

example : isData (map [(arr [int 1, float ⟨0x7ff8000000000001⟩], quote [1]), (str [0xff], reg 5)]) = true := by decide +kernel
example : cmp (quote [113]) (quote [113]) = .ok 0 := by decide +kernel
example : cmp (arr [float ⟨0⟩, nil]) (arr [float ⟨0x8000000000000000⟩, nil]) = .ok 0 := by decide +kernel
example : equals (int 1) (float ⟨0x3ff0000000000000⟩) = .ok false ∧ cmp (int 1) (float ⟨0x3ff0000000000000⟩) = .ok 0 := by
  decide +kernel
/-- the excluded values really panic in the model, as in the code -/
example : cmp (mac []) (mac []) = .panic "Unexpected type in Cmp: MACRO" := by decide +kernel

end Grol.Obj

import GrolProofs.EvalSafeEnv
/-
C04 — automatic memoization is unobservable.

Full statement: the evaluator model run with `cacheOn := true` and with `cacheOn := false`
produces the same outputs, results and errors on every session (`C04.Statement`).  It is NOT
proved (and is false of the unchanged code for the recorded finding classes, see DESIGN.md);
what is proved here are the facts about the cache itself that the property's second sentence
names: with the switch off nothing is looked up or stored; a lookup returns exactly what was
stored for an equal key (`set_get`); a hit replays the stored output and returns the stored result
without touching anything else (`replay`); an entry is stored only when the callee frame's miss
counter did not move and the result is not an error (`store_condition`).
-/
namespace Grol.E

def sessionObs (cfg : Cfg) (progs : List Node) : List (Except String String) :=
  (progs.foldl (fun (acc : St × List (Except String String)) p =>
      let (st', r) := runInput acc.1 p
      (st', acc.2 ++ [r.map fun o => ((o.render.splitOn ";g=").headD "")])) (initState cfg, [])).2

/-- the full property -/
def C04.Statement : Prop :=
  ∀ (progs : List Node), sessionObs { cacheOn := true } progs = sessionObs { cacheOn := false } progs

/-- with the cache switched off every lookup misses … -/
theorem C04.off_get (key : String) (args : List Obj) (st : St) (h : st.cfg.cacheOn = false) :
    outcome (cacheGet key args) st = .ok none := by
  unfold cacheGet outcome
  simp [h, bind, ExceptT.bind, ExceptT.mk, ExceptT.bindCont, StateT.bind, get, getThe, MonadStateOf.get,
    liftM, monadLift, MonadLift.monadLift, ExceptT.lift, StateT.get, ExceptT.run, pure, ExceptT.pure, StateT.pure, Functor.map, StateT.map]
  rfl

/-- … and every store leaves the state unchanged -/
theorem C04.off_set (key : String) (args : List Obj) (res : Obj) (out : Grol.Wire.Bytes) (st : St)
    (h : st.cfg.cacheOn = false) : stateAfter (cacheSet key args res out) st = st := by
  unfold cacheSet stateAfter
  simp [h, bind, ExceptT.bind, ExceptT.mk, ExceptT.bindCont, StateT.bind, get, getThe, MonadStateOf.get,
    liftM, monadLift, MonadLift.monadLift, ExceptT.lift, StateT.get, ExceptT.run, pure, ExceptT.pure, StateT.pure, Functor.map, StateT.map]
  rfl

/-! ### facts about `applyFunction` read off its code -/

/-- a lookup never changes the state and never fails -/
theorem C04.get_pure (key : String) (args : List Obj) (st : St) :
    ∃ r, runM (cacheGet key args) st = (.ok r, st) := by
  unfold cacheGet
  rw [runM_bind, runM_get]
  dsimp only
  repeat' split
  all_goals exact ⟨_, rfl⟩

/-- the state after replaying a stored output: appended to the current writer -/
def replayState (st : St) (output : Grol.Wire.Bytes) : St :=
  if output.isEmpty then st else
    match st.outs with
    | [] => { st with outs := [[output]] }
    | o :: rest => { st with outs := (output :: o) :: rest }

/-- (a) replay: on a cache hit `applyFunction` returns the stored result, and the state changes
only by appending the stored output to the current writer (nothing at all for an empty output) -/
theorem C04.replay (fuel : Nat) (f : FuncVal) (args : List Obj) (st : St) (v : Obj) (output : Grol.Wire.Bytes)
    (h : outcome (cacheGet f.key args) st = .ok (some (v, output))) :
    outcome (applyFunction (fuel + 1) (.func f) args) st = .ok v ∧
    stateAfter (applyFunction (fuel + 1) (.func f) args) st = replayState st output := by
  obtain ⟨r, hr⟩ := C04.get_pure f.key args st
  rw [outcome_eq, hr] at h
  cases h
  rw [outcome_eq, stateAfter_eq]
  unfold applyFunction
  rw [runM_bind, hr]
  unfold replayState
  dsimp only
  by_cases ho : output.isEmpty = true
  · simp only [ho, Bool.not_true, Bool.false_eq_true, if_false, if_true]
    exact ⟨rfl, rfl⟩
  · simp only [ho, Bool.not_false, if_true]
    rw [runM_bind]
    unfold writeOut
    rw [runM_modify]
    exact ⟨rfl, rfl⟩

theorem cache_writeOut (b : Grol.Wire.Bytes) (st : St) : (runM (writeOut b) st).2.cache = st.cache ∧
    ∃ s', runM (writeOut b) st = (.ok (), s') := by
  unfold writeOut
  rw [runM_modify]
  refine ⟨?_, _, rfl⟩
  dsimp only
  split <;> rfl

theorem cache_triggerNoCache (e : Nat) (st : St) : (runM (triggerNoCache e) st).2.cache = st.cache := by
  unfold triggerNoCache modifyFrame
  rw [runM_bind]
  cases hfe : st.frames[e]? with
  | some f =>
    rw [runM_getFrame hfe]
    unfold setFrame
    dsimp only
    rw [runM_modify]
  | none =>
    have : runM (getFrame e) st = (.error (.goPanic "nil environment"), st) := by
      unfold getFrame
      rw [runM_bind, runM_get]
      simp only [hfe]
      rfl
    rw [this]

/-- (b) store condition: the end of `applyFunction` (`finishCall`, run after the body with the
callee frame's miss counter `before`/`after` the body) leaves the cache as it was whenever the
counter moved, the result is an error, or the result is or contains a function (a closure over the call's own
environment): an entry is stored only for a pure, successful call returning plain data -/
theorem C04.store_condition (f : FuncVal) (args : List Obj) (curState before after : Nat) (cantCache : Bool)
    (res : Obj) (output : Grol.Wire.Bytes) (st : St)
    (h : (stateAfter (finishCall f args curState before after cantCache res output) st).cache ≠ st.cache) :
    after = before ∧ res.isError = false ∧ holdsFunc res = false := by
  refine Classical.byContradiction (fun hn => h ?_)
  rw [stateAfter_eq]
  unfold finishCall
  dsimp only
  have key : ∀ s : St, s.cache = st.cache →
      (runM (if (after != before) = true then
          (triggerNoCache curState >>= fun _ => pure res)
        else if res.isError = true then pure res
        else if holdsFunc res = true then pure res else cacheSet f.key args res output >>= fun _ => pure res) s).2.cache
        = st.cache := by
    intro s hs
    by_cases hab : after = before
    · subst hab
      simp only [bne_self_eq_false, Bool.false_eq_true, if_false]
      cases hr : res.isError with
      | true => simp only [if_true]; rw [runM_pure]; exact hs
      | false =>
        cases hf : holdsFunc res with
        | true => simp only [Bool.false_eq_true, if_false, if_true]; rw [runM_pure]; exact hs
        | false => exact (hn ⟨rfl, hr, hf⟩).elim
    · have : (after != before) = true := by simpa using hab
      simp only [this, if_true]
      rw [runM_bind]
      have h1 := cache_triggerNoCache curState s
      generalize runM (triggerNoCache curState) s = p at h1
      obtain ⟨r, s'⟩ := p
      cases r with
      | ok _ => dsimp only at h1 ⊢; rw [runM_pure]; dsimp only; rw [h1, hs]
      | error _ => dsimp only at h1 ⊢; rw [h1, hs]
  split
  · rw [runM_bind]
    obtain ⟨hc, s', hs'⟩ := cache_writeOut output st
    rw [hs'] at hc ⊢
    exact key s' hc
  · exact key st rfl

/-- (c) a lookup with key-equal hashable arguments, right after a store, returns the stored pair -/
theorem C04.set_get (key : String) (args args' : List Obj) (res : Obj) (out : Grol.Wire.Bytes) (st : St)
    (hon : st.cfg.cacheOn = true) (hlen : args.length ≤ st.cfg.maxArgs) (hh : hashableList st.cfg args = true)
    (hlen' : args'.length ≤ st.cfg.maxArgs) (hh' : hashableList st.cfg args' = true)
    (heq : keyEqList args args' = true) :
    outcome (cacheGet key args') (stateAfter (cacheSet key args res out) st) = .ok (some (res, out)) := by
  have hset : stateAfter (cacheSet key args res out) st =
      { st with cache := { key := key, args := args, result := res, output := out } ::
        st.cache.filter (fun c => !(c.key == key && keyEqList c.args args)) } := by
    rw [stateAfter_eq]
    unfold cacheSet
    rw [runM_bind, runM_get]
    have h1 : ¬ (args.length > st.cfg.maxArgs) := by omega
    simp only [hon, Bool.not_true, Bool.false_eq_true, if_false, h1, hh]
    rfl
  rw [hset, outcome_eq]
  unfold cacheGet
  rw [runM_bind, runM_get]
  have h1 : ¬ (args'.length > st.cfg.maxArgs) := by omega
  simp only [hon, Bool.not_true, Bool.false_eq_true, if_false, h1, hh', List.find?_cons, beq_self_eq_true, heq,
    Bool.and_self]
  rfl

/-- non-vacuity of (c): a concrete store followed by a lookup with an equal key -/
example : outcome (cacheGet "k" [.int 1, .str [97]])
    (stateAfter (cacheSet "k" [.int 1, .str [97]] (.int 2) [104, 105]) (initState {})) = .ok (some (.int 2, [104, 105])) :=
  C04.set_get "k" [.int 1, .str [97]] [.int 1, .str [97]] (.int 2) [104, 105] (initState {}) rfl (by decide) rfl (by decide) rfl
    (by decide)

end Grol.E

import GrolProofs.EvalSafeEnv
import GrolProofs.MemoFootprint
import GrolProofs.MemoKey
/-
C04 — automatic memoization is unobservable.

Full statement: the evaluator model run with `cacheOn := true` and with `cacheOn := false`
produces the same outputs, results and errors on every session (`C04.Statement`).  It is NOT
proved (and is false of the unchanged code for the recorded finding classes, see DESIGN.md);
what is proved here are the facts about the cache itself that the property's second sentence
names: with the switch off nothing is looked up or stored; a lookup returns exactly what was
stored for an equal key (`set_get`); a hit replays the stored output and returns the stored result
without touching anything else (`replay`); an entry is stored only when the callee frame's miss
counter did not move and the result is not an error (`store_condition`).

The footprint lemma (A) is proved (`GrolProofs/MemoMono.lean`, `MemoFootprint.lean`, restated at the
end of this file): miss counters never decrease (`C04.miss_monotone`), so "after = before" is
inherited by every step of the call (`C04.quiet_inherited`, with `During` = "is a step of");
for the individual steps it means: no completed `del` / `TriggerNoCache` on the frame
(`C04.no_del_in_quiet_call`), every `makeRef` reached only a binding of a depth-0 frame that is function-valued or
has an all-caps name (`C04.quiet_makeRef`; since repo fix 103fa2c a function held by a variable of an enclosing call is
a miss: `mk=func(g){func(x){g(x)}}; c1=mk(inc); c2=mk(dbl); c1(3), c2(3)` used to print 4 4), every nested call was a hit, failed to bind
its arguments, or was itself miss-free on its own frame (`C04.purity_footprint`).

every `Get` returned nothing, the frame's own function, a value of the frame's own store or a
reference to a trusted binding (`C04.quiet_get`); no function-valued binding was overwritten or
deleted (`C04.no_function_write_in_quiet_call`).

The last clause is the repair of a defect the proof of (A) exposed: a miss-free `makeRef` hands out a
reference to any function-valued outer binding, and `setNoChecks`/`update` used to write through it
without a miss, so `g=func(){1}; f=func(x){g=func(){2}; x}; f(1); g=func(){3}; f(1); g()` gave 3
with the cache and 2 without (known_findings.json, class
`cached-call-skips-write-to-function-valued-outer-binding`, fixed by grol 0f2eeb4: `functionChanged`
counts a miss on the writing environment and empties the cache).

(B1) determinism of miss-free calls IS proved, in Props/C04Det.lean (`C04.quiet_call_deterministic`,
`C04.quiet_call_depends_only_on_trusted`, `C04.constant_param_is_miss`; simulation in GrolProofs/RenQ*.lean).

NOT proved: (B) a cache hit equals an evaluation and (C) the session-level equivalence.  Both are
relational statements about two runs whose heaps of frames differ (a hit allocates no frame, so
frame indices in closures and references diverge): they need a simulation relation up to a
renaming of frame indices through all 19 mutually recursive functions.  A `Safe` fragment for (C)
has to exclude the recorded classes (closure results, float keys), `deadlineAfter`, and runs that
stop on fuel or the depth guard (a hit shortens the recursion).
-/
namespace Grol.E

def sessionObs (cfg : Cfg) (progs : List Node) : List (Except String String) :=
  (progs.foldl (fun (acc : St × List (Except String String)) p =>
      let (st', r) := runInput acc.1 p
      (st', acc.2 ++ [r.map fun o => ((o.render.splitOn ";g=").headD "")])) (initState cfg, [])).2

/-- the full property -/
def C04.Statement : Prop :=
  ∀ (progs : List Node), sessionObs { cacheOn := true } progs = sessionObs { cacheOn := false } progs

/-- with the cache switched off every lookup misses … -/
theorem C04.off_get (key : String) (args : List Obj) (st : St) (h : st.cfg.cacheOn = false) :
    outcome (cacheGet key args) st = .ok none := by
  unfold cacheGet outcome
  simp [h, bind, ExceptT.bind, ExceptT.mk, ExceptT.bindCont, StateT.bind, get, getThe, MonadStateOf.get,
    liftM, monadLift, MonadLift.monadLift, ExceptT.lift, StateT.get, ExceptT.run, pure, ExceptT.pure, StateT.pure, Functor.map, StateT.map]
  rfl

/-- … and every store leaves the state unchanged -/
theorem C04.off_set (key : String) (args : List Obj) (res : Obj) (out : Grol.Wire.Bytes) (st : St)
    (h : st.cfg.cacheOn = false) : stateAfter (cacheSet key args res out) st = st := by
  unfold cacheSet stateAfter
  simp [h, bind, ExceptT.bind, ExceptT.mk, ExceptT.bindCont, StateT.bind, get, getThe, MonadStateOf.get,
    liftM, monadLift, MonadLift.monadLift, ExceptT.lift, StateT.get, ExceptT.run, pure, ExceptT.pure, StateT.pure, Functor.map, StateT.map]
  rfl

/-! ### facts about `applyFunction` read off its code -/

/-- a lookup never changes the state and never fails -/
theorem C04.get_pure (key : String) (args : List Obj) (st : St) :
    ∃ r, runM (cacheGet key args) st = (.ok r, st) := by
  unfold cacheGet
  rw [runM_bind, runM_get]
  dsimp only
  repeat' split
  all_goals exact ⟨_, rfl⟩

/-- the state after replaying a stored output: appended to the current writer -/
def replayState (st : St) (output : Grol.Wire.Bytes) : St :=
  if output.isEmpty then st else
    match st.outs with
    | [] => { st with outs := [[output]] }
    | o :: rest => { st with outs := (output :: o) :: rest }

/-- (a) replay: on a cache hit (the cache is not skipped: not a recursive call from a frame holding a local function)
`applyFunction` returns the stored result, and the state changes
only by appending the stored output to the current writer (nothing at all for an empty output) -/
theorem C04.replay (fuel : Nat) (f : FuncVal) (args : List Obj) (st : St) (v : Obj) (output : Grol.Wire.Bytes)
    (cf : Frame) (hcf : st.frames[st.cur]? = some cf)
    (hns : (cf.localFunc && sameFunction cf f) = false)
    (h : outcome (cacheGet f.key args) st = .ok (some (v, output))) :
    outcome (applyFunction (fuel + 1) (.func f) args) st = .ok v ∧
    stateAfter (applyFunction (fuel + 1) (.func f) args) st = replayState st output := by
  obtain ⟨r, hr⟩ := C04.get_pure f.key args st
  rw [outcome_eq, hr] at h
  cases h
  rw [outcome_eq, stateAfter_eq]
  unfold applyFunction
  have hce : runM curEnv st = (.ok st.cur, st) := rfl
  rw [runM_bind, hce]
  dsimp only
  rw [runM_bind, runM_getFrame hcf]
  dsimp only
  simp only [hns, Bool.false_eq_true, if_false]
  rw [runM_bind, hr]
  unfold replayState
  dsimp only
  by_cases ho : output.isEmpty = true
  · simp only [ho, Bool.not_true, Bool.false_eq_true, if_false, if_true]
    exact ⟨rfl, rfl⟩
  · simp only [ho, Bool.not_false, if_true]
    rw [runM_bind]
    unfold writeOut
    rw [runM_modify]
    exact ⟨rfl, rfl⟩

theorem cache_writeOut (b : Grol.Wire.Bytes) (st : St) : (runM (writeOut b) st).2.cache = st.cache ∧
    ∃ s', runM (writeOut b) st = (.ok (), s') := by
  unfold writeOut
  rw [runM_modify]
  refine ⟨?_, _, rfl⟩
  dsimp only
  split <;> rfl

theorem cache_triggerNoCache (e : Nat) (st : St) : (runM (triggerNoCache e) st).2.cache = st.cache := by
  unfold triggerNoCache modifyFrame
  rw [runM_bind]
  cases hfe : st.frames[e]? with
  | some f =>
    rw [runM_getFrame hfe]
    unfold setFrame
    dsimp only
    rw [runM_modify]
  | none =>
    have : runM (getFrame e) st = (.error (.goPanic "nil environment"), st) := by
      unfold getFrame
      rw [runM_bind, runM_get]
      simp only [hfe]
      rfl
    rw [this]

/-- (b) store condition: the end of `applyFunction` (`finishCall`, run after the body with the
callee frame's miss counter `before`/`after` the body) leaves the cache as it was whenever the
counter moved, the result is an error, or the result is or contains a function (a closure over the call's own
environment): an entry is stored only for a pure, successful call returning plain data -/
theorem C04.store_condition (f : FuncVal) (args : List Obj) (curState before after : Nat) (cantCache : Bool)
    (res : Obj) (output : Grol.Wire.Bytes) (st : St)
    (h : (stateAfter (finishCall f args curState before after cantCache res output) st).cache ≠ st.cache) :
    after = before ∧ res.isError = false ∧ holdsFunc res = false := by
  refine Classical.byContradiction (fun hn => h ?_)
  rw [stateAfter_eq]
  unfold finishCall
  dsimp only
  have key : ∀ s : St, s.cache = st.cache →
      (runM (if (after != before) = true then
          (triggerNoCache curState >>= fun _ => pure res)
        else if res.isError = true then pure res
        else if holdsFunc res = true then pure res else cacheSet f.key args res output >>= fun _ => pure res) s).2.cache
        = st.cache := by
    intro s hs
    by_cases hab : after = before
    · subst hab
      simp only [bne_self_eq_false, Bool.false_eq_true, if_false]
      cases hr : res.isError with
      | true => simp only [if_true]; rw [runM_pure]; exact hs
      | false =>
        cases hf : holdsFunc res with
        | true => simp only [Bool.false_eq_true, if_false, if_true]; rw [runM_pure]; exact hs
        | false => exact (hn ⟨rfl, hr, hf⟩).elim
    · have : (after != before) = true := by simpa using hab
      simp only [this, if_true]
      rw [runM_bind]
      have h1 := cache_triggerNoCache curState s
      generalize runM (triggerNoCache curState) s = p at h1
      obtain ⟨r, s'⟩ := p
      cases r with
      | ok _ => dsimp only at h1 ⊢; rw [runM_pure]; dsimp only; rw [h1, hs]
      | error _ => dsimp only at h1 ⊢; rw [h1, hs]
  split
  · rw [runM_bind]
    obtain ⟨hc, s', hs'⟩ := cache_writeOut output st
    rw [hs'] at hc ⊢
    exact key s' hc
  · exact key st rfl

/-- (c) a lookup with key-equal hashable arguments, right after a store, returns the stored pair -/
theorem C04.set_get (key : String) (args args' : List Obj) (res : Obj) (out : Grol.Wire.Bytes) (st : St)
    (hon : st.cfg.cacheOn = true) (hlen : args.length ≤ st.cfg.maxArgs) (hh : hashableList st.cfg args = true)
    (hlen' : args'.length ≤ st.cfg.maxArgs) (hh' : hashableList st.cfg args' = true)
    (heq : keyEqList args args' = true) :
    outcome (cacheGet key args') (stateAfter (cacheSet key args res out) st) = .ok (some (res, out)) := by
  have hset : stateAfter (cacheSet key args res out) st =
      { st with cache := { key := key, args := args, result := res, output := out } ::
        st.cache.filter (fun c => !(c.key == key && keyEqList c.args args)) } := by
    rw [stateAfter_eq]
    unfold cacheSet
    rw [runM_bind, runM_get]
    have h1 : ¬ (args.length > st.cfg.maxArgs) := by omega
    simp only [hon, Bool.not_true, Bool.false_eq_true, if_false, h1, hh]
    rfl
  rw [hset, outcome_eq]
  unfold cacheGet
  rw [runM_bind, runM_get]
  have h1 : ¬ (args'.length > st.cfg.maxArgs) := by omega
  simp only [hon, Bool.not_true, Bool.false_eq_true, if_false, h1, hh', List.find?_cons, beq_self_eq_true, heq,
    Bool.and_self]
  rfl

/-- non-vacuity of (c): a concrete store followed by a lookup with an equal key -/
example : outcome (cacheGet "k" [.int 1, .str [97]])
    (stateAfter (cacheSet "k" [.int 1, .str [97]] (.int 2) [104, 105]) (initState {})) = .ok (some (.int 2, [104, 105])) :=
  C04.set_get "k" [.int 1, .str [97]] [.int 1, .str [97]] (.int 2) [104, 105] (initState {}) rfl (by decide) rfl (by decide) rfl
    (by decide)

/-! ### (A) the footprint of a call that is stored -/

/-- miss counters only grow and frames are only added, through any evaluation, whatever its outcome -/
theorem C04.miss_monotone (fuel : Nat) (node : Node) (st : St) : Grows st (stateAfter (eval fuel node) st) :=
  eval_grows fuel node st

/-- "after = before" on frame `e` is inherited by every step of the computation -/
theorem C04.quiet_inherited {α β : Type} {x : M α} {st : St} {y : M β} {s : St} {e : Nat}
    (hd : During x st y s) (hq : Quiet e x st) : Quiet e y s := quiet_during hd hq

/-- a computation that is miss-free on the current frame completed no `del` -/
theorem C04.no_del_in_quiet_call {α : Type} {x : M α} {st s : St} {fuel : Nat} {node : Node}
    (hd : During x st (evalDelete (fuel + 1) node) s) (hq : Quiet s.cur x st) (r : Obj) :
    outcome (evalDelete (fuel + 1) node) s ≠ .ok r := no_del_during hd hq r

/-- a miss-free `makeRef` found nothing or handed out a reference to a trusted binding: a function
value or an all-caps name, in a depth-0 frame -/
theorem C04.quiet_makeRef (orig : Nat) (name : String) (st : St) (r : Option Obj)
    (hok : outcome (makeRef orig name) st = .ok r) (hq : Quiet orig (makeRef orig name) st) :
    r = none ∨ ∃ re rn, r = some (.ref re rn) ∧ Trusted st name re rn :=
  makeRef_go_quiet orig name st.frames.size orig st r hok hq

/-- a miss-free `Get` returned nothing, the frame's own function, a value bound in the frame's own
store, or a reference to a trusted binding -/
theorem C04.quiet_get (e : Nat) (name : String) (st : St) (r : Option Obj)
    (hok : outcome (envGet e name) st = .ok r) (hq : Quiet e (envGet e name) st) : PureRead st e name r :=
  envGet_quiet e name st r hok hq

/-- no step of a computation that is miss-free on frame `w` overwrites or deletes a binding holding a
function on behalf of `w`: every overwrite/deletion of an existing binding (`update`, the reference
path of `SetNoChecks`, `Delete`) reports the old value to `functionChanged w`, and a completed
`functionChanged w (some f)` with `f` a function raises `w`'s counter -/
theorem C04.no_function_write_in_quiet_call {α : Type} {x : M α} {st s : St} {w : Nat} {o : Obj}
    (hd : During x st (functionChanged w (some o)) s) (hq : Quiet w x st) (ho : isFuncObj o = true) :
    outcome (functionChanged w (some o)) s ≠ .ok () := no_function_change_during hd hq ho

/-- the same, for the store step of an assignment whose target binding holds a function -/
theorem C04.no_function_assignment_in_quiet_call {α : Type} {x : M α} {st s : St} {w e : Nat} {name : String}
    {val : Obj} {fr : Frame} {o : Obj} (hd : During x st (envStoreAt w e name val) s) (hq : Quiet w x st)
    (hfr : s.frames[e]? = some fr) (hl : lookupStore fr.store name = some o) (ho : isFuncObj o = true) (r : Obj) :
    outcome (envStoreAt w e name val) s ≠ .ok r := no_function_write_during hd hq hfr hl ho r

/-- the footprint lemma for calls: a call that completes without moving its caller's miss counter
(in particular every nested call of a call that is stored) was a cache hit, failed while binding its
arguments, or evaluated its body without moving its own frame's miss counter -/
theorem C04.purity_footprint (fuel : Nat) (f : FuncVal) (args : List Obj) (st : St) (v : Obj)
    (hok : outcome (applyFunction (fuel + 1) (.func f) args) st = .ok v)
    (hq : Quiet st.cur (applyFunction (fuel + 1) (.func f) args) st) :
    (∃ out, outcome (cacheGet f.key args) st = .ok (some (v, out))) ∨
    (outcome (extendFunctionEnv f args) st = .ok (.error v)) ∨
    (∃ nenv, outcome (extendFunctionEnv f args) st = .ok (.ok nenv) ∧
      outcome (eval fuel f.body) (bodyState (stateAfter (extendFunctionEnv f args) st) nenv) = .ok v ∧
      Quiet nenv (eval fuel f.body) (bodyState (stateAfter (extendFunctionEnv f args) st) nenv)) :=
  applyFunction_quiet fuel f args st v hok hq

/-- the same with the binding of the parameters: the callee's counter is 0 after the body (the comparison is with
0, the counter of the new frame, not with its value after the binding: a miss made while binding a parameter — an
all-caps parameter name, `C04.constant_param_is_miss` in Props/C04Det.lean — counts) -/
theorem C04.purity_footprint_full (fuel : Nat) (f : FuncVal) (args : List Obj) (st : St) (v : Obj)
    (hok : outcome (applyFunction (fuel + 1) (.func f) args) st = .ok v)
    (hq : Quiet st.cur (applyFunction (fuel + 1) (.func f) args) st) :
    (∃ out, outcome (cacheGet f.key args) st = .ok (some (v, out))) ∨
    (outcome (extendFunctionEnv f args) st = .ok (.error v)) ∨
    (∃ nenv, outcome (extendFunctionEnv f args) st = .ok (.ok nenv) ∧
      outcome (eval fuel f.body) (bodyState (stateAfter (extendFunctionEnv f args) st) nenv) = .ok v ∧
      Quiet nenv (eval fuel f.body) (bodyState (stateAfter (extendFunctionEnv f args) st) nenv) ∧
      missOf (stateAfter (eval fuel f.body) (bodyState (stateAfter (extendFunctionEnv f args) st) nenv)) nenv = 0) :=
  applyFunction_quiet_full fuel f args st v hok hq

/-- an ingredient of (B): the key test of a lookup (`keyEqList`, Go map-key equality) is identity on
hashable argument lists without floats — floats are the only hashable values on which a hit can
serve a call with DIFFERENT arguments (`0.0` / `-0.0`, the recorded float-key class) -/
theorem C04.key_identity (cfg : Cfg) (args args' : List Obj) (hn : noFloatList args = true)
    (ha : hashableList cfg args = true) (hb : hashableList cfg args' = true)
    (h : keyEqList args args' = true) : args = args' := keyEqList_eq cfg args args' hn ha hb h

/-! ### non-vacuity: a memoized recursive function -/

def fibBody : Node :=
  .stmts [ .ifE (.inf "LTEQ" (.ident "n") (.int 1)) (.stmts [.ret (.ident "n")]) .none,
           .inf "PLUS" (.call (.ident "fib") [.inf "MINUS" (.ident "n") (.int 1)])
                       (.call (.ident "fib") [.inf "MINUS" (.ident "n") (.int 2)]) ]
def fibKey : String := "func fib(n){if n<=1{return n}fib(n-1)+fib(n-2)}"
/-- `func fib(n){ if n<=1 {return n}; fib(n-1)+fib(n-2) }` -/
def fibDef : Node := .fn (some "fib") ["n"] false false fibKey fibBody
def fibVal : FuncVal := ⟨some "fib", ["n"], false, false, fibKey, fibBody, 0⟩
/-- the state after the definition -/
def fibState : St := stateAfter (eval 10 fibDef) (initState {})

/-- `fib(6)` from the state after the definition: returns 8, does not move the caller's (root)
counter — the hypotheses of `C04.purity_footprint` — allocates 7 frames for 7 distinct arguments
(25 calls without the cache) and leaves 7 cache entries: every level was stored -/
example : (match run (applyFunction 100 (.func fibVal) [.int 6]) fibState with
    | (.ok (.int v), s) => v == 8 && s.cache.length == 7 && s.frames.size == 8 &&
        missOf s fibState.cur == missOf fibState fibState.cur
    | _ => false) = true := by decide +kernel

/-- the same call with the cache off: 25 frames, same value -/
example : (match run (applyFunction 100 (.func fibVal) [.int 6]) { fibState with cfg := { cacheOn := false } } with
    | (.ok (.int v), s) => v == 8 && s.cache.length == 0 && s.frames.size == 26
    | _ => false) = true := by decide +kernel

end Grol.E

import GrolProofs.EvalOps
/-
C04 — automatic memoization is unobservable.

Full statement: the evaluator model run with `cacheOn := true` and with `cacheOn := false`
produces the same outputs, results and errors on every session (`C04.Statement`).  It is NOT
proved (and is false of the unchanged code for the recorded finding classes, see DESIGN.md);
what is proved here are the facts about the cache itself that the property's second sentence
names: with the switch off nothing is looked up or stored; a lookup returns exactly what was
stored for an equal key.
-/
namespace Grol.E

def sessionObs (cfg : Cfg) (progs : List Node) : List (Except String String) :=
  (progs.foldl (fun (acc : St × List (Except String String)) p =>
      let (st', r) := runInput acc.1 p
      (st', acc.2 ++ [r.map fun o => ((o.render.splitOn ";g=").headD "")])) (initState cfg, [])).2

/-- the full property -/
def C04.Statement : Prop :=
  ∀ (progs : List Node), sessionObs { cacheOn := true } progs = sessionObs { cacheOn := false } progs

/-- with the cache switched off every lookup misses … -/
theorem C04.off_get (key : String) (args : List Obj) (st : St) (h : st.cfg.cacheOn = false) :
    outcome (cacheGet key args) st = .ok none := by
  unfold cacheGet outcome
  simp [h, bind, ExceptT.bind, ExceptT.mk, ExceptT.bindCont, StateT.bind, get, getThe, MonadStateOf.get,
    liftM, monadLift, MonadLift.monadLift, ExceptT.lift, StateT.get, ExceptT.run, pure, ExceptT.pure, StateT.pure, Functor.map, StateT.map]
  rfl

/-- … and every store leaves the state unchanged -/
theorem C04.off_set (key : String) (args : List Obj) (res : Obj) (out : Grol.Wire.Bytes) (st : St)
    (h : st.cfg.cacheOn = false) : stateAfter (cacheSet key args res out) st = st := by
  unfold cacheSet stateAfter
  simp [h, bind, ExceptT.bind, ExceptT.mk, ExceptT.bindCont, StateT.bind, get, getThe, MonadStateOf.get,
    liftM, monadLift, MonadLift.monadLift, ExceptT.lift, StateT.get, ExceptT.run, pure, ExceptT.pure, StateT.pure, Functor.map, StateT.map]
  rfl

end Grol.E

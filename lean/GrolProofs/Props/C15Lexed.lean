import GrolProofs.Props.C15Sim
import GrolProofs.LexStream
/-
C15 part 1, the lexer link: the stream of the lexer MODEL in line mode is `asLine` of its stream in file mode, for
EVERY input (NUL bytes, unterminated strings and block comments included: both modes take the same branch there, the
`lineMode` flag is read by `eolEof` only — /repo/lexer/lexer.go `EOLEOF` is the only reader of `l.lineMode`).

Two lexer runs whose states differ only in the flag: `next` commutes with setting the flag (`next_mode`), the only
difference being the type of the end marker (`retype`).  Lifted through `iter`, `markerIdx`, `entry`, `tokStream`.
The only hypothesis is on the external number classifier `nc`: it must give the same class to the two end markers
(it is only ever meant for INT/FLOAT tokens); `nc_hypothesis_needed` shows it cannot be dropped.
-/
set_option linter.unusedVariables false
set_option linter.unusedSimpArgs false
namespace Grol.Lexer
open Grol.Token Grol.Token.TType

/-- the same lexer state in the other mode -/
def setMode (b : Bool) (s : State) : State := { s with lineMode := b }

/-- the end marker becomes the end marker of mode `b`, every other token is unchanged -/
def retype (b : Bool) (t : Token.Tok) : Token.Tok := if t.src = .eoleof then eolEof b else t

theorem retype_of_ne {b : Bool} {t : Token.Tok} (h : t.src ≠ .eoleof) : retype b t = t := by
  unfold retype; rw [if_neg h]

@[simp] theorem retype_eolEof (b c : Bool) : retype b (eolEof c) = eolEof b := by
  unfold retype; exact if_pos rfl

@[simp] theorem retype_ctc (b : Bool) (c : UInt8) : retype b (constantTokenChar c) = constantTokenChar c := by
  apply retype_of_ne; unfold constantTokenChar; split <;> simp [Tok.nil]

@[simp] theorem retype_ctc2 (b : Bool) (c d : UInt8) : retype b (constantTokenChar2 c d) = constantTokenChar2 c d := by
  apply retype_of_ne; unfold constantTokenChar2; split <;> simp [Tok.nil]

@[simp] theorem retype_intern (b : Bool) (t : TType) (l : Bytes) : retype b (internTok t l) = internTok t l :=
  retype_of_ne (by simp [internTok])

@[simp] theorem retype_slice_intern (b : Bool) (t : TType) (o : Option Bytes) :
    retype b (tokOfSlice (internTok t) o) = tokOfSlice (internTok t) o := by
  cases o
  · exact retype_of_ne (by simp [tokOfSlice, Tok.goPanic])
  · exact retype_intern b t _

@[simp] theorem retype_slice_lookup (b : Bool) (o : Option Bytes) :
    retype b (tokOfSlice lookupIdent o) = tokOfSlice lookupIdent o := by
  cases o
  · exact retype_of_ne (by simp [tokOfSlice, Tok.goPanic])
  · exact retype_of_ne (by simp [tokOfSlice, lookupIdent_src])

theorem retype_src (b : Bool) (t : Token.Tok) : (retype b t).src = .eoleof ↔ t.src = .eoleof := by
  unfold retype
  split
  · rename_i h; simp [eolEof, h]
  · exact Iff.rfl

/-! ### every piece of `next` commutes with `setMode` -/

theorem skipWsLoop_mode (b : Bool) : ∀ (f : Nat) (s : State), skipWsLoop f (setMode b s) = setMode b (skipWsLoop f s)
  | 0, s => rfl
  | f + 1, s => by
    unfold skipWsLoop
    simp only []
    have hp : (setMode b s).peekChar = s.peekChar := rfl
    rw [hp]
    split
    · rfl
    · split
      · exact skipWsLoop_mode b f ⟨s.input, s.pos + 1, s.lineMode, true, true, s.pos + 1, s.lineNumber + 1⟩
      · exact skipWsLoop_mode b f { s with hadWhitespace := true, pos := s.pos + 1 }

theorem skipWhitespace_mode (b : Bool) (s : State) : skipWhitespace (setMode b s) = setMode b (skipWhitespace s) :=
  skipWsLoop_mode b (s.input.size - s.pos) { s with hadWhitespace := false, hadNewline := false }

theorem readHex_mode (b : Bool) (s : State) : readHex (setMode b s) = ((readHex s).1, setMode b (readHex s).2) := rfl
theorem readUnicode16_mode (b : Bool) (s : State) :
    readUnicode16 (setMode b s) = ((readUnicode16 s).1, setMode b (readUnicode16 s).2) := rfl
theorem readUnicode32_mode (b : Bool) (s : State) :
    readUnicode32 (setMode b s) = ((readUnicode32 s).1, setMode b (readUnicode32 s).2) := rfl

theorem readEscape_mode (b : Bool) (ch : UInt8) (s : State) :
    readEscape ch (setMode b s) = ((readEscape ch s).1, setMode b (readEscape ch s).2) := by
  unfold readEscape
  repeat' split
  all_goals rfl

/-- a triple with the state moved to mode `b` -/
def mode3 (b : Bool) (r : Bytes × Bool × State) : Bytes × Bool × State := (r.1, r.2.1, setMode b r.2.2)

theorem consBuf_mode3 (b : Bool) (pre : Bytes) (r : Bytes × Bool × State) :
    consBuf pre (mode3 b r) = mode3 b (consBuf pre r) := rfl

theorem readStringLoop_mode (b : Bool) (sep : UInt8) (dq : Bool) : ∀ (f : Nat) (s : State),
    readStringLoop sep dq f (setMode b s) = mode3 b (readStringLoop sep dq f s)
  | 0, s => rfl
  | f + 1, s => by
    unfold readStringLoop
    simp only []
    have h1 : (setMode b s).readChar = (s.readChar.1, setMode b s.readChar.2) := rfl
    rw [h1]
    simp only []
    have h2 : (setMode b s.readChar.2).readChar = (s.readChar.2.readChar.1, setMode b s.readChar.2.readChar.2) := rfl
    rw [h2]
    simp only [readUnicode16_mode, readUnicode32_mode, readEscape_mode]
    split
    · split
      · rw [readStringLoop_mode b sep dq f, consBuf_mode3]
      · split
        · rw [readStringLoop_mode b sep dq f, consBuf_mode3]
        · rw [readStringLoop_mode b sep dq f, consBuf_mode3]
    · split
      · rfl
      · split
        · rfl
        · rw [readStringLoop_mode b sep dq f, consBuf_mode3]

theorem readString_mode (b : Bool) (s : State) (sep : UInt8) :
    readString (setMode b s) sep = mode3 b (readString s sep) :=
  readStringLoop_mode b sep _ _ s

theorem readIdentifier_mode (b : Bool) (s : State) :
    readIdentifier (setMode b s) = ((readIdentifier s).1, setMode b (readIdentifier s).2) := rfl
theorem readLineComment_mode (b : Bool) (s : State) :
    readLineComment (setMode b s) = ((readLineComment s).1, setMode b (readLineComment s).2) := rfl
theorem readBlockComment_mode (b : Bool) (s : State) :
    readBlockComment (setMode b s) = ((readBlockComment s).1, setMode b (readBlockComment s).2) := rfl

theorem readNumber_mode (b : Bool) (s : State) (ch : UInt8) :
    readNumber (setMode b s) ch = ((readNumber s ch).1, (readNumber s ch).2.1, setMode b (readNumber s ch).2.2) := by
  unfold readNumber
  have hp : (setMode b s).peekChar = s.peekChar := rfl
  have hi : (setMode b s).input = s.input := rfl
  have hq : (setMode b s).pos = s.pos := rfl
  simp only [hp, hi, hq]
  repeat' split
  all_goals rfl

/-- result of one call moved to mode `b` -/
def lift (b : Bool) (r : Token.Tok × State) : Token.Tok × State := (retype b r.1, setMode b r.2)

theorem lift_mk (b : Bool) (t : Token.Tok) (s : State) : lift b (t, s) = (retype b t, setMode b s) := rfl

/-- the `switch` of `NextToken` in the other mode: same branch, same state up to the flag, same token up to the
type of the end marker -/
theorem nextSwitch_mode (b : Bool) (ch nx : UInt8) (s : State) :
    nextSwitch ch nx (setMode b s) = lift b (nextSwitch ch nx s) := by
  unfold nextSwitch
  simp only [apply_ite (lift b), lift_mk, readLineComment_mode, readBlockComment_mode, readString_mode, readNumber_mode,
    readIdentifier_mode, mode3, retype_ctc, retype_ctc2, retype_intern, retype_slice_intern, retype_slice_lookup,
    retype_eolEof, State.eolEof]
  rfl

theorem nextCore_mode (b : Bool) (s : State) : nextCore (setMode b s) = lift b (nextCore s) := by
  unfold nextCore
  have h1 : (setMode b s).readChar.1 = s.readChar.1 := rfl
  have h2 : (setMode b s).readChar.2 = setMode b s.readChar.2 := rfl
  have h3 : (setMode b s.readChar.2).peekChar = s.readChar.2.peekChar := rfl
  rw [h1, h2, h3]
  exact nextSwitch_mode b s.readChar.1 s.readChar.2.peekChar s.readChar.2

/-- **step lemma**: one `NextToken()` call commutes with changing the mode, token by token -/
theorem next_mode (b : Bool) (s : State) : next (setMode b s) = (retype b (next s).1, setMode b (next s).2) := by
  unfold next
  rw [skipWhitespace_mode, nextCore_mode]
  rfl

theorem iter_mode (b : Bool) : ∀ (k : Nat) (s : State), iter k (setMode b s) = setMode b (iter k s)
  | 0, s => rfl
  | k + 1, s => by
    show iter k (next (setMode b s)).2 = setMode b (iter k (next s).2)
    rw [next_mode]
    exact iter_mode b k _

end Grol.Lexer

import GrolProofs.Props.C15Sim
import GrolProofs.LexStream
/-
C15 part 1, the lexer link: the stream of the lexer MODEL in line mode is `asLine` of its stream in file mode, for
EVERY input (NUL bytes, unterminated strings and block comments included: both modes take the same branch there, the
`lineMode` flag is read by `eolEof` only — /repo/lexer/lexer.go `EOLEOF` is the only reader of `l.lineMode`).

Two lexer runs whose states differ only in the flag: `next` commutes with setting the flag (`next_mode`), the only
difference being the type of the end marker (`retype`).  Lifted through `iter`, `markerIdx`, `entry`, `tokStream`.
The only hypothesis is on the external number classifier `nc`: it must give the same class to the two end markers
(it is only ever meant for INT/FLOAT tokens); `nc_hypothesis_needed` shows it cannot be dropped.
-/
set_option linter.unusedVariables false
set_option linter.unusedSimpArgs false
namespace Grol.Lexer
open Grol.Token Grol.Token.TType

/-- the same lexer state in the other mode -/
def setMode (b : Bool) (s : State) : State := { s with lineMode := b }

/-- the end marker becomes the end marker of mode `b`, every other token is unchanged -/
def retype (b : Bool) (t : Token.Tok) : Token.Tok := if t.src = .eoleof then eolEof b else t

theorem retype_of_ne {b : Bool} {t : Token.Tok} (h : t.src ≠ .eoleof) : retype b t = t := by
  unfold retype; rw [if_neg h]

@[simp] theorem retype_eolEof (b c : Bool) : retype b (eolEof c) = eolEof b := by
  unfold retype; exact if_pos rfl

@[simp] theorem retype_ctc (b : Bool) (c : UInt8) : retype b (constantTokenChar c) = constantTokenChar c := by
  apply retype_of_ne; unfold constantTokenChar; split <;> simp [Tok.nil]

@[simp] theorem retype_ctc2 (b : Bool) (c d : UInt8) : retype b (constantTokenChar2 c d) = constantTokenChar2 c d := by
  apply retype_of_ne; unfold constantTokenChar2; split <;> simp [Tok.nil]

@[simp] theorem retype_intern (b : Bool) (t : TType) (l : Bytes) : retype b (internTok t l) = internTok t l :=
  retype_of_ne (by simp [internTok])

@[simp] theorem retype_slice_intern (b : Bool) (t : TType) (o : Option Bytes) :
    retype b (tokOfSlice (internTok t) o) = tokOfSlice (internTok t) o := by
  cases o
  · exact retype_of_ne (by simp [tokOfSlice, Tok.goPanic])
  · exact retype_intern b t _

@[simp] theorem retype_slice_lookup (b : Bool) (o : Option Bytes) :
    retype b (tokOfSlice lookupIdent o) = tokOfSlice lookupIdent o := by
  cases o
  · exact retype_of_ne (by simp [tokOfSlice, Tok.goPanic])
  · exact retype_of_ne (by simp [tokOfSlice, lookupIdent_src])

theorem retype_src (b : Bool) (t : Token.Tok) : (retype b t).src = .eoleof ↔ t.src = .eoleof := by
  unfold retype
  split
  · rename_i h; simp [eolEof, h]
  · exact Iff.rfl

/-! ### every piece of `next` commutes with `setMode` -/

theorem skipWsLoop_mode (b : Bool) : ∀ (f : Nat) (s : State), skipWsLoop f (setMode b s) = setMode b (skipWsLoop f s)
  | 0, s => rfl
  | f + 1, s => by
    unfold skipWsLoop
    simp only []
    have hp : (setMode b s).peekChar = s.peekChar := rfl
    rw [hp]
    split
    · rfl
    · split
      · exact skipWsLoop_mode b f ⟨s.input, s.pos + 1, s.lineMode, true, true, s.pos + 1, s.lineNumber + 1⟩
      · exact skipWsLoop_mode b f { s with hadWhitespace := true, pos := s.pos + 1 }

theorem skipWhitespace_mode (b : Bool) (s : State) : skipWhitespace (setMode b s) = setMode b (skipWhitespace s) :=
  skipWsLoop_mode b (s.input.size - s.pos) { s with hadWhitespace := false, hadNewline := false }

theorem readHex_mode (b : Bool) (s : State) : readHex (setMode b s) = ((readHex s).1, setMode b (readHex s).2) := rfl
theorem readUnicode16_mode (b : Bool) (s : State) :
    readUnicode16 (setMode b s) = ((readUnicode16 s).1, setMode b (readUnicode16 s).2) := rfl
theorem readUnicode32_mode (b : Bool) (s : State) :
    readUnicode32 (setMode b s) = ((readUnicode32 s).1, setMode b (readUnicode32 s).2) := rfl

theorem readEscape_mode (b : Bool) (ch : UInt8) (s : State) :
    readEscape ch (setMode b s) = ((readEscape ch s).1, setMode b (readEscape ch s).2) := by
  unfold readEscape
  repeat' split
  all_goals rfl

/-- a triple with the state moved to mode `b` -/
def mode3 (b : Bool) (r : Bytes × Bool × State) : Bytes × Bool × State := (r.1, r.2.1, setMode b r.2.2)

theorem consBuf_mode3 (b : Bool) (pre : Bytes) (r : Bytes × Bool × State) :
    consBuf pre (mode3 b r) = mode3 b (consBuf pre r) := rfl

theorem readStringLoop_mode (b : Bool) (sep : UInt8) (dq : Bool) : ∀ (f : Nat) (s : State),
    readStringLoop sep dq f (setMode b s) = mode3 b (readStringLoop sep dq f s)
  | 0, s => rfl
  | f + 1, s => by
    unfold readStringLoop
    simp only []
    have h1 : (setMode b s).readChar = (s.readChar.1, setMode b s.readChar.2) := rfl
    rw [h1]
    simp only []
    have h2 : (setMode b s.readChar.2).readChar = (s.readChar.2.readChar.1, setMode b s.readChar.2.readChar.2) := rfl
    rw [h2]
    simp only [readUnicode16_mode, readUnicode32_mode, readEscape_mode]
    split
    · split
      · rw [readStringLoop_mode b sep dq f, consBuf_mode3]
      · split
        · rw [readStringLoop_mode b sep dq f, consBuf_mode3]
        · rw [readStringLoop_mode b sep dq f, consBuf_mode3]
    · split
      · rfl
      · split
        · rfl
        · rw [readStringLoop_mode b sep dq f, consBuf_mode3]

theorem readString_mode (b : Bool) (s : State) (sep : UInt8) :
    readString (setMode b s) sep = mode3 b (readString s sep) :=
  readStringLoop_mode b sep _ _ s

theorem readIdentifier_mode (b : Bool) (s : State) :
    readIdentifier (setMode b s) = ((readIdentifier s).1, setMode b (readIdentifier s).2) := rfl
theorem readLineComment_mode (b : Bool) (s : State) :
    readLineComment (setMode b s) = ((readLineComment s).1, setMode b (readLineComment s).2) := rfl
theorem readBlockComment_mode (b : Bool) (s : State) :
    readBlockComment (setMode b s) = ((readBlockComment s).1, setMode b (readBlockComment s).2) := rfl

theorem readNumber_mode (b : Bool) (s : State) (ch : UInt8) :
    readNumber (setMode b s) ch = ((readNumber s ch).1, (readNumber s ch).2.1, setMode b (readNumber s ch).2.2) := by
  unfold readNumber
  have hp : (setMode b s).peekChar = s.peekChar := rfl
  have hi : (setMode b s).input = s.input := rfl
  have hq : (setMode b s).pos = s.pos := rfl
  simp only [hp, hi, hq]
  repeat' split
  all_goals rfl

/-- result of one call moved to mode `b` -/
def lift (b : Bool) (r : Token.Tok × State) : Token.Tok × State := (retype b r.1, setMode b r.2)

theorem lift_mk (b : Bool) (t : Token.Tok) (s : State) : lift b (t, s) = (retype b t, setMode b s) := rfl

/-- the `switch` of `NextToken` in the other mode: same branch, same state up to the flag, same token up to the
type of the end marker -/
theorem nextSwitch_mode (b : Bool) (ch nx : UInt8) (s : State) :
    nextSwitch ch nx (setMode b s) = lift b (nextSwitch ch nx s) := by
  unfold nextSwitch
  simp only [apply_ite (lift b), lift_mk, readLineComment_mode, readBlockComment_mode, readString_mode, readNumber_mode,
    readIdentifier_mode, mode3, retype_ctc, retype_ctc2, retype_intern, retype_slice_intern, retype_slice_lookup,
    retype_eolEof, State.eolEof]
  rfl

theorem nextCore_mode (b : Bool) (s : State) : nextCore (setMode b s) = lift b (nextCore s) := by
  unfold nextCore
  have h1 : (setMode b s).readChar.1 = s.readChar.1 := rfl
  have h2 : (setMode b s).readChar.2 = setMode b s.readChar.2 := rfl
  have h3 : (setMode b s.readChar.2).peekChar = s.readChar.2.peekChar := rfl
  rw [h1, h2, h3]
  exact nextSwitch_mode b s.readChar.1 s.readChar.2.peekChar s.readChar.2

/-- **step lemma**: one `NextToken()` call commutes with changing the mode, token by token -/
theorem next_mode (b : Bool) (s : State) : next (setMode b s) = (retype b (next s).1, setMode b (next s).2) := by
  unfold next
  rw [skipWhitespace_mode, nextCore_mode]
  rfl

theorem iter_mode (b : Bool) : ∀ (k : Nat) (s : State), iter k (setMode b s) = setMode b (iter k s)
  | 0, s => rfl
  | k + 1, s => by
    show iter k (next (setMode b s)).2 = setMode b (iter k (next s).2)
    rw [next_mode]
    exact iter_mode b k _

end Grol.Lexer

/-! ### the streams -/

namespace Grol.LexStream
open Grol.Lexer Grol.Generated Grol.Parser

theorem lookup_mem_snd {α β : Type} [BEq α] (a : α) (b : β) : ∀ (l : List (α × β)), l.lookup a = some b → b ∈ l.map Prod.snd
  | [], h => by cases h
  | (a', b') :: l, h => by
    unfold List.lookup at h
    split at h
    · cases h; simp
    · have := lookup_mem_snd a b l h
      simp only [List.map_cons, List.mem_cons]
      exact Or.inr this

theorem genType_eof (t : Grol.Token.TType) : genType t = .EOF → t = .EOF := by
  cases t <;> decide

/-- a well-formed token that is not the end marker is not of type EOF -/
theorem wf_type_ne_eof (t : Grol.Token.Tok) (wf : t.WF) (h : t.src ≠ .eoleof) : genType t.type ≠ .EOF := by
  intro hg
  have ht := genType_eof _ hg
  unfold Grol.Token.Tok.WF at wf
  split at wf
  · rename_i hs; exact h hs
  · obtain ⟨c, _, hc⟩ := wf
    rw [ht] at hc
    have := lookup_mem_snd _ _ _ hc
    revert this; decide
  · obtain ⟨a, b, _, hc⟩ := wf
    rw [ht] at hc
    have := lookup_mem_snd _ _ _ hc
    revert this; decide
  · rw [ht] at wf; revert wf; decide
  · rw [ht] at wf
    cases hk : Grol.Token.keywords.lookup t.lit with
    | none => rw [hk] at wf; revert wf; decide
    | some x =>
      rw [hk] at wf
      have hx : x = .EOF := wf.symm
      rw [hx] at hk
      have := lookup_mem_snd _ _ _ hk
      revert this; decide
  · exact wf
  · exact wf

theorem iter_lineMode (s : State) : ∀ k, (iter k s).lineMode = s.lineMode
  | 0 => rfl
  | k + 1 => by rw [iter_succ', (C16.tiling _).2.2.2.2.2]; exact iter_lineMode s k

theorem markerIdx_mode (b : Bool) : ∀ (f : Nat) (s : State), markerIdx f (setMode b s) = markerIdx f s
  | 0, _ => rfl
  | f + 1, s => by
    unfold markerIdx
    rw [next_mode]
    simp only [retype_src]
    split
    · rfl
    · rw [markerIdx_mode b f]

/-- the first marker is the first: no call before `markerIdx` returns the end marker -/
theorem markerIdx_min : ∀ (f : Nat) (s : State) (i : Nat), i < markerIdx f s → ¬ (next (iter i s)).1.src = .eoleof
  | 0, s, i, h => by cases h
  | f + 1, s, i, h => by
    unfold markerIdx at h
    split at h
    · cases h
    · rename_i hm
      cases i with
      | zero => exact hm
      | succ i => exact markerIdx_min f (next s).2 i (by omega)

theorem toTok_line (nc : Grol.Token.Tok → NumClass) (hnc : nc (Grol.Token.eolEof true) = nc (Grol.Token.eolEof false))
    (s0 s2 : State) (t : Grol.Token.Tok) (h : t = Grol.Token.eolEof false ∨ (t.src ≠ .eoleof ∧ t.WF)) :
    toTok nc (setMode true s0) (retype true t) (setMode true s2) = lineTok (toTok nc s0 t s2) := by
  rcases h with h | ⟨h1, h2⟩
  · rw [h, retype_eolEof]
    have ht : (toTok nc s0 (Grol.Token.eolEof false) s2).type = .EOF := genType_EOF
    unfold lineTok
    rw [if_pos ht]
    unfold toTok
    rw [hnc]
    rfl
  · rw [retype_of_ne h1, lineTok_self (wf_type_ne_eof t h2 h1)]
    rfl

/-- call by call: the line-mode lexer returns `lineTok` of what the file-mode lexer returns -/
theorem entry_mode (nc : Grol.Token.Tok → NumClass) (hnc : nc (Grol.Token.eolEof true) = nc (Grol.Token.eolEof false))
    (s : State) (hs : s.lineMode = false) (i : Nat) :
    entry nc (setMode true s) i = lineTok (entry nc s i) := by
  unfold entry
  rw [iter_mode, next_mode]
  apply toTok_line nc hnc
  cases C16.cases (iter i s) with
  | inl m => left; rw [m.1, iter_lineMode, hs]
  | inr ok => exact Or.inr ⟨ok.notMarker, ok.wf⟩

/-- in file mode an end marker is EOF-typed -/
theorem entry_marker_type (nc : Grol.Token.Tok → NumClass) (s : State) (hs : s.lineMode = false) (i : Nat)
    (hm : (next (iter i s)).1.src = .eoleof) : (entry nc s i).type = .EOF := by
  show genType (next (iter i s)).1.type = .EOF
  cases C16.cases (iter i s) with
  | inl m => rw [m.1, iter_lineMode, hs]; exact genType_EOF
  | inr ok => exact absurd hm ok.notMarker

theorem entry_nonmarker_type (nc : Grol.Token.Tok → NumClass) (s : State) (i : Nat)
    (hm : ¬ (next (iter i s)).1.src = .eoleof) : (entry nc s i).type ≠ .EOF := by
  show genType (next (iter i s)).1.type ≠ .EOF
  cases C16.cases (iter i s) with
  | inl m => exact absurd (by rw [m.1]; rfl) hm
  | inr ok => exact wf_type_ne_eof _ ok.wf ok.notMarker

end Grol.LexStream

namespace Grol.C15
open Grol Grol.Lexer Grol.LexStream Grol.Parser Grol.Generated

/-- the classifier of number literals is never asked to tell the two end markers apart
(`strconv.ParseInt/ParseFloat` are only called on INT / FLOAT tokens) -/
def NcModeBlind (nc : Grol.Token.Tok → NumClass) : Prop := nc (Grol.Token.eolEof true) = nc (Grol.Token.eolEof false)

instance (nc : Grol.Token.Tok → NumClass) : Decidable (NcModeBlind nc) := by unfold NcModeBlind; exact inferInstance

theorem ts_ext {a b : TokStream} (h1 : a.toks = b.toks) (h2 : a.eof = b.eof) (h3 : a.inputLen = b.inputLen) : a = b := by
  cases a; cases b; simp_all

theorem tokStream_toks (nc : Grol.Token.Tok → NumClass) (input : Array UInt8) (m : Bool) :
    (tokStream nc input m).toks
      = (List.range (markerIdx (input.size + 1) (State.new input m) + 1)).map (entry nc (State.new input m)) := rfl

theorem tokStream_eof (nc : Grol.Token.Tok → NumClass) (input : Array UInt8) (m : Bool) :
    (tokStream nc input m).eof = entry nc (State.new input m) (markerIdx (input.size + 1) (State.new input m) + 1) := rfl

/-- **the lexer link of C15**: for EVERY input (NUL bytes, unterminated strings / block comments included) the stream of
the model lexer in line mode is `asLine` of its stream in file mode -/
theorem tokStream_line_eq_asLine (nc : Grol.Token.Tok → NumClass) (input : Array UInt8) (hnc : NcModeBlind nc) :
    tokStream nc input true = asLine (tokStream nc input false) := by
  have h : entry nc (setMode true (State.new input false)) = lineTok ∘ entry nc (State.new input false) :=
    funext fun i => entry_mode nc hnc _ rfl i
  have hk := markerIdx_mode true (input.size + 1) (State.new input false)
  have e : State.new input true = setMode true (State.new input false) := rfl
  apply ts_ext
  · unfold asLine
    simp only [tokStream_toks]
    rw [e, hk, List.map_map, h]
  · unfold asLine
    simp only [tokStream_eof]
    rw [e, hk, h, Function.comp_apply]
  · rfl

/-- the file-mode stream of the model lexer has its first end marker at `markerIdx` and only EOF-typed tokens from
there on — for every input: an embedded NUL byte is not consumed, the marker is sticky (`C16.sticky`) -/
theorem endAtB_tokStream (nc : Grol.Token.Tok → NumClass) (input : Array UInt8) :
    endAtB (tokStream nc input false) (markerIdx (input.size + 1) (State.new input false)) = true := by
  have hk := markerIdx_spec input.size (State.new input false) (Nat.zero_le _) (by simp [State.new])
  have hmin := markerIdx_min (input.size + 1) (State.new input false)
  obtain ⟨k, hkdef⟩ : ∃ k, markerIdx (input.size + 1) (State.new input false) = k := ⟨_, rfl⟩
  rw [hkdef] at hk hmin ⊢
  have hk1 : (next (iter (k + 1) (State.new input false))).1.src = .eoleof := by
    have st := C16.sticky (iter k (State.new input false)) hk 1
    have e : iter 1 (iter k (State.new input false)) = iter (k + 1) (State.new input false) :=
      (iter_succ' k (State.new input false)).symm
    rw [e] at st
    rw [st.1]; exact hk
  have g0 : (tokStream nc input false).get k = entry nc (State.new input false) k :=
    get_le nc input false k (by omega)
  have g1 : (tokStream nc input false).get (k + 1) = entry nc (State.new input false) (k + 1) := by
    rw [get_gt nc input false (k + 1) (by omega), hkdef]
  have hlen : (tokStream nc input false).toks.length = k + 1 := by
    unfold tokStream; simp only [List.length_map, List.length_range, hkdef]
  have heof : (tokStream nc input false).eof = entry nc (State.new input false) (k + 1) := by
    unfold tokStream; simp only [hkdef]
  unfold endAtB
  simp only [Bool.and_eq_true, List.all_eq_true, List.mem_range, bne_iff_ne, ne_eq, decide_eq_true_eq]
  refine ⟨⟨?_, ?_⟩, ?_⟩
  · intro i hi
    rw [get_le nc input false i (by omega)]
    exact entry_nonmarker_type nc _ i (hmin i hi)
  · rw [heof]; exact entry_marker_type nc _ rfl _ hk1
  · intro d hd
    rw [hlen] at hd
    have : d = 0 ∨ d = 1 := by omega
    rcases this with rfl | rfl
    · rw [Nat.add_zero, g0]; exact entry_marker_type nc _ rfl _ hk
    · rw [g1]; exact entry_marker_type nc _ rfl _ hk1

theorem tokStream_length (nc : Grol.Token.Tok → NumClass) (input : Array UInt8) (m : Bool) :
    (tokStream nc input m).toks.length - 1 = markerIdx (input.size + 1) (State.new input m) := by
  unfold tokStream; simp only [List.length_map, List.length_range]; omega

/-- **C15 part 1 from the bytes**: for every input, if the parse of the FILE-mode lexer's stream is valid and no
top-level statement of that run ends on the end marker (`stmtsClosed`, excludes exactly the recorded class
`file-mode-accepts-unclosed-block`), then the parse of the LINE-mode lexer's stream is valid and gives the same program.
No hypothesis on the input bytes. -/
theorem same_tree_lexed (nc : Grol.Token.Tok → NumClass) (hnc : NcModeBlind nc) (input : Array UInt8) (fuel : Nat)
    (hv : valid (tokStream nc input false) fuel = true)
    (hclosed : stmtsClosed (tokStream nc input false) ((tokStream nc input false).toks.length - 1) fuel
      (init (tokStream nc input false)) = true) :
    valid (tokStream nc input true) fuel = true
    ∧ (result (tokStream nc input true) fuel).map (·.program) = (result (tokStream nc input false) fuel).map (·.program) := by
  rw [tokStream_line_eq_asLine nc input hnc]
  rw [tokStream_length] at hclosed
  exact same_tree_partial _ _ fuel (endAtB_tokStream nc input) hv hclosed

end Grol.C15

/-! ### non-vacuity, kernel-evaluated on the bytes -/

namespace Grol.C15
open Grol Grol.Lexer Grol.LexStream Grol.Parser Grol.Generated

/-- a classifier like the harness': INT tokens parse as ints, FLOAT tokens as floats (enough for the examples) -/
def ncSimple (t : Grol.Token.Tok) : NumClass :=
  if t.type = .INT then .int else if t.type = .FLOAT then .float else .na

example : NcModeBlind ncSimple := by decide

/-- `a+b` -/
def bytesAPlusB : Array UInt8 := #[97, 43, 98]
/-- `f(1)⏎` -/
def bytesCall : Array UInt8 := #[102, 40, 49, 41, 10]
/-- `if x { y } else { z }⏎f(1)` -/
def bytesIf : Array UInt8 :=
  #[105, 102, 32, 120, 32, 123, 32, 121, 32, 125, 32, 101, 108, 115, 101, 32, 123, 32, 122, 32, 125, 10, 102, 40, 49, 41]

/-- the hypotheses of `same_tree_lexed` hold on `a+b`, `f(1)⏎` and an `if … else …` followed by a call -/
example : valid (tokStream ncSimple bytesAPlusB false) 40 = true ∧
    stmtsClosed (tokStream ncSimple bytesAPlusB false) ((tokStream ncSimple bytesAPlusB false).toks.length - 1) 40
      (init (tokStream ncSimple bytesAPlusB false)) = true := by decide +kernel
example : valid (tokStream ncSimple bytesCall false) 40 = true ∧
    stmtsClosed (tokStream ncSimple bytesCall false) ((tokStream ncSimple bytesCall false).toks.length - 1) 40
      (init (tokStream ncSimple bytesCall false)) = true := by decide +kernel
example : valid (tokStream ncSimple bytesIf false) 40 = true ∧
    stmtsClosed (tokStream ncSimple bytesIf false) ((tokStream ncSimple bytesIf false).toks.length - 1) 40
      (init (tokStream ncSimple bytesIf false)) = true ∧
    (result (tokStream ncSimple bytesIf true) 40).map (·.program.length) = some 2 := by decide +kernel

/-- the two streams really differ (EOL vs EOF end markers), and `asLine` is exactly that difference: `f(1)⏎` -/
example : ((tokStream ncSimple bytesCall false).toks.map (·.type)) = [.IDENT, .LPAREN, .INT, .RPAREN, .EOF] ∧
    ((tokStream ncSimple bytesCall true).toks.map (·.type)) = [.IDENT, .LPAREN, .INT, .RPAREN, .EOL] ∧
    (tokStream ncSimple bytesCall true).toks = (asLine (tokStream ncSimple bytesCall false)).toks ∧
    (tokStream ncSimple bytesCall true).eof = (asLine (tokStream ncSimple bytesCall false)).eof := by decide +kernel

/-- no hypothesis on the bytes is needed: an embedded NUL (`a`, NUL, `b`), an unterminated string (`"a`) and an
unterminated block comment (`/*a`) give `asLine`-related streams as well (instances of the theorem, evaluated) -/
example : (tokStream ncSimple #[97, 0, 98] true).toks = (asLine (tokStream ncSimple #[97, 0, 98] false)).toks ∧
    ((tokStream ncSimple #[97, 0, 98] false).toks.map (·.type)) = [.IDENT, .EOF] ∧
    (tokStream ncSimple #[34, 97] true).toks = (asLine (tokStream ncSimple #[34, 97] false)).toks ∧
    ((tokStream ncSimple #[34, 97] true).toks.map (·.type)) = [.EOL] ∧
    (tokStream ncSimple #[47, 42, 97] true).toks = (asLine (tokStream ncSimple #[47, 42, 97] false)).toks ∧
    ((tokStream ncSimple #[47, 42, 97] true).toks.map (·.type)) = [.BLOCKCOMMENT, .EOL] := by decide +kernel

/-- a classifier that tells the two end markers apart -/
def ncBad (t : Grol.Token.Tok) : NumClass := if t.type = .EOL then .int else .na

/-- the hypothesis `NcModeBlind` cannot be dropped: with `ncBad` the streams of the EMPTY input are not `asLine`-related -/
theorem nc_hypothesis_needed : ¬ NcModeBlind ncBad ∧
    (tokStream ncBad #[] true).eof ≠ (asLine (tokStream ncBad #[] false)).eof := by decide +kernel

end Grol.C15

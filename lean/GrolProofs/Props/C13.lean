import Grol.Eval.Macro
namespace Grol.Macro.C13
end Grol.Macro.C13

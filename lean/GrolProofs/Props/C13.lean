import GrolProofs.MacroExpand
/-
C13 — macro expansion is exact syntactic substitution.

Theorems about the model `Grol.Macro` (lean/Grol/Eval/Macro.lean), for a macro whose body is one
`quote(T)`, a call with as many arguments as parameters, and a template whose `unquote` arguments
are parameter names:

1. `expand_is_subst`     expand (m(args)) = subst T (params ↦ expand args)   (arguments first: bottom-up)
2. `expansion_is_pure`   one REPL input hands the evaluator the session state it found: expansion is a
                         function of (macro store, program) only — in the model by construction
3. `expand_*`            expansion commutes with every constructor that is not a macro call
                         (call sites are independent: the expansion is the homomorphic image)
4. `step_store`, `define_noDefs`   the macro store after an input is what DefineMacros left; an input
                         without definitions leaves it unchanged
5. `expand_noCalls`      a program without macro calls is returned as it is

Not expressible in a pure model (and so covered by the correspondence suite only): that the Go
rewriter copies instead of mutating shared nodes.
-/
namespace Grol.Macro.C13
open Grol.E Grol.Macro

/-- expansion of an argument list -/
def expandList (lim : Limits) (store : Store) (l : List Node) : X (List Node) := modifyList (expandCb lim store) l

/-! ### 1. a call of a simple macro is the substituted template -/

theorem expand_is_subst (lim : Limits) (store : Store) (name : String) (m : MacroDef) (T : Node)
    (args args' : List Node)
    (hname : name ≠ "info" ∧ name ≠ "self")
    (hm : lookupDef store name = some m)
    (hbody : m.body = .stmts [.builtin "QUOTE" [T]])
    (hlen : args.length = m.params.length)
    (hargs : expandList lim store args = .ok args')
    (hpo : paramOnly (extendMacroEnv m.params args' []) T = true) :
    expandMacros lim store (.call (.ident name) args)
      = .ok (subst (extendMacroEnv m.params args' []) T) := by
  have hlen' : args'.length = m.params.length := by
    rw [modifyList_length _ _ _ hargs]; exact hlen
  have hmc : isMacroCall store (.ident name) = some m := by
    have : (name == "info" || name == "self") = false := by simp [hname.1, hname.2]
    simp only [isMacroCall, this, hm]
    rfl
  unfold expandList at hargs
  simp only [expandMacros, modify, hargs, ok_bind]
  rw [expandCb_other lim store (.ident name) (by intros; simp)]
  simp only [ok_bind, expandCb, hmc]
  have : (args'.length != m.params.length) = false := by simp [hlen']
  simp only [this, hbody, evalBody, evalBodyStatements, evalUnquoteCalls,
    modify_unquote lim store _ T hpo, ok_bind, pure_eq_ok]
  rfl

/-- the hypothesis of `expand_is_subst` in terms of names: with matching arity every parameter is bound -/
theorem params_are_bound (ps : List String) (as : List Node) (p : String) (hl : as.length = ps.length) (hp : p ∈ ps) :
    (lookupArg (extendMacroEnv ps as []) p).isSome = true :=
  bound_extend p ps as [] hl (.inl hp)

/-- `subst` on the pattern itself -/
theorem subst_unquote (env : MEnv) (p : String) (a : Node) (h : lookupArg env p = some a) :
    subst env (.builtin "UNQUOTE" [.ident p]) = a := by
  simp [subst, substList, substUnquote, h]

/-! ### 2. expansion does not touch the evaluator's state -/

/-- one REPL input in `evalOne`'s order on the evaluator state `g` and the macro store: DefineMacros,
ExpandMacros, then evaluation of the expanded program.  `none`: the input failed before evaluation. -/
def input (lim : Limits) (g : St) (store : Store) (program : Node) : St × Store × Option (Except String InputObs) :=
  match step lim store program with
  | (store', _, .ok expanded) =>
    let (g', r) := runInput g expanded
    (g', store', some r)
  | (store', _, .error _) => (g, store', none)

/-- the state evaluation starts from is the session state `g` itself, and what is evaluated depends on
(macro store, program) only -/
theorem expansion_is_pure (lim : Limits) (g : St) (store : Store) (program expanded : Node) (store' : Store) (d : X Node)
    (h : step lim store program = (store', d, .ok expanded)) :
    input lim g store program = ((runInput g expanded).1, store', some (runInput g expanded).2) := by
  simp only [input, h]

theorem expansion_failure_leaves_state (lim : Limits) (g : St) (store : Store) (program : Node) (store' : Store) (d : X Node) (e : Stop)
    (h : step lim store program = (store', d, .error e)) :
    (input lim g store program).1 = g := by
  simp only [input, h]

/-! ### 3. call sites are independent: expansion commutes with every other constructor -/

theorem expand_inf (lim : Limits) (store : Store) (op : String) (l r : Node) :
    expandMacros lim store (.inf op l r) = (do
      let l' ← expandMacros lim store l
      let r' ← expandMacros lim store r
      pure (.inf op l' r')) := by
  simp only [expandMacros, modify]
  cases modify (expandCb lim store) l with
  | error e => rfl
  | ok l' =>
    cases modify (expandCb lim store) r with
    | error e => rfl
    | ok r' => simp only [ok_bind]; exact expandCb_other _ _ _ (by intros; simp)

theorem expand_pre (lim : Limits) (store : Store) (op : String) (r : Node) :
    expandMacros lim store (.pre op r) = (do pure (.pre op (← expandMacros lim store r))) := by
  simp only [expandMacros, modify]
  cases modify (expandCb lim store) r with
  | error e => rfl
  | ok r' => simp only [ok_bind]; exact expandCb_other _ _ _ (by intros; simp)

theorem expand_idx (lim : Limits) (store : Store) (tok : String) (l i : Node) :
    expandMacros lim store (.idx tok l i) = (do
      let l' ← expandMacros lim store l
      let i' ← expandMacros lim store i
      pure (.idx tok l' i')) := by
  simp only [expandMacros, modify]
  cases modify (expandCb lim store) l with
  | error e => rfl
  | ok l' =>
    cases modify (expandCb lim store) i with
    | error e => rfl
    | ok r' => simp only [ok_bind]; exact expandCb_other _ _ _ (by intros; simp)

theorem expand_for (lim : Limits) (store : Store) (c b : Node) :
    expandMacros lim store (.forE c b) = (do
      let c' ← expandMacros lim store c
      let b' ← expandMacros lim store b
      pure (.forE c' b')) := by
  simp only [expandMacros, modify]
  cases modify (expandCb lim store) c with
  | error e => rfl
  | ok l' =>
    cases modify (expandCb lim store) b with
    | error e => rfl
    | ok r' => simp only [ok_bind]; exact expandCb_other _ _ _ (by intros; simp)

theorem expand_if (lim : Limits) (store : Store) (c a b : Node) (hb : b ≠ .none) :
    expandMacros lim store (.ifE c a b) = (do
      let c' ← expandMacros lim store c
      let a' ← expandMacros lim store a
      let b' ← expandMacros lim store b
      pure (.ifE c' a' b')) := by
  simp only [expandMacros]
  rw [modify_ifE _ _ _ _ hb]
  cases modify (expandCb lim store) c with
  | error e => rfl
  | ok c' =>
    cases modify (expandCb lim store) a with
    | error e => rfl
    | ok a' =>
      cases modify (expandCb lim store) b with
      | error e => rfl
      | ok b' => simp only [ok_bind]; exact expandCb_other _ _ _ (by intros; simp)

theorem expand_if_noElse (lim : Limits) (store : Store) (c a : Node) :
    expandMacros lim store (.ifE c a .none) = (do
      let c' ← expandMacros lim store c
      let a' ← expandMacros lim store a
      pure (.ifE c' a' .none)) := by
  simp only [expandMacros, modify]
  cases modify (expandCb lim store) c with
  | error e => rfl
  | ok c' =>
    cases modify (expandCb lim store) a with
    | error e => rfl
    | ok a' => simp only [ok_bind]; exact expandCb_other _ _ _ (by intros; simp)

theorem expand_ret (lim : Limits) (store : Store) (v : Node) (hv : v ≠ .none) :
    expandMacros lim store (.ret v) = (do pure (.ret (← expandMacros lim store v))) := by
  simp only [expandMacros]
  rw [modify_ret _ _ hv]
  cases modify (expandCb lim store) v with
  | error e => rfl
  | ok v' => simp only [ok_bind]; exact expandCb_other _ _ _ (by intros; simp)

theorem expand_fn (lim : Limits) (store : Store) (name : Option String) (ps : List String) (variadic lambda : Bool)
    (key : String) (body : Node) :
    expandMacros lim store (.fn name ps variadic lambda key body)
      = (do pure (.fn name ps variadic lambda key (← expandMacros lim store body))) := by
  simp only [expandMacros, modify]
  cases modify (expandCb lim store) body with
  | error e => rfl
  | ok b' => simp only [ok_bind]; exact expandCb_other _ _ _ (by intros; simp)

theorem expand_macroLit (lim : Limits) (store : Store) (ps : List String) (body : Node) :
    expandMacros lim store (.macroLit ps body) = (do pure (.macroLit ps (← expandMacros lim store body))) := by
  simp only [expandMacros, modify]
  cases modify (expandCb lim store) body with
  | error e => rfl
  | ok b' => simp only [ok_bind]; exact expandCb_other _ _ _ (by intros; simp)

theorem expand_stmts (lim : Limits) (store : Store) (l : List Node) :
    expandMacros lim store (.stmts l) = (do pure (.stmts (← expandList lim store l))) := by
  simp only [expandMacros, expandList, modify]
  cases modifyList (expandCb lim store) l with
  | error e => rfl
  | ok l' => simp only [ok_bind]; exact expandCb_other _ _ _ (by intros; simp)

theorem expand_arr (lim : Limits) (store : Store) (l : List Node) :
    expandMacros lim store (.arr l) = (do pure (.arr (← expandList lim store l))) := by
  simp only [expandMacros, expandList, modify]
  cases modifyList (expandCb lim store) l with
  | error e => rfl
  | ok l' => simp only [ok_bind]; exact expandCb_other _ _ _ (by intros; simp)

theorem expand_builtin (lim : Limits) (store : Store) (name : String) (l : List Node) :
    expandMacros lim store (.builtin name l) = (do pure (.builtin name (← expandList lim store l))) := by
  simp only [expandMacros, expandList, modify]
  cases modifyList (expandCb lim store) l with
  | error e => rfl
  | ok l' => simp only [ok_bind]; exact expandCb_other _ _ _ (by intros; simp)

theorem expand_mapLit (lim : Limits) (store : Store) (ks vs : List Node) :
    expandMacros lim store (.mapLit ks vs) = (do
      let ks' ← expandList lim store ks
      let vs' ← expandList lim store vs
      pure (.mapLit ks' vs')) := by
  simp only [expandMacros, expandList, modify]
  cases modifyList (expandCb lim store) ks with
  | error e => rfl
  | ok ks' =>
    cases modifyList (expandCb lim store) vs with
    | error e => rfl
    | ok vs' => simp only [ok_bind]; exact expandCb_other _ _ _ (by intros; simp)

theorem expandList_cons (lim : Limits) (store : Store) (x : Node) (xs : List Node) :
    expandList lim store (x :: xs) = (do
      let x' ← expandMacros lim store x
      let xs' ← expandList lim store xs
      pure (x' :: xs')) := by
  simp only [expandList, expandMacros, modifyList]

theorem expandList_nil (lim : Limits) (store : Store) : expandList lim store [] = .ok [] := by
  simp only [expandList, modifyList]; rfl

/-- a call: callee and arguments are expanded on their own, then the rebuilt call is looked at once -/
theorem expand_call (lim : Limits) (store : Store) (fn : Node) (args : List Node) :
    expandMacros lim store (.call fn args) = (do
      let fn' ← expandMacros lim store fn
      let args' ← expandList lim store args
      expandCb lim store (.call fn' args')) := by
  simp only [expandMacros, expandList, modify]

/-- … and it is kept when the (expanded) callee does not name a macro -/
theorem expand_call_notMacro (lim : Limits) (store : Store) (fn fn' : Node) (args args' : List Node)
    (hf : expandMacros lim store fn = .ok fn') (ha : expandList lim store args = .ok args')
    (h : isMacroCall store fn' = none) :
    expandMacros lim store (.call fn args) = .ok (.call fn' args') := by
  rw [expand_call, hf, ha]
  simp only [ok_bind]
  exact expandCb_notMacro _ _ _ _ h

/-! ### 4. the macro store -/

/-- expansion cannot change the store: after an input it is what `DefineMacros` left -/
theorem step_store (lim : Limits) (store : Store) (program : Node) :
    (step lim store program).1 = (defineMacros store program).1 := by
  unfold step
  split
  · rename_i h; rw [h]
  · rename_i h; rw [h]; split <;> rfl

theorem defineLoop_noDefs (store : Store) : ∀ (l kept : List Node), (l.all fun s => !isMacroDefinition s) = true →
    defineLoop store l kept = (store, .ok (kept.reverse ++ l))
  | [], kept, _ => by simp [defineLoop]
  | s :: rest, kept, h => by
    simp only [List.all_cons, Bool.and_eq_true, Bool.not_eq_true'] at h
    simp only [defineLoop, h.1]
    rw [defineLoop_noDefs store rest (s :: kept) h.2]
    simp

/-- an input without definitions (any number of uses) leaves the store — every definition — as it is,
and the program too -/
theorem define_noDefs (store : Store) (l : List Node) (h : (l.all fun s => !isMacroDefinition s) = true) :
    defineMacros store (.stmts l) = (store, .ok (.stmts l)) := by
  simp [defineMacros, defineLoop_noDefs store l [] h]

theorem uses_leave_definitions (lim : Limits) (store : Store) (l : List Node)
    (h : (l.all fun s => !isMacroDefinition s) = true) : (step lim store (.stmts l)).1 = store := by
  rw [step_store, define_noDefs store l h]

/-! ### 5. nothing to expand -/

theorem expand_noCalls (lim : Limits) (store : Store) (p : Node) (h : noCalls store p = true) :
    expandMacros lim store p = .ok p :=
  modify_noCalls lim store p h

/-! ### non-vacuity: the witnesses seen by hand -/

/-- `m = macro(x) { quote(unquote(x) * 2) }` -/
def mTimes2 : MacroDef :=
  { params := ["x"], body := .stmts [.builtin "QUOTE" [.inf "ASTERISK" (.builtin "UNQUOTE" [.ident "x"]) (.int 2)]] }
/-- `d = macro(x) { quote(unquote(x) + unquote(x)) }` -/
def mTwice : MacroDef :=
  { params := ["x"], body := .stmts [.builtin "QUOTE" [.inf "PLUS" (.builtin "UNQUOTE" [.ident "x"]) (.builtin "UNQUOTE" [.ident "x"])]] }
/-- `k = macro(y) { quote(m(unquote(y))) }`: a macro call written inside another macro's template -/
def mNested : MacroDef :=
  { params := ["y"], body := .stmts [.builtin "QUOTE" [.call (.ident "m") [.builtin "UNQUOTE" [.ident "y"]]]] }

def store0 : Store := [("m", mTimes2), ("d", mTwice), ("k", mNested)]

def onePlusTwo : Node := .inf "PLUS" (.int 1) (.int 2)
def printA : Node := .builtin "PRINT" [.str [97]]

/-- `m(1+2)` is the TREE `(1+2)*2` (value 6), not the text `1+2*2` -/
example : expandMacros {} store0 (.call (.ident "m") [onePlusTwo]) = .ok (.inf "ASTERISK" onePlusTwo (.int 2)) := by
  simp [expandMacros, modify, modifyList, expandCb, isMacroCall, lookupDef, store0, mTimes2, evalBody, evalBodyStatements,
    evalUnquoteCalls, unquoteCb, evalUnquoteArg, extendMacroEnv, setArg, lookupArg, convertObjectToASTNode, onePlusTwo]

/-- `d(print("a"))`: the argument is duplicated, not evaluated (evaluation prints `aa`) -/
example : expandMacros {} store0 (.call (.ident "d") [printA]) = .ok (.inf "PLUS" printA printA) := by
  simp [expandMacros, modify, modifyList, expandCb, isMacroCall, lookupDef, store0, mTwice, evalBody, evalBodyStatements,
    evalUnquoteCalls, unquoteCb, evalUnquoteArg, extendMacroEnv, setArg, lookupArg, convertObjectToASTNode, printA]

/-- `m(m(2))`: arguments first -/
example : expandMacros {} store0 (.call (.ident "m") [.call (.ident "m") [.int 2]])
    = .ok (.inf "ASTERISK" (.inf "ASTERISK" (.int 2) (.int 2)) (.int 2)) := by
  simp [expandMacros, modify, modifyList, expandCb, isMacroCall, lookupDef, store0, mTimes2, evalBody, evalBodyStatements,
    evalUnquoteCalls, unquoteCb, evalUnquoteArg, extendMacroEnv, setArg, lookupArg, convertObjectToASTNode]

/-- one bottom-up pass: the `m(…)` that `k`'s template brings in is NOT expanded (outside the property's quantifier) -/
example : expandMacros {} store0 (.call (.ident "k") [.int 3]) = .ok (.call (.ident "m") [.int 3]) := by
  simp [expandMacros, modify, modifyList, expandCb, isMacroCall, lookupDef, store0, mNested, evalBody, evalBodyStatements,
    evalUnquoteCalls, unquoteCb, evalUnquoteArg, extendMacroEnv, setArg, lookupArg, convertObjectToASTNode]

/-- the hypotheses of `expand_is_subst` are met by `m(1+2)` -/
example : paramOnly (extendMacroEnv mTimes2.params [onePlusTwo] []) (.inf "ASTERISK" (.builtin "UNQUOTE" [.ident "x"]) (.int 2)) = true := by
  simp [paramOnly, paramOnlyList, okUnquote, substList, subst, extendMacroEnv, setArg, lookupArg, mTimes2]

example : subst (extendMacroEnv mTimes2.params [onePlusTwo] []) (.inf "ASTERISK" (.builtin "UNQUOTE" [.ident "x"]) (.int 2))
    = .inf "ASTERISK" onePlusTwo (.int 2) := by
  simp [subst, substList, substUnquote, extendMacroEnv, setArg, lookupArg, mTimes2]

/-- a program without macro calls -/
example : noCalls store0 (.stmts [.call (.ident "f") [onePlusTwo], .inf "ASSIGN" (.ident "m") (.int 1)]) = true := by
  simp [noCalls, noCallsList, isMacroCall, lookupDef, store0, onePlusTwo]

end Grol.Macro.C13

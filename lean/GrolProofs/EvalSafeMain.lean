import GrolProofs.EvalSafeHelpers
/-
C07, part 5: the mutually recursive tree walker (lean/Grol/Eval/Eval.lean): one statement per
function, proved simultaneously by induction on the fuel.
-/
namespace Grol.E

abbrev OkEx : Except Obj (List Obj) → St → Prop := fun r s =>
  (∀ v, r = .ok v → okList s.frames.size v = true) ∧ (∀ e, r = .error e → okObj s.frames.size e = true)

/-- the statement proved for every function of the mutual block, at a given fuel -/
structure Spec (fuel : Nat) : Prop where
  eval : ∀ node st, Inv st → Post (eval fuel node) st OkO
  evalI : ∀ node st, Inv st → Post (evalI fuel node) st OkO
  evalStatements : ∀ l res st, Inv st → okObj st.frames.size res = true → Post (evalStatements fuel l res) st OkO
  evalExpressions : ∀ l acc st, Inv st → okList st.frames.size acc = true → Post (evalExpressions fuel l acc) st OkEx
  evalAssignment : ∀ right op left st, Inv st → okObj st.frames.size right = true →
    Post (evalAssignment fuel right op left) st OkO
  evalIf : ∀ c cons alt st, Inv st → Post (evalIf fuel c cons alt) st OkO
  evalFor : ∀ c body st, Inv st → Post (evalFor fuel c body) st OkO
  evalForLoop : ∀ c body last st, Inv st → okObj st.frames.size last = true → Post (evalForLoop fuel c body last) st OkO
  evalForSpecialForms : ∀ c body st, Inv st → Post (evalForSpecialForms fuel c body) st OkOpt
  evalForInteger : ∀ body i endV name last st, Inv st → okObj st.frames.size last = true →
    Post (evalForInteger fuel body i endV name last) st OkO
  evalForList : ∀ body list name last st, Inv st → okObj st.frames.size list = true →
    okObj st.frames.size last = true → Post (evalForList fuel body list name last) st OkO
  evalBuiltin : ∀ t ps st, Inv st → Post (evalBuiltin fuel t ps) st OkO
  evalPrint : ∀ t ps first buf st, Inv st → Post (evalPrint fuel t ps first buf) st OkO
  evalDelete : ∀ node st, Inv st → Post (evalDelete fuel node) st OkO
  evalIndexExpression : ∀ left tok i st, Inv st → okObj st.frames.size left = true →
    Post (evalIndexExpression fuel left tok i) st OkO
  evalIndexRange : ∀ left li ri st, Inv st → okObj st.frames.size left = true →
    Post (evalIndexRange fuel left li ri) st OkO
  evalMapLiteral : ∀ ks vs big acc st, Inv st → okPairs st.frames.size acc = true →
    Post (evalMapLiteral fuel ks vs big acc) st OkO
  applyExtension : ∀ name args st, Inv st → Post (applyExtension fuel name args) st OkO
  applyFunction : ∀ fn args st, Inv st → okObj st.frames.size fn = true → okList st.frames.size args = true →
    Post (applyFunction fuel fn args) st OkO

theorem np_fuel : ∀ s, Stop.fuel ≠ .goPanic s := fun _ h => by cases h
theorem np_depth : ∀ s, Stop.depthGuard ≠ .goPanic s := fun _ h => by cases h

theorem spec_zero : Spec 0 := by
  constructor
  all_goals intros
  all_goals first
    | (unfold Grol.E.eval; exact Post.stop ‹_› np_fuel)
    | (unfold Grol.E.evalI; exact Post.stop ‹_› np_fuel)
    | (unfold Grol.E.evalStatements; exact Post.stop ‹_› np_fuel)
    | (unfold Grol.E.evalExpressions; exact Post.stop ‹_› np_fuel)
    | (unfold Grol.E.evalAssignment; exact Post.stop ‹_› np_fuel)
    | (unfold Grol.E.evalIf; exact Post.stop ‹_› np_fuel)
    | (unfold Grol.E.evalFor; exact Post.stop ‹_› np_fuel)
    | (unfold Grol.E.evalForLoop; exact Post.stop ‹_› np_fuel)
    | (unfold Grol.E.evalForSpecialForms; exact Post.stop ‹_› np_fuel)
    | (unfold Grol.E.evalForInteger; exact Post.stop ‹_› np_fuel)
    | (unfold Grol.E.evalForList; exact Post.stop ‹_› np_fuel)
    | (unfold Grol.E.evalBuiltin; exact Post.stop ‹_› np_fuel)
    | (unfold Grol.E.evalPrint; exact Post.stop ‹_› np_fuel)
    | (unfold Grol.E.evalDelete; exact Post.stop ‹_› np_fuel)
    | (unfold Grol.E.evalIndexExpression; exact Post.stop ‹_› np_fuel)
    | (unfold Grol.E.evalIndexRange; exact Post.stop ‹_› np_fuel)
    | (unfold Grol.E.evalMapLiteral; exact Post.stop ‹_› np_fuel)
    | (unfold Grol.E.applyExtension; exact Post.stop ‹_› np_fuel)
    | (unfold Grol.E.applyFunction; exact Post.stop ‹_› np_fuel)

/-- tactic: close a leaf goal `Post (pure _) ..` / `Post (stop _) ..` -/
macro "pfin" : tactic => `(tactic| first
  | exact Post.pure ‹Inv _› okObj_err
  | exact Post.pure ‹Inv _› (by assumption)
  | exact Post.pure ‹Inv _› (by simp [OkO, okObj])
  | exact Post.stop ‹Inv _› np_unmodelled
  | exact Post.stop_bind ‹Inv _› np_unmodelled)

theorem post_pure_bind {a : α} {f : α → M β} {st : St} {R : β → St → Prop} (h : Post (f a) st R) :
    Post (pure a >>= f) st R := h

theorem eval_step {fuel : Nat} (ih : Spec fuel) : ∀ node st, Inv st → Post (eval (fuel + 1) node) st OkO := by
  intro node st hI
  unfold Grol.E.eval
  refine Post.bind_read (runM_get st) ?_
  extract_lets jp jp2
  have hjp : ∀ r s, Inv s → okObj s.frames.size r = true → Post (jp r) s OkO := by
    intro r s hIs hr
    unfold jp
    split
    · next e n =>
      simp only [okObj, decide_eq_true_eq] at hr
      exact (post_refValue hIs hr n).mono (fun v s' _ _ h => by obtain ⟨rfl, h2⟩ := h; exact h2)
    · exact Post.pure hIs hr
  refine Post.ite (fun _ => Post.stop_bind hI np_depth) (fun _ => ?_)
  unfold jp2
  refine Post.bind (Q := fun _ s => s.frames = st.frames) (Post.set (hI.update rfl hI.cur rfl hI.cache) (Nat.le_refl _) rfl) ?_
  intro _ s0 hI0 _ _
  refine Post.bind (ih.evalI node s0 hI0) ?_
  intro result s1 hI1 _ hres
  refine Post.bind (Q := fun _ s => s.frames = s1.frames)
    (Post.modify (hI1.update rfl hI1.cur rfl hI1.cache) (Nat.le_refl _) rfl) ?_
  intro _ s2 hI2 _ hfr
  have hsz : s2.frames.size = s1.frames.size := by rw [hfr]
  split
  · next v kind =>
    simp only [OkO, okObj] at hres
    refine Post.ite (fun _ => hjp _ _ hI2 okObj_err) (fun _ => hjp _ _ hI2 (by rw [hsz]; exact hres))
  · exact hjp _ _ hI2 (by rw [hsz]; exact hres)

theorem evalI_step {fuel : Nat} (ih : Spec fuel) : ∀ node st, Inv st → Post (evalI (fuel + 1) node) st OkO := by
  intro node st hI
  unfold Grol.E.evalI
  refine Post.bind_read (runM_get st) ?_
  refine Post.bind (Q := fun _ s => s.frames = st.frames) (Post.set (hI.update rfl hI.cur rfl hI.cache) (Nat.le_refl _) rfl) ?_
  intro _ s0 hI0 _ _
  extract_lets jp
  have hjp : Post (jp ()) s0 OkO := by
    unfold jp
    split
    · exact ih.evalStatements _ _ _ hI0 (by simp [okObj])
    · exact ih.evalIf _ _ _ _ hI0
    · exact ih.evalFor _ _ _ hI0
    · exact post_evalIdentifier hI0 _
    · -- prefix
      refine Post.ite (fun _ => post_evalPrefixIncrDecr hI0 _ _) (fun _ => ?_)
      refine Post.bind (ih.eval _ _ hI0) ?_
      intro r s hIs _ hr
      exact Post.ite (fun _ => Post.pure hIs hr) (fun _ => Post.pure hIs (okObj_evalPrefixOp _ hr))
    · exact post_evalPostfix hI0 _ _
    · -- infix
      next op l r =>
      refine Post.ite (fun _ => ?_) (fun _ => ?_)
      · refine Post.bind (ih.eval _ _ hI0) ?_
        intro right s hIs _ hr
        exact ih.evalAssignment _ _ _ _ hIs hr
      · refine Post.bind (ih.eval _ _ hI0) ?_
        intro left s hIs _ hl
        refine Post.ite (fun _ => Post.pure hIs hl) (fun _ => ?_)
        extract_lets jp3 jp2 jp1
        have h3 : ∀ u, Post (jp3 u) s OkO := by
          intro u
          unfold jp3
          refine Post.bind (ih.eval _ _ hIs) ?_
          intro right s' hIs' hle' hr
          refine Post.ite (fun _ => Post.pure hIs' hr) (fun _ => ?_)
          exact (post_evalInfixOp hIs' op (okObj_mono hle' _ hl) hr).mono
            (fun v s'' _ _ h => by obtain ⟨rfl, h2⟩ := h; exact h2)
        have h2 : ∀ u, Post (jp2 u) s OkO := by
          intro u
          unfold jp2
          refine Post.ite (fun _ => ?_) (fun _ => h3 ())
          split
          · exact Post.ite (fun _ => Post.stop_bind hIs np_unmodelled) (fun _ => h3 ())
          · exact h3 ()
        have h1 : ∀ u, Post (jp1 u) s OkO := by
          intro u
          unfold jp1
          refine Post.ite (fun _ => ?_) (fun _ => h2 ())
          split
          · exact Post.pure hIs (by simp [OkO, okObj])
          · exact h2 ()
        refine Post.ite (fun _ => ?_) (fun _ => h1 ())
        split
        · exact Post.pure hIs (by simp [OkO, okObj])
        · exact h1 ()
    · exact Post.pure hI0 (by simp [OkO, okObj])
    · exact Post.pure hI0 (by simp [OkO, okObj])
    · exact Post.pure hI0 (by simp [OkO, okObj])
    · exact Post.pure hI0 (by simp [OkO, okObj])
    · exact Post.pure hI0 (by simp [OkO, okObj])
    · -- return
      split
      · exact Post.pure hI0 (by simp [OkO, okObj])
      · refine Post.bind (ih.evalI _ _ hI0) ?_
        intro v s hIs _ hv
        exact Post.pure hIs (by simpa [OkO, okObj] using hv)
    · exact ih.evalBuiltin _ _ _ hI0
    · -- function literal
      next name params variadic lambda key body =>
      refine Post.bind_read (runM_curEnv s0) ?_
      extract_lets f
      have hf : okObj s0.frames.size (Obj.func f) = true := by
        simp only [okObj, decide_eq_true_eq]; exact hI0.cur
      split
      · next n =>
        refine Post.bind (post_envSet hI0 hI0.cur n hf) ?_
        intro oerr s hIs hle ho
        exact post_errOr hIs ho (okObj_mono hle _ hf)
      · exact Post.pure hI0 hf
    · -- call
      refine Post.bind (ih.eval _ _ hI0) ?_
      intro f s hIs _ hf
      refine Post.ite (fun _ => Post.pure hIs hf) (fun _ => ?_)
      refine Post.bind (ih.evalExpressions _ _ _ hIs (by simp [okList])) ?_
      intro r s' hIs' hle' hr
      split
      · next e => exact Post.pure hIs' (hr.2 e rfl)
      · next argv =>
        split
        · exact ih.applyExtension _ _ _ hIs'
        · exact ih.applyFunction _ _ _ hIs' (okObj_mono hle' _ hf) (hr.1 argv rfl)
    · -- array literal
      refine Post.bind (ih.evalExpressions _ _ _ hI0 (by simp [okList])) ?_
      intro r s' hIs' _ hr
      split
      · next e => exact Post.pure hIs' (hr.2 e rfl)
      · next v => exact Post.pure hIs' (by simpa [OkO, newArray, okObj] using hr.1 v rfl)
    · -- map literal
      refine Post.bind_read (runM_get s0) ?_
      exact ih.evalMapLiteral _ _ _ _ _ hI0 (by simp [okPairs])
    · -- index
      extract_lets jp1
      have h1 : ∀ u, Post (jp1 u) s0 OkO := by
        intro u
        unfold jp1
        refine Post.bind (ih.eval _ _ hI0) ?_
        intro left s hIs _ hl
        exact ih.evalIndexExpression _ _ _ _ hIs hl
      refine Post.ite (fun _ => ?_) (fun _ => h1 ())
      refine Post.bind_read (runM_get s0) ?_
      exact Post.ite (fun _ => Post.stop_bind hI0 np_unmodelled) (fun _ => h1 ())
    · exact Post.pure hI0 (by simp [OkO, okObj])
    · exact Post.pure hI0 okObj_err
    · exact Post.stop hI0 np_unmodelled
  split
  · exact Post.ite (fun _ => Post.pure hI0 okObj_err) (fun _ => hjp)
  · exact hjp

end Grol.E

import GrolProofs.EvalSafeHelpers
/-
C07, part 5: the mutually recursive tree walker (lean/Grol/Eval/Eval.lean): one statement per
function, proved simultaneously by induction on the fuel.
-/
namespace Grol.E

abbrev OkEx : Except Obj (List Obj) → St → Prop := fun r s =>
  (∀ v, r = .ok v → okList s.frames.size v = true) ∧ (∀ e, r = .error e → okObj s.frames.size e = true)

/-- the statement proved for every function of the mutual block, at a given fuel -/
structure Spec (fuel : Nat) : Prop where
  eval : ∀ node st, Inv st → Post (eval fuel node) st OkO
  evalI : ∀ node st, Inv st → Post (evalI fuel node) st OkO
  evalStatements : ∀ l res st, Inv st → okObj st.frames.size res = true → Post (evalStatements fuel l res) st OkO
  evalExpressions : ∀ l acc st, Inv st → okList st.frames.size acc = true → Post (evalExpressions fuel l acc) st OkEx
  evalAssignment : ∀ right op left st, Inv st → okObj st.frames.size right = true →
    Post (evalAssignment fuel right op left) st OkO
  evalIf : ∀ c cons alt st, Inv st → Post (evalIf fuel c cons alt) st OkO
  evalFor : ∀ c body st, Inv st → Post (evalFor fuel c body) st OkO
  evalForLoop : ∀ c body last st, Inv st → okObj st.frames.size last = true → Post (evalForLoop fuel c body last) st OkO
  evalForSpecialForms : ∀ c body st, Inv st → Post (evalForSpecialForms fuel c body) st OkOpt
  evalForInteger : ∀ body i endV name last st, Inv st → okObj st.frames.size last = true →
    Post (evalForInteger fuel body i endV name last) st OkO
  evalForList : ∀ body list name last st, Inv st → okObj st.frames.size list = true →
    okObj st.frames.size last = true → Post (evalForList fuel body list name last) st OkO
  evalBuiltin : ∀ t ps st, Inv st → Post (evalBuiltin fuel t ps) st OkO
  evalPrint : ∀ t ps first buf st, Inv st → Post (evalPrint fuel t ps first buf) st OkO
  evalDelete : ∀ node st, Inv st → Post (evalDelete fuel node) st OkO
  evalIndexExpression : ∀ left tok i st, Inv st → okObj st.frames.size left = true →
    Post (evalIndexExpression fuel left tok i) st OkO
  evalIndexRange : ∀ left li ri st, Inv st → okObj st.frames.size left = true →
    Post (evalIndexRange fuel left li ri) st OkO
  evalMapLiteral : ∀ ks vs big acc st, Inv st → okPairs st.frames.size acc = true →
    Post (evalMapLiteral fuel ks vs big acc) st OkO
  applyExtension : ∀ name args st, Inv st → Post (applyExtension fuel name args) st OkO
  applyFunction : ∀ fn args st, Inv st → okObj st.frames.size fn = true → okList st.frames.size args = true →
    Post (applyFunction fuel fn args) st OkO

theorem np_fuel : ∀ s, Stop.fuel ≠ .goPanic s := fun _ h => by cases h
theorem np_depth : ∀ s, Stop.depthGuard ≠ .goPanic s := fun _ h => by cases h

theorem spec_zero : Spec 0 := by
  constructor
  all_goals intros
  all_goals first
    | (unfold Grol.E.eval; exact Post.stop ‹_› np_fuel)
    | (unfold Grol.E.evalI; exact Post.stop ‹_› np_fuel)
    | (unfold Grol.E.evalStatements; exact Post.stop ‹_› np_fuel)
    | (unfold Grol.E.evalExpressions; exact Post.stop ‹_› np_fuel)
    | (unfold Grol.E.evalAssignment; exact Post.stop ‹_› np_fuel)
    | (unfold Grol.E.evalIf; exact Post.stop ‹_› np_fuel)
    | (unfold Grol.E.evalFor; exact Post.stop ‹_› np_fuel)
    | (unfold Grol.E.evalForLoop; exact Post.stop ‹_› np_fuel)
    | (unfold Grol.E.evalForSpecialForms; exact Post.stop ‹_› np_fuel)
    | (unfold Grol.E.evalForInteger; exact Post.stop ‹_› np_fuel)
    | (unfold Grol.E.evalForList; exact Post.stop ‹_› np_fuel)
    | (unfold Grol.E.evalBuiltin; exact Post.stop ‹_› np_fuel)
    | (unfold Grol.E.evalPrint; exact Post.stop ‹_› np_fuel)
    | (unfold Grol.E.evalDelete; exact Post.stop ‹_› np_fuel)
    | (unfold Grol.E.evalIndexExpression; exact Post.stop ‹_› np_fuel)
    | (unfold Grol.E.evalIndexRange; exact Post.stop ‹_› np_fuel)
    | (unfold Grol.E.evalMapLiteral; exact Post.stop ‹_› np_fuel)
    | (unfold Grol.E.applyExtension; exact Post.stop ‹_› np_fuel)
    | (unfold Grol.E.applyFunction; exact Post.stop ‹_› np_fuel)

/-- tactic: close a leaf goal `Post (pure _) ..` / `Post (stop _) ..` -/
macro "pfin" : tactic => `(tactic| first
  | exact Post.pure ‹Inv _› okObj_err
  | exact Post.pure ‹Inv _› (by assumption)
  | exact Post.pure ‹Inv _› (by simp [OkO, okObj])
  | exact Post.stop ‹Inv _› np_unmodelled
  | exact Post.stop_bind ‹Inv _› np_unmodelled)

theorem post_pure_bind {a : α} {f : α → M β} {st : St} {R : β → St → Prop} (h : Post (f a) st R) :
    Post (pure a >>= f) st R := h

theorem post_same {x : M Obj} {st : St} (h : Post x st (OkSame st)) : Post x st OkO :=
  h.mono (fun v s _ _ h => by obtain ⟨rfl, h2⟩ := h; exact h2)

theorem eval_step {fuel : Nat} (ih : Spec fuel) : ∀ node st, Inv st → Post (eval (fuel + 1) node) st OkO := by
  intro node st hI
  unfold Grol.E.eval
  refine Post.bind_read (runM_get st) ?_
  extract_lets jp jp2
  have hjp : ∀ r s, Inv s → okObj s.frames.size r = true → Post (jp r) s OkO := by
    intro r s hIs hr
    unfold jp
    split
    · next e n =>
      simp only [okObj, decide_eq_true_eq] at hr
      exact (post_refValue hIs hr n).mono (fun v s' _ _ h => by obtain ⟨rfl, h2⟩ := h; exact h2)
    · exact Post.pure hIs hr
  refine Post.ite (fun _ => Post.stop_bind hI np_depth) (fun _ => ?_)
  unfold jp2
  refine Post.bind (Q := fun _ s => s.frames = st.frames) (Post.set (hI.update rfl hI.cur rfl hI.cache) (Nat.le_refl _) rfl) ?_
  intro _ s0 hI0 _ _
  refine Post.bind (ih.evalI node s0 hI0) ?_
  intro result s1 hI1 _ hres
  refine Post.bind (Q := fun _ s => s.frames = s1.frames)
    (Post.modify (hI1.update rfl hI1.cur rfl hI1.cache) (Nat.le_refl _) rfl) ?_
  intro _ s2 hI2 _ hfr
  have hsz : s2.frames.size = s1.frames.size := by rw [hfr]
  split
  · next v kind =>
    simp only [OkO, okObj] at hres
    refine Post.ite (fun _ => hjp _ _ hI2 okObj_err) (fun _ => hjp _ _ hI2 (by rw [hsz]; exact hres))
  · exact hjp _ _ hI2 (by rw [hsz]; exact hres)

theorem evalI_step {fuel : Nat} (ih : Spec fuel) : ∀ node st, Inv st → Post (evalI (fuel + 1) node) st OkO := by
  intro node st hI
  unfold Grol.E.evalI
  refine Post.bind_read (runM_get st) ?_
  refine Post.bind (Q := fun _ s => s.frames = st.frames) (Post.set (hI.update rfl hI.cur rfl hI.cache) (Nat.le_refl _) rfl) ?_
  intro _ s0 hI0 _ _
  extract_lets jp
  have hjp : Post (jp ()) s0 OkO := by
    unfold jp
    split
    · exact ih.evalStatements _ _ _ hI0 (by simp [okObj])
    · exact ih.evalIf _ _ _ _ hI0
    · exact ih.evalFor _ _ _ hI0
    · exact post_evalIdentifier hI0 _
    · -- prefix
      refine Post.ite (fun _ => post_evalPrefixIncrDecr hI0 _ _) (fun _ => ?_)
      refine Post.bind (ih.eval _ _ hI0) ?_
      intro r s hIs _ hr
      exact Post.ite (fun _ => Post.pure hIs hr) (fun _ => Post.pure hIs (okObj_evalPrefixOp _ hr))
    · exact post_evalPostfix hI0 _ _
    · -- infix
      next op l r =>
      refine Post.ite (fun _ => ?_) (fun _ => ?_)
      · refine Post.bind (ih.eval _ _ hI0) ?_
        intro right s hIs _ hr
        exact ih.evalAssignment _ _ _ _ hIs hr
      · refine Post.bind (ih.eval _ _ hI0) ?_
        intro left s hIs _ hl
        refine Post.ite (fun _ => Post.pure hIs hl) (fun _ => ?_)
        extract_lets jp3 jp2 jp1
        have h3 : ∀ u, Post (jp3 u) s OkO := by
          intro u
          unfold jp3
          refine Post.bind (ih.eval _ _ hIs) ?_
          intro right s' hIs' hle' hr
          refine Post.ite (fun _ => Post.pure hIs' hr) (fun _ => ?_)
          have hfin : ∀ s2 : St, Inv s2 → s2.frames.size = s'.frames.size → Post (evalInfixOp op left right) s2 OkO := by
            intro s2 hIs2 hsz2
            exact post_same (post_evalInfixOp hIs2 op (okObj_mono (by omega) _ hl) (by rw [hsz2]; exact hr))
          try dsimp only
          split
          · refine Post.bind_read (runM_get s') ?_
            refine noteHazard_bind hIs' _ _ _ ?_
            intro s2 hIs2 hsz2
            exact hfin s2 hIs2 hsz2
          · exact hfin s' hIs' rfl
        have h2 : ∀ u, Post (jp2 u) s OkO := by
          intro u
          unfold jp2
          refine Post.ite (fun _ => ?_) (fun _ => h3 ())
          split
          · exact Post.ite (fun _ => Post.stop_bind hIs np_unmodelled) (fun _ => h3 ())
          · exact h3 ()
        have h1 : ∀ u, Post (jp1 u) s OkO := by
          intro u
          unfold jp1
          refine Post.ite (fun _ => ?_) (fun _ => h2 ())
          split
          · exact Post.pure hIs (by simp [OkO, okObj])
          · exact h2 ()
        refine Post.ite (fun _ => ?_) (fun _ => h1 ())
        split
        · exact Post.pure hIs (by simp [OkO, okObj])
        · exact h1 ()
    · exact Post.pure hI0 (by simp [OkO, okObj])
    · exact Post.pure hI0 (by simp [OkO, okObj])
    · exact Post.pure hI0 (by simp [OkO, okObj])
    · exact Post.pure hI0 (by simp [OkO, okObj])
    · exact Post.pure hI0 (by simp [OkO, okObj])
    · -- return
      split
      · exact Post.pure hI0 (by simp [OkO, okObj])
      · refine Post.bind (ih.evalI _ _ hI0) ?_
        intro v s hIs _ hv
        exact Post.pure hIs (by simpa [OkO, okObj] using hv)
    · exact ih.evalBuiltin _ _ _ hI0
    · -- function literal
      next name params variadic lambda key body =>
      refine Post.bind_read (runM_curEnv s0) ?_
      extract_lets f
      have hf : okObj s0.frames.size (Obj.func f) = true := by
        simp only [okObj, decide_eq_true_eq]; exact hI0.cur
      split
      · next n =>
        refine Post.bind (post_envSet hI0 hI0.cur n hf) ?_
        intro oerr s hIs hle ho
        exact post_errOr hIs ho (okObj_mono hle _ hf)
      · exact Post.pure hI0 hf
    · -- call
      refine Post.bind (ih.eval _ _ hI0) ?_
      intro f s hIs _ hf
      refine Post.ite (fun _ => Post.pure hIs hf) (fun _ => ?_)
      refine Post.bind (ih.evalExpressions _ _ _ hIs (by simp [okList])) ?_
      intro r s' hIs' hle' hr
      split
      · next e => exact Post.pure hIs' (hr.2 e rfl)
      · next argv =>
        split
        · exact ih.applyExtension _ _ _ hIs'
        · exact ih.applyFunction _ _ _ hIs' (okObj_mono hle' _ hf) (hr.1 argv rfl)
    · -- array literal
      refine Post.bind (ih.evalExpressions _ _ _ hI0 (by simp [okList])) ?_
      intro r s' hIs' _ hr
      split
      · next e => exact Post.pure hIs' (hr.2 e rfl)
      · next v =>
        refine Post.bind (post_derefList v hIs' (hr.1 v rfl)) ?_
        rintro vs s'' hIs'' _ ⟨rfl, hvs⟩
        exact Post.pure hIs'' (by simpa [OkO, newArray, okObj] using hvs)
    · -- map literal
      refine Post.bind_read (runM_get s0) ?_
      exact ih.evalMapLiteral _ _ _ _ _ hI0 (by simp [okPairs])
    · -- index
      extract_lets jp1
      have h1 : ∀ u, Post (jp1 u) s0 OkO := by
        intro u
        unfold jp1
        refine Post.bind (ih.eval _ _ hI0) ?_
        intro left s hIs _ hl
        exact ih.evalIndexExpression _ _ _ _ hIs hl
      refine Post.ite (fun _ => ?_) (fun _ => h1 ())
      refine Post.bind_read (runM_get s0) ?_
      exact Post.ite (fun _ => Post.stop_bind hI0 np_unmodelled) (fun _ => h1 ())
    · exact Post.pure hI0 (by simp [OkO, okObj])
    · exact Post.pure hI0 okObj_err
    · exact Post.stop hI0 np_unmodelled
  split
  · exact Post.ite (fun _ => Post.pure hI0 okObj_err) (fun _ => hjp)
  · exact hjp

theorem evalStatements_step {fuel : Nat} (ih : Spec fuel) : ∀ l res st, Inv st →
    okObj st.frames.size res = true → Post (evalStatements (fuel + 1) l res) st OkO := by
  intro l res st hI hres
  unfold Grol.E.evalStatements
  split
  · next h => cases h
  · exact Post.pure hI hres
  · next fuel' stmt rest result hf =>
    cases hf
    split
    · exact ih.evalStatements _ _ _ hI hres
    · refine Post.bind (ih.evalI _ _ hI) ?_
      intro r s hIs _ hr
      split
      · exact Post.pure hIs hr
      · exact Post.pure hIs hr
      · exact ih.evalStatements _ _ _ hIs hr

theorem evalExpressions_step {fuel : Nat} (ih : Spec fuel) : ∀ l acc st, Inv st →
    okList st.frames.size acc = true → Post (evalExpressions (fuel + 1) l acc) st OkEx := by
  intro l acc st hI hacc
  unfold Grol.E.evalExpressions
  split
  · next h => cases h
  · exact Post.pure hI ⟨fun v h => (by cases h; exact okList_reverse hacc), fun e h => (by cases h)⟩
  · next fuel' e rest acc' hf =>
    cases hf
    refine Post.bind (ih.evalI _ _ hI) ?_
    intro v s hIs hle hv
    refine Post.ite (fun _ => Post.pure hIs ⟨fun v h => (by cases h), fun e h => (by cases h; exact hv)⟩) (fun _ => ?_)
    refine ih.evalExpressions _ _ _ hIs ?_
    simp only [okList, Bool.and_eq_true]
    exact ⟨hv, okList_mono hle _ hacc⟩

theorem evalAssignment_step {fuel : Nat} (ih : Spec fuel) : ∀ right op left st, Inv st →
    okObj st.frames.size right = true → Post (evalAssignment (fuel + 1) right op left) st OkO := by
  intro right op left st hI hr
  unfold Grol.E.evalAssignment
  refine Post.ite (fun _ => Post.pure hI hr) (fun _ => ?_)
  split
  · split
    · exact post_evalIndexAssignment hI _ (by simp [okObj]) hr
    · exact Post.pure hI okObj_err
  · split
    · refine Post.bind (ih.eval _ _ hI) ?_
      intro index s hIs hle hi
      exact post_evalIndexAssignment hIs _ hi (okObj_mono hle _ hr)
    · exact Post.pure hI okObj_err
  · split
    · refine Post.bind_read (runM_curEnv st) ?_
      exact post_createOrSet hI hI.cur _ hr _
    · exact Post.pure hI okObj_err
  · exact Post.pure hI okObj_err

theorem evalIf_step {fuel : Nat} (ih : Spec fuel) : ∀ c cons alt st, Inv st →
    Post (evalIf (fuel + 1) c cons alt) st OkO := by
  intro c cons alt st hI
  unfold Grol.E.evalIf
  refine Post.bind (ih.evalI _ _ hI) ?_
  intro cv s hIs _ hc
  refine Post.bind (post_valueOf hIs hc) ?_
  rintro condition s' hIs' _ ⟨rfl, _, _⟩
  split
  · exact ih.evalI _ _ hIs'
  · split
    · exact Post.pure hIs' (by simp [OkO, okObj])
    · exact ih.evalI _ _ hIs'
  · exact Post.pure hIs' okObj_err

theorem evalFor_step {fuel : Nat} (ih : Spec fuel) : ∀ c body st, Inv st →
    Post (evalFor (fuel + 1) c body) st OkO := by
  intro c body st hI
  unfold Grol.E.evalFor
  refine Post.bind (ih.evalForSpecialForms _ _ _ hI) ?_
  intro r s hIs _ hr
  split
  · next v => exact Post.pure hIs (hr v rfl)
  · exact ih.evalForLoop _ _ _ _ hIs (by simp [okObj])

theorem evalForLoop_step {fuel : Nat} (ih : Spec fuel) : ∀ c body last st, Inv st →
    okObj st.frames.size last = true → Post (evalForLoop (fuel + 1) c body last) st OkO := by
  intro c body last st hI hlast
  unfold Grol.E.evalForLoop
  refine Post.bind (ih.evalI _ _ hI) ?_
  intro cv s hIs hle hc
  refine Post.bind (post_valueOf hIs hc) ?_
  rintro condition s' hIs' _ ⟨rfl, hcond, _⟩
  split
  · refine Post.bind (ih.evalI _ _ hIs') ?_
    intro r s2 hIs2 hle2 hr
    have hlast2 : okObj s2.frames.size last = true := okObj_mono (by omega) _ hlast
    split
    · exact Post.pure hIs2 hr
    · refine Post.ite (fun _ => Post.pure hIs2 hlast2) (fun _ => ?_)
      exact Post.ite (fun _ => ih.evalForLoop _ _ _ _ hIs2 hlast2) (fun _ => Post.pure hIs2 hr)
    · exact ih.evalForLoop _ _ _ _ hIs2 hr
  · exact Post.pure hIs' (okObj_mono hle _ hlast)
  · exact Post.pure hIs' (okObj_mono hle _ hlast)
  · exact Post.pure hIs' hcond
  · exact ih.evalForInteger _ _ _ _ _ _ hIs' (by simp [okObj])
  · exact Post.pure hIs' okObj_err

theorem okOpt_some {v : Obj} {s : St} (h : okObj s.frames.size v = true) : OkOpt (some v) s :=
  fun _ hv => by cases hv; exact h

theorem post_someOf {x : M Obj} {st : St} (h : Post x st OkO) :
    Post (x >>= fun a => pure (some a)) st OkOpt := by
  refine Post.bind h ?_
  intro a s hIs _ ha
  exact Post.pure hIs (okOpt_some ha)

theorem evalForSpecialForms_step {fuel : Nat} (ih : Spec fuel) : ∀ c body st, Inv st →
    Post (evalForSpecialForms (fuel + 1) c body) st OkOpt := by
  intro c body st hI
  unfold Grol.E.evalForSpecialForms
  split
  · next op l r =>
    refine Post.ite (fun _ => Post.pure hI okOpt_none) (fun _ => ?_)
    split
    · next name =>
      split
      · next rl rr =>
        refine Post.bind (ih.evalI _ _ hI) ?_
        intro start0 s hIs _ hs0
        refine Post.bind (post_valueOf hIs hs0) ?_
        rintro start s hIs _ ⟨rfl, _, _⟩
        split
        · exact Post.pure hIs (okOpt_some okObj_err)
        · refine Post.bind (ih.evalI _ _ hIs) ?_
          intro endV0 s' hIs' _ he0
          refine Post.bind (post_valueOf hIs' he0) ?_
          rintro endV s' hIs' _ ⟨rfl, _, _⟩
          split
          · exact Post.pure hIs' (okOpt_some okObj_err)
          · exact post_someOf (ih.evalForInteger _ _ _ _ _ _ hIs' (by simp [okObj]))
      · refine Post.bind (ih.evalI _ _ hI) ?_
        intro v0 s hIs _ hv0
        refine Post.bind (post_valueOf hIs hv0) ?_
        rintro v s hIs _ ⟨rfl, hv, _⟩
        split
        · exact post_someOf (ih.evalForInteger _ _ _ _ _ _ hIs (by simp [okObj]))
        · exact Post.pure hIs (okOpt_some hv)
        · exact post_someOf (ih.evalForList _ _ _ _ _ hIs hv (by simp [okObj]))
        · exact post_someOf (ih.evalForList _ _ _ _ _ hIs hv (by simp [okObj]))
        · exact post_someOf (ih.evalForList _ _ _ _ _ hIs hv (by simp [okObj]))
        · exact Post.pure hIs okOpt_none
    · exact Post.pure hI (okOpt_some okObj_err)
  · exact Post.pure hI okOpt_none

theorem evalForInteger_step {fuel : Nat} (ih : Spec fuel) : ∀ body i endV name last st, Inv st →
    okObj st.frames.size last = true → Post (evalForInteger (fuel + 1) body i endV name last) st OkO := by
  intro body i endV name last st hI hlast
  unfold Grol.E.evalForInteger
  refine Post.ite (fun _ => Post.pure hI okObj_err) (fun _ => ?_)
  refine Post.ite (fun _ => Post.pure hI hlast) (fun _ => ?_)
  extract_lets jp
  have hjp : ∀ s, Inv s → st.frames.size ≤ s.frames.size → Post (jp ()) s OkO := by
    intro s hIs hle
    unfold jp
    refine Post.bind (ih.evalI _ _ hIs) ?_
    intro r s' hIs' hle' hr
    have hlast' : okObj s'.frames.size last = true := okObj_mono (by omega) _ hlast
    split
    · exact Post.pure hIs' hr
    · refine Post.ite (fun _ => Post.pure hIs' hlast') (fun _ => ?_)
      refine Post.ite (fun _ => ih.evalForInteger _ _ _ _ _ _ hIs' hlast') (fun _ => ?_)
      exact Post.ite (fun _ => Post.pure hIs' hr) (fun _ => Post.pure hIs' okObj_err)
    · exact ih.evalForInteger _ _ _ _ _ _ hIs' hr
  refine Post.ite (fun _ => ?_) (fun _ => hjp st hI (Nat.le_refl _))
  refine Post.bind_read (runM_curEnv st) ?_
  refine Post.bind (post_envSet hI hI.cur name (val := .int (Int64.ofInt i)) (by simp [okObj])) ?_
  intro oerr s hIs hle hoerr
  exact Post.ite (fun _ => Post.pure hIs hoerr) (fun _ => hjp s hIs hle)

theorem evalForList_step {fuel : Nat} (ih : Spec fuel) : ∀ body list name last st, Inv st →
    okObj st.frames.size list = true → okObj st.frames.size last = true →
    Post (evalForList (fuel + 1) body list name last) st OkO := by
  intro body list name last st hI hlist hlast
  unfold Grol.E.evalForList
  refine Post.ite (fun _ => Post.pure hI hlast) (fun _ => ?_)
  refine Post.bind (post_objFirst hI hlist) ?_
  rintro v s hIs _ ⟨rfl, hv⟩
  refine Post.bind (post_objRest hIs hlist) ?_
  rintro rest s hIs' _ ⟨rfl, hrest⟩
  refine Post.bind_read (runM_curEnv s) ?_
  refine Post.bind (post_envSet hIs' hIs'.cur name hv) ?_
  intro oerr s1 hIs1 hle1 hoerr
  refine Post.ite (fun _ => Post.pure hIs1 hoerr) (fun _ => ?_)
  refine Post.bind (ih.evalI _ _ hIs1) ?_
  intro r s2 hIs2 hle2 hr
  have hlast' : okObj s2.frames.size last = true := okObj_mono (by omega) _ hlast
  have hrest' : okObj s2.frames.size rest = true := okObj_mono (by omega) _ hrest
  split
  · exact Post.pure hIs2 hr
  · refine Post.ite (fun _ => Post.pure hIs2 hlast') (fun _ => ?_)
    refine Post.ite (fun _ => ih.evalForList _ _ _ _ _ hIs2 hrest' hlast') (fun _ => ?_)
    exact Post.ite (fun _ => Post.pure hIs2 hr) (fun _ => Post.pure hIs2 okObj_err)
  · exact ih.evalForList _ _ _ _ _ hIs2 hrest' hr

theorem evalBuiltin_step {fuel : Nat} (ih : Spec fuel) : ∀ t ps st, Inv st →
    Post (evalBuiltin (fuel + 1) t ps) st OkO := by
  intro t ps st hI
  unfold Grol.E.evalBuiltin
  split
  next minV varArg _ =>
  refine Post.ite (fun _ => Post.pure hI okObj_err) (fun _ => ?_)
  extract_lets jp2 jp1
  have h2 : Post (jp2 ()) st OkO := by
    unfold jp2
    refine Post.bind (ih.evalI _ _ hI) ?_
    intro val0 s hIs _ hval0
    refine Post.bind (post_valueOf hIs hval0) ?_
    rintro val s hIs _ ⟨rfl, hval, _⟩
    refine Post.ite (fun _ => Post.pure hIs hval) (fun _ => ?_)
    split
    · split
      · refine Post.bind_read (runM_curEnv s) ?_
        refine Post.bind (post_triggerNoCache hIs hIs.cur) ?_
        intro _ s2 hIs2 _ _
        exact Post.pure hIs2 (by simp [OkO, okObj, okPairs, errKey, valueKey])
      · refine Post.pure hIs ?_
        simp only [OkO, okObj, okPairs, errKey, valueKey, Bool.and_eq_true, Bool.true_and, Bool.and_true]
        exact hval
    · refine Post.bind (post_valueOf hIs hval) ?_
      rintro v s' hIs' _ ⟨rfl, hv, _⟩
      exact (post_objFirst hIs' hv).mono (fun v s'' _ _ h => by obtain ⟨rfl, h2⟩ := h; exact h2)
    · refine Post.bind (post_valueOf hIs hval) ?_
      rintro v s' hIs' _ ⟨rfl, hv, _⟩
      exact (post_objRest hIs' hv).mono (fun v s'' _ _ h => by obtain ⟨rfl, h2⟩ := h; exact h2)
    · refine Post.bind (post_valueOf hIs hval) ?_
      rintro v s' hIs' _ ⟨rfl, hv, _⟩
      extract_lets l
      exact Post.ite (fun _ => Post.pure hIs' okObj_err) (fun _ => Post.pure hIs' (by simp [OkO, okObj]))
    · exact Post.pure hIs okObj_err
  have h1 : Post (jp1 ()) st OkO := by
    unfold jp1
    refine Post.ite (fun _ => ih.evalDelete _ _ hI) (fun _ => ?_)
    refine Post.ite (fun _ => ih.evalPrint _ _ _ _ _ hI) (fun _ => ?_)
    exact Post.ite (fun _ => Post.stop_bind hI np_unmodelled) (fun _ => h2)
  exact Post.ite (fun _ => Post.stop_bind hI np_unmodelled) (fun _ => h1)

theorem evalPrint_step {fuel : Nat} (ih : Spec fuel) : ∀ t ps first buf st, Inv st →
    Post (evalPrint (fuel + 1) t ps first buf) st OkO := by
  intro t ps first buf st hI
  unfold Grol.E.evalPrint
  split
  · next h => cases h
  · next n t' _ buf' hf =>
    extract_lets jp
    have hjp : Post (jp ()) st OkO := by
      unfold jp
      refine Post.bind (post_writeOut hI _) ?_
      intro _ s hIs _ _
      exact Post.pure hIs (by simp [OkO, okObj])
    refine Post.ite (fun _ => ?_) (fun _ => hjp)
    split
    · exact Post.pure hI (by simp [OkO, okObj])
    · exact Post.stop_bind hI np_unmodelled
  · next fuel' t' p rest first' buf' hf =>
    cases hf
    extract_lets buf2 jp
    refine Post.bind (ih.evalI _ _ hI) ?_
    intro r s hIs _ hr
    refine Post.ite (fun _ => Post.pure hIs hr) (fun _ => ?_)
    refine Post.bind (post_valueOf hIs hr) ?_
    rintro r' s' hIs' _ ⟨rfl, _, _⟩
    have hjp : ∀ piece, Post (jp piece) s' OkO := by
      intro piece
      unfold jp
      exact ih.evalPrint _ _ _ _ _ hIs'
    split
    · exact hjp _
    · refine Post.bind (Q := fun _ s'' => s'' = s') (Post.liftR hIs' (inspect_npr _) (fun _ _ => rfl)) ?_
      rintro piece s'' _ _ rfl
      exact hjp _

theorem evalDelete_step {fuel : Nat} (ih : Spec fuel) : ∀ node st, Inv st →
    Post (evalDelete (fuel + 1) node) st OkO := by
  intro node st hI
  unfold Grol.E.evalDelete
  refine Post.bind_read (runM_curEnv st) ?_
  refine Post.bind (post_triggerNoCache hI hI.cur) ?_
  rintro _ s hIs _ ⟨_, _⟩
  split
  · refine Post.ite (fun _ => Post.pure hIs okObj_err) (fun _ => ?_)
    extract_lets jp
    have hjp : ∀ s', Inv s' → Post (jp ()) s' OkO := by
      intro s' hIs'
      unfold jp
      refine Post.bind_read (runM_curEnv s') ?_
      exact post_envDelete hIs' hIs'.cur _
    refine Post.ite (fun _ => ?_) (fun _ => hjp s hIs)
    refine Post.bind (Q := fun _ _ => True)
      (Post.modify (hIs.update rfl hIs.cur rfl (fun c hc => by cases hc)) (Nat.le_refl _) trivial) ?_
    intro _ s' hIs' _ _
    exact hjp s' hIs'
  · exact Post.ite (fun _ => Post.pure hIs okObj_err) (fun _ => post_deleteMapEntry hIs _ _)
  · refine Post.bind (ih.eval _ _ hIs) ?_
    intro index s' hIs' _ hi
    exact Post.ite (fun _ => Post.pure hIs' hi) (fun _ => post_deleteMapEntry hIs' _ _)
  · exact Post.pure hIs okObj_err

theorem evalIndexExpression_step {fuel : Nat} (ih : Spec fuel) : ∀ left tok i st, Inv st →
    okObj st.frames.size left = true → Post (evalIndexExpression (fuel + 1) left tok i) st OkO := by
  intro left tok i st hI hl
  unfold Grol.E.evalIndexExpression
  refine Post.ite (fun _ => Post.pure hI hl) (fun _ => ?_)
  refine Post.ite (fun _ => ?_) (fun _ => ?_)
  · exact Post.ite (fun _ => Post.pure hI okObj_err) (fun _ => post_same (post_indexIdx hI hl))
  · split
    · exact ih.evalIndexRange _ _ _ _ hI hl
    · refine Post.bind (ih.eval _ _ hI) ?_
      intro index s hIs hle hi
      exact Post.ite (fun _ => Post.pure hIs hi) (fun _ => post_same (post_indexIdx hIs (okObj_mono hle _ hl)))

theorem evalIndexRange_step {fuel : Nat} (ih : Spec fuel) : ∀ left li ri st, Inv st →
    okObj st.frames.size left = true → Post (evalIndexRange (fuel + 1) left li ri) st OkO := by
  intro left li ri st hI hl
  unfold Grol.E.evalIndexRange
  refine Post.bind (ih.eval _ _ hI) ?_
  intro leftIndex s0 hI0 hle0 _
  extract_lets nilRight num jp
  have hjp : ∀ rightIndex s, Inv s → st.frames.size ≤ s.frames.size → Post (jp rightIndex) s OkO := by
    intro rightIndex s hIs hle
    have hl' : okObj s.frames.size left = true := okObj_mono hle _ hl
    unfold jp
    split
    · try extract_lets
      refine Post.ite (fun _ => Post.pure hIs okObj_err) (fun _ => ?_)
      try extract_lets
      split
      · exact Post.pure hIs (by simp [OkO, okObj])
      · refine Post.pure hIs ?_
        simp only [OkO, newArray, okObj] at hl' ⊢
        exact okList_take (okList_drop hl')
      · refine Post.bind_read (runM_get s) ?_
        refine Post.pure hIs ?_
        simp only [OkO, okObj] at hl' ⊢
        exact okPairs_take (okPairs_drop hl')
      · exact Post.pure hIs (by simp [OkO, okObj])
      · exact Post.pure hIs okObj_err
    · exact Post.pure hIs okObj_err
  refine Post.ite (fun _ => ?_) (fun _ => ?_)
  · exact hjp _ s0 hI0 hle0
  · refine Post.bind (ih.eval _ _ hI0) ?_
    intro rightIndex s1 hI1 hle1 _
    exact hjp _ s1 hI1 (by omega)

theorem evalMapLiteral_step {fuel : Nat} (ih : Spec fuel) : ∀ ks vs big acc st, Inv st →
    okPairs st.frames.size acc = true → Post (evalMapLiteral (fuel + 1) ks vs big acc) st OkO := by
  intro ks vs big acc st hI hacc
  unfold Grol.E.evalMapLiteral
  split
  · next h => cases h
  · next hf =>
    cases hf
    refine Post.bind (ih.eval _ _ hI) ?_
    intro key0 s hIs hle hkey0
    refine Post.bind (post_valueOf hIs hkey0) ?_
    rintro key s hIs _ ⟨rfl, hkey, _⟩
    refine Post.ite (fun _ => Post.pure hIs hkey) (fun _ => ?_)
    refine Post.bind (post_equalsM hIs hkey hkey) ?_
    rintro eq s' hIs' _ rfl
    refine Post.ite (fun _ => Post.pure hIs' okObj_err) (fun _ => ?_)
    refine Post.bind (ih.eval _ _ hIs') ?_
    intro value0 s2 hIs2 hle2 hval0
    refine Post.bind (post_valueOf hIs2 hval0) ?_
    rintro value s2 hIs2 _ ⟨rfl, hval, _⟩
    refine Post.ite (fun _ => Post.pure hIs2 hval) (fun _ => ?_)
    refine Post.bind_read (runM_get s2) ?_
    have hacc2 : okPairs s2.frames.size _ = true :=
      okPairs_mono (by omega) _ (by assumption : okPairs st.frames.size _ = true)
    have hkey2 : okObj s2.frames.size key = true := okObj_mono hle2 _ hkey
    refine Post.bind (Q := fun res s'' => s'' = s2 ∧ okPairs s2.frames.size res.2 = true)
      (Post.liftR hIs2 (mapSet_npr _ _ _ _ _) (fun res hres => ⟨rfl, mapSet_ok hacc2 hkey2 hval hres⟩)) ?_
    rintro ⟨big2, acc2⟩ s3 hIs3 _ ⟨rfl, hk⟩
    exact ih.evalMapLiteral _ _ _ _ _ hIs3 hk
  · exact Post.pure hI (by simpa [OkO, okObj] using hacc)

theorem applyExtension_step {fuel : Nat} : ∀ name args st, Inv st →
    Post (applyExtension (fuel + 1) name args) st OkO := by
  intro name args st hI
  unfold Grol.E.applyExtension
  exact Post.stop hI np_unmodelled

theorem applyFunction_step {fuel : Nat} (ih : Spec fuel) : ∀ fn args st, Inv st →
    okObj st.frames.size fn = true → okList st.frames.size args = true →
    Post (applyFunction (fuel + 1) fn args) st OkO := by
  intro fn args st hI hfn hargs
  unfold Grol.E.applyFunction
  split
  · next f =>
    have hf : f.env < st.frames.size := by simpa [okObj] using hfn
    refine Post.bind_read (runM_curEnv st) ?_
    obtain ⟨cf0, hcf0⟩ := frame_exists hI.cur
    refine Post.bind_read (runM_getFrame hcf0) ?_
    extract_lets skip
    have hcg : Post (if skip = true then pure none else cacheGet f.key args) st (fun r s =>
        s = st ∧ ∀ (v : Obj) (o : Grol.Wire.Bytes), r = some (v, o) → okObj st.frames.size v = true) := by
      split
      · exact Post.pure hI ⟨rfl, fun _ _ h => by cases h⟩
      · exact post_cacheGet hI f.key args
    refine Post.bind hcg ?_
    rintro r s hIs _ ⟨rfl, hr⟩
    split
    · next v output =>
      have hv := hr v output rfl
      extract_lets jp
      have hjp : ∀ s', Inv s' → s.frames.size ≤ s'.frames.size → Post (jp ()) s' OkO := by
        intro s' hIs' hle'
        unfold jp
        exact Post.pure hIs' (okObj_mono hle' _ hv)
      refine Post.ite (fun _ => ?_) (fun _ => hjp s hIs (Nat.le_refl _))
      refine Post.bind (post_writeOut hIs output) ?_
      intro _ s' hIs' hle' _
      exact hjp s' hIs' hle'
    · refine Post.bind (post_extendFunctionEnv hIs hf hargs) ?_
      rintro r1 s1 hI1 hle1 ⟨hok, herr⟩
      split
      · next e => exact Post.pure hI1 (herr e rfl)
      · next nenv =>
        have hnenv := hok nenv rfl
        refine Post.bind_read (runM_curEnv s1) ?_
        refine Post.bind (Q := fun _ s2 => s2.frames.size = s1.frames.size)
          (Post.modify (hI1.update rfl hnenv rfl hI1.cache) (Nat.le_refl _) rfl) ?_
        intro _ s2 hI2 _ hsz2
        extract_lets before
        refine Post.bind (ih.eval _ _ hI2) ?_
        intro res s3' hI3' hle3 hres'
        refine Post.bind (post_getFrame (Q := fun _ s => s.frames.size = s3'.frames.size) hI3' (by omega) (fun _ _ => rfl)) ?_
        intro fr s3 hI3 _ hsz3
        have hres : okObj s3.frames.size res = true := by rw [hsz3]; exact hres'
        extract_lets after cantCache
        refine Post.bind_read (runM_get s3) ?_
        split
        next output outs _ =>
        have hcur : s1.cur < s3.frames.size := by have := hI1.cur; omega
        refine Post.bind (Q := fun _ s4 => s4.frames.size = s3.frames.size)
          (Post.set (hI3.update rfl hcur rfl hI3.cache) (Nat.le_refl _) rfl) ?_
        intro _ s4 hI4 _ hsz4
        exact post_finishCall hI4 f args (by omega) _ _ _ (by rw [hsz4]; exact hres) output
  · exact Post.pure hI okObj_err

theorem spec_succ {fuel : Nat} (ih : Spec fuel) : Spec (fuel + 1) where
  eval := eval_step ih
  evalI := evalI_step ih
  evalStatements := evalStatements_step ih
  evalExpressions := evalExpressions_step ih
  evalAssignment := evalAssignment_step ih
  evalIf := evalIf_step ih
  evalFor := evalFor_step ih
  evalForLoop := evalForLoop_step ih
  evalForSpecialForms := evalForSpecialForms_step ih
  evalForInteger := evalForInteger_step ih
  evalForList := evalForList_step ih
  evalBuiltin := evalBuiltin_step ih
  evalPrint := evalPrint_step ih
  evalDelete := evalDelete_step ih
  evalIndexExpression := evalIndexExpression_step ih
  evalIndexRange := evalIndexRange_step ih
  evalMapLiteral := evalMapLiteral_step ih
  applyExtension := applyExtension_step
  applyFunction := applyFunction_step ih

/-- every function of the tree walker, at every fuel: no Go panic, invariant preserved, results
well scoped -/
theorem spec_all : ∀ fuel, Spec fuel
  | 0 => spec_zero
  | fuel + 1 => spec_succ (spec_all fuel)

end Grol.E

import Grol.CmpTotal
/-
Generic lemmas about three-way comparison functions `c : α → α → Int` (results −1/0/1):
the laws of a total preorder stated pointwise in the first argument (`PW c a`), and how they
lift through lexicographic comparison of lists, pairs, "shorter first" and a partition into
ordered classes.  No dependency on the model.
-/
namespace Grol.Ord

/-- the laws of a total preorder for the comparisons whose first operand is `a` -/
structure PW {α : Type} (c : α → α → Int) (a : α) : Prop where
  sign : ∀ b, c a b = -1 ∨ c a b = 0 ∨ c a b = 1
  refl : c a a = 0
  anti : ∀ b, c b a = -(c a b)
  eqL : ∀ b d, c a b = 0 → c a d = c b d
  eqR : ∀ b d, c b d = 0 → c a b = c a d
  lt : ∀ b d, c a b = -1 → c b d = -1 → c a d = -1

/-- the same laws with the other operands restricted to a set `S` (which contains `a`) -/
structure PWon {α : Type} (S : α → Prop) (c : α → α → Int) (a : α) : Prop where
  sign : ∀ b, S b → (c a b = -1 ∨ c a b = 0 ∨ c a b = 1)
  refl : c a a = 0
  anti : ∀ b, S b → c b a = -(c a b)
  eqL : ∀ b d, S b → S d → c a b = 0 → c a d = c b d
  eqR : ∀ b d, S b → S d → c b d = 0 → c a b = c a d
  lt : ∀ b d, S b → S d → c a b = -1 → c b d = -1 → c a d = -1

/-! ### consequences, once the laws hold everywhere -/

section
variable {α : Type} {c : α → α → Int} (h : ∀ a, PW c a)
include h

theorem le_trans' (a b d : α) (h1 : c a b ≤ 0) (h2 : c b d ≤ 0) : c a d ≤ 0 := by
  have sab := (h a).sign b
  have sbd := (h b).sign d
  rcases sab with e1 | e1 | e1
  · rcases sbd with e2 | e2 | e2
    · have := (h a).lt b d e1 e2; omega
    · have := (h a).eqR b d e2; omega
    · omega
  · have := (h a).eqL b d e1; omega
  · omega

theorem gt_trans' (a b d : α) (h1 : c a b = 1) (h2 : c b d = 1) : c a d = 1 := by
  have a1 := (h a).anti b
  have a2 := (h b).anti d
  have a3 := (h a).anti d
  have := (h d).lt b a (by omega) (by omega)
  omega

theorem total' (a b : α) : c a b ≤ 0 ∨ c b a ≤ 0 := by
  have := (h a).anti b
  have := (h a).sign b
  omega
end

/-! ### pull-back along a function -/

theorem PW.comap {α β : Type} {c : β → β → Int} (f : α → β) (a : α) (h : PW c (f a)) :
    PW (fun x y => c (f x) (f y)) a :=
  ⟨fun b => h.sign (f b), h.refl, fun b => h.anti (f b), fun b d => h.eqL (f b) (f d),
   fun b d => h.eqR (f b) (f d), fun b d => h.lt (f b) (f d)⟩

theorem PW.on {α : Type} {c : α → α → Int} {a : α} (S : α → Prop) (h : PW c a) : PWon S c a :=
  ⟨fun b _ => h.sign b, h.refl, fun b _ => h.anti b, fun b d _ _ => h.eqL b d,
   fun b d _ _ => h.eqR b d, fun b d _ _ => h.lt b d⟩

/-- laws on a set transfer to a function that agrees with `c` on that set -/
theorem PWon.congr {α : Type} {S : α → Prop} {c c' : α → α → Int} {a : α} (ha : S a)
    (e : ∀ x y, S x → S y → c' x y = c x y) (h : PWon S c a) : PWon S c' a := by
  refine ⟨fun b hb => ?_, ?_, fun b hb => ?_, fun b d hb hd => ?_, fun b d hb hd => ?_, fun b d hb hd => ?_⟩
  · rw [e a b ha hb]; exact h.sign b hb
  · rw [e a a ha ha]; exact h.refl
  · rw [e b a hb ha, e a b ha hb]; exact h.anti b hb
  · rw [e a b ha hb, e a d ha hd, e b d hb hd]; exact h.eqL b d hb hd
  · rw [e a b ha hb, e a d ha hd, e b d hb hd]; exact h.eqR b d hb hd
  · rw [e a b ha hb, e a d ha hd, e b d hb hd]; exact h.lt b d hb hd

/-! ### integers -/

theorem cmpZ_PW (a : Int) : PW cmpZ a := by
  refine ⟨fun b => ?_, ?_, fun b => ?_, fun b d => ?_, fun b d => ?_, fun b d => ?_⟩ <;>
    simp only [cmpZ] <;> repeat' split <;> omega

theorem cmpO_PW (a : Option Int) : PW cmpO a := by
  refine ⟨fun b => ?_, ?_, fun b => ?_, fun b d => ?_, fun b d => ?_, fun b d => ?_⟩
  · cases a <;> cases b <;> simp [cmpO]; exact (cmpZ_PW _).sign _
  · cases a <;> simp [cmpO]; exact (cmpZ_PW _).refl
  · cases a <;> cases b <;> simp [cmpO]; exact (cmpZ_PW _).anti _
  · cases a <;> cases b <;> cases d <;> simp [cmpO]; exact (cmpZ_PW _).eqL _ _
  · cases a <;> cases b <;> cases d <;> simp [cmpO]; exact (cmpZ_PW _).eqR _ _
  · cases a <;> cases b <;> cases d <;> simp [cmpO]; exact (cmpZ_PW _).lt _ _

/-! ### lexicographic order on lists (a proper prefix is smaller) -/

def lexI {α : Type} (c : α → α → Int) : List α → List α → Int
  | [], [] => 0
  | [], _ :: _ => -1
  | _ :: _, [] => 1
  | x :: xs, y :: ys => if c x y = 0 then lexI c xs ys else c x y

theorem lexI_PW {α : Type} (c : α → α → Int) :
    ∀ xs : List α, (∀ x ∈ xs, PW c x) → PW (lexI c) xs
  | [], _ => by
    refine ⟨fun b => ?_, ?_, fun b => ?_, fun b d => ?_, fun b d => ?_, fun b d => ?_⟩
    · cases b <;> simp [lexI]
    · simp [lexI]
    · cases b <;> simp [lexI]
    · cases b <;> cases d <;> simp [lexI]
    · cases b <;> cases d <;> simp [lexI]
    · cases b <;> cases d <;> simp [lexI]
  | x :: xs, hx => by
    have px : PW c x := hx x (by simp)
    have ih : PW (lexI c) xs := lexI_PW c xs (fun y hy => hx y (by simp [hy]))
    refine ⟨fun b => ?_, ?_, fun b => ?_, fun b d => ?_, fun b d => ?_, fun b d => ?_⟩
    · cases b with
      | nil => simp [lexI]
      | cons y ys =>
        simp only [lexI]; split
        · exact ih.sign ys
        · exact px.sign y
    · simp only [lexI, px.refl, if_true]; exact ih.refl
    · cases b with
      | nil => simp [lexI]
      | cons y ys =>
        simp only [lexI]
        have := px.anti y
        have := ih.anti ys
        split <;> split <;> omega
    · cases b with
      | nil => simp [lexI]
      | cons y ys =>
        cases d with
        | nil => simp [lexI]
        | cons z zs =>
          simp only [lexI]
          intro h
          split at h
          · rename_i hxy
            rw [px.eqL y z hxy, ih.eqL ys zs h]
          · contradiction
    · cases b with
      | nil =>
        cases d with
        | nil => simp [lexI]
        | cons z zs => simp [lexI]
      | cons y ys =>
        cases d with
        | nil => simp [lexI]
        | cons z zs =>
          simp only [lexI]
          intro h
          split at h
          · rename_i hyz
            rw [px.eqR y z hyz, ih.eqR ys zs h]
          · contradiction
    · cases b with
      | nil => simp [lexI]
      | cons y ys =>
        cases d with
        | nil => simp [lexI]
        | cons z zs =>
          simp only [lexI]
          intro h1 h2
          have sxy := px.sign y
          by_cases hxy : c x y = 0
          · rw [if_pos hxy] at h1
            rw [px.eqL y z hxy]
            split at h2
            · rw [if_pos (by assumption)]; exact ih.lt ys zs h1 h2
            · rw [if_neg (by assumption)]; exact h2
          · rw [if_neg hxy] at h1
            by_cases hyz : c y z = 0
            · rw [if_pos hyz] at h2
              rw [← px.eqR y z hyz, if_neg hxy]; exact h1
            · rw [if_neg hyz] at h2
              have := px.lt y z h1 h2
              rw [if_neg (by omega)]; exact this

/-! ### pairs: first component, then second -/

def pairI {α : Type} (c : α → α → Int) (p q : α × α) : Int :=
  if c p.1 q.1 = 0 then c p.2 q.2 else c p.1 q.1

theorem pairI_PW {α : Type} (c : α → α → Int) (p : α × α) (h1 : PW c p.1) (h2 : PW c p.2) : PW (pairI c) p := by
  have e : ∀ p q : α × α, pairI c p q = lexI c [p.1, p.2] [q.1, q.2] := by
    intro p q; simp only [pairI, lexI]; split <;> simp_all
  have hl : PW (lexI c) [p.1, p.2] := lexI_PW c _ (by intro x hx; simp at hx; rcases hx with rfl | rfl <;> assumption)
  have := PW.comap (c := lexI c) (fun q : α × α => [q.1, q.2]) p hl
  refine ⟨fun b => ?_, ?_, fun b => ?_, fun b d => ?_, fun b d => ?_, fun b d => ?_⟩
  · rw [e]; exact this.sign b
  · rw [e]; exact this.refl
  · rw [e, e]; exact this.anti b
  · rw [e, e, e]; exact this.eqL b d
  · rw [e, e, e]; exact this.eqR b d
  · rw [e, e, e]; exact this.lt b d

/-! ### shorter lists first, lexicographic among equal lengths -/

def lenLexI {α : Type} (c : α → α → Int) (xs ys : List α) : Int :=
  if xs.length < ys.length then -1 else if ys.length < xs.length then 1 else lexI c xs ys

theorem lenLexI_PW {α : Type} (c : α → α → Int) (xs : List α) (h : PW (lexI c) xs) : PW (lenLexI c) xs := by
  refine ⟨fun b => ?_, ?_, fun b => ?_, fun b d => ?_, fun b d => ?_, fun b d => ?_⟩
  · simp only [lenLexI]; split; · simp
    split; · simp
    exact h.sign b
  · simp only [lenLexI, Nat.lt_irrefl, if_false]; exact h.refl
  · simp only [lenLexI]
    have := h.anti b
    repeat' split
    all_goals omega
  · simp only [lenLexI]
    intro h0
    split at h0; · omega
    split at h0; · omega
    have e : xs.length = b.length := by omega
    rw [e, h.eqL b d h0]
  · simp only [lenLexI]
    intro h0
    split at h0; · omega
    split at h0; · omega
    have e : b.length = d.length := by omega
    rw [e, h.eqR b d h0]
  · simp only [lenLexI]
    intro h1 h2
    split at h1
    · split at h2
      · rw [if_pos (by omega)]
      · split at h2; · omega
        rw [if_pos (by omega)]
    · split at h1; · omega
      split at h2
      · rw [if_pos (by omega)]
      · split at h2; · omega
        rw [if_neg (by omega), if_neg (by omega)]
        exact h.lt b d h1 h2

/-! ### ordered classes -/

theorem cls_PW {α : Type} (cls : α → Nat) (c : α → α → Int)
    (hc : ∀ x y, c x y = if cls x < cls y then -1 else if cls y < cls x then 1 else c x y)
    (a : α) (h : PWon (fun b => cls b = cls a) c a) : PW c a := by
  refine ⟨fun b => ?_, h.refl, fun b => ?_, fun b d => ?_, fun b d => ?_, fun b d => ?_⟩
  · rw [hc]; split; · simp
    split; · simp
    exact h.sign b (by omega)
  · rw [hc b a, hc a b]
    split
    · rw [if_neg (by omega)]
    · split
      · rfl
      · exact h.anti b (by omega)
  · intro h0
    rw [hc a b] at h0
    split at h0; · omega
    split at h0; · omega
    have e : cls b = cls a := by omega
    rw [hc a d, hc b d, e]
    split; · rfl
    split; · rfl
    exact h.eqL b d e (by omega) h0
  · intro h0
    rw [hc b d] at h0
    split at h0; · omega
    split at h0; · omega
    have e : cls b = cls d := by omega
    rw [hc a b, hc a d, e]
    split; · rfl
    split; · rfl
    exact h.eqR b d (by omega) (by omega) h0
  · intro h1 h2
    rw [hc a b] at h1
    rw [hc b d] at h2
    rw [hc a d]
    split at h1
    · split at h2
      · rw [if_pos (by omega)]
      · split at h2; · omega
        rw [if_pos (by omega)]
    · split at h1; · omega
      split at h2
      · rw [if_pos (by omega)]
      · split at h2; · omega
        rw [if_neg (by omega), if_neg (by omega)]
        exact h.lt b d (by omega) (by omega) h1 h2

end Grol.Ord

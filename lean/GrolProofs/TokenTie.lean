import GrolProofs.LexStream
/-
Tie between the HAND-WRITTEN constant-token tables of the lexer model (`Grol.Token.cTokens`,
`c2Tokens`, `keywords`, `TType.all`: what `token.Init` builds) and the table REGENERATED from the
code on every run (`Grol.Generated.constLiteral`: `token.ByType(t).Literal()` of the real package for
every value of `token.Type`, written by harness/cmd/harness/extract_precedence.go).

A change of `token/token.go` that adds, drops, renumbers or re-spells a constant token (an operator
character, a two-character operator, a keyword or builtin name) changes the generated table and
breaks one of these theorems at once, without any input having to reach it.  Finite tables:
`decide +kernel` over the whole table is a proof.
-/
namespace Grol.TokenTie
open Grol Grol.Generated Grol.Token Grol.LexStream

/-- the regenerated literal of a model token type, as characters -/
def litChars (t : TType) : Option (List Char) := (constLiteral (genType t)).map (fun s => s.toList)

def chr (b : UInt8) : Char := Char.ofNat b.toNat

/-- the model's enumeration and the generated one have the same length and the same numbering -/
theorem types_numbering :
    TType.all.length = TokType.all.length ∧
    TType.all.all (fun t => (genType t).toNat == t.toNat) = true ∧
    (TType.all.map genType) = TokType.all := by decide +kernel

/-- every `assoc(type, c)` of the model is the code's literal of that type -/
theorem cTokens_generated : cTokens.all (fun p => litChars p.2 == some [chr p.1]) = true := by decide +kernel

/-- every `assocC2(type, "c1c2")` of the model is the code's literal of that type -/
theorem c2Tokens_generated :
    c2Tokens.all (fun p => litChars p.2 == some [chr p.1.1, chr p.1.2]) = true := by decide +kernel

/-- every keyword / builtin name of the model is the code's literal of that type -/
theorem keywords_generated : keywords.all (fun p => litChars p.2 == some (p.1.map chr)) = true := by decide +kernel

/-- the types of the three model tables, in table order -/
def modelConstTypes : List TType := cTokens.map (·.2) ++ c2Tokens.map (·.2) ++ keywords.map (·.2)

/-- conversely: the three model tables cover EXACTLY the types for which the code has a constant literal
(no type twice, and as many as the generated table has entries) -/
theorem tables_cover_generated :
    (TType.all.filter (fun t => (constLiteral (genType t)).isSome)).length = modelConstTypes.length ∧
    modelConstTypes.all (fun t => (constLiteral (genType t)).isSome) = true ∧
    (TType.all.all fun t => decide ((modelConstTypes.filter (· == t)).length ≤ 1)) = true := by decide +kernel

/-- hence a type has a constant literal in the code iff it is in one of the model's tables -/
theorem const_iff_in_tables (t : TType) : (constLiteral (genType t)).isSome = true ↔ t ∈ modelConstTypes := by
  cases t <;> decide +kernel

end Grol.TokenTie

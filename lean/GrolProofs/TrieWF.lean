import GrolProofs.TrieAll
/-
Well-formedness is an invariant of insertion, and is inherited by sub-tries.
-/
namespace Grol.Trie

theorem wf_fresh (b : Bool) : WF (fresh b) := by
  intro i; simp [WF, T.isNil]

theorem wf_empty : WF empty := wf_fresh false

theorem inhab_insert (v mn mx ch) (u : List UInt8) (hu : u ≠ []) : Inhab (insert (.node v mn mx ch) u) := by
  refine ⟨u, ?_⟩
  have := contains_insert u v mn mx ch u
  simp [contains] at this
  rw [this]; simp [hu]

theorem min_le_self (c mn : UInt8) : (if c < mn then c else mn) ≤ c := by
  split
  · exact UInt8.le_refl _
  · next h => exact UInt8.not_lt.1 h

theorem self_le_max (c mx : UInt8) : c ≤ (if c > mx then c else mx) := by
  split
  · exact UInt8.le_refl _
  · next h => exact UInt8.not_lt.1 h

theorem min_le_of_le (c mn i : UInt8) (h : mn ≤ i) : (if c < mn then c else mn) ≤ i := by
  split
  · next h' => exact UInt8.le_trans (UInt8.le_of_lt h') h
  · exact h

theorem le_max_of_le (c mx i : UInt8) (h : i ≤ mx) : i ≤ (if c > mx then c else mx) := by
  split
  · next h' => exact UInt8.le_trans h (UInt8.le_of_lt h')
  · exact h

theorem wf_insert (u : List UInt8) : ∀ (v : Bool) (mn mx : UInt8) (ch : UInt8 → T),
    WF (.node v mn mx ch) → WF (insert (.node v mn mx ch) u) := by
  induction u with
  | nil => intro v mn mx ch h; simpa [insert] using h
  | cons c rest ih =>
    intro v mn mx ch h
    simp only [insert]
    split
    · next hch =>
      intro i
      by_cases hic : i = c
      · subst hic
        simp only [upd, if_true]
        by_cases hr : rest = []
        · subst hr; simp [WF, min_le_self, self_le_max]; exact fun _ => ⟨[], by simp⟩
        · simp only [List.isEmpty_iff, hr, if_false]
          refine ⟨ih _ _ _ _ (wf_fresh false), fun _ => ⟨min_le_self _ _, self_le_max _ _, ?_⟩⟩
          exact inhab_insert _ _ _ _ rest hr
      · simp only [upd, hic, if_false]
        refine ⟨(h i).1, fun hn => ?_⟩
        obtain ⟨h1, h2, h3⟩ := (h i).2 hn
        exact ⟨min_le_of_le _ _ _ h1, le_max_of_le _ _ _ h2, h3⟩
    · next hch =>
      intro i
      by_cases hic : i = c
      · subst hic
        simp only [upd, if_true]
        by_cases hr : rest = []
        · subst hr; simp [WF, min_le_self, self_le_max]; exact fun _ => ⟨[], by simp⟩
        · simp only [List.isEmpty_iff, hr, if_false]
          refine ⟨ih _ _ _ _ (wf_fresh true), fun _ => ⟨min_le_self _ _, self_le_max _ _, ?_⟩⟩
          exact inhab_insert _ _ _ _ rest hr
      · simp only [upd, hic, if_false]
        refine ⟨(h i).1, fun hn => ?_⟩
        obtain ⟨h1, h2, h3⟩ := (h i).2 hn
        exact ⟨min_le_of_le _ _ _ h1, le_max_of_le _ _ _ h2, h3⟩
    · next cv cmn cmx cch hch =>
      intro i
      by_cases hic : i = c
      · subst hic
        simp only [upd, if_true]
        have hc := h i
        rw [hch] at hc
        obtain ⟨h1, h2, _⟩ := hc.2 (by simp [T.isNil])
        by_cases hr : rest = []
        · subst hr
          simp only [List.isEmpty_nil, if_true, setValid]
          exact ⟨hc.1, fun _ => ⟨h1, h2, ⟨[], by simp⟩⟩⟩
        · simp only [List.isEmpty_iff, hr, if_false]
          exact ⟨ih _ _ _ _ hc.1, fun _ => ⟨h1, h2, inhab_insert _ _ _ _ rest hr⟩⟩
      · simp only [upd, hic, if_false]
        exact h i

theorem wf_foldl_insert (ws : List (List UInt8)) : ∀ (v : Bool) (mn mx : UInt8) (ch : UInt8 → T),
    WF (.node v mn mx ch) → WF (ws.foldl insert (.node v mn mx ch)) := by
  induction ws with
  | nil => intro v mn mx ch h; simpa using h
  | cons u us ih =>
    intro v mn mx ch h
    obtain ⟨v', mn', mx', ch', h'⟩ := exists_node_of_isNode (insert_isNode v mn mx ch u)
    simp only [List.foldl_cons, h']
    exact ih _ _ _ _ (h' ▸ wf_insert u v mn mx ch h)

theorem wf_build (ws : List (List UInt8)) : WF (build ws) := wf_foldl_insert ws _ _ _ _ wf_empty

theorem wf_pfx (t : T) (w : List UInt8) (h : WF t) : WF (pfx t w) := by
  induction w generalizing t with
  | nil => simpa using h
  | cons c rest ih =>
    cases t with
    | nil => simp [WF]
    | endMarker => simp [pfx, WF]
    | node v mn mx ch => simpa using ih _ (h c).1

end Grol.Trie

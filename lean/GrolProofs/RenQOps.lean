import GrolProofs.RenQVal
import GrolProofs.RenOps
/-
C04 (B1), part 2b: operators on values (lean/Grol/Eval/Ops.lean) in the quiet simulation: renamed and
clean results from renamed and clean operands.
-/
namespace Grol.R
open Grol.E

/-- close goals `SimQ (pure X) (pure X)` with a result that is trivially clean, conditionals, stops -/
macro "qfin" : tactic => `(tactic| repeat (first
  | exact SimQ.pure ‹StRq _ _ _› ⟨rfl, trivial⟩
  | exact SimQ.stop
  | exact SimQ.stop_bind
  | refine SimQ.ite (fun _ => ?_) (fun _ => ?_)))

theorem qsim_mustBeOk {P : Qp} {s t : St} (hR : StRq P s t) (n : Int) :
    SimQ P (mustBeOk n) (mustBeOk n) s t (fun _ _ => True) := by
  unfold mustBeOk
  exact SimQ.ite (fun _ => SimQ.stop) (fun _ => SimQ.pure hR trivial)

theorem qsim_mustBeOk_bind {P : Qp} {s t : St} (hR : StRq P s t) (n : Int) {f : Unit → M α} {g : Unit → M β}
    {Q : α → β → Prop} (h : ∀ s' t', StRq P s' t' → SimQ P (f ()) (g ()) s' t' Q) (tg : ∀ b, Tr (g b) := by tr_ih) :
    SimQ P (mustBeOk n >>= f) (mustBeOk n >>= g) s t Q :=
  SimQ.bind (qsim_mustBeOk hR n) (fun _ _ s' t' hR' _ => h s' t' hR') (by tr) tg

theorem qsim_evalIntegerInfix {P : Qp} {s t : St} (hR : StRq P s t) (op : String) (l r : Int64) :
    SimQ P (evalIntegerInfix op l r) (evalIntegerInfix op l r) s t (QOq P) := by
  unfold evalIntegerInfix
  split
  all_goals first
    | (qfin; done)
    | skip
  all_goals
    try dsimp only
    refine SimQ.ite (fun _ => SimQ.pure hR ⟨rfl, trivial⟩) (fun _ => ?_)
    refine qsim_mustBeOk_bind hR _ (fun s' t' hR' => ?_)
    refine SimQ.pure hR' ⟨?_, clean_newArray.2 (cleanL_iff.1 (cleanL_int64Range _ _))⟩
    simp only [newArray, ren, renL_int64Range]

theorem qsim_evalFloatInfix {P : Qp} {s t : St} (hR : StRq P s t) (op : String) (l r : Obj) :
    SimQ P (evalFloatInfix op (ren P.σ l) (ren P.σ r)) (evalFloatInfix op l r) s t (QOq P) := by
  unfold evalFloatInfix
  rw [getFloat_ren, getFloat_ren]
  split
  · split <;> qfin
  · qfin

theorem qsim_evalStringInfix_same {P : Qp} {s t : St} (hR : StRq P s t) (op : String) (l : List UInt8) (r : Obj) :
    SimQ P (evalStringInfix op l r) (evalStringInfix op l r) s t (fun a b => a = b ∧ clean P b ∧ ren P.σ b = b) := by
  unfold evalStringInfix
  split
  · refine qsim_mustBeOk_bind hR _ (fun s' t' hR' => ?_); exact SimQ.pure hR' ⟨rfl, trivial, rfl⟩
  · refine SimQ.ite (fun _ => SimQ.pure hR ⟨rfl, trivial, rfl⟩) (fun _ => ?_)
    refine qsim_mustBeOk_bind hR _ (fun s' t' hR' => ?_)
    exact SimQ.ite (fun _ => SimQ.pure hR' ⟨rfl, trivial, rfl⟩) (fun _ => SimQ.pure hR' ⟨rfl, trivial, rfl⟩)
  · exact SimQ.pure hR ⟨rfl, trivial, rfl⟩

theorem qsim_evalStringInfix {P : Qp} {s t : St} (hR : StRq P s t) (op : String) (l : List UInt8) (r : Obj) :
    SimQ P (evalStringInfix op l (ren P.σ r)) (evalStringInfix op l r) s t (QOq P) := by
  have hsame : ∀ r', SimQ P (evalStringInfix op l r') (evalStringInfix op l r') s t (QOq P) := fun r' =>
    (qsim_evalStringInfix_same hR op l r').mono (fun a b h => And.intro (by rw [h.1, h.2.2]) h.2.1)
  cases r with
  | str x => exact hsame _
  | int x => exact hsame _
  | _ =>
    all_goals
      rw [evalStringInfix_other op l _ (by intro r h; cases h) (by intro n h; cases h),
        evalStringInfix_other op l _ (by intro r h; simp [ren] at h) (by intro n h; simp [ren] at h)]
      exact SimQ.pure hR ⟨rfl, trivial⟩

/-! ### arrays -/

theorem qsim_evalArrayInfix {P : Qp} {s t : St} (hR : StRq P s t) (op : String) (l : List Obj) {a right : Obj}
    (ha : a = ren P.σ right) (hcl : cleanL P l) (hcr : clean P right) :
    SimQ P (evalArrayInfix op (renL P.σ l) a) (evalArrayInfix op l right) s t (QOq P) := by
  subst ha
  unfold evalArrayInfix
  split
  · rw [int64Value_ren]
    split
    · qfin
    · refine SimQ.ite (fun _ => SimQ.pure hR ⟨rfl, trivial⟩) (fun _ => ?_)
      rw [renL_length, renL_isEmpty]
      refine qsim_mustBeOk_bind hR _ (fun s' t' hR' => ?_)
      refine SimQ.ite (fun _ => SimQ.pure hR' ⟨rfl, trivial⟩) (fun _ => SimQ.pure hR' ⟨?_, cleanL_repeat hcl _⟩)
      simp only [newArray, ren, renL_repeat]
  · cases right with
    | array r =>
      simp only [ren, renL_length]
      refine qsim_mustBeOk_bind hR _ (fun s' t' hR' => ?_)
      refine SimQ.pure hR' ⟨?_, cleanL_append hcl hcr⟩
      simp only [newArray, ren, renL_append]
    | _ =>
      all_goals
        refine SimQ.bind (qsim_valueOf hR _ hcr) ?_
        rintro x v s' t' hR' ⟨rfl, _, hcv⟩
        refine SimQ.pure hR' ⟨?_, cleanL_append hcl ⟨hcv, trivial⟩⟩
        simp only [newArray, ren, renL_append, renL]
  · qfin

/-! ### comparison -/

theorem qsim_equalsM {P : Qp} {s t : St} (hR : StRq P s t) (a b : Obj) (hca : clean P a) (hcb : clean P b) :
    SimQ P (equalsM (ren P.σ a) (ren P.σ b)) (equalsM a b) s t (fun x y => x = y) := by
  unfold equalsM
  rw [ren_typeNum, ren_typeNum]
  try dsimp only
  refine SimQ.ite (fun _ => SimQ.pure hR rfl) (fun _ => ?_)
  refine SimQ.bind (qsim_valueOf hR a hca) ?_
  rintro _ x s1 t1 hR1 ⟨rfl, _, _⟩
  refine SimQ.bind (qsim_valueOf hR1 b hcb) ?_
  rintro _ y s2 t2 hR2 ⟨rfl, _, _⟩
  rw [cmp_ren]
  refine SimQ.bind (Q := fun c c' => c = c') (SimQ.liftR hR2 (RelR.of_eq (f := id) (by cases cmp x y <;> rfl) (fun _ => rfl))) ?_
  rintro c _ s3 t3 hR3 rfl
  exact SimQ.pure hR3 rfl

theorem qsim_cmpM {P : Qp} {s t : St} (hR : StRq P s t) (a b : Obj) (hca : clean P a) (hcb : clean P b) :
    SimQ P (cmpM (ren P.σ a) (ren P.σ b)) (cmpM a b) s t (fun x y => x = y) := by
  unfold cmpM
  refine SimQ.bind (qsim_valueOf hR a hca) ?_
  rintro _ x s1 t1 hR1 ⟨rfl, _, _⟩
  refine SimQ.bind (qsim_valueOf hR1 b hcb) ?_
  rintro _ y s2 t2 hR2 ⟨rfl, _, _⟩
  rw [cmp_ren]
  exact SimQ.liftR hR2 (RelR.of_eq (f := id) (by cases cmp x y <;> rfl) (fun _ => rfl))

theorem qsim_boolOf {P : Qp} {s t : St} {x y : M α} {g : α → Bool} (h : SimQ P x y s t (fun a b => a = b)) (ty : Tr y) :
    SimQ P (x >>= fun a => pure (boolObj (g a))) (y >>= fun a => pure (boolObj (g a))) s t (QOq P) := by
  refine SimQ.bind h ?_ ty
  rintro a _ s' t' hR' rfl
  exact SimQ.pure hR' ⟨rfl, trivial⟩

theorem qsim_evalFloatInfix' {P : Qp} {s t : St} (hR : StRq P s t) (op : String) {a b l r : Obj}
    (ha : a = ren P.σ l) (hb : b = ren P.σ r) :
    SimQ P (evalFloatInfix op a b) (evalFloatInfix op l r) s t (QOq P) := by
  subst ha; subst hb; exact qsim_evalFloatInfix hR op l r

theorem qsim_evalStringInfix' {P : Qp} {s t : St} (hR : StRq P s t) (op : String) (l : List UInt8) {a r : Obj}
    (ha : a = ren P.σ r) : SimQ P (evalStringInfix op l a) (evalStringInfix op l r) s t (QOq P) := by
  subst ha; exact qsim_evalStringInfix hR op l r

theorem qsim_mapPlus {P : Qp} {s t : St} (hR : StRq P s t) (op : String) (lb : Bool) (l r : List (Obj × Obj))
    (hcl : cleanP P l) (hcr : cleanP P r) :
    SimQ P
      (if (op == "PLUS") = true then do
        let __do_lift ← get
        let __x ← Grol.E.liftR (mapAppend __do_lift.cfg lb (renP P.σ l) (renP P.σ r))
        match __x with
          | (big, kvs) => pure (Obj.map big kvs)
      else pure (err "unknown operator"))
      (if (op == "PLUS") = true then do
        let __do_lift ← get
        let __x ← Grol.E.liftR (mapAppend __do_lift.cfg lb l r)
        match __x with
          | (big, kvs) => pure (Obj.map big kvs)
      else pure (err "unknown operator")) s t (QOq P) := by
  refine SimQ.ite (fun _ => ?_) (fun _ => SimQ.pure hR ⟨rfl, trivial⟩)
  refine SimQ.bind_read (runM_get s) (runM_get t) ?_
  rw [hR.cfg, mapAppend_ren]
  refine SimQ.bind (Q := fun a b => a = (b.1, renP P.σ b.2) ∧ cleanP P b.2)
    (SimQ.liftR' (f := fun p => (p.1, renP P.σ p.2)) hR rfl (fun b hb => ⟨rfl, mapAppend_clean hcl hcr hb⟩)) ?_
  rintro _ ⟨big, kvs⟩ s' t' hR' ⟨rfl, hc⟩
  exact SimQ.pure hR' ⟨rfl, hc⟩

theorem clean_arr {P : Qp} {l : List Obj} (h : clean P (.array l)) : cleanL P l := h
theorem clean_mp {P : Qp} {b : Bool} {l : List (Obj × Obj)} (h : clean P (.map b l)) : cleanP P l := h

theorem qsim_infixDefault {P : Qp} {s t : St} (hR : StRq P s t) (op : String) (left right : Obj)
    (hcl : clean P left) (hcr : clean P right) :
    SimQ P
      (match ren P.σ left, ren P.σ right with
      | Obj.int l, Obj.int r => evalIntegerInfix op l r
      | Obj.float _, _ => evalFloatInfix op (ren P.σ left) (ren P.σ right)
      | _, Obj.float _ => evalFloatInfix op (ren P.σ left) (ren P.σ right)
      | Obj.str l, _ => evalStringInfix op l (ren P.σ right)
      | Obj.array l, _ => evalArrayInfix op l (ren P.σ right)
      | Obj.map lb l, Obj.map _ r =>
        if (op == "PLUS") = true then do
          let __do_lift ← get
          let __x ← Grol.E.liftR (mapAppend __do_lift.cfg lb l r)
          match __x with
            | (big, kvs) => pure (Obj.map big kvs)
        else pure (err "unknown operator")
      | _, _ => pure (err "no operator on these operands"))
      (match left, right with
      | Obj.int l, Obj.int r => evalIntegerInfix op l r
      | Obj.float _, _ => evalFloatInfix op left right
      | _, Obj.float _ => evalFloatInfix op left right
      | Obj.str l, _ => evalStringInfix op l right
      | Obj.array l, _ => evalArrayInfix op l right
      | Obj.map lb l, Obj.map _ r =>
        if (op == "PLUS") = true then do
          let __do_lift ← get
          let __x ← Grol.E.liftR (mapAppend __do_lift.cfg lb l r)
          match __x with
            | (big, kvs) => pure (Obj.map big kvs)
        else pure (err "unknown operator")
      | _, _ => pure (err "no operator on these operands")) s t (QOq P) := by
  cases left with
  | int l =>
    cases right with
    | int r => exact qsim_evalIntegerInfix hR op _ _
    | float r => exact qsim_evalFloatInfix' hR op rfl rfl
    | _ => all_goals exact SimQ.pure hR ⟨rfl, trivial⟩
  | float l => cases right <;> exact qsim_evalFloatInfix' hR op rfl rfl
  | str l =>
    cases right with
    | float r => exact qsim_evalFloatInfix' hR op rfl rfl
    | _ => all_goals exact qsim_evalStringInfix' hR op _ rfl
  | array l =>
    cases right with
    | float r => exact qsim_evalFloatInfix' hR op rfl rfl
    | _ => all_goals exact qsim_evalArrayInfix hR op _ rfl (clean_arr hcl) hcr
  | map lb l =>
    cases right with
    | float r => exact qsim_evalFloatInfix' hR op rfl rfl
    | map rb r => exact qsim_mapPlus hR op _ _ _ (clean_mp hcl) (clean_mp hcr)
    | _ => all_goals exact SimQ.pure hR ⟨rfl, trivial⟩
  | _ =>
    all_goals
      cases right with
      | float r => exact qsim_evalFloatInfix' hR op rfl rfl
      | _ => all_goals exact SimQ.pure hR ⟨rfl, trivial⟩

theorem qsim_evalInfixOp {P : Qp} {s t : St} (hR : StRq P s t) (op : String) (left right : Obj)
    (hcl : clean P left) (hcr : clean P right) :
    SimQ P (evalInfixOp op (ren P.σ left) (ren P.σ right)) (evalInfixOp op left right) s t (QOq P) := by
  unfold evalInfixOp
  split
  · exact qsim_boolOf (g := fun b => b) (qsim_equalsM hR left right hcl hcr) (by tr)
  · exact qsim_boolOf (g := fun b => !b) (qsim_equalsM hR left right hcl hcr) (by tr)
  · exact qsim_boolOf (g := fun c => c == 1) (qsim_cmpM hR left right hcl hcr) (by tr)
  · exact qsim_boolOf (g := fun c => c == -1) (qsim_cmpM hR left right hcl hcr) (by tr)
  · exact qsim_boolOf (g := fun c => decide (c ≥ 0)) (qsim_cmpM hR left right hcl hcr) (by tr)
  · exact qsim_boolOf (g := fun c => decide (c ≤ 0)) (qsim_cmpM hR left right hcl hcr) (by tr)
  · exact SimQ.pure hR ⟨and_ren P.σ left right, trivial⟩
  · exact SimQ.pure hR ⟨or_ren P.σ left right, trivial⟩
  · exact qsim_infixDefault hR op left right hcl hcr

/-! ### first / rest / len / index / prefix -/

theorem qsim_objFirst {P : Qp} {s t : St} (hR : StRq P s t) (o : Obj) (hco : clean P o) :
    SimQ P (objFirst (ren P.σ o)) (objFirst o) s t (QOq P) := by
  cases o with
  | array els =>
    cases els with
    | nil => exact SimQ.pure hR ⟨rfl, trivial⟩
    | cons x rest => exact SimQ.pure hR ⟨rfl, hco.1⟩
  | map b kvs =>
    cases kvs with
    | nil => exact SimQ.pure hR ⟨rfl, trivial⟩
    | cons kv rest => obtain ⟨k, v⟩ := kv; exact SimQ.pure hR ⟨rfl, clean_makeFirst hco.1 hco.2.1⟩
  | str x =>
    cases x with
    | nil => exact SimQ.pure hR ⟨rfl, trivial⟩
    | cons c rest =>
      simp only [ren]
      unfold objFirst
      refine SimQ.ite (fun _ => SimQ.pure hR ⟨rfl, trivial⟩) (fun _ => ?_)
      exact SimQ.ite (fun _ => SimQ.stop) (fun _ => SimQ.stop)
  | func f =>
    refine SimQ.pure hR ⟨?_, ?_⟩
    · simp only [ren, renFn, newArray]
      congr 1
      rw [renL_eq]
      simp only [List.map_map]
      rfl
    · rw [clean_newArray]
      intro x hx
      simp only [List.mem_map] at hx
      obtain ⟨p, _, rfl⟩ := hx
      trivial
  | _ => all_goals exact SimQ.pure hR ⟨rfl, trivial⟩

theorem qsim_objRest {P : Qp} {s t : St} (hR : StRq P s t) (o : Obj) (hco : clean P o) :
    SimQ P (objRest (ren P.σ o)) (objRest o) s t (QOq P) := by
  cases o with
  | array els =>
    simp only [ren]
    unfold objRest
    dsimp only
    rw [renL_length]
    refine SimQ.ite (fun _ => SimQ.pure hR ⟨rfl, trivial⟩) (fun _ => SimQ.pure hR ⟨?_, cleanL_drop hco 1⟩)
    simp only [newArray, ren, renL_drop]
  | map b kvs =>
    simp only [ren]
    unfold objRest
    dsimp only
    rw [renP_length]
    refine SimQ.ite (fun _ => SimQ.pure hR ⟨rfl, trivial⟩) (fun _ => ?_)
    refine SimQ.bind_read (runM_get s) (runM_get t) ?_
    rw [hR.cfg]
    refine SimQ.pure hR ⟨?_, cleanP_drop hco 1⟩
    simp only [ren, renP_drop]
  | str x =>
    simp only [ren]
    unfold objRest
    dsimp only
    qfin
  | func f =>
    simp only [ren]
    unfold objRest
    dsimp only
    exact SimQ.stop
  | _ => all_goals exact SimQ.pure hR ⟨rfl, trivial⟩

theorem qsim_indexIdx {P : Qp} {s t : St} (hR : StRq P s t) (left index : Obj) (hcl : clean P left) :
    SimQ P (indexIdx (ren P.σ left) (ren P.σ index)) (indexIdx left index) s t (QOq P) := by
  rw [indexIdx_eq, indexIdx_eq, idxOf_ren]
  generalize idxOf index = idx?
  unfold idxBody
  cases left with
  | str x =>
    simp only [ren]
    cases idx? with
    | none => exact SimQ.pure hR ⟨rfl, trivial⟩
    | some idx => dsimp only; qfin
  | array els =>
    simp only [ren]
    cases idx? with
    | none => exact SimQ.pure hR ⟨rfl, trivial⟩
    | some idx => exact SimQ.pure hR ⟨arrayIndex_ren P.σ els idx, clean_arrayIndex hcl idx⟩
  | map b kvs =>
    simp only [ren]
    have : SimQ P (do
            let __do_lift ← Grol.E.liftR (mapGet (renP P.σ kvs) (ren P.σ index))
            match __do_lift with
              | some v => pure v
              | none => pure Obj.null)
          (do
            let __do_lift ← Grol.E.liftR (mapGet kvs index)
            match __do_lift with
              | some v => pure v
              | none => pure Obj.null) s t (QOq P) := by
      rw [mapGet_ren]
      refine SimQ.bind (Q := fun a b => a = b.map (ren P.σ) ∧ ∀ v, b = some v → clean P v)
        (SimQ.liftR' (f := Option.map (ren P.σ)) hR rfl
          (fun b hb => ⟨rfl, fun v hv => mapGet_clean hcl (by rw [hb, hv])⟩)) ?_
      rintro _ r s' t' hR' ⟨rfl, hc⟩
      cases r with
      | none => exact SimQ.pure hR' ⟨rfl, trivial⟩
      | some v => exact SimQ.pure hR' ⟨rfl, hc v rfl⟩
    cases idx? <;> exact this
  | null => cases idx? <;> exact SimQ.pure hR ⟨rfl, trivial⟩
  | _ => all_goals (cases idx? <;> exact SimQ.pure hR ⟨rfl, trivial⟩)

end Grol.R

import Grol.Trie
/-
Lemmas about the trie model: membership after insertion.
-/
namespace Grol.Trie

@[simp] theorem pfx_nil_left (w : List UInt8) : pfx .nil w = .nil := by
  cases w <;> simp [pfx]

theorem pfx_endMarker (w : List UInt8) : pfx .endMarker w = if w = [] then .endMarker else .nil := by
  cases w <;> simp [pfx]

@[simp] theorem isValid_nil : isValid .nil = false := rfl
@[simp] theorem isValid_endMarker : isValid .endMarker = true := rfl
@[simp] theorem isValid_node (v mn mx ch) : isValid (.node v mn mx ch) = v := rfl

@[simp] theorem pfx_cons_node (v mn mx ch c rest) : pfx (.node v mn mx ch) (c :: rest) = pfx (ch c) rest := by
  simp [pfx]

@[simp] theorem pfx_nil_right (t : T) : pfx t [] = t := by simp [pfx]

theorem contains_fresh (b : Bool) (w : List UInt8) : contains (fresh b) w = (b && w.isEmpty) := by
  cases w <;> simp [contains, fresh]

theorem pfx_append (t : T) (a b : List UInt8) : pfx t (a ++ b) = pfx (pfx t a) b := by
  induction a generalizing t with
  | nil => simp
  | cons c rest ih =>
    cases t with
    | nil => simp
    | endMarker => simp [pfx]
    | node v mn mx ch => simp [ih]

def T.isNode : T → Bool
  | .node .. => true
  | _ => false

theorem insert_isNode (v mn mx ch) (u : List UInt8) : (insert (.node v mn mx ch) u).isNode = true := by
  cases u with
  | nil => simp [insert, T.isNode]
  | cons c rest =>
    simp only [insert]
    split <;> simp [T.isNode]

theorem exists_node_of_isNode {t : T} (h : t.isNode = true) : ∃ v mn mx ch, t = .node v mn mx ch := by
  cases t <;> simp [T.isNode] at h
  exact ⟨_, _, _, _, rfl⟩

/-- one insertion adds exactly the inserted (non-empty) word -/
theorem contains_insert (u : List UInt8) : ∀ (v : Bool) (mn mx : UInt8) (ch : UInt8 → T) (w : List UInt8),
    contains (insert (.node v mn mx ch) u) w = (contains (.node v mn mx ch) w || (w == u && !u.isEmpty)) := by
  induction u with
  | nil => intro v mn mx ch w; simp [insert]
  | cons c rest ih =>
    intro v mn mx ch w
    cases w with
    | nil =>
      simp only [insert]
      split <;> simp [contains]
    | cons d wr =>
      simp only [insert]
      by_cases hdc : d = c
      · subst hdc
        split
        · next hch =>
          simp [contains, upd, hch]
          by_cases hr : rest = []
          · subst hr; simp [pfx_endMarker]; cases wr <;> simp
          · have := ih false 255 0 (fun _ => .nil) wr
            simp [fresh, hr, contains] at this ⊢
            rw [this]; cases wr <;> simp [hr]
        · next hch =>
          simp [contains, upd, hch]
          by_cases hr : rest = []
          · subst hr; simp [pfx_endMarker]; cases wr <;> simp
          · have := ih true 255 0 (fun _ => .nil) wr
            simp [fresh, hr, contains] at this ⊢
            rw [this]; simp [pfx_endMarker]; cases wr <;> simp [hr]
        · next cv cmn cmx cch hch =>
          simp [contains, upd, hch]
          by_cases hr : rest = []
          · subst hr; simp [setValid]; cases wr <;> simp
          · have := ih cv cmn cmx cch wr
            simp [hr, contains] at this ⊢
            rw [this]; cases rest <;> simp_all
      · have hne : (d :: wr == c :: rest) = false := by simp [hdc]
        split <;> simp [contains, upd, hdc]

theorem contains_foldl_insert (ws : List (List UInt8)) : ∀ (v : Bool) (mn mx : UInt8) (ch : UInt8 → T) (w : List UInt8),
    contains (ws.foldl insert (.node v mn mx ch)) w
      = (contains (.node v mn mx ch) w || (ws.contains w && !w.isEmpty)) := by
  induction ws with
  | nil => intro v mn mx ch w; simp
  | cons u us ih =>
    intro v mn mx ch w
    obtain ⟨v', mn', mx', ch', h⟩ := exists_node_of_isNode (insert_isNode v mn mx ch u)
    simp only [List.foldl_cons, h, ih]
    rw [← h, contains_insert]
    by_cases hwu : w = u
    · subst hwu; simp; intro _ h2; exact Or.inr h2
    · have : (w == u) = false := by simp [hwu]
      simp [this, hwu]

end Grol.Trie

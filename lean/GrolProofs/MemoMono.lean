import GrolProofs.EvalFrame
import GrolProofs.EnvRun
/-
C04, step 1 of the footprint lemma: the miss counter of every frame (`Frame.getMiss`, the number
`applyFunction` reads before and after the body) never decreases, and the heap of frames never
shrinks, through ANY computation of the evaluator model, whatever its outcome.

Consequence (`MemoFootprint.lean`): a computation that leaves a counter where it was leaves it where
it was in every sub-computation — "after = before" is inherited by every step of the call.
-/
namespace Grol.E

/-- the miss counter of frame `e` (0 for a frame that does not exist yet) -/
def missOf (st : St) (e : Nat) : Nat :=
  match st.frames[e]? with
  | some f => f.getMiss
  | none => 0

/-- the transition invariant: frames are only added, miss counters only grow -/
structure Grows (st st' : St) : Prop where
  size : st.frames.size ≤ st'.frames.size
  miss : ∀ e, missOf st e ≤ missOf st' e

theorem Grows.refl (st : St) : Grows st st := ⟨Nat.le_refl _, fun _ => Nat.le_refl _⟩

theorem Grows.trans {a b c : St} (h1 : Grows a b) (h2 : Grows b c) : Grows a c :=
  ⟨Nat.le_trans h1.size h2.size, fun e => Nat.le_trans (h1.miss e) (h2.miss e)⟩

theorem Grows.of_frames_eq {st st' : St} (h : st'.frames = st.frames) : Grows st st' := by
  refine ⟨by rw [h]; exact Nat.le_refl _, fun e => ?_⟩
  unfold missOf; rw [h]; exact Nat.le_refl _

/-- `x` only ever grows the counters, from every state, whatever the outcome -/
structure Tr (x : M α) : Prop where
  h : ∀ st, Grows st (stateAfter x st)

theorem tr_pure (a : α) : Tr (pure a : M α) := ⟨fun st => Grows.refl st⟩
theorem tr_stop (e : Stop) : Tr (stop e : M α) := ⟨fun st => Grows.refl st⟩
theorem tr_throw (e : Stop) : Tr (throw e : M α) := ⟨fun st => Grows.refl st⟩
theorem tr_get : Tr (get : M St) := ⟨fun st => Grows.refl st⟩

theorem tr_bind {x : M α} {f : α → M β} (hx : Tr x) (hf : ∀ a, Tr (f a)) : Tr (x >>= f) := by
  constructor
  intro st
  rw [stateAfter_bind]
  cases h : outcome x st with
  | error e => exact hx.h st
  | ok a => exact (hx.h st).trans ((hf a).h _)

theorem tr_liftR (r : R α) : Tr (liftR r) := by
  cases r with
  | ok a => exact tr_pure a
  | error e => exact tr_stop e

/-- a state update that does not touch the frames -/
def FramesKept (g : St → St) : Prop := ∀ st, (g st).frames = st.frames

theorem tr_modify {g : St → St} (hg : FramesKept g) : Tr (modify g : M PUnit) :=
  ⟨fun st => Grows.of_frames_eq (hg st)⟩

theorem tr_get_set {g : St → St} (hg : FramesKept g) {k : St → M β} (hk : ∀ s, Tr (k s)) :
    Tr (get >>= fun st => set (g st) >>= fun _ => k st) := by
  constructor
  intro st
  have e2 : stateAfter (get >>= fun st => set (g st) >>= fun _ => k st) st = stateAfter (k st) (g st) := rfl
  rw [e2]
  exact (Grows.of_frames_eq (hg st)).trans ((hk st).h _)

theorem tr_forIn {γ δ : Type} (l : List γ) (init : δ) (f : γ → δ → M (ForInStep δ))
    (hf : ∀ a b, Tr (f a b)) : Tr (forIn l init f) := by
  induction l generalizing init with
  | nil => exact tr_pure _
  | cons a as ih =>
    rw [List.forIn_cons]
    refine tr_bind (hf a init) ?_
    intro r
    cases r with
    | done b => exact tr_pure _
    | yield b => exact ih b

/-! ### the frame writers -/

theorem missOf_setIfInBounds (st : St) (e : Nat) (f f' : Frame) (h : st.frames[e]? = some f) (i : Nat) :
    missOf { st with frames := st.frames.setIfInBounds e f' } i =
      if i = e then f'.getMiss else missOf st i := by
  unfold missOf
  dsimp only
  rw [Array.getElem?_setIfInBounds]
  by_cases hi : e = i
  · subst hi
    have hlt : e < st.frames.size := by
      cases hlt : decide (e < st.frames.size) with
      | true => exact of_decide_eq_true hlt
      | false =>
        have : ¬ e < st.frames.size := of_decide_eq_false hlt
        rw [Array.getElem?_eq_none (by omega)] at h; cases h
    simp [hlt]
  · have : ¬ i = e := fun h => hi h.symm
    simp [hi, this]

theorem grows_setFrame (st : St) (e : Nat) (f f' : Frame) (h : st.frames[e]? = some f)
    (hm : f.getMiss ≤ f'.getMiss) : Grows st { st with frames := st.frames.setIfInBounds e f' } := by
  refine ⟨by simp, fun i => ?_⟩
  rw [missOf_setIfInBounds st e f f' h]
  split
  next hi => subst hi; unfold missOf; rw [h]; exact hm
  next => exact Nat.le_refl _

theorem tr_modifyFrame {e : Nat} {g : Frame → Frame} (hg : ∀ f, f.getMiss ≤ (g f).getMiss) :
    Tr (modifyFrame e g) := by
  constructor
  intro st
  have : stateAfter (modifyFrame e g) st = (run (modifyFrame e g) st).2 := rfl
  rw [this, run_modifyFrame]
  cases h : st.frames[e]? with
  | none => exact Grows.refl st
  | some f => exact grows_setFrame st e f (g f) h (hg f)

theorem tr_getFrame {e} : Tr (getFrame e) := by
  constructor
  intro st
  have : stateAfter (getFrame e) st = (run (getFrame e) st).2 := rfl
  rw [this, ReadOnly.getFrame e st]
  exact Grows.refl st

theorem tr_newFrame {f} : Tr (newFrame f) := by
  constructor
  intro st
  have : stateAfter (newFrame f) st = { st with frames := st.frames.push f } := rfl
  rw [this]
  refine ⟨by simp, fun i => ?_⟩
  unfold missOf
  dsimp only
  rw [Array.getElem?_push]
  by_cases hi : i = st.frames.size
  · subst hi
    rw [Array.getElem?_eq_none (Nat.le_refl _)]
    exact Nat.zero_le _
  · simp only [hi, if_false]
    exact Nat.le_refl _

/-! ### automation (same shape as `good` of EvalFrame) -/

syntax "tr_lemma" : tactic
macro_rules | `(tactic| tr_lemma) => `(tactic| with_reducible exact tr_pure _)
macro_rules | `(tactic| tr_lemma) => `(tactic| with_reducible exact tr_get)
macro_rules | `(tactic| tr_lemma) => `(tactic| with_reducible exact tr_stop _)
macro_rules | `(tactic| tr_lemma) => `(tactic| with_reducible exact tr_throw _)
macro_rules | `(tactic| tr_lemma) => `(tactic| with_reducible exact tr_liftR _)
macro_rules | `(tactic| tr_lemma) => `(tactic| with_reducible apply tr_modify)
macro_rules | `(tactic| tr_lemma) => `(tactic| (with_reducible show FramesKept _); exact (fun _ => rfl))
macro_rules | `(tactic| tr_lemma) => `(tactic| with_reducible exact tr_getFrame)
macro_rules | `(tactic| tr_lemma) => `(tactic| with_reducible exact tr_newFrame)
macro_rules | `(tactic| tr_lemma) => `(tactic| ((with_reducible apply tr_modifyFrame); intro _; first | exact Nat.le_refl _ | exact Nat.le_succ _))

macro "tr_step" : tactic => `(tactic| first
  | tr_lemma
  | with_reducible apply tr_get_set
  | with_reducible apply tr_bind
  | with_reducible apply tr_forIn
  | intro _
  | split
  | dsimp only)

syntax "tr" ("using" term,+)? : tactic
macro_rules
  | `(tactic| tr) => `(tactic| repeat' tr_step)
  | `(tactic| tr using $ts,*) =>
    `(tactic| repeat' (first | (with_reducible first $[| apply $ts]*) | tr_step))

theorem tr_setFrame_of_get {e : Nat} {k : Frame → Frame} (hk : ∀ f, f.getMiss ≤ (k f).getMiss)
    {rest : M β} (hr : Tr rest) :
    Tr (getFrame e >>= fun f => setFrame e (k f) >>= fun _ => rest) := by
  have : (getFrame e >>= fun f => setFrame e (k f) >>= fun _ => rest) = (modifyFrame e k >>= fun _ => rest) := by
    unfold modifyFrame
    simp only [bind_assoc]
  rw [this]
  exact tr_bind (tr_modifyFrame hk) (fun _ => hr)

theorem tr_refValue {e n} : Tr (refValue e n) := by unfold refValue; tr
macro_rules | `(tactic| tr_lemma) => `(tactic| with_reducible exact tr_refValue)
theorem tr_refAlive {e n} : Tr (refAlive e n) := by unfold refAlive; tr
macro_rules | `(tactic| tr_lemma) => `(tactic| with_reducible exact tr_refAlive)
theorem tr_valueOf_go {n o} : Tr (valueOf.go n o) := by
  induction n generalizing o with
  | zero => cases o <;> simp only [valueOf.go] <;> tr
  | succ n ih => cases o <;> simp only [valueOf.go] <;> tr using @ih
macro_rules | `(tactic| tr_lemma) => `(tactic| with_reducible exact tr_valueOf_go)
theorem tr_valueOf {o} : Tr (valueOf o) := by unfold valueOf; tr
macro_rules | `(tactic| tr_lemma) => `(tactic| with_reducible exact tr_valueOf)
theorem tr_triggerNoCache {e} : Tr (triggerNoCache e) := by unfold triggerNoCache; tr
macro_rules | `(tactic| tr_lemma) => `(tactic| with_reducible exact tr_triggerNoCache)
theorem tr_makeRef_go {orig name fuel e} : Tr (makeRef.go orig name fuel e) := by
  induction fuel generalizing e with
  | zero => unfold makeRef.go; tr
  | succ n ih => unfold makeRef.go; tr using @ih
macro_rules | `(tactic| tr_lemma) => `(tactic| with_reducible exact tr_makeRef_go)
theorem tr_makeRef {e n} : Tr (makeRef e n) := by unfold makeRef; tr
macro_rules | `(tactic| tr_lemma) => `(tactic| with_reducible exact tr_makeRef)
theorem tr_envGet {e n} : Tr (envGet e n) := by unfold envGet; tr
macro_rules | `(tactic| tr_lemma) => `(tactic| with_reducible exact tr_envGet)
theorem tr_rootBindsFunc {n} : Tr (rootBindsFunc n) := by unfold rootBindsFunc; tr
macro_rules | `(tactic| tr_lemma) => `(tactic| with_reducible exact tr_rootBindsFunc)
theorem tr_envCreate {e n v} : Tr (envCreate e n v) := by unfold envCreate; tr
macro_rules | `(tactic| tr_lemma) => `(tactic| with_reducible exact tr_envCreate)
theorem tr_functionChanged {w o} : Tr (functionChanged w o) := by unfold functionChanged; tr
macro_rules | `(tactic| tr_lemma) => `(tactic| with_reducible exact tr_functionChanged)
theorem tr_envStoreAt {w e n v} : Tr (envStoreAt w e n v) := by unfold envStoreAt; tr
macro_rules | `(tactic| tr_lemma) => `(tactic| with_reducible exact tr_envStoreAt)
theorem tr_envUpdate {e n f v} : Tr (envUpdate e n f v) := by unfold envUpdate; tr
macro_rules | `(tactic| tr_lemma) => `(tactic| with_reducible exact tr_envUpdate)
theorem tr_setNoChecks {e n v c} : Tr (setNoChecks e n v c) := by unfold setNoChecks; tr
macro_rules | `(tactic| tr_lemma) => `(tactic| with_reducible exact tr_setNoChecks)
theorem tr_createOrSet {e n v c} : Tr (createOrSet e n v c) := by unfold createOrSet; tr
macro_rules | `(tactic| tr_lemma) => `(tactic| with_reducible exact tr_createOrSet)
theorem tr_envSet {e n v} : Tr (envSet e n v) := by unfold envSet; tr
macro_rules | `(tactic| tr_lemma) => `(tactic| with_reducible exact tr_envSet)


/-! ### computations analysed from a given state -/

theorem tr_of_sat {x : M α} (h : ∀ st, Sat x st (fun _ s => Grows st s)) : Tr x := ⟨h⟩

theorem Sat.tr_tail {x : M α} (hx : Tr x) {st0 st : St} (hg : Grows st0 st) :
    Sat x st (fun _ s => Grows st0 s) := hg.trans (hx.h st)

theorem tr_getFrame_bind {e : Nat} {k : Frame → M β}
    (h : ∀ st f, st.frames[e]? = some f → Grows st (stateAfter (k f) st)) : Tr (getFrame e >>= k) := by
  constructor
  intro st
  have e1 : stateAfter (getFrame e >>= k) st = (run (getFrame e >>= k) st).2 := rfl
  rw [e1, run_bind, run_getFrame]
  cases hf : st.frames[e]? with
  | none => exact Grows.refl st
  | some f => exact h st f hf

theorem tr_envDelete_go {name fuel e} : Tr (envDelete.go name fuel e) := by
  induction fuel generalizing e with
  | zero => unfold envDelete.go; tr
  | succ n ih =>
    unfold envDelete.go
    refine tr_getFrame_bind ?_
    intro st f hf
    extract_lets f'
    have hm : f.getMiss ≤ f'.getMiss := by
      unfold f'; split <;> exact Nat.le_refl _
    split
    · next old _ =>
      refine (grows_setFrame st e f { f' with store := delStore f'.store name } hf hm).trans ?_
      exact (tr_bind (tr_functionChanged (w := e) (o := some old)) (fun _ => tr_pure (Obj.bool true))).h _
    · have hs := grows_setFrame st e f f' hf hm
      refine hs.trans ?_
      split
      · exact (@ih _).h _
      · exact Grows.refl _
macro_rules | `(tactic| tr_lemma) => `(tactic| with_reducible exact tr_envDelete_go)
theorem tr_envDelete {e n} : Tr (envDelete e n) := by unfold envDelete; tr
macro_rules | `(tactic| tr_lemma) => `(tactic| with_reducible exact tr_envDelete)
theorem tr_mustBeOk {n} : Tr (mustBeOk n) := by unfold mustBeOk; tr
macro_rules | `(tactic| tr_lemma) => `(tactic| with_reducible exact tr_mustBeOk)
theorem tr_evalIntegerInfix {op l r} : Tr (evalIntegerInfix op l r) := by unfold evalIntegerInfix; tr
macro_rules | `(tactic| tr_lemma) => `(tactic| with_reducible exact tr_evalIntegerInfix)
theorem tr_evalFloatInfix {op l r} : Tr (evalFloatInfix op l r) := by unfold evalFloatInfix; tr
macro_rules | `(tactic| tr_lemma) => `(tactic| with_reducible exact tr_evalFloatInfix)
theorem tr_evalStringInfix {op l r} : Tr (evalStringInfix op l r) := by unfold evalStringInfix; tr
macro_rules | `(tactic| tr_lemma) => `(tactic| with_reducible exact tr_evalStringInfix)
theorem tr_evalArrayInfix {op l r} : Tr (evalArrayInfix op l r) := by unfold evalArrayInfix; tr
macro_rules | `(tactic| tr_lemma) => `(tactic| with_reducible exact tr_evalArrayInfix)
theorem tr_equalsM {a b} : Tr (equalsM a b) := by unfold equalsM; tr
macro_rules | `(tactic| tr_lemma) => `(tactic| with_reducible exact tr_equalsM)
theorem tr_cmpM {a b} : Tr (cmpM a b) := by unfold cmpM; tr
macro_rules | `(tactic| tr_lemma) => `(tactic| with_reducible exact tr_cmpM)
theorem tr_evalInfixOp {op l r} : Tr (evalInfixOp op l r) := by unfold evalInfixOp; tr
macro_rules | `(tactic| tr_lemma) => `(tactic| with_reducible exact tr_evalInfixOp)
theorem tr_objFirst {o} : Tr (objFirst o) := by unfold objFirst; tr
macro_rules | `(tactic| tr_lemma) => `(tactic| with_reducible exact tr_objFirst)
theorem tr_objRest {o} : Tr (objRest o) := by unfold objRest; tr
macro_rules | `(tactic| tr_lemma) => `(tactic| with_reducible exact tr_objRest)
theorem tr_indexIdx {l i} : Tr (indexIdx l i) := by unfold indexIdx; tr
macro_rules | `(tactic| tr_lemma) => `(tactic| with_reducible exact tr_indexIdx)
theorem tr_curEnv : Tr curEnv := by unfold curEnv; tr
macro_rules | `(tactic| tr_lemma) => `(tactic| with_reducible exact tr_curEnv)
theorem tr_evalIdentifier {n} : Tr (evalIdentifier n) := by unfold evalIdentifier; tr
macro_rules | `(tactic| tr_lemma) => `(tactic| with_reducible exact tr_evalIdentifier)
theorem tr_evalPrefixIncrDecr {op n} : Tr (evalPrefixIncrDecr op n) := by unfold evalPrefixIncrDecr; tr
macro_rules | `(tactic| tr_lemma) => `(tactic| with_reducible exact tr_evalPrefixIncrDecr)
theorem tr_evalPostfix {op i} : Tr (evalPostfix op i) := by unfold evalPostfix; tr
macro_rules | `(tactic| tr_lemma) => `(tactic| with_reducible exact tr_evalPostfix)
theorem tr_noteHazard {c k n} : Tr (noteHazard c k n) := by unfold noteHazard; tr
macro_rules | `(tactic| tr_lemma) => `(tactic| with_reducible exact tr_noteHazard)
theorem tr_evalIndexAssignment {w i v} : Tr (evalIndexAssignment w i v) := by unfold evalIndexAssignment; tr
macro_rules | `(tactic| tr_lemma) => `(tactic| with_reducible exact tr_evalIndexAssignment)
theorem tr_deleteMapEntry {l i} : Tr (deleteMapEntry l i) := by unfold deleteMapEntry; tr
macro_rules | `(tactic| tr_lemma) => `(tactic| with_reducible exact tr_deleteMapEntry)
theorem tr_cacheGet {k a} : Tr (cacheGet k a) := by unfold cacheGet; tr
macro_rules | `(tactic| tr_lemma) => `(tactic| with_reducible exact tr_cacheGet)
theorem tr_derefList {l} : Tr (derefList l) := by
  induction l with
  | nil => unfold derefList; tr
  | cons x xs ih => unfold derefList; tr using @ih
macro_rules | `(tactic| tr_lemma) => `(tactic| with_reducible exact tr_derefList)
theorem tr_bindParams {nenv l} : Tr (bindParams nenv l) := by
  induction l with
  | nil => unfold bindParams; tr
  | cons x xs ih => obtain ⟨p, a⟩ := x; unfold bindParams; tr using @ih
macro_rules | `(tactic| tr_lemma) => `(tactic| with_reducible exact tr_bindParams)
theorem tr_extendFunctionEnv {f a} : Tr (extendFunctionEnv f a) := by unfold extendFunctionEnv; tr
macro_rules | `(tactic| tr_lemma) => `(tactic| with_reducible exact tr_extendFunctionEnv)


theorem tr_writeOut {b} : Tr (writeOut b) := by
  unfold writeOut
  refine tr_modify ?_
  intro st
  dsimp only
  split <;> rfl
macro_rules | `(tactic| tr_lemma) => `(tactic| with_reducible exact tr_writeOut)

macro "trsat_step" : tactic => `(tactic| first
  | with_reducible apply Sat.bind
  | with_reducible apply Sat.get
  | with_reducible apply Sat.set
  | with_reducible apply Sat.modify
  | with_reducible apply Sat.pure
  | with_reducible apply Sat.stop
  | exact Grows.refl _
  | exact Grows.of_frames_eq rfl
  | intro _
  | dsimp only
  | split)

theorem tr_cacheSet {k a r o} : Tr (cacheSet k a r o) := by
  refine tr_of_sat fun st => ?_
  unfold cacheSet
  repeat' trsat_step
macro_rules | `(tactic| tr_lemma) => `(tactic| with_reducible exact tr_cacheSet)

theorem tr_finishCall {f a c b af cc r o} : Tr (finishCall f a c b af cc r o) := by unfold finishCall; tr
macro_rules | `(tactic| tr_lemma) => `(tactic| with_reducible exact tr_finishCall)

theorem tr_eval_succ {n} (h : ∀ node, Tr (evalI n node)) (node) : Tr (eval (n+1) node) := by
  refine tr_of_sat fun st => ?_
  rw [eval]
  apply Sat.bind; apply Sat.get; dsimp only
  split
  · apply Sat.bind; apply Sat.stop; exact Grows.refl _
  · apply Sat.bind; apply Sat.set; dsimp only
    refine Sat.tr_tail ?_ (Grows.of_frames_eq rfl)
    tr using h

theorem tr_applyFunction_succ {n} (h : ∀ node, Tr (eval n node)) (fn args) :
    Tr (applyFunction (n+1) fn args) := by
  cases fn
  case func f =>
    rw [applyFunction]
    refine tr_bind tr_curEnv ?_
    intro c0
    refine tr_bind tr_getFrame ?_
    intro cf0
    refine tr_bind (x := if (cf0.localFunc && sameFunction cf0 f) = true then pure none else cacheGet f.key args)
      (by split <;> tr) ?_
    intro r
    dsimp only
    split
    · tr
    · refine tr_bind tr_extendFunctionEnv ?_
      intro r
      split
      · tr
      next nenv =>
        refine tr_bind tr_curEnv ?_
        intro curState
        refine tr_bind (tr_modify (fun _ => rfl)) ?_
        intro _
        refine tr_bind (h _) ?_
        intro res
        refine tr_bind tr_getFrame ?_
        intro fr
        refine tr_of_sat fun st => ?_
        apply Sat.bind; apply Sat.get; dsimp only
        apply Sat.bind; apply Sat.set; dsimp only
        refine Sat.tr_tail ?_ (Grows.of_frames_eq rfl)
        tr
  all_goals (simp only [applyFunction]; tr)

/-- monotonicity for all 19 functions of the mutual block at one fuel level -/
structure AllTr (fuel : Nat) : Prop where
  eval : ∀ node, Tr (Grol.E.eval fuel node)
  evalI : ∀ node, Tr (Grol.E.evalI fuel node)
  evalStatements : ∀ l r, Tr (Grol.E.evalStatements fuel l r)
  evalExpressions : ∀ l acc, Tr (Grol.E.evalExpressions fuel l acc)
  evalAssignment : ∀ right op left, Tr (Grol.E.evalAssignment fuel right op left)
  evalIf : ∀ c cons alt, Tr (Grol.E.evalIf fuel c cons alt)
  evalFor : ∀ c body, Tr (Grol.E.evalFor fuel c body)
  evalForLoop : ∀ c body last, Tr (Grol.E.evalForLoop fuel c body last)
  evalForSpecialForms : ∀ c body, Tr (Grol.E.evalForSpecialForms fuel c body)
  evalForInteger : ∀ body i e name last, Tr (Grol.E.evalForInteger fuel body i e name last)
  evalForList : ∀ body list name last, Tr (Grol.E.evalForList fuel body list name last)
  evalBuiltin : ∀ t ps, Tr (Grol.E.evalBuiltin fuel t ps)
  evalPrint : ∀ t ps first buf, Tr (Grol.E.evalPrint fuel t ps first buf)
  evalDelete : ∀ node, Tr (Grol.E.evalDelete fuel node)
  evalIndexExpression : ∀ left tok i, Tr (Grol.E.evalIndexExpression fuel left tok i)
  evalIndexRange : ∀ left li ri, Tr (Grol.E.evalIndexRange fuel left li ri)
  evalMapLiteral : ∀ ks vs big acc, Tr (Grol.E.evalMapLiteral fuel ks vs big acc)
  applyExtension : ∀ name args, Tr (Grol.E.applyExtension fuel name args)
  applyFunction : ∀ fn args, Tr (Grol.E.applyFunction fuel fn args)

macro "tr_ih" : tactic => `(tactic| repeat' (first
  | cases ‹_ + 1 = Nat.succ _›
  | (with_reducible first
      | apply (‹AllTr _›).eval
      | apply (‹AllTr _›).evalI
      | apply (‹AllTr _›).evalStatements
      | apply (‹AllTr _›).evalExpressions
      | apply (‹AllTr _›).evalAssignment
      | apply (‹AllTr _›).evalIf
      | apply (‹AllTr _›).evalFor
      | apply (‹AllTr _›).evalForLoop
      | apply (‹AllTr _›).evalForSpecialForms
      | apply (‹AllTr _›).evalForInteger
      | apply (‹AllTr _›).evalForList
      | apply (‹AllTr _›).evalBuiltin
      | apply (‹AllTr _›).evalPrint
      | apply (‹AllTr _›).evalDelete
      | apply (‹AllTr _›).evalIndexExpression
      | apply (‹AllTr _›).evalIndexRange
      | apply (‹AllTr _›).evalMapLiteral
      | apply (‹AllTr _›).applyExtension
      | apply (‹AllTr _›).applyFunction)
  | tr_step))



theorem allTr_zero : AllTr 0 := by
  constructor
  · intro node; unfold Grol.E.eval; tr_ih
  · intro node; unfold Grol.E.evalI; tr_ih
  · intro l r; unfold Grol.E.evalStatements; tr_ih
  · intro l acc; unfold Grol.E.evalExpressions; tr_ih
  · intro right op left; unfold Grol.E.evalAssignment; tr_ih
  · intro c cons alt; unfold Grol.E.evalIf; tr_ih
  · intro c body; unfold Grol.E.evalFor; tr_ih
  · intro c body last; unfold Grol.E.evalForLoop; tr_ih
  · intro c body; unfold Grol.E.evalForSpecialForms; tr_ih
  · intro body i e name last; unfold Grol.E.evalForInteger; tr_ih
  · intro body list name last; unfold Grol.E.evalForList; tr_ih
  · intro t ps; unfold Grol.E.evalBuiltin; tr_ih
  · intro t ps first buf; unfold Grol.E.evalPrint; tr_ih
  · intro node; unfold Grol.E.evalDelete; tr_ih
  · intro left tok i; unfold Grol.E.evalIndexExpression; tr_ih
  · intro left li ri; unfold Grol.E.evalIndexRange; tr_ih
  · intro ks vs big acc; unfold Grol.E.evalMapLiteral; tr_ih
  · intro name args; unfold Grol.E.applyExtension; tr_ih
  · intro fn args; unfold Grol.E.applyFunction; tr_ih

set_option maxHeartbeats 1600000 in
theorem tr_evalI_succ {n} (ih : AllTr n) : ∀ node, Tr (Grol.E.evalI (n+1) node) := by
  intro node; unfold Grol.E.evalI; tr_ih

theorem tr_evalStatements_succ {n} (ih : AllTr n) : ∀ l r, Tr (Grol.E.evalStatements (n+1) l r) := by
  intro l r; unfold Grol.E.evalStatements; tr_ih

theorem tr_evalExpressions_succ {n} (ih : AllTr n) : ∀ l acc, Tr (Grol.E.evalExpressions (n+1) l acc) := by
  intro l acc; unfold Grol.E.evalExpressions; tr_ih

theorem tr_evalAssignment_succ {n} (ih : AllTr n) : ∀ right op left, Tr (Grol.E.evalAssignment (n+1) right op left) := by
  intro right op left; unfold Grol.E.evalAssignment; tr_ih

theorem tr_evalIf_succ {n} (ih : AllTr n) : ∀ c cons alt, Tr (Grol.E.evalIf (n+1) c cons alt) := by
  intro c cons alt; unfold Grol.E.evalIf; tr_ih

theorem tr_evalFor_succ {n} (ih : AllTr n) : ∀ c body, Tr (Grol.E.evalFor (n+1) c body) := by
  intro c body; unfold Grol.E.evalFor; tr_ih

theorem tr_evalForLoop_succ {n} (ih : AllTr n) : ∀ c body last, Tr (Grol.E.evalForLoop (n+1) c body last) := by
  intro c body last; unfold Grol.E.evalForLoop; tr_ih

theorem tr_evalForSpecialForms_succ {n} (ih : AllTr n) : ∀ c body, Tr (Grol.E.evalForSpecialForms (n+1) c body) := by
  intro c body; unfold Grol.E.evalForSpecialForms; tr_ih

theorem tr_evalForInteger_succ {n} (ih : AllTr n) : ∀ body i e name last, Tr (Grol.E.evalForInteger (n+1) body i e name last) := by
  intro body i e name last; unfold Grol.E.evalForInteger; tr_ih

theorem tr_evalForList_succ {n} (ih : AllTr n) : ∀ body list name last, Tr (Grol.E.evalForList (n+1) body list name last) := by
  intro body list name last; unfold Grol.E.evalForList; tr_ih

theorem tr_evalBuiltin_succ {n} (ih : AllTr n) : ∀ t ps, Tr (Grol.E.evalBuiltin (n+1) t ps) := by
  intro t ps; unfold Grol.E.evalBuiltin; tr_ih

theorem tr_evalPrint_succ {n} (ih : AllTr n) : ∀ t ps first buf, Tr (Grol.E.evalPrint (n+1) t ps first buf) := by
  intro t ps first buf; unfold Grol.E.evalPrint; tr_ih

theorem tr_evalDelete_succ {n} (ih : AllTr n) : ∀ node, Tr (Grol.E.evalDelete (n+1) node) := by
  intro node; unfold Grol.E.evalDelete; tr_ih

theorem tr_evalIndexExpression_succ {n} (ih : AllTr n) : ∀ left tok i, Tr (Grol.E.evalIndexExpression (n+1) left tok i) := by
  intro left tok i; unfold Grol.E.evalIndexExpression; tr_ih


theorem tr_evalIndexRange_succ {n} (ih : AllTr n) : ∀ left li ri, Tr (Grol.E.evalIndexRange (n+1) left li ri) := by
  intro left li ri; unfold Grol.E.evalIndexRange
  refine tr_bind (ih.eval _) ?_
  intro leftIndex
  extract_lets nilRight num jp
  have hjp : ∀ r, Tr (jp r) := by
    intro rightIndex
    unfold jp
    split
    · extract_lets l l' r
      split
      · tr
      · split <;> tr
    · tr
  split
  · exact tr_bind (tr_pure _) hjp
  · exact tr_bind (ih.eval _) hjp

theorem tr_evalMapLiteral_succ {n} (ih : AllTr n) : ∀ ks vs big acc, Tr (Grol.E.evalMapLiteral (n+1) ks vs big acc) := by
  intro ks vs big acc; unfold Grol.E.evalMapLiteral; tr_ih

theorem tr_applyExtension_succ {n} (_ih : AllTr n) : ∀ name args, Tr (Grol.E.applyExtension (n+1) name args) := by
  intro name args; unfold Grol.E.applyExtension; tr_ih

theorem allTr_succ {n} (ih : AllTr n) : AllTr (n+1) where
  eval := tr_eval_succ ih.evalI
  evalI := tr_evalI_succ ih
  evalStatements := tr_evalStatements_succ ih
  evalExpressions := tr_evalExpressions_succ ih
  evalAssignment := tr_evalAssignment_succ ih
  evalIf := tr_evalIf_succ ih
  evalFor := tr_evalFor_succ ih
  evalForLoop := tr_evalForLoop_succ ih
  evalForSpecialForms := tr_evalForSpecialForms_succ ih
  evalForInteger := tr_evalForInteger_succ ih
  evalForList := tr_evalForList_succ ih
  evalBuiltin := tr_evalBuiltin_succ ih
  evalPrint := tr_evalPrint_succ ih
  evalDelete := tr_evalDelete_succ ih
  evalIndexExpression := tr_evalIndexExpression_succ ih
  evalIndexRange := tr_evalIndexRange_succ ih
  evalMapLiteral := tr_evalMapLiteral_succ ih
  applyExtension := tr_applyExtension_succ ih
  applyFunction := tr_applyFunction_succ ih.eval

theorem allTr (fuel : Nat) : AllTr fuel := by
  induction fuel with
  | zero => exact allTr_zero
  | succ n ih => exact allTr_succ ih


/-- (A.1) miss counters only grow and frames are only added, through any evaluation -/
theorem eval_grows (fuel : Nat) (node : Node) (st : St) : Grows st (stateAfter (eval fuel node) st) :=
  ((allTr fuel).eval node).h st

theorem applyFunction_grows (fuel : Nat) (fn : Obj) (args : List Obj) (st : St) :
    Grows st (stateAfter (applyFunction fuel fn args) st) :=
  ((allTr fuel).applyFunction fn args).h st

end Grol.E

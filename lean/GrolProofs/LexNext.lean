import GrolProofs.LexScan
/-
C16 lemmas, part 2: what one call of `Lexer.next` returns (`next_spec`).
-/
namespace Grol.Lexer
open Grol.Token Grol.Token.TType

/-- the bytes `input[a:b)` -/
def spanL (input : Array UInt8) (a b : Nat) : Bytes := (input.extract a b).toList

theorem slice?_eq {input : Array UInt8} {a b : Nat} (h1 : a ≤ b) (h2 : b ≤ input.size) :
    slice? input a b = some (spanL input a b) := by
  unfold slice? spanL
  rw [if_pos ⟨h1, h2⟩]

theorem spanL_getElem? (input : Array UInt8) (a b i : Nat) :
    (spanL input a b)[i]? = if i < min b input.size - a then input[a + i]? else none := by
  unfold spanL
  rw [Array.getElem?_toList, Array.getElem?_extract]

theorem spanL_length (input : Array UInt8) (a b : Nat) : (spanL input a b).length = min b input.size - a := by
  unfold spanL
  rw [Array.length_toList, Array.size_extract]

theorem spanL_one {input : Array UInt8} {a : Nat} (h : a < input.size) :
    spanL input a (a + 1) = [peekAt input a] := by
  apply List.ext_getElem?
  intro i
  rw [spanL_getElem?]
  have : min (a + 1) input.size - a = 1 := by omega
  rw [this]
  cases i with
  | zero => simp [peekAt, Array.getElem?_eq_getElem h]
  | succ j => simp

theorem spanL_two {input : Array UInt8} {a : Nat} (h : a + 1 < input.size) :
    spanL input a (a + 2) = [peekAt input a, peekAt input (a + 1)] := by
  apply List.ext_getElem?
  intro i
  rw [spanL_getElem?]
  have : min (a + 2) input.size - a = 2 := by omega
  rw [this]
  match i with
  | 0 => simp [peekAt, Array.getElem?_eq_getElem (show a < input.size by omega)]
  | 1 => simp [peekAt, Array.getElem?_eq_getElem h]
  | j + 2 => simp; omega

/-! ### well-formed tokens: the invariant behind pointer identity -/

/-- what the lexer guarantees about a token, per producing API call -/
def _root_.Grol.Token.Tok.WF (t : Tok) : Prop :=
  match t.src with
  | .eoleof => (t.type = EOL ∨ t.type = EOF) ∧ t.lit = []
  | .char1 => ∃ c, t.lit = [c] ∧ cTokens.lookup c = some t.type
  | .char2 => ∃ a b, t.lit = [a, b] ∧ c2Tokens.lookup (a, b) = some t.type
  | .intern => t.type = ILLEGAL ∨ t.type = INT ∨ t.type = FLOAT ∨ t.type = STRING ∨ t.type = LINECOMMENT
      ∨ t.type = BLOCKCOMMENT
  | .lookup => t.type = (keywords.lookup t.lit).getD IDENT
  | .nil => False
  | .panic => False

theorem lookupIdent_wf (w : Bytes) : (lookupIdent w).WF := by
  unfold lookupIdent
  split <;> rename_i h <;> simp [Tok.WF, h]

theorem lookupIdent_src (w : Bytes) : (lookupIdent w).src = .lookup := by
  unfold lookupIdent; split <;> rfl

theorem lookupIdent_lit (w : Bytes) : (lookupIdent w).lit = w := by
  unfold lookupIdent; split <;> rfl

/-- a token that is not the end marker, spanning `[start, stop)` -/
structure TokOK (input : Array UInt8) (start : Nat) (t : Tok) (stop : Nat) : Prop where
  lt : start < stop
  le : stop ≤ input.size
  wf : t.WF
  notMarker : t.src ≠ .eoleof
  /-- operators, identifiers/keywords, numbers and block comments: the literal is the span -/
  lit : (t.src = .char1 ∨ t.src = .char2 ∨ t.src = .lookup ∨
      (t.src = .intern ∧ (t.type = INT ∨ t.type = FLOAT ∨ t.type = BLOCKCOMMENT))) → t.lit = spanL input start stop
  /-- strings: the span starts with a quote and ends with the same quote -/
  str : t.src = .intern → t.type = STRING →
    start + 2 ≤ stop ∧ (peekAt input start = 34 ∨ peekAt input start = 96) ∧ peekAt input (stop - 1) = peekAt input start
  /-- line comments: `//` up to (not including) the next newline / NUL / end; literal = trimmed span -/
  lc : t.src = .intern → t.type = LINECOMMENT →
    t.lit = trimSpaceRight (spanL input start stop) ∧ peekAt input start = 47 ∧ peekAt input (start + 1) = 47
      ∧ (∀ i, start + 1 ≤ i → i < stop → notEOL (peekAt input i) = true) ∧ notEOL (peekAt input stop) = false
  /-- block comments: `/*` … and either a closing `*/` or a NUL byte / the end of the input -/
  bc : t.src = .intern → t.type = BLOCKCOMMENT →
    peekAt input start = 47 ∧ peekAt input (start + 1) = 42 ∧
      ((start + 4 ≤ stop ∧ peekAt input (stop - 2) = 42 ∧ peekAt input (stop - 1) = 47) ∨ peekAt input stop = 0)
  /-- illegal byte: one byte, literal = Go's `string(byte)` -/
  ill : t.src = .intern → t.type = ILLEGAL → stop = start + 1 ∧ t.lit = stringOfByte (peekAt input start)
  /-- identifiers, keywords and numbers contain no newline byte -/
  nonl : (t.src = .lookup ∨ (t.src = .intern ∧ (t.type = INT ∨ t.type = FLOAT))) →
    ∀ i, start ≤ i → i < stop → peekAt input i ≠ 10

theorem TokOK.c1 {input : Array UInt8} {start : Nat} {ch : UInt8} (hch : peekAt input start = ch)
    (hk : (cTokens.lookup ch).isSome = true) : TokOK input start (constantTokenChar ch) (start + 1) := by
  have hne : ch ≠ 0 := by
    intro h0; subst h0; revert hk; decide
  have hlt : start < input.size := lt_size_of_peekAt_ne_zero (by rw [hch]; exact hne)
  obtain ⟨ty, hty⟩ := Option.isSome_iff_exists.mp hk
  have e : constantTokenChar ch = { type := ty, lit := [ch], src := .char1 } := by
    unfold constantTokenChar; rw [hty]
  rw [e]
  refine ⟨by omega, by omega, ⟨ch, rfl, hty⟩, by simp, fun _ => ?_, ?_, ?_, ?_, ?_, ?_⟩
  · rw [spanL_one hlt, hch]
  all_goals first | (intro h; rcases h with h | ⟨h, _⟩ <;> cases h) | (intro h; cases h)

theorem TokOK.c2 {input : Array UInt8} {start : Nat} {a b : UInt8} (ha : peekAt input start = a)
    (hb : peekAt input (start + 1) = b) (hb0 : b ≠ 0)
    (hk : (c2Tokens.lookup (a, b)).isSome = true) : TokOK input start (constantTokenChar2 a b) (start + 2) := by
  have hlt : start + 1 < input.size := lt_size_of_peekAt_ne_zero (by rw [hb]; exact hb0)
  obtain ⟨ty, hty⟩ := Option.isSome_iff_exists.mp hk
  have e : constantTokenChar2 a b = { type := ty, lit := [a, b], src := .char2 } := by
    unfold constantTokenChar2; rw [hty]
  rw [e]
  refine ⟨by omega, by omega, ⟨a, b, rfl, hty⟩, by simp, fun _ => ?_, ?_, ?_, ?_, ?_, ?_⟩
  · rw [spanL_two hlt, ha, hb]
  all_goals first | (intro h; rcases h with h | ⟨h, _⟩ <;> cases h) | (intro h; cases h)

/-! ### the readers called by `next` -/

theorem readIdentifier_ok (s : State) (start : Nat) (hs : s.pos = start + 1) (hlt : start < s.input.size)
    (h0 : peekAt s.input start ≠ 10) :
    TokOK s.input start (tokOfSlice lookupIdent (readIdentifier s).1) (readIdentifier s).2.pos
    ∧ (readIdentifier s).2 = { s with pos := (readIdentifier s).2.pos } := by
  have sc := scanWhile_spec isAlphaNum (by decide) s.input s.pos (by omega)
  unfold readIdentifier
  simp only []
  rw [slice?_eq (by have := sc.ge; omega) sc.le]
  have e : s.pos - 1 = start := by omega
  rw [e]
  refine ⟨⟨by have := sc.ge; omega, sc.le, lookupIdent_wf _, by simp [tokOfSlice, lookupIdent_src],
    fun _ => by simp [tokOfSlice, lookupIdent_lit], ?_, ?_, ?_, ?_, ?_⟩, trivial⟩
  · intro h; simp [tokOfSlice, lookupIdent_src] at h
  · intro h; simp [tokOfSlice, lookupIdent_src] at h
  · intro h; simp [tokOfSlice, lookupIdent_src] at h
  · intro h; simp [tokOfSlice, lookupIdent_src] at h
  · intro _ i hi1 hi2
    by_cases hi : i = start
    · rw [hi]; exact h0
    · have := sc.all i (by omega) hi2
      intro h10; rw [h10] at this; revert this; decide

theorem readLineComment_ok (s : State) (start : Nat) (hs : s.pos = start + 1) (h0 : peekAt s.input start = 47)
    (h1 : peekAt s.input (start + 1) = 47) :
    TokOK s.input start (tokOfSlice (internTok LINECOMMENT) (readLineComment s).1) (readLineComment s).2.pos
    ∧ (readLineComment s).2 = { s with pos := (readLineComment s).2.pos } := by
  have hlt : start + 1 < s.input.size := lt_size_of_peekAt_ne_zero (by rw [h1]; decide)
  have sc := scanWhile_spec notEOL (by decide) s.input s.pos (by omega)
  unfold readLineComment
  simp only []
  rw [slice?_eq (by have := sc.ge; omega) sc.le]
  have e : s.pos - 1 = start := by omega
  rw [e]
  refine ⟨⟨by have := sc.ge; omega, sc.le, by simp [tokOfSlice, internTok, Tok.WF], by simp [tokOfSlice, internTok],
    fun h => by simp [tokOfSlice, internTok] at h, fun _ h => by simp [tokOfSlice, internTok] at h,
    fun _ _ => ⟨by simp [tokOfSlice, internTok], h0, h1, fun i a b => sc.all i (by omega) b, sc.stop⟩,
    fun _ h => by simp [tokOfSlice, internTok] at h, fun _ h => by simp [tokOfSlice, internTok] at h,
    fun h => by simp [tokOfSlice, internTok] at h⟩, trivial⟩

theorem readBlockComment_ok (s : State) (start : Nat) (hs : s.pos = start + 1) (h0 : peekAt s.input start = 47)
    (h1 : peekAt s.input (start + 1) = 42) :
    TokOK s.input start (tokOfSlice (internTok BLOCKCOMMENT) (readBlockComment s).1) (readBlockComment s).2.pos
    ∧ (readBlockComment s).2 = { s with pos := (readBlockComment s).2.pos } := by
  have hlt : start + 1 < s.input.size := lt_size_of_peekAt_ne_zero (by rw [h1]; decide)
  have bl := blockLoop_spec s.input (s.input.size + 2 - (s.pos + 1 + 1)) (peekAt s.input (s.pos + 1)) (s.pos + 1 + 1)
    (by omega) (by omega) (by simp) (by omega)
  unfold readBlockComment
  simp only [State.readChar, State.peekChar]
  obtain ⟨r, hr⟩ : ∃ r, blockLoop s.input (s.input.size + 2 - (s.pos + 1 + 1)) (peekAt s.input (s.pos + 1)) (s.pos + 1 + 1) = r := ⟨_, rfl⟩
  simp only [hr]
  rw [hr] at bl
  have e : s.pos - 1 = start := by omega
  rw [e]
  have ge := bl.ge
  have le := bl.le
  by_cases c : (r.1 == 0) = true
  · have c0 : r.1 = 0 := by simpa using c
    simp only [c, ↓reduceIte]
    have hz : peekAt s.input (r.2 - 1) = 0 := by rw [← bl.ch]; exact c0
    have hle : r.2 - 1 ≤ s.input.size := by omega
    rw [slice?_eq (by omega) hle]
    refine ⟨⟨by omega, hle, by simp [tokOfSlice, internTok, Tok.WF], by simp [tokOfSlice, internTok],
      fun _ => by simp [tokOfSlice, internTok], fun _ h => by simp [tokOfSlice, internTok] at h,
      fun _ h => by simp [tokOfSlice, internTok] at h,
      fun _ _ => ⟨h0, h1, Or.inr hz⟩, fun _ h => by simp [tokOfSlice, internTok] at h,
      fun h => by simp [tokOfSlice, internTok] at h⟩, trivial⟩
  · simp only [c, Bool.false_eq_true, ↓reduceIte]
    have c0 : r.1 ≠ 0 := by simpa using c
    obtain ⟨hs42, hs47⟩ : r.1 = 42 ∧ peekAt s.input r.2 = 47 := by
      cases bl.stop with
      | inl h => exact absurd h c0
      | inr h => exact h
    have hlt2 : r.2 < s.input.size := lt_size_of_peekAt_ne_zero (by rw [hs47]; decide)
    rw [slice?_eq (by omega) (by omega)]
    refine ⟨⟨by omega, by omega, by simp [tokOfSlice, internTok, Tok.WF], by simp [tokOfSlice, internTok],
      fun _ => by simp [tokOfSlice, internTok], fun _ h => by simp [tokOfSlice, internTok] at h,
      fun _ h => by simp [tokOfSlice, internTok] at h,
      fun _ _ => ⟨h0, h1, Or.inl ⟨by omega, ?_, ?_⟩⟩, fun _ h => by simp [tokOfSlice, internTok] at h,
      fun h => by simp [tokOfSlice, internTok] at h⟩, trivial⟩
    · have : r.2 + 1 - 2 = r.2 - 1 := by omega
      rw [this, ← bl.ch]; exact hs42
    · have : r.2 + 1 - 1 = r.2 := by omega
      rw [this]; exact hs47

/-! ### readNumber -/

def NumSpec (s : State) (start : Nat) (r : TType × Option Bytes × State) : Prop :=
  (r.1 = INT ∨ r.1 = FLOAT) ∧ r.2.1 = some (spanL s.input start r.2.2.pos) ∧ start + 1 ≤ r.2.2.pos
    ∧ r.2.2.pos ≤ s.input.size ∧ r.2.2 = { s with pos := r.2.2.pos }
    ∧ ∀ i, s.pos ≤ i → i < r.2.2.pos → peekAt s.input i ≠ 10

theorem num_leaf {s : State} {start : Nat} (hs : s.pos = start + 1) (t : TType) (P : Nat)
    (ht : t = INT ∨ t = FLOAT) (h1 : start + 1 ≤ P) (h2 : P ≤ s.input.size)
    (h3 : ∀ i, s.pos ≤ i → i < P → peekAt s.input i ≠ 10) :
    NumSpec s start (t, slice? s.input (s.pos - 1) P, { s with pos := P }) := by
  have e : s.pos - 1 = start := by omega
  rw [e, slice?_eq (by omega) h2]
  exact ⟨ht, rfl, h1, h2, rfl, h3⟩

theorem ite_int_float (c : Prop) [Decidable c] : (if c then FLOAT else INT) = INT ∨ (if c then FLOAT else INT) = FLOAT := by
  split <;> simp

theorem readNumber_spec (s : State) (ch : UInt8) (start : Nat) (hs : s.pos = start + 1)
    (hlt : start < s.input.size) : NumSpec s start (readNumber s ch) := by
  have scan : ∀ (p : UInt8 → Bool), p 0 = false → ∀ pos, pos ≤ s.input.size →
      pos ≤ scanWhile p s.input pos ∧ scanWhile p s.input pos ≤ s.input.size :=
    fun p hp pos h => ⟨(scanWhile_spec p hp s.input pos h).ge, (scanWhile_spec p hp s.input pos h).le⟩
  -- scanned bytes are not newlines
  have nl : ∀ (p : UInt8 → Bool), p 0 = false → p 10 = false → ∀ pos, pos ≤ s.input.size →
      ∀ i, pos ≤ i → i < scanWhile p s.input pos → peekAt s.input i ≠ 10 :=
    fun p hp h10 pos h i hi1 hi2 heq => by
      have := (scanWhile_spec p hp s.input pos h).all i hi1 hi2
      rw [heq, h10] at this; cases this
  have nz : ∀ pos (c : UInt8), c ≠ 0 → (peekAt s.input pos == c) = true → pos < s.input.size :=
    fun pos c hc h => lt_size_of_peekAt_ne_zero (by rw [beq_iff_eq.mp h]; exact hc)
  have ne10 : ∀ pos (c : UInt8), c ≠ 10 → (peekAt s.input pos == c) = true → peekAt s.input pos ≠ 10 :=
    fun pos c hc h => by rw [beq_iff_eq.mp h]; exact hc
  unfold readNumber
  simp only [State.peekChar]
  by_cases c1 : (ch == 48 && peekAt s.input s.pos == 120) = true
  · simp only [c1, ↓reduceIte]
    have hx : (peekAt s.input s.pos == 120) = true := by simp at c1; simp [c1.2]
    have := nz s.pos 120 (by decide) hx
    have := scan isHexDigit (by decide) (s.pos + 1) (by omega)
    refine num_leaf hs _ _ (ite_int_float _) (by omega) (by omega) ?_
    intro i hi1 hi2
    by_cases hi : i = s.pos
    · rw [hi]; exact ne10 _ 120 (by decide) hx
    · exact nl isHexDigit (by decide) (by decide) (s.pos + 1) (by omega) i (by omega) hi2
  · simp only [c1, Bool.false_eq_true, ↓reduceIte]
    by_cases c2 : (ch == 48 && peekAt s.input s.pos == 98) = true
    · simp only [c2, ↓reduceIte]
      have hx : (peekAt s.input s.pos == 98) = true := by simp at c2; simp [c2.2]
      have := nz s.pos 98 (by decide) hx
      have := scan isBinaryDigit (by decide) (s.pos + 1) (by omega)
      refine num_leaf hs _ _ (ite_int_float _) (by omega) (by omega) ?_
      intro i hi1 hi2
      by_cases hi : i = s.pos
      · rw [hi]; exact ne10 _ 98 (by decide) hx
      · exact nl isBinaryDigit (by decide) (by decide) (s.pos + 1) (by omega) i (by omega) hi2
    · simp only [c2, Bool.false_eq_true, ↓reduceIte]
      have b1 := scan isDigitOrUnderscore (by decide) s.pos (by omega)
      have a1 := nl isDigitOrUnderscore (by decide) (by decide) s.pos (by omega)
      obtain ⟨p1, hp1⟩ : ∃ p1, scanWhile isDigitOrUnderscore s.input s.pos = p1 := ⟨_, rfl⟩
      simp only [hp1] at b1 a1 ⊢
      by_cases c3 : (peekAt s.input p1 == 46 && ch == 46) = true
      · simp only [c3, ↓reduceIte]
        exact num_leaf hs _ _ (ite_int_float _) (by omega) (by omega) a1
      · simp only [c3, Bool.false_eq_true, ↓reduceIte]
        -- fractional part
        obtain ⟨p2, hp2, b2, a2⟩ : ∃ p2, (if (peekAt s.input p1 == 46) = true then scanWhile isDigitOrUnderscore s.input (p1 + 1) else p1) = p2
            ∧ (p1 ≤ p2 ∧ p2 ≤ s.input.size) ∧ ∀ i, p1 ≤ i → i < p2 → peekAt s.input i ≠ 10 := by
          refine ⟨_, rfl, ?_⟩
          split
          · rename_i hd
            have := nz p1 46 (by decide) hd
            have := scan isDigitOrUnderscore (by decide) (p1 + 1) (by omega)
            refine ⟨by omega, ?_⟩
            intro i hi1 hi2
            by_cases hi : i = p1
            · rw [hi]; exact ne10 _ 46 (by decide) hd
            · exact nl isDigitOrUnderscore (by decide) (by decide) (p1 + 1) (by omega) i (by omega) hi2
          · exact ⟨by omega, fun i h1 h2 => by omega⟩
        simp only [hp2]
        have a12 : ∀ i, s.pos ≤ i → i < p2 → peekAt s.input i ≠ 10 := by
          intro i hi1 hi2
          by_cases hi : i < p1
          · exact a1 i hi1 hi
          · exact a2 i (by omega) hi2
        have ht1 : ∀ t0 : TType, (t0 = INT ∨ t0 = FLOAT) →
            ((if (peekAt s.input p1 == 46) = true then FLOAT else t0) = INT
              ∨ (if (peekAt s.input p1 == 46) = true then FLOAT else t0) = FLOAT) := by
          intro t0 h; split
          · exact Or.inr rfl
          · exact h
        by_cases c4 : (peekAt s.input p2 != 101 && peekAt s.input p2 != 69) = true
        · simp only [c4, ↓reduceIte]
          exact num_leaf hs _ _ (ht1 _ (ite_int_float _)) (by omega) (by omega) a12
        · simp only [c4, Bool.false_eq_true, ↓reduceIte]
          have he : peekAt s.input p2 ≠ 10 := by
            intro h10; rw [h10] at c4; exact c4 (by decide)
          have ht2 := ht1 _ (ite_int_float ((ch == 46) = true))
          split
          · exact num_leaf hs _ p2 ht2 (by omega) (by omega) a12
          · obtain ⟨p4, hp4, hp4b, a4⟩ : ∃ p4, (if (peekAt s.input (p2 + 1) == 43 || peekAt s.input (p2 + 1) == 45) = true then p2 + 1 + 1 else p2 + 1) = p4
                ∧ p2 + 1 ≤ p4 ∧ ∀ i, p2 + 1 ≤ i → i < p4 → peekAt s.input i ≠ 10 := by
              refine ⟨_, rfl, ?_⟩
              split
              · rename_i hsg
                refine ⟨by omega, ?_⟩
                intro i hi1 hi2
                have hi : i = p2 + 1 := by omega
                rw [hi]
                simp only [Bool.or_eq_true] at hsg
                rcases hsg with h | h
                · exact ne10 _ 43 (by decide) h
                · exact ne10 _ 45 (by decide) h
              · exact ⟨by omega, fun i h1 h2 => by omega⟩
            simp only [hp4]
            split
            · exact num_leaf hs _ p2 ht2 (by omega) (by omega) a12
            · rename_i hd
              have hdig : isDigit (peekAt s.input p4) = true := by simpa using hd
              have : p4 < s.input.size := lt_size_of_peekAt_ne_zero (fun h0 => by rw [h0] at hdig; revert hdig; decide)
              have := scan isDigitOrUnderscore (by decide) p4 (by omega)
              refine num_leaf hs _ _ (Or.inr rfl) (by omega) (by omega) ?_
              intro i hi1 hi2
              by_cases h1 : i < p2
              · exact a12 i hi1 h1
              · by_cases h2 : i = p2
                · rw [h2]; exact he
                · by_cases h3 : i < p4
                  · exact a4 i (by omega) h3
                  · exact nl isDigitOrUnderscore (by decide) (by decide) p4 (by omega) i (by omega) hi2

theorem readNumber_ok (s : State) (ch : UInt8) (start : Nat) (hs : s.pos = start + 1) (hlt : start < s.input.size)
    (h0 : peekAt s.input start ≠ 10) :
    TokOK s.input start (tokOfSlice (internTok (readNumber s ch).1) (readNumber s ch).2.1) (readNumber s ch).2.2.pos
    ∧ (readNumber s ch).2.2 = { s with pos := (readNumber s ch).2.2.pos } := by
  obtain ⟨ht, hl, h1, h2, h3, h4⟩ := readNumber_spec s ch start hs hlt
  rw [hl]
  refine ⟨⟨by omega, h2, ?_, by simp [tokOfSlice, internTok], fun _ => by simp [tokOfSlice, internTok],
    ?_, ?_, ?_, ?_, ?_⟩, h3⟩
  · cases ht with
    | inl h => simp [tokOfSlice, internTok, Tok.WF, h]
    | inr h => simp [tokOfSlice, internTok, Tok.WF, h]
  rotate_left 4
  · intro _ i hi1 hi2
    by_cases hi : i = start
    · rw [hi]; exact h0
    · exact h4 i (by omega) hi2
  all_goals
    intro _ h
    simp only [tokOfSlice, internTok] at h
    cases ht with
    | inl h' => rw [h'] at h; cases h
    | inr h' => rw [h'] at h; cases h

/-! ### nextCore -/

/-- what `nextCore` returns from a state `s1` standing on a non-whitespace byte -/
def CoreSpec (s1 : State) (r : Tok × State) : Prop :=
  r.2 = { s1 with pos := r.2.pos } ∧
  ((r.1 = eolEof s1.lineMode ∧ s1.pos ≤ r.2.pos ∧ peekAt s1.input r.2.pos = 0
      ∧ (r.2.pos = s1.pos ∨ peekAt s1.input s1.pos = 34 ∨ peekAt s1.input s1.pos = 96))
   ∨ TokOK s1.input s1.pos r.1 r.2.pos)

theorem core_c1 {s1 : State} {ch : UInt8} (hch : peekAt s1.input s1.pos = ch)
    (hk : (cTokens.lookup ch).isSome = true) :
    CoreSpec s1 (constantTokenChar ch, { s1 with pos := s1.pos + 1 }) :=
  ⟨rfl, Or.inr (TokOK.c1 hch hk)⟩

theorem core_c2 {s1 : State} {a b : UInt8} (ha : peekAt s1.input s1.pos = a)
    (hb : peekAt s1.input (s1.pos + 1) = b) (hb0 : b ≠ 0) (hk : (c2Tokens.lookup (a, b)).isSome = true) :
    CoreSpec s1 (constantTokenChar2 a b, { s1 with pos := s1.pos + 1 + 1 }) :=
  ⟨rfl, Or.inr (TokOK.c2 ha hb hb0 hk)⟩

theorem core_string (s1 : State) (q : UInt8) (hq : peekAt s1.input s1.pos = q) (hq2 : q = 34 ∨ q = 96) :
    CoreSpec s1
      (if (!(readString { s1 with pos := s1.pos + 1 } q).2.1) = true then
        (State.eolEof (readString { s1 with pos := s1.pos + 1 } q).2.2,
          { (readString { s1 with pos := s1.pos + 1 } q).2.2 with
            pos := (readString { s1 with pos := s1.pos + 1 } q).2.2.pos - 1 })
      else (internTok STRING (readString { s1 with pos := s1.pos + 1 } q).1,
          (readString { s1 with pos := s1.pos + 1 } q).2.2)) := by
  have hq0 : q ≠ 0 := by cases hq2 <;> (rename_i h; rw [h]; decide)
  have sp := readStringLoop_spec q hq0 (q == 34) (s1.input.size + 1 - (s1.pos + 1)) { s1 with pos := s1.pos + 1 }
    (by simp; omega)
  unfold readString
  obtain ⟨r, hr⟩ : ∃ r, readStringLoop q (q == 34) (s1.input.size + 1 - (s1.pos + 1)) { s1 with pos := s1.pos + 1 } = r := ⟨_, rfl⟩
  simp only [hr]
  rw [hr] at sp
  have same := sp.same
  have ge := sp.ge
  simp only [] at same ge
  by_cases c : (!r.2.1) = true
  · simp only [c, ↓reduceIte]
    have hf : r.2.1 = false := by simpa using c
    obtain ⟨h1, h2⟩ := sp.okF hf
    refine ⟨by rw [same], Or.inl ⟨by rw [same]; rfl, by simp; omega, by simpa using h2, Or.inr ?_⟩⟩
    rw [hq]; exact hq2
  · simp only [c, Bool.false_eq_true, ↓reduceIte]
    have ht : r.2.1 = true := by simpa using c
    obtain ⟨h1, h2, h3⟩ := sp.okT ht
    simp only [] at h1 h2 h3
    refine ⟨same, Or.inr ?_⟩
    show TokOK s1.input s1.pos (internTok STRING r.1) r.2.2.pos
    exact ⟨by omega, h2, by simp [internTok, Tok.WF], by simp [internTok],
      fun h => by simp [internTok] at h, fun _ _ => ⟨by omega, by rw [hq]; exact hq2, by rw [h3, hq]⟩,
      fun _ h => by simp [internTok] at h, fun _ h => by simp [internTok] at h, fun _ h => by simp [internTok] at h,
      fun h => by simp [internTok] at h⟩

theorem nextSwitch_spec (s1 : State) (ch nc : UInt8) (hch : peekAt s1.input s1.pos = ch)
    (hnc : peekAt s1.input (s1.pos + 1) = nc) (s : State) (hs : s = { s1 with pos := s1.pos + 1 }) :
    CoreSpec s1 (nextSwitch ch nc s) := by
  unfold nextSwitch
  simp only []
  by_cases c : (ch == 61 || ch == 33 || ch == 58) = true
  · rw [if_pos c]
    simp only [Bool.or_eq_true, beq_iff_eq] at c
    by_cases d : (nc == 61) = true
    · rw [if_pos d]; have d := beq_iff_eq.mp d; subst d; subst hs
      rcases c with (rfl | rfl) | rfl <;> exact core_c2 hch hnc (by decide) (by decide)
    · rw [if_neg d]
      by_cases e : (nc == 62 && ch == 61) = true
      · rw [if_pos e]; simp only [Bool.and_eq_true, beq_iff_eq] at e
        obtain ⟨e1, e2⟩ := e; subst e1; subst e2; subst hs
        exact core_c2 hch hnc (by decide) (by decide)
      · rw [if_neg e]; subst hs
        rcases c with (rfl | rfl) | rfl <;> exact core_c1 hch (by decide)
  rw [if_neg c]; clear c
  by_cases c : (ch == 43 || ch == 45) = true
  · rw [if_pos c]
    simp only [Bool.or_eq_true, beq_iff_eq] at c
    by_cases d : (nc == ch) = true
    · rw [if_pos d]; have d := beq_iff_eq.mp d; subst d; subst hs
      rcases c with rfl | rfl <;> exact core_c2 hch hnc (by decide) (by decide)
    · rw [if_neg d]; subst hs
      rcases c with rfl | rfl <;> exact core_c1 hch (by decide)
  rw [if_neg c]; clear c
  by_cases c : (ch == 37 || ch == 42 || ch == 59 || ch == 44 || ch == 123 || ch == 125 || ch == 40 || ch == 41
      || ch == 91 || ch == 93 || ch == 94 || ch == 126) = true
  · rw [if_pos c]
    simp only [Bool.or_eq_true, beq_iff_eq] at c
    subst hs
    rcases c with ((((((((((rfl | rfl) | rfl) | rfl) | rfl) | rfl) | rfl) | rfl) | rfl) | rfl) | rfl) | rfl <;>
      exact core_c1 hch (by decide)
  rw [if_neg c]; clear c
  by_cases c : (ch == 47) = true
  · rw [if_pos c]; have c := beq_iff_eq.mp c; subst c
    by_cases d : (nc == 47) = true
    · rw [if_pos d]; have d := beq_iff_eq.mp d; subst d; subst hs
      have h := readLineComment_ok { s1 with pos := s1.pos + 1 } s1.pos rfl hch hnc
      exact ⟨h.2, Or.inr h.1⟩
    · rw [if_neg d]
      by_cases e : (nc == 42) = true
      · rw [if_pos e]; have e := beq_iff_eq.mp e; subst e; subst hs
        have h := readBlockComment_ok { s1 with pos := s1.pos + 1 } s1.pos rfl hch hnc
        exact ⟨h.2, Or.inr h.1⟩
      · rw [if_neg e]; subst hs; exact core_c1 hch (by decide)
  rw [if_neg c]; clear c
  by_cases c : (ch == 124 || ch == 38) = true
  · rw [if_pos c]
    simp only [Bool.or_eq_true, beq_iff_eq] at c
    by_cases d : (nc == ch) = true
    · rw [if_pos d]; have d := beq_iff_eq.mp d; subst d; subst hs
      rcases c with rfl | rfl <;> exact core_c2 hch hnc (by decide) (by decide)
    · rw [if_neg d]; subst hs
      rcases c with rfl | rfl <;> exact core_c1 hch (by decide)
  rw [if_neg c]; clear c
  by_cases c : (ch == 60 || ch == 62) = true
  · rw [if_pos c]
    simp only [Bool.or_eq_true, beq_iff_eq] at c
    by_cases d : (nc == ch) = true
    · rw [if_pos d]; have d := beq_iff_eq.mp d; subst d; subst hs
      rcases c with rfl | rfl <;> exact core_c2 hch hnc (by decide) (by decide)
    · rw [if_neg d]
      by_cases e : (nc == 61) = true
      · rw [if_pos e]; have e := beq_iff_eq.mp e; subst e; subst hs
        rcases c with rfl | rfl <;> exact core_c2 hch hnc (by decide) (by decide)
      · rw [if_neg e]; subst hs
        rcases c with rfl | rfl <;> exact core_c1 hch (by decide)
  rw [if_neg c]; clear c
  by_cases c : (ch == 34 || ch == 96) = true
  · rw [if_pos c]
    simp only [Bool.or_eq_true, beq_iff_eq] at c
    subst hs
    exact core_string s1 ch hch c
  rw [if_neg c]; clear c
  by_cases c : (ch == 0) = true
  · rw [if_pos c]; have c := beq_iff_eq.mp c; subst c; subst hs
    exact ⟨rfl, Or.inl ⟨rfl, Nat.le_refl _, hch, Or.inl rfl⟩⟩
  rw [if_neg c]
  have hz : ch ≠ 0 := by simpa using c
  clear c
  have hlt : s1.pos < s1.input.size := lt_size_of_peekAt_ne_zero (by rw [hch]; exact hz)
  by_cases c : (ch == 46) = true
  · rw [if_pos c]; have c := beq_iff_eq.mp c; subst c
    by_cases d : (nc == 46) = true
    · rw [if_pos d]; have d := beq_iff_eq.mp d; subst d; subst hs
      exact core_c2 hch hnc (by decide) (by decide)
    · rw [if_neg d]
      by_cases e : (!isDigit nc) = true
      · rw [if_pos e]; subst hs; exact core_c1 hch (by decide)
      · rw [if_neg e]; subst hs
        have h := readNumber_ok { s1 with pos := s1.pos + 1 } 46 s1.pos rfl hlt (by rw [hch]; decide)
        exact ⟨h.2, Or.inr h.1⟩
  rw [if_neg c]; clear c
  by_cases c : isLetter ch = true
  · rw [if_pos c]; subst hs
    have h := readIdentifier_ok { s1 with pos := s1.pos + 1 } s1.pos rfl hlt
      (by rw [hch]; intro h10; rw [h10] at c; revert c; decide)
    exact ⟨h.2, Or.inr h.1⟩
  rw [if_neg c]; clear c
  by_cases c : isDigit ch = true
  · rw [if_pos c]; subst hs
    have h := readNumber_ok { s1 with pos := s1.pos + 1 } ch s1.pos rfl hlt
      (by rw [hch]; intro h10; rw [h10] at c; revert c; decide)
    exact ⟨h.2, Or.inr h.1⟩
  rw [if_neg c]; clear c
  subst hs
  refine ⟨rfl, Or.inr ⟨by simp, by simp; omega, by simp [internTok, Tok.WF], by simp [internTok],
    fun h => by simp [internTok] at h, fun _ h => by simp [internTok] at h,
    fun _ h => by simp [internTok] at h, fun _ h => by simp [internTok] at h,
    fun _ _ => ⟨rfl, by simp [internTok, hch]⟩, fun h => by simp [internTok] at h⟩⟩

theorem nextCore_spec (s1 : State) : CoreSpec s1 (nextCore s1) :=
  nextSwitch_spec s1 _ _ rfl rfl _ rfl

end Grol.Lexer

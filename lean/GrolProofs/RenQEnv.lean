import GrolProofs.RenQBase
/-
C04 (B1), part 1: the environment operations (lean/Grol/Eval/Env.lean) in the two runs of the
quiet simulation.  Reads of a binding go through `FrQ.lk`, which needs the binding not to be dirty:
a clean reference never points to a dirty binding, a name looked up from a new frame that is
all-caps is never dirty, and a lookup of another name that finds a dirty binding moves the counter
of the frame the lookup works for (`Loud`), which the hypothesis of `SimQ` excludes.
-/
namespace Grol.R
open Grol.E

/-! ### frames of the two runs -/

theorem StRq.none {P : Qp} {s t : St} (hR : StRq P s t) {e : Nat} (h : t.frames[e]? = none) :
    s.frames[sh P.σ e]? = none := by
  have h1 : t.frames.size ≤ e := by
    rcases Nat.lt_or_ge e t.frames.size with h2 | h2
    · rw [Array.getElem?_eq_getElem h2] at h; cases h
    · exact h2
  apply Array.getElem?_eq_none
  rw [hR.size, sh_of_ge P.σ (Nat.le_trans hR.n0 h1)]
  omega

/-- `getFrame` on both sides: run T panics (nothing to show), or both continue with related frames -/
theorem qsim_getFrame_bind {P : Qp} {s t : St} (hR : StRq P s t) (e : Nat) {f : Frame → M α} {g : Frame → M β}
    {Q : α → β → Prop}
    (h : ∀ fs ft, t.frames[e]? = some ft → s.frames[sh P.σ e]? = some fs → FrQ P e fs ft →
      SimQ P (f fs) (g ft) s t Q) :
    SimQ P (getFrame (sh P.σ e) >>= f) (getFrame e >>= g) s t Q := by
  cases hte : t.frames[e]? with
  | none =>
    intro b t' hy _
    rw [runM_bind, runM_getFrame_none hte] at hy
    cases hy
  | some ft =>
    obtain ⟨fs, hfs, hfr⟩ := hR.frames e ft hte
    exact SimQ.bind_read (runM_getFrame hfs) (runM_getFrame hte) (h fs ft hte hfs hfr)

/-- replacing related frames by related frames -/
theorem StRq.setFrame {P : Qp} {s t : St} (hR : StRq P s t) {e : Nat} {ft : Frame} (hte : t.frames[e]? = some ft)
    {fs' ft' : Frame} (hfr : FrQ P e fs' ft') (hdec : FrameDec e ft') :
    StRq P { s with frames := s.frames.setIfInBounds (sh P.σ e) fs' }
      { t with frames := t.frames.setIfInBounds e ft' } := by
  have hlt := lt_of_frame hte
  obtain ⟨fs, hfs, _⟩ := hR.frames e ft hte
  have hlts := lt_of_frame hfs
  refine { hR with size := ?_, n0 := ?_, frames := ?_, dec := ?_ }
  · simp only [Array.size_setIfInBounds]; exact hR.size
  · simp only [Array.size_setIfInBounds]; exact hR.n0
  · intro i fi hi
    simp only [Array.getElem?_setIfInBounds] at hi ⊢
    by_cases hei : e = i
    · subst hei
      simp only [hlt, if_true] at hi
      cases hi
      exact ⟨fs', by simp [hlts], hfr⟩
    · simp only [hei, if_false] at hi
      obtain ⟨fsi, hfsi, hfri⟩ := hR.frames i fi hi
      refine ⟨fsi, ?_, hfri⟩
      have : sh P.σ e ≠ sh P.σ i := fun h => hei (sh_inj P.σ h)
      simp only [this, if_false]
      exact hfsi
  · intro i fi hi
    simp only [Array.getElem?_setIfInBounds] at hi
    by_cases hei : e = i
    · subst hei
      simp only [hlt, if_true] at hi
      cases hi
      exact hdec
    · simp only [hei, if_false] at hi
      exact hR.dec i fi hi

theorem qsim_modifyFrame {P : Qp} {s t : St} (hR : StRq P s t) (e : Nat) {g' g : Frame → Frame}
    (hg : ∀ fs ft, t.frames[e]? = some ft → FrQ P e fs ft → FrQ P e (g' fs) (g ft) ∧ FrameDec e (g ft)) :
    SimQ P (modifyFrame (sh P.σ e) g') (modifyFrame e g) s t (fun _ _ => True) := by
  cases hte : t.frames[e]? with
  | none =>
    intro b t' hy _
    unfold modifyFrame at hy
    rw [runM_bind, runM_getFrame_none hte] at hy
    cases hy
  | some ft =>
    obtain ⟨fs, hfs, hfr⟩ := hR.frames e ft hte
    obtain ⟨h1, h2⟩ := hg fs ft hte hfr
    intro b t' hy _
    rw [runM_modifyFrame hte] at hy
    cases hy
    exact ⟨(), _, runM_modifyFrame hfs _, hR.setFrame hte h1 h2, trivial⟩

/-- the miss counter goes up by one on both sides -/
theorem qsim_bump {P : Qp} {s t : St} (hR : StRq P s t) (e : Nat) {g : Frame → Frame}
    (hg : ∀ f, (g f).store = f.store ∧ (g f).outer = f.outer ∧ (g f).depth = f.depth ∧
      (g f).cacheKey = f.cacheKey ∧ (g f).function = f.function ∧ (g f).getMiss = f.getMiss + 1)
    (hc : ∀ fs ft : Frame, fs.cantCache = ft.cantCache → (g fs).cantCache = (g ft).cantCache)
    (hl : ∀ f, (g f).localFunc = f.localFunc := by intro f; rfl) :
    SimQ P (modifyFrame (sh P.σ e) g) (modifyFrame e g) s t (fun _ _ => True) := by
  refine qsim_modifyFrame hR e ?_
  intro fs ft hte hfr
  obtain ⟨a1, a2, a3, a4, a5, a6⟩ := hg fs
  obtain ⟨b1, b2, b3, b4, b5, b6⟩ := hg ft
  refine ⟨⟨by rw [a2, b2]; exact hfr.outer, by rw [a3, b3]; exact hfr.depth,
    by rw [a4, b4]; exact hfr.cacheKey, by rw [a5, b5]; exact hfr.function,
    by rw [a1, b1]; exact hfr.lk, by rw [b1]; exact hfr.cl, by rw [b1, b3]; exact hfr.dirty, ?_, ?_,
    by rw [hl fs, hl ft]; exact hfr.localFunc, by rw [a1, b3]; exact hfr.dirtyS⟩, ?_⟩
  · intro h
    obtain ⟨h1, h2⟩ := hfr.missNew h
    exact ⟨by rw [a6, b6, h1], hc fs ft h2⟩
  · intro h
    have := hfr.missOld h
    rw [a6, b6]; omega
  · have := hR.dec e ft hte
    exact ⟨by rw [b2]; exact this.1, by rw [b1]; exact this.2⟩

theorem qsim_bumpMiss {P : Qp} {s t : St} (hR : StRq P s t) (e : Nat) :
    SimQ P (modifyFrame (sh P.σ e) fun f => { f with getMiss := f.getMiss + 1 })
      (modifyFrame e fun f => { f with getMiss := f.getMiss + 1 }) s t (fun _ _ => True) :=
  qsim_bump hR e (fun f => ⟨rfl, rfl, rfl, rfl, rfl, rfl⟩) (fun _ _ h => h)

theorem qsim_triggerNoCache {P : Qp} {s t : St} (hR : StRq P s t) (e : Nat) :
    SimQ P (triggerNoCache (sh P.σ e)) (triggerNoCache e) s t (fun _ _ => True) := by
  unfold triggerNoCache
  exact qsim_bump hR e (fun f => ⟨rfl, rfl, rfl, rfl, rfl, rfl⟩) (fun _ _ _ => rfl)

/-! ### references -/

/-- `refValue` of a binding that is not dirty -/
theorem qsim_refValue {P : Qp} {s t : St} (hR : StRq P s t) (env : Nat) (name : String) (hnd : ¬ P.D env name) :
    SimQ P (refValue (sh P.σ env) name) (refValue env name) s t
      (fun a b => a = ren P.σ b ∧ clean P b ∧ ∀ e' n', b = Obj.ref e' n' → e' < env) := by
  unfold refValue
  refine qsim_getFrame_bind hR env ?_
  intro fs ft hte hfs hfr
  rw [hfr.lk name hnd]
  cases hl : lookupStore ft.store name with
  | none => exact SimQ.pure hR ⟨rfl, trivial, fun _ _ h => by cases h⟩
  | some v =>
    have hcv := hfr.cl name v hnd hl
    obtain ⟨k, hk⟩ := lookupStore_mem hl
    cases v with
    | ref e n =>
      have hlt : e < env := (hR.dec env ft hte).2 k e n hk
      simp only [Option.map, ren]
      have h1 : (e == env && n == name) = false := by
        have : (e == env) = false := by simp; omega
        simp [this]
      have h2 : (sh P.σ e == sh P.σ env && n == name) = false := by
        have : (sh P.σ e == sh P.σ env) = false := by
          have := sh_lt P.σ hlt
          simp; omega
        simp [this]
      simp only [h1, h2]
      exact SimQ.pure hR ⟨rfl, hcv, fun e' n' h => by cases h; exact hlt⟩
    | _ => exact SimQ.pure hR ⟨rfl, hcv, fun _ _ h => by cases h⟩

theorem qsim_refAlive {P : Qp} {s t : St} (hR : StRq P s t) (env : Nat) (name : String) (hnd : ¬ P.D env name) :
    SimQ P (refAlive (sh P.σ env) name) (refAlive env name) s t (fun a b => a = b) := by
  unfold refAlive
  refine qsim_getFrame_bind hR env ?_
  intro fs ft hte hfs hfr
  rw [hfr.lk name hnd]
  refine SimQ.pure hR ?_
  cases lookupStore ft.store name <;> rfl

/-- dereferencing a clean value, with any fuels that cover the chain -/
theorem qsim_valueOf_go {P : Qp} :
    ∀ (n m : Nat) (o : Obj) (s t : St), StRq P s t → clean P o → (∀ e nm, o = Obj.ref e nm → e < n ∧ sh P.σ e < m) →
      SimQ P (valueOf.go m (ren P.σ o)) (valueOf.go n o) s t
        (fun a b => a = ren P.σ b ∧ notRef b = true ∧ clean P b) := by
  intro n
  induction n with
  | zero =>
    intro m o s t hR hco ho
    cases ho' : notRef o with
    | false =>
      cases o with
      | ref e nm => exact absurd (ho e nm rfl).1 (Nat.not_lt_zero _)
      | _ => simp [notRef] at ho'
    | true =>
      rw [go_notRef ho', go_notRef (ren_notRef P.σ ho')]
      exact SimQ.pure hR ⟨rfl, ho', hco⟩
  | succ n ih =>
    intro m o s t hR hco ho
    cases ho' : notRef o with
    | true =>
      rw [go_notRef ho', go_notRef (ren_notRef P.σ ho')]
      exact SimQ.pure hR ⟨rfl, ho', hco⟩
    | false =>
      cases o with
      | ref e nm =>
        obtain ⟨hen, hem⟩ := ho e nm rfl
        obtain ⟨m', rfl⟩ : ∃ m', m = m' + 1 := ⟨m - 1, by omega⟩
        simp only [ren]
        unfold valueOf.go
        refine SimQ.bind (qsim_refValue hR e nm hco) ?_ (by tr) (by tr)
        rintro a b s' t' hR' ⟨hab, hcb, hb⟩
        subst hab
        have hnext : ∀ s2 t2, StRq P s2 t2 →
            SimQ P (valueOf.go m' (ren P.σ b)) (valueOf.go n b) s2 t2
              (fun a b => a = ren P.σ b ∧ notRef b = true ∧ clean P b) := by
          intro s2 t2 hR2
          refine ih m' b s2 t2 hR2 hcb ?_
          intro e' n' hbe
          have := hb e' n' hbe
          have h2 := sh_lt P.σ this
          exact ⟨by omega, by omega⟩
        dsimp only
        cases b with
        | ref e' n' =>
          simp only [ren]
          refine qsim_getFrame_bind hR' e' ?_
          intro fs1 ft1 _ _ hfr1
          refine qsim_getFrame_bind hR' e ?_
          intro fs2 ft2 _ _ hfr2
          rw [hfr1.depth, hfr2.depth]
          exact SimQ.ite (fun _ => SimQ.stop_bind) (fun _ => hnext _ _ hR')
        | _ => all_goals exact hnext _ _ hR'
      | _ => simp [notRef] at ho'

theorem qsim_valueOf {P : Qp} {s t : St} (hR : StRq P s t) (o : Obj) (hco : clean P o) :
    SimQ P (valueOf (ren P.σ o)) (valueOf o) s t (fun a b => a = ren P.σ b ∧ notRef b = true ∧ clean P b) := by
  unfold valueOf
  refine SimQ.bind_read (runM_get s) (runM_get t) ?_
  cases o with
  | ref e nm =>
    by_cases he : e < t.frames.size
    · refine qsim_valueOf_go _ _ _ s t hR hco ?_
      intro e' nm' h
      cases h
      have h1 := sh_lt P.σ he
      have h2 : sh P.σ t.frames.size = t.frames.size + P.σ.d := sh_of_ge P.σ hR.n0
      rw [hR.size]
      exact ⟨by omega, by omega⟩
    · -- out of range: run T panics
      simp only [ren]
      unfold valueOf.go
      have hte : t.frames[e]? = none := Array.getElem?_eq_none (by omega)
      intro b t' hy _
      unfold refValue at hy
      rw [runM_bind, runM_bind, runM_getFrame_none hte] at hy
      cases hy
  | _ =>
    all_goals
      refine qsim_valueOf_go _ _ _ s t hR hco ?_
      intro e nm h; cases h

/-! ### stores -/

theorem lookupStore_setStore (st : List (String × Obj)) (n m : String) (v : Obj) :
    lookupStore (setStore st n v) m = if m = n then some v else lookupStore st m := by
  by_cases h : m = n
  · subst h; simp only [if_true]; exact lookupStore_setStore_eq st m v
  · simp only [h, if_false]; exact lookupStore_setStore_ne st n m v h

theorem lookupStore_delStore (st : List (String × Obj)) (n m : String) :
    lookupStore (delStore st n) m = if m = n then none else lookupStore st m := by
  by_cases h : m = n
  · subst h; simp only [if_true]; exact lookupStore_delStore_self st m
  · simp only [h, if_false]; exact lookupStore_delStore_ne st n m h

/-- storing a clean value under a name that is not dirty -/
theorem FrQ.setStore {P : Qp} {i : Nat} {fs ft fs' ft' : Frame} (h : FrQ P i fs ft) (name : String) {v : Obj}
    (hnd : ¬ P.D i name) (hc : clean P v)
    (hs : fs'.store = setStore fs.store name (ren P.σ v) ∧ fs'.outer = fs.outer ∧ fs'.depth = fs.depth ∧
      fs'.cacheKey = fs.cacheKey ∧ fs'.function = fs.function ∧ fs'.getMiss = fs.getMiss ∧ fs'.cantCache = fs.cantCache)
    (ht : ft'.store = setStore ft.store name v ∧ ft'.outer = ft.outer ∧ ft'.depth = ft.depth ∧
      ft'.cacheKey = ft.cacheKey ∧ ft'.function = ft.function ∧ ft'.getMiss = ft.getMiss ∧ ft'.cantCache = ft.cantCache)
    (hl : fs'.localFunc = ft'.localFunc) :
    FrQ P i fs' ft' := by
  obtain ⟨a1, a2, a3, a4, a5, a6, a7⟩ := hs
  obtain ⟨b1, b2, b3, b4, b5, b6, b7⟩ := ht
  refine ⟨by rw [a2, b2]; exact h.outer, by rw [a3, b3]; exact h.depth, by rw [a4, b4]; exact h.cacheKey,
    by rw [a5, b5]; exact h.function, ?_, ?_, ?_, ?_, ?_, hl, ?_⟩
  · intro n hn
    rw [a1, b1, lookupStore_setStore, lookupStore_setStore]
    by_cases hnn : n = name
    · simp only [hnn, if_true]; rfl
    · simp only [hnn, if_false]; exact h.lk n hn
  · intro n w hn hl
    rw [b1, lookupStore_setStore] at hl
    by_cases hnn : n = name
    · simp only [hnn, if_true] at hl; cases hl; exact hc
    · simp only [hnn, if_false] at hl; exact h.cl n w hn hl
  · intro n hn
    have hnn : n ≠ name := fun hh => hnd (hh ▸ hn)
    rw [b1, b3, lookupStore_setStore]
    simp only [hnn, if_false]
    exact h.dirty n hn
  · intro hi
    rw [a6, a7, b6, b7]; exact h.missNew hi
  · intro hi
    rw [a6, b6]; exact h.missOld hi
  · intro n hn w hw
    have hnn : n ≠ name := fun hh => hnd (hh ▸ hn)
    rw [a1, lookupStore_setStore] at hw
    simp only [hnn, if_false] at hw
    rw [b3]
    exact h.dirtyS n hn w hw

/-- deleting a name that is not dirty -/
theorem FrQ.delStore {P : Qp} {i : Nat} {fs ft : Frame} (h : FrQ P i fs ft) (name : String) (hnd : ¬ P.D i name) :
    FrQ P i { fs with store := delStore fs.store name } { ft with store := delStore ft.store name } := by
  refine ⟨h.outer, h.depth, h.cacheKey, h.function, ?_, ?_, ?_, h.missNew, h.missOld, h.localFunc, ?_⟩
  · intro n hn
    simp only [lookupStore_delStore]
    by_cases hnn : n = name
    · simp only [hnn, if_true]; rfl
    · simp only [hnn, if_false]; exact h.lk n hn
  · intro n w hn hl
    simp only [lookupStore_delStore] at hl
    by_cases hnn : n = name
    · simp only [hnn, if_true] at hl; cases hl
    · simp only [hnn, if_false] at hl; exact h.cl n w hn hl
  · intro n hn
    have hnn : n ≠ name := fun hh => hnd (hh ▸ hn)
    simp only [lookupStore_delStore, hnn, if_false]
    exact h.dirty n hn
  · intro n hn w hw
    have hnn : n ≠ name := fun hh => hnd (hh ▸ hn)
    simp only [lookupStore_delStore, hnn, if_false] at hw
    exact h.dirtyS n hn w hw

theorem clean_refTo {P : Qp} (o : Nat) (name : String) (obj : Obj) (hnd : ¬ P.D o name) (hc : clean P obj) :
    clean P (refTo o name obj) := by
  cases obj <;> first | exact hnd | exact hc

/-! ### makeRef -/

theorem runM_bind_getFrame_pure {st : St} {e : Nat} {f : Frame} (h : st.frames[e]? = some f) :
    runM (do let __do_lift ← getFrame e; pure __do_lift.depth : M Nat) st = (.ok f.depth, st) := by
  rw [runM_bind, runM_getFrame h]
  rfl

/-- the walk of `makeRef` for frame `orig`, a new frame.  When the name is all-caps the binding found cannot be
dirty; otherwise `orig` is the quiet frame and finding a dirty binding moves its counter. -/
theorem qsim_makeRef_go {P : Qp} (orig : Nat) (name : String) (ho : P.σ.n0 ≤ orig)
    (hq : isConstant name = true ∨ orig = P.e) :
    ∀ (n m e : Nat) (s t : St), StRq P s t → e < t.frames.size → e < n → sh P.σ e < m → e ≤ orig →
      orig < t.frames.size →
      SimQ P (makeRef.go (sh P.σ orig) name m (sh P.σ e)) (makeRef.go orig name n e) s t (QOptq P) := by
  intro n
  induction n with
  | zero => intro m e s t _ _ h; exact absurd h (Nat.not_lt_zero _)
  | succ n ih =>
    intro m e s t hR het hen hem heo hot
    obtain ⟨m', rfl⟩ : ∃ m', m = m' + 1 := ⟨m - 1, by omega⟩
    unfold makeRef.go
    refine qsim_getFrame_bind hR e ?_
    intro fs ft hte hfs hfr
    rw [hfr.outer]
    cases hout : ft.outer with
    | none => exact SimQ.pure hR ⟨rfl, fun _ h => by cases h⟩
    | some o =>
      have hoe : o < e := (hR.dec e ft hte).1 o hout
      simp only [Option.map]
      refine qsim_getFrame_bind hR o ?_
      intro fso fto hto hfso hfro
      cases hl : lookupStore fto.store name with
      | none =>
        have hnd : ¬ P.D o name := by
          intro hd
          obtain ⟨_, v, hv, _⟩ := hfro.dirty name hd
          rw [hl] at hv; cases hv
        rw [hfro.lk name hnd, hl]
        simp only [Option.map]
        have := sh_lt P.σ hoe
        exact ih m' o s t hR (by omega) (by omega) (by omega) (by omega) hot
      | some obj =>
        by_cases hd : P.D o name
        · -- a dirty binding: not an all-caps name, not a reference, not a function of a depth-0 frame: the counter of `orig` moves
          obtain ⟨hnc, v, hv, hvr, hvf⟩ := hfro.dirty name hd
          rw [hl] at hv; cases hv
          rcases hq with hq | hq
          · rw [hnc] at hq; cases hq
          · subst hq
            refine SimQ.loudAt ?_
            try dsimp only
            have hrt : refTo o name obj = Obj.ref o name := by
              cases obj <;> first | rfl | (simp [notRef] at hvr)
            rw [hrt]
            dsimp only
            refine LoudAt.modifyFrame_bind (fun f => Nat.le_refl _) ?_
            intro forig hforig
            have hne : P.e ≠ o := by omega
            have hfo1 : ∀ fr' : Frame, ({ t with frames := t.frames.setIfInBounds P.e fr' } : St).frames[o]? = some fto := by
              intro fr'
              show (t.frames.setIfInBounds P.e fr')[o]? = some fto
              rw [Array.getElem?_setIfInBounds]
              simp only [hne, if_false]
              exact hto
            refine LoudAt.bind_read (runM_getFrame (hfo1 _)) ?_
            refine LoudAt.bind_read (runM_pure _ _) ?_
            have hc : (!(isConstant name && fto.depth == 0) && !(isFuncObj obj && fto.depth == 0)) = true := by
              rw [hnc]
              rcases hvf with h | h
              · rw [h]; rfl
              · have : (fto.depth == 0) = false := by simpa using h
                rw [this]; simp
            simp only [hc, if_true]
            exact (Loud.bind_left (Loud.modifyFrame (fun f => Nat.lt_succ_self _)) (by tr)).at _
        · rw [hfro.lk name hd, hl]
          have hco := hfro.cl name obj hd hl
          simp only [Option.map]
          obtain ⟨k, hk⟩ := lookupStore_mem hl
          try dsimp only
          rw [refTo_ren, isFuncObj_ren]
          -- where the stored reference points
          have hr : ∀ e' n', refTo o name obj = Obj.ref e' n' → e' < orig := by
            intro e' n' h
            cases obj with
            | ref e2 n2 =>
              have := (hR.dec o fto hto).2 k e2 n2 hk
              cases h; omega
            | _ => all_goals (cases h; omega)
          have hcr : clean P (refTo o name obj) := clean_refTo o name obj hd hco
          generalize refTo o name obj = r at hr hcr
          have hnd0 : ¬ P.D orig name := fun h => absurd (hR.dlt orig name h) (by omega)
          refine SimQ.bind (Q := fun _ _ => True) ?_ ?_ (by tr) (by tr)
          · refine qsim_modifyFrame hR orig ?_
            intro fs1 ft1 hte1 hfr1
            exact ⟨hfr1.setStore name hnd0 hcr ⟨rfl, rfl, rfl, rfl, rfl, rfl, rfl⟩ ⟨rfl, rfl, rfl, rfl, rfl, rfl, rfl⟩ hfr1.localFunc,
              frameDec_setStore (hR.dec orig ft1 hte1) name hr⟩
          · intro _ _ s1 t1 hR1 _
            have hres : QOptq P (some (ren P.σ r)) (some r) := ⟨rfl, fun v h => by cases h; exact hcr⟩
            have hjp : ∀ (rd rd' : Nat), rd = rd' → SimQ P
                (if (!(isConstant name && rd == 0) && !(isFuncObj obj && rd == 0)) = true then do
                    let __r ← modifyFrame (sh P.σ orig) fun f => { f with getMiss := f.getMiss + 1 }
                    (fun _ => pure (some (ren P.σ r)) : Unit → M (Option Obj)) __r
                  else pure (some (ren P.σ r)))
                (if (!(isConstant name && rd' == 0) && !(isFuncObj obj && rd' == 0)) = true then do
                    let __r ← modifyFrame orig fun f => { f with getMiss := f.getMiss + 1 }
                    (fun _ => pure (some r) : Unit → M (Option Obj)) __r
                  else pure (some r)) s1 t1 (QOptq P) := by
              intro rd rd' hrd
              subst hrd
              refine SimQ.ite (fun _ => ?_) (fun _ => SimQ.pure hR1 hres)
              exact SimQ.bind (Q := fun _ _ => True) (qsim_bumpMiss hR1 orig) (fun _ _ s2 t2 hR2 _ => SimQ.pure hR2 hres)
                (by tr) (by tr)
            cases r with
            | ref e' n' =>
              simp only [ren]
              refine qsim_getFrame_bind hR1 e' ?_
              intro fs3 ft3 _ _ hfr3
              refine SimQ.bind_read (runM_pure _ s1) (runM_pure _ t1) ?_
              exact hjp _ _ hfr3.depth
            | _ =>
              all_goals
                simp only [ren]
                refine SimQ.bind_read (runM_pure _ s1) (runM_pure _ t1) ?_
                exact hjp _ _ rfl

theorem qsim_makeRef {P : Qp} {s t : St} (hR : StRq P s t) (orig : Nat) (name : String) (ho : P.σ.n0 ≤ orig)
    (hq : isConstant name = true ∨ orig = P.e) :
    SimQ P (makeRef (sh P.σ orig) name) (makeRef orig name) s t (QOptq P) := by
  unfold makeRef
  refine SimQ.bind_read (runM_get s) (runM_get t) ?_
  have h2 : sh P.σ t.frames.size = t.frames.size + P.σ.d := sh_of_ge P.σ hR.n0
  by_cases hot : orig < t.frames.size
  · have h1 := sh_lt P.σ hot
    exact qsim_makeRef_go orig name ho hq _ _ orig s t hR hot hot (by rw [hR.size]; omega) (Nat.le_refl _) hot
  · -- out of range: run T panics
    have hpos := hR.pos
    have hn0 := hR.n0
    obtain ⟨k, hk⟩ : ∃ k, t.frames.size = k + 1 := ⟨t.frames.size - 1, by omega⟩
    rw [hk]
    unfold makeRef.go
    have hte : t.frames[orig]? = none := Array.getElem?_eq_none (by omega)
    intro b t' hy _
    rw [runM_bind, runM_getFrame_none hte] at hy
    cases hy

/-! ### envGet -/

theorem qsim_envGet {P : Qp} {s t : St} (hR : StRq P s t) (e : Nat) (name : String) (he : P.σ.n0 ≤ e)
    (hq : isConstant name = true ∨ e = P.e) :
    SimQ P (envGet (sh P.σ e) name) (envGet e name) s t (QOptq P) := by
  unfold envGet
  dsimp only
  refine SimQ.ite (fun _ => SimQ.stop_bind) (fun _ => ?_)
  refine qsim_getFrame_bind hR e ?_
  intro fs ft hte hfs hfr
  have het := lt_of_frame hte
  have hnd : ¬ P.D e name := fun h => absurd (hR.dlt e name h) (by omega)
  have hnone : QOptq P none none := ⟨rfl, fun _ h => by cases h⟩
  -- the part after the `self` / function-name tests
  have hrest : SimQ P (match lookupStore fs.store name with
      | some (Obj.ref re rn) => do
        let __do_lift ← refAlive re rn
        if (!__do_lift) = true then do
            modifyFrame (sh P.σ e) fun f => { f with store := delStore f.store name }
            match fs.outer with
              | none => pure none
              | some _ => makeRef (sh P.σ e) name
          else do
            let tgt ← refValue re rn
            let __do_lift ← getFrame re
            if (!(isConstant rn && __do_lift.depth == 0) && !(isFuncObj tgt && __do_lift.depth == 0)) = true then do
                modifyFrame (sh P.σ e) fun f => { f with getMiss := f.getMiss + 1 }
                pure (some (Obj.ref re rn))
              else pure (some (Obj.ref re rn))
      | some obj => pure (some obj)
      | none =>
        match fs.outer with
        | none => pure none
        | some _ => makeRef (sh P.σ e) name)
      (match lookupStore ft.store name with
      | some (Obj.ref re rn) => do
        let __do_lift ← refAlive re rn
        if (!__do_lift) = true then do
            modifyFrame e fun f => { f with store := delStore f.store name }
            match ft.outer with
              | none => pure none
              | some _ => makeRef e name
          else do
            let tgt ← refValue re rn
            let __do_lift ← getFrame re
            if (!(isConstant rn && __do_lift.depth == 0) && !(isFuncObj tgt && __do_lift.depth == 0)) = true then do
                modifyFrame e fun f => { f with getMiss := f.getMiss + 1 }
                pure (some (Obj.ref re rn))
              else pure (some (Obj.ref re rn))
      | some obj => pure (some obj)
      | none =>
        match ft.outer with
        | none => pure none
        | some _ => makeRef e name) s t (QOptq P) := by
    rw [hfr.lk name hnd, hfr.outer]
    cases hl : lookupStore ft.store name with
    | none =>
      simp only [Option.map]
      cases ft.outer with
      | none => exact SimQ.pure hR hnone
      | some o => exact qsim_makeRef hR e name he hq
    | some obj =>
      have hco := hfr.cl name obj hnd hl
      cases obj with
      | ref re rn =>
        have hndr : ¬ P.D re rn := hco
        have hres : QOptq P (some (Obj.ref (sh P.σ re) rn)) (some (Obj.ref re rn)) := ⟨rfl, fun v h => by cases h; exact hco⟩
        simp only [Option.map, ren]
        refine SimQ.bind (qsim_refAlive hR re rn hndr) ?_ (by tr) (by tr)
        rintro a b s1 t1 hR1 rfl
        refine SimQ.ite (fun _ => ?_) (fun _ => ?_)
        · refine SimQ.bind (Q := fun _ _ => True) ?_ ?_ (by tr) (by tr)
          · refine qsim_modifyFrame hR1 e ?_
            intro fs1 ft1 hte1 hfr1
            exact ⟨hfr1.delStore name hnd, frameDec_delStore (hR1.dec e ft1 hte1) name⟩
          · intro _ _ s2 t2 hR2 _
            cases ft.outer with
            | none => exact SimQ.pure hR2 hnone
            | some o =>
              exact qsim_makeRef hR2 e name he hq
        · refine SimQ.bind (qsim_refValue hR1 re rn hndr) ?_ (by tr) (by tr)
          rintro tgs tgt s2 t2 hR2 ⟨rfl, _, _⟩
          refine qsim_getFrame_bind hR2 re ?_
          intro fs3 ft3 _ _ hfr3
          rw [hfr3.depth, isFuncObj_ren]
          refine SimQ.ite (fun _ => ?_) (fun _ => SimQ.pure hR2 hres)
          exact SimQ.bind (Q := fun _ _ => True) (qsim_bumpMiss hR2 e) (fun _ _ s3 t3 hR3 _ => SimQ.pure hR3 hres)
            (by tr) (by tr)
      | _ => all_goals exact SimQ.pure hR ⟨rfl, fun v h => by cases h; exact hco⟩
  refine SimQ.ite (fun _ => ?_) (fun _ => ?_)
  · rw [hfr.function]
    cases ft.function with
    | none => exact SimQ.pure hR hnone
    | some fn => exact SimQ.pure hR ⟨rfl, fun v h => by cases h; trivial⟩
  · rw [hfr.function]
    cases ft.function with
    | none => exact hrest
    | some fn =>
      simp only [Option.map]
      refine SimQ.ite' (by simp [renFn]) (fun _ => SimQ.pure hR ⟨rfl, fun v h => by cases h; trivial⟩) (fun _ => hrest)

/-! ### writes -/

theorem qsim_functionChanged {P : Qp} {s t : St} (hR : StRq P s t) (w : Nat) (old : Option Obj) :
    SimQ P (functionChanged (sh P.σ w) (old.map (ren P.σ))) (functionChanged w old) s t (fun _ _ => True) := by
  unfold functionChanged
  cases old with
  | none => exact SimQ.pure hR trivial
  | some o =>
    simp only [Option.map, isFuncObj_ren]
    refine SimQ.ite (fun _ => ?_) (fun _ => SimQ.pure hR trivial)
    refine SimQ.bind (Q := fun _ _ => True) (qsim_bumpMiss hR w) ?_ (by tr) (by tr)
    intro _ _ s1 t1 hR1 _
    intro b t' hy _
    rw [runM_modify] at hy
    cases hy
    exact ⟨(), _, runM_modify _ _, { hR1 with }, trivial⟩

/-- the frame update of `create`, `update` and the reference path of `SetNoChecks` -/
theorem qsim_storeSet {P : Qp} {s t : St} (hR : StRq P s t) (e : Nat) (name : String) {v : Obj}
    (hnd : ¬ P.D e name) (hnr : notRef v = true) (hc : clean P v) (g' g : Frame → Frame)
    (hg' : ∀ f, (g' f).store = setStore f.store name (ren P.σ v) ∧ (g' f).outer = f.outer ∧ (g' f).depth = f.depth ∧
      (g' f).cacheKey = f.cacheKey ∧ (g' f).function = f.function ∧ (g' f).getMiss = f.getMiss ∧
      (g' f).cantCache = f.cantCache)
    (hg : ∀ f, (g f).store = setStore f.store name v ∧ (g f).outer = f.outer ∧ (g f).depth = f.depth ∧
      (g f).cacheKey = f.cacheKey ∧ (g f).function = f.function ∧ (g f).getMiss = f.getMiss ∧
      (g f).cantCache = f.cantCache)
    (hl : ∀ fs ft : Frame, fs.depth = ft.depth → fs.localFunc = ft.localFunc → (g' fs).localFunc = (g ft).localFunc := by
      intro fs ft h1 h2; simp only [noteLocal, h1, h2, isFuncObj_ren]) :
    SimQ P (modifyFrame (sh P.σ e) g') (modifyFrame e g) s t (fun _ _ => True) := by
  refine qsim_modifyFrame hR e ?_
  intro fs ft hte hfr
  refine ⟨hfr.setStore name hnd hc (hg' fs) (hg ft) (hl fs ft hfr.depth hfr.localFunc), ?_⟩
  obtain ⟨b1, b2, _⟩ := hg ft
  have := hR.dec e ft hte
  refine ⟨by rw [b2]; exact this.1, ?_⟩
  rw [b1]
  intro k e' n' hm
  rcases mem_setStore hm with h1 | h1
  · exact this.2 k e' n' h1
  · subst h1; simp [notRef] at hnr

/-- both runs see the same answer to "the top level frame binds `name` to a function" -/
theorem rootFnOf_q {P : Qp} {s t : St} (hR : StRq P s t) (name : String) : rootFnOf s name = rootFnOf t name := by
  unfold rootFnOf
  rw [hR.root]
  cases hte : t.frames[t.root]? with
  | none => rw [hR.none hte]
  | some ft =>
    obtain ⟨fs, hfs, hfr⟩ := hR.frames t.root ft hte
    rw [hfs]
    dsimp only
    rw [hfr.depth]
    by_cases hd : P.D t.root name
    · obtain ⟨_, v, hv, _, hvf⟩ := hfr.dirty name hd
      rw [hv]
      have ht : (isFuncObj v && ft.depth == 0) = false := by
        rcases hvf with h | h
        · rw [h]; rfl
        · have : (ft.depth == 0) = false := by simpa using h
          rw [this]; simp
      cases hls : lookupStore fs.store name with
      | none => simp only [ht]
      | some w =>
        have hs : (isFuncObj w && ft.depth == 0) = false := by
          rcases hfr.dirtyS name hd w hls with h | h
          · rw [h]; rfl
          · have : (ft.depth == 0) = false := by simpa using h
            rw [this]; simp
        simp only [ht, hs]
    · rw [hfr.lk name hd]
      cases lookupStore ft.store name with
      | none => rfl
      | some o => simp only [Option.map, isFuncObj_ren]

theorem qsim_rootBindsFunc_bind {P : Qp} {s t : St} (hR : StRq P s t) (name : String) {f g : Bool → M α}
    {Q : α → α → Prop} (h : SimQ P (f (rootFnOf t name)) (g (rootFnOf t name)) s t Q) :
    SimQ P (rootBindsFunc name >>= f) (rootBindsFunc name >>= g) s t Q := by
  refine SimQ.bind_read (runM_rootBindsFunc name s) (runM_rootBindsFunc name t) ?_
  rw [rootFnOf_q hR]; exact h

theorem qsim_envCreate {P : Qp} {s t : St} (hR : StRq P s t) (e : Nat) (name : String) (val : Obj)
    (hnd : ¬ P.D e name) (hcv : clean P val) :
    SimQ P (envCreate (sh P.σ e) name (ren P.σ val)) (envCreate e name val) s t (QOq P) := by
  unfold envCreate
  refine SimQ.bind (qsim_valueOf hR val hcv) ?_ (by tr) (by tr)
  rintro a v s1 t1 hR1 ⟨rfl, hnr, hc⟩
  refine qsim_rootBindsFunc_bind hR1 name ?_
  refine SimQ.bind (Q := fun _ _ => True) ?_ (fun _ _ s2 t2 hR2 _ => SimQ.pure hR2 ⟨rfl, hc⟩) (by tr) (by tr)
  exact qsim_storeSet hR1 e name hnd hnr hc _ _ (fun f => ⟨rfl, rfl, rfl, rfl, rfl, rfl, rfl⟩)
    (fun f => ⟨rfl, rfl, rfl, rfl, rfl, rfl, rfl⟩)

theorem qsim_envStoreAt {P : Qp} {s t : St} (hR : StRq P s t) (w e : Nat) (name : String) {v : Obj}
    (hnd : ¬ P.D e name) (hnr : notRef v = true) (hc : clean P v) :
    SimQ P (envStoreAt (sh P.σ w) (sh P.σ e) name (ren P.σ v)) (envStoreAt w e name v) s t (QOq P) := by
  unfold envStoreAt
  refine qsim_getFrame_bind hR e ?_
  intro fs ft hte hfs hfr
  rw [hfr.lk name hnd]
  refine SimQ.bind (qsim_functionChanged hR w _) ?_ (by tr) (by tr)
  intro _ _ s1 t1 hR1 _
  refine qsim_rootBindsFunc_bind hR1 name ?_
  refine SimQ.bind (Q := fun _ _ => True) ?_ (fun _ _ s2 t2 hR2 _ => SimQ.pure hR2 ⟨rfl, hc⟩) (by tr) (by tr)
  exact qsim_storeSet hR1 e name hnd hnr hc _ _ (fun f => ⟨rfl, rfl, rfl, rfl, rfl, rfl, rfl⟩)
    (fun f => ⟨rfl, rfl, rfl, rfl, rfl, rfl, rfl⟩)

theorem qsim_envUpdate {P : Qp} {s t : St} (hR : StRq P s t) (e : Nat) (name : String) (found val : Obj)
    (hnd : ¬ P.D e name) (hcf : clean P found) (hcv : clean P val) :
    SimQ P (envUpdate (sh P.σ e) name (ren P.σ found) (ren P.σ val)) (envUpdate e name found val) s t (QOq P) := by
  unfold envUpdate
  rw [updTarget_ren]
  have hndt : ¬ P.D (updTarget e name found).1 (updTarget e name found).2 := by
    cases found <;> first | exact hnd | exact hcf
  have hrest : ∀ (a v : Obj) s1 t1, StRq P s1 t1 → a = ren P.σ v → notRef v = true → clean P v →
      SimQ P (envStoreAt (sh P.σ e) (sh P.σ (updTarget e name found).1) (updTarget e name found).2 a)
        (envStoreAt e (updTarget e name found).1 (updTarget e name found).2 v) s1 t1 (QOq P) := by
    intro a v s1 t1 hR1 ha hnr hc
    subst ha
    exact qsim_envStoreAt hR1 e _ _ hndt hnr hc
  cases val with
  | ref re rn =>
    simp only [ren]
    have := qsim_valueOf hR (.ref re rn) hcv
    simp only [ren] at this
    refine SimQ.bind this ?_ (by tr) (by tr)
    rintro a v s1 t1 hR1 ⟨rfl, hnr, hc⟩
    exact hrest _ v s1 t1 hR1 rfl hnr hc
  | _ =>
    all_goals
      simp only [ren]
      refine SimQ.bind_read (runM_pure _ s) (runM_pure _ t) ?_
      exact hrest _ _ s t hR (by simp only [ren]) rfl hcv

theorem qsim_setNoChecks {P : Qp} {s t : St} (hR : StRq P s t) (e : Nat) (name : String) (val : Obj) (create : Bool)
    (he : P.σ.n0 ≤ e) (hq : create = true ∨ isConstant name = true ∨ e = P.e) (hcv : clean P val) :
    SimQ P (setNoChecks (sh P.σ e) name (ren P.σ val) create) (setNoChecks e name val create) s t (QOq P) := by
  have hnd : ¬ P.D e name := fun h => absurd (hR.dlt e name h) (by omega)
  unfold setNoChecks
  refine SimQ.ite (fun _ => qsim_envCreate hR e name val hnd hcv) (fun hcr => ?_)
  have hq' : isConstant name = true ∨ e = P.e := by
    rcases hq with h | h
    · exact absurd h hcr
    · exact h
  refine qsim_getFrame_bind hR e ?_
  intro fs ft hte hfs hfr
  rw [hfr.lk name hnd]
  cases hl : lookupStore ft.store name with
  | some r =>
    simp only [Option.map]
    exact qsim_envUpdate hR e name r val hnd (hfr.cl name r hnd hl) hcv
  | none =>
    simp only [Option.map]
    refine SimQ.bind (qsim_makeRef hR e name he hq') ?_ (by tr) (by tr)
    rintro a b s1 t1 hR1 ⟨rfl, hcb⟩
    cases b with
    | none => exact qsim_envCreate hR1 e name val hnd hcv
    | some r =>
      have hcr := hcb r rfl
      cases r with
      | ref re rn =>
        have hndr : ¬ P.D re rn := hcr
        simp only [Option.map, ren]
        refine SimQ.bind (qsim_valueOf hR1 val hcv) ?_ (by tr) (by tr)
        rintro a v s2 t2 hR2 ⟨rfl, hnr, hc⟩
        refine qsim_getFrame_bind hR2 re ?_
        intro fs3 ft3 _ _ hfr3
        rw [hfr3.lk rn hndr]
        refine SimQ.bind (qsim_functionChanged hR2 e _) ?_ (by tr) (by tr)
        intro _ _ s3 t3 hR3 _
        refine qsim_rootBindsFunc_bind hR3 rn ?_
        refine SimQ.bind (Q := fun _ _ => True) ?_ (fun _ _ s4 t4 hR4 _ => SimQ.pure hR4 ⟨rfl, hcv⟩) (by tr) (by tr)
        exact qsim_storeSet hR3 re rn hndr hnr hc _ _ (fun f => ⟨rfl, rfl, rfl, rfl, rfl, rfl, rfl⟩)
          (fun f => ⟨rfl, rfl, rfl, rfl, rfl, rfl, rfl⟩)
      | _ => all_goals exact qsim_envCreate hR1 e name val hnd hcv

theorem qsim_createOrSet {P : Qp} {s t : St} (hR : StRq P s t) (e : Nat) (name : String) (val : Obj) (create : Bool)
    (he : P.σ.n0 ≤ e) (hq : create = true ∨ e = P.e) (hcv : clean P val) :
    SimQ P (createOrSet (sh P.σ e) name (ren P.σ val) create) (createOrSet e name val create) s t (QOq P) := by
  unfold createOrSet
  dsimp only
  have hq' : create = true ∨ isConstant name = true ∨ e = P.e := by
    rcases hq with h | h
    · exact Or.inl h
    · exact Or.inr (Or.inr h)
  have herr : ∀ msg, QOq P (Obj.error msg) (Obj.error msg) := fun _ => ⟨rfl, trivial⟩
  have hrest : ∀ s1 t1, StRq P s1 t1 →
      SimQ P (do
          let st ← get
          if st.extNames.contains name = true then pure (Obj.error ("attempt to change internal function " ++ name))
            else setNoChecks (sh P.σ e) name (ren P.σ val) create)
        (do
          let st ← get
          if st.extNames.contains name = true then pure (Obj.error ("attempt to change internal function " ++ name))
            else setNoChecks e name val create) s1 t1 (QOq P) := by
    intro s1 t1 hR1
    refine SimQ.bind_read (runM_get s1) (runM_get t1) ?_
    rw [hR1.extNames]
    exact SimQ.ite (fun _ => SimQ.pure hR1 (herr _)) (fun _ => qsim_setNoChecks hR1 e name val create he hq' hcv)
  refine SimQ.ite (fun hcn => ?_) (fun _ => hrest s t hR)
  refine SimQ.bind (qsim_envGet hR e name he (Or.inl hcn)) ?_ (by tr) (by tr)
  rintro a b s1 t1 hR1 ⟨rfl, hcb⟩
  cases b with
  | none => exact hrest s1 t1 hR1
  | some old =>
    have hco := hcb old rfl
    simp only [Option.map, ren_typeNum]
    have hfin : ∀ (same : Bool) s2 t2, StRq P s2 t2 →
        SimQ P (if (!same) = true then pure (Obj.error ("attempt to change constant " ++ name)) else do
            let st ← get
            if st.extNames.contains name = true then pure (Obj.error ("attempt to change internal function " ++ name))
              else setNoChecks (sh P.σ e) name (ren P.σ val) create)
          (if (!same) = true then pure (Obj.error ("attempt to change constant " ++ name)) else do
            let st ← get
            if st.extNames.contains name = true then pure (Obj.error ("attempt to change internal function " ++ name))
              else setNoChecks e name val create) s2 t2 (QOq P) :=
      fun same s2 t2 hR2 => SimQ.ite (fun _ => SimQ.pure hR2 (herr _)) (fun _ => hrest s2 t2 hR2)
    refine SimQ.ite (fun _ => ?_) (fun _ => ?_)
    · refine SimQ.bind_read (runM_pure _ s1) (runM_pure _ t1) ?_
      exact hfin false s1 t1 hR1
    · refine SimQ.bind (qsim_valueOf hR1 old hco) ?_ (by tr) (by tr)
      rintro a o s2 t2 hR2 ⟨rfl, _, _⟩
      refine SimQ.bind (qsim_valueOf hR2 val hcv) ?_ (by tr) (by tr)
      rintro a v s3 t3 hR3 ⟨rfl, _, _⟩
      rw [cmp_ren, sameTypes_ren]
      refine SimQ.bind (Q := fun a b => a = b) (SimQ.liftR hR3 (RelR.of_eq (f := id) (by cases cmp o v <;> rfl) (fun _ => rfl))) ?_
        (by tr) (by tr)
      rintro c _ s4 t4 hR4 rfl
      refine SimQ.bind_read (runM_pure _ s4) (runM_pure _ t4) ?_
      exact hfin _ s4 t4 hR4

theorem qsim_envSet {P : Qp} {s t : St} (hR : StRq P s t) (e : Nat) (name : String) (val : Obj)
    (he : P.σ.n0 ≤ e) (hq : e = P.e) (hcv : clean P val) :
    SimQ P (envSet (sh P.σ e) name (ren P.σ val)) (envSet e name val) s t (QOq P) :=
  qsim_createOrSet hR e name val false he (Or.inr hq) hcv

end Grol.R

import GrolProofs.RegSim
import GrolProofs.EnvConst
/-
C05, simulation for statements, part 1: the invariant carried through the environment functions
(lean/Grol/Eval/Env.lean).

`Keep n st st'`: the step from `st` to `st'` changes neither the current scope nor the extension names, and in
EVERY frame the binding of `n` and the frame's own function stay what they were.  All code that does not call a
function writes bindings only under the name it was given (`m ≠ n`), or under the name a reference carries — and
a reference stored under a key always carries that key (`RefNames`): `makeRef` is the only producer of
references, and it stores `ref (o, name)` (or a copy of a reference found under `name`) under `name`.
So `RefNames` is the global invariant, `Keep n` the frame property, and `TriA n x Q` ("from every state with
`RefNames`: `RefNames` after, `Keep n`, and `Q` of a normal result") the statement proved for each function.
-/
namespace Grol.RegRewrite
open Grol.E

def RefNamesStore (s : List (String × Obj)) : Prop := ∀ k re rn, lookupStore s k = some (.ref re rn) → rn = k

def RefNames (st : St) : Prop := ∀ (e : Nat) (f : Frame), st.frames[e]? = some f → RefNamesStore f.store

def Keep (n : String) (st st' : St) : Prop :=
  st'.cur = st.cur ∧ st'.extNames = st.extNames ∧
  ∀ (e : Nat) (f : Frame), st.frames[e]? = some f →
    ∃ f' : Frame, st'.frames[e]? = some f' ∧ f'.function = f.function ∧ lookupStore f'.store n = lookupStore f.store n

theorem Keep.refl (n : String) (st : St) : Keep n st st := ⟨rfl, rfl, fun _ f h => ⟨f, h, rfl, rfl⟩⟩

theorem Keep.trans {n : String} {a b c : St} (h1 : Keep n a b) (h2 : Keep n b c) : Keep n a c := by
  refine ⟨h2.1.trans h1.1, h2.2.1.trans h1.2.1, fun e f hf => ?_⟩
  obtain ⟨f1, hf1, hfn1, hl1⟩ := h1.2.2 e f hf
  obtain ⟨f2, hf2, hfn2, hl2⟩ := h2.2.2 e f1 hf1
  exact ⟨f2, hf2, hfn2.trans hfn1, hl2.trans hl1⟩

theorem Keep.of_same {n : String} {st st' : St} (h : Same st st') : Keep n st st' :=
  ⟨h.2.1, h.2.2, fun _ f hf => ⟨f, by rw [h.1]; exact hf, rfl, rfl⟩⟩

theorem Keep.direct {n : String} {o : Obj} {st st' : St} (hk : Keep n st st') (h : Direct n o st) : Direct n o st' := by
  obtain ⟨h1, h2, h3, ⟨f, hf, hl, hfn⟩, h5⟩ := h
  obtain ⟨f', hf', hfn', hl'⟩ := hk.2.2 _ f hf
  refine ⟨by rw [hk.2.1]; exact h1, h2, h3, ⟨f', by rw [hk.1]; exact hf', by rw [hl']; exact hl, ?_⟩, h5⟩
  intro fn h; exact hfn fn (by rw [← hfn']; exact h)

/-- from every state with `RefNames`: `RefNames` afterwards, the step keeps `n`, and `Q` holds of a normal result -/
def TriA (n : String) (x : M α) (Q : α → Prop) : Prop :=
  ∀ st, RefNames st → RefNames (run x st).2 ∧ Keep n st (run x st).2 ∧ ∀ a, (run x st).1 = .ok a → Q a

theorem TriA.weaken {n : String} {x : M α} {P Q : α → Prop} (h : TriA n x P) (hpq : ∀ a, P a → Q a) : TriA n x Q :=
  fun st hr => ⟨(h st hr).1, (h st hr).2.1, fun a ha => hpq a ((h st hr).2.2 a ha)⟩

theorem TriA.bind {n : String} {x : M α} {f : α → M β} {P : α → Prop} {Q : β → Prop}
    (hx : TriA n x P) (hf : ∀ a, P a → TriA n (f a) Q) : TriA n (x >>= f) Q := by
  intro st hr
  obtain ⟨h1, h2, h3⟩ := hx st hr
  rw [run_bind]
  match h : run x st with
  | (.ok a, s1) =>
    simp only
    rw [h] at h1 h2 h3
    obtain ⟨g1, g2, g3⟩ := hf a (h3 a rfl) s1 h1
    exact ⟨g1, h2.trans g2, g3⟩
  | (.error e, s1) =>
    simp only
    rw [h] at h1 h2
    exact ⟨h1, h2, fun a ha => by cases ha⟩

theorem TriA.pure {n : String} {Q : α → Prop} {a : α} (h : Q a) : TriA n (Pure.pure a : M α) Q :=
  fun st hr => ⟨hr, Keep.refl n st, fun b hb => by cases hb; exact h⟩

theorem TriA.stop {n : String} {Q : α → Prop} (e : Stop) : TriA n (stop e : M α) Q :=
  fun st hr => ⟨hr, Keep.refl n st, fun b hb => by cases hb⟩

theorem TriA.of_readOnly {n : String} {x : M α} (hx : ReadOnly x) : TriA n x (fun _ => True) :=
  fun st hr => ⟨by rw [hx st]; exact hr, by rw [hx st]; exact Keep.refl n st, fun _ _ => trivial⟩

theorem TriA.get {n : String} : TriA n (get : M St) (fun _ => True) := TriA.of_readOnly ReadOnly.get

/-- a state update that touches only outs / cache / steps / hazards / depth -/
theorem TriA.modify {n : String} {g : St → St} (hg : ∀ st, Same st (g st)) : TriA n (modify g : M Unit) (fun _ => True) := by
  intro st hr
  refine ⟨?_, Keep.of_same (hg st), fun _ _ => trivial⟩
  intro e f hf
  rw [run_modify] at hf
  exact hr e f (by rw [← (hg st).1]; exact hf)

theorem TriA.ite {n : String} {c : Prop} [Decidable c] {x y : M α} {Q : α → Prop} (hx : TriA n x Q) (hy : TriA n y Q) :
    TriA n (if c then x else y) Q := by
  split <;> assumption

theorem TriA.getFrame {n : String} (e : Nat) : TriA n (getFrame e) (fun f => RefNamesStore f.store) := by
  intro st hr
  rw [run_getFrame]
  cases h : st.frames[e]? with
  | none => exact ⟨hr, Keep.refl n st, fun a ha => by cases ha⟩
  | some f => exact ⟨hr, Keep.refl n st, fun a ha => by cases ha; exact hr e f h⟩

/-- what a frame update must satisfy -/
def GoodUpd (n : String) (f f' : Frame) : Prop :=
  f'.function = f.function ∧ lookupStore f'.store n = lookupStore f.store n ∧ RefNamesStore f'.store

theorem refNames_setFrame {st : St} {e : Nat} {f' : Frame} (hr : RefNames st) (h' : RefNamesStore f'.store) :
    RefNames { st with frames := st.frames.setIfInBounds e f' } := by
  intro e' f hf
  simp only [Array.getElem?_setIfInBounds] at hf
  split at hf
  · split at hf
    · cases hf; exact h'
    · cases hf
  · exact hr e' f hf

theorem keep_setFrame {n : String} {st : St} {e : Nat} {f f' : Frame} (he : st.frames[e]? = some f)
    (hfn : f'.function = f.function) (hl : lookupStore f'.store n = lookupStore f.store n) :
    Keep n st { st with frames := st.frames.setIfInBounds e f' } := by
  refine ⟨rfl, rfl, fun e' g hg => ?_⟩
  simp only [Array.getElem?_setIfInBounds]
  by_cases hee : e = e'
  · subst hee
    rw [he] at hg; cases hg
    have hlt : e < st.frames.size := by
      cases Nat.lt_or_ge e st.frames.size with
      | inl h => exact h
      | inr h => rw [Array.getElem?_eq_none h] at he; cases he
    simp [hlt, hfn, hl]
  · simp [hee, hg]

theorem TriA.modifyFrame {n : String} (e : Nat) {g : Frame → Frame}
    (hg : ∀ f, RefNamesStore f.store → GoodUpd n f (g f)) : TriA n (modifyFrame e g) (fun _ => True) := by
  intro st hr
  rw [run_modifyFrame]
  cases h : st.frames[e]? with
  | none => exact ⟨hr, Keep.refl n st, fun a ha => by cases ha⟩
  | some f =>
    obtain ⟨h1, h2, h3⟩ := hg f (hr e f h)
    exact ⟨refNames_setFrame hr h3, keep_setFrame h h1 h2, fun _ _ => trivial⟩

/-! ### values -/

def NotRef (a : Obj) : Prop := ∀ e k, a ≠ .ref e k

theorem run_bind_ok {x : M α} {f : α → M β} {st : St} {b : β} (h : (run (x >>= f) st).1 = .ok b) :
    ∃ a s, (run (f a) s).1 = .ok b := by
  rw [run_bind] at h
  match hx : run x st with
  | (.ok a, s) => rw [hx] at h; exact ⟨a, s, h⟩
  | (.error e, s) => rw [hx] at h; cases h

theorem valueOf_go_nonref (k : Nat) (o : Obj) (h : NotRef o) : valueOf.go k o = pure o := by
  cases k <;> cases o <;> first | rfl | exact absurd rfl (h _ _)

theorem valueOf_go_notRef : ∀ (k : Nat) (o : Obj) (st : St) (a : Obj), (run (valueOf.go k o) st).1 = .ok a → NotRef a := by
  intro k
  induction k with
  | zero =>
    intro o st a h
    by_cases ho : NotRef o
    · rw [valueOf_go_nonref 0 o ho] at h; cases h; exact ho
    · cases o with
      | ref e nm => cases h
      | _ => exact absurd (fun e k hh => by cases hh) ho
  | succ k ih =>
    intro o st a h
    by_cases ho : NotRef o
    · rw [valueOf_go_nonref _ o ho] at h; cases h; exact ho
    · cases o with
      | ref e nm =>
        unfold valueOf.go at h
        rw [run_bind] at h
        match hv : run (refValue e nm) st with
        | (.error err, s1) => rw [hv] at h; cases h
        | (.ok v, s1) =>
          rw [hv] at h; simp only at h
          split at h
          · obtain ⟨_, _, h⟩ := run_bind_ok h
            obtain ⟨_, _, h⟩ := run_bind_ok h
            split at h
            · obtain ⟨_, s3, h⟩ := run_bind_ok h
              exact ih _ s3 a h
            · exact ih _ _ a h
          · exact ih v s1 a h
      | _ => exact absurd (fun e k hh => by cases hh) ho

theorem TriA.valueOf {n : String} (o : Obj) : TriA n (valueOf o) NotRef := by
  intro st hr
  have hro := readOnly_valueOf o st
  refine ⟨by rw [hro]; exact hr, by rw [hro]; exact Keep.refl n st, fun a ha => ?_⟩
  unfold E.valueOf at ha
  rw [run_bind, run_get] at ha
  exact valueOf_go_notRef _ o st a ha

/-! ### stores -/

theorem refNamesStore_setStore {s : List (String × Obj)} {m : String} {val : Obj} (hs : RefNamesStore s)
    (hv : ∀ re rn, val = .ref re rn → rn = m) : RefNamesStore (setStore s m val) := by
  intro k re rn h
  by_cases hk : k = m
  · subst hk; rw [lookupStore_setStore_eq] at h; cases h; exact hv re rn rfl
  · rw [lookupStore_setStore_ne _ _ _ _ hk] at h; exact hs k re rn h

theorem refNamesStore_delStore {s : List (String × Obj)} {m : String} (hs : RefNamesStore s) : RefNamesStore (delStore s m) := by
  intro k re rn h
  by_cases hk : k = m
  · subst hk; rw [lookupStore_delStore_self] at h; cases h
  · rw [lookupStore_delStore_ne _ _ _ hk] at h; exact hs k re rn h

theorem goodUpd_set {n m : String} {f : Frame} {val : Obj} {ns : Nat} {lf : Bool} (hm : m ≠ n) (hs : RefNamesStore f.store)
    (hv : ∀ re rn, val = .ref re rn → rn = m) :
    GoodUpd n f { f with store := setStore f.store m val, numSet := ns, localFunc := lf } :=
  ⟨rfl, lookupStore_setStore_ne _ _ _ _ (Ne.symm hm), refNamesStore_setStore hs hv⟩

theorem goodUpd_del {n m : String} {f : Frame} (hm : m ≠ n) (hs : RefNamesStore f.store) :
    GoodUpd n f { f with store := delStore f.store m } :=
  ⟨rfl, lookupStore_delStore_ne _ _ _ (Ne.symm hm), refNamesStore_delStore hs⟩

theorem notRef_names {val : Obj} {m : String} (h : NotRef val) : ∀ re rn, val = .ref re rn → rn = m :=
  fun re rn hh => absurd hh (h re rn)

/-! ### the environment functions -/

theorem TriA.triggerNoCache {n : String} (e : Nat) : TriA n (triggerNoCache e) (fun _ => True) := by
  unfold E.triggerNoCache
  exact TriA.modifyFrame e (fun f hs => ⟨rfl, rfl, hs⟩)

theorem TriA.functionChanged {n : String} (w : Nat) (old : Option Obj) : TriA n (functionChanged w old) (fun _ => True) := by
  unfold E.functionChanged
  split
  · split
    · exact TriA.bind (TriA.modifyFrame w (fun f hs => ⟨rfl, rfl, hs⟩)) (fun _ _ => TriA.modify (fun st => ⟨rfl, rfl, rfl⟩))
    · exact TriA.pure trivial
  · exact TriA.pure trivial

theorem TriA.rootBindsFunc {n : String} (m : String) : TriA n (E.rootBindsFunc m) (fun _ => True) :=
  TriA.of_readOnly (fun _ => rfl)

theorem TriA.envCreate {n m : String} (hm : m ≠ n) (e : Nat) (val : Obj) : TriA n (envCreate e m val) (fun _ => True) := by
  unfold E.envCreate
  refine TriA.bind (TriA.valueOf val) (fun v hv => ?_)
  refine TriA.bind (TriA.rootBindsFunc m) (fun rb _ => ?_)
  refine TriA.bind (TriA.modifyFrame e (fun f hs => goodUpd_set hm hs (notRef_names hv))) (fun _ _ => TriA.pure trivial)

theorem TriA.envStoreAt {n m : String} (hm : m ≠ n) (w e : Nat) {val : Obj} (hv : NotRef val) :
    TriA n (envStoreAt w e m val) (fun _ => True) := by
  unfold E.envStoreAt
  refine TriA.bind (TriA.getFrame e) (fun fr _ => ?_)
  refine TriA.bind (TriA.functionChanged w _) (fun _ _ => ?_)
  refine TriA.bind (TriA.rootBindsFunc m) (fun rb _ => ?_)
  exact TriA.bind (TriA.modifyFrame e (fun f hs => goodUpd_set hm hs (notRef_names hv))) (fun _ _ => TriA.pure trivial)

/-- the result, if a reference, carries the name `m` -/
def NamedOpt (m : String) (r : Option Obj) : Prop := ∀ re rn, r = some (.ref re rn) → rn = m

theorem updTarget_name {e : Nat} {m : String} {found : Obj} (hf : ∀ re rn, found = .ref re rn → rn = m) :
    (updTarget e m found).2 = m := by
  cases found <;> first | rfl | exact hf _ _ rfl

theorem TriA.envUpdate {n m : String} (hm : m ≠ n) (e : Nat) {found : Obj} (val : Obj)
    (hf : ∀ re rn, found = .ref re rn → rn = m) : TriA n (envUpdate e m found val) (fun _ => True) := by
  unfold E.envUpdate
  rw [updTarget_name hf]
  simp (config := { zeta := true, zetaHave := true }) only
  split
  · exact TriA.bind (TriA.valueOf _) (fun v hv => TriA.envStoreAt hm e _ hv)
  · next hnr => exact TriA.bind (TriA.pure (Q := NotRef) (fun e k hh => hnr e k hh)) (fun v hv => TriA.envStoreAt hm e _ hv)

theorem refTo_name {o : Nat} {m : String} {obj : Obj} (h : ∀ re rn, obj = .ref re rn → rn = m) :
    ∀ re rn, refTo o m obj = .ref re rn → rn = m := by
  intro re rn hh
  cases obj <;> first
    | (simp only [refTo] at hh; cases hh; rfl)
    | (simp only [refTo] at hh; exact h _ _ hh)

theorem TriA.makeRef_go {n m : String} (hm : m ≠ n) (orig : Nat) :
    ∀ (k e : Nat), TriA n (makeRef.go orig m k e) (NamedOpt m) := by
  intro k
  induction k with
  | zero => intro e; unfold makeRef.go; exact TriA.pure (fun _ _ h => by cases h)
  | succ k ih =>
    intro e
    unfold makeRef.go
    simp (config := { zeta := true, zetaHave := true }) only
    refine TriA.bind (TriA.getFrame e) (fun f _ => ?_)
    split
    · exact TriA.pure (fun _ _ h => by cases h)
    · next o _ =>
      refine TriA.bind (TriA.getFrame o) (fun fo hfo => ?_)
      split
      · exact ih o
      · next obj hobj =>
        have hr := refTo_name (o := o) (m := m) (obj := obj) (fun re rn hh => hfo m re rn (by rw [hobj, hh]))
        have hq : NamedOpt m (some (refTo o m obj)) := fun re rn hh => hr re rn (Option.some.inj hh)
        have tail : ∀ refDepth : Nat, TriA n
            (if (!(isConstant m && refDepth == 0) && !(isFuncObj obj && refDepth == 0)) = true then do
                let __r ← E.modifyFrame orig fun f => { f with getMiss := f.getMiss + 1 }
                Pure.pure (some (refTo o m obj))
              else Pure.pure (some (refTo o m obj))) (NamedOpt m) := by
          intro refDepth
          split
          · exact TriA.bind (TriA.modifyFrame orig (fun f hs => ⟨rfl, rfl, hs⟩)) (fun _ _ => TriA.pure hq)
          · exact TriA.pure hq
        refine TriA.bind (TriA.modifyFrame orig (fun f hs =>
          ⟨rfl, lookupStore_setStore_ne _ _ _ _ (Ne.symm hm), refNamesStore_setStore hs hr⟩)) (fun _ _ => ?_)
        split
        · exact TriA.bind (TriA.getFrame _) (fun fr _ => TriA.bind (TriA.pure (Q := fun _ => True) trivial) (fun d _ => tail d))
        · exact TriA.bind (TriA.pure (Q := fun _ => True) trivial) (fun d _ => tail d)

theorem TriA.makeRef {n m : String} (hm : m ≠ n) (orig : Nat) : TriA n (makeRef orig m) (NamedOpt m) := by
  unfold E.makeRef
  exact TriA.bind TriA.get (fun _ _ => TriA.makeRef_go hm orig _ _)

theorem TriA.stop_bind {n : String} {Q : β → Prop} (e : Stop) (k : α → M β) : TriA n ((E.stop e : M α) >>= k) Q :=
  TriA.bind (TriA.stop (Q := fun _ => False) e) (fun _ h => h.elim)

/-- the store lookup of `Environment.Get`, for a frame whose references carry their keys -/
theorem TriA.envGet_lookup {n m : String} (hm : m ≠ n) (e : Nat) (f : Frame) (hf : RefNamesStore f.store) :
    TriA n
      (match lookupStore f.store m with
       | some (Obj.ref re rn) => do
         let __do_lift ← refAlive re rn
         if (!__do_lift) = true then do
             E.modifyFrame e fun f => { f with store := delStore f.store m }
             match f.outer with
               | none => Pure.pure none
               | some _ => E.makeRef e m
           else do
             let tgt ← refValue re rn
             let __do_lift ← E.getFrame re
             if (!(isConstant rn && __do_lift.depth == 0) && !(isFuncObj tgt && __do_lift.depth == 0)) = true then do
                 E.modifyFrame e fun f => { f with getMiss := f.getMiss + 1 }
                 Pure.pure (some (Obj.ref re rn))
               else Pure.pure (some (Obj.ref re rn))
       | some obj => Pure.pure (some obj)
       | none =>
         match f.outer with
         | none => Pure.pure none
         | some _ => E.makeRef e m)
      (NamedOpt m) := by
  split
  · next re rn hl =>
    have hq : NamedOpt m (some (Obj.ref re rn)) := fun re' rn' h => by cases h; exact hf m re rn hl
    refine TriA.bind (TriA.of_readOnly (readOnly_refAlive re rn)) (fun alive _ => ?_)
    split
    · refine TriA.bind (TriA.modifyFrame e (fun f hs => goodUpd_del hm hs)) (fun _ _ => ?_)
      split
      · exact TriA.pure (fun _ _ h => by cases h)
      · exact TriA.makeRef hm e
    · refine TriA.bind (TriA.of_readOnly (readOnly_refValue re rn)) (fun tgt _ => ?_)
      refine TriA.bind (TriA.getFrame re) (fun fr _ => ?_)
      split
      · exact TriA.bind (TriA.modifyFrame e (fun f hs => ⟨rfl, rfl, hs⟩)) (fun _ _ => TriA.pure hq)
      · exact TriA.pure hq
  · next obj hnr hl => exact TriA.pure (fun re rn h => by cases h; exact (hnr re rn rfl).elim)
  · split
    · exact TriA.pure (fun _ _ h => by cases h)
    · exact TriA.makeRef hm e

theorem TriA.envGet {n m : String} (hm : m ≠ n) (e : Nat) : TriA n (envGet e m) (NamedOpt m) := by
  unfold E.envGet
  simp (config := { zeta := true, zetaHave := true }) only
  split
  · exact TriA.stop_bind _ _
  · refine TriA.bind (TriA.getFrame e) (fun f hf => ?_)
    split
    · split
      · exact TriA.pure (fun _ _ h => by cases h)
      · exact TriA.pure (fun _ _ h => by cases h)
    · split
      · split
        · exact TriA.pure (fun _ _ h => by cases h)
        · exact TriA.envGet_lookup hm e f hf
      · exact TriA.envGet_lookup hm e f hf

theorem TriA.setNoChecks {n m : String} (hm : m ≠ n) (e : Nat) (val : Obj) (create : Bool) :
    TriA n (setNoChecks e m val create) (fun _ => True) := by
  unfold E.setNoChecks
  split
  · exact TriA.envCreate hm e val
  · refine TriA.bind (TriA.getFrame e) (fun f hf => ?_)
    split
    · next r hl => exact TriA.envUpdate hm e val (fun re rn h => hf m re rn (by rw [hl, h]))
    · refine TriA.bind (TriA.makeRef hm e) (fun r hr => ?_)
      split
      · next re rn =>
        have hrn : rn = m := hr re rn rfl
        subst hrn
        refine TriA.bind (TriA.valueOf val) (fun v hv => ?_)
        refine TriA.bind (TriA.getFrame re) (fun fr _ => ?_)
        refine TriA.bind (TriA.functionChanged e _) (fun _ _ => ?_)
        refine TriA.bind (TriA.rootBindsFunc rn) (fun rb _ => ?_)
        exact TriA.bind (TriA.modifyFrame re (fun f hs =>
          ⟨rfl, lookupStore_setStore_ne _ _ _ _ (Ne.symm hm), refNamesStore_setStore hs (notRef_names hv)⟩)) (fun _ _ => TriA.pure trivial)
      · exact TriA.envCreate hm e val

theorem TriA.createOrSet {n m : String} (hm : m ≠ n) (e : Nat) (val : Obj) (create : Bool) :
    TriA n (createOrSet e m val create) (fun _ => True) := by
  unfold E.createOrSet
  simp (config := { zeta := true, zetaHave := true }) only
  have tail : TriA n (do
      let st ← MonadState.get
      if st.extNames.contains m = true then Pure.pure (Obj.error ("attempt to change internal function " ++ m))
        else E.setNoChecks e m val create) (fun _ => True) := by
    refine TriA.bind TriA.get (fun st _ => ?_)
    split
    · exact TriA.pure trivial
    · exact TriA.setNoChecks hm e val create
  have tail2 : ∀ same : Bool, TriA n (if (!same) = true then Pure.pure (Obj.error ("attempt to change constant " ++ m))
      else do
        let st ← MonadState.get
        if st.extNames.contains m = true then Pure.pure (Obj.error ("attempt to change internal function " ++ m))
          else E.setNoChecks e m val create) (fun _ => True) := by
    intro same
    split
    · exact TriA.pure trivial
    · exact tail
  split
  · refine TriA.bind (TriA.envGet hm e) (fun r _ => ?_)
    split
    · split
      · exact TriA.bind (TriA.pure (Q := fun _ => True) trivial) (fun same _ => tail2 same)
      · refine TriA.bind (TriA.valueOf _) (fun o _ => ?_)
        refine TriA.bind (TriA.valueOf _) (fun v _ => ?_)
        refine TriA.bind (TriA.of_readOnly (ReadOnly.liftR _)) (fun c _ => ?_)
        exact TriA.bind (TriA.pure (Q := fun _ => True) trivial) (fun same _ => tail2 same)
    · exact tail
  · exact tail

theorem TriA.envSet {n m : String} (hm : m ≠ n) (e : Nat) (val : Obj) : TriA n (envSet e m val) (fun _ => True) :=
  TriA.createOrSet hm e val false

/-- one known step followed by a computation that is fine from every state -/
theorem tri_step {n : String} {x : M α} {f : α → M β} {Q : β → Prop} {st s1 : St} {a : α}
    (hx : run x st = (.ok a, s1)) (h1 : RefNames s1) (hk : Keep n st s1) (hf : TriA n (f a) Q) :
    RefNames (run (x >>= f) st).2 ∧ Keep n st (run (x >>= f) st).2 ∧ ∀ b, (run (x >>= f) st).1 = .ok b → Q b := by
  rw [run_bind, hx]
  obtain ⟨g1, g2, g3⟩ := hf s1 h1
  exact ⟨g1, hk.trans g2, g3⟩

theorem TriA.envDelete_go {n m : String} (hm : m ≠ n) : ∀ (k e : Nat), TriA n (envDelete.go m k e) (fun _ => True) := by
  intro k
  induction k with
  | zero => intro e; unfold envDelete.go; exact TriA.pure trivial
  | succ k ih =>
    intro e st hr
    unfold envDelete.go
    rw [run_bind, run_getFrame]
    cases hfr : st.frames[e]? with
    | none => exact ⟨hr, Keep.refl n st, fun a ha => by cases ha⟩
    | some f =>
      simp (config := { zeta := true, zetaHave := true }) only
      have hst : (if (f.depth == 0) = true then { f with numSet := f.numSet + 1 } else f).store = f.store := by split <;> rfl
      have hfn : (if (f.depth == 0) = true then { f with numSet := f.numSet + 1 } else f).function = f.function := by split <;> rfl
      rw [hst]
      split
      · refine tri_step (run_setFrame e _ st) (refNames_setFrame hr (refNamesStore_delStore (hr e f hfr)))
          (keep_setFrame hfr hfn (lookupStore_delStore_ne _ _ _ (Ne.symm hm))) ?_
        exact TriA.bind (TriA.functionChanged e _) (fun _ _ => TriA.pure trivial)
      · refine tri_step (run_setFrame e _ st) (refNames_setFrame hr (by rw [hst]; exact hr e f hfr))
          (keep_setFrame hfr hfn (by rw [hst])) ?_
        split
        · exact ih _
        · exact TriA.pure trivial

theorem TriA.envDelete {n m : String} (hm : m ≠ n) (e : Nat) : TriA n (envDelete e m) (fun _ => True) := by
  unfold E.envDelete
  exact TriA.bind TriA.get (fun _ _ => TriA.envDelete_go hm _ _)


/-! ### the evaluator's helpers outside the mutual block -/

theorem TriA.curEnv {n : String} : TriA n curEnv (fun _ => True) := by
  unfold E.curEnv
  exact TriA.bind TriA.get (fun _ _ => TriA.pure trivial)

theorem TriA.noteHazard {n : String} (c : Bool) (k nm : String) : TriA n (noteHazard c k nm) (fun _ => True) := by
  unfold E.noteHazard
  split
  · exact TriA.modify (fun st => ⟨rfl, rfl, rfl⟩)
  · exact TriA.pure trivial

theorem TriA.writeOut {n : String} (b : Grol.Wire.Bytes) : TriA n (writeOut b) (fun _ => True) := by
  unfold E.writeOut
  refine TriA.modify (fun st => ?_)
  split <;> exact ⟨rfl, rfl, rfl⟩

theorem TriA.evalIdentifier {n m : String} (hm : m ≠ n) : TriA n (evalIdentifier m) (fun _ => True) := by
  unfold E.evalIdentifier
  refine TriA.bind TriA.get (fun st _ => ?_)
  split
  · exact TriA.pure trivial
  · refine TriA.bind (TriA.envGet hm _) (fun r _ => ?_)
    split <;> exact TriA.pure trivial

theorem TriA.true_of {n : String} {x : M α} {Q : α → Prop} (h : TriA n x Q) : TriA n x (fun _ => True) :=
  h.weaken (fun _ _ => trivial)

theorem TriA.valueOf_true {n : String} (o : Obj) : TriA n (E.valueOf o) (fun _ => True) := TriA.true_of (TriA.valueOf o)
theorem TriA.envGet_true {n m : String} (hm : m ≠ n) (e : Nat) : TriA n (E.envGet e m) (fun _ => True) :=
  TriA.true_of (TriA.envGet hm e)
theorem TriA.getFrame_true {n : String} (e : Nat) : TriA n (E.getFrame e) (fun _ => True) := TriA.true_of (TriA.getFrame e)
theorem TriA.liftR {n : String} (r : R α) : TriA n (E.liftR r) (fun _ => True) := TriA.of_readOnly (ReadOnly.liftR r)

/-- crawl a computation whose pieces are the environment functions on names `≠ n` (post-condition `True`) -/
macro "tri_true" hm:ident : tactic => `(tactic| repeat' (first
  | with_reducible exact TriA.pure trivial
  | with_reducible exact TriA.stop _
  | with_reducible exact TriA.stop_bind _ _
  | with_reducible exact TriA.get
  | with_reducible exact TriA.curEnv
  | with_reducible exact TriA.valueOf_true _
  | with_reducible exact TriA.envGet_true $hm _
  | with_reducible exact TriA.envSet $hm _ _
  | with_reducible exact TriA.createOrSet $hm _ _ _
  | with_reducible exact TriA.envDelete $hm _
  | with_reducible exact TriA.noteHazard _ _ _
  | with_reducible exact TriA.writeOut _
  | with_reducible exact TriA.triggerNoCache _
  | with_reducible exact TriA.liftR _
  | (with_reducible refine TriA.bind (P := fun _ => True) ?_ (fun _ _ => ?_))
  | split
  | (simp (config := { zeta := true, zetaHave := true }) only)))

theorem TriA.evalIndexAssignment {n m : String} (hm : m ≠ n) (index value : Obj) :
    TriA n (evalIndexAssignment (.ident m) index value) (fun _ => True) := by
  unfold E.evalIndexAssignment
  tri_true hm

theorem TriA.evalPostfix {n m : String} (hm : m ≠ n) (op : String) : TriA n (evalPostfix op m) (fun _ => True) := by
  unfold E.evalPostfix
  tri_true hm

theorem TriA.evalPrefixIncrDecr {n m : String} (hm : m ≠ n) (op : String) :
    TriA n (evalPrefixIncrDecr op (.ident m)) (fun _ => True) := by
  unfold E.evalPrefixIncrDecr
  tri_true hm

theorem TriA.deleteMapEntry {n m : String} (hm : m ≠ n) (index : Obj) :
    TriA n (deleteMapEntry (.ident m) index) (fun _ => True) := by
  unfold E.deleteMapEntry
  tri_true hm

end Grol.RegRewrite

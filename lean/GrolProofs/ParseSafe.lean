import Grol.Parser
/-
C08, parser half: the parser model never takes a `goPanic` branch.

`StreamWF s` collects what the parser needs from the lexer (two facts about every `NextToken()`
result; to be discharged by the lexer model):
  * `lastNewLine ≤ min pos len(input)` after every call (so `CurrentLine` slices inside the input);
  * the call after a LINECOMMENT token either skipped a newline or returned the end marker
    (a line comment runs to the end of its line).
`Inv s st` is the parser-state invariant: `cur`/`peek` are the last two tokens pulled and
`nextNewline` is the newline flag of `peek`.
-/
namespace Grol.Parser
open Grol.Generated

def TokWF (s : TokStream) (i : Nat) : Prop :=
  (s.get i).lastNl ≤ min (s.get i).posAfter s.inputLen ∧
  ((s.get i).type = .LINECOMMENT →
     (s.get (i + 1)).hadNl = true ∨ (s.get (i + 1)).type = .EOF ∨ (s.get (i + 1)).type = .EOL)

def StreamWF (s : TokStream) : Prop := ∀ i, TokWF s i

structure Inv (s : TokStream) (st : PState) : Prop where
  idx : 2 ≤ st.idx
  cur : st.cur = s.get (st.idx - 2)
  peek : st.peek = s.get (st.idx - 1)
  nl : st.nextNewline = st.peek.hadNl

/-- outcome is not a panic and re-establishes the invariant (and `Q`) -/
def OKQ (s : TokStream) (Q : α → PState → Prop) : Res (α × PState) → Prop
  | .goPanic _ => False
  | .ok (a, st') => Inv s st' ∧ Q a st'
  | .outOfFuel => True

def SafeQ (s : TokStream) (Q : α → PState → Prop) (m : PM α) : Prop := ∀ st, Inv s st → OKQ s Q (m st)

abbrev Safe (s : TokStream) (m : PM α) : Prop := SafeQ s (fun _ _ => True) m

theorem SafeQ.weaken {s : TokStream} {Q : α → PState → Prop} {m : PM α} (h : SafeQ s Q m) : Safe s m := by
  intro st hi
  have := h st hi
  revert this
  cases m st with
  | ok r => obtain ⟨a, st'⟩ := r; intro h; exact ⟨h.1, trivial⟩
  | goPanic p => exact id
  | outOfFuel => exact id

theorem safe_pure {s : TokStream} (a : α) : Safe s (pure a : PM α) := fun _ hi => ⟨hi, trivial⟩

theorem safe_getSt {s : TokStream} : Safe s getSt := fun _ hi => ⟨hi, trivial⟩

theorem safe_outOfFuel {s : TokStream} : Safe s (outOfFuel : PM α) := fun _ _ => trivial

theorem safe_bind {s : TokStream} {m : PM α} {f : α → PM β} (hm : Safe s m) (hf : ∀ a, Safe s (f a)) :
    Safe s (m >>= f) := by
  intro st hi
  have h1 := hm st hi
  show OKQ s _ (PM.bind m f st)
  unfold PM.bind
  revert h1
  cases m st with
  | ok r => obtain ⟨a, st'⟩ := r; intro h1; exact hf a st' h1.1
  | goPanic p => exact id
  | outOfFuel => intro _; trivial

/-- bind with a postcondition of the first computation available to the second -/
theorem safe_bindQ {s : TokStream} {Q : α → PState → Prop} {m : PM α} {f : α → PM β} (hm : SafeQ s Q m)
    (hf : ∀ a st, Inv s st → Q a st → OKQ s (fun _ _ => True) (f a st)) : Safe s (m >>= f) := by
  intro st hi
  have h1 := hm st hi
  show OKQ s _ (PM.bind m f st)
  unfold PM.bind
  revert h1
  cases m st with
  | ok r => obtain ⟨a, st'⟩ := r; intro h1; exact hf a st' h1.1 h1.2
  | goPanic p => exact id
  | outOfFuel => intro _; trivial

/-- the continuation of `getSt` only has to be safe from the state it was given -/
theorem safe_getSt_bind {s : TokStream} {f : PState → PM β}
    (hf : ∀ st, Inv s st → OKQ s (fun _ _ => True) (f st st)) : Safe s (getSt >>= f) := by
  intro st hi
  exact hf st hi

theorem safe_ite {s : TokStream} {c : Prop} [Decidable c] {a b : PM α} (ha : Safe s a) (hb : Safe s b) :
    Safe s (if c then a else b) := by
  split <;> assumption

theorem safe_setCont {s : TokStream} : Safe s setCont :=
  fun _ hi => ⟨⟨hi.idx, hi.cur, hi.peek, hi.nl⟩, trivial⟩

theorem safe_pushErr {s : TokStream} (e : ErrKind) : Safe s (pushErr e) :=
  fun _ hi => ⟨⟨hi.idx, hi.cur, hi.peek, hi.nl⟩, trivial⟩

theorem inv_nextToken {s : TokStream} {st : PState} (hi : Inv s st) :
    Inv s { st with prev := some st.cur, cur := st.peek, prevPos := st.peek.posAfter, peek := s.get st.idx, idx := st.idx + 1,
                    prevNewline := st.nextNewline, nextNewline := (s.get st.idx).hadNl } := by
  refine ⟨?_, ?_, ?_, rfl⟩
  · show 2 ≤ st.idx + 1; have := hi.idx; omega
  · show st.peek = s.get (st.idx + 1 - 2)
    have h2 := hi.idx
    have : st.idx + 1 - 2 = st.idx - 1 := by omega
    rw [this]; exact hi.peek
  · show s.get st.idx = s.get (st.idx + 1 - 1); simp

/-- after `nextToken` the previous token is set -/
theorem safeQ_nextToken {s : TokStream} : SafeQ s (fun _ st' => st'.prev.isSome = true) (nextToken s) :=
  fun _ hi => ⟨inv_nextToken hi, rfl⟩

theorem safe_nextToken {s : TokStream} : Safe s (nextToken s) := safeQ_nextToken.weaken

end Grol.Parser

import Grol.Printer
/-
C03 (3): the normal-mode text of a program ends with a newline.  Frame lemma: every PrettyPrint
method leaves the indentation level and the compact flag as it found them.
-/
namespace Grol.Printer
open Grol.Generated

/-- indentation level and compact flag: what every PrettyPrint method leaves unchanged -/
def Frame (a b : PrintState) : Prop := b.indentLevel = a.indentLevel ∧ b.compact = a.compact

theorem Frame.refl (a : PrintState) : Frame a a := ⟨rfl, rfl⟩
theorem Frame.trans {a b c : PrintState} (h1 : Frame a b) (h2 : Frame b c) : Frame a c :=
  ⟨h2.1.trans h1.1, h2.2.trans h1.2⟩

@[simp] theorem write_indent (ps : PrintState) (b) : (ps.write b).indentLevel = ps.indentLevel := rfl
@[simp] theorem write_compact (ps : PrintState) (b) : (ps.write b).compact = ps.compact := rfl
@[simp] theorem print_indent (ps : PrintState) (b) : (ps.print b).indentLevel = ps.indentLevel := by
  unfold PrintState.print; dsimp only; split <;> rfl
@[simp] theorem print_compact (ps : PrintState) (b) : (ps.print b).compact = ps.compact := by
  unfold PrintState.print; dsimp only; split <;> rfl
@[simp] theorem println_indent (ps : PrintState) : ps.println.indentLevel = ps.indentLevel := by
  unfold PrintState.println; dsimp only; split <;> rfl
@[simp] theorem println_compact (ps : PrintState) : ps.println.compact = ps.compact := by
  unfold PrintState.println; dsimp only; split <;> rfl
@[simp] theorem ite_indent (c : Prop) [Decidable c] (a b : PrintState) :
    (if c then a else b).indentLevel = if c then a.indentLevel else b.indentLevel := by split <;> rfl
@[simp] theorem ite_compact (c : Prop) [Decidable c] (a b : PrintState) :
    (if c then a else b).compact = if c then a.compact else b.compact := by split <;> rfl

theorem frame_print (ps : PrintState) (b) : Frame ps (ps.print b) := ⟨by simp, by simp⟩

theorem needParen_frame {ps ps1 : PrintState} {t : Tk} {b : Bool} {o : Nat} (h : needParen ps t = .ok (ps1, b, o)) :
    Frame ps ps1 := by
  unfold needParen at h
  split at h
  · cases h
  · cases h; exact ⟨rfl, rfl⟩

theorem compactSep_frame (ps : PrintState) (s i fb) : Frame ps (compactSep ps s i fb) := by
  unfold compactSep; dsimp only; split
  · exact ⟨rfl, rfl⟩
  · exact ⟨by simp, by simp⟩

theorem longFormSep_frame (ps : PrintState) (s i) : Frame ps (longFormSep ps s i) := by
  unfold longFormSep
  split
  · split
    · exact ⟨rfl, rfl⟩
    · exact ⟨by simp, by simp⟩
  · exact ⟨rfl, rfl⟩

/-- close a goal `Frame ps X` from collected `Frame` facts about the intermediate states -/
macro "fr_close" : tactic => `(tactic| (unfold Frame at *; simp at *; (try simp [*]); (try omega)))

mutual

theorem printNode_frame (tbl : Nat → Bool) : ∀ (n : Node) (ps ps' : PrintState), printNode tbl n ps = .ok ps' → Frame ps ps'
  | .ident _, ps, ps', h | .intLit _, ps, ps', h | .floatLit _, ps, ps', h | .boolean _, ps, ps', h
  | .control _, ps, ps', h | .comment _ _ _, ps, ps', h | .strLit _, ps, ps', h => by
    unfold printNode at h; cases h; exact frame_print _ _
  | .ret _ none, ps, ps', h => by unfold printNode at h; cases h; exact frame_print _ _
  | .ret _ (some v), ps, ps', h => by
    unfold printNode at h
    have f := printNode_frame tbl v _ _ h
    fr_close
  | .pre _ r, ps, ps', h => by
    unfold printNode at h; dsimp only at h
    split at h
    · cases h
    · next _ heq => have f := printO_frame tbl r _ _ heq; cases h; fr_close
  | .post t _, ps, ps', h => by
    unfold printNode at h
    split at h
    · cases h
    · next _ _ _ heq => have f := needParen_frame heq; cases h; fr_close
  | .infix t l none, ps, ps', h => by
    unfold printNode at h
    split at h
    · cases h
    · next _ _ _ heq =>
      have f := needParen_frame heq
      dsimp only at h
      split at h
      · cases h
      · next _ heq2 => have f2 := printO_frame tbl l _ _ heq2; cases h; fr_close
  | .infix t l (some r), ps, ps', h => by
    unfold printNode at h
    split at h
    · cases h
    · next _ _ _ heq =>
      have f := needParen_frame heq
      dsimp only at h
      split at h
      · cases h
      · next _ heq2 =>
        have f2 := printO_frame tbl l _ _ heq2
        split at h
        · cases h
        · next _ heq3 => have f3 := printNode_frame tbl r _ _ heq3; cases h; split at f3 <;> fr_close
  | .forE _ c b, ps, ps', h => by
    unfold printNode at h
    split at h
    · cases h
    · next _ heq => have f := printO_frame tbl c _ _ heq; have f2 := printStmts_frame tbl b _ _ h; fr_close
  | .ifE _ c a none, ps, ps', h => by
    unfold printNode at h
    split at h
    · cases h
    · next _ heq =>
      have f := printO_frame tbl c _ _ heq
      split at h
      · cases h
      · next _ heq2 => have f2 := printStmts_frame tbl a _ _ heq2; cases h; fr_close
  | .ifE _ c a (some l), ps, ps', h => by
    unfold printNode at h
    split at h
    · cases h
    · next _ heq =>
      have f := printO_frame tbl c _ _ heq
      split at h
      · cases h
      · next _ heq2 =>
        have f2 := printStmts_frame tbl a _ _ heq2
        dsimp only at h
        split at h
        · cases h
        · have f3 := printHead_frame tbl _ l _ _ h; fr_close
        · have f3 := printBlock_frame tbl l _ _ h; fr_close
  | .builtin _ params, ps, ps', h => by
    unfold printNode at h
    split at h
    · cases h
    · next _ heq => have f := printList_frame tbl params _ _ _ heq; cases h; fr_close
  | .func _ name params body _ isLambda, ps, ps', h => by
    unfold printNode at h
    split at h
    · dsimp only at h
      split at h
      · cases h
      · next _ heq =>
        have f := printList_frame tbl params _ _ _ heq
        split at h
        · cases h
        · next _ heq2 => have f2 := printStmts_frame tbl body _ _ heq2; cases h; fr_close
    · dsimp only at h
      split at h
      · cases h
      · next _ heq =>
        have f := printList_frame tbl params _ _ _ heq
        have f2 := printStmts_frame tbl body _ _ h
        cases name <;> fr_close
  | .call _ fn args, ps, ps', h => by
    unfold printNode at h; dsimp only at h
    split at h
    · cases h
    · next _ heq =>
      have f := printO_frame tbl fn _ _ heq
      split at h
      · cases h
      · next _ heq2 => have f2 := printList_frame tbl args _ _ _ heq2; cases h; fr_close
  | .array _ es, ps, ps', h => by
    unfold printNode at h
    split at h
    · cases h
    · next _ heq => have f := printList_frame tbl es _ _ _ heq; cases h; fr_close
  | .index t l i, ps, ps', h => by
    unfold printNode at h
    split at h
    · cases h
    · next _ _ _ heq =>
      have f := needParen_frame heq
      dsimp only at h
      split at h
      · cases h
      · next _ heq2 =>
        have f2 := printO_frame tbl l _ _ heq2
        split at h
        · cases h
        · next _ heq3 => have f3 := printO_frame tbl i _ _ heq3; cases h; fr_close
  | .mapLit _ kvs, ps, ps', h => by
    unfold printNode at h; dsimp only at h
    split at h
    · cases h
    · next _ heq => have f := printPairs_frame tbl kvs _ _ _ heq; cases h; fr_close
  | .macroLit _ params body, ps, ps', h => by
    unfold printNode at h
    split at h
    · cases h
    · next _ heq =>
      have f := printList_frame tbl params _ _ _ heq
      have f2 := printStmts_frame tbl body _ _ h
      fr_close

theorem printO_frame (tbl : Nat → Bool) : ∀ (o : Option Node) (ps ps' : PrintState), printO tbl o ps = .ok ps' → Frame ps ps'
  | none, _, _, h => by unfold printO at h; cases h
  | some n, ps, ps', h => by unfold printO at h; exact printNode_frame tbl n _ _ h

theorem printHead_frame (tbl : Nat → Bool) (sk : Bool) : ∀ (l : List (Option Node)) (ps ps' : PrintState), printHead tbl sk l ps = .ok ps' → Frame ps ps'
  | [], _, _, h => by unfold printHead at h; cases h; exact Frame.refl _
  | x :: xs, ps, ps', h => by
    unfold printHead at h
    split at h
    · exact printHead_frame tbl sk xs _ _ h
    · exact printO_frame tbl x _ _ h

theorem printList_frame (tbl : Nat → Bool) : ∀ (l : List (Option Node)) (ps : PrintState) (i : Nat) (ps' : PrintState),
    printList tbl l ps i = .ok ps' → Frame ps ps'
  | [], _, _, _, h => by unfold printList at h; cases h; exact Frame.refl _
  | x :: xs, ps, i, ps', h => by
    unfold printList at h; dsimp only at h
    split at h
    · cases h
    · next _ heq =>
      have f := printO_frame tbl x _ _ heq
      have f2 := printList_frame tbl xs _ _ _ h
      fr_close

theorem printPairs_frame (tbl : Nat → Bool) : ∀ (l : List (Option Node)) (ps : PrintState) (i : Nat) (ps' : PrintState),
    printPairs tbl l ps i = .ok ps' → Frame ps ps'
  | [], _, _, _, h => by unfold printPairs at h; cases h; exact Frame.refl _
  | [_], _, _, _, h => by unfold printPairs at h; cases h; exact Frame.refl _
  | k :: v :: rest, ps, i, ps', h => by
    unfold printPairs at h; dsimp only at h
    split at h
    · cases h
    · next _ heq =>
      have f := printO_frame tbl k _ _ heq
      split at h
      · cases h
      · next _ heq2 =>
        have f2 := printO_frame tbl v _ _ heq2
        have f3 := printPairs_frame tbl rest _ _ _ h
        fr_close

theorem printStmts_frame (tbl : Nat → Bool) : ∀ (s : Option (List (Option Node))) (ps ps' : PrintState),
    printStmts tbl s ps = .ok ps' → Frame ps ps'
  | none, _, _, h => by unfold printStmts at h; cases h
  | some l, ps, ps', h => by unfold printStmts at h; exact printBlock_frame tbl l _ _ h

theorem printBlock_frame (tbl : Nat → Bool) : ∀ (l : List (Option Node)) (ps ps' : PrintState),
    printBlock tbl l ps = .ok ps' → Frame ps ps'
  | l, ps, ps', h => by
    unfold printBlock at h; dsimp only at h
    split at h
    · cases h
    · next _ heq => have f := printStmtLoop_frame tbl l _ _ _ heq; cases h; fr_close

theorem printStmtLoop_frame (tbl : Nat → Bool) : ∀ (l : List (Option Node)) (ps : PrintState) (i : Nat) (ps' : PrintState),
    printStmtLoop tbl l ps i = .ok ps' → Frame ps ps'
  | [], _, _, _, h => by unfold printStmtLoop at h; cases h; exact Frame.refl _
  | x :: xs, ps, i, ps', h => by
    unfold printStmtLoop at h
    split at h
    · exact printStmtLoop_frame tbl xs _ _ _ h
    · dsimp only at h
      split at h
      · cases h
      · next _ heq =>
        have f := printO_frame tbl x _ _ heq
        have f2 := printStmtLoop_frame tbl xs _ _ _ h
        have f3 := fun fb => compactSep_frame ps x i fb
        have f4 := longFormSep_frame ps x i
        fr_close

end

end Grol.Printer

namespace Grol.Printer

/-- **C03 (3), first half**: whatever the tree, when normal-mode printing of a program succeeds its
output ends with a newline (the `ps.Println()` that closes the top-level `Statements`). -/
theorem printProgram_ends_with_newline (tbl : Nat → Bool) (prog : NList) (allParens : Bool) (out : Wire.Bytes)
    (h : printProgram tbl prog false allParens = .ok out) : out.getLast? = some 10 := by
  unfold printProgram at h
  split at h
  · cases h
  · next ps heq =>
    cases h
    unfold printStmts printBlock at heq
    dsimp only at heq
    split at heq
    · cases heq
    · next ps2 hloop =>
      have f := printStmtLoop_frame tbl prog _ _ _ hloop
      unfold Frame at f
      simp at f
      cases heq
      simp [PrintState.println, PrintState.write, f.1, f.2]

end Grol.Printer

import GrolProofs.PrintParse
/-
C02, positive half: statements and programs — `parseProgram` on the rendering of a program of the
fragment returns that program.
-/
set_option linter.unusedVariables false
set_option linter.unusedSimpArgs false
namespace Grol.RT
open Grol Grol.Wire Grol.Generated Grol.Parser Grol.Printer Grol.PrintTokens
variable {s : TokStream}

/-- an expression of the fragment, parsed to the end -/
theorem expr_complete {n : Node} (hf : fragN n = true) (c ap ws : Bool) (q P i j : Nat) (hc : Compat P q)
    (hseg : Seg s i (exprToks c ap q ws n)) (hj : j + 1 = i + (exprToks c ap q ws n).length)
    (hstop : Stop q (s.get (j + 1))) (hstopP : Stop P (s.get (j + 1))) :
    Ev (fun f => parseExpression s f P (stAt s i) = .ok (some n, stAt s j)) :=
  gp_node s n hf c ap ws q P i j _ hc hseg hj hstop (ev_loop_stop hstopP)

/-- the token after a statement: the end marker, or the first token of a statement that does not continue the previous one -/
def FollowOK (y : Tok) : Prop :=
  y = eofTok ∨ (startTy y.type = true ∧ y.hadWs = true ∧ ambiguousOp y.type = false)

theorem followOK_stop {j : Nat} {y : Tok} (hy : FollowOK y) (h : key (s.get j) = key y) :
    Stop prioLOWEST (s.get j) ∧ (s.get j).type ≠ .SEMICOLON := by
  have hty := seg_type h
  rcases hy with rfl | ⟨h1, h2, h3⟩
  · have : (s.get j).type = .EOF := hty
    exact ⟨Stop_of_type (by rw [this]; decide) (by rw [this]; decide) (by rw [this]; decide) (by rw [this]; decide), by rw [this]; decide⟩
  · have hs := startTy_stop _ h1 h3
    have hf := startTy_facts _ h1
    rw [← hty] at hs hf h1
    refine ⟨⟨hf.2.2.2.2.2.2.2, hs.1, hs.2.1, ?_⟩, hf.2.2.2.2.2.2.1⟩
    rcases hs.2.2 with hp | hp | hp
    · exact Or.inl hp
    · exact Or.inr ⟨Or.inl hp, by rw [key_ws h (Or.inl (by rw [← hty]; exact hp))]; exact h2⟩
    · exact Or.inr ⟨Or.inr hp, by rw [key_ws h (Or.inr (by rw [← hty]; exact hp))]; exact h2⟩

theorem startsAmbiguous_head {ws : Bool} {l : List Tok} (h : Head ws l) (hna : startsAmbiguous l = false) :
    ∃ x rest, l = x :: rest ∧ startTy x.type = true ∧ x.hadWs = ws ∧ ambiguousOp x.type = false := by
  obtain ⟨x, rest, rfl, h1, h2⟩ := h
  exact ⟨x, rest, rfl, h1, h2, by simpa [startsAmbiguous] using hna⟩

/-- the first token of a statement that is not the first of its list -/
theorem stmtToks_follow {n : Node} (hf : fragN n = true) (c ap : Bool)
    (hna : c = true ∨ startsAmbiguous (stmtToks false ap false n) = false) :
    ∃ y rest, stmtToks c ap false n = y :: rest ∧ FollowOK y := by
  unfold stmtToks
  simp only [Bool.not_false, Bool.and_true]
  by_cases hc : (c && startsAmbiguous (exprToks c ap prioLOWEST true n)) = true
  · rw [if_pos hc]
    exact ⟨lparen true, _, rfl, Or.inr ⟨by decide, rfl, by decide⟩⟩
  · rw [if_neg hc]
    have hh := head_node n hf c ap prioLOWEST true
    have : startsAmbiguous (exprToks c ap prioLOWEST true n) = false := by
      cases c with
      | true => simpa using hc
      | false =>
        rcases hna with h | h
        · cases h
        · simpa [stmtToks] using h
    obtain ⟨x, rest, hx, h1, h2, h3⟩ := startsAmbiguous_head hh this
    exact ⟨x, rest, hx, Or.inr ⟨h1, h2, h3⟩⟩

/-- what follows a statement in the rendering of a statement list -/
theorem prog_follow (c ap : Bool) : ∀ (more : NList), fragL more = true → (c = true ∨ noAmbiguousStart ap false more = true) →
    ∃ y rest, progToksAux c ap false more ++ [eofTok] = y :: rest ∧ FollowOK y
  | [], _, _ => ⟨eofTok, [], rfl, Or.inl rfl⟩
  | none :: _, h, _ => by simp [fragL, fragO] at h
  | some n :: more, h, hna => by
    simp only [fragL, fragO, Bool.and_eq_true] at h
    have hna' : c = true ∨ startsAmbiguous (stmtToks false ap false n) = false := by
      rcases hna with h | h
      · exact Or.inl h
      · simp only [noAmbiguousStart, Bool.false_or, Bool.and_eq_true, Bool.not_eq_true'] at h
        exact Or.inr h.1
    obtain ⟨y, rest, hy, hok⟩ := stmtToks_follow h.1 c ap hna'
    exact ⟨y, rest ++ (progToksAux c ap false more ++ [eofTok]), by simp only [progToksAux, hy, List.cons_append, List.append_assoc], hok⟩

theorem stmtToks_head {n : Node} (hf : fragN n = true) (c ap first : Bool) :
    ∃ x rest, stmtToks c ap first n = x :: rest ∧ startTy x.type = true := by
  unfold stmtToks
  split
  · exact ⟨lparen true, _, rfl, by decide⟩
  · obtain ⟨x, rest, hx, h1, _⟩ := head_node n hf c ap prioLOWEST (!first)
    exact ⟨x, rest, hx, h1⟩

/-- one expression statement -/
theorem stmt_parse {n : Node} (hf : fragN n = true) (c ap first : Bool) (i j : Nat) (hseg : Seg s i (stmtToks c ap first n))
    (hj : j + 1 = i + (stmtToks c ap first n).length) (hstop : Stop prioLOWEST (s.get (j + 1)))
    (hsemi : (s.get (j + 1)).type ≠ .SEMICOLON) :
    Ev (fun f => parseStatement s f (stAt s i) = .ok (some n, stAt s j)) := by
  obtain ⟨x, rest, hx, hstart⟩ := stmtToks_head hf c ap first
  have hcur : startTy (s.get i).type = true := by
    rw [hx, Seg_cons] at hseg; rw [seg_type hseg.1]; exact hstart
  have hE : Ev (fun f => parseExpression s f prioLOWEST (stAt s i) = .ok (some n, stAt s j)) := by
    unfold stmtToks at hseg hj
    by_cases hc : (c && !first && startsAmbiguous (exprToks c ap prioLOWEST (!first) n)) = true
    · rw [if_pos hc] at hseg hj
      simp only [List.cons_append, Seg_cons, Seg_append, Seg_nil, and_true, List.length_cons, List.length_append, List.length_nil] at hseg hj
      obtain ⟨j', rfl⟩ : ∃ j', j = j' + 1 := ⟨j - 1, by omega⟩
      have hcl : key (s.get (j' + 1)) = key rparen := by
        have := hseg.2.2; rwa [show i + 1 + (exprToks c ap prioLOWEST false n).length = j' + 1 by omega] at this
      refine grp (t := n) (i := i) (j := j') (fun res' => ?_) (by have := seg_type hseg.1; simpa [lparen, sym] using this)
        (by have := seg_type hcl; simpa [rparen, sym] using this) hstop.1 (ev_loop_stop hstop)
      exact gp_node s n hf c ap false prioLOWEST prioLOWEST (i + 1) j' res' (Compat_low (Nat.le_refl _)) hseg.2.1 (by omega)
        (stop_rparen hcl (Nat.le_refl _))
    · rw [if_neg hc] at hseg hj
      exact expr_complete hf c ap (!first) prioLOWEST prioLOWEST i j (Compat_low (Nat.le_refl _)) hseg hj hstop hstop
  refine Ev.step 0 1 (fun F _ ha f hf' => ?_) hE
  exact parseStatement_ok (by simp only [stAt_cur]; exact (startTy_facts _ hcur).2.2.2.2.2.1) (ha f hf')
    (by simp only [stAt_peek]; exact hsemi)

theorem stmtToks_pos {n : Node} (hf : fragN n = true) (c ap first : Bool) : 1 ≤ (stmtToks c ap first n).length := by
  obtain ⟨x, rest, hx, _⟩ := stmtToks_head hf c ap first
  rw [hx]; simp

/-- the statement loop of `ParseProgram` on the rendering of a statement list -/
theorem prog_loop (c ap : Bool) : ∀ (rest acc : NList) (first : Bool) (i : Nat), fragL rest = true →
    (c = true ∨ noAmbiguousStart ap first rest = true) → Seg s i (progToksAux c ap first rest ++ [eofTok]) →
    Ev (fun f => parseProgramLoop s f acc (stAt s i) = .ok (acc ++ rest, stAt s (i + (progToksAux c ap first rest).length)))
  | [], acc, first, i, _, _, hseg => by
    simp only [progToksAux, List.nil_append, Seg_cons, Seg_nil, and_true, List.length_nil, Nat.add_zero, List.append_nil] at hseg ⊢
    have hty : (s.get i).type = .EOF := seg_type hseg
    refine ⟨1, fun f hf => ?_⟩
    obtain ⟨g, rfl⟩ : ∃ g, f = g + 1 := ⟨f - 1, by omega⟩
    exact parseProgramLoop_stop (by simpa using hty)
  | none :: _, _, _, _, h, _, _ => by simp [fragL, fragO] at h
  | some n :: more, acc, first, i, h, hna, hseg => by
    simp only [fragL, fragO, Bool.and_eq_true] at h
    simp only [progToksAux, List.append_assoc, List.length_append] at hseg ⊢
    rw [Seg_append] at hseg
    have hpos := stmtToks_pos h.1 c ap first
    obtain ⟨j, hj⟩ : ∃ j, j + 1 = i + (stmtToks c ap first n).length := ⟨i + (stmtToks c ap first n).length - 1, by omega⟩
    rw [← hj] at hseg
    have hna' : c = true ∨ noAmbiguousStart ap false more = true := by
      rcases hna with h | h
      · exact Or.inl h
      · simp only [noAmbiguousStart, Bool.and_eq_true] at h; exact Or.inr h.2
    obtain ⟨y, rest', hy, hok⟩ := prog_follow c ap more h.2 hna'
    have hfol : key (s.get (j + 1)) = key y := by have := hseg.2; rw [hy, Seg_cons] at this; exact this.1
    have hst := followOK_stop hok hfol
    have h1 := stmt_parse h.1 c ap first i j hseg.1 hj hst.1 hst.2
    have h2 := prog_loop c ap more (acc ++ [some n]) false (j + 1) h.2 hna' hseg.2
    obtain ⟨x, restx, hx, hstart⟩ := stmtToks_head h.1 c ap first
    have hcur : startTy (s.get i).type = true := by
      have := hseg.1; rw [hx, Seg_cons] at this; rw [seg_type this.1]; exact hstart
    refine Ev.step2 0 1 (fun F _ ha hb f hf => ?_) h1 h2
    rw [parseProgramLoop_step (st1 := stAt s j) (n := n) (by simp only [stAt_cur]; exact (startTy_facts _ hcur).2.2.2.1)
      (by simp only [stAt_cur]; exact (startTy_facts _ hcur).2.2.2.2.1) (ha f hf), advance_stAt, hb f hf, List.append_assoc]
    have : j + 1 + (progToksAux c ap false more).length = i + ((stmtToks c ap first n).length + (progToksAux c ap false more).length) := by omega
    rw [this]; rfl

/-! ### the stream -/

theorem seg_of_get : ∀ (l : List Tok) (i : Nat), (∀ k (h : k < l.length), key (s.get (i + k)) = key l[k]) → Seg s i l
  | [], _, _ => trivial
  | x :: r, i, h => by
    refine ⟨h 0 (by simp), seg_of_get r (i + 1) (fun k hk => ?_)⟩
    have := h (k + 1) (by simp; omega)
    rw [show i + (k + 1) = i + 1 + k by omega] at this
    exact this

/-- the stream's tokens are, up to `key`, the tokens `l` -/
theorem seg_of_keys {l : List Tok} (h : s.toks.map key = l.map key) : Seg s 0 l := by
  have hlen : s.toks.length = l.length := by simpa using congrArg List.length h
  refine seg_of_get l 0 (fun k hk => ?_)
  have hk' : k < s.toks.length := by omega
  have e : s.get (0 + k) = s.toks[k] := by
    simp [TokStream.get, List.getElem?_eq_getElem hk']
  rw [e]
  have := congrArg (fun m => m[k]?) h
  simpa [List.getElem?_map, List.getElem?_eq_getElem hk, List.getElem?_eq_getElem hk'] using this

/-- **Round trip, token level.**  On any stream showing the rendering of a program of the fragment, followed by
the end marker, `ParseProgram` returns that program, without errors, for every sufficiently large fuel. -/
theorem parse_rendered (c ap : Bool) (prog : NList) (hf : fragProg c ap prog = true) (s : TokStream)
    (hs : s.toks.map key = progKeys c ap prog) :
    Ev (fun f => parseProgram s f = .ok { program := prog, errors := 0, cont := false }) := by
  simp only [fragProg, Bool.and_eq_true, Bool.or_eq_true] at hf
  have hseg : Seg s 0 (progToksAux c ap true prog ++ [eofTok]) :=
    seg_of_keys (by rw [hs]; simp [progKeys, progToks])
  have h := prog_loop (s := s) c ap prog [] true 0 hf.1 hf.2 hseg
  refine h.mono (fun f hf' => ?_)
  unfold parseProgram
  rw [init_eq, hf']
  rfl

end Grol.RT

import GrolProofs.PrintParseBlocks
/-
C02, positive half: programs — `parseProgram` on the rendering of a program of the fragment returns that program.
-/
set_option linter.unusedVariables false
set_option linter.unusedSimpArgs false
namespace Grol.RT
open Grol Grol.Wire Grol.Generated Grol.Parser Grol.Printer Grol.PrintTokens
variable {s : TokStream} {c ap : Bool}

/-- the statement loop of `ParseProgram` on the rendering of a statement list -/
theorem prog_loop : ∀ (l acc : NList) (first : Bool) (i : Nat), fragS c ap false first l = true → SPL s c ap l →
    Seg s i (stmtsToks c ap false first l ++ [eofTok]) →
    Ev (fun f => parseProgramLoop s f acc (stAt s i) = .ok (acc ++ l, stAt s (i + (stmtsToks c ap false first l).length)))
  | [], acc, first, i, _, _, hseg => by
    simp only [stmtsToks, List.nil_append, Seg_cons, Seg_nil, and_true, List.length_nil, Nat.add_zero, List.append_nil] at hseg ⊢
    have hty : (s.get i).type = .EOF := seg_type hseg
    refine ⟨1, fun f hf => ?_⟩
    obtain ⟨g, rfl⟩ : ∃ g, f = g + 1 := ⟨f - 1, by omega⟩
    exact parseProgramLoop_stop (by simpa using hty)
  | none :: _, _, _, _, h, _, _ => by simp [fragS] at h
  | some n :: rest, acc, first, i, h, hp, hseg => by
    obtain ⟨n', hn', hpn⟩ := hp.head
    cases hn'
    obtain ⟨j, hj, h1, hseg', hstart⟩ := stmts_step (Or.inl rfl) h hpn hseg
    have h' := h; rw [fragS_cons, Bool.and_eq_true] at h'
    have h2 := prog_loop rest (acc ++ [some n]) false (j + 1) h'.2 hp.tail hseg'
    have hsf := startTyS_facts _ hstart
    refine Ev.step2 0 1 (fun F _ ha hb f hf => ?_) h1 h2
    rw [parseProgramLoop_step (st1 := stAt s j) (n := n) (by simp only [stAt_cur]; exact hsf.2.1)
      (by simp only [stAt_cur]; exact hsf.2.2.1) (ha f hf), advance_stAt, hb f hf,
      List.append_assoc, stmtsToks_cons, List.length_append]
    have : j + 1 + (stmtsToks c ap false false rest).length = i + ((stmtToks1 c ap false first n).length + (stmtsToks c ap false false rest).length) := by omega
    rw [this]; rfl

/-! ### the stream -/

theorem seg_of_get : ∀ (l : List Tok) (i : Nat), (∀ k (h : k < l.length), key (s.get (i + k)) = key l[k]) → Seg s i l
  | [], _, _ => trivial
  | x :: r, i, h => by
    refine ⟨h 0 (by simp), seg_of_get r (i + 1) (fun k hk => ?_)⟩
    have := h (k + 1) (by simp; omega)
    rw [show i + (k + 1) = i + 1 + k by omega] at this
    exact this

/-- the stream's tokens are, up to `key`, the tokens `l` -/
theorem seg_of_keys {l : List Tok} (h : s.toks.map key = l.map key) : Seg s 0 l := by
  have hlen : s.toks.length = l.length := by simpa using congrArg List.length h
  refine seg_of_get l 0 (fun k hk => ?_)
  have hk' : k < s.toks.length := by omega
  have e : s.get (0 + k) = s.toks[k] := by
    simp [TokStream.get, List.getElem?_eq_getElem hk']
  rw [e]
  have := congrArg (fun m => m[k]?) h
  simpa [List.getElem?_map, List.getElem?_eq_getElem hk, List.getElem?_eq_getElem hk'] using this

/-- **Round trip, token level.**  On any stream showing the rendering of a program of the fragment, followed by
the end marker, `ParseProgram` returns that program, without errors, for every sufficiently large fuel. -/
theorem parse_rendered (c ap : Bool) (prog : NList) (hf : fragProg c ap prog = true) (s : TokStream)
    (hs : s.toks.map key = progKeys c ap prog) :
    Ev (fun f => parseProgram s f = .ok { program := prog, errors := 0, cont := false }) := by
  have hseg : Seg s 0 (stmtsToks c ap false true prog ++ [eofTok]) :=
    seg_of_keys (by rw [hs]; simp [progKeys, progToks])
  have h := prog_loop (s := s) prog [] true 0 hf (gp_stmts s c ap prog false true hf) hseg
  refine h.mono (fun f hf' => ?_)
  unfold parseProgram
  rw [init_eq, hf']
  rfl

end Grol.RT

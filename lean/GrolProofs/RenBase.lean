import GrolProofs.EvalInv
/-
C10 (two-run simulation), part 0: renaming of frame indices, the relation between the state of a
session WITH a failed input (`s`: it has extra, unreachable frames) and the state WITHOUT it (`t`),
and the relational calculus `SimAt`.

Both runs allocate frames in lockstep, so the renaming is a fixed shift: indices below `n0` (the
frames that existed when the runs diverged) are kept, indices from `n0` on are moved up by `d` (the
number of frames the failed input left behind).
-/
namespace Grol.R
open Grol.E

/-- the shift: `n0` = number of frames common to both runs, `d` = number of garbage frames of run S -/
structure Sh where
  n0 : Nat
  d : Nat

def sh (σ : Sh) (i : Nat) : Nat := if i < σ.n0 then i else i + σ.d

theorem sh_lt (σ : Sh) {i j : Nat} (h : i < j) : sh σ i < sh σ j := by
  unfold sh; split <;> split <;> omega

theorem sh_inj (σ : Sh) {i j : Nat} (h : sh σ i = sh σ j) : i = j := by
  unfold sh at h; split at h <;> split at h <;> omega

theorem sh_ge (σ : Sh) (i : Nat) : i ≤ sh σ i := by unfold sh; split <;> omega

theorem sh_of_ge (σ : Sh) {i : Nat} (h : σ.n0 ≤ i) : sh σ i = i + σ.d := by
  unfold sh; split <;> omega

theorem sh_of_lt (σ : Sh) {i : Nat} (h : i < σ.n0) : sh σ i = i := by
  unfold sh; split <;> omega

def renFn (σ : Sh) (f : FuncVal) : FuncVal := { f with env := sh σ f.env }

mutual
/-- a value of run T as run S holds it -/
def ren (σ : Sh) : Obj → Obj
  | .array els => .array (renL σ els)
  | .map b kvs => .map b (renP σ kvs)
  | .func f => .func (renFn σ f)
  | .ret v k => .ret (ren σ v) k
  | .ref e n => .ref (sh σ e) n
  | .null => .null
  | .bool b => .bool b
  | .int v => .int v
  | .float b => .float b
  | .str s => .str s
  | .ext n => .ext n
  | .error m => .error m
  | .quote n => .quote n
def renL (σ : Sh) : List Obj → List Obj
  | [] => []
  | x :: xs => ren σ x :: renL σ xs
def renP (σ : Sh) : List (Obj × Obj) → List (Obj × Obj)
  | [] => []
  | (k, v) :: xs => (ren σ k, ren σ v) :: renP σ xs
end

theorem renL_eq (σ : Sh) (l : List Obj) : renL σ l = l.map (ren σ) := by
  induction l with
  | nil => rfl
  | cons x xs ih => simp [renL, ih]

theorem renP_eq (σ : Sh) (l : List (Obj × Obj)) : renP σ l = l.map (fun kv => (ren σ kv.1, ren σ kv.2)) := by
  induction l with
  | nil => rfl
  | cons x xs ih => obtain ⟨k, v⟩ := x; simp [renP, ih]

@[simp] theorem renL_length (σ : Sh) (l : List Obj) : (renL σ l).length = l.length := by
  rw [renL_eq]; simp

@[simp] theorem renP_length (σ : Sh) (l : List (Obj × Obj)) : (renP σ l).length = l.length := by
  rw [renP_eq]; simp

@[simp] theorem ren_typeNum (σ : Sh) (o : Obj) : (ren σ o).typeNum = o.typeNum := by
  cases o <;> rfl

@[simp] theorem ren_isError (σ : Sh) (o : Obj) : (ren σ o).isError = o.isError := by
  cases o <;> rfl

/-! ### stores -/

def renStore (σ : Sh) (s : List (String × Obj)) : List (String × Obj) := s.map (fun kv => (kv.1, ren σ kv.2))

theorem lookupStore_ren (σ : Sh) (s : List (String × Obj)) (n : String) :
    lookupStore (renStore σ s) n = (lookupStore s n).map (ren σ) := by
  induction s with
  | nil => rfl
  | cons kv rest ih =>
    obtain ⟨k, v⟩ := kv
    simp only [renStore, List.map_cons, lookupStore]
    split
    · rfl
    · exact ih

theorem setStore_ren (σ : Sh) (s : List (String × Obj)) (n : String) (v : Obj) :
    setStore (renStore σ s) n (ren σ v) = renStore σ (setStore s n v) := by
  induction s with
  | nil => rfl
  | cons kv rest ih =>
    obtain ⟨k, w⟩ := kv
    simp only [renStore, List.map_cons, setStore]
    split
    · rfl
    · simp only [List.map_cons]; congr 1

theorem delStore_ren (σ : Sh) (s : List (String × Obj)) (n : String) :
    delStore (renStore σ s) n = renStore σ (delStore s n) := by
  unfold delStore renStore
  rw [List.filter_map]
  rfl

/-! ### frames and states -/

/-- frame `i` of run T (`ft`) as run S holds it (`fs`): the miss counter, the can't-cache flag and the
set counter of the frames that existed when the runs diverged (`i < n0`) may differ — the evaluator
reads `getMiss` only on the callee's own fresh frame, and never reads `numSet` -/
structure FrameR (σ : Sh) (i : Nat) (fs ft : Frame) : Prop where
  store : fs.store = renStore σ ft.store
  outer : fs.outer = ft.outer.map (sh σ)
  depth : fs.depth = ft.depth
  cacheKey : fs.cacheKey = ft.cacheKey
  function : fs.function = ft.function.map (renFn σ)
  counters : σ.n0 ≤ i → fs.getMiss = ft.getMiss ∧ fs.cantCache = ft.cantCache ∧ fs.numSet = ft.numSet
  localFunc : fs.localFunc = ft.localFunc

/-- the "same closure" test of `NewFunctionEnvironment` (repo fix 0558004: same text AND same defining environment) is
invariant under the renaming: the shift of frame indices is injective -/
theorem sameFunction_ren (σ : Sh) {fs ft : Frame} (hk : fs.cacheKey = ft.cacheKey)
    (hf : fs.function = ft.function.map (renFn σ)) (f : FuncVal) :
    sameFunction fs (renFn σ f) = sameFunction ft f := by
  unfold sameFunction
  rw [hk, hf]
  have hkey : (renFn σ f).key = f.key := rfl
  have henv : (renFn σ f).env = sh σ f.env := rfl
  rw [hkey, henv]
  cases ft.function with
  | none => rfl
  | some g =>
    have hg : (renFn σ g).env = sh σ g.env := rfl
    simp only [Option.map, hg]
    have hb : (sh σ g.env == sh σ f.env) = (g.env == f.env) := by
      by_cases h : g.env = f.env
      · rw [h]; simp
      · have h' : sh σ g.env ≠ sh σ f.env := fun e => h (sh_inj σ e)
        rw [beq_eq_false_iff_ne.mpr h, beq_eq_false_iff_ne.mpr h']
    rw [hb]

/-- cache entries: same key and output, renamed result, arguments equal as cache keys -/
structure EntryR (σ : Sh) (cs ct : CacheEntry) : Prop where
  key : cs.key = ct.key
  output : cs.output = ct.output
  result : cs.result = ren σ ct.result
  args : ∀ x, keyEqList cs.args x = keyEqList ct.args x

inductive CacheR (σ : Sh) : List CacheEntry → List CacheEntry → Prop
  | nil : CacheR σ [] []
  | cons {cs ct ls lt} : EntryR σ cs ct → CacheR σ ls lt → CacheR σ (cs :: ls) (ct :: lt)

/-- in run T references and parents point to strictly smaller frame indices (what makes the
`frames.size`-based fuels of `valueOf`, `makeRef` and `envDelete` sufficient in both runs) -/
def RefDec (t : St) : Prop :=
  ∀ i f, t.frames[i]? = some f →
    (∀ o, f.outer = some o → o < i) ∧ (∀ k e n, (k, Obj.ref e n) ∈ f.store → e < i)

/-- run S's state `s` against run T's state `t` (the instrumentation log `hazards` is ignored: the
evaluator never reads it) -/
structure StR (σ : Sh) (s t : St) : Prop where
  cfg : s.cfg = t.cfg
  extNames : s.extNames = t.extNames
  depth : s.depth = t.depth
  steps : s.steps = t.steps
  outs : s.outs = t.outs
  cache : CacheR σ s.cache t.cache
  cur : s.cur = sh σ t.cur
  root : s.root = sh σ t.root
  size : s.frames.size = t.frames.size + σ.d
  n0 : σ.n0 ≤ t.frames.size
  /-- the root frame is common to both runs -/
  pos : 0 < σ.n0
  frames : ∀ i ft, t.frames[i]? = some ft → ∃ fs, s.frames[sh σ i]? = some fs ∧ FrameR σ i fs ft
  dec : RefDec t

/-! ### the relational calculus -/

/-- running `x` from `s` and `y` from `t` ends the same way: both normally, with results related by
`Q` and related states, or both with the same stop and related states -/
def SimAt (σ : Sh) (x : M α) (y : M β) (s t : St) (Q : α → β → Prop) : Prop :=
  match runM x s, runM y t with
  | (.ok a, s'), (.ok b, t') => StR σ s' t' ∧ Q a b
  | (.error e, s'), (.error e', t') => e = e' ∧ StR σ s' t'
  | _, _ => False

theorem SimAt.pure {σ : Sh} {a : α} {b : β} {s t : St} {Q : α → β → Prop} (hR : StR σ s t) (hq : Q a b) :
    SimAt σ (pure a : M α) (pure b : M β) s t Q := by
  unfold SimAt; rw [runM_pure, runM_pure]; exact ⟨hR, hq⟩

theorem SimAt.stop {σ : Sh} {e : Stop} {s t : St} {Q : α → β → Prop} (hR : StR σ s t) :
    SimAt σ (Grol.E.stop e : M α) (Grol.E.stop e : M β) s t Q := by
  unfold SimAt; rw [runM_stop, runM_stop]; exact ⟨rfl, hR⟩

theorem SimAt.bind {σ : Sh} {x : M α} {y : M β} {f : α → M γ} {g : β → M δ} {s t : St}
    {Q : α → β → Prop} {Q' : γ → δ → Prop}
    (hx : SimAt σ x y s t Q)
    (hf : ∀ a b s' t', StR σ s' t' → Q a b → SimAt σ (f a) (g b) s' t' Q') :
    SimAt σ (x >>= f) (y >>= g) s t Q' := by
  unfold SimAt at hx ⊢
  rw [runM_bind, runM_bind]
  generalize runM x s = rs at hx
  generalize runM y t = rt at hx
  obtain ⟨ra, s'⟩ := rs
  obtain ⟨rb, t'⟩ := rt
  cases ra with
  | ok a =>
    cases rb with
    | ok b =>
      dsimp only at hx ⊢
      have := hf a b s' t' hx.1 hx.2
      unfold SimAt at this
      exact this
    | error e' => exact hx.elim
  | error e =>
    cases rb with
    | ok b => exact hx.elim
    | error e' => exact hx

theorem SimAt.stop_bind {σ : Sh} {e : Stop} {f : α → M γ} {g : β → M δ} {s t : St} {Q' : γ → δ → Prop}
    (hR : StR σ s t) : SimAt σ (Grol.E.stop e >>= f) (Grol.E.stop e >>= g) s t Q' :=
  SimAt.bind (Q := fun _ _ => False) (SimAt.stop hR) (fun _ _ _ _ _ h => h.elim)

theorem SimAt.mono {σ : Sh} {x : M α} {y : M β} {s t : St} {Q Q' : α → β → Prop}
    (hx : SimAt σ x y s t Q) (h : ∀ a b, Q a b → Q' a b) : SimAt σ x y s t Q' := by
  unfold SimAt at hx ⊢
  generalize runM x s = rs at hx
  generalize runM y t = rt at hx
  obtain ⟨ra, s'⟩ := rs
  obtain ⟨rb, t'⟩ := rt
  cases ra <;> cases rb <;> first | exact hx | exact ⟨hx.1, h _ _ hx.2⟩

/-- both sides first read their state -/
theorem SimAt.bind_read {σ : Sh} {x : M α} {y : M β} {f : α → M γ} {g : β → M δ} {s t : St}
    {Q' : γ → δ → Prop} {a : α} {b : β}
    (hx : runM x s = (.ok a, s)) (hy : runM y t = (.ok b, t)) (h : SimAt σ (f a) (g b) s t Q') :
    SimAt σ (x >>= f) (y >>= g) s t Q' := by
  unfold SimAt at h ⊢
  rw [runM_bind, runM_bind, hx, hy]
  exact h

theorem SimAt.ite {σ : Sh} {c : Prop} [Decidable c] {a b : M α} {a' b' : M β} {s t : St} {Q : α → β → Prop}
    (ha : c → SimAt σ a a' s t Q) (hb : ¬ c → SimAt σ b b' s t Q) :
    SimAt σ (if c then a else b) (if c then a' else b') s t Q := by
  split
  · exact ha ‹_›
  · exact hb ‹_›

/-- two conditions known to be equivalent -/
theorem SimAt.ite' {σ : Sh} {c c' : Prop} [Decidable c] [Decidable c'] {a b : M α} {a' b' : M β} {s t : St}
    {Q : α → β → Prop} (hc : c ↔ c')
    (ha : c' → SimAt σ a a' s t Q) (hb : ¬ c' → SimAt σ b b' s t Q) :
    SimAt σ (if c then a else b) (if c' then a' else b') s t Q := by
  by_cases h : c'
  · rw [if_pos (hc.2 h), if_pos h]; exact ha h
  · rw [if_neg (fun hh => h (hc.1 hh)), if_neg h]; exact hb h

/-- pure `R` computations with related results -/
def RelR (Q : α → β → Prop) (r : R α) (r' : R β) : Prop :=
  match r, r' with
  | .ok a, .ok b => Q a b
  | .error e, .error e' => e = e'
  | _, _ => False

theorem SimAt.liftR {σ : Sh} {r : R α} {r' : R β} {s t : St} {Q : α → β → Prop} (hR : StR σ s t)
    (h : RelR Q r r') : SimAt σ (Grol.E.liftR r) (Grol.E.liftR r') s t Q := by
  unfold Grol.E.liftR
  cases r with
  | ok a =>
    cases r' with
    | ok b => exact SimAt.pure hR h
    | error e' => exact h.elim
  | error e =>
    cases r' with
    | ok b => exact h.elim
    | error e' =>
      have : e = e' := h
      subst this
      unfold SimAt
      exact ⟨rfl, hR⟩

theorem RelR.of_eq {Q : α → β → Prop} {r : R α} {r' : R β} {f : β → α} (h : r = r'.map f)
    (hq : ∀ b, Q (f b) b) : RelR Q r r' := by
  subst h
  cases r' with
  | ok b => exact hq b
  | error e => rfl

end Grol.R

import GrolProofs.RenQEnv
import GrolProofs.EvalSafeVal
/-
C04 (B1), part 2a: `clean` (no reference to a dirty binding anywhere in a value) is preserved by the
value-level operations of lean/Grol/Eval/Values.lean and Ops.lean.
-/
namespace Grol.R
open Grol.E

theorem clean_array {P : Qp} {l : List Obj} : clean P (.array l) ↔ ∀ x ∈ l, clean P x := by
  show cleanL P l ↔ _
  exact cleanL_iff

theorem clean_newArray {P : Qp} {l : List Obj} : clean P (newArray l) ↔ ∀ x ∈ l, clean P x := clean_array

theorem clean_map {P : Qp} {b : Bool} {l : List (Obj × Obj)} :
    clean P (.map b l) ↔ ∀ kv ∈ l, clean P kv.1 ∧ clean P kv.2 := by
  show cleanP P l ↔ _
  exact cleanP_iff

theorem cleanL_append {P : Qp} {a b : List Obj} (ha : cleanL P a) (hb : cleanL P b) : cleanL P (a ++ b) := by
  rw [cleanL_iff] at *
  intro x hx
  rcases List.mem_append.1 hx with h | h
  · exact ha x h
  · exact hb x h

theorem cleanL_repeat {P : Qp} {l : List Obj} (h : cleanL P l) : ∀ n, cleanL P (repeatList l n)
  | 0 => trivial
  | n + 1 => by unfold repeatList; exact cleanL_append h (cleanL_repeat h n)

theorem cleanL_int64Range {P : Qp} (l r : Int64) : cleanL P (int64Range l r) := by
  rw [cleanL_iff]
  intro x hx
  unfold int64Range at hx
  simp only [List.mem_map] at hx
  obtain ⟨i, _, rfl⟩ := hx
  trivial

theorem cleanL_drop {P : Qp} {l : List Obj} (h : cleanL P l) (n : Nat) : cleanL P (l.drop n) := by
  rw [cleanL_iff] at *
  exact fun x hx => h x (List.mem_of_mem_drop hx)

theorem cleanL_take {P : Qp} {l : List Obj} (h : cleanL P l) (n : Nat) : cleanL P (l.take n) := by
  rw [cleanL_iff] at *
  exact fun x hx => h x (List.mem_of_mem_take hx)

theorem cleanP_drop {P : Qp} {l : List (Obj × Obj)} (h : cleanP P l) (n : Nat) : cleanP P (l.drop n) := by
  rw [cleanP_iff] at *
  exact fun x hx => h x (List.mem_of_mem_drop hx)

theorem cleanP_take {P : Qp} {l : List (Obj × Obj)} (h : cleanP P l) (n : Nat) : cleanP P (l.take n) := by
  rw [cleanP_iff] at *
  exact fun x hx => h x (List.mem_of_mem_take hx)

theorem clean_getD {P : Qp} {l : List Obj} (h : cleanL P l) (i : Nat) : clean P (l.getD i .null) := by
  rw [List.getD_eq_getElem?_getD]
  cases hi : l[i]? with
  | none => trivial
  | some x => exact (cleanL_iff.1 h) x (List.mem_of_getElem? hi)

theorem clean_arrayIndex {P : Qp} {l : List Obj} (h : cleanL P l) (idx : Int64) : clean P (arrayIndex l idx) := by
  unfold arrayIndex
  dsimp only
  split <;> split <;> first | trivial | exact clean_getD h _

theorem cleanL_set {P : Qp} {l : List Obj} (h : cleanL P l) (i : Nat) {v : Obj} (hv : clean P v) : cleanL P (l.set i v) := by
  rw [cleanL_iff] at *
  intro x hx
  rcases List.mem_or_eq_of_mem_set hx with h1 | h1
  · exact h x h1
  · subst h1; exact hv

/-! ### maps -/

theorem mapGet_clean {P : Qp} {kvs : List (Obj × Obj)} {key v : Obj} (hk : cleanP P kvs)
    (h : mapGet kvs key = .ok (some v)) : clean P v := by
  unfold mapGet mapFind at h
  cases hf : mapFind.go key kvs 0 with
  | error e => rw [hf] at h; cases h
  | ok r =>
    rw [hf] at h
    obtain ⟨r1, j⟩ := r
    simp only [bind, Except.bind, pure, Except.pure] at h
    cases h
    obtain ⟨k, hk'⟩ := mapFind_go_mem key kvs 0 v j hf
    exact ((cleanP_iff.1 hk) _ hk').2

theorem oldKey_clean {P : Qp} {kvs : List (Obj × Obj)} {i : Nat} {key : Obj} (hk : cleanP P kvs)
    (hkey : clean P key) : clean P (mapSet.oldKey kvs i key) := by
  unfold mapSet.oldKey
  split
  · next k _ h => exact ((cleanP_iff.1 hk) _ (List.mem_of_getElem? h)).1
  · exact hkey

theorem mapSet_clean {P : Qp} {cfg : Cfg} {big : Bool} {kvs : List (Obj × Obj)} {key val : Obj}
    {r : Bool × List (Obj × Obj)} (hk : cleanP P kvs) (hkey : clean P key)
    (hval : clean P val) (h : mapSet cfg big kvs key val = .ok r) : cleanP P r.2 := by
  unfold mapSet at h
  cases hf : mapFind kvs key with
  | error e => rw [hf] at h; cases h
  | ok fr =>
    rw [hf] at h
    obtain ⟨found, i⟩ := fr
    simp only [bind, Except.bind] at h
    have hmem := cleanP_iff.1 hk
    split at h
    · cases h
      rw [cleanP_iff]
      intro kv hkv
      rcases List.mem_or_eq_of_mem_set hkv with h1 | h1
      · exact hmem kv h1
      · subst h1; exact ⟨oldKey_clean hk hkey, hval⟩
    · cases h
      rw [cleanP_iff]
      intro kv hkv
      simp only [List.mem_append, List.mem_singleton] at hkv
      rcases hkv with (h1 | h1) | h1
      · exact hmem kv (List.mem_of_mem_take h1)
      · subst h1; exact ⟨hkey, hval⟩
      · exact hmem kv (List.mem_of_mem_drop h1)

theorem mapDelete_clean {P : Qp} {kvs kvs' : List (Obj × Obj)} {key : Obj} (hk : cleanP P kvs)
    (h : mapDelete kvs key = .ok (some kvs')) : cleanP P kvs' := by
  unfold mapDelete at h
  cases hf : mapFind kvs key with
  | error e => rw [hf] at h; cases h
  | ok fr =>
    rw [hf] at h
    obtain ⟨found, i⟩ := fr
    simp only [bind, Except.bind] at h
    split at h
    · cases h
      rw [cleanP_iff]
      intro kv hkv
      exact (cleanP_iff.1 hk) kv (List.mem_of_mem_eraseIdx hkv)
    · cases h

theorem mapAppend_go_clean {P : Qp} (cfg : Cfg) : ∀ (r : List (Obj × Obj)) (acc res : Bool × List (Obj × Obj)),
    cleanP P r → cleanP P acc.2 → mapAppend.go cfg acc r = .ok res → cleanP P res.2
  | [], acc, res, _, ha, h => by
    simp only [mapAppend.go, pure, Except.pure] at h; cases h; exact ha
  | (k, v) :: rest, acc, res, hr, ha, h => by
    unfold mapAppend.go at h
    have hr' := cleanP_iff.1 hr
    cases hs : mapSet cfg acc.1 acc.2 k v with
    | error e => rw [hs] at h; cases h
    | ok acc' =>
      rw [hs] at h
      simp only [bind, Except.bind] at h
      have h1 := hr' (k, v) List.mem_cons_self
      have hacc' := mapSet_clean ha h1.1 h1.2 hs
      exact mapAppend_go_clean cfg rest acc' res
        (cleanP_iff.2 (fun kv hkv => hr' kv (List.mem_cons_of_mem _ hkv))) hacc' h

theorem mapAppend_clean {P : Qp} {cfg : Cfg} {lbig : Bool} {l r : List (Obj × Obj)} {res : Bool × List (Obj × Obj)}
    (hl : cleanP P l) (hr : cleanP P r) (h : mapAppend cfg lbig l r = .ok res) : cleanP P res.2 := by
  unfold mapAppend at h
  exact mapAppend_go_clean cfg r _ res hr hl h

theorem clean_makeFirst {P : Qp} {k v : Obj} (hk : clean P k) (hv : clean P v) : clean P (makeFirst k v) :=
  ⟨trivial, hk, trivial, hv, trivial⟩

theorem clean_evalPrefixOp {P : Qp} (op : String) {r : Obj} (h : clean P r) : clean P (evalPrefixOp op r) := by
  unfold evalPrefixOp
  split
  · exact h
  · cases r <;> first | trivial | (rename_i b; cases b <;> trivial)
  · cases r <;> trivial
  · cases int64Value r <;> trivial
  · cases int64Value r <;> trivial
  · exact h
  · trivial

theorem clean_incrValue {P : Qp} (v : Obj) (a : Int64) : ∀ w, incrValue v a = some w → clean P w := by
  intro w h
  cases v <;> first | (cases h; trivial) | cases h

end Grol.R

import GrolProofs.RenHelpers
import GrolProofs.MemoFootprint
/-
C04 (B1), part 0: the relation and the calculus for "a miss-free (quiet) call depends only on the
bindings the purity test trusts".

Two runs with the cache OFF.  As in the C10 simulation (`RenBase.lean`) the frame indices of run T
are shifted by `σ` in run S; in addition the frames that existed when the runs diverged (`i < σ.n0`)
may differ on a set `D` of DIRTY bindings: bindings of run T that the purity test does not trust
(not a function value, not an all-caps name) and that no value of run T refers to (`clean`).
`SimQ` relates the runs under the hypothesis that run T ends normally without moving the miss
counter of the frame `e` it works for.
-/
namespace Grol.R
open Grol.E

/-- parameters of the relation -/
structure Qp where
  σ : Sh
  /-- the dirty bindings (frame of run T, name) -/
  D : Nat → String → Prop
  /-- the miss counters of the old frames when the runs diverged (run S, run T) -/
  ms : Nat → Nat
  mt : Nat → Nat
  /-- the frame whose miss counter run T does not move (the callee frame of the quiet call) -/
  e : Nat
  /-- "prelude": the current frame is not constrained (outside the body of the quiet call) -/
  pre : Prop

mutual
/-- no reference to a binding of `D` occurs anywhere in the value -/
def cleanD (D : Nat → String → Prop) : Obj → Prop
  | .ref e n => ¬ D e n
  | .array els => cleanLD D els
  | .map _ kvs => cleanPD D kvs
  | .ret v _ => cleanD D v
  | _ => True
def cleanLD (D : Nat → String → Prop) : List Obj → Prop
  | [] => True
  | x :: xs => cleanD D x ∧ cleanLD D xs
def cleanPD (D : Nat → String → Prop) : List (Obj × Obj) → Prop
  | [] => True
  | (k, v) :: xs => cleanD D k ∧ cleanD D v ∧ cleanPD D xs
end

/-- no reference to a dirty binding occurs anywhere in the value -/
abbrev clean (P : Qp) : Obj → Prop := cleanD P.D
abbrev cleanL (P : Qp) : List Obj → Prop := cleanLD P.D
abbrev cleanP (P : Qp) : List (Obj × Obj) → Prop := cleanPD P.D

theorem cleanL_iff {P : Qp} {l : List Obj} : cleanL P l ↔ ∀ x ∈ l, clean P x := by
  induction l with
  | nil => simp [cleanL, cleanLD]
  | cons x xs ih => simp only [cleanL, clean] at ih ⊢; simp [cleanLD, ih]

theorem cleanP_iff {P : Qp} {l : List (Obj × Obj)} : cleanP P l ↔ ∀ kv ∈ l, clean P kv.1 ∧ clean P kv.2 := by
  induction l with
  | nil => simp [cleanP, cleanPD]
  | cons x xs ih => obtain ⟨k, v⟩ := x; simp only [cleanP, clean] at ih ⊢; simp [cleanPD, ih, and_assoc]

/-- frame `i` of run T (`ft`) against frame `sh σ i` of run S (`fs`) -/
structure FrQ (P : Qp) (i : Nat) (fs ft : Frame) : Prop where
  outer : fs.outer = ft.outer.map (sh P.σ)
  depth : fs.depth = ft.depth
  cacheKey : fs.cacheKey = ft.cacheKey
  function : fs.function = ft.function.map (renFn P.σ)
  /-- every binding that is not dirty is the same up to the renaming … -/
  lk : ∀ n, ¬ P.D i n → lookupStore fs.store n = (lookupStore ft.store n).map (ren P.σ)
  /-- … and holds a clean value -/
  cl : ∀ n v, ¬ P.D i n → lookupStore ft.store n = some v → clean P v
  /-- a dirty binding is one the purity test does not trust: it exists, under a name that is not all-caps, and holds a
  value that is not a reference and is not a function of a depth-0 frame (since repo fix 103fa2c a FUNCTION held by a
  variable of a non-root frame is a miss too: `Trusted` in MemoFootprint.lean demands depth 0) -/
  dirty : ∀ n, P.D i n → isConstant n = false ∧
    ∃ v, lookupStore ft.store n = some v ∧ notRef v = true ∧ (isFuncObj v = false ∨ ft.depth ≠ 0)
  /-- counters: new frames run in lockstep, old frames keep their initial offset -/
  missNew : P.σ.n0 ≤ i → fs.getMiss = ft.getMiss ∧ fs.cantCache = ft.cantCache
  missOld : i < P.σ.n0 → fs.getMiss + P.mt i = ft.getMiss + P.ms i
  /-- the local-function flag (a recursive call from such a frame skips the cache) -/
  localFunc : fs.localFunc = ft.localFunc
  /-- in run S too a dirty binding of a depth-0 frame does not hold a function (the flag above depends on whether the top
  level frame binds a name to a function) -/
  dirtyS : ∀ n, P.D i n → ∀ w, lookupStore fs.store n = some w → (isFuncObj w = false ∨ ft.depth ≠ 0)

/-- run S's state against run T's state, cache off -/
structure StRq (P : Qp) (s t : St) : Prop where
  cfg : s.cfg = t.cfg
  off : t.cfg.cacheOn = false
  extNames : s.extNames = t.extNames
  depth : s.depth = t.depth
  steps : s.steps = t.steps
  outs : s.outs = t.outs
  cur : s.cur = sh P.σ t.cur
  root : s.root = sh P.σ t.root
  size : s.frames.size = t.frames.size + P.σ.d
  n0 : P.σ.n0 ≤ t.frames.size
  pos : 0 < P.σ.n0
  frames : ∀ i ft, t.frames[i]? = some ft → ∃ fs, s.frames[sh P.σ i]? = some fs ∧ FrQ P i fs ft
  dec : RefDec t
  /-- only old frames have dirty bindings -/
  dlt : ∀ i n, P.D i n → i < P.σ.n0
  /-- the current frame is the quiet frame … -/
  curq : t.cur = P.e
  /-- … a new frame inside the body of the quiet call -/
  enew : P.pre ∨ P.σ.n0 ≤ P.e

/-- the relation does not depend on the quiet frame: another frame can take the role when it is the current one -/
theorem StRq.retarget {P P' : Qp} {s t : St} (h : StRq P s t) (hσ : P'.σ = P.σ) (hD : P'.D = P.D) (hms : P'.ms = P.ms)
    (hmt : P'.mt = P.mt) (cs ct : Nat) (os ot : List (List (List UInt8))) (hcs : cs = sh P.σ ct) (hos : os = ot)
    (hc : ct = P'.e) (hn : P'.pre ∨ P'.σ.n0 ≤ P'.e) :
    StRq P' { s with cur := cs, outs := os } { t with cur := ct, outs := ot } := by
  obtain ⟨σ, D, ms, mt, e, pre⟩ := P
  obtain ⟨σ', D', ms', mt', e', pre'⟩ := P'
  simp only at hσ hD hms hmt hc hn hcs
  subst hσ hD hms hmt
  refine ⟨h.cfg, h.off, h.extNames, h.depth, h.steps, hos, hcs, h.root, h.size, h.n0, h.pos, ?_, h.dec, h.dlt, hc, hn⟩
  intro i ft hi
  obtain ⟨fs, h1, h2⟩ := h.frames i ft hi
  exact ⟨fs, h1, ⟨h2.outer, h2.depth, h2.cacheKey, h2.function, h2.lk, h2.cl, h2.dirty, h2.missNew, h2.missOld, h2.localFunc, h2.dirtyS⟩⟩

/-- renamed and clean -/
abbrev QOq (P : Qp) : Obj → Obj → Prop := fun a b => a = ren P.σ b ∧ clean P b
abbrev QOptq (P : Qp) : Option Obj → Option Obj → Prop :=
  fun a b => a = b.map (ren P.σ) ∧ ∀ v, b = some v → clean P v

/-! ### the calculus -/

/-- if run T's `y` ends normally without moving the miss counter of frame `e`, run S's `x` ends
normally too, in a state related by `R`, with a related result -/
def SimG (e : Nat) (R : St → St → Prop) (x : M α) (y : M β) (s t : St) (Q : α → β → Prop) : Prop :=
  ∀ b t', runM y t = (.ok b, t') → missOf t' e = missOf t e →
    ∃ a s', runM x s = (.ok a, s') ∧ R s' t' ∧ Q a b

/-- the quiet simulation: quiet frame `P.e`, relation `StRq P` -/
def SimQ (P : Qp) (x : M α) (y : M β) (s t : St) (Q : α → β → Prop) : Prop :=
  SimG P.e (StRq P) x y s t Q

theorem SimQ.pure {P : Qp} {a : α} {b : β} {s t : St} {Q : α → β → Prop} (hR : StRq P s t) (hq : Q a b) :
    SimQ P (pure a : M α) (pure b : M β) s t Q := by
  intro b' t' h _
  rw [runM_pure] at h
  cases h
  exact ⟨a, s, runM_pure a s, hR, hq⟩

/-- run T stops: nothing to show -/
theorem SimQ.stop {P : Qp} {x : M α} {err : Stop} {s t : St} {Q : α → β → Prop} :
    SimQ P x (Grol.E.stop err : M β) s t Q := by
  intro b t' h _
  rw [runM_stop] at h
  cases h

theorem SimQ.stop_bind {P : Qp} {x : M α} {err : Stop} {g : γ → M β} {s t : St} {Q : α → β → Prop} :
    SimQ P x (Grol.E.stop err >>= g) s t Q := by
  intro b t' h _
  rw [runM_bind, runM_stop] at h
  cases h

theorem missOf_mono {x : M α} (hx : Tr x) (st : St) (e : Nat) : missOf st e ≤ missOf (runM x st).2 e := by
  have := (hx.h st).miss e
  rw [stateAfter_eq] at this
  exact this

theorem SimQ.bind {P : Qp} {x : M α} {y : M β} {f : α → M γ} {g : β → M δ} {s t : St}
    {Q : α → β → Prop} {Q' : γ → δ → Prop}
    (hx : SimQ P x y s t Q)
    (hf : ∀ a b s' t', StRq P s' t' → Q a b → SimQ P (f a) (g b) s' t' Q')
    (ty : Tr y := by tr_ih) (tg : ∀ b, Tr (g b) := by tr_ih) :
    SimQ P (x >>= f) (y >>= g) s t Q' := by
  intro c t'' h hq
  rw [runM_bind] at h
  cases hy : runM y t with
  | mk rb t1 =>
    rw [hy] at h
    cases rb with
    | error err => cases h
    | ok b =>
      dsimp only at h
      have h1 : missOf t P.e ≤ missOf t1 P.e := by have := missOf_mono ty t P.e; rw [hy] at this; exact this
      have h2 : missOf t1 P.e ≤ missOf t'' P.e := by have := missOf_mono (tg b) t1 P.e; rw [h] at this; exact this
      obtain ⟨a, s1, hxs, hR1, hqab⟩ := hx b t1 hy (by omega)
      obtain ⟨c', s2, hfs, hR2, hqc⟩ := hf a b s1 t1 hR1 hqab c t'' h (by omega)
      refine ⟨c', s2, ?_, hR2, hqc⟩
      rw [runM_bind, hxs]
      exact hfs

theorem SimQ.mono {P : Qp} {x : M α} {y : M β} {s t : St} {Q Q' : α → β → Prop}
    (hx : SimQ P x y s t Q) (h : ∀ a b, Q a b → Q' a b) : SimQ P x y s t Q' := by
  intro b t' hy hq
  obtain ⟨a, s', h1, h2, h3⟩ := hx b t' hy hq
  exact ⟨a, s', h1, h2, h a b h3⟩

theorem SimQ.bind_read {P : Qp} {x : M α} {y : M β} {f : α → M γ} {g : β → M δ} {s t : St}
    {Q' : γ → δ → Prop} {a : α} {b : β}
    (hx : runM x s = (.ok a, s)) (hy : runM y t = (.ok b, t)) (h : SimQ P (f a) (g b) s t Q') :
    SimQ P (x >>= f) (y >>= g) s t Q' := by
  intro c t' hr hq
  rw [runM_bind, hy] at hr
  obtain ⟨c', s', h1, h2, h3⟩ := h c t' hr hq
  exact ⟨c', s', by rw [runM_bind, hx]; exact h1, h2, h3⟩

theorem SimQ.ite {P : Qp} {c : Prop} [Decidable c] {a b : M α} {a' b' : M β} {s t : St} {Q : α → β → Prop}
    (ha : c → SimQ P a a' s t Q) (hb : ¬ c → SimQ P b b' s t Q) :
    SimQ P (if c then a else b) (if c then a' else b') s t Q := by
  split
  · exact ha ‹_›
  · exact hb ‹_›

theorem SimQ.ite' {P : Qp} {c c' : Prop} [Decidable c] [Decidable c'] {a b : M α} {a' b' : M β} {s t : St}
    {Q : α → β → Prop} (hc : c ↔ c')
    (ha : c' → SimQ P a a' s t Q) (hb : ¬ c' → SimQ P b b' s t Q) :
    SimQ P (if c then a else b) (if c' then a' else b') s t Q := by
  by_cases h : c'
  · rw [if_pos (hc.2 h), if_pos h]; exact ha h
  · rw [if_neg (fun hh => h (hc.1 hh)), if_neg h]; exact hb h

theorem SimQ.liftR {P : Qp} {r : R α} {r' : R β} {s t : St} {Q : α → β → Prop} (hR : StRq P s t)
    (h : RelR Q r r') : SimQ P (Grol.E.liftR r) (Grol.E.liftR r') s t Q := by
  unfold Grol.E.liftR
  cases r' with
  | error e' => exact SimQ.stop (x := _) (err := e')
  | ok b =>
    cases r with
    | ok a => exact SimQ.pure hR h
    | error e => exact h.elim

theorem SimQ.liftR' {P : Qp} {r : R α} {r' : R β} {s t : St} {Q : α → β → Prop} {f : β → α} (hR : StRq P s t)
    (h : r = r'.map f) (hq : ∀ b, r' = .ok b → Q (f b) b) : SimQ P (Grol.E.liftR r) (Grol.E.liftR r') s t Q := by
  subst h
  unfold Grol.E.liftR
  cases r' with
  | error e' => exact SimQ.stop (x := _) (err := e')
  | ok b => exact SimQ.pure hR (hq b rfl)

theorem SimQ.and_right {P : Qp} {x : M α} {y : M β} {s t : St} {Q : α → β → Prop} {C : β → Prop}
    (h : SimQ P x y s t Q) (hc : ∀ b t', runM y t = (.ok b, t') → C b) : SimQ P x y s t (fun a b => Q a b ∧ C b) := by
  intro b t' hy hq
  obtain ⟨a, s', h1, h2, h3⟩ := h b t' hy hq
  exact ⟨a, s', h1, h2, h3, hc b t' hy⟩

/-- run T is loud on `e`: nothing to show -/
theorem SimQ.of_loud {P : Qp} {x : M α} {y : M β} {s t : St} {Q : α → β → Prop}
    (h : ∀ b t', runM y t = (.ok b, t') → missOf t' P.e ≠ missOf t P.e) : SimQ P x y s t Q := by
  intro b t' hy hq
  exact absurd hq (h b t' hy)

/-! ### loud steps -/

/-- every normal run of `y` moves the miss counter of frame `e` -/
def Loud (e : Nat) (y : M β) : Prop := ∀ t b t', runM y t = (.ok b, t') → missOf t e < missOf t' e

theorem SimQ.loud {P : Qp} {x : M α} {y : M β} {s t : St} {Q : α → β → Prop} (h : Loud P.e y) : SimQ P x y s t Q :=
  SimQ.of_loud (fun b t' hy => Nat.ne_of_gt (h t b t' hy))

theorem Loud.bind_right {e : Nat} {x : M α} {f : α → M β} (hx : Tr x) (hf : ∀ a, Loud e (f a)) : Loud e (x >>= f) := by
  intro t b t' h
  rw [runM_bind] at h
  cases hx' : runM x t with
  | mk ra t1 =>
    rw [hx'] at h
    cases ra with
    | error err => cases h
    | ok a =>
      have h1 : missOf t e ≤ missOf t1 e := by have := missOf_mono hx t e; rw [hx'] at this; exact this
      dsimp only at h
      have := hf a t1 b t' h
      omega

theorem Loud.bind_left {e : Nat} {x : M α} {f : α → M β} (hx : Loud e x) (hf : ∀ a, Tr (f a)) : Loud e (x >>= f) := by
  intro t b t' h
  rw [runM_bind] at h
  cases hx' : runM x t with
  | mk ra t1 =>
    rw [hx'] at h
    cases ra with
    | error err => cases h
    | ok a =>
      have h1 := hx t a t1 hx'
      dsimp only at h
      have h2 : missOf t1 e ≤ missOf t' e := by have := missOf_mono (hf a) t1 e; rw [h] at this; exact this
      omega

theorem Loud.modifyFrame {e : Nat} {g : Frame → Frame} (hg : ∀ f, f.getMiss < (g f).getMiss) : Loud e (modifyFrame e g) := by
  intro t b t' h
  cases hte : t.frames[e]? with
  | none =>
    unfold Grol.E.modifyFrame at h
    rw [runM_bind, runM_getFrame_none hte] at h
    cases h
  | some f =>
    rw [runM_modifyFrame hte] at h
    cases h
    rw [missOf_setIfInBounds t e f _ hte]
    simp only [if_true]
    unfold missOf
    rw [hte]
    exact hg f

theorem Loud.triggerNoCache {e : Nat} : Loud e (triggerNoCache e) := by
  unfold Grol.E.triggerNoCache
  exact Loud.modifyFrame (fun f => Nat.lt_succ_self _)

theorem Loud.ite {e : Nat} {c : Prop} [Decidable c] {a b : M β} (ha : c → Loud e a) (hb : ¬ c → Loud e b) :
    Loud e (if c then a else b) := by
  split
  · exact ha ‹_›
  · exact hb ‹_›

/-! ### changing the quiet frame (nested calls) -/

/-- every normal run of `y` from `t` moves the miss counter of frame `e` -/
def LoudAt (e : Nat) (y : M β) (t : St) : Prop := ∀ b t', runM y t = (.ok b, t') → missOf t e < missOf t' e

theorem Loud.at {e : Nat} {y : M β} (h : Loud e y) (t : St) : LoudAt e y t := h t

theorem SimQ.loudAt {P : Qp} {x : M α} {y : M β} {s t : St} {Q : α → β → Prop} (h : LoudAt P.e y t) : SimQ P x y s t Q :=
  SimQ.of_loud (fun b t' hy => Nat.ne_of_gt (h b t' hy))

theorem LoudAt.modifyFrame_bind {e i : Nat} {g : Frame → Frame} {k : Unit → M γ} {t : St}
    (hm : ∀ f, f.getMiss ≤ (g f).getMiss)
    (h : ∀ f, t.frames[i]? = some f → LoudAt e (k ()) { t with frames := t.frames.setIfInBounds i (g f) }) :
    LoudAt e (modifyFrame i g >>= k) t := by
  intro b t' hr
  cases hf : t.frames[i]? with
  | none =>
    unfold Grol.E.modifyFrame at hr
    rw [runM_bind, runM_bind, runM_getFrame_none hf] at hr
    cases hr
  | some f =>
    rw [runM_bind, runM_modifyFrame hf] at hr
    have h1 := h f hf b t' hr
    rw [missOf_setIfInBounds t i f _ hf] at h1
    by_cases hei : e = i
    · subst hei
      simp only [if_true] at h1
      have : missOf t e = f.getMiss := by unfold missOf; rw [hf]
      have := hm f
      omega
    · simp only [hei, if_false] at h1
      exact h1

theorem LoudAt.bind_read {e : Nat} {y : M β} {g : β → M γ} {t : St} {b : β} (hy : runM y t = (.ok b, t))
    (h : LoudAt e (g b) t) : LoudAt e (y >>= g) t := by
  intro c t' hr
  rw [runM_bind, hy] at hr
  exact h c t' hr

theorem LoudAt.set_bind {e : Nat} {g : Unit → M γ} {t t1 : St} (hf : t1.frames = t.frames)
    (h : LoudAt e (g ()) t1) : LoudAt e (set t1 >>= g) t := by
  intro c t' hr
  rw [runM_bind, runM_set] at hr
  have := h c t' hr
  rw [missOf_congr hf] at this
  exact this

theorem SimG.bind_read {e : Nat} {R : St → St → Prop} {x : M α} {y : M β} {f : α → M γ} {g : β → M δ} {s t : St}
    {Q' : γ → δ → Prop} {a : α} {b : β}
    (hx : runM x s = (.ok a, s)) (hy : runM y t = (.ok b, t)) (h : SimG e R (f a) (g b) s t Q') :
    SimG e R (x >>= f) (y >>= g) s t Q' := by
  intro c t' hr hq
  rw [runM_bind, hy] at hr
  obtain ⟨c', s', h1, h2, h3⟩ := h c t' hr hq
  exact ⟨c', s', by rw [runM_bind, hx]; exact h1, h2, h3⟩

theorem SimG.set_bind {e : Nat} {R : St → St → Prop} {f : Unit → M γ} {g : Unit → M δ} {s t s1 t1 : St}
    {Q' : γ → δ → Prop} (hf : t1.frames = t.frames) (h : SimG e R (f ()) (g ()) s1 t1 Q') :
    SimG e R (set s1 >>= f) (set t1 >>= g) s t Q' := by
  intro c t' hr hq
  rw [runM_bind, runM_set] at hr
  obtain ⟨c', s', h1, h2, h3⟩ := h c t' hr (by rw [hq, missOf_congr hf])
  exact ⟨c', s', by rw [runM_bind, runM_set]; exact h1, h2, h3⟩

theorem SimG.modify_bind {e : Nat} {R : St → St → Prop} {f : Unit → M γ} {g : Unit → M δ} {s t : St}
    {ms mt : St → St} {Q' : γ → δ → Prop} (hf : (mt t).frames = t.frames) (h : SimG e R (f ()) (g ()) (ms s) (mt t) Q') :
    SimG e R (modify ms >>= f) (modify mt >>= g) s t Q' := by
  intro c t' hr hq
  rw [runM_bind, runM_modify] at hr
  obtain ⟨c', s', h1, h2, h3⟩ := h c t' hr (by rw [hq, missOf_congr hf])
  exact ⟨c', s', by rw [runM_bind, runM_modify]; exact h1, h2, h3⟩

/-- run `x`/`y` under the quietness of another frame `e'`: it suffices that when `y` moves the counter of `e'`
the continuation moves the counter of `e` -/
theorem SimG.switch {e e' : Nat} {R1 R2 : St → St → Prop} {x : M α} {y : M β} {f : α → M γ} {g : β → M δ} {s t : St}
    {Q : α → β → Prop} {Q' : γ → δ → Prop}
    (hx : SimG e' R1 x y s t Q)
    (hl : ∀ b t1, runM y t = (.ok b, t1) → missOf t1 e' ≠ missOf t e' → LoudAt e (g b) t1)
    (hf : ∀ a b s' t', R1 s' t' → Q a b → SimG e R2 (f a) (g b) s' t' Q')
    (ty : Tr y) (tg : ∀ b, Tr (g b)) :
    SimG e R2 (x >>= f) (y >>= g) s t Q' := by
  intro c t'' h hq
  rw [runM_bind] at h
  cases hy : runM y t with
  | mk rb t1 =>
    rw [hy] at h
    cases rb with
    | error err => cases h
    | ok b =>
      dsimp only at h
      have h1 : missOf t e ≤ missOf t1 e := by have := missOf_mono ty t e; rw [hy] at this; exact this
      have h2 : missOf t1 e ≤ missOf t'' e := by have := missOf_mono (tg b) t1 e; rw [h] at this; exact this
      by_cases hqb : missOf t1 e' = missOf t e'
      · obtain ⟨a, s1, hxs, hR1, hqab⟩ := hx b t1 hy hqb
        obtain ⟨c', s2, hfs, hR2, hqc⟩ := hf a b s1 t1 hR1 hqab c t'' h (by omega)
        refine ⟨c', s2, ?_, hR2, hqc⟩
        rw [runM_bind, hxs]
        exact hfs
      · have := hl b t1 hy hqb c t'' h
        omega

end Grol.R

import GrolProofs.ParseSafe
/-
C08, parser half: safety (no Go panic, invariant preserved) of the parse functions that are not
part of the mutually recursive group.
-/
namespace Grol.Parser
open Grol.Generated

variable {s : TokStream}


theorem safe_errorLine (hwf : StreamWF s) : Safe s (errorLine s) := by
  intro st hi
  unfold errorLine
  have h := (hwf (st.idx - 1)).1
  rw [← hi.peek] at h
  simp [h]
  exact ⟨hi, trivial⟩

theorem safe_noPrefix (hwf : StreamWF s) : Safe s (noPrefixParseFnError s) :=
  safe_bind (safe_errorLine hwf) fun _ => safe_pushErr _

theorem safe_peekError (hwf : StreamWF s) (t : TokType) (ht : (constLiteral t).isSome = true) : Safe s (peekError s t) := by
  unfold peekError
  refine safe_bind (safe_errorLine hwf) fun _ => ?_
  cases h : constLiteral t with
  | none => simp [h] at ht
  | some l => exact safe_pushErr _

theorem safeQ_expectPeek (hwf : StreamWF s) (t : TokType) (ht : (constLiteral t).isSome = true) :
    SafeQ s (fun b st' => b = true → st'.prev.isSome = true) (expectPeek s t) := by
  intro st hi
  unfold expectPeek
  show OKQ s _ (PM.bind getSt _ st)
  simp only [PM.bind, getSt]
  split
  · show OKQ s _ (PM.bind (nextToken s) _ st)
    simp only [PM.bind, nextToken]
    exact ⟨inv_nextToken hi, fun _ => rfl⟩
  · split
    · show OKQ s _ (PM.bind setCont _ st)
      simp only [PM.bind, setCont]
      exact ⟨⟨hi.idx, hi.cur, hi.peek, hi.nl⟩, fun h => by cases h⟩
    · have h := safe_peekError hwf t ht st hi
      show OKQ s _ (PM.bind (peekError s t) _ st)
      unfold PM.bind
      revert h
      cases peekError s t st with
      | ok r => obtain ⟨a, st'⟩ := r; intro h; exact ⟨h.1, fun h => by cases h⟩
      | goPanic p => exact id
      | outOfFuel => intro _; trivial

theorem safe_expectPeek (hwf : StreamWF s) (t : TokType) (ht : (constLiteral t).isSome = true) : Safe s (expectPeek s t) :=
  (safeQ_expectPeek hwf t ht).weaken


/-- every token type registered with parseComment is a comment token (generated table) -/
theorem parseComment_regs : ∀ t : TokType, lookup prefixRegs t = some .parseComment → t = .LINECOMMENT ∨ t = .BLOCKCOMMENT := by
  intro t; cases t <;> decide

theorem safe_parseComment (hwf : StreamWF s) (st : PState) (hi : Inv s st)
    (hc : st.cur.type = .LINECOMMENT ∨ st.cur.type = .BLOCKCOMMENT) : OKQ s (fun _ _ => True) (parseComment st) := by
  unfold parseComment
  show OKQ s _ (PM.bind getSt _ st)
  simp only [PM.bind, getSt]
  split
  · split
    · exact ⟨⟨hi.idx, hi.cur, hi.peek, hi.nl⟩, trivial⟩
    · exact ⟨hi, trivial⟩
  · rename_i hnb
    have hl : st.cur.type = .LINECOMMENT := by
      cases hc with
      | inl h => exact h
      | inr h => exact absurd h hnb
    have hw := (hwf (st.idx - 2)).2 (by rw [← hi.cur]; exact hl)
    have h2 := hi.idx
    have e : st.idx - 2 + 1 = st.idx - 1 := by omega
    rw [e, ← hi.peek, ← hi.nl] at hw
    split
    · rename_i hcond
      simp only [Bool.and_eq_true, Bool.not_eq_true', bne_iff_ne, ne_eq] at hcond
      obtain ⟨⟨h1, h2⟩, h3⟩ := hcond
      rcases hw with hw | hw | hw
      · rw [hw] at h1; cases h1
      · exact absurd hw h2
      · exact absurd hw h3
    · exact ⟨hi, trivial⟩

theorem safe_parsePostfix (st : PState) (hi : Inv s st) (hp : st.prev.isSome = true) :
    OKQ s (fun _ _ => True) (parsePostfixExpression st) := by
  unfold parsePostfixExpression
  show OKQ s _ (PM.bind getSt _ st)
  simp only [PM.bind, getSt]
  cases h : st.prev with
  | none => simp [h] at hp
  | some p => exact ⟨hi, trivial⟩

theorem safe_parseIdentifier : Safe s (parseIdentifier s) := by
  unfold parseIdentifier
  refine safe_bind safe_getSt fun st => ?_
  split
  · exact safe_bindQ safeQ_nextToken (fun _ st' hi' hq => safe_parsePostfix st' hi' hq)
  · exact safe_pure _

theorem safe_parseFloatLiteral (hwf : StreamWF s) : Safe s (parseFloatLiteral s) := by
  unfold parseFloatLiteral
  refine safe_getSt_bind fun st hi => ?_
  split
  · exact ⟨hi, trivial⟩
  · exact safe_bind (safe_errorLine hwf) (fun _ => safe_bind (safe_pushErr _) fun _ => safe_pure _) st hi

theorem safe_parseIntegerLiteral (hwf : StreamWF s) : Safe s (parseIntegerLiteral s) := by
  unfold parseIntegerLiteral
  refine safe_getSt_bind fun st hi => ?_
  split
  · exact ⟨hi, trivial⟩
  · exact safe_parseFloatLiteral hwf st hi

theorem safe_parseBoolean : Safe s parseBoolean := safe_bind safe_getSt fun _ => safe_pure _
theorem safe_parseStringLiteral : Safe s parseStringLiteral := safe_bind safe_getSt fun _ => safe_pure _
theorem safe_parseControlExpression : Safe s parseControlExpression := safe_bind safe_getSt fun _ => safe_pure _

theorem safe_mapPairError (hwf : StreamWF s) : Safe s (mapPairError s) := by
  unfold mapPairError
  refine safe_bind safe_getSt fun st => ?_
  dsimp only
  split
  · exact safe_bind safe_setCont fun _ => safe_pure _
  · exact safe_bind (safe_peekError hwf _ (by decide)) fun _ => safe_pure _

theorem safe_parameter (hwf : StreamWF s) : Safe s (parameter s) := by
  unfold parameter
  exact safe_bind safe_getSt fun st => safe_pure _

theorem safe_parseFunctionParametersLoop (hwf : StreamWF s) (fuel : Nat) : ∀ acc, Safe s (parseFunctionParametersLoop s fuel acc) := by
  induction fuel with
  | zero => intro acc; unfold parseFunctionParametersLoop; exact safe_outOfFuel
  | succ n ih =>
    intro acc
    unfold parseFunctionParametersLoop
    refine safe_bind safe_getSt fun st => ?_
    split
    · exact safe_bind safe_nextToken fun _ => safe_bind safe_nextToken fun _ => safe_bind (safe_parameter hwf) fun _ => ih _
    · exact safe_pure _

theorem safe_parseFunctionParameters (hwf : StreamWF s) (fuel : Nat) : Safe s (parseFunctionParameters s fuel) := by
  unfold parseFunctionParameters
  refine safe_bind safe_getSt fun st => ?_
  split
  · exact safe_bind safe_nextToken fun _ => safe_pure _
  · refine safe_bind safe_nextToken fun _ => safe_bind (safe_parameter hwf) fun _ =>
      safe_bind (safe_parseFunctionParametersLoop hwf fuel _) fun ids => ?_
    refine safe_bind (safe_expectPeek hwf .RPAREN (by decide)) fun b => ?_
    cases b with
    | false => exact safe_pure _
    | true =>
      simp only [Bool.not_true, Bool.false_eq_true, if_false]
      split
      · exact safe_pure _
      · exact safe_bind (safe_errorLine hwf) fun _ => safe_bind (safe_pushErr _) fun _ => safe_pure _

theorem okParamList_ne_none : ∀ l : NList, okParamList l ≠ none := by
  intro l
  induction l with
  | nil => simp [okParamList]
  | cons x xs ih =>
    cases x with
    | none => simp [okParamList]
    | some n =>
      unfold okParamList
      dsimp only
      split
      · simp
      · split
        · simp
        · exact ih

end Grol.Parser

import GrolProofs.RenQOps
/-
C04 (B1), part 3: the non recursive helpers of lean/Grol/Eval/Eval.lean in the quiet simulation.
-/
namespace Grol.R
open Grol.E

/-- inside the body of the quiet call the current frame is the quiet frame, a new frame -/
theorem StRq.curE {P : Qp} {s t : St} (hR : StRq P s t) (hp : ¬ P.pre) : t.cur = P.e ∧ P.σ.n0 ≤ t.cur := by
  rcases hR.enew with h | h
  · exact absurd h hp
  · exact ⟨hR.curq, by rw [hR.curq]; exact h⟩

/-- both runs read their current scope -/
theorem qsim_curEnv_bind {P : Qp} {s t : St} (hR : StRq P s t) {f g : Nat → M α} {Q : α → α → Prop}
    (h : SimQ P (f (sh P.σ t.cur)) (g t.cur) s t Q) : SimQ P (curEnv >>= f) (curEnv >>= g) s t Q := by
  refine SimQ.bind_read (runM_curEnv' s) (runM_curEnv' t) ?_
  rw [hR.cur]; exact h

theorem qsim_writeOut {P : Qp} {s t : St} (hR : StRq P s t) (b : List UInt8) :
    SimQ P (writeOut b) (writeOut b) s t (fun _ _ => True) := by
  intro u t' hy _
  unfold writeOut at hy ⊢
  rw [runM_modify] at hy
  cases hy
  refine ⟨(), _, runM_modify _ _, ?_, trivial⟩
  rw [hR.outs]
  cases t.outs with
  | nil => exact { hR with outs := rfl }
  | cons o rest => exact { hR with outs := rfl }

theorem qsim_noteHazard {P : Qp} {s t : St} (hR : StRq P s t) (c : Bool) (k n : String) :
    SimQ P (noteHazard c k n) (noteHazard c k n) s t (fun _ _ => True) := by
  unfold noteHazard
  refine SimQ.ite (fun _ => ?_) (fun _ => SimQ.pure hR trivial)
  intro u t' hy _
  rw [runM_modify] at hy
  cases hy
  exact ⟨(), _, runM_modify _ _, { hR with }, trivial⟩

theorem qsim_noteHazard_bind {P : Qp} {s t : St} (hR : StRq P s t) (c : Bool) (k n : String)
    {f g : Unit → M α} {Q : α → α → Prop} (h : ∀ s' t', StRq P s' t' → SimQ P (f ()) (g ()) s' t' Q)
    (tg : ∀ b, Tr (g b) := by tr_ih) :
    SimQ P (noteHazard c k n >>= f) (noteHazard c k n >>= g) s t Q :=
  SimQ.bind (qsim_noteHazard hR c k n) (fun _ _ s' t' hR' _ => h s' t' hR') (by tr) tg

theorem qsim_evalIdentifier {P : Qp} {s t : St} (hR : StRq P s t) (hp : ¬ P.pre) (name : String) :
    SimQ P (evalIdentifier name) (evalIdentifier name) s t (QOq P) := by
  unfold evalIdentifier
  refine SimQ.bind_read (runM_get s) (runM_get t) ?_
  rw [hR.extNames, hR.cur]
  refine SimQ.ite (fun _ => SimQ.pure hR ⟨rfl, trivial⟩) (fun _ => ?_)
  obtain ⟨hce, hcn⟩ := hR.curE hp
  refine SimQ.bind (qsim_envGet hR t.cur name hcn (Or.inr hce)) ?_
  rintro _ r s' t' hR' ⟨rfl, hc⟩
  cases r with
  | none => exact SimQ.pure hR' ⟨rfl, trivial⟩
  | some v => exact SimQ.pure hR' ⟨rfl, hc v rfl⟩

/-- `if oerr.isError then pure oerr else pure v` -/
theorem qsim_errOr {P : Qp} {s t : St} (hR : StRq P s t) (oerr v : Obj) (hco : clean P oerr) (hcv : clean P v) :
    SimQ P (if (ren P.σ oerr).isError = true then pure (ren P.σ oerr) else pure (ren P.σ v) : M Obj)
      (if oerr.isError = true then pure oerr else pure v) s t (QOq P) := by
  rw [ren_isError]
  exact SimQ.ite (fun _ => SimQ.pure hR ⟨rfl, hco⟩) (fun _ => SimQ.pure hR ⟨rfl, hcv⟩)

theorem qsim_evalPrefixIncrDecr {P : Qp} {s t : St} (hR : StRq P s t) (hp : ¬ P.pre) (op : String) (node : Node) :
    SimQ P (evalPrefixIncrDecr op node) (evalPrefixIncrDecr op node) s t (QOq P) := by
  unfold evalPrefixIncrDecr
  obtain ⟨hce, hcn⟩ := hR.curE hp
  split
  · next id =>
    refine qsim_curEnv_bind hR ?_
    refine SimQ.bind (qsim_envGet hR t.cur id hcn (Or.inr hce)) ?_
    rintro _ r s1 t1 hR1 ⟨rfl, hc⟩
    cases r with
    | none => exact SimQ.pure hR1 ⟨rfl, trivial⟩
    | some val =>
      simp only [Option.map]
      refine SimQ.bind (qsim_valueOf hR1 val (hc val rfl)) ?_
      rintro _ v s2 t2 hR2 ⟨rfl, _, _⟩
      rw [incrValue_ren]
      cases hi : incrValue v (if (op == "DECR") = true then -1 else 1) with
      | none => exact SimQ.pure hR2 ⟨rfl, trivial⟩
      | some nv => exact qsim_envSet hR2 t.cur id nv hcn hce (clean_incrValue v _ nv hi)
  · exact SimQ.pure hR ⟨rfl, trivial⟩

theorem qsim_evalPostfix {P : Qp} {s t : St} (hR : StRq P s t) (hp : ¬ P.pre) (op : String) (id : String) :
    SimQ P (evalPostfix op id) (evalPostfix op id) s t (QOq P) := by
  unfold evalPostfix
  obtain ⟨hce, hcn⟩ := hR.curE hp
  refine qsim_curEnv_bind hR ?_
  refine SimQ.bind (qsim_envGet hR t.cur id hcn (Or.inr hce)) ?_
  rintro _ r s1 t1 hR1 ⟨rfl, hc⟩
  cases r with
  | none => exact SimQ.pure hR1 ⟨rfl, trivial⟩
  | some val =>
    simp only [Option.map]
    refine SimQ.bind (qsim_valueOf hR1 val (hc val rfl)) ?_
    rintro _ v s2 t2 hR2 ⟨rfl, _, hcv⟩
    try dsimp only
    split
    · exact SimQ.pure hR2 ⟨rfl, trivial⟩
    · next toAdd _ =>
      rw [incrValue_ren]
      cases hi : incrValue v toAdd with
      | none => exact SimQ.pure hR2 ⟨rfl, trivial⟩
      | some nv =>
        simp only [Option.map]
        refine SimQ.bind (qsim_envSet hR2 t.cur id nv hcn hce (clean_incrValue v _ nv hi)) ?_
        rintro _ oerr s3 t3 hR3 ⟨rfl, hco⟩
        exact qsim_errOr hR3 oerr v hco hcv

theorem qsim_evalIndexAssignment {P : Qp} {s t : St} (hR : StRq P s t) (hp : ¬ P.pre) (which : Node) (index value : Obj)
    (hci : clean P index) (hcv : clean P value) :
    SimQ P (evalIndexAssignment which (ren P.σ index) (ren P.σ value)) (evalIndexAssignment which index value) s t
      (QOq P) := by
  unfold evalIndexAssignment
  obtain ⟨hce, hcn⟩ := hR.curE hp
  refine SimQ.bind (qsim_valueOf hR index hci) ?_
  rintro _ index s0 t0 hR0 ⟨rfl, _, hci⟩
  refine SimQ.bind (qsim_valueOf hR0 value hcv) ?_
  rintro _ value s0' t0' hR0' ⟨rfl, _, hcv⟩
  obtain ⟨hce', hcn'⟩ := hR0'.curE hp
  split
  · next id =>
    refine qsim_curEnv_bind hR0' ?_
    refine SimQ.bind (qsim_envGet hR0' t0'.cur id hcn' (Or.inr hce')) ?_
    rintro _ r s1 t1 hR1 ⟨rfl, hc⟩
    cases r with
    | none => exact SimQ.pure hR1 ⟨rfl, trivial⟩
    | some val =>
      simp only [Option.map]
      refine SimQ.bind (qsim_valueOf hR1 val (hc val rfl)) ?_
      rintro _ v s2 t2 hR2 ⟨rfl, _, hcvv⟩
      cases v with
      | array els =>
        simp only [ren, int64Value_ren, renL_length]
        cases int64Value index with
        | none => exact SimQ.pure hR2 ⟨rfl, trivial⟩
        | some idx =>
          dsimp only
          refine SimQ.ite (fun _ => SimQ.pure hR2 ⟨rfl, trivial⟩) (fun _ => ?_)
          refine SimQ.bind_read (runM_get s2) (runM_get t2) ?_
          rw [hR2.cfg]
          refine qsim_noteHazard_bind hR2 _ _ _ (fun s3 t3 hR3 => ?_)
          have := qsim_envSet hR3 t0'.cur id (newArray (els.set (if idx < 0 then (els.length : Int) + idx.toInt else idx.toInt).toNat value))
            hcn' hce' (cleanL_set (clean_arr hcvv) _ hcv)
          simp only [newArray, ren, renL_set] at this
          refine SimQ.bind this ?_
          rintro _ oerr s4 t4 hR4 ⟨rfl, hco⟩
          exact qsim_errOr hR4 oerr value hco hcv
      | map big kvs =>
        simp only [ren]
        refine SimQ.bind_read (runM_get s2) (runM_get t2) ?_
        rw [hR2.cfg, mapSet_ren]
        refine SimQ.bind (Q := fun a b => a = (b.1, renP P.σ b.2) ∧ cleanP P b.2)
          (SimQ.liftR' (f := fun p => (p.1, renP P.σ p.2)) hR2 rfl
            (fun b hb => ⟨rfl, mapSet_clean (clean_mp hcvv) hci hcv hb⟩)) ?_
        rintro _ ⟨big', kvs'⟩ s3 t3 hR3 ⟨rfl, hck⟩
        dsimp only
        refine qsim_noteHazard_bind hR3 _ _ _ (fun s4 t4 hR4 => ?_)
        have := qsim_envSet hR4 t0'.cur id (.map big' kvs') hcn' hce' hck
        simp only [ren] at this
        refine SimQ.bind this ?_
        rintro _ oerr s5 t5 hR5 ⟨rfl, hco⟩
        exact qsim_errOr hR5 oerr value hco hcv
      | _ => all_goals exact SimQ.pure hR2 ⟨rfl, trivial⟩
  · exact SimQ.pure hR0' ⟨rfl, trivial⟩

theorem qsim_deleteMapEntry {P : Qp} {s t : St} (hR : StRq P s t) (hp : ¬ P.pre) (left : Node) (index : Obj) :
    SimQ P (deleteMapEntry left (ren P.σ index)) (deleteMapEntry left index) s t (QOq P) := by
  unfold deleteMapEntry
  obtain ⟨hce, hcn⟩ := hR.curE hp
  split
  · next id =>
    refine qsim_curEnv_bind hR ?_
    refine SimQ.bind (qsim_envGet hR t.cur id hcn (Or.inr hce)) ?_
    rintro _ r s1 t1 hR1 ⟨rfl, hc⟩
    cases r with
    | none => exact SimQ.pure hR1 ⟨rfl, trivial⟩
    | some obj0 =>
      simp only [Option.map]
      refine SimQ.bind (qsim_valueOf hR1 obj0 (hc obj0 rfl)) ?_
      rintro _ obj s1' t1' hR1 ⟨rfl, _, hco⟩
      cases obj with
      | map big kvs =>
        simp only [ren]
        rw [mapDelete_ren]
        refine SimQ.bind (Q := fun a b => a = b.map (renP P.σ) ∧ ∀ l, b = some l → cleanP P l)
          (SimQ.liftR' (f := Option.map (renP P.σ)) hR1 rfl
            (fun b hb => ⟨rfl, fun l hl => mapDelete_clean (clean_mp hco) (by rw [hb, hl])⟩)) ?_
        rintro _ r2 s2 t2 hR2 ⟨rfl, hc2⟩
        cases r2 with
        | none => exact SimQ.pure hR2 ⟨rfl, trivial⟩
        | some kvs' =>
          simp only [Option.map]
          refine qsim_noteHazard_bind hR2 _ _ _ (fun s3 t3 hR3 => ?_)
          have := qsim_envSet hR3 t.cur id (.map big kvs') hcn hce (hc2 kvs' rfl)
          simp only [ren] at this
          refine SimQ.bind this ?_
          rintro _ oerr s4 t4 hR4 ⟨rfl, hcoe⟩
          exact qsim_errOr hR4 oerr (.bool true) hcoe trivial
      | _ => all_goals exact SimQ.pure hR1 ⟨rfl, trivial⟩
  · exact SimQ.pure hR ⟨rfl, trivial⟩

theorem qsim_derefList {P : Qp} : ∀ (l : List Obj) (s t : St), StRq P s t → cleanL P l →
    SimQ P (derefList (renL P.σ l)) (derefList l) s t (fun a b => a = renL P.σ b ∧ cleanL P b)
  | [], s, t, hR, _ => SimQ.pure hR ⟨rfl, trivial⟩
  | x :: xs, s, t, hR, hc => by
    simp only [renL]
    unfold derefList
    refine SimQ.bind (qsim_valueOf hR x hc.1) ?_
    rintro _ v s1 t1 hR1 ⟨rfl, _, hcv⟩
    refine SimQ.bind (qsim_derefList xs s1 t1 hR1 hc.2) ?_
    rintro _ vs s2 t2 hR2 ⟨rfl, hcvs⟩
    exact SimQ.pure hR2 ⟨rfl, hcv, hcvs⟩

/-! ### the cache is off -/

theorem qsim_cacheGet {P : Qp} {s t : St} (hR : StRq P s t) (key : String) (args args' : List Obj) :
    SimQ P (cacheGet key args') (cacheGet key args) s t (fun a b => a = none ∧ b = none) := by
  unfold cacheGet
  refine SimQ.bind_read (runM_get s) (runM_get t) ?_
  rw [hR.cfg, hR.off]
  exact SimQ.pure hR ⟨rfl, rfl⟩

theorem qsim_cacheSet {P : Qp} {s t : St} (hR : StRq P s t) (key : String) (args args' : List Obj) (res res' : Obj)
    (output : List UInt8) :
    SimQ P (cacheSet key args' res' output) (cacheSet key args res output) s t (fun _ _ => True) := by
  unfold cacheSet
  refine SimQ.bind_read (runM_get s) (runM_get t) ?_
  rw [hR.cfg, hR.off]
  exact SimQ.pure hR trivial

/-! ### calls -/

theorem qsim_newFrame {P : Qp} {s t : St} (hR : StRq P s t) {nfs nft : Frame}
    (hfr : FrQ P t.frames.size nfs nft) (hdec : FrameDec t.frames.size nft) :
    SimQ P (newFrame nfs) (newFrame nft) s t (fun a b => a = sh P.σ b ∧ P.σ.n0 ≤ b) := by
  intro b t' hy _
  unfold newFrame at hy ⊢
  rw [runM_bind, runM_get] at hy
  dsimp only at hy
  rw [runM_bind, runM_set] at hy
  dsimp only at hy
  rw [runM_pure] at hy
  cases hy
  have hsz : sh P.σ t.frames.size = s.frames.size := by rw [sh_of_ge P.σ hR.n0, hR.size]
  refine ⟨s.frames.size, { s with frames := s.frames.push nfs }, rfl, ?_, hsz.symm, hR.n0⟩
  refine { hR with size := ?_, n0 := ?_, frames := ?_, dec := ?_ }
  · simp only [Array.size_push]; rw [hR.size]; omega
  · simp only [Array.size_push]; exact Nat.le_succ_of_le hR.n0
  · intro i fi hi
    simp only [Array.getElem?_push] at hi ⊢
    by_cases hit : i = t.frames.size
    · subst hit
      simp only [if_true] at hi
      cases hi
      exact ⟨nfs, by simp [hsz], hfr⟩
    · simp only [hit, if_false] at hi
      obtain ⟨fsi, hfsi, hfri⟩ := hR.frames i fi hi
      refine ⟨fsi, ?_, hfri⟩
      have : sh P.σ i ≠ s.frames.size := by
        have := lt_of_frame hfsi
        omega
      simp only [this, if_false]
      exact hfsi
  · intro i fi hi
    simp only [Array.getElem?_push] at hi
    by_cases hit : i = t.frames.size
    · subst hit
      simp only [if_true] at hi
      cases hi
      exact hdec
    · simp only [hit, if_false] at hi
      exact hR.dec i fi hi

theorem qsim_bindParams {P : Qp} (nenv : Nat) (hn : P.σ.n0 ≤ nenv) : ∀ (l : List (String × Obj)) (s t : St), StRq P s t →
    (∀ pa ∈ l, clean P pa.2) →
    SimQ P (bindParams (sh P.σ nenv) (l.map fun pa => (pa.1, ren P.σ pa.2))) (bindParams nenv l) s t (QOptq P)
  | [], s, t, hR, _ => SimQ.pure hR ⟨rfl, fun _ h => by cases h⟩
  | (p, a) :: rest, s, t, hR, hc => by
    simp only [List.map_cons]
    unfold bindParams
    refine SimQ.bind (qsim_valueOf hR a (hc (p, a) List.mem_cons_self)) ?_
    rintro _ v s1 t1 hR1 ⟨rfl, _, hcv⟩
    have hrest : ∀ s1 t1, StRq P s1 t1 → SimQ P (do
          let oerr ← createOrSet (sh P.σ nenv) p (ren P.σ v) true
          if oerr.isError = true then pure (some oerr)
            else bindParams (sh P.σ nenv) (List.map (fun pa => (pa.fst, ren P.σ pa.snd)) rest))
        (do
          let oerr ← createOrSet nenv p v true
          if oerr.isError = true then pure (some oerr) else bindParams nenv rest) s1 t1 (QOptq P) := by
      intro s1 t1 hR1
      refine SimQ.bind (qsim_createOrSet hR1 nenv p v true hn (Or.inl rfl) hcv) ?_
      rintro _ oerr s2 t2 hR2 ⟨rfl, hco⟩
      rw [ren_isError]
      exact SimQ.ite (fun _ => SimQ.pure hR2 ⟨rfl, fun v h => by cases h; exact hco⟩)
        (fun _ => qsim_bindParams nenv hn rest s2 t2 hR2 (fun pa h => hc pa (List.mem_cons_of_mem _ h)))
    dsimp only
    refine SimQ.ite (fun _ => ?_) (fun _ => hrest s1 t1 hR1)
    exact SimQ.bind (qsim_triggerNoCache hR1 nenv) (fun _ _ s2 t2 hR2 _ => hrest s2 t2 hR2)

theorem cleanL_expandLast {P : Qp} {args : List Obj} (h : cleanL P args) : cleanL P (expandLast args) := by
  unfold expandLast
  cases hl : args.getLast? with
  | none => exact h
  | some last =>
    cases last with
    | array els =>
      dsimp only
      refine cleanL_append ?_ ?_
      · rw [cleanL_iff] at *
        exact fun x hx => h x (List.dropLast_subset _ hx)
      · exact clean_arr ((cleanL_iff.1 h) _ (List.mem_of_getLast? hl))
    | _ => all_goals exact h

theorem cleanL_cutArgs {P : Qp} (p : List String) {A : List Obj} (k : Nat) (h : cleanL P A) :
    cleanL P (cutArgs p A k).2.1 ∧ cleanL P (cutArgs p A k).2.2 := by
  unfold cutArgs
  split
  · exact ⟨cleanL_take h k, cleanL_drop h k⟩
  · exact ⟨h, trivial⟩

theorem cleanL_splitArgs {P : Qp} (f : FuncVal) {args : List Obj} (h : cleanL P args) :
    cleanL P (splitArgs f args).2.1 ∧ cleanL P (splitArgs f args).2.2 := by
  rw [splitArgs_eq]
  cases f.variadic with
  | true => simp only [if_true]; exact cleanL_cutArgs _ _ (cleanL_expandLast h)
  | false => exact ⟨h, trivial⟩

theorem qsim_extendFunctionEnv {P : Qp} {s t : St} (hR : StRq P s t) (f : FuncVal) (args : List Obj)
    (hca : cleanL P args) :
    SimQ P (extendFunctionEnv (renFn P.σ f) (renL P.σ args)) (extendFunctionEnv f args) s t
      (fun a b => a = renX P.σ b ∧ (∀ n, b = .ok n → P.σ.n0 ≤ n) ∧ ∀ e, b = .error e → clean P e) := by
  unfold extendFunctionEnv
  refine qsim_curEnv_bind hR ?_
  refine qsim_getFrame_bind hR t.cur ?_
  intro cfs cft hcte _ hcfr
  dsimp only
  have hk : (renFn P.σ f).key = f.key := rfl
  have hv : (renFn P.σ f).variadic = f.variadic := rfl
  have he : (renFn P.σ f).env = sh P.σ f.env := rfl
  rw [sameFunction_ren P.σ hcfr.cacheKey hcfr.function f, hk, hv, he]
  have hpar : (if (sameFunction cft f) = true then sh P.σ t.cur else sh P.σ f.env) =
      sh P.σ (if (sameFunction cft f) = true then t.cur else f.env) := by split <;> rfl
  rw [hpar]
  generalize (if (sameFunction cft f) = true then t.cur else f.env) = parent
  refine qsim_getFrame_bind hR parent ?_
  intro pfs pft hpte _ hpfr
  rw [hpfr.depth]
  refine SimQ.bind (qsim_newFrame hR ?_ ?_) ?_
  · have hnd : ∀ n, ¬ P.D t.frames.size n := fun n h => absurd (hR.dlt _ n h) (by have := hR.n0; omega)
    exact ⟨rfl, rfl, rfl, rfl, fun _ _ => rfl, fun _ _ _ h => (by cases h), fun n h => absurd h (hnd n),
      fun _ => ⟨rfl, rfl⟩, fun h => absurd h (by have := hR.n0; omega), (by simp only [hcfr.localFunc]), fun n h => absurd h (hnd n)⟩
  · refine ⟨?_, fun k e n h => by cases h⟩
    intro o ho
    cases ho
    exact lt_of_frame hpte
  rintro _ nenv s1 t1 hR1 ⟨rfl, hn0⟩
  -- everything after the (dereferenced) argument list is known
  have hrest : ∀ (A : List Obj) (s2 t2 : St), StRq P s2 t2 → cleanL P A →
      SimQ P
        (if ((splitArgs (renFn P.σ f) (renL P.σ A)).2.fst.length != (splitArgs (renFn P.σ f) (renL P.σ A)).fst.length) = true then
            pure (Except.error (err "wrong number of arguments"))
          else do
            let __do_lift ← bindParams (sh P.σ nenv)
              ((splitArgs (renFn P.σ f) (renL P.σ A)).fst.zip (splitArgs (renFn P.σ f) (renL P.σ A)).2.fst)
            match __do_lift with
              | some oerr => pure (Except.error oerr)
              | none =>
                if f.variadic = true then do
                  let _ ← setNoChecks (sh P.σ nenv) ".." (newArray (splitArgs (renFn P.σ f) (renL P.σ A)).2.snd) true
                  pure (Except.ok (sh P.σ nenv))
                else pure (Except.ok (sh P.σ nenv)))
        (if ((splitArgs f A).2.fst.length != (splitArgs f A).fst.length) = true then
            pure (Except.error (err "wrong number of arguments"))
          else do
            let __do_lift ← bindParams nenv ((splitArgs f A).fst.zip (splitArgs f A).2.fst)
            match __do_lift with
              | some oerr => pure (Except.error oerr)
              | none =>
                if f.variadic = true then do
                  let _ ← setNoChecks nenv ".." (newArray (splitArgs f A).2.snd) true
                  pure (Except.ok nenv)
                else pure (Except.ok nenv)) s2 t2
        (fun a b => a = renX P.σ b ∧ (∀ n, b = .ok n → P.σ.n0 ≤ n) ∧ ∀ e, b = .error e → clean P e) := by
    intro A s2 t2 hR2 hcA
    obtain ⟨hc1, hc2⟩ := cleanL_splitArgs f hcA
    rw [splitArgs_ren]
    dsimp only
    rw [renL_length, zip_ren]
    have hok : (Except.ok (sh P.σ nenv) : Except Obj Nat) = renX P.σ (Except.ok nenv) ∧
        (∀ n, (Except.ok nenv : Except Obj Nat) = .ok n → P.σ.n0 ≤ n) ∧
        ∀ e, (Except.ok nenv : Except Obj Nat) = .error e → clean P e :=
      ⟨rfl, fun n h => (by cases h; exact hn0), fun e h => (by cases h)⟩
    refine SimQ.ite (fun _ => SimQ.pure hR2 ⟨rfl, fun n h => (by cases h), fun e h => (by cases h; trivial)⟩) (fun _ => ?_)
    refine SimQ.bind (qsim_bindParams nenv hn0 _ s2 t2 hR2 ?_) ?_
    · intro pa hpa
      exact (cleanL_iff.1 hc1) _ (List.of_mem_zip hpa).2
    rintro _ r s3 t3 hR3 ⟨rfl, hcr⟩
    cases r with
    | some oerr => exact SimQ.pure hR3 ⟨rfl, fun n h => (by cases h), fun e h => (by cases h; exact hcr oerr rfl)⟩
    | none =>
      simp only [Option.map]
      refine SimQ.ite (fun _ => ?_) (fun _ => SimQ.pure hR3 hok)
      have := qsim_setNoChecks hR3 nenv ".." (newArray (splitArgs f A).2.snd) true hn0 (Or.inl rfl) hc2
      simp only [newArray, ren] at this
      refine SimQ.bind this ?_
      intro _ _ s4 t4 hR4 _
      exact SimQ.pure hR4 hok
  refine SimQ.ite (fun _ => ?_) (fun _ => ?_)
  · rw [renL_getLast?]
    cases hl : args.getLast? with
    | none =>
      simp only [Option.map]
      refine SimQ.bind_read (runM_pure _ s1) (runM_pure _ t1) ?_
      exact hrest args s1 t1 hR1 hca
    | some last =>
      simp only [Option.map]
      refine SimQ.bind (qsim_valueOf hR1 last ((cleanL_iff.1 hca) _ (List.mem_of_getLast? hl))) ?_
      rintro _ v s2 t2 hR2 ⟨rfl, _, hcv⟩
      refine SimQ.bind_read (runM_pure _ s2) (runM_pure _ t2) ?_
      have := hrest (args.dropLast ++ [v]) s2 t2 hR2
        (cleanL_append (cleanL_iff.2 (fun x hx => (cleanL_iff.1 hca) x (List.dropLast_subset _ hx))) ⟨hcv, trivial⟩)
      rw [renL_append] at this
      simp only [renL] at this
      rw [renL_dropLast]
      exact this
  · refine SimQ.bind_read (runM_pure _ s1) (runM_pure _ t1) ?_
    exact hrest args s1 t1 hR1 hca

theorem qsim_finishCall {P : Qp} {s t : St} (hR : StRq P s t) (f : FuncVal) (args : List Obj) (curState before after : Nat)
    (cantCache : Bool) (res : Obj) (output : List UInt8) (hcr : clean P res) :
    SimQ P (finishCall (renFn P.σ f) (renL P.σ args) (sh P.σ curState) before after cantCache (ren P.σ res) output)
      (finishCall f args curState before after cantCache res output) s t (QOq P) := by
  unfold finishCall
  have hk : (renFn P.σ f).key = f.key := rfl
  rw [hk, ren_isError, holdsFunc_ren]
  have hres : QOq P (ren P.σ res) res := ⟨rfl, hcr⟩
  have hjp : ∀ s1 t1, StRq P s1 t1 →
      SimQ P
        (if (after != before) = true then do
            triggerNoCache (sh P.σ curState)
            pure (ren P.σ res)
          else
            if res.isError = true then pure (ren P.σ res)
            else
              if holdsFunc res = true then pure (ren P.σ res)
              else do
                cacheSet f.key (renL P.σ args) (ren P.σ res) output
                pure (ren P.σ res))
        (if (after != before) = true then do
            triggerNoCache curState
            pure res
          else
            if res.isError = true then pure res
            else
              if holdsFunc res = true then pure res
              else do
                cacheSet f.key args res output
                pure res) s1 t1 (QOq P) := by
    intro s1 t1 hR1
    refine SimQ.ite (fun _ => ?_) (fun _ => ?_)
    · exact SimQ.bind (qsim_triggerNoCache hR1 curState) (fun _ _ s2 t2 hR2 _ => SimQ.pure hR2 hres)
    · refine SimQ.ite (fun _ => SimQ.pure hR1 hres) (fun _ => ?_)
      refine SimQ.ite (fun _ => SimQ.pure hR1 hres) (fun _ => ?_)
      exact SimQ.bind (qsim_cacheSet hR1 f.key args _ res _ output) (fun _ _ s2 t2 hR2 _ => SimQ.pure hR2 hres)
  dsimp only
  refine SimQ.ite (fun _ => ?_) (fun _ => hjp s t hR)
  exact SimQ.bind (qsim_writeOut hR output) (fun _ _ s1 t1 hR1 _ => hjp s1 t1 hR1)

end Grol.R

import Grol.Lexer
/-
C16 lemmas, part 1: the scanning loops of the lexer model (`scanLoop`, `skipWsLoop`,
`readStringLoop`, `blockLoop`): where they stop, what they passed over, that the fuel given by
their callers cannot run out, and that they leave input and mode untouched.
-/
namespace Grol.Lexer
open Grol.Token

theorem peekAt_of_ge {input : Array UInt8} {p : Nat} (h : input.size ≤ p) : peekAt input p = 0 := by
  unfold peekAt
  rw [Array.getElem?_eq_none h]; rfl

theorem lt_size_of_peekAt_ne_zero {input : Array UInt8} {p : Nat} (h : peekAt input p ≠ 0) :
    p < input.size := by
  apply Classical.byContradiction
  intro hn
  exact h (peekAt_of_ge (Nat.le_of_not_lt hn))

theorem peekAt_of_lt {input : Array UInt8} {p : Nat} (h : p < input.size) : peekAt input p = input[p] := by
  unfold peekAt
  rw [Array.getElem?_eq_getElem h]; rfl

/-! ### scanLoop -/

structure ScanSpec (p : UInt8 → Bool) (input : Array UInt8) (pos r : Nat) : Prop where
  ge : pos ≤ r
  le : r ≤ input.size
  all : ∀ i, pos ≤ i → i < r → p (peekAt input i) = true
  stop : p (peekAt input r) = false

theorem scanLoop_spec (p : UInt8 → Bool) (hp0 : p 0 = false) (input : Array UInt8) :
    ∀ fuel pos, pos ≤ input.size → input.size ≤ pos + fuel →
      ScanSpec p input pos (scanLoop p input fuel pos) := by
  intro fuel
  induction fuel with
  | zero =>
    intro pos h1 h2
    have : pos = input.size := by omega
    unfold scanLoop
    exact ⟨Nat.le_refl _, h1, fun i a b => by omega, by rw [peekAt_of_ge (by omega)]; exact hp0⟩
  | succ f ih =>
    intro pos h1 h2
    unfold scanLoop
    split
    · rename_i hc
      have hlt : pos < input.size := lt_size_of_peekAt_ne_zero (fun h0 => by rw [h0, hp0] at hc; cases hc)
      have r := ih (pos + 1) hlt (by omega)
      refine ⟨by have := r.ge; omega, r.le, ?_, r.stop⟩
      intro i hi1 hi2
      by_cases hi : i = pos
      · subst hi; exact hc
      · exact r.all i (by omega) hi2
    · rename_i hc
      exact ⟨Nat.le_refl _, h1, fun i a b => by omega, by simpa using hc⟩

theorem scanWhile_spec (p : UInt8 → Bool) (hp0 : p 0 = false) (input : Array UInt8) (pos : Nat)
    (h : pos ≤ input.size) : ScanSpec p input pos (scanWhile p input pos) :=
  scanLoop_spec p hp0 input _ pos h (by omega)

/-! ### skipWhitespace -/

structure SkipSpec (s s1 : State) : Prop where
  input : s1.input = s.input
  mode : s1.lineMode = s.lineMode
  ge : s.pos ≤ s1.pos
  le : s1.pos ≤ s.input.size ∨ s1.pos = s.pos
  gap : ∀ i, s.pos ≤ i → i < s1.pos → isWhiteSpace (peekAt s.input i) = true
  stop : isWhiteSpace (peekAt s.input s1.pos) = false

theorem skipWsLoop_spec : ∀ fuel (s : State), s.input.size ≤ s.pos + fuel →
    SkipSpec s (skipWsLoop fuel s) := by
  intro fuel
  induction fuel with
  | zero =>
    intro s h
    unfold skipWsLoop
    exact ⟨rfl, rfl, Nat.le_refl _, Or.inr rfl, fun i a b => by omega,
      by rw [peekAt_of_ge (by omega)]; decide⟩
  | succ f ih =>
    intro s h
    unfold skipWsLoop
    simp only []
    split
    · rename_i hc
      exact ⟨rfl, rfl, Nat.le_refl _, Or.inr rfl, fun i a b => by omega, by simpa [State.peekChar] using hc⟩
    · rename_i hc
      have hws : isWhiteSpace (peekAt s.input s.pos) = true := by simpa [State.peekChar] using hc
      have hlt : s.pos < s.input.size :=
        lt_size_of_peekAt_ne_zero (fun h0 => by rw [h0] at hws; revert hws; decide)
      generalize hs' : (if (s.peekChar == 10) = true then
          ({ s with hadNewline := true, lastNewLine := s.pos + 1, lineNumber := s.lineNumber + 1 } : State)
        else s) = s'
      have e1 : s'.input = s.input := by subst hs'; split <;> rfl
      have e2 : s'.pos = s.pos := by subst hs'; split <;> rfl
      have e3 : s'.lineMode = s.lineMode := by subst hs'; split <;> rfl
      have r := ih { s' with hadWhitespace := true, pos := s'.pos + 1 } (by simp only [e1, e2]; omega)
      generalize skipWsLoop f { s' with hadWhitespace := true, pos := s'.pos + 1 } = s2 at r ⊢
      have rge : s.pos + 1 ≤ s2.pos := by have := r.ge; simpa only [e2] using this
      have rle : s2.pos ≤ s.input.size ∨ s2.pos = s.pos + 1 := by have := r.le; simpa only [e1, e2] using this
      have rgap : ∀ i, s.pos + 1 ≤ i → i < s2.pos → isWhiteSpace (peekAt s.input i) = true := by
        have := r.gap; simpa only [e1, e2] using this
      have rstop : isWhiteSpace (peekAt s.input s2.pos) = false := by
        have := r.stop; simpa only [e1] using this
      refine ⟨r.input.trans e1, r.mode.trans e3, by omega, by omega, ?_, rstop⟩
      intro i hi1 hi2
      by_cases hi : i = s.pos
      · subst hi; exact hws
      · exact rgap i (by omega) hi2

theorem skipWhitespace_spec (s : State) : SkipSpec s (skipWhitespace s) := by
  unfold skipWhitespace
  have := skipWsLoop_spec (s.input.size - s.pos) { s with hadWhitespace := false, hadNewline := false }
    (by simp; omega)
  exact ⟨this.input, this.mode, this.ge, this.le, this.gap, this.stop⟩

/-! ### readStringLoop -/

structure StrSpec (sep : UInt8) (s : State) (r : Bytes × Bool × State) : Prop where
  same : r.2.2 = { s with pos := r.2.2.pos }
  ge : s.pos ≤ r.2.2.pos
  okT : r.2.1 = true → s.pos < r.2.2.pos ∧ r.2.2.pos ≤ s.input.size ∧ peekAt s.input (r.2.2.pos - 1) = sep
  okF : r.2.1 = false → 1 ≤ r.2.2.pos ∧ peekAt s.input (r.2.2.pos - 1) = 0

theorem StrSpec.step {sep : UInt8} {s : State} {p' : Nat} {pre : Bytes} {r : Bytes × Bool × State}
    (h : StrSpec sep { s with pos := p' } r) (hp : s.pos ≤ p') : StrSpec sep s (consBuf pre r) := by
  refine ⟨?_, ?_, ?_, ?_⟩
  · have := h.same; simpa [consBuf] using this
  · have := h.ge; simp [consBuf] at *; omega
  · intro ht
    obtain ⟨a, b, c⟩ := h.okT ht
    exact ⟨Nat.lt_of_le_of_lt hp a, b, c⟩
  · intro hf
    exact h.okF hf

theorem readChar_snd (s : State) : s.readChar.2 = { s with pos := s.pos + 1 } := rfl
theorem readChar_fst (s : State) : s.readChar.1 = peekAt s.input s.pos := rfl
theorem readHex_snd (s : State) : (readHex s).2 = { s with pos := s.pos + 2 } := rfl
theorem readUnicode16_snd (s : State) : (readUnicode16 s).2 = { s with pos := s.pos + 4 } := rfl
theorem readUnicode32_snd (s : State) : (readUnicode32 s).2 = { s with pos := s.pos + 8 } := rfl

theorem readEscape_snd (ch : UInt8) (s : State) :
    ∃ p', s.pos ≤ p' ∧ (readEscape ch s).2 = { s with pos := p' } := by
  unfold readEscape
  repeat' split
  all_goals first | exact ⟨s.pos, Nat.le_refl _, rfl⟩ | exact ⟨s.pos + 2, by omega, rfl⟩

theorem readStringLoop_spec (sep : UInt8) (hsep : sep ≠ 0) (dq : Bool) :
    ∀ fuel (s : State), s.input.size + 1 ≤ s.pos + fuel → StrSpec sep s (readStringLoop sep dq fuel s) := by
  intro fuel
  induction fuel with
  | zero =>
    intro s h
    unfold readStringLoop
    exact ⟨rfl, Nat.le_refl _, fun h => (by cases h), fun _ => ⟨by simp at h ⊢; omega, peekAt_of_ge (by simp at h ⊢; omega)⟩⟩
  | succ f ih =>
    intro s h
    unfold readStringLoop
    simp only [readChar_snd, readChar_fst, readUnicode16_snd, readUnicode32_snd]
    by_cases hlt : s.pos < s.input.size
    · -- a real byte: every branch either stops or recurses further right
      have recur : ∀ p' pre, s.pos < p' → StrSpec sep s (consBuf pre (readStringLoop sep dq f { s with pos := p' })) :=
        fun p' pre hk => StrSpec.step (ih _ (by simp; omega)) (by omega)
      by_cases c1 : (dq && peekAt s.input s.pos == 92) = true
      · simp only [c1, ↓reduceIte]
        by_cases c2 : (peekAt s.input (s.pos + 1) == 117) = true
        · simp only [c2, ↓reduceIte]; exact recur _ _ (by omega)
        · simp only [c2, Bool.false_eq_true, ↓reduceIte]
          by_cases c3 : (peekAt s.input (s.pos + 1) == 85) = true
          · simp only [c3, ↓reduceIte]; exact recur _ _ (by omega)
          · simp only [c3, Bool.false_eq_true, ↓reduceIte]
            obtain ⟨p', hp', he⟩ := readEscape_snd (peekAt s.input (s.pos + 1)) { s with pos := s.pos + 1 + 1 }
            rw [he]; exact recur _ _ (by simp at hp'; omega)
      · simp only [c1, Bool.false_eq_true, ↓reduceIte]
        by_cases c2 : (peekAt s.input s.pos == sep) = true
        · simp only [c2, ↓reduceIte]
          refine ⟨rfl, by simp, fun _ => ⟨by simp, by simp; omega, by simpa using c2⟩, fun h => (by cases h)⟩
        · simp only [c2, Bool.false_eq_true, ↓reduceIte]
          by_cases c3 : (peekAt s.input s.pos == 0) = true
          · simp only [c3, ↓reduceIte]
            refine ⟨rfl, by simp, fun h => (by cases h), fun _ => ⟨by simp, by simpa using c3⟩⟩
          · simp only [c3, Bool.false_eq_true, ↓reduceIte]; exact recur _ _ (by omega)
    · -- at or past the end: the byte read is 0
      have h0 : peekAt s.input s.pos = 0 := peekAt_of_ge (by omega)
      have e1 : ((0 : UInt8) == 92) = false := by decide
      have e2 : ((0 : UInt8) == sep) = false := by
        simp; exact fun h => hsep h.symm
      simp only [h0, e1, e2, Bool.and_false, Bool.false_eq_true, ↓reduceIte]
      refine ⟨rfl, by simp, fun h => (by cases h), fun _ => ⟨by simp, by simpa using h0⟩⟩

/-! ### blockLoop -/

structure BlockSpec (input : Array UInt8) (pos0 : Nat) (r : UInt8 × Nat) : Prop where
  ge : pos0 ≤ r.2
  le : r.2 ≤ input.size + 1
  ch : r.1 = peekAt input (r.2 - 1)
  stop : r.1 = 0 ∨ (r.1 = 42 ∧ peekAt input r.2 = 47)
  nonzero : ∀ i, pos0 - 1 ≤ i → i < r.2 - 1 → peekAt input i ≠ 0

theorem blockLoop_spec (input : Array UInt8) : ∀ fuel ch0 pos0, 1 ≤ pos0 → pos0 ≤ input.size + 1 →
    ch0 = peekAt input (pos0 - 1) → input.size + 1 ≤ pos0 + fuel →
    BlockSpec input pos0 (blockLoop input fuel ch0 pos0) := by
  intro fuel
  induction fuel with
  | zero =>
    intro ch0 pos0 h1 h2 h3 h4
    unfold blockLoop
    have : ch0 = 0 := by rw [h3]; exact peekAt_of_ge (by omega)
    exact ⟨Nat.le_refl _, h2, h3, Or.inl this, fun i a b => by simp at b; omega⟩
  | succ f ih =>
    intro ch0 pos0 h1 h2 h3 h4
    unfold blockLoop
    by_cases c : (ch0 != 0 && !(ch0 == 42 && peekAt input pos0 == 47)) = true
    · simp only [c, ↓reduceIte]
      have hne : ch0 ≠ 0 := by
        intro h0; subst h0; simp at c
      have hlt : pos0 - 1 < input.size := lt_size_of_peekAt_ne_zero (by rw [← h3]; exact hne)
      have r := ih (peekAt input pos0) (pos0 + 1) (by omega) (by omega) (by simp) (by omega)
      refine ⟨by have := r.ge; omega, r.le, r.ch, r.stop, ?_⟩
      intro i hi1 hi2
      by_cases hi : i = pos0 - 1
      · subst hi; rw [← h3]; exact hne
      · exact r.nonzero i (by simp; omega) hi2
    · simp only [c, Bool.false_eq_true, ↓reduceIte]
      refine ⟨Nat.le_refl _, h2, h3, ?_, fun i a b => by simp at b; omega⟩
      by_cases h0 : ch0 = 0
      · exact Or.inl h0
      · right
        simp [h0] at c
        exact c

end Grol.Lexer

import GrolProofs.EvalSafeVal
/-
C07, part 2: the environment operations (lean/Grol/Eval/Env.lean) preserve the invariant and
never panic.
-/
namespace Grol.E

theorem runM_rootBindsFunc (name : String) (st : St) :
    runM (rootBindsFunc name) st = (.ok (rootFnOf st name), st) := rfl

/-! ### stores -/

theorem lookupStore_mem {store : List (String × Obj)} {name : String} {v : Obj}
    (h : lookupStore store name = some v) : ∃ k, (k, v) ∈ store := by
  induction store with
  | nil => simp [lookupStore] at h
  | cons kv rest ih =>
    obtain ⟨k, w⟩ := kv
    simp only [lookupStore] at h
    split at h
    · cases h; exact ⟨k, List.mem_cons_self⟩
    · obtain ⟨k', hk⟩ := ih h; exact ⟨k', List.mem_cons_of_mem _ hk⟩

theorem mem_setStore {store : List (String × Obj)} {name : String} {v : Obj} {k : String} {w : Obj}
    (h : (k, w) ∈ setStore store name v) : (k, w) ∈ store ∨ w = v := by
  induction store with
  | nil => simp [setStore] at h; exact Or.inr h.2
  | cons kv rest ih =>
    obtain ⟨k0, w0⟩ := kv
    simp only [setStore] at h
    split at h
    · rcases List.mem_cons.1 h with h | h
      · cases h; exact Or.inr rfl
      · exact Or.inl (List.mem_cons_of_mem _ h)
    · rcases List.mem_cons.1 h with h | h
      · cases h; exact Or.inl List.mem_cons_self
      · rcases ih h with h | h
        · exact Or.inl (List.mem_cons_of_mem _ h)
        · exact Or.inr h

theorem mem_delStore {store : List (String × Obj)} {name : String} {k : String} {w : Obj}
    (h : (k, w) ∈ delStore store name) : (k, w) ∈ store := by
  unfold delStore at h
  exact (List.mem_filter.1 h).1

theorem StoreOk.nil {frames : Array Frame} {i d : Nat} : StoreOk frames i d [] := by
  intro k v h; cases h

theorem StoreOk.setStore {frames : Array Frame} {i d : Nat} {store : List (String × Obj)}
    (hs : StoreOk frames i d store) (name : String) {v : Obj} (hv : okObj frames.size v = true)
    (hr : ∀ e nm, v = Obj.ref e nm → e < i ∧ ∀ fe, frames[e]? = some fe → fe.depth < d) :
    StoreOk frames i d (setStore store name v) := by
  intro k w h
  rcases mem_setStore h with h | h
  · exact hs k w h
  · subst h; exact ⟨hv, hr⟩

theorem StoreOk.delStore {frames : Array Frame} {i d : Nat} {store : List (String × Obj)}
    (hs : StoreOk frames i d store) (name : String) : StoreOk frames i d (delStore store name) :=
  fun k w h => hs k w (mem_delStore h)

/-- a value that is not a reference satisfies the reference clause of `StoreOk` trivially -/
def notRef : Obj → Bool
  | .ref .. => false
  | _ => true

theorem notRef_clause {v : Obj} (h : notRef v = true) {P : Nat → String → Prop} :
    ∀ e nm, v = Obj.ref e nm → P e nm := by
  intro e nm he; subst he; simp [notRef] at h

/-! ### the frame array -/

theorem Inv.frameOk {st : St} (hI : Inv st) {i : Nat} {f : Frame} (h : st.frames[i]? = some f) :
    FrameOk st.frames i f := hI.frames i f h

theorem frame_exists {st : St} {e : Nat} (h : e < st.frames.size) : ∃ f, st.frames[e]? = some f :=
  ⟨st.frames[e], Array.getElem?_eq_getElem h⟩

theorem lt_of_frame {frames : Array Frame} {e : Nat} {f : Frame} (h : frames[e]? = some f) : e < frames.size := by
  rcases Nat.lt_or_ge e frames.size with h1 | h1
  · exact h1
  · rw [Array.getElem?_eq_none h1] at h; cases h

/-- replacing frame `e` by one with the same depth, outer, function and a well formed store -/
theorem Inv.setFrame {st : St} (hI : Inv st) {e : Nat} {f f' : Frame} (he : st.frames[e]? = some f)
    (hd : f'.depth = f.depth) (ho : f'.outer = f.outer) (hf : f'.function = f.function)
    (hs : StoreOk st.frames e f.depth f'.store) :
    Inv { st with frames := st.frames.setIfInBounds e f' } := by
  have hlt := lt_of_frame he
  have hdepth : ∀ (j : Nat) (g : Frame), (st.frames.setIfInBounds e f')[j]? = some g →
      ∃ g0 : Frame, st.frames[j]? = some g0 ∧ g0.depth = g.depth := by
    intro j g hg
    rw [Array.getElem?_setIfInBounds] at hg
    split at hg
    · next hej =>
      subst hej
      cases hg
      exact ⟨f, he, hd.symm⟩
    · exact ⟨g, hg, rfl⟩
  have hstore : ∀ i d store, StoreOk st.frames i d store →
      StoreOk (st.frames.setIfInBounds e f') i d store := by
    intro i d store h k v hm
    obtain ⟨h1, h2⟩ := h k v hm
    refine ⟨by simpa using h1, ?_⟩
    intro e' nm hv
    obtain ⟨h3, h4⟩ := h2 e' nm hv
    refine ⟨h3, ?_⟩
    intro fe hfe
    obtain ⟨g0, hg0, hgd⟩ := hdepth _ _ hfe
    rw [← hgd]; exact h4 g0 hg0
  constructor
  · simpa using hI.cur
  · simpa using hI.root
  · intro i g hg
    simp only at hg
    rw [Array.getElem?_setIfInBounds] at hg
    split at hg
    · next hei =>
      subst hei
      cases hg
      have hok := hI.frameOk he
      constructor
      · intro o hoo
        rw [ho] at hoo
        obtain ⟨h1, h2⟩ := hok.outer o hoo
        refine ⟨h1, ?_⟩
        intro fo hfo
        obtain ⟨g0, hg0, hgd⟩ := hdepth _ _ hfo
        rw [← hgd, hd]; exact h2 g0 hg0
      · intro fn hfn
        rw [hf] at hfn
        simpa using hok.func fn hfn
      · rw [hd]; exact hstore _ _ _ hs
    · have hok := hI.frameOk hg
      constructor
      · intro o hoo
        obtain ⟨h1, h2⟩ := hok.outer o hoo
        refine ⟨h1, ?_⟩
        intro fo hfo
        obtain ⟨g0, hg0, hgd⟩ := hdepth _ _ hfo
        rw [← hgd]; exact h2 g0 hg0
      · intro fn hfn
        simpa using hok.func fn hfn
      · exact hstore _ _ _ hok.store
  · intro c hc
    simpa using hI.cache c hc

/-- pushing a new frame whose outer is an existing frame of smaller depth -/
theorem Inv.push {st : St} (hI : Inv st) {nf : Frame}
    (ho : ∀ o, nf.outer = some o → o < st.frames.size ∧ ∀ fo, st.frames[o]? = some fo → fo.depth < nf.depth)
    (hf : ∀ fn, nf.function = some fn → fn.env < st.frames.size)
    (hs : nf.store = []) :
    Inv { st with frames := st.frames.push nf } := by
  have hget : ∀ j g, j < st.frames.size → (st.frames.push nf)[j]? = some g → st.frames[j]? = some g := by
    intro j g hj hg
    rw [Array.getElem?_push] at hg
    split at hg
    · omega
    · exact hg
  have hstore : ∀ i d store, i ≤ st.frames.size → StoreOk st.frames i d store →
      StoreOk (st.frames.push nf) i d store := by
    intro i d store hi h k v hm
    obtain ⟨h1, h2⟩ := h k v hm
    refine ⟨?_, ?_⟩
    · rw [Array.size_push]; exact okObj_mono (Nat.le_succ _) _ h1
    · intro e' nm hv
      obtain ⟨h3, h4⟩ := h2 e' nm hv
      exact ⟨h3, fun fe hfe => h4 fe (hget _ _ (by omega) hfe)⟩
  constructor
  · simp only [Array.size_push]; exact Nat.lt_succ_of_lt hI.cur
  · simp only [Array.size_push]; exact Nat.lt_succ_of_lt hI.root
  · intro i g hg
    simp only at hg
    rw [Array.getElem?_push] at hg
    split at hg
    · next hi =>
      cases hg
      subst hi
      constructor
      · intro o hoo
        obtain ⟨h1, h2⟩ := ho o hoo
        exact ⟨h1, fun fo hfo => h2 fo (hget _ _ h1 hfo)⟩
      · intro fn hfn
        simp only [Array.size_push]; exact Nat.lt_succ_of_lt (hf fn hfn)
      · rw [hs]; exact StoreOk.nil
    · have hok := hI.frameOk hg
      have hi := lt_of_frame hg
      constructor
      · intro o hoo
        obtain ⟨h1, h2⟩ := hok.outer o hoo
        exact ⟨h1, fun fo hfo => h2 fo (hget _ _ (by omega) hfo)⟩
      · intro fn hfn
        simp only [Array.size_push]; exact Nat.lt_succ_of_lt (hok.func fn hfn)
      · exact hstore _ _ _ (Nat.le_of_lt hi) hok.store
  · intro c hc
    simp only [Array.size_push]
    exact okObj_mono (Nat.le_succ _) _ (hI.cache c hc)

/-! ### getFrame / setFrame / modifyFrame / newFrame -/

theorem runM_getFrame {st : St} {e : Nat} {f : Frame} (h : st.frames[e]? = some f) :
    runM (getFrame e) st = (.ok f, st) := by
  unfold getFrame
  rw [runM_bind, runM_get]
  simp only [h]
  rfl

/-- a step that reads the state: continue with the value read -/
theorem Post.bind_read {x : M α} {f : α → M β} {st : St} {R : β → St → Prop} {a : α}
    (hx : runM x st = (.ok a, st)) (hf : Post (f a) st R) : Post (x >>= f) st R := by
  unfold Post at hf ⊢
  rw [runM_bind, hx]
  exact hf

theorem post_getFrame {st : St} {e : Nat} {Q : Frame → St → Prop} (hI : Inv st) (he : e < st.frames.size)
    (h : ∀ f, st.frames[e]? = some f → Q f st) : Post (getFrame e) st Q := by
  obtain ⟨f, hf⟩ := frame_exists he
  unfold Post
  rw [runM_getFrame hf]
  exact ⟨hI, Nat.le_refl _, h f hf⟩

/-- `modifyFrame` with a function that keeps depth, outer, function and a well formed store -/
theorem post_modifyFrame {st : St} {e : Nat} {g : Frame → Frame} {Q : Unit → St → Prop} (hI : Inv st)
    (he : e < st.frames.size)
    (hg : ∀ f, st.frames[e]? = some f → (g f).depth = f.depth ∧ (g f).outer = f.outer ∧
      (g f).function = f.function ∧ StoreOk st.frames e f.depth (g f).store)
    (hQ : ∀ s, Inv s → s.frames.size = st.frames.size → s.cur = st.cur → Q () s) :
    Post (modifyFrame e g) st Q := by
  obtain ⟨f, hf⟩ := frame_exists he
  obtain ⟨h1, h2, h3, h4⟩ := hg f hf
  unfold modifyFrame
  refine Post.bind_read (runM_getFrame hf) ?_
  unfold setFrame
  have hI' := hI.setFrame hf h1 h2 h3 h4
  exact Post.modify hI' (by simp) (hQ _ hI' (by simp) rfl)

end Grol.E

namespace Grol.E

/-! ### references -/

theorem refValue_run {st : St} (hI : Inv st) {env : Nat} {f : Frame} (he : st.frames[env]? = some f)
    (name : String) :
    ∃ v, runM (refValue env name) st = (.ok v, st) ∧ okObj st.frames.size v = true ∧
      ∀ e' n', v = Obj.ref e' n' → e' < env ∧ ∀ fe, st.frames[e']? = some fe → fe.depth < f.depth := by
  have hok := (hI.frameOk he).store
  unfold refValue
  rw [runM_bind, runM_getFrame he]
  simp only
  split
  · next e n hl =>
    obtain ⟨k, hk⟩ := lookupStore_mem hl
    obtain ⟨h1, h2⟩ := hok k _ hk
    obtain ⟨h3, h4⟩ := h2 e n rfl
    have : (e == env && n == name) = false := by
      have : (e == env) = false := by simp; omega
      simp [this]
    simp only [this]
    refine ⟨.ref e n, rfl, h1, ?_⟩
    intro e' n' hv; cases hv; exact ⟨h3, h4⟩
  · next v hnr hl =>
    obtain ⟨k, hk⟩ := lookupStore_mem hl
    obtain ⟨h1, h2⟩ := hok k _ hk
    exact ⟨v, rfl, h1, h2⟩
  · exact ⟨.null, rfl, by simp [okObj], fun _ _ h => by cases h⟩

theorem post_refValue {st : St} (hI : Inv st) {env : Nat} (he : env < st.frames.size) (name : String) :
    Post (refValue env name) st (fun v s => s = st ∧ okObj st.frames.size v = true) := by
  obtain ⟨f, hf⟩ := frame_exists he
  obtain ⟨v, hr, hv, _⟩ := refValue_run hI hf name
  unfold Post; rw [hr]; exact ⟨hI, Nat.le_refl _, rfl, hv⟩

theorem refAlive_run {st : St} {env : Nat} {f : Frame} (he : st.frames[env]? = some f) (name : String) :
    runM (refAlive env name) st = (.ok (lookupStore f.store name).isSome, st) := by
  unfold refAlive
  rw [runM_bind, runM_getFrame he]
  rfl

theorem post_valueOf_go {st : St} (hI : Inv st) : ∀ (n : Nat) (o : Obj), okObj st.frames.size o = true →
    Post (valueOf.go n o) st (fun v s => s = st ∧ okObj st.frames.size v = true ∧ notRef v = true) := by
  intro n
  induction n with
  | zero =>
    intro o ho
    unfold valueOf.go
    split
    · next h => cases h
    · exact Post.stop hI (fun s h => by cases h)
    · next o' _ _ hnr h0 =>
      have : notRef o' = true := by
        cases o' with
        | ref e nm => exact (h0 e nm rfl rfl).elim
        | _ => rfl
      exact Post.pure hI ⟨rfl, ho, this⟩
  | succ n ih =>
    intro o ho
    unfold valueOf.go
    split
    · next n' e name hn =>
      cases hn
      have he : e < st.frames.size := by simpa [okObj] using ho
      obtain ⟨f, hf⟩ := frame_exists he
      obtain ⟨v, hr, hv, hvr⟩ := refValue_run hI hf name
      refine Post.bind_read hr ?_
      dsimp only
      split
      · next e' nm' =>
        obtain ⟨h1, h2⟩ := hvr e' nm' rfl
        obtain ⟨fe, hfe⟩ := frame_exists (Nat.lt_trans h1 he)
        have h3 := h2 fe hfe
        refine Post.bind_read (runM_getFrame hfe) ?_
        refine Post.bind_read (runM_getFrame hf) ?_
        have : ¬ (fe.depth ≥ f.depth) := by omega
        simp only [this, if_false]
        exact ih _ hv
      · exact ih v hv
    · next h => cases h
    · next o' _ _ hnr h0 =>
      have : notRef o' = true := by
        cases o' with
        | ref e nm => exact (hnr _ e nm rfl rfl).elim
        | _ => rfl
      exact Post.pure hI ⟨rfl, ho, this⟩

theorem post_valueOf {st : St} (hI : Inv st) {o : Obj} (ho : okObj st.frames.size o = true) :
    Post (valueOf o) st (fun v s => s = st ∧ okObj st.frames.size v = true ∧ notRef v = true) := by
  unfold valueOf
  refine Post.bind_read (runM_get st) ?_
  exact post_valueOf_go hI _ o ho

end Grol.E

namespace Grol.E

/-- the result is well scoped in the final state -/
abbrev OkO : Obj → St → Prop := fun v s => okObj s.frames.size v = true
abbrev OkOpt : Option Obj → St → Prop := fun r s => ∀ v, r = some v → okObj s.frames.size v = true

theorem okOpt_none {s : St} : OkOpt none s := fun _ h => by cases h

theorem post_bump {st : St} (hI : Inv st) {e : Nat} (he : e < st.frames.size) {g : Frame → Frame}
    (hg : ∀ f, (g f).depth = f.depth ∧ (g f).outer = f.outer ∧ (g f).function = f.function ∧ (g f).store = f.store)
    {Q : Unit → St → Prop}
    (hQ : ∀ s, Inv s → s.frames.size = st.frames.size → s.cur = st.cur → Q () s) :
    Post (modifyFrame e g) st Q := by
  refine post_modifyFrame hI he ?_ hQ
  intro f hf
  obtain ⟨h1, h2, h3, h4⟩ := hg f
  exact ⟨h1, h2, h3, by rw [h4]; exact (hI.frameOk hf).store⟩

theorem post_triggerNoCache {st : St} (hI : Inv st) {e : Nat} (he : e < st.frames.size) :
    Post (triggerNoCache e) st (fun _ s => s.frames.size = st.frames.size ∧ s.cur = st.cur) := by
  unfold triggerNoCache
  refine post_bump hI he ?_ (fun s _ h1 h2 => ⟨h1, h2⟩)
  intro f; exact ⟨rfl, rfl, rfl, rfl⟩

theorem Inv.clearCache {st : St} (hI : Inv st) : Inv { st with cache := [] } :=
  ⟨hI.cur, hI.root, hI.frames, by intro c hc; simp at hc⟩

theorem post_functionChanged {st : St} (hI : Inv st) {w : Nat} (hw : w < st.frames.size) (old : Option Obj) :
    Post (functionChanged w old) st (fun _ s => s.frames.size = st.frames.size ∧ s.cur = st.cur) := by
  unfold functionChanged
  split
  · split
    · refine Post.bind (Q := fun _ s => s.frames.size = st.frames.size ∧ s.cur = st.cur)
        (post_bump hI hw ?_ (fun s _ h1 h2 => ⟨h1, h2⟩)) ?_
      · intro f; exact ⟨rfl, rfl, rfl, rfl⟩
      rintro _ s hIs _ ⟨h1, h2⟩
      exact Post.modify hIs.clearCache (Nat.le_refl _) ⟨h1, h2⟩
    · exact Post.pure hI ⟨rfl, rfl⟩
  · exact Post.pure hI ⟨rfl, rfl⟩

theorem post_makeRef_go {st : St} (hI : Inv st) {orig : Nat} {forig : Frame}
    (ho : st.frames[orig]? = some forig) (name : String) :
    ∀ (fuel e : Nat) (fe : Frame), st.frames[e]? = some fe → e ≤ orig → fe.depth ≤ forig.depth →
    Post (makeRef.go orig name fuel e) st (fun r s => OkOpt r s ∧ s.frames.size = st.frames.size ∧ s.cur = st.cur) := by
  have horig := lt_of_frame ho
  intro fuel
  induction fuel with
  | zero =>
    intro e fe _ _ _
    unfold makeRef.go
    exact Post.pure hI ⟨okOpt_none, rfl, rfl⟩
  | succ fuel ih =>
    intro e fe hfe hle hd
    unfold makeRef.go
    refine Post.bind_read (runM_getFrame hfe) ?_
    split
    · exact Post.pure hI ⟨okOpt_none, rfl, rfl⟩
    · next o hout =>
      obtain ⟨h1, h2⟩ := (hI.frameOk hfe).outer o hout
      have hosz : o < st.frames.size := Nat.lt_trans h1 (lt_of_frame hfe)
      obtain ⟨fo, hfo⟩ := frame_exists hosz
      have hdo := h2 fo hfo
      refine Post.bind_read (runM_getFrame hfo) ?_
      split
      · exact ih o fo hfo (by omega) (by omega)
      · next obj hl =>
        obtain ⟨k, hk⟩ := lookupStore_mem hl
        obtain ⟨hv1, hv2⟩ := (hI.frameOk hfo).store k _ hk
        dsimp only
        -- the reference that is stored
        have hr : okObj st.frames.size (refTo o name obj) = true ∧
            ∀ e' n', refTo o name obj = Obj.ref e' n' → e' < orig ∧ ∀ fe', st.frames[e']? = some fe' → fe'.depth < forig.depth := by
          cases obj with
          | ref e' n' =>
            obtain ⟨h3, h4⟩ := hv2 e' n' rfl
            refine ⟨hv1, ?_⟩
            intro e'' n'' h; cases h
            exact ⟨by omega, fun fe' hfe' => by have := h4 fe' hfe'; omega⟩
          | _ =>
            refine ⟨by simp [refTo, okObj]; exact hosz, ?_⟩
            intro e'' n'' h; cases h
            refine ⟨by omega, fun fe' hfe' => ?_⟩
            rw [hfo] at hfe'; cases hfe'; omega
        generalize refTo o name obj = r at *
        obtain ⟨hr1, hr2⟩ := hr
        refine Post.bind (Q := fun _ s => s.frames.size = st.frames.size ∧ s.cur = st.cur) ?_ ?_
        · refine post_modifyFrame hI horig ?_ (fun s _ h1 h2 => ⟨h1, h2⟩)
          intro f hf
          rw [ho] at hf; cases hf
          exact ⟨rfl, rfl, rfl, (hI.frameOk ho).store.setStore name hr1 hr2⟩
        · intro _ s hIs _ hs
          have hres : OkOpt (some r) s := by
            intro v hv; cases hv; rw [hs.1]; exact hr1
          have hjp : ∀ refDepth : Nat, Post
              (if (!(isConstant name && refDepth == 0) && !(isFuncObj obj && refDepth == 0)) = true then do
                  let __r ← modifyFrame orig fun f => { f with getMiss := f.getMiss + 1 }
                  (fun _ => pure (some r) : Unit → M (Option Obj)) __r
                else pure (some r)) s
              (fun r s' => OkOpt r s' ∧ s'.frames.size = st.frames.size ∧ s'.cur = st.cur) := by
            intro refDepth
            split
            · refine Post.bind (Q := fun _ s' => s'.frames.size = s.frames.size ∧ s'.cur = s.cur) ?_ ?_
              · refine post_bump hIs (by omega) ?_ (fun s' _ h1 h2 => ⟨h1, h2⟩)
                intro f; exact ⟨rfl, rfl, rfl, rfl⟩
              · intro _ s' hIs' _ hs'
                refine Post.pure hIs' ⟨?_, by omega, by rw [hs'.2, hs.2]⟩
                intro v hv; cases hv; rw [hs'.1, hs.1]; exact hr1
            · exact Post.pure hIs ⟨hres, hs.1, hs.2⟩
          split
          · next e' nm' =>
            have he' : e' < s.frames.size := by
              have := hr1; simp only [okObj, decide_eq_true_eq] at this; omega
            obtain ⟨fe', hfe'⟩ := frame_exists he'
            refine Post.bind_read (runM_getFrame hfe') ?_
            exact hjp _
          · exact hjp _

theorem post_makeRef {st : St} (hI : Inv st) {orig : Nat} (ho : orig < st.frames.size) (name : String) :
    Post (makeRef orig name) st (fun r s => OkOpt r s ∧ s.frames.size = st.frames.size ∧ s.cur = st.cur) := by
  obtain ⟨f, hf⟩ := frame_exists ho
  unfold makeRef
  refine Post.bind_read (runM_get st) ?_
  exact post_makeRef_go hI hf name _ orig f hf (Nat.le_refl _) (Nat.le_refl _)

end Grol.E

namespace Grol.E

theorem post_envGet {st : St} (hI : Inv st) {e : Nat} (he : e < st.frames.size) (name : String) :
    Post (envGet e name) st OkOpt := by
  obtain ⟨f, hf⟩ := frame_exists he
  have hfok := hI.frameOk hf
  unfold envGet
  dsimp only
  split
  · exact Post.stop_bind hI (fun s h => by cases h)
  refine Post.bind_read (runM_getFrame hf) ?_
  have hfn : ∀ fn, f.function = some fn → okObj st.frames.size (Obj.func fn) = true := by
    intro fn hfn; simp [okObj]; exact hfok.func fn hfn
  -- the part after the `self` / function-name tests
  have hrest : Post (match lookupStore f.store name with
      | some (Obj.ref re rn) => do
        let __do_lift ← refAlive re rn
        if (!__do_lift) = true then do
            modifyFrame e fun f =>
                { store := delStore f.store name, outer := f.outer, depth := f.depth, cacheKey := f.cacheKey,
                  function := f.function, getMiss := f.getMiss, cantCache := f.cantCache, numSet := f.numSet, localFunc := f.localFunc }
            match f.outer with
              | none => pure none
              | some _ => makeRef e name
          else do
            let tgt ← refValue re rn
            let __do_lift ← getFrame re
            have __do_jp : Unit → M (Option Obj) := fun __r => pure (some (Obj.ref re rn))
            if (!(isConstant rn && __do_lift.depth == 0) && !(isFuncObj tgt && __do_lift.depth == 0)) = true then do
                let __r ←
                  modifyFrame e fun f =>
                      { store := f.store, outer := f.outer, depth := f.depth, cacheKey := f.cacheKey,
                        function := f.function, getMiss := f.getMiss + 1, cantCache := f.cantCache,
                        numSet := f.numSet, localFunc := f.localFunc }
                __do_jp __r
              else __do_jp ()
      | some obj => pure (some obj)
      | none =>
        match f.outer with
        | none => pure none
        | some _ => makeRef e name) st OkOpt := by
    split
    · next re rn hl =>
      obtain ⟨k, hk⟩ := lookupStore_mem hl
      obtain ⟨hv1, hv2⟩ := hfok.store k _ hk
      obtain ⟨h3, _⟩ := hv2 re rn rfl
      have hre : re < st.frames.size := Nat.lt_trans h3 he
      obtain ⟨fre, hfre⟩ := frame_exists hre
      refine Post.bind_read (refAlive_run hfre rn) ?_
      split
      · refine Post.bind (Q := fun _ s => s.frames.size = st.frames.size) ?_ ?_
        · refine post_modifyFrame hI he ?_ (fun s _ h1 _ => h1)
          intro f' hf'
          rw [hf] at hf'; cases hf'
          exact ⟨rfl, rfl, rfl, hfok.store.delStore name⟩
        · intro _ s hIs _ hs
          split
          · exact Post.pure hIs okOpt_none
          · exact (post_makeRef hIs (by omega) name).mono (fun _ _ _ _ h => h.1)
      · obtain ⟨tgt, hr, _, _⟩ := refValue_run hI hfre rn
        refine Post.bind_read hr ?_
        refine Post.bind_read (runM_getFrame hfre) ?_
        dsimp only
        have hres : ∀ s : St, st.frames.size ≤ s.frames.size → OkOpt (some (Obj.ref re rn)) s := by
          intro s hs v hv; cases hv; exact okObj_mono hs _ hv1
        split
        · refine Post.bind (Q := fun _ _ => True) ?_ ?_
          · refine post_bump hI he ?_ (fun _ _ _ _ => trivial)
            intro f; exact ⟨rfl, rfl, rfl, rfl⟩
          · intro _ s hIs hle _
            exact Post.pure hIs (hres s hle)
        · exact Post.pure hI (hres st (Nat.le_refl _))
    · next obj _ hl =>
      obtain ⟨k, hk⟩ := lookupStore_mem hl
      exact Post.pure hI (fun v hv => by cases hv; exact (hfok.store k _ hk).1)
    · split
      · exact Post.pure hI okOpt_none
      · exact (post_makeRef hI he name).mono (fun _ _ _ _ h => h.1)
  split
  · split
    · next fn hfn' => exact Post.pure hI (fun v hv => by cases hv; exact hfn fn hfn')
    · exact Post.pure hI okOpt_none
  · split
    · next fn hfn' =>
      split
      · exact Post.pure hI (fun v hv => by cases hv; exact hfn fn hfn')
      · exact hrest
    · exact hrest

end Grol.E

namespace Grol.E

/-- storing a well scoped non-reference value in frame `e` -/
theorem post_store {st : St} (hI : Inv st) {e : Nat} (he : e < st.frames.size) {g : Frame → Frame}
    {name : String} {v : Obj} (hv : okObj st.frames.size v = true) (hnr : notRef v = true)
    (hg : ∀ f, (g f).depth = f.depth ∧ (g f).outer = f.outer ∧ (g f).function = f.function ∧
      (g f).store = setStore f.store name v) :
    Post (modifyFrame e g) st (fun _ _ => True) := by
  refine post_modifyFrame hI he ?_ (fun _ _ _ _ => trivial)
  intro f hf
  obtain ⟨h1, h2, h3, h4⟩ := hg f
  refine ⟨h1, h2, h3, ?_⟩
  rw [h4]
  exact (hI.frameOk hf).store.setStore name hv (notRef_clause hnr)

theorem post_envCreate {st : St} (hI : Inv st) {e : Nat} (he : e < st.frames.size) (name : String) {val : Obj}
    (hval : okObj st.frames.size val = true) : Post (envCreate e name val) st OkO := by
  unfold envCreate
  refine Post.bind (post_valueOf hI hval) ?_
  rintro v s hIs _ ⟨rfl, hv, hnr⟩
  refine Post.bind_read (runM_rootBindsFunc _ _) ?_
  refine Post.bind (Q := fun _ _ => True) ?_ ?_
  · refine post_store (name := name) hI he hv hnr ?_
    intro f; exact ⟨rfl, rfl, rfl, rfl⟩
  · intro _ s' hIs' hle _
    exact Post.pure hIs' (okObj_mono hle _ hv)

theorem post_envStoreAt {st : St} (hI : Inv st) {w e : Nat} (hw : w < st.frames.size) (he : e < st.frames.size)
    (name : String) {v : Obj} (hv : okObj st.frames.size v = true) (hnr : notRef v = true) :
    Post (envStoreAt w e name v) st OkO := by
  obtain ⟨f, hf⟩ := frame_exists he
  unfold envStoreAt
  refine Post.bind_read (runM_getFrame hf) ?_
  refine Post.bind (post_functionChanged hI hw _) ?_
  rintro _ s hIs hle ⟨hsz, _⟩
  have hv' : okObj s.frames.size v = true := okObj_mono hle _ hv
  refine Post.bind_read (runM_rootBindsFunc _ _) ?_
  refine Post.bind (Q := fun _ _ => True) ?_ ?_
  · refine post_store (name := name) hIs (by omega) hv' hnr ?_
    intro f; exact ⟨rfl, rfl, rfl, rfl⟩
  · intro _ s' hIs' hle' _
    exact Post.pure hIs' (okObj_mono hle' _ hv')

theorem post_envUpdate {st : St} (hI : Inv st) {e : Nat} (he : e < st.frames.size) (name : String) {found val : Obj}
    (hfound : okObj st.frames.size found = true)
    (hval : okObj st.frames.size val = true) : Post (envUpdate e name found val) st OkO := by
  unfold envUpdate
  have hrest : ∀ v, okObj st.frames.size v = true → notRef v = true →
      Post (envStoreAt e (updTarget e name found).1 (updTarget e name found).2 v) st OkO := by
    intro v hv hnr
    have ht : (updTarget e name found).1 < st.frames.size := by
      cases found <;> first | exact he | (simp only [okObj, decide_eq_true_eq] at hfound; exact hfound)
    exact post_envStoreAt hI he ht _ hv hnr
  split
  · refine Post.bind (post_valueOf hI hval) ?_
    rintro v s hIs _ ⟨rfl, hv, hnr⟩
    exact hrest v hv hnr
  · next hnr =>
    refine Post.bind (Q := fun v s => s = st ∧ v = val) (Post.pure hI ⟨rfl, rfl⟩) ?_
    rintro v s hIs _ ⟨rfl, rfl⟩
    refine hrest v hval ?_
    cases v with
    | ref e' n' => exact (hnr e' n' rfl).elim
    | _ => rfl

theorem post_setNoChecks {st : St} (hI : Inv st) {e : Nat} (he : e < st.frames.size) (name : String) {val : Obj}
    (hval : okObj st.frames.size val = true) (create : Bool) : Post (setNoChecks e name val create) st OkO := by
  obtain ⟨f, hf⟩ := frame_exists he
  unfold setNoChecks
  split
  · exact post_envCreate hI he name hval
  refine Post.bind_read (runM_getFrame hf) ?_
  split
  · next r hl =>
    obtain ⟨k, hk⟩ := lookupStore_mem hl
    exact post_envUpdate hI he name ((hI.frameOk hf).store k _ hk).1 hval
  · refine Post.bind (post_makeRef hI he name) ?_
    rintro r s hIs hle ⟨hr, hsz, _⟩
    have hval' : okObj s.frames.size val = true := okObj_mono hle _ hval
    split
    · next re rn =>
      have hre : re < s.frames.size := by simpa [okObj] using hr _ rfl
      refine Post.bind (post_valueOf hIs hval') ?_
      rintro v s' hIs' _ ⟨rfl, hv, hnr⟩
      obtain ⟨fre, hfre⟩ := frame_exists hre
      refine Post.bind_read (runM_getFrame hfre) ?_
      refine Post.bind (post_functionChanged hIs (by omega) _) ?_
      rintro _ s1 hIs1 hle1 ⟨hsz1, _⟩
      refine Post.bind_read (runM_rootBindsFunc _ _) ?_
      refine Post.bind (Q := fun _ _ => True) ?_ ?_
      · refine post_store (name := rn) hIs1 (by omega) (okObj_mono hle1 _ hv) hnr ?_
        intro f; exact ⟨rfl, rfl, rfl, rfl⟩
      · intro _ s'' hIs'' hle' _
        exact Post.pure hIs'' (okObj_mono (Nat.le_trans hle1 hle') _ hval')
    · exact post_envCreate hIs (by omega) name hval'

theorem post_createOrSet {st : St} (hI : Inv st) {e : Nat} (he : e < st.frames.size) (name : String) {val : Obj}
    (hval : okObj st.frames.size val = true) (create : Bool) : Post (createOrSet e name val create) st OkO := by
  unfold createOrSet
  dsimp only
  have hrest : ∀ s : St, Inv s → st.frames.size ≤ s.frames.size →
      Post (do
        let st ← get
        if st.extNames.contains name = true then pure (Obj.error ("attempt to change internal function " ++ name))
          else setNoChecks e name val create) s OkO := by
    intro s hIs hle
    refine Post.bind_read (runM_get s) ?_
    split
    · exact Post.pure hIs (by simp [OkO, okObj])
    · exact post_setNoChecks hIs (by omega) name (okObj_mono hle _ hval) create
  split
  · refine Post.bind (post_envGet hI he name) ?_
    intro r s hIs hle hr
    split
    · next old =>
      have hold : okObj s.frames.size old = true := hr old rfl
      have hfin : ∀ (same : Bool) (s' : St), Inv s' → s.frames.size ≤ s'.frames.size →
          Post (if (!same) = true then pure (Obj.error ("attempt to change constant " ++ name)) else do
            let st ← get
            if st.extNames.contains name = true then pure (Obj.error ("attempt to change internal function " ++ name))
              else setNoChecks e name val create) s' OkO := by
        intro same s' hIs' hle'
        split
        · exact Post.pure hIs' (by simp [OkO, okObj])
        · exact hrest s' hIs' (by omega)
      split
      · refine Post.bind (Q := fun _ s' => s' = s) (Post.pure hIs rfl) ?_
        rintro same s' hIs' _ rfl
        exact hfin same s' hIs' (Nat.le_refl _)
      · refine Post.bind (post_valueOf hIs hold) ?_
        rintro o s' hIs' _ ⟨rfl, _, _⟩
        refine Post.bind (post_valueOf hIs' (okObj_mono hle _ hval)) ?_
        rintro v s' hIs'' _ ⟨rfl, _, _⟩
        refine Post.bind (Q := fun _ s'' => s'' = s') (Post.liftR hIs'' (cmp_npr o v) (fun _ _ => rfl)) ?_
        rintro c s'' hIs3 _ rfl
        refine Post.bind (Q := fun _ s3 => s3 = s'') (Post.pure hIs3 rfl) ?_
        rintro same s3 hIs4 _ rfl
        exact hfin same s3 hIs4 (Nat.le_refl _)
    · exact hrest s hIs hle
  · exact hrest st hI (Nat.le_refl _)

theorem post_envSet {st : St} (hI : Inv st) {e : Nat} (he : e < st.frames.size) (name : String) {val : Obj}
    (hval : okObj st.frames.size val = true) : Post (envSet e name val) st OkO :=
  post_createOrSet hI he name hval false

end Grol.E

namespace Grol.E

theorem post_setFrame {st : St} (hI : Inv st) {e : Nat} {f f' : Frame} (he : st.frames[e]? = some f)
    (hd : f'.depth = f.depth) (ho : f'.outer = f.outer) (hf : f'.function = f.function)
    (hs : StoreOk st.frames e f.depth f'.store) :
    Post (setFrame e f') st (fun _ s => s.frames.size = st.frames.size) := by
  unfold setFrame
  exact Post.modify (hI.setFrame he hd ho hf hs) (by simp) (by simp)

theorem post_envDelete_go (name : String) :
    ∀ (fuel : Nat) (st : St), Inv st → ∀ e, e < st.frames.size → Post (envDelete.go name fuel e) st OkO := by
  intro fuel
  induction fuel with
  | zero =>
    intro st hI e _
    unfold envDelete.go
    exact Post.pure hI (by simp [OkO, okObj])
  | succ fuel ih =>
    intro st hI e he
    obtain ⟨f, hf⟩ := frame_exists he
    have hfok := hI.frameOk hf
    unfold envDelete.go
    refine Post.bind_read (runM_getFrame hf) ?_
    dsimp only
    generalize hf2 : (if (f.depth == 0) = true then { f with numSet := f.numSet + 1 } else f) = f2
    have h2 : f2.depth = f.depth ∧ f2.outer = f.outer ∧ f2.function = f.function ∧ f2.store = f.store := by
      subst hf2; split <;> exact ⟨rfl, rfl, rfl, rfl⟩
    obtain ⟨h2d, h2o, h2f, h2s⟩ := h2
    split
    · refine Post.bind (Q := fun _ s => s.frames.size = st.frames.size) ?_ ?_
      · refine (post_setFrame hI hf (by exact h2d) (by exact h2o) (by exact h2f) ?_)
        show StoreOk st.frames e f.depth (delStore f2.store name)
        rw [h2s]; exact hfok.store.delStore name
      · intro _ s hIs _ hsz
        refine Post.bind (post_functionChanged hIs (by omega) _) ?_
        intro _ s' hIs' _ _
        exact Post.pure hIs' (by simp [OkO, okObj])
    · refine Post.bind (post_setFrame hI hf h2d h2o h2f (by rw [h2s]; exact hfok.store)) ?_
      intro _ s hIs _ hsz
      split
      · next o ho =>
        rw [h2o] at ho
        have := (hfok.outer o ho).1
        exact ih s hIs o (by omega)
      · exact Post.pure hIs (by simp [OkO, okObj])

theorem post_envDelete {st : St} (hI : Inv st) {e : Nat} (he : e < st.frames.size) (name : String) :
    Post (envDelete e name) st OkO := by
  unfold envDelete
  refine Post.bind_read (runM_get st) ?_
  exact post_envDelete_go name _ st hI e he

end Grol.E

import GrolProofs.LexNext
import Grol.LexSuite
/-
C16 lemmas, part 3: the literal computed by the model's `readString` is the value computed by the
independent decoder `LexSuite.specString` of the executable statement on the same bytes, and the
two agree on where the string ends / that it does not end.
-/
namespace Grol.Lexer
open Grol.Token Grol.LexSuite

/-- the input from `pos` to the end -/
def restL (input : Array UInt8) (pos : Nat) : Bytes := spanL input pos input.size

theorem restL_length (input : Array UInt8) (pos : Nat) : (restL input pos).length = input.size - pos := by
  unfold restL; rw [spanL_length]; omega

theorem restL_nil {input : Array UInt8} {pos : Nat} (h : input.size ≤ pos) : restL input pos = [] := by
  apply List.eq_nil_of_length_eq_zero
  rw [restL_length]; omega

theorem restL_getElem? (input : Array UInt8) (pos i : Nat) : (restL input pos)[i]? = input[pos + i]? := by
  unfold restL
  rw [spanL_getElem?]
  split
  · rfl
  · rename_i h
    rw [Array.getElem?_eq_none (by omega)]

theorem restL_cons {input : Array UInt8} {pos : Nat} (h : pos < input.size) :
    restL input pos = peekAt input pos :: restL input (pos + 1) := by
  apply List.ext_getElem?
  intro i
  rw [restL_getElem?]
  cases i with
  | zero => simp [peekAt, Array.getElem?_eq_getElem h]
  | succ j =>
    rw [List.getElem?_cons_succ, restL_getElem?]
    congr 1; omega

theorem restL_drop (input : Array UInt8) (pos k : Nat) : (restL input pos).drop k = restL input (pos + k) := by
  apply List.ext_getElem?
  intro i
  rw [List.getElem?_drop, restL_getElem?, restL_getElem?]
  congr 1; omega

/-- the `i`-th byte of the rest is what `peekAt` reads (inside the input) -/
theorem restL_getD {input : Array UInt8} {pos i : Nat} (h : pos + i < input.size) :
    (restL input pos)[i]? = some (peekAt input (pos + i)) := by
  rw [restL_getElem?, peekAt, Array.getElem?_eq_getElem h]; rfl

theorem restL_take2 {input : Array UInt8} {pos : Nat} (h : pos + 2 ≤ input.size) :
    (restL input pos).take 2 = [peekAt input pos, peekAt input (pos + 1)] := by
  rw [restL_cons (by omega), restL_cons (by omega)]
  rfl

theorem restL_take4 {input : Array UInt8} {pos : Nat} (h : pos + 4 ≤ input.size) :
    (restL input pos).take 4 =
      [peekAt input pos, peekAt input (pos + 1), peekAt input (pos + 2), peekAt input (pos + 3)] := by
  rw [restL_cons (by omega), restL_cons (by omega), restL_cons (by omega), restL_cons (by omega)]
  rfl

/-! ### agreement of one run of the model loop with the decoder's answer -/

/-- `o` = the decoder's answer on the text at `s.pos`; `r` = what the model's loop returned -/
def Agree (o : Option (Bytes × Nat)) (s : State) (r : Bytes × Bool × State) : Prop :=
  match o with
  | some (v, m) => r = (v, true, { s with pos := s.pos + m })
  | none => r.2.1 = false

theorem agree_prepend {o : Option (Bytes × Nat)} {s : State} {r : Bytes × Bool × State} {pre : Bytes} {d p' : Nat}
    (hp : p' = s.pos + d) (h : Agree o { s with pos := p' } r) : Agree (prepend pre d o) s (consBuf pre r) := by
  subst hp
  cases o with
  | none => exact h
  | some vm =>
    obtain ⟨v, m⟩ := vm
    unfold Agree at h
    simp only [] at h
    subst h
    show (pre ++ v, true, _) = (pre ++ v, true, _)
    have : s.pos + d + m = s.pos + (m + d) := by omega
    simp only [this]

/-- at or past the end of the input the loop stops with `ok = false` -/
theorem readStringLoop_past_end (q : UInt8) (hq : q ≠ 0) (dq : Bool) (fuel : Nat) (s : State)
    (h : s.input.size ≤ s.pos) : (readStringLoop q dq fuel s).2.1 = false := by
  cases fuel with
  | zero => rfl
  | succ f =>
    unfold readStringLoop
    have h0 : peekAt s.input s.pos = 0 := peekAt_of_ge h
    have e1 : ((0 : UInt8) == 92) = false := by decide
    have e2 : ((0 : UInt8) == q) = false := by simp; exact fun h => hq h.symm
    simp only [readChar_fst, h0, e1, e2, Bool.and_false, Bool.false_eq_true, ↓reduceIte]
    rfl

/-! ### hex digits -/

theorem hexChar_spec : ∀ n, n < 256 →
    hexCharToHex (UInt8.ofNat n) = UInt8.ofNat (hexDigitVal (UInt8.ofNat n)) ∧ hexDigitVal (UInt8.ofNat n) < 16 := by
  decide +kernel

theorem hexChar_eq (c : UInt8) : hexCharToHex c = UInt8.ofNat (hexDigitVal c) ∧ hexDigitVal c < 16 := by
  have := hexChar_spec c.toNat c.toNat_lt
  rwa [UInt8.ofNat_toNat] at this

theorem nibbles : ∀ a, a < 16 → ∀ b, b < 16 →
    (UInt8.ofNat a <<< 4) ||| UInt8.ofNat b = UInt8.ofNat (a * 16 + b) := by
  decide +kernel

/-- the byte of `\xHH` -/
theorem hexByte (c1 c2 : UInt8) :
    (hexCharToHex c1 <<< 4) ||| hexCharToHex c2 = UInt8.ofNat (hexValue [c1, c2])
    ∧ hexValue [c1, c2] < 256 := by
  obtain ⟨e1, l1⟩ := hexChar_eq c1
  obtain ⟨e2, l2⟩ := hexChar_eq c2
  have hv : hexValue [c1, c2] = hexDigitVal c1 * 16 + hexDigitVal c2 := by
    simp [hexValue]
  rw [e1, e2, nibbles _ l1 _ l2, hv]
  exact ⟨rfl, by omega⟩

theorem readEscape_x (s : State) : readEscape 120 s = readHex s := by
  unfold readEscape
  rfl

theorem readEscape_other (e : UInt8) (s : State) (h : (e == 120) = false) : readEscape e s = (escByte e, s) := by
  unfold readEscape escByte
  simp only [h, Bool.false_eq_true, ↓reduceIte]
  repeat' split
  all_goals rfl

/-! ### UTF-8: Go's `utf8.AppendRune` (bit operations, model) = the statement's encoder (arithmetic) -/

theorem contByte_spec : ∀ n, n < 256 →
    (0x80 : UInt8) ||| (UInt8.ofNat n &&& 0x3F) = UInt8.ofNat (0x80 + n % 64) := by decide +kernel

theorem lead2_spec : ∀ n, n < 32 → (0xC0 : UInt8) ||| UInt8.ofNat n = UInt8.ofNat (0xC0 + n) := by decide +kernel
theorem lead3_spec : ∀ n, n < 16 → (0xE0 : UInt8) ||| UInt8.ofNat n = UInt8.ofNat (0xE0 + n) := by decide +kernel
theorem lead4_spec : ∀ n, n < 8 → (0xF0 : UInt8) ||| UInt8.ofNat n = UInt8.ofNat (0xF0 + n) := by decide +kernel

theorem toUInt8_eq (x : UInt32) : x.toUInt8 = UInt8.ofNat (x.toNat % 256) := by
  apply UInt8.toNat_inj.mp
  rw [UInt32.toNat_toUInt8]
  simp

theorem shr_toNat (r : UInt32) (k : Nat) (hk : k < 32) : (r >>> UInt32.ofNat k).toNat = r.toNat / 2 ^ k := by
  rw [UInt32.toNat_shiftRight, Nat.shiftRight_eq_div_pow]
  have : (UInt32.ofNat k).toNat % 32 = k := by
    simp [UInt32.toNat_ofNat']
    omega
  rw [this]

/-- a continuation byte -/
theorem cont_eq (x : UInt32) (m : Nat) (h : x.toNat % 64 = m % 64) :
    (0x80 : UInt8) ||| (x.toUInt8 &&& 0x3F) = UInt8.ofNat (0x80 + m % 64) := by
  rw [toUInt8_eq, contByte_spec _ (Nat.mod_lt _ (by omega))]
  congr 2
  omega

theorem appendRune_eq (r : UInt32) : appendRune r = utf8Spec r.toNat := by
  have s6 : (r >>> 6).toNat = r.toNat / 64 := shr_toNat r 6 (by omega)
  have s12 : (r >>> 12).toNat = r.toNat / 4096 := shr_toNat r 12 (by omega)
  have s18 : (r >>> 18).toNat = r.toNat / 262144 := shr_toNat r 18 (by omega)
  have hn := r.toNat_lt
  unfold appendRune utf8Spec
  simp only []
  by_cases h1 : r.toNat < 0x80
  · have : r ≤ 0x7F := UInt32.le_iff_toNat_le.mpr (by simp; omega)
    rw [if_pos this, if_pos h1, toUInt8_eq]
    congr 2
    omega
  have n1 : ¬ r ≤ 0x7F := fun h => h1 (by have := UInt32.le_iff_toNat_le.mp h; simp at this; omega)
  rw [if_neg n1, if_neg h1]
  by_cases h2 : r.toNat < 0x800
  · have : r ≤ 0x7FF := UInt32.le_iff_toNat_le.mpr (by simp; omega)
    rw [if_pos this, if_pos h2]
    have e1 : (0xC0 : UInt8) ||| (r >>> 6).toUInt8 = UInt8.ofNat (0xC0 + r.toNat / 64) := by
      rw [toUInt8_eq, s6]
      have : r.toNat / 64 % 256 = r.toNat / 64 := by omega
      rw [this]
      exact lead2_spec _ (by omega)
    rw [e1, cont_eq r r.toNat rfl]
  have n2 : ¬ r ≤ 0x7FF := fun h => h2 (by have := UInt32.le_iff_toNat_le.mp h; simp at this; omega)
  rw [if_neg n2, if_neg h2]
  by_cases h3 : r.toNat > 0x10FFFF ∨ (0xD800 ≤ r.toNat ∧ r.toNat ≤ 0xDFFF)
  · have a : (decide (r > 0x10FFFF) || (decide (0xD800 ≤ r) && decide (r ≤ 0xDFFF))) = true := by
      simp only [Bool.or_eq_true, Bool.and_eq_true, decide_eq_true_eq]
      rcases h3 with h | ⟨h, h'⟩
      · exact Or.inl (UInt32.lt_iff_toNat_lt.mpr (by simp; omega))
      · exact Or.inr ⟨UInt32.le_iff_toNat_le.mpr (by simp; omega), UInt32.le_iff_toNat_le.mpr (by simp; omega)⟩
    have b : (decide (r.toNat > 0x10FFFF) || (decide (0xD800 ≤ r.toNat) && decide (r.toNat ≤ 0xDFFF))) = true := by
      simp only [Bool.or_eq_true, Bool.and_eq_true, decide_eq_true_eq]; exact h3
    rw [if_pos a, if_pos b]
  have a : ¬ (decide (r > 0x10FFFF) || (decide (0xD800 ≤ r) && decide (r ≤ 0xDFFF))) = true := by
    simp only [Bool.or_eq_true, Bool.and_eq_true, decide_eq_true_eq]
    intro h
    apply h3
    rcases h with h | ⟨h, h'⟩
    · left; have := UInt32.lt_iff_toNat_lt.mp h; simp at this; omega
    · right
      have := UInt32.le_iff_toNat_le.mp h; have := UInt32.le_iff_toNat_le.mp h'
      simp at *; omega
  have b : ¬ (decide (r.toNat > 0x10FFFF) || (decide (0xD800 ≤ r.toNat) && decide (r.toNat ≤ 0xDFFF))) = true := by
    simp only [Bool.or_eq_true, Bool.and_eq_true, decide_eq_true_eq]; exact h3
  rw [if_neg a, if_neg b]
  have hmax : r.toNat ≤ 0x10FFFF := by omega
  by_cases h4 : r.toNat < 0x10000
  · have : r ≤ 0xFFFF := UInt32.le_iff_toNat_le.mpr (by simp; omega)
    rw [if_pos this, if_pos h4]
    have e1 : (0xE0 : UInt8) ||| (r >>> 12).toUInt8 = UInt8.ofNat (0xE0 + r.toNat / 4096) := by
      rw [toUInt8_eq, s12]
      have : r.toNat / 4096 % 256 = r.toNat / 4096 := by omega
      rw [this]
      exact lead3_spec _ (by omega)
    rw [e1, cont_eq (r >>> 6) (r.toNat / 64) (by rw [s6]), cont_eq r r.toNat rfl]
  · have : ¬ r ≤ 0xFFFF := fun h => h4 (by have := UInt32.le_iff_toNat_le.mp h; simp at this; omega)
    rw [if_neg this, if_neg h4]
    have e1 : (0xF0 : UInt8) ||| (r >>> 18).toUInt8 = UInt8.ofNat (0xF0 + r.toNat / 262144) := by
      rw [toUInt8_eq, s18]
      have : r.toNat / 262144 % 256 = r.toNat / 262144 := by omega
      rw [this]
      exact lead4_spec _ (by omega)
    rw [e1, cont_eq (r >>> 12) (r.toNat / 4096) (by rw [s12]), cont_eq (r >>> 6) (r.toNat / 64) (by rw [s6]),
      cont_eq r r.toNat rfl]

/-! ### the value of the rune read by `readUnicode16/32` = the value of the hex digits -/

theorem join16 (a b : UInt8) : ((a.toUInt32 <<< 8) ||| b.toUInt32).toNat = a.toNat * 256 + b.toNat := by
  have ha := a.toNat_lt
  have hb := b.toNat_lt
  rw [UInt32.toNat_or, UInt32.toNat_shiftLeft, UInt8.toNat_toUInt32, UInt8.toNat_toUInt32]
  have e8 : (8 : UInt32).toNat % 32 = 8 := by decide
  rw [e8, Nat.shiftLeft_eq, Nat.mod_eq_of_lt (by omega), ← Nat.shiftLeft_eq,
    ← Nat.shiftLeft_add_eq_or_of_lt (by omega), Nat.shiftLeft_eq]

theorem join32 (x y : UInt32) (hx : x.toNat < 65536) (hy : y.toNat < 65536) :
    ((x <<< 16) ||| y).toNat = x.toNat * 65536 + y.toNat := by
  rw [UInt32.toNat_or, UInt32.toNat_shiftLeft]
  have e16 : (16 : UInt32).toNat % 32 = 16 := by decide
  rw [e16, Nat.shiftLeft_eq, Nat.mod_eq_of_lt (by omega), ← Nat.shiftLeft_eq,
    ← Nat.shiftLeft_add_eq_or_of_lt (by omega), Nat.shiftLeft_eq]

theorem readHex_toNat (s : State) :
    (readHex s).1.toNat = hexValue [peekAt s.input s.pos, peekAt s.input (s.pos + 1)] := by
  obtain ⟨e, l⟩ := hexByte (peekAt s.input s.pos) (peekAt s.input (s.pos + 1))
  show ((hexCharToHex (peekAt s.input s.pos) <<< 4) ||| hexCharToHex (peekAt s.input (s.pos + 1))).toNat = _
  rw [e]
  simp only [UInt8.toNat_ofNat']
  omega

theorem hexValue4 (a b c d : UInt8) : hexValue [a, b, c, d] = hexValue [a, b] * 256 + hexValue [c, d] := by
  simp only [hexValue, List.foldl]
  omega

theorem hexValue8 (a b c d e f g h : UInt8) :
    hexValue [a, b, c, d, e, f, g, h] = hexValue [a, b, c, d] * 65536 + hexValue [e, f, g, h] := by
  simp only [hexValue, List.foldl]
  omega

theorem hexValue2_lt (a b : UInt8) : hexValue [a, b] < 256 := (hexByte a b).2

theorem readUnicode16_toNat (s : State) :
    (readUnicode16 s).1.toNat = hexValue [peekAt s.input s.pos, peekAt s.input (s.pos + 1),
      peekAt s.input (s.pos + 2), peekAt s.input (s.pos + 3)] := by
  show (((readHex s).1.toUInt32 <<< 8) ||| (readHex { s with pos := s.pos + 2 }).1.toUInt32).toNat = _
  rw [join16, readHex_toNat, readHex_toNat, hexValue4]

theorem readUnicode32_toNat (s : State) :
    (readUnicode32 s).1.toNat = hexValue [peekAt s.input s.pos, peekAt s.input (s.pos + 1),
      peekAt s.input (s.pos + 2), peekAt s.input (s.pos + 3), peekAt s.input (s.pos + 4), peekAt s.input (s.pos + 5),
      peekAt s.input (s.pos + 6), peekAt s.input (s.pos + 7)] := by
  show (((readUnicode16 s).1 <<< 16) ||| (readUnicode16 { s with pos := s.pos + 4 }).1).toNat = _
  have l1 := readUnicode16_toNat s
  have l2 : (readUnicode16 { s with pos := s.pos + 4 }).1.toNat = hexValue [peekAt s.input (s.pos + 4),
      peekAt s.input (s.pos + 5), peekAt s.input (s.pos + 6), peekAt s.input (s.pos + 7)] :=
    readUnicode16_toNat { s with pos := s.pos + 4 }
  have b1 : (readUnicode16 s).1.toNat < 65536 := by
    rw [l1, hexValue4]
    have := hexValue2_lt (peekAt s.input s.pos) (peekAt s.input (s.pos + 1))
    have := hexValue2_lt (peekAt s.input (s.pos + 2)) (peekAt s.input (s.pos + 3))
    omega
  have b2 : (readUnicode16 { s with pos := s.pos + 4 }).1.toNat < 65536 := by
    rw [l2, hexValue4]
    have := hexValue2_lt (peekAt s.input (s.pos + 4)) (peekAt s.input (s.pos + 5))
    have := hexValue2_lt (peekAt s.input (s.pos + 6)) (peekAt s.input (s.pos + 7))
    omega
  rw [join32 _ _ b1 b2, l1, l2, hexValue8]

theorem restL_take8 {input : Array UInt8} {pos : Nat} (h : pos + 8 ≤ input.size) :
    (restL input pos).take 8 =
      [peekAt input pos, peekAt input (pos + 1), peekAt input (pos + 2), peekAt input (pos + 3),
       peekAt input (pos + 4), peekAt input (pos + 5), peekAt input (pos + 6), peekAt input (pos + 7)] := by
  rw [restL_cons (by omega), restL_cons (by omega), restL_cons (by omega), restL_cons (by omega),
    restL_cons (by omega), restL_cons (by omega), restL_cons (by omega), restL_cons (by omega)]
  rfl

/-! ### the loop of `readString` against the decoder -/

/-- the two facts about `\u` / `\U` escapes the comparison needs: Go's UTF-8 encoder on the rune
read by the model = the statement's encoder on the value of the hex digits -/
structure RuneOK : Prop where
  u16 : ∀ s : State, s.pos + 4 ≤ s.input.size →
    appendRune (readUnicode16 s).1 = utf8Spec (hexValue ((restL s.input s.pos).take 4))
  u32 : ∀ s : State, s.pos + 8 ≤ s.input.size →
    appendRune (readUnicode32 s).1 = utf8Spec (hexValue ((restL s.input s.pos).take 8))

theorem specString_nil (dq : Bool) (q : UInt8) (fs : Nat) : specString dq q fs [] = none := by
  cases fs <;> rfl

theorem readStringLoop_agree (q : UInt8) (hq : q ≠ 0) (dq : Bool) (hR : RuneOK) :
    ∀ fuel (s : State) (fs : Nat), s.input.size + 1 ≤ s.pos + fuel → (restL s.input s.pos).length + 1 ≤ fs →
      Agree (specString dq q fs (restL s.input s.pos)) s (readStringLoop q dq fuel s) := by
  intro fuel
  induction fuel with
  | zero =>
    intro s fs h1 h2
    rw [restL_nil (by simp at h1; omega), specString_nil]
    rfl
  | succ f ih =>
    intro s fs h1 h2
    by_cases hlt : s.pos < s.input.size
    · obtain ⟨fs', rfl⟩ : ∃ k, fs = k + 1 := ⟨fs - 1, by omega⟩
      rw [restL_length] at h2
      -- the recursive call, at any later position
      have recur : ∀ p', s.pos < p' →
          Agree (specString dq q fs' (restL s.input p')) { s with pos := p' } (readStringLoop q dq f { s with pos := p' }) :=
        fun p' hp => ih { s with pos := p' } fs' (by simp; omega) (by rw [restL_length]; simp; omega)
      have past : ∀ p' pre, s.input.size ≤ p' → (consBuf pre (readStringLoop q dq f { s with pos := p' })).2.1 = false :=
        fun p' pre hp => readStringLoop_past_end q hq dq f { s with pos := p' } hp
      rw [restL_cons hlt]
      unfold specString readStringLoop
      simp only [readChar_fst, readChar_snd, readUnicode16_snd, readUnicode32_snd]
      by_cases c1 : (dq && peekAt s.input s.pos == 92) = true
      · simp only [c1, ↓reduceIte]
        by_cases hlt2 : s.pos + 1 < s.input.size
        · rw [restL_cons hlt2]
          simp only []
          by_cases c2 : (peekAt s.input (s.pos + 1) == 117) = true
          · simp only [c2, ↓reduceIte]
            unfold hexEsc
            by_cases hl : (restL s.input (s.pos + 1 + 1)).length < 4
            · simp only [hl, ↓reduceIte]
              rw [restL_length] at hl
              exact past _ _ (by omega)
            · simp only [hl, ↓reduceIte]
              rw [restL_length] at hl
              rw [restL_drop, hR.u16 { s with pos := s.pos + 1 + 1 } (by simp; omega)]
              exact agree_prepend (by omega) (recur _ (by omega))
          · simp only [c2, Bool.false_eq_true, ↓reduceIte]
            by_cases c3 : (peekAt s.input (s.pos + 1) == 85) = true
            · simp only [c3, ↓reduceIte]
              unfold hexEsc
              by_cases hl : (restL s.input (s.pos + 1 + 1)).length < 8
              · simp only [hl, ↓reduceIte]
                rw [restL_length] at hl
                exact past _ _ (by omega)
              · simp only [hl, ↓reduceIte]
                rw [restL_length] at hl
                rw [restL_drop, hR.u32 { s with pos := s.pos + 1 + 1 } (by simp; omega)]
                exact agree_prepend (by omega) (recur _ (by omega))
            · simp only [c3, Bool.false_eq_true, ↓reduceIte]
              by_cases c4 : (peekAt s.input (s.pos + 1) == 120) = true
              · have e4 : peekAt s.input (s.pos + 1) = 120 := by simpa using c4
                simp only [e4, readEscape_x, readHex_snd]
                unfold hexEsc
                by_cases hl : (restL s.input (s.pos + 1 + 1)).length < 2
                · simp only [hl, ↓reduceIte]
                  rw [restL_length] at hl
                  exact past _ _ (by omega)
                · simp only [hl, ↓reduceIte]
                  rw [restL_length] at hl
                  rw [restL_drop, restL_take2 (by omega)]
                  have hb := (hexByte (peekAt s.input (s.pos + 1 + 1)) (peekAt s.input (s.pos + 1 + 1 + 1))).1
                  have : (readHex { s with pos := s.pos + 1 + 1 }).1
                      = UInt8.ofNat (hexValue [peekAt s.input (s.pos + 1 + 1), peekAt s.input (s.pos + 1 + 1 + 1)]) := hb
                  rw [this]
                  exact agree_prepend (by omega) (recur _ (by omega))
              · have e4 : (peekAt s.input (s.pos + 1) == 120) = false := by simpa using c4
                simp only [e4, Bool.false_eq_true, ↓reduceIte, readEscape_other _ _ e4]
                exact agree_prepend (by omega) (recur _ (by omega))
        · -- the backslash is the last byte of the input
          rw [restL_nil (by omega)]
          simp only []
          have e0 : peekAt s.input (s.pos + 1) = 0 := peekAt_of_ge (by omega)
          have n1 : ((0 : UInt8) == 117) = false := by decide
          have n2 : ((0 : UInt8) == 85) = false := by decide
          simp only [e0, n1, n2, Bool.false_eq_true, ↓reduceIte]
          obtain ⟨p', hp', he⟩ := readEscape_snd 0 { s with pos := s.pos + 1 + 1 }
          rw [he]
          exact past _ _ (by simp at hp'; omega)
      · simp only [c1, Bool.false_eq_true, ↓reduceIte]
        by_cases c2 : (peekAt s.input s.pos == q) = true
        · simp only [c2, ↓reduceIte]; rfl
        · simp only [c2, Bool.false_eq_true, ↓reduceIte]
          by_cases c3 : (peekAt s.input s.pos == 0) = true
          · simp only [c3, ↓reduceIte]; rfl
          · simp only [c3, Bool.false_eq_true, ↓reduceIte]
            exact agree_prepend rfl (recur _ (by omega))
    · rw [restL_nil (by omega), specString_nil]
      exact readStringLoop_past_end q hq dq _ s (by omega)

/-- the hypotheses of `readStringLoop_agree` hold outright -/
theorem runeOK : RuneOK where
  u16 := fun s h => by
    rw [appendRune_eq, readUnicode16_toNat, restL_take4 h]
  u32 := fun s h => by
    rw [appendRune_eq, readUnicode32_toNat, restL_take8 h]

/-- **string literal = unescape(content)**: `readString`, called on the state just after the
opening quote `q` (`"` or a backquote), against the statement's decoder `specString` run on the
rest of the input with the statement's own fuel: if the decoder says the string has value `v` and
takes `m` bytes (closing quote included), the model returns exactly `(v, ok = true)` and stands
`m` bytes further; if the decoder says the string is not terminated, the model returns
`ok = false` (and `next` returns the end marker). -/
theorem readString_eq_spec (s : State) (q : UInt8) (hq : q = 34 ∨ q = 96) (hs : 1 ≤ s.pos) :
    Agree (specString (q == 34) q (s.input.size + 1) (restL s.input s.pos)) s (readString s q) := by
  have hq0 : q ≠ 0 := by rcases hq with h | h <;> (rw [h]; decide)
  unfold readString
  exact readStringLoop_agree q hq0 (q == 34) runeOK _ s _ (by omega) (by rw [restL_length]; omega)

end Grol.Lexer

import Grol.PrintTokens
import GrolProofs.ParseWP
/-
C02, positive half: infrastructure of the round-trip proof.
  * `stAt s i`: the parser state is a function of the stream and the index of the current token;
  * `Seg s i toks`: the stream shows the (keys of the) tokens `toks` from position `i`;
  * `Ev p`: `p fuel` for every sufficiently large fuel;
  * one step lemma per parse function: its result on the success path in terms of the results of its calls.
-/
namespace Grol.RT
open Grol Grol.Wire Grol.Generated Grol.Parser Grol.Printer Grol.PrintTokens

/-! ### eventually (for all sufficiently large fuel) -/

def Ev (p : Nat → Prop) : Prop := ∃ F, ∀ f, F ≤ f → p f

theorem Ev.mono {p p' : Nat → Prop} (h : ∀ f, p f → p' f) : Ev p → Ev p' := fun ⟨F, hF⟩ => ⟨F, fun f hf => h f (hF f hf)⟩

theorem Ev.and {p p' : Nat → Prop} : Ev p → Ev p' → Ev (fun f => p f ∧ p' f) := fun ⟨F, hF⟩ ⟨F', hF'⟩ =>
  ⟨max F F', fun f hf => ⟨hF f (by omega), hF' f (by omega)⟩⟩

theorem Ev.const {P : Prop} (h : P) : Ev (fun _ => P) := ⟨0, fun _ _ => h⟩

/-- from `p` for all large fuel to `p'` for all large fuel, `k` units of fuel being spent in between
(the bound may be assumed to be at least `k0`) -/
theorem Ev.step {p p' : Nat → Prop} (k0 k : Nat) (h : ∀ F, k0 ≤ F → (∀ f, F ≤ f → p f) → ∀ f, F ≤ f → p' (f + k)) : Ev p → Ev p' := by
  rintro ⟨F, hF⟩
  refine ⟨max F k0 + k, fun f hf => ?_⟩
  obtain ⟨g, rfl⟩ : ∃ g, f = g + k := ⟨f - k, by omega⟩
  exact h (max F k0) (by omega) (fun f hf => hF f (by omega)) g (by omega)

/-- the same with two premises -/
theorem Ev.step2 {p1 p2 p' : Nat → Prop} (k0 k : Nat)
    (h : ∀ F, k0 ≤ F → (∀ f, F ≤ f → p1 f) → (∀ f, F ≤ f → p2 f) → ∀ f, F ≤ f → p' (f + k)) : Ev p1 → Ev p2 → Ev p' := by
  rintro ⟨F1, hF1⟩ ⟨F2, hF2⟩
  refine ⟨max (max F1 F2) k0 + k, fun f hf => ?_⟩
  obtain ⟨g, rfl⟩ : ∃ g, f = g + k := ⟨f - k, by omega⟩
  exact h (max (max F1 F2) k0) (by omega) (fun f hf => hF1 f (by omega)) (fun f hf => hF2 f (by omega)) g (by omega)

/-! ### the parser state at token `i` -/

def stAt (s : TokStream) (i : Nat) : PState :=
  { idx := i + 2, prev := if i = 0 then none else some (s.get (i - 1)), cur := s.get i, peek := s.get (i + 1),
    prevNewline := (s.get i).hadNl, nextNewline := (s.get (i + 1)).hadNl, cont := false,
    prevPos := (s.get i).posAfter, errors := [] }

theorem init_eq (s : TokStream) : Parser.init s = stAt s 0 := rfl

@[simp] theorem advance_stAt (s : TokStream) (i : Nat) : advance s (stAt s i) = stAt s (i + 1) := by
  simp [advance, stAt]

@[simp] theorem stAt_cur (s : TokStream) (i : Nat) : (stAt s i).cur = s.get i := rfl
@[simp] theorem stAt_peek (s : TokStream) (i : Nat) : (stAt s i).peek = s.get (i + 1) := rfl
@[simp] theorem stAt_cont (s : TokStream) (i : Nat) : (stAt s i).cont = false := rfl
@[simp] theorem stAt_errors (s : TokStream) (i : Nat) : (stAt s i).errors = [] := rfl

/-! ### the monad on a state -/

theorem bind_apply (m : PM α) (k : α → PM β) (st : PState) :
    (m >>= k) st = match m st with
      | .ok (a, st') => k a st'
      | .goPanic p => .goPanic p
      | .outOfFuel => .outOfFuel := rfl

theorem bind_ok {m : PM α} {k : α → PM β} {st st' : PState} {a : α} (h : m st = .ok (a, st')) : (m >>= k) st = k a st' := by
  rw [bind_apply, h]

@[simp] theorem pure_apply (a : α) (st : PState) : (pure a : PM α) st = .ok (a, st) := rfl
@[simp] theorem getSt_apply (st : PState) : getSt st = .ok (st, st) := rfl
@[simp] theorem nextToken_apply (s : TokStream) (st : PState) : nextToken s st = .ok ((), advance s st) := rfl

theorem expectPeek_ok {s : TokStream} {st : PState} {t : TokType} (h : st.peek.type = t) :
    expectPeek s t st = .ok (true, advance s st) := by
  unfold expectPeek
  simp [bind_apply, h]

/-! ### segments of the stream -/

@[simp] theorem key_type (t : Tok) : (key t).type = t.type := rfl
@[simp] theorem key_lit (t : Tok) : (key t).lit = t.lit := rfl
@[simp] theorem key_num (t : Tok) : (key t).num = t.num := rfl

theorem key_tk {a b : Tok} (h : key a = key b) : a.tk = b.tk := by
  have h1 := congrArg Tok.type h
  have h2 := congrArg Tok.lit h
  simp only [key_type, key_lit] at h1 h2
  simp [Tok.tk, h1, h2]

theorem key_ws {a b : Tok} (h : key a = key b) (ho : b.type = .LPAREN ∨ b.type = .LBRACKET) : a.hadWs = b.hadWs := by
  have h1 := congrArg Tok.type h
  have h3 := congrArg Tok.hadWs h
  simp only [key_type] at h1
  simp only [key] at h3
  rcases ho with ho | ho <;> simp [h1, ho] at h3 <;> exact h3

/-- the stream shows the tokens `toks` (up to `key`) from position `i` -/
def Seg (s : TokStream) : Nat → List Tok → Prop
  | _, [] => True
  | i, x :: r => key (s.get i) = key x ∧ Seg s (i + 1) r

@[simp] theorem Seg_nil (s : TokStream) (i : Nat) : Seg s i [] ↔ True := Iff.rfl
@[simp] theorem Seg_cons (s : TokStream) (i : Nat) (x : Tok) (r : List Tok) :
    Seg s i (x :: r) ↔ key (s.get i) = key x ∧ Seg s (i + 1) r := Iff.rfl

theorem Seg_append (s : TokStream) : ∀ (a b : List Tok) (i : Nat), Seg s i (a ++ b) ↔ Seg s i a ∧ Seg s (i + a.length) b
  | [], b, i => by simp
  | x :: a, b, i => by
    simp only [List.cons_append, Seg_cons, List.length_cons, Seg_append s a b (i + 1), and_assoc]
    have : i + 1 + a.length = i + (a.length + 1) := by omega
    rw [this]

end Grol.RT

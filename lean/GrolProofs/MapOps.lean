import GrolProofs.MapModel
/-
Every map operation preserves the representation invariant and commutes with the abstraction to the
reference finite map.
-/
namespace Grol.Map
open Grol.Ord

variable {κ ν : Type}

/-- representation invariant: strictly sorted keys (hence no two `c`-equal keys) and a small map holds
at most `maxSmall` pairs -/
def Inv (c : κ → κ → Int) (maxSmall : Nat) (m : M κ ν) : Prop :=
  Sorted c m.kvs ∧ (m.isBig = false → m.len ≤ maxSmall)

theorem length_setVal (l : List (κ × ν)) : ∀ i v, (setVal l i v).length = l.length := by
  induction l with
  | nil => intro i v; rfl
  | cons p rest ih =>
    intro i v
    obtain ⟨k, v0⟩ := p
    cases i <;> simp [setVal, ih]

theorem length_insertAt (l : List (κ × ν)) (i : Nat) (x : κ × ν) : (insertAt l i x).length = l.length + 1 := by
  simp only [insertAt, List.length_append, List.length_cons, List.length_take, List.length_drop]
  omega

theorem length_erase_le (c : κ → κ → Int) (key : κ) (l : List (κ × ν)) : (Spec.erase c key l).length ≤ l.length := by
  induction l with
  | nil => simp [Spec.erase]
  | cons p rest ih =>
    obtain ⟨k, v⟩ := p
    simp only [Spec.erase]
    split <;> simp <;> omega

theorem inv_big (c : κ → κ → Int) (maxSmall : Nat) (l : List (κ × ν)) (hs : Sorted c l) : Inv c maxSmall (.big l) :=
  ⟨hs, by intro h; cases h⟩

theorem inv_small (c : κ → κ → Int) (maxSmall : Nat) (l : List (κ × ν)) (hs : Sorted c l) (hl : l.length ≤ maxSmall) :
    Inv c maxSmall (.small l) := ⟨hs, fun _ => hl⟩

section
variable (c : κ → κ → Int) (hc : ∀ a, PW c a) (maxSmall : Nat)
include hc

theorem getIdx_eq (m : M κ ν) (hs : Sorted c m.kvs) (key : κ) : getIdx c m key = specGet c key m.kvs := by
  cases m with
  | small l => simp only [getIdx, M.kvs, smallGet_eq c hc key l 0, Nat.zero_add]
  | big l => exact bigGet_eq c hc key l hs

/-- lookup is the reference lookup, in either representation -/
theorem get_eq (m : M κ ν) (hs : Sorted c m.kvs) (key : κ) : get c m key = Spec.lookup c key m.kvs := by
  rw [get, getIdx_eq c hc m hs, (specGet_spec c hc key m.kvs hs).1]

theorem set_spec (m : M κ ν) (hI : Inv c maxSmall m) (key : κ) (v : ν) :
    (set c maxSmall m key v).kvs = Spec.insert c key v m.kvs ∧ Inv c maxSmall (set c maxSmall m key v) := by
  have hs := hI.1
  obtain ⟨_, h2, _, h4, _⟩ := specGet_spec c hc key m.kvs hs
  have hso := (sorted_insert c hc key v m.kvs hs).1
  cases m with
  | small l =>
    have hg : smallGet c key l 0 = specGet c key l := by rw [smallGet_eq c hc key l 0, Nat.zero_add]
    have hl : l.length ≤ maxSmall := hI.2 rfl
    simp only [M.kvs] at h2 h4 hso hs
    simp only [set, hg]
    generalize specGet c key l = g at h2 h4
    obtain ⟨r, i⟩ := g
    cases r with
    | some v' =>
      have e := h2 v (by simp)
      dsimp only at e ⊢
      refine ⟨e, ?_⟩
      rw [e]
      exact inv_small c maxSmall _ hso (by rw [← e, length_setVal]; exact hl)
    | none =>
      have e := h4 v rfl
      dsimp only at e ⊢
      by_cases hbig : l.length + 1 > maxSmall
      · rw [if_pos hbig]
        refine ⟨e, ?_⟩
        rw [e]; exact inv_big c maxSmall _ hso
      · rw [if_neg hbig]
        refine ⟨e, ?_⟩
        rw [e]; exact inv_small c maxSmall _ hso (by rw [← e, length_insertAt]; omega)
  | big l =>
    have hg : bigGet c key l = specGet c key l := bigGet_eq c hc key l hs
    simp only [M.kvs] at h2 h4 hso hs
    simp only [set, hg]
    generalize specGet c key l = g at h2 h4
    obtain ⟨r, i⟩ := g
    cases r with
    | some v' =>
      have e := h2 v (by simp)
      dsimp only at e ⊢
      refine ⟨e, ?_⟩
      rw [e]; exact inv_big c maxSmall _ hso
    | none =>
      have e := h4 v rfl
      dsimp only at e ⊢
      refine ⟨e, ?_⟩
      rw [e]; exact inv_big c maxSmall _ hso

theorem delete_spec (m : M κ ν) (hI : Inv c maxSmall m) (key : κ) :
    (delete c m key).1.kvs = Spec.erase c key m.kvs ∧ Inv c maxSmall (delete c m key).1
    ∧ (delete c m key).2 = (Spec.lookup c key m.kvs).isSome := by
  have hs := hI.1
  obtain ⟨h1, _, h3, _, h5⟩ := specGet_spec c hc key m.kvs hs
  have hso := sorted_erase c key m.kvs hs
  have hle := length_erase_le c key m.kvs
  cases m with
  | small l =>
    have hg : smallGet c key l 0 = specGet c key l := by rw [smallGet_eq c hc key l 0, Nat.zero_add]
    have hl : l.length ≤ maxSmall := hI.2 rfl
    simp only [M.kvs] at h1 h3 h5 hso hs hle
    simp only [delete, hg, M.kvs]
    rw [← h1]
    generalize specGet c key l = g at h3 h5
    obtain ⟨r, i⟩ := g
    cases r with
    | some v' =>
      have e := h3 (by simp)
      dsimp only at e ⊢
      refine ⟨e, ?_, rfl⟩
      rw [e]; exact inv_small c maxSmall _ hso (by omega)
    | none =>
      have e := h5 rfl
      dsimp only at e ⊢
      exact ⟨e.symm, inv_small c maxSmall _ hs hl, rfl⟩
  | big l =>
    have hg : bigGet c key l = specGet c key l := bigGet_eq c hc key l hs
    simp only [M.kvs] at h1 h3 h5 hso hs hle
    simp only [delete, hg, M.kvs]
    rw [← h1]
    generalize specGet c key l = g at h3 h5
    obtain ⟨r, i⟩ := g
    cases r with
    | some v' =>
      have e := h3 (by simp)
      dsimp only at e ⊢
      refine ⟨e, ?_, rfl⟩
      rw [e]; exact inv_big c maxSmall _ hso
    | none =>
      have e := h5 rfl
      dsimp only at e ⊢
      exact ⟨e.symm, inv_big c maxSmall _ hs, rfl⟩

theorem setAll_spec (kvs : List (κ × ν)) : ∀ (m : M κ ν), Inv c maxSmall m →
    (setAll c maxSmall m kvs).kvs = Spec.insertAll c m.kvs kvs ∧ Inv c maxSmall (setAll c maxSmall m kvs) := by
  induction kvs with
  | nil => intro m hI; exact ⟨rfl, hI⟩
  | cons kv rest ih =>
    intro m hI
    obtain ⟨e, hI'⟩ := set_spec c hc maxSmall m hI kv.1 kv.2
    have := ih _ hI'
    simp only [setAll, Spec.insertAll, List.foldl_cons] at this ⊢
    rw [e] at this
    exact this

omit hc in
theorem inv_newMapSize (n : Nat) : Inv c maxSmall (newMapSize maxSmall n : M κ ν) ∧ (newMapSize maxSmall n : M κ ν).kvs = [] := by
  unfold newMapSize
  split
  · exact ⟨inv_small c maxSmall [] List.Pairwise.nil (Nat.zero_le _), rfl⟩
  · exact ⟨inv_big c maxSmall [] List.Pairwise.nil, rfl⟩

theorem literal_spec (pairs : List (κ × ν)) :
    (literal c maxSmall pairs).kvs = Spec.insertAll c [] pairs ∧ Inv c maxSmall (literal c maxSmall pairs) := by
  obtain ⟨hI, e⟩ := inv_newMapSize c maxSmall (κ := κ) (ν := ν) pairs.length
  have := setAll_spec c hc maxSmall pairs _ hI
  rw [e] at this
  exact this

theorem append_spec (l r : M κ ν) (hl : Inv c maxSmall l) :
    (append c maxSmall l r).kvs = Spec.insertAll c l.kvs r.kvs ∧ Inv c maxSmall (append c maxSmall l r) := by
  cases l with
  | small ll =>
    simp only [append]
    split
    · exact setAll_spec c hc maxSmall r.kvs _ hl
    · exact setAll_spec c hc maxSmall r.kvs (.big ll) (inv_big c maxSmall ll hl.1)
  | big ll => exact setAll_spec c hc maxSmall r.kvs _ hl

omit hc in
theorem rest_spec (m : M κ ν) (hI : Inv c maxSmall m) :
    match rest maxSmall m with
    | none => m.kvs.length ≤ 1
    | some m' => 1 < m.kvs.length ∧ m'.kvs = m.kvs.tail ∧ Inv c maxSmall m' := by
  cases m with
  | small l =>
    have hl : l.length ≤ maxSmall := hI.2 rfl
    by_cases h1 : l.length ≤ 1
    · simp only [rest, if_pos h1, M.kvs]; exact h1
    · simp only [rest, if_neg h1, M.kvs]
      exact ⟨by omega, trivial, inv_small c maxSmall _ hI.1.tail (by simp; omega)⟩
  | big l =>
    by_cases h1 : l.length ≤ 1
    · simp only [rest, if_pos h1, M.kvs]; exact h1
    · by_cases h2 : l.length - 1 > maxSmall
      · simp only [rest, if_neg h1, if_pos h2, M.kvs]
        exact ⟨by omega, trivial, inv_big c maxSmall _ hI.1.tail⟩
      · simp only [rest, if_neg h1, if_neg h2, M.kvs]
        exact ⟨by omega, trivial, inv_small c maxSmall _ hI.1.tail (by simp; omega)⟩

omit hc in
theorem range_spec (m : M κ ν) (hI : Inv c maxSmall m) (lo hi : Nat) :
    match range maxSmall m lo hi with
    | none => ¬ (lo ≤ hi ∧ hi ≤ m.kvs.length)
    | some m' => (lo ≤ hi ∧ hi ≤ m.kvs.length) ∧ m'.kvs = (m.kvs.take hi).drop lo ∧ Inv c maxSmall m' := by
  by_cases h : lo ≤ hi ∧ hi ≤ m.len
  · have hlen : ((m.kvs.take hi).drop lo).length = hi - lo := by
      simp only [List.length_drop, List.length_take, M.len] at *; omega
    cases m with
    | small l =>
      have hl : l.length ≤ maxSmall := hI.2 rfl
      simp only [range, if_pos h]
      simp only [M.kvs, M.len] at *
      exact ⟨h, trivial, inv_small c maxSmall _ (hI.1.slice lo hi) (by omega)⟩
    | big l =>
      by_cases h2 : hi - lo > maxSmall
      · simp only [range, if_pos h, if_pos h2]
        simp only [M.kvs, M.len] at *
        exact ⟨h, trivial, inv_big c maxSmall _ (hI.1.slice lo hi)⟩
      · simp only [range, if_pos h, if_neg h2]
        simp only [M.kvs, M.len] at *
        exact ⟨h, trivial, inv_small c maxSmall _ (hI.1.slice lo hi) (by omega)⟩
  · simp only [range, if_neg h]; exact h

/-! ### whole histories -/

/-- the variable holds NULL in both runs, or a map satisfying the invariant whose pairs are the reference map -/
def Rel (m : Option (M κ ν)) (l : Option (List (κ × ν))) : Prop :=
  match m, l with
  | none, none => True
  | some m, some l => Inv c maxSmall m ∧ m.kvs = l
  | _, _ => False

theorem step_spec (m : Option (M κ ν)) (l : Option (List (κ × ν))) (h : Rel c maxSmall m l) (op : Op κ ν) :
    Rel c maxSmall (step c maxSmall m op) (Spec.step c l op) := by
  cases op with
  | lit ps =>
    obtain ⟨e, hI⟩ := literal_spec c hc maxSmall ps
    exact ⟨hI, e⟩
  | set k v =>
    cases m <;> cases l <;> simp only [Rel] at h <;> try exact h.elim
    · trivial
    · rename_i m l
      obtain ⟨e, hI⟩ := set_spec c hc maxSmall m h.1 k v
      exact ⟨hI, by rw [e, h.2]⟩
  | del k =>
    cases m <;> cases l <;> simp only [Rel] at h <;> try exact h.elim
    · trivial
    · rename_i m l
      obtain ⟨e, hI, _⟩ := delete_spec c hc maxSmall m h.1 k
      exact ⟨hI, by rw [e, h.2]⟩
  | app ps =>
    cases m <;> cases l <;> simp only [Rel] at h <;> try exact h.elim
    · trivial
    · rename_i m l
      obtain ⟨e, hI⟩ := append_spec c hc maxSmall m (literal c maxSmall ps) h.1
      obtain ⟨e', _⟩ := literal_spec c hc maxSmall ps
      exact ⟨hI, by rw [e, e', h.2]⟩
  | rest =>
    cases m <;> cases l <;> simp only [Rel] at h <;> try exact h.elim
    · trivial
    · rename_i m l
      have := rest_spec c maxSmall m h.1
      simp only [step, Spec.step, Option.bind]
      rw [← h.2]
      split at this
      · rename_i e; rw [e, if_pos this]; trivial
      · rename_i m' e; rw [e, if_neg (by omega)]; exact ⟨this.2.2, this.2.1⟩
  | range lo hi =>
    cases m <;> cases l <;> simp only [Rel] at h <;> try exact h.elim
    · trivial
    · rename_i m l
      have := range_spec c maxSmall m h.1 lo hi
      simp only [step, Spec.step, Option.bind]
      rw [← h.2]
      split at this
      · rename_i e; rw [e, if_neg this]; trivial
      · rename_i m' e; rw [e, if_pos this.1]; exact ⟨this.2.2, this.2.1⟩

theorem run_spec_from (ops : List (Op κ ν)) : ∀ (m : Option (M κ ν)) (l : Option (List (κ × ν))), Rel c maxSmall m l →
    Rel c maxSmall (ops.foldl (step c maxSmall) m) (ops.foldl (Spec.step c) l) := by
  induction ops with
  | nil => intro m l h; exact h
  | cons op rest ih => intro m l h; exact ih _ _ (step_spec c hc maxSmall m l h op)

end

end Grol.Map

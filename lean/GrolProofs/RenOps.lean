import GrolProofs.RenEnv
/-
C10 (two-run simulation), part 3: operators on values (lean/Grol/Eval/Ops.lean).
-/
namespace Grol.R
open Grol.E

/-- close goals `SimAt (pure X) (pure X)`, `SimAt (if c then .. else ..) (if c then .. else ..)`, stops -/
macro "simfin" : tactic => `(tactic| repeat (first
  | exact SimAt.pure ‹StR _ _ _› rfl
  | exact SimAt.stop ‹StR _ _ _›
  | exact SimAt.stop_bind ‹StR _ _ _›
  | refine SimAt.ite (fun _ => ?_) (fun _ => ?_)))

theorem sim_mustBeOk {σ : Sh} {s t : St} (hR : StR σ s t) (n : Int) :
    SimAt σ (mustBeOk n) (mustBeOk n) s t (fun _ _ => True) := by
  unfold mustBeOk
  exact SimAt.ite (fun _ => SimAt.stop hR) (fun _ => SimAt.pure hR trivial)

theorem sim_mustBeOk_bind {σ : Sh} {s t : St} (hR : StR σ s t) (n : Int) {f : Unit → M α} {g : Unit → M β}
    {Q : α → β → Prop} (h : ∀ s' t', StR σ s' t' → SimAt σ (f ()) (g ()) s' t' Q) :
    SimAt σ (mustBeOk n >>= f) (mustBeOk n >>= g) s t Q :=
  SimAt.bind (sim_mustBeOk hR n) (fun _ _ s' t' hR' _ => h s' t' hR')

theorem renL_int64Range (σ : Sh) (l r : Int64) : renL σ (int64Range l r) = int64Range l r := by
  unfold int64Range
  rw [renL_eq]
  simp only [List.map_map]
  rfl

theorem sim_evalIntegerInfix {σ : Sh} {s t : St} (hR : StR σ s t) (op : String) (l r : Int64) :
    SimAt σ (evalIntegerInfix op l r) (evalIntegerInfix op l r) s t (QO σ) := by
  unfold evalIntegerInfix
  split
  all_goals first
    | (simfin; done)
    | skip
  all_goals
    try dsimp only
    refine SimAt.ite (fun _ => SimAt.pure hR rfl) (fun _ => ?_)
    refine sim_mustBeOk_bind hR _ (fun s' t' hR' => ?_)
    refine SimAt.pure hR' ?_
    simp only [QO, newArray, ren, renL_int64Range]

@[simp] theorem getFloat_ren (σ : Sh) (o : Obj) : getFloat (ren σ o) = getFloat o := by cases o <;> rfl
@[simp] theorem int64Value_ren (σ : Sh) (o : Obj) : int64Value (ren σ o) = int64Value o := by cases o <;> rfl

theorem sim_evalFloatInfix {σ : Sh} {s t : St} (hR : StR σ s t) (op : String) (l r : Obj) :
    SimAt σ (evalFloatInfix op (ren σ l) (ren σ r)) (evalFloatInfix op l r) s t (QO σ) := by
  unfold evalFloatInfix
  rw [getFloat_ren, getFloat_ren]
  split
  · split <;> simfin
  · simfin

theorem evalStringInfix_other (op : String) (l : List UInt8) (right : Obj)
    (h1 : ∀ r, right ≠ .str r) (h2 : ∀ n, right ≠ .int n) :
    evalStringInfix op l right = pure (err "unknown operator") := by
  unfold evalStringInfix
  split
  · next r => exact absurd rfl (h1 r)
  · next n => exact absurd rfl (h2 n)
  · rfl

theorem sim_evalStringInfix_same {σ : Sh} {s t : St} (hR : StR σ s t) (op : String) (l : List UInt8) (r : Obj)
    (hr : ren σ r = r) : SimAt σ (evalStringInfix op l r) (evalStringInfix op l r) s t (QO σ) := by
  unfold evalStringInfix
  split
  · refine sim_mustBeOk_bind hR _ (fun s' t' hR' => ?_); simfin
  · refine SimAt.ite (fun _ => SimAt.pure hR rfl) (fun _ => ?_)
    refine sim_mustBeOk_bind hR _ (fun s' t' hR' => ?_)
    simfin
  · simfin

theorem sim_evalStringInfix {σ : Sh} {s t : St} (hR : StR σ s t) (op : String) (l : List UInt8) (r : Obj) :
    SimAt σ (evalStringInfix op l (ren σ r)) (evalStringInfix op l r) s t (QO σ) := by
  cases r with
  | str x => exact sim_evalStringInfix_same hR op l _ rfl
  | int x => exact sim_evalStringInfix_same hR op l _ rfl
  | _ =>
    all_goals
      rw [evalStringInfix_other op l _ (by intro r h; cases h) (by intro n h; cases h),
        evalStringInfix_other op l _ (by intro r h; simp [ren] at h) (by intro n h; simp [ren] at h)]
      exact SimAt.pure hR rfl

/-! ### arrays -/

theorem renL_append (σ : Sh) (a b : List Obj) : renL σ (a ++ b) = renL σ a ++ renL σ b := by
  simp [renL_eq]

theorem renL_repeat (σ : Sh) (l : List Obj) : ∀ n, renL σ (repeatList l n) = repeatList (renL σ l) n
  | 0 => rfl
  | n + 1 => by unfold repeatList; rw [renL_append, renL_repeat σ l n]

theorem renL_isEmpty (σ : Sh) (l : List Obj) : (renL σ l).isEmpty = l.isEmpty := by
  cases l <;> rfl

theorem sim_evalArrayInfix {σ : Sh} {s t : St} (hR : StR σ s t) (op : String) (l : List Obj) {a right : Obj}
    (ha : a = ren σ right) :
    SimAt σ (evalArrayInfix op (renL σ l) a) (evalArrayInfix op l right) s t (QO σ) := by
  subst ha
  unfold evalArrayInfix
  split
  · rw [int64Value_ren]
    split
    · simfin
    · refine SimAt.ite (fun _ => SimAt.pure hR rfl) (fun _ => ?_)
      rw [renL_length, renL_isEmpty]
      refine sim_mustBeOk_bind hR _ (fun s' t' hR' => ?_)
      refine SimAt.ite (fun _ => SimAt.pure hR' rfl) (fun _ => SimAt.pure hR' ?_)
      simp only [QO, newArray, ren, renL_repeat]
  · cases right with
    | array r =>
      simp only [ren, renL_length]
      refine sim_mustBeOk_bind hR _ (fun s' t' hR' => ?_)
      refine SimAt.pure hR' ?_
      simp only [QO, newArray, ren, renL_append]
    | _ =>
      all_goals
        refine SimAt.bind (sim_valueOf hR _) ?_
        rintro x v s' t' hR' ⟨rfl, _⟩
        refine SimAt.pure hR' ?_
        simp only [QO, newArray, ren, renL_append, renL]
  · simfin

/-! ### comparison -/

theorem sim_equalsM {σ : Sh} {s t : St} (hR : StR σ s t) (a b : Obj) :
    SimAt σ (equalsM (ren σ a) (ren σ b)) (equalsM a b) s t (fun x y => x = y) := by
  unfold equalsM
  rw [ren_typeNum, ren_typeNum]
  try dsimp only
  refine SimAt.ite (fun _ => SimAt.pure hR rfl) (fun _ => ?_)
  refine SimAt.bind (sim_valueOf hR a) ?_
  rintro _ x s1 t1 hR1 ⟨rfl, _⟩
  refine SimAt.bind (sim_valueOf hR1 b) ?_
  rintro _ y s2 t2 hR2 ⟨rfl, _⟩
  rw [cmp_ren]
  refine SimAt.bind (Q := fun c c' => c = c') (SimAt.liftR hR2 (RelR.of_eq (f := id) (by cases cmp x y <;> rfl) (fun _ => rfl))) ?_
  rintro c _ s3 t3 hR3 rfl
  exact SimAt.pure hR3 rfl

theorem sim_cmpM {σ : Sh} {s t : St} (hR : StR σ s t) (a b : Obj) :
    SimAt σ (cmpM (ren σ a) (ren σ b)) (cmpM a b) s t (fun x y => x = y) := by
  unfold cmpM
  refine SimAt.bind (sim_valueOf hR a) ?_
  rintro _ x s1 t1 hR1 ⟨rfl, _⟩
  refine SimAt.bind (sim_valueOf hR1 b) ?_
  rintro _ y s2 t2 hR2 ⟨rfl, _⟩
  rw [cmp_ren]
  exact SimAt.liftR hR2 (RelR.of_eq (f := id) (by cases cmp x y <;> rfl) (fun _ => rfl))

theorem sim_boolOf {σ : Sh} {s t : St} {x y : M α} {g : α → Bool} (h : SimAt σ x y s t (fun a b => a = b)) :
    SimAt σ (x >>= fun a => pure (boolObj (g a))) (y >>= fun a => pure (boolObj (g a))) s t (QO σ) := by
  refine SimAt.bind h ?_
  rintro a _ s' t' hR' rfl
  exact SimAt.pure hR' rfl

theorem sim_evalFloatInfix' {σ : Sh} {s t : St} (hR : StR σ s t) (op : String) {a b l r : Obj}
    (ha : a = ren σ l) (hb : b = ren σ r) :
    SimAt σ (evalFloatInfix op a b) (evalFloatInfix op l r) s t (QO σ) := by
  subst ha; subst hb; exact sim_evalFloatInfix hR op l r

theorem sim_evalStringInfix' {σ : Sh} {s t : St} (hR : StR σ s t) (op : String) (l : List UInt8) {a r : Obj}
    (ha : a = ren σ r) : SimAt σ (evalStringInfix op l a) (evalStringInfix op l r) s t (QO σ) := by
  subst ha; exact sim_evalStringInfix hR op l r

theorem sim_mapPlus {σ : Sh} {s t : St} (hR : StR σ s t) (op : String) (lb : Bool) (l r : List (Obj × Obj)) :
    SimAt σ
      (if (op == "PLUS") = true then do
        let __do_lift ← get
        let __x ← Grol.E.liftR (mapAppend __do_lift.cfg lb (renP σ l) (renP σ r))
        match __x with
          | (big, kvs) => pure (Obj.map big kvs)
      else pure (err "unknown operator"))
      (if (op == "PLUS") = true then do
        let __do_lift ← get
        let __x ← Grol.E.liftR (mapAppend __do_lift.cfg lb l r)
        match __x with
          | (big, kvs) => pure (Obj.map big kvs)
      else pure (err "unknown operator")) s t (QO σ) := by
  refine SimAt.ite (fun _ => ?_) (fun _ => SimAt.pure hR rfl)
  refine SimAt.bind_read (runM_get s) (runM_get t) ?_
  rw [hR.cfg, mapAppend_ren]
  refine SimAt.bind (Q := fun a b => a = (b.1, renP σ b.2))
    (SimAt.liftR hR (RelR.of_eq (f := fun p => (p.1, renP σ p.2)) rfl (fun _ => rfl))) ?_
  rintro _ ⟨big, kvs⟩ s' t' hR' rfl
  exact SimAt.pure hR' rfl

/-- the `&&` of `evalInfixExpression` on already evaluated operands -/
theorem and_ren (σ : Sh) (left right : Obj) :
    boolObj (match ren σ left, ren σ right with | .bool true, .bool true => true | _, _ => false) =
    ren σ (boolObj (match left, right with | .bool true, .bool true => true | _, _ => false)) := by
  cases left with
  | bool b =>
    cases b with
    | false => rfl
    | true =>
      cases right with
      | bool c => cases c <;> rfl
      | _ => rfl
  | _ => rfl

theorem or_ren (σ : Sh) (left right : Obj) :
    boolObj (match ren σ left, ren σ right with | .bool true, _ => true | _, .bool true => true | _, _ => false) =
    ren σ (boolObj (match left, right with | .bool true, _ => true | _, .bool true => true | _, _ => false)) := by
  cases left with
  | bool b =>
    cases b with
    | true => rfl
    | false =>
      cases right with
      | bool c => cases c <;> rfl
      | _ => rfl
  | _ =>
    all_goals
      cases right with
      | bool c => cases c <;> rfl
      | _ => rfl

theorem sim_infixDefault {σ : Sh} {s t : St} (hR : StR σ s t) (op : String) (left right : Obj) :
    SimAt σ
      (match ren σ left, ren σ right with
      | Obj.int l, Obj.int r => evalIntegerInfix op l r
      | Obj.float _, _ => evalFloatInfix op (ren σ left) (ren σ right)
      | _, Obj.float _ => evalFloatInfix op (ren σ left) (ren σ right)
      | Obj.str l, _ => evalStringInfix op l (ren σ right)
      | Obj.array l, _ => evalArrayInfix op l (ren σ right)
      | Obj.map lb l, Obj.map _ r =>
        if (op == "PLUS") = true then do
          let __do_lift ← get
          let __x ← Grol.E.liftR (mapAppend __do_lift.cfg lb l r)
          match __x with
            | (big, kvs) => pure (Obj.map big kvs)
        else pure (err "unknown operator")
      | _, _ => pure (err "no operator on these operands"))
      (match left, right with
      | Obj.int l, Obj.int r => evalIntegerInfix op l r
      | Obj.float _, _ => evalFloatInfix op left right
      | _, Obj.float _ => evalFloatInfix op left right
      | Obj.str l, _ => evalStringInfix op l right
      | Obj.array l, _ => evalArrayInfix op l right
      | Obj.map lb l, Obj.map _ r =>
        if (op == "PLUS") = true then do
          let __do_lift ← get
          let __x ← Grol.E.liftR (mapAppend __do_lift.cfg lb l r)
          match __x with
            | (big, kvs) => pure (Obj.map big kvs)
        else pure (err "unknown operator")
      | _, _ => pure (err "no operator on these operands")) s t (QO σ) := by
  cases left <;> cases right
  all_goals first
    | exact sim_evalIntegerInfix hR op _ _
    | exact sim_evalFloatInfix' hR op rfl rfl
    | exact sim_evalStringInfix' hR op _ rfl
    | exact sim_evalArrayInfix hR op _ rfl
    | exact sim_mapPlus hR op _ _ _
    | exact SimAt.pure hR rfl

theorem sim_evalInfixOp {σ : Sh} {s t : St} (hR : StR σ s t) (op : String) (left right : Obj) :
    SimAt σ (evalInfixOp op (ren σ left) (ren σ right)) (evalInfixOp op left right) s t (QO σ) := by
  unfold evalInfixOp
  split
  · exact sim_boolOf (g := fun b => b) (sim_equalsM hR left right)
  · exact sim_boolOf (g := fun b => !b) (sim_equalsM hR left right)
  · exact sim_boolOf (g := fun c => c == 1) (sim_cmpM hR left right)
  · exact sim_boolOf (g := fun c => c == -1) (sim_cmpM hR left right)
  · exact sim_boolOf (g := fun c => decide (c ≥ 0)) (sim_cmpM hR left right)
  · exact sim_boolOf (g := fun c => decide (c ≤ 0)) (sim_cmpM hR left right)
  · exact SimAt.pure hR (and_ren σ left right)
  · exact SimAt.pure hR (or_ren σ left right)
  · exact sim_infixDefault hR op left right

end Grol.R

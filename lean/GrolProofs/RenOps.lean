import GrolProofs.RenEnv
/-
C10 (two-run simulation), part 3: operators on values (lean/Grol/Eval/Ops.lean).
-/
namespace Grol.R
open Grol.E

/-- close goals `SimAt (pure X) (pure X)`, `SimAt (if c then .. else ..) (if c then .. else ..)`, stops -/
macro "simfin" : tactic => `(tactic| repeat (first
  | exact SimAt.pure ‹StR _ _ _› rfl
  | exact SimAt.stop ‹StR _ _ _›
  | exact SimAt.stop_bind ‹StR _ _ _›
  | refine SimAt.ite (fun _ => ?_) (fun _ => ?_)))

theorem sim_mustBeOk {σ : Sh} {s t : St} (hR : StR σ s t) (n : Int) :
    SimAt σ (mustBeOk n) (mustBeOk n) s t (fun _ _ => True) := by
  unfold mustBeOk
  exact SimAt.ite (fun _ => SimAt.stop hR) (fun _ => SimAt.pure hR trivial)

theorem sim_mustBeOk_bind {σ : Sh} {s t : St} (hR : StR σ s t) (n : Int) {f : Unit → M α} {g : Unit → M β}
    {Q : α → β → Prop} (h : ∀ s' t', StR σ s' t' → SimAt σ (f ()) (g ()) s' t' Q) :
    SimAt σ (mustBeOk n >>= f) (mustBeOk n >>= g) s t Q :=
  SimAt.bind (sim_mustBeOk hR n) (fun _ _ s' t' hR' _ => h s' t' hR')

theorem renL_int64Range (σ : Sh) (l r : Int64) : renL σ (int64Range l r) = int64Range l r := by
  unfold int64Range
  rw [renL_eq]
  simp only [List.map_map]
  rfl

theorem sim_evalIntegerInfix {σ : Sh} {s t : St} (hR : StR σ s t) (op : String) (l r : Int64) :
    SimAt σ (evalIntegerInfix op l r) (evalIntegerInfix op l r) s t (QO σ) := by
  unfold evalIntegerInfix
  split
  all_goals first
    | (simfin; done)
    | skip
  all_goals
    try dsimp only
    refine SimAt.ite (fun _ => SimAt.pure hR rfl) (fun _ => ?_)
    refine sim_mustBeOk_bind hR _ (fun s' t' hR' => ?_)
    refine SimAt.pure hR' ?_
    simp only [QO, newArray, ren, renL_int64Range]

@[simp] theorem getFloat_ren (σ : Sh) (o : Obj) : getFloat (ren σ o) = getFloat o := by cases o <;> rfl
@[simp] theorem int64Value_ren (σ : Sh) (o : Obj) : int64Value (ren σ o) = int64Value o := by cases o <;> rfl

theorem sim_evalFloatInfix {σ : Sh} {s t : St} (hR : StR σ s t) (op : String) (l r : Obj) :
    SimAt σ (evalFloatInfix op (ren σ l) (ren σ r)) (evalFloatInfix op l r) s t (QO σ) := by
  unfold evalFloatInfix
  rw [getFloat_ren, getFloat_ren]
  split
  · split <;> simfin
  · simfin

theorem evalStringInfix_other (op : String) (l : List UInt8) (right : Obj)
    (h1 : ∀ r, right ≠ .str r) (h2 : ∀ n, right ≠ .int n) :
    evalStringInfix op l right = pure (err "unknown operator") := by
  unfold evalStringInfix
  split
  · next r => exact absurd rfl (h1 r)
  · next n => exact absurd rfl (h2 n)
  · rfl

theorem sim_evalStringInfix_same {σ : Sh} {s t : St} (hR : StR σ s t) (op : String) (l : List UInt8) (r : Obj)
    (hr : ren σ r = r) : SimAt σ (evalStringInfix op l r) (evalStringInfix op l r) s t (QO σ) := by
  unfold evalStringInfix
  split
  · refine sim_mustBeOk_bind hR _ (fun s' t' hR' => ?_); simfin
  · refine SimAt.ite (fun _ => SimAt.pure hR rfl) (fun _ => ?_)
    refine sim_mustBeOk_bind hR _ (fun s' t' hR' => ?_)
    simfin
  · simfin

theorem sim_evalStringInfix {σ : Sh} {s t : St} (hR : StR σ s t) (op : String) (l : List UInt8) (r : Obj) :
    SimAt σ (evalStringInfix op l (ren σ r)) (evalStringInfix op l r) s t (QO σ) := by
  cases r with
  | str x => exact sim_evalStringInfix_same hR op l _ rfl
  | int x => exact sim_evalStringInfix_same hR op l _ rfl
  | _ =>
    all_goals
      rw [evalStringInfix_other op l _ (by intro r h; cases h) (by intro n h; cases h),
        evalStringInfix_other op l _ (by intro r h; simp [ren] at h) (by intro n h; simp [ren] at h)]
      exact SimAt.pure hR rfl

/-! ### arrays -/

theorem renL_append (σ : Sh) (a b : List Obj) : renL σ (a ++ b) = renL σ a ++ renL σ b := by
  simp [renL_eq]

theorem renL_repeat (σ : Sh) (l : List Obj) : ∀ n, renL σ (repeatList l n) = repeatList (renL σ l) n
  | 0 => rfl
  | n + 1 => by unfold repeatList; rw [renL_append, renL_repeat σ l n]

theorem renL_isEmpty (σ : Sh) (l : List Obj) : (renL σ l).isEmpty = l.isEmpty := by
  cases l <;> rfl

theorem sim_evalArrayInfix {σ : Sh} {s t : St} (hR : StR σ s t) (op : String) (l : List Obj) {a right : Obj}
    (ha : a = ren σ right) :
    SimAt σ (evalArrayInfix op (renL σ l) a) (evalArrayInfix op l right) s t (QO σ) := by
  subst ha
  unfold evalArrayInfix
  split
  · rw [int64Value_ren]
    split
    · simfin
    · refine SimAt.ite (fun _ => SimAt.pure hR rfl) (fun _ => ?_)
      rw [renL_length, renL_isEmpty]
      refine sim_mustBeOk_bind hR _ (fun s' t' hR' => ?_)
      refine SimAt.ite (fun _ => SimAt.pure hR' rfl) (fun _ => SimAt.pure hR' ?_)
      simp only [QO, newArray, ren, renL_repeat]
  · cases right with
    | array r =>
      simp only [ren, renL_length]
      refine sim_mustBeOk_bind hR _ (fun s' t' hR' => ?_)
      refine SimAt.pure hR' ?_
      simp only [QO, newArray, ren, renL_append]
    | _ =>
      all_goals
        refine SimAt.bind (sim_valueOf hR _) ?_
        rintro x v s' t' hR' ⟨rfl, _⟩
        refine SimAt.pure hR' ?_
        simp only [QO, newArray, ren, renL_append, renL]
  · simfin

/-! ### comparison -/

theorem sim_equalsM {σ : Sh} {s t : St} (hR : StR σ s t) (a b : Obj) :
    SimAt σ (equalsM (ren σ a) (ren σ b)) (equalsM a b) s t (fun x y => x = y) := by
  unfold equalsM
  rw [ren_typeNum, ren_typeNum]
  try dsimp only
  refine SimAt.ite (fun _ => SimAt.pure hR rfl) (fun _ => ?_)
  refine SimAt.bind (sim_valueOf hR a) ?_
  rintro _ x s1 t1 hR1 ⟨rfl, _⟩
  refine SimAt.bind (sim_valueOf hR1 b) ?_
  rintro _ y s2 t2 hR2 ⟨rfl, _⟩
  rw [cmp_ren]
  refine SimAt.bind (Q := fun c c' => c = c') (SimAt.liftR hR2 (RelR.of_eq (f := id) (by cases cmp x y <;> rfl) (fun _ => rfl))) ?_
  rintro c _ s3 t3 hR3 rfl
  exact SimAt.pure hR3 rfl

theorem sim_cmpM {σ : Sh} {s t : St} (hR : StR σ s t) (a b : Obj) :
    SimAt σ (cmpM (ren σ a) (ren σ b)) (cmpM a b) s t (fun x y => x = y) := by
  unfold cmpM
  refine SimAt.bind (sim_valueOf hR a) ?_
  rintro _ x s1 t1 hR1 ⟨rfl, _⟩
  refine SimAt.bind (sim_valueOf hR1 b) ?_
  rintro _ y s2 t2 hR2 ⟨rfl, _⟩
  rw [cmp_ren]
  exact SimAt.liftR hR2 (RelR.of_eq (f := id) (by cases cmp x y <;> rfl) (fun _ => rfl))

theorem sim_boolOf {σ : Sh} {s t : St} {x y : M α} {g : α → Bool} (h : SimAt σ x y s t (fun a b => a = b)) :
    SimAt σ (x >>= fun a => pure (boolObj (g a))) (y >>= fun a => pure (boolObj (g a))) s t (QO σ) := by
  refine SimAt.bind h ?_
  rintro a _ s' t' hR' rfl
  exact SimAt.pure hR' rfl

theorem sim_evalFloatInfix' {σ : Sh} {s t : St} (hR : StR σ s t) (op : String) {a b l r : Obj}
    (ha : a = ren σ l) (hb : b = ren σ r) :
    SimAt σ (evalFloatInfix op a b) (evalFloatInfix op l r) s t (QO σ) := by
  subst ha; subst hb; exact sim_evalFloatInfix hR op l r

theorem sim_evalStringInfix' {σ : Sh} {s t : St} (hR : StR σ s t) (op : String) (l : List UInt8) {a r : Obj}
    (ha : a = ren σ r) : SimAt σ (evalStringInfix op l a) (evalStringInfix op l r) s t (QO σ) := by
  subst ha; exact sim_evalStringInfix hR op l r

theorem sim_mapPlus {σ : Sh} {s t : St} (hR : StR σ s t) (op : String) (lb : Bool) (l r : List (Obj × Obj)) :
    SimAt σ
      (if (op == "PLUS") = true then do
        let __do_lift ← get
        let __x ← Grol.E.liftR (mapAppend __do_lift.cfg lb (renP σ l) (renP σ r))
        match __x with
          | (big, kvs) => pure (Obj.map big kvs)
      else pure (err "unknown operator"))
      (if (op == "PLUS") = true then do
        let __do_lift ← get
        let __x ← Grol.E.liftR (mapAppend __do_lift.cfg lb l r)
        match __x with
          | (big, kvs) => pure (Obj.map big kvs)
      else pure (err "unknown operator")) s t (QO σ) := by
  refine SimAt.ite (fun _ => ?_) (fun _ => SimAt.pure hR rfl)
  refine SimAt.bind_read (runM_get s) (runM_get t) ?_
  rw [hR.cfg, mapAppend_ren]
  refine SimAt.bind (Q := fun a b => a = (b.1, renP σ b.2))
    (SimAt.liftR hR (RelR.of_eq (f := fun p => (p.1, renP σ p.2)) rfl (fun _ => rfl))) ?_
  rintro _ ⟨big, kvs⟩ s' t' hR' rfl
  exact SimAt.pure hR' rfl

/-- the `&&` of `evalInfixExpression` on already evaluated operands -/
theorem and_ren (σ : Sh) (left right : Obj) :
    boolObj (match ren σ left, ren σ right with | .bool true, .bool true => true | _, _ => false) =
    ren σ (boolObj (match left, right with | .bool true, .bool true => true | _, _ => false)) := by
  cases left with
  | bool b =>
    cases b with
    | false => rfl
    | true =>
      cases right with
      | bool c => cases c <;> rfl
      | _ => rfl
  | _ => rfl

theorem or_ren (σ : Sh) (left right : Obj) :
    boolObj (match ren σ left, ren σ right with | .bool true, _ => true | _, .bool true => true | _, _ => false) =
    ren σ (boolObj (match left, right with | .bool true, _ => true | _, .bool true => true | _, _ => false)) := by
  cases left with
  | bool b =>
    cases b with
    | true => rfl
    | false =>
      cases right with
      | bool c => cases c <;> rfl
      | _ => rfl
  | _ =>
    all_goals
      cases right with
      | bool c => cases c <;> rfl
      | _ => rfl

theorem sim_infixDefault {σ : Sh} {s t : St} (hR : StR σ s t) (op : String) (left right : Obj) :
    SimAt σ
      (match ren σ left, ren σ right with
      | Obj.int l, Obj.int r => evalIntegerInfix op l r
      | Obj.float _, _ => evalFloatInfix op (ren σ left) (ren σ right)
      | _, Obj.float _ => evalFloatInfix op (ren σ left) (ren σ right)
      | Obj.str l, _ => evalStringInfix op l (ren σ right)
      | Obj.array l, _ => evalArrayInfix op l (ren σ right)
      | Obj.map lb l, Obj.map _ r =>
        if (op == "PLUS") = true then do
          let __do_lift ← get
          let __x ← Grol.E.liftR (mapAppend __do_lift.cfg lb l r)
          match __x with
            | (big, kvs) => pure (Obj.map big kvs)
        else pure (err "unknown operator")
      | _, _ => pure (err "no operator on these operands"))
      (match left, right with
      | Obj.int l, Obj.int r => evalIntegerInfix op l r
      | Obj.float _, _ => evalFloatInfix op left right
      | _, Obj.float _ => evalFloatInfix op left right
      | Obj.str l, _ => evalStringInfix op l right
      | Obj.array l, _ => evalArrayInfix op l right
      | Obj.map lb l, Obj.map _ r =>
        if (op == "PLUS") = true then do
          let __do_lift ← get
          let __x ← Grol.E.liftR (mapAppend __do_lift.cfg lb l r)
          match __x with
            | (big, kvs) => pure (Obj.map big kvs)
        else pure (err "unknown operator")
      | _, _ => pure (err "no operator on these operands")) s t (QO σ) := by
  cases left <;> cases right
  all_goals first
    | exact sim_evalIntegerInfix hR op _ _
    | exact sim_evalFloatInfix' hR op rfl rfl
    | exact sim_evalStringInfix' hR op _ rfl
    | exact sim_evalArrayInfix hR op _ rfl
    | exact sim_mapPlus hR op _ _ _
    | exact SimAt.pure hR rfl

theorem sim_evalInfixOp {σ : Sh} {s t : St} (hR : StR σ s t) (op : String) (left right : Obj) :
    SimAt σ (evalInfixOp op (ren σ left) (ren σ right)) (evalInfixOp op left right) s t (QO σ) := by
  unfold evalInfixOp
  split
  · exact sim_boolOf (g := fun b => b) (sim_equalsM hR left right)
  · exact sim_boolOf (g := fun b => !b) (sim_equalsM hR left right)
  · exact sim_boolOf (g := fun c => c == 1) (sim_cmpM hR left right)
  · exact sim_boolOf (g := fun c => c == -1) (sim_cmpM hR left right)
  · exact sim_boolOf (g := fun c => decide (c ≥ 0)) (sim_cmpM hR left right)
  · exact sim_boolOf (g := fun c => decide (c ≤ 0)) (sim_cmpM hR left right)
  · exact SimAt.pure hR (and_ren σ left right)
  · exact SimAt.pure hR (or_ren σ left right)
  · exact sim_infixDefault hR op left right

/-! ### first / rest / len / index / prefix -/

@[simp] theorem objLen_ren (σ : Sh) (o : Obj) : objLen (ren σ o) = objLen o := by
  cases o <;> simp [ren, objLen]

theorem renP_drop (σ : Sh) (l : List (Obj × Obj)) (n : Nat) : renP σ (l.drop n) = (renP σ l).drop n := by
  simp [renP_eq, List.map_drop]
theorem renP_take (σ : Sh) (l : List (Obj × Obj)) (n : Nat) : renP σ (l.take n) = (renP σ l).take n := by
  simp [renP_eq, List.map_take]
theorem renL_drop (σ : Sh) (l : List Obj) (n : Nat) : renL σ (l.drop n) = (renL σ l).drop n := by
  simp [renL_eq, List.map_drop]
theorem renL_take (σ : Sh) (l : List Obj) (n : Nat) : renL σ (l.take n) = (renL σ l).take n := by
  simp [renL_eq, List.map_take]

theorem sim_objFirst {σ : Sh} {s t : St} (hR : StR σ s t) (o : Obj) :
    SimAt σ (objFirst (ren σ o)) (objFirst o) s t (QO σ) := by
  cases o with
  | array els => cases els <;> exact SimAt.pure hR rfl
  | map b kvs =>
    cases kvs with
    | nil => exact SimAt.pure hR rfl
    | cons kv rest => obtain ⟨k, v⟩ := kv; exact SimAt.pure hR rfl
  | str x =>
    cases x with
    | nil => exact SimAt.pure hR rfl
    | cons c rest =>
      simp only [ren]
      unfold objFirst
      refine SimAt.ite (fun _ => SimAt.pure hR rfl) (fun _ => ?_)
      exact SimAt.ite (fun _ => SimAt.stop hR) (fun _ => SimAt.stop hR)
  | func f =>
    refine SimAt.pure hR ?_
    simp only [QO, ren, renFn, newArray]
    congr 1
    rw [renL_eq]
    simp only [List.map_map]
    rfl
  | _ => all_goals exact SimAt.pure hR rfl

theorem sim_objRest {σ : Sh} {s t : St} (hR : StR σ s t) (o : Obj) :
    SimAt σ (objRest (ren σ o)) (objRest o) s t (QO σ) := by
  cases o with
  | array els =>
    simp only [ren]
    unfold objRest
    dsimp only
    rw [renL_length]
    refine SimAt.ite (fun _ => SimAt.pure hR rfl) (fun _ => SimAt.pure hR ?_)
    simp only [QO, newArray, ren, renL_drop]
  | map b kvs =>
    simp only [ren]
    unfold objRest
    dsimp only
    rw [renP_length]
    refine SimAt.ite (fun _ => SimAt.pure hR rfl) (fun _ => ?_)
    refine SimAt.bind_read (runM_get s) (runM_get t) ?_
    rw [hR.cfg]
    refine SimAt.pure hR ?_
    simp only [QO, ren, renP_drop]
  | str x =>
    simp only [ren]
    unfold objRest
    dsimp only
    simfin
  | func f =>
    simp only [ren]
    unfold objRest
    dsimp only
    exact SimAt.stop hR
  | _ => all_goals exact SimAt.pure hR rfl

theorem getD_ren (σ : Sh) (els : List Obj) (i : Nat) : (renL σ els).getD i .null = ren σ (els.getD i .null) := by
  rw [List.getD_eq_getElem?_getD, List.getD_eq_getElem?_getD, renL_eq]
  simp only [List.getElem?_map]
  cases els[i]? <;> rfl

theorem arrayIndex_ren (σ : Sh) (els : List Obj) (idx : Int64) :
    arrayIndex (renL σ els) idx = ren σ (arrayIndex els idx) := by
  unfold arrayIndex
  simp only [renL_length, getD_ren, apply_ite (ren σ), ren]

/-- the body of `evalIndexExpressionIdx` with the index already classified -/
def idxBody (left index : Obj) (idx? : Option Int64) : M Obj :=
  match left, idx? with
  | .str s, some idx =>
    let num : Int := s.length
    let i : Int := if idx < 0 then num + idx.toInt else idx.toInt
    if i < 0 || i ≥ num then pure .null else pure (.int (Int64.ofNat (s.getD i.toNat 0).toNat))
  | .array els, some idx => pure (arrayIndex els idx)
  | .map _ kvs, _ => do
    match ← Grol.E.liftR (mapGet kvs index) with
    | some v => pure v
    | none => pure .null
  | .null, _ => pure .null
  | _, _ => pure (err "index operator not supported")

def idxOf : Obj → Option Int64
  | .null => some 0
  | o => int64Value o

theorem indexIdx_eq (left index : Obj) : indexIdx left index = idxBody left index (idxOf index) := rfl

theorem idxOf_ren (σ : Sh) (o : Obj) : idxOf (ren σ o) = idxOf o := by cases o <;> rfl

theorem sim_indexIdx {σ : Sh} {s t : St} (hR : StR σ s t) (left index : Obj) :
    SimAt σ (indexIdx (ren σ left) (ren σ index)) (indexIdx left index) s t (QO σ) := by
  rw [indexIdx_eq, indexIdx_eq, idxOf_ren]
  generalize idxOf index = idx?
  unfold idxBody
  cases left with
  | str x =>
    simp only [ren]
    cases idx? with
    | none => exact SimAt.pure hR rfl
    | some idx => dsimp only; simfin
  | array els =>
    simp only [ren]
    cases idx? with
    | none => exact SimAt.pure hR rfl
    | some idx => exact SimAt.pure hR (arrayIndex_ren σ els idx)
  | map b kvs =>
    simp only [ren]
    have : SimAt σ (do
            let __do_lift ← Grol.E.liftR (mapGet (renP σ kvs) (ren σ index))
            match __do_lift with
              | some v => pure v
              | none => pure Obj.null)
          (do
            let __do_lift ← Grol.E.liftR (mapGet kvs index)
            match __do_lift with
              | some v => pure v
              | none => pure Obj.null) s t (QO σ) := by
      rw [mapGet_ren]
      refine SimAt.bind (Q := fun a b => a = b.map (ren σ))
        (SimAt.liftR hR (RelR.of_eq (f := Option.map (ren σ)) rfl (fun _ => rfl))) ?_
      rintro _ r s' t' hR' rfl
      cases r <;> exact SimAt.pure hR' rfl
    cases idx? <;> exact this
  | null => cases idx? <;> exact SimAt.pure hR rfl
  | _ => all_goals (cases idx? <;> exact SimAt.pure hR rfl)

theorem evalPrefixOp_ren (σ : Sh) (op : String) (r : Obj) :
    evalPrefixOp op (ren σ r) = ren σ (evalPrefixOp op r) := by
  unfold evalPrefixOp
  split
  · rfl
  · cases r <;> rfl
  · cases r <;> rfl
  · rw [int64Value_ren]; cases int64Value r <;> rfl
  · rw [int64Value_ren]; cases int64Value r <;> rfl
  · rfl
  · rfl

theorem incrValue_ren (σ : Sh) (v : Obj) (a : Int64) :
    incrValue (ren σ v) a = (incrValue v a).map (ren σ) := by
  cases v <;> rfl

end Grol.R

import GrolProofs.ParseSafe
/- `streamWFb` (executable, evaluated by the driver on every stream of the real lexer) decides `StreamWF`. -/
namespace Grol.Parser
open Grol.Generated

theorem get_of_le (s : TokStream) {i : Nat} (h : s.toks.length ≤ i) : s.get i = s.eof := by
  unfold TokStream.get
  rw [List.getElem?_eq_none h]
  rfl

theorem tokWF_of_b {s : TokStream} {i : Nat} (h : tokWFb s i = true) : TokWF s i := by
  unfold tokWFb at h
  simp only [Bool.and_eq_true, decide_eq_true_eq] at h
  refine ⟨h.1, fun hl => ?_⟩
  have h2 := h.2
  rw [if_pos hl] at h2
  simp only [Bool.or_eq_true, decide_eq_true_eq] at h2
  rcases h2 with (h2 | h2) | h2
  · exact Or.inl h2
  · exact Or.inr (Or.inl h2)
  · exact Or.inr (Or.inr h2)

theorem streamWF_of_b {s : TokStream} (h : streamWFb s = true) : StreamWF s := by
  intro i
  unfold streamWFb at h
  rw [List.all_eq_true] at h
  by_cases hi : i ≤ s.toks.length
  · exact tokWF_of_b (h i (List.mem_range.mpr (by omega)))
  · have hl := tokWF_of_b (h s.toks.length (List.mem_range.mpr (by omega)))
    have e1 : s.get i = s.get s.toks.length := by
      rw [get_of_le s (by omega), get_of_le s (Nat.le_refl _)]
    have e2 : s.get (i + 1) = s.get (s.toks.length + 1) := by
      rw [get_of_le s (by omega), get_of_le s (by omega)]
    unfold TokWF at hl ⊢
    rw [e1, e2]
    exact hl

end Grol.Parser

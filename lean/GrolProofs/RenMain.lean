import GrolProofs.RenHelpers
/-
C10 (two-run simulation), part 5: the mutually recursive tree walker, by induction on the fuel.
-/
namespace Grol.R
open Grol.E

def renEx (σ : Sh) : Except Obj (List Obj) → Except Obj (List Obj)
  | .ok l => .ok (renL σ l)
  | .error e => .error (ren σ e)

/-- the statement proved for every function of the mutual block, at a given fuel: run from related
states on renamed arguments, the two runs end the same way, in related states, with renamed results -/
structure SimSpec (σ : Sh) (fuel : Nat) : Prop where
  eval : ∀ node s t, StR σ s t → SimAt σ (eval fuel node) (eval fuel node) s t (QO σ)
  evalI : ∀ node s t, StR σ s t → SimAt σ (evalI fuel node) (evalI fuel node) s t (QO σ)
  evalStatements : ∀ l res s t, StR σ s t →
    SimAt σ (evalStatements fuel l (ren σ res)) (evalStatements fuel l res) s t (QO σ)
  evalExpressions : ∀ l acc s t, StR σ s t →
    SimAt σ (evalExpressions fuel l (renL σ acc)) (evalExpressions fuel l acc) s t (fun a b => a = renEx σ b)
  evalAssignment : ∀ right op left s t, StR σ s t →
    SimAt σ (evalAssignment fuel (ren σ right) op left) (evalAssignment fuel right op left) s t (QO σ)
  evalIf : ∀ c cons alt s t, StR σ s t → SimAt σ (evalIf fuel c cons alt) (evalIf fuel c cons alt) s t (QO σ)
  evalFor : ∀ c body s t, StR σ s t → SimAt σ (evalFor fuel c body) (evalFor fuel c body) s t (QO σ)
  evalForLoop : ∀ c body last s t, StR σ s t →
    SimAt σ (evalForLoop fuel c body (ren σ last)) (evalForLoop fuel c body last) s t (QO σ)
  evalForSpecialForms : ∀ c body s t, StR σ s t →
    SimAt σ (evalForSpecialForms fuel c body) (evalForSpecialForms fuel c body) s t (QOpt σ)
  evalForInteger : ∀ body i endV name last s t, StR σ s t →
    SimAt σ (evalForInteger fuel body i endV name (ren σ last)) (evalForInteger fuel body i endV name last) s t (QO σ)
  evalForList : ∀ body list name last s t, StR σ s t →
    SimAt σ (evalForList fuel body (ren σ list) name (ren σ last)) (evalForList fuel body list name last) s t (QO σ)
  evalBuiltin : ∀ tk ps s t, StR σ s t → SimAt σ (evalBuiltin fuel tk ps) (evalBuiltin fuel tk ps) s t (QO σ)
  evalPrint : ∀ tk ps first buf s t, StR σ s t →
    SimAt σ (evalPrint fuel tk ps first buf) (evalPrint fuel tk ps first buf) s t (QO σ)
  evalDelete : ∀ node s t, StR σ s t → SimAt σ (evalDelete fuel node) (evalDelete fuel node) s t (QO σ)
  evalIndexExpression : ∀ left tok i s t, StR σ s t →
    SimAt σ (evalIndexExpression fuel (ren σ left) tok i) (evalIndexExpression fuel left tok i) s t (QO σ)
  evalIndexRange : ∀ left li ri s t, StR σ s t →
    SimAt σ (evalIndexRange fuel (ren σ left) li ri) (evalIndexRange fuel left li ri) s t (QO σ)
  evalMapLiteral : ∀ ks vs big acc s t, StR σ s t →
    SimAt σ (evalMapLiteral fuel ks vs big (renP σ acc)) (evalMapLiteral fuel ks vs big acc) s t (QO σ)
  applyExtension : ∀ name args s t, StR σ s t →
    SimAt σ (applyExtension fuel name (renL σ args)) (applyExtension fuel name args) s t (QO σ)
  applyFunction : ∀ fn args s t, StR σ s t →
    SimAt σ (applyFunction fuel (ren σ fn) (renL σ args)) (applyFunction fuel fn args) s t (QO σ)

theorem simSpec_zero (σ : Sh) : SimSpec σ 0 := by
  constructor
  all_goals intros
  all_goals first
    | (unfold Grol.E.eval; exact SimAt.stop ‹StR _ _ _›)
    | (unfold Grol.E.evalI; exact SimAt.stop ‹StR _ _ _›)
    | (unfold Grol.E.evalStatements; exact SimAt.stop ‹StR _ _ _›)
    | (unfold Grol.E.evalExpressions; exact SimAt.stop ‹StR _ _ _›)
    | (unfold Grol.E.evalAssignment; exact SimAt.stop ‹StR _ _ _›)
    | (unfold Grol.E.evalIf; exact SimAt.stop ‹StR _ _ _›)
    | (unfold Grol.E.evalFor; exact SimAt.stop ‹StR _ _ _›)
    | (unfold Grol.E.evalForLoop; exact SimAt.stop ‹StR _ _ _›)
    | (unfold Grol.E.evalForSpecialForms; exact SimAt.stop ‹StR _ _ _›)
    | (unfold Grol.E.evalForInteger; exact SimAt.stop ‹StR _ _ _›)
    | (unfold Grol.E.evalForList; exact SimAt.stop ‹StR _ _ _›)
    | (unfold Grol.E.evalBuiltin; exact SimAt.stop ‹StR _ _ _›)
    | (unfold Grol.E.evalPrint; exact SimAt.stop ‹StR _ _ _›)
    | (unfold Grol.E.evalDelete; exact SimAt.stop ‹StR _ _ _›)
    | (unfold Grol.E.evalIndexExpression; exact SimAt.stop ‹StR _ _ _›)
    | (unfold Grol.E.evalIndexRange; exact SimAt.stop ‹StR _ _ _›)
    | (unfold Grol.E.evalMapLiteral; exact SimAt.stop ‹StR _ _ _›)
    | (unfold Grol.E.applyExtension; exact SimAt.stop ‹StR _ _ _›)
    | (unfold Grol.E.applyFunction; exact SimAt.stop ‹StR _ _ _›)

theorem SimAt.set {σ : Sh} {s t s' t' : St} (h : StR σ s' t') :
    SimAt σ (set s' : M Unit) (set t' : M Unit) s t (fun _ _ => True) := by
  unfold SimAt; rw [runM_set, runM_set]; exact ⟨h, trivial⟩

theorem SimAt.modify {σ : Sh} {s t : St} {g g' : St → St} (h : StR σ (g s) (g' t)) :
    SimAt σ (modify g : M Unit) (modify g' : M Unit) s t (fun _ _ => True) := by
  unfold SimAt; rw [runM_modify, runM_modify]; exact ⟨h, trivial⟩

/-- the last step of `Eval`: one reference level is resolved -/
theorem sim_deref1 {σ : Sh} {s t : St} (hR : StR σ s t) (r : Obj) :
    SimAt σ (match ren σ r with | .ref e n => refValue e n | r => pure r)
      (match r with | .ref e n => refValue e n | r => pure r) s t (QO σ) := by
  cases r with
  | ref e n => exact (sim_refValue hR e n).mono (fun _ _ h => h.1)
  | _ => all_goals exact SimAt.pure hR rfl

/-- the end of `Eval`: return values are unwrapped, then one reference level is resolved -/
theorem sim_evalTail {σ : Sh} {s t : St} (hR : StR σ s t) (result : Obj) :
    SimAt σ
      (match ren σ result with
      | .ret v kind =>
        if (kind != "RETURN") = true then do
          let result ← pure (err "unexpected control type outside of for loops")
          match result with
            | .ref e n => refValue e n
            | r => pure r
        else do
          let result ← pure v
          match result with
            | .ref e n => refValue e n
            | r => pure r
      | r => do
        let result ← pure r
        match result with
          | .ref e n => refValue e n
          | r => pure r)
      (match result with
      | .ret v kind =>
        if (kind != "RETURN") = true then do
          let result ← pure (err "unexpected control type outside of for loops")
          match result with
            | .ref e n => refValue e n
            | r => pure r
        else do
          let result ← pure v
          match result with
            | .ref e n => refValue e n
            | r => pure r
      | r => do
        let result ← pure r
        match result with
          | .ref e n => refValue e n
          | r => pure r) s t (QO σ) := by
  cases result with
  | ret v kind =>
    simp only [ren]
    refine SimAt.ite (fun _ => ?_) (fun _ => ?_)
    · refine SimAt.bind_read (runM_pure _ s) (runM_pure _ t) ?_
      exact sim_deref1 hR (err "unexpected control type outside of for loops")
    · refine SimAt.bind_read (runM_pure _ s) (runM_pure _ t) ?_
      exact sim_deref1 hR v
  | ref e n =>
    refine SimAt.bind_read (runM_pure _ s) (runM_pure _ t) ?_
    exact sim_deref1 hR (.ref e n)
  | _ =>
    all_goals
      refine SimAt.bind_read (runM_pure _ s) (runM_pure _ t) ?_
      exact SimAt.pure hR rfl

theorem eval_sim_step {σ : Sh} {fuel : Nat} (ih : SimSpec σ fuel) :
    ∀ node s t, StR σ s t → SimAt σ (eval (fuel + 1) node) (eval (fuel + 1) node) s t (QO σ) := by
  intro node s t hR
  unfold Grol.E.eval
  refine SimAt.bind_read (runM_get s) (runM_get t) ?_
  dsimp only
  rw [hR.depth, hR.cfg]
  refine SimAt.ite (fun _ => SimAt.stop_bind hR) (fun _ => ?_)
  refine SimAt.bind (Q := fun _ _ => True) (SimAt.set ⟨rfl, hR.extNames, rfl, hR.steps, hR.outs,
    hR.cache, hR.cur, hR.root, hR.size, hR.n0, hR.pos, hR.frames, hR.dec⟩) ?_
  intro _ _ s0 t0 hR0 _
  refine SimAt.bind (ih.evalI node s0 t0 hR0) ?_
  rintro _ result s1 t1 hR1 rfl
  refine SimAt.bind (Q := fun _ _ => True) (SimAt.modify ⟨hR1.cfg, hR1.extNames, by simp only [hR1.depth], hR1.steps,
    hR1.outs, hR1.cache, hR1.cur, hR1.root, hR1.size, hR1.n0, hR1.pos, hR1.frames, hR1.dec⟩) ?_
  intro _ _ s2 t2 hR2 _
  exact sim_evalTail hR2 result

theorem sim_envSet' {σ : Sh} {s t : St} (hR : StR σ s t) (e : Nat) (name : String) {a val : Obj}
    (ha : a = ren σ val) : SimAt σ (envSet (sh σ e) name a) (envSet e name val) s t (QO σ) := by
  subst ha; exact sim_envSet hR e name val

theorem evalI_sim_step {σ : Sh} {fuel : Nat} (ih : SimSpec σ fuel) :
    ∀ node s t, StR σ s t → SimAt σ (evalI (fuel + 1) node) (evalI (fuel + 1) node) s t (QO σ) := by
  intro node s t hR
  unfold Grol.E.evalI
  refine SimAt.bind_read (runM_get s) (runM_get t) ?_
  extract_lets jp
  have hjp : ∀ s0 t0, StR σ s0 t0 → SimAt σ (jp ()) (jp ()) s0 t0 (QO σ) := by
    intro s0 t0 hR0
    unfold jp
    split
    · exact ih.evalStatements _ .null _ _ hR0
    · exact ih.evalIf _ _ _ _ _ hR0
    · exact ih.evalFor _ _ _ _ hR0
    · exact sim_evalIdentifier hR0 _
    · -- prefix
      refine SimAt.ite (fun _ => sim_evalPrefixIncrDecr hR0 _ _) (fun _ => ?_)
      refine SimAt.bind (ih.eval _ _ _ hR0) ?_
      rintro _ r s1 t1 hR1 rfl
      rw [ren_isError, evalPrefixOp_ren]
      exact SimAt.ite (fun _ => SimAt.pure hR1 rfl) (fun _ => SimAt.pure hR1 rfl)
    · exact sim_evalPostfix hR0 _ _
    · -- infix
      next op l r =>
      refine SimAt.ite (fun _ => ?_) (fun _ => ?_)
      · refine SimAt.bind (ih.eval _ _ _ hR0) ?_
        rintro _ right s1 t1 hR1 rfl
        exact ih.evalAssignment _ _ _ _ _ hR1
      · refine SimAt.bind (ih.eval _ _ _ hR0) ?_
        rintro _ left s1 t1 hR1 rfl
        rw [ren_isError]
        refine SimAt.ite (fun _ => SimAt.pure hR1 rfl) (fun _ => ?_)
        extract_lets a1 a2 a3 a4 a5 a6
        have h1 : ∀ u s2 t2, StR σ s2 t2 → SimAt σ (a1 u) (a4 u) s2 t2 (QO σ) := by
          intro u s2 t2 hR2
          unfold a1 a4
          refine SimAt.bind (ih.eval _ _ _ hR2) ?_
          rintro _ right s3 t3 hR3 rfl
          rw [ren_isError]
          refine SimAt.ite (fun _ => SimAt.pure hR3 rfl) (fun _ => ?_)
          dsimp only
          cases left with
          | array els =>
            simp only [ren, renL_length]
            refine SimAt.bind_read (runM_get s3) (runM_get t3) ?_
            rw [hR3.cfg]
            refine sim_noteHazard_bind hR3 _ _ _ (fun s4 t4 hR4 => ?_)
            have := sim_evalInfixOp hR4 op (.array els) right
            simp only [ren] at this
            exact this
          | _ => all_goals exact sim_evalInfixOp hR3 op _ right
        have h2 : ∀ u s2 t2, StR σ s2 t2 → SimAt σ (a2 u) (a5 u) s2 t2 (QO σ) := by
          intro u s2 t2 hR2
          unfold a2 a5
          refine SimAt.ite (fun _ => ?_) (fun _ => h1 () _ _ hR2)
          cases left with
          | str x =>
            simp only [ren]
            exact SimAt.ite (fun _ => SimAt.stop_bind hR2) (fun _ => h1 () _ _ hR2)
          | _ => all_goals exact h1 () _ _ hR2
        have h3 : ∀ u s2 t2, StR σ s2 t2 → SimAt σ (a3 u) (a6 u) s2 t2 (QO σ) := by
          intro u s2 t2 hR2
          unfold a3 a6
          refine SimAt.ite (fun _ => ?_) (fun _ => h2 () _ _ hR2)
          cases left with
          | bool b => cases b <;> first | exact SimAt.pure hR2 rfl | exact h2 () _ _ hR2
          | _ => all_goals exact h2 () _ _ hR2
        refine SimAt.ite (fun _ => ?_) (fun _ => h3 () _ _ hR1)
        cases left with
        | bool b => cases b <;> first | exact SimAt.pure hR1 rfl | exact h3 () _ _ hR1
        | _ => all_goals exact h3 () _ _ hR1
    · exact SimAt.pure hR0 rfl
    · exact SimAt.pure hR0 rfl
    · exact SimAt.pure hR0 rfl
    · exact SimAt.pure hR0 rfl
    · exact SimAt.pure hR0 rfl
    · -- return
      split
      · exact SimAt.pure hR0 rfl
      · refine SimAt.bind (ih.evalI _ _ _ hR0) ?_
        rintro _ v s1 t1 hR1 rfl
        exact SimAt.pure hR1 rfl
    · exact ih.evalBuiltin _ _ _ _ hR0
    · -- function literal
      next name params variadic lambda key body =>
      refine sim_curEnv_bind hR0 ?_
      dsimp only
      cases name with
      | some n =>
        dsimp only
        refine SimAt.bind (sim_envSet' hR0 t0.cur n rfl) ?_
        rintro _ oerr s1 t1 hR1 rfl
        rw [ren_isError]
        exact SimAt.ite (fun _ => SimAt.pure hR1 rfl) (fun _ => SimAt.pure hR1 rfl)
      | none => exact SimAt.pure hR0 rfl
    · -- call
      refine SimAt.bind (ih.eval _ _ _ hR0) ?_
      rintro _ f s1 t1 hR1 rfl
      rw [ren_isError]
      refine SimAt.ite (fun _ => SimAt.pure hR1 rfl) (fun _ => ?_)
      refine SimAt.bind (ih.evalExpressions _ [] _ _ hR1) ?_
      rintro _ r s2 t2 hR2 rfl
      cases r with
      | error e => exact SimAt.pure hR2 rfl
      | ok argv =>
        simp only [renEx]
        cases f with
        | ext name => exact ih.applyExtension _ _ _ _ hR2
        | _ => all_goals exact ih.applyFunction _ _ _ _ hR2
    · -- array literal
      refine SimAt.bind (ih.evalExpressions _ [] _ _ hR0) ?_
      rintro _ r s1 t1 hR1 rfl
      cases r with
      | error e => exact SimAt.pure hR1 rfl
      | ok v =>
        simp only [renEx]
        refine SimAt.bind (sim_derefList v s1 t1 hR1) ?_
        rintro _ vs s2 t2 hR2 rfl
        exact SimAt.pure hR2 rfl
    · -- map literal
      refine SimAt.bind_read (runM_get s0) (runM_get t0) ?_
      rw [hR0.cfg]
      exact ih.evalMapLiteral _ _ _ [] _ _ hR0
    · -- index
      extract_lets jp1
      have h1 : ∀ u s1 t1, StR σ s1 t1 → SimAt σ (jp1 u) (jp1 u) s1 t1 (QO σ) := by
        intro u s1 t1 hR1
        unfold jp1
        refine SimAt.bind (ih.eval _ _ _ hR1) ?_
        rintro _ left s2 t2 hR2 rfl
        exact ih.evalIndexExpression _ _ _ _ _ hR2
      refine SimAt.ite (fun _ => ?_) (fun _ => h1 () _ _ hR0)
      refine SimAt.bind_read (runM_get s0) (runM_get t0) ?_
      rw [hR0.extNames]
      exact SimAt.ite (fun _ => SimAt.stop_bind hR0) (fun _ => h1 () _ _ hR0)
    · exact SimAt.pure hR0 rfl
    · exact SimAt.pure hR0 rfl
    · exact SimAt.stop hR0
  have hset : StR σ { s with steps := s.steps + 1 } { t with steps := t.steps + 1 } :=
    ⟨hR.cfg, hR.extNames, hR.depth, by simp only [hR.steps], hR.outs, hR.cache, hR.cur, hR.root, hR.size, hR.n0, hR.pos,
      hR.frames, hR.dec⟩
  refine SimAt.bind (Q := fun _ _ => True) (SimAt.set hset) ?_
  intro _ _ s0 t0 hR0 _
  rw [hR.cfg, hR.steps]
  split
  · exact SimAt.ite (fun _ => SimAt.pure hR0 rfl) (fun _ => hjp s0 t0 hR0)
  · exact hjp s0 t0 hR0

theorem evalStatements_sim_step {σ : Sh} {fuel : Nat} (ih : SimSpec σ fuel) : ∀ l res s t, StR σ s t →
    SimAt σ (evalStatements (fuel + 1) l (ren σ res)) (evalStatements (fuel + 1) l res) s t (QO σ) := by
  intro l res s t hR
  cases l with
  | nil =>
    unfold Grol.E.evalStatements
    exact SimAt.pure hR rfl
  | cons stmt rest =>
    unfold Grol.E.evalStatements
    try dsimp only
    split
    · exact ih.evalStatements _ _ _ _ hR
    · refine SimAt.bind (ih.evalI _ _ _ hR) ?_
      rintro _ r s1 t1 hR1 rfl
      cases r with
      | ret v k => exact SimAt.pure hR1 rfl
      | error m => exact SimAt.pure hR1 rfl
      | _ => all_goals exact ih.evalStatements _ _ _ _ hR1

theorem evalExpressions_sim_step {σ : Sh} {fuel : Nat} (ih : SimSpec σ fuel) : ∀ l acc s t, StR σ s t →
    SimAt σ (evalExpressions (fuel + 1) l (renL σ acc)) (evalExpressions (fuel + 1) l acc) s t
      (fun a b => a = renEx σ b) := by
  intro l acc s t hR
  cases l with
  | nil =>
    unfold Grol.E.evalExpressions
    refine SimAt.pure hR ?_
    simp only [renEx, renL_eq, List.map_reverse]
  | cons e rest =>
    unfold Grol.E.evalExpressions
    refine SimAt.bind (ih.evalI _ _ _ hR) ?_
    rintro _ v s1 t1 hR1 rfl
    rw [ren_isError]
    refine SimAt.ite (fun _ => SimAt.pure hR1 rfl) (fun _ => ?_)
    have := ih.evalExpressions rest (v :: acc) s1 t1 hR1
    simp only [renL] at this
    exact this

theorem evalAssignment_sim_step {σ : Sh} {fuel : Nat} (ih : SimSpec σ fuel) : ∀ right op left s t, StR σ s t →
    SimAt σ (evalAssignment (fuel + 1) (ren σ right) op left) (evalAssignment (fuel + 1) right op left) s t (QO σ) := by
  intro right op left s t hR
  unfold Grol.E.evalAssignment
  rw [ren_isError]
  refine SimAt.ite (fun _ => SimAt.pure hR rfl) (fun _ => ?_)
  split
  · split
    · exact sim_evalIndexAssignment hR _ (.str _) right
    · exact SimAt.pure hR rfl
  · split
    · refine SimAt.bind (ih.eval _ _ _ hR) ?_
      rintro _ index s1 t1 hR1 rfl
      exact sim_evalIndexAssignment hR1 _ index right
    · exact SimAt.pure hR rfl
  · split
    · refine sim_curEnv_bind hR ?_
      exact sim_createOrSet hR t.cur _ right _
    · exact SimAt.pure hR rfl
  · exact SimAt.pure hR rfl

theorem evalIf_sim_step {σ : Sh} {fuel : Nat} (ih : SimSpec σ fuel) : ∀ c cons alt s t, StR σ s t →
    SimAt σ (evalIf (fuel + 1) c cons alt) (evalIf (fuel + 1) c cons alt) s t (QO σ) := by
  intro c cons alt s t hR
  unfold Grol.E.evalIf
  refine SimAt.bind (ih.evalI _ _ _ hR) ?_
  rintro _ cv s1 t1 hR1 rfl
  refine SimAt.bind (sim_valueOf hR1 cv) ?_
  rintro _ condition s2 t2 hR2 ⟨rfl, _⟩
  cases condition with
  | bool b =>
    cases b with
    | true => exact ih.evalI _ _ _ hR2
    | false =>
      simp only [ren]
      split
      · exact SimAt.pure hR2 rfl
      · exact ih.evalI _ _ _ hR2
  | _ => all_goals exact SimAt.pure hR2 rfl

theorem evalFor_sim_step {σ : Sh} {fuel : Nat} (ih : SimSpec σ fuel) : ∀ c body s t, StR σ s t →
    SimAt σ (evalFor (fuel + 1) c body) (evalFor (fuel + 1) c body) s t (QO σ) := by
  intro c body s t hR
  unfold Grol.E.evalFor
  refine SimAt.bind (ih.evalForSpecialForms _ _ _ _ hR) ?_
  rintro _ r s1 t1 hR1 rfl
  cases r with
  | some v => exact SimAt.pure hR1 rfl
  | none => exact ih.evalForLoop _ _ .null _ _ hR1

theorem evalForLoop_sim_step {σ : Sh} {fuel : Nat} (ih : SimSpec σ fuel) : ∀ c body last s t, StR σ s t →
    SimAt σ (evalForLoop (fuel + 1) c body (ren σ last)) (evalForLoop (fuel + 1) c body last) s t (QO σ) := by
  intro c body last s t hR
  unfold Grol.E.evalForLoop
  refine SimAt.bind (ih.evalI _ _ _ hR) ?_
  rintro _ cv s1 t1 hR1 rfl
  refine SimAt.bind (sim_valueOf hR1 cv) ?_
  rintro _ condition s2 t2 hR2 ⟨rfl, _⟩
  cases condition with
  | bool b =>
    cases b with
    | true =>
      simp only [ren]
      refine SimAt.bind (ih.evalI _ _ _ hR2) ?_
      rintro _ r s3 t3 hR3 rfl
      cases r with
      | error m => exact SimAt.pure hR3 rfl
      | ret v kind =>
        simp only [ren]
        refine SimAt.ite (fun _ => SimAt.pure hR3 rfl) (fun _ => ?_)
        exact SimAt.ite (fun _ => ih.evalForLoop _ _ _ _ _ hR3) (fun _ => SimAt.pure hR3 rfl)
      | _ => all_goals exact ih.evalForLoop _ _ _ _ _ hR3
    | false => exact SimAt.pure hR2 rfl
  | null => exact SimAt.pure hR2 rfl
  | error m => exact SimAt.pure hR2 rfl
  | int n => exact ih.evalForInteger _ _ _ _ .null _ _ hR2
  | _ => all_goals exact SimAt.pure hR2 rfl

theorem sim_someOf {σ : Sh} {s t : St} {x y : M Obj} (h : SimAt σ x y s t (QO σ)) :
    SimAt σ (x >>= fun a => pure (some a)) (y >>= fun a => pure (some a)) s t (QOpt σ) := by
  refine SimAt.bind h ?_
  rintro _ a s' t' hR' rfl
  exact SimAt.pure hR' rfl

theorem evalForSpecialForms_sim_step {σ : Sh} {fuel : Nat} (ih : SimSpec σ fuel) : ∀ c body s t, StR σ s t →
    SimAt σ (evalForSpecialForms (fuel + 1) c body) (evalForSpecialForms (fuel + 1) c body) s t (QOpt σ) := by
  intro c body s t hR
  unfold Grol.E.evalForSpecialForms
  split
  · next op l r =>
    refine SimAt.ite (fun _ => SimAt.pure hR rfl) (fun _ => ?_)
    split
    · next name =>
      split
      · next rl rr =>
        refine SimAt.bind (ih.evalI _ _ _ hR) ?_
        rintro _ start0 s1 t1 hR1 rfl
        refine SimAt.bind (sim_valueOf hR1 start0) ?_
        rintro _ start s2 t2 hR2 ⟨rfl, _⟩
        rw [int64Value_ren]
        cases int64Value start with
        | none => exact SimAt.pure hR2 rfl
        | some sv =>
          dsimp only
          refine SimAt.bind (ih.evalI _ _ _ hR2) ?_
          rintro _ end0 s3 t3 hR3 rfl
          refine SimAt.bind (sim_valueOf hR3 end0) ?_
          rintro _ endV s4 t4 hR4 ⟨rfl, _⟩
          rw [int64Value_ren]
          cases int64Value endV with
          | none => exact SimAt.pure hR4 rfl
          | some ev => exact sim_someOf (ih.evalForInteger _ _ _ _ .null _ _ hR4)
      · refine SimAt.bind (ih.evalI _ _ _ hR) ?_
        rintro _ v0 s1 t1 hR1 rfl
        refine SimAt.bind (sim_valueOf hR1 v0) ?_
        rintro _ v s2 t2 hR2 ⟨rfl, _⟩
        cases v with
        | int n => exact sim_someOf (ih.evalForInteger _ _ _ _ .null _ _ hR2)
        | error m => exact SimAt.pure hR2 rfl
        | array els => exact sim_someOf (ih.evalForList _ (.array els) _ .null _ _ hR2)
        | map b kvs => exact sim_someOf (ih.evalForList _ (.map b kvs) _ .null _ _ hR2)
        | str x => exact sim_someOf (ih.evalForList _ (.str x) _ .null _ _ hR2)
        | _ => all_goals exact SimAt.pure hR2 rfl
    · exact SimAt.pure hR rfl
  · exact SimAt.pure hR rfl

theorem evalForInteger_sim_step {σ : Sh} {fuel : Nat} (ih : SimSpec σ fuel) :
    ∀ body i endV name last s t, StR σ s t →
    SimAt σ (evalForInteger (fuel + 1) body i endV name (ren σ last))
      (evalForInteger (fuel + 1) body i endV name last) s t (QO σ) := by
  intro body i endV name last s t hR
  unfold Grol.E.evalForInteger
  refine SimAt.ite (fun _ => SimAt.pure hR rfl) (fun _ => ?_)
  refine SimAt.ite (fun _ => SimAt.pure hR rfl) (fun _ => ?_)
  extract_lets jpS jpT
  have hjp : ∀ u s1 t1, StR σ s1 t1 → SimAt σ (jpS u) (jpT u) s1 t1 (QO σ) := by
    intro u s1 t1 hR1
    unfold jpS jpT
    refine SimAt.bind (ih.evalI _ _ _ hR1) ?_
    rintro _ r s2 t2 hR2 rfl
    cases r with
    | error m => exact SimAt.pure hR2 rfl
    | ret v kind =>
      simp only [ren]
      refine SimAt.ite (fun _ => SimAt.pure hR2 rfl) (fun _ => ?_)
      refine SimAt.ite (fun _ => ih.evalForInteger _ _ _ _ _ _ _ hR2) (fun _ => ?_)
      exact SimAt.ite (fun _ => SimAt.pure hR2 rfl) (fun _ => SimAt.pure hR2 rfl)
    | _ => all_goals exact ih.evalForInteger _ _ _ _ _ _ _ hR2
  refine SimAt.ite (fun _ => ?_) (fun _ => hjp () _ _ hR)
  refine sim_curEnv_bind hR ?_
  refine SimAt.bind (sim_envSet' hR t.cur name rfl) ?_
  rintro _ oerr s1 t1 hR1 rfl
  rw [ren_isError]
  exact SimAt.ite (fun _ => SimAt.pure hR1 rfl) (fun _ => hjp () _ _ hR1)

theorem evalForList_sim_step {σ : Sh} {fuel : Nat} (ih : SimSpec σ fuel) :
    ∀ body list name last s t, StR σ s t →
    SimAt σ (evalForList (fuel + 1) body (ren σ list) name (ren σ last))
      (evalForList (fuel + 1) body list name last) s t (QO σ) := by
  intro body list name last s t hR
  unfold Grol.E.evalForList
  rw [objLen_ren]
  refine SimAt.ite (fun _ => SimAt.pure hR rfl) (fun _ => ?_)
  refine SimAt.bind (sim_objFirst hR list) ?_
  rintro _ v s1 t1 hR1 rfl
  refine SimAt.bind (sim_objRest hR1 list) ?_
  rintro _ rest s2 t2 hR2 rfl
  refine sim_curEnv_bind hR2 ?_
  refine SimAt.bind (sim_envSet hR2 t2.cur name v) ?_
  rintro _ oerr s3 t3 hR3 rfl
  rw [ren_isError]
  refine SimAt.ite (fun _ => SimAt.pure hR3 rfl) (fun _ => ?_)
  refine SimAt.bind (ih.evalI _ _ _ hR3) ?_
  rintro _ r s4 t4 hR4 rfl
  cases r with
  | error m => exact SimAt.pure hR4 rfl
  | ret v' kind =>
    simp only [ren]
    refine SimAt.ite (fun _ => SimAt.pure hR4 rfl) (fun _ => ?_)
    refine SimAt.ite (fun _ => ih.evalForList _ _ _ _ _ _ hR4) (fun _ => ?_)
    exact SimAt.ite (fun _ => SimAt.pure hR4 rfl) (fun _ => SimAt.pure hR4 rfl)
  | _ => all_goals exact ih.evalForList _ _ _ _ _ _ hR4

theorem evalBuiltin_sim_step {σ : Sh} {fuel : Nat} (ih : SimSpec σ fuel) : ∀ tk ps s t, StR σ s t →
    SimAt σ (evalBuiltin (fuel + 1) tk ps) (evalBuiltin (fuel + 1) tk ps) s t (QO σ) := by
  intro tk ps s t hR
  unfold Grol.E.evalBuiltin
  split
  next minV varArg _ =>
  refine SimAt.ite (fun _ => SimAt.pure hR rfl) (fun _ => ?_)
  extract_lets jp2 jp1
  have h2 : ∀ s0 t0, StR σ s0 t0 → SimAt σ (jp2 ()) (jp2 ()) s0 t0 (QO σ) := by
    intro s0 t0 hR0
    unfold jp2
    refine SimAt.bind (ih.evalI _ _ _ hR0) ?_
    rintro _ val0 s1 t1 hR1 rfl
    refine SimAt.bind (sim_valueOf hR1 val0) ?_
    rintro _ val s2 t2 hR2 ⟨rfl, _⟩
    rw [ren_isError]
    refine SimAt.ite (fun _ => SimAt.pure hR2 rfl) (fun _ => ?_)
    split
    · cases val with
      | error m =>
        simp only [ren]
        refine sim_curEnv_bind hR2 ?_
        refine SimAt.bind (sim_triggerNoCache hR2 t2.cur) ?_
        intro _ _ s3 t3 hR3 _
        exact SimAt.pure hR3 rfl
      | _ => all_goals exact SimAt.pure hR2 rfl
    · refine SimAt.bind (sim_valueOf hR2 val) ?_
      rintro _ v s3 t3 hR3 ⟨rfl, _⟩
      exact sim_objFirst hR3 v
    · refine SimAt.bind (sim_valueOf hR2 val) ?_
      rintro _ v s3 t3 hR3 ⟨rfl, _⟩
      exact sim_objRest hR3 v
    · refine SimAt.bind (sim_valueOf hR2 val) ?_
      rintro _ v s3 t3 hR3 ⟨rfl, _⟩
      dsimp only
      rw [objLen_ren]
      exact SimAt.ite (fun _ => SimAt.pure hR3 rfl) (fun _ => SimAt.pure hR3 rfl)
    · exact SimAt.pure hR2 rfl
  have h1 : ∀ s0 t0, StR σ s0 t0 → SimAt σ (jp1 ()) (jp1 ()) s0 t0 (QO σ) := by
    intro s0 t0 hR0
    unfold jp1
    refine SimAt.ite (fun _ => ih.evalDelete _ _ _ hR0) (fun _ => ?_)
    refine SimAt.ite (fun _ => ih.evalPrint _ _ _ _ _ _ hR0) (fun _ => ?_)
    exact SimAt.ite (fun _ => SimAt.stop_bind hR0) (fun _ => h2 _ _ hR0)
  exact SimAt.ite (fun _ => SimAt.stop_bind hR) (fun _ => h1 _ _ hR)

theorem evalPrint_sim_step {σ : Sh} {fuel : Nat} (ih : SimSpec σ fuel) : ∀ tk ps first buf s t, StR σ s t →
    SimAt σ (evalPrint (fuel + 1) tk ps first buf) (evalPrint (fuel + 1) tk ps first buf) s t (QO σ) := by
  intro tk ps first buf s t hR
  cases ps with
  | nil =>
    unfold Grol.E.evalPrint
    dsimp only
    refine SimAt.ite (fun _ => ?_) (fun _ => ?_)
    · split
      · exact SimAt.pure hR rfl
      · exact SimAt.stop_bind hR
    · exact SimAt.bind (sim_writeOut hR _) (fun _ _ s1 t1 hR1 _ => SimAt.pure hR1 rfl)
  | cons p rest =>
    unfold Grol.E.evalPrint
    dsimp only
    refine SimAt.bind (ih.evalI _ _ _ hR) ?_
    rintro _ r s1 t1 hR1 rfl
    rw [ren_isError]
    refine SimAt.ite (fun _ => SimAt.pure hR1 rfl) (fun _ => ?_)
    refine SimAt.bind (sim_valueOf hR1 r) ?_
    rintro _ r' s2 t2 hR2 ⟨rfl, _⟩
    have hins := inspect_ren σ r'
    cases r' with
    | str x =>
      refine SimAt.bind_read (runM_pure _ s2) (runM_pure _ t2) ?_
      exact ih.evalPrint _ _ _ _ _ _ hR2
    | _ =>
      all_goals
        try simp only [ren] at hins
        try simp only [ren]
        try rw [hins]
        refine SimAt.bind (Q := fun a b => a = b)
          (SimAt.liftR hR2 (RelR.of_eq (f := id) (by cases inspect _ <;> rfl) (fun _ => rfl))) ?_
        rintro piece _ s3 t3 hR3 rfl
        exact ih.evalPrint _ _ _ _ _ _ hR3

theorem evalDelete_sim_step {σ : Sh} {fuel : Nat} (ih : SimSpec σ fuel) : ∀ node s t, StR σ s t →
    SimAt σ (evalDelete (fuel + 1) node) (evalDelete (fuel + 1) node) s t (QO σ) := by
  intro node s t hR
  unfold Grol.E.evalDelete
  refine sim_curEnv_bind hR ?_
  refine SimAt.bind (sim_triggerNoCache hR t.cur) ?_
  intro _ _ s1 t1 hR1 _
  split
  · refine SimAt.ite (fun _ => SimAt.pure hR1 rfl) (fun _ => ?_)
    extract_lets jp
    have hjp : ∀ s2 t2, StR σ s2 t2 → SimAt σ (jp ()) (jp ()) s2 t2 (QO σ) := by
      intro s2 t2 hR2
      unfold jp
      refine sim_curEnv_bind hR2 ?_
      exact sim_envDelete hR2 t2.cur _
    refine SimAt.ite (fun _ => ?_) (fun _ => hjp s1 t1 hR1)
    refine SimAt.bind (Q := fun _ _ => True) (SimAt.modify hR1.clearCache) ?_
    intro _ _ s2 t2 hR2 _
    exact hjp s2 t2 hR2
  · refine SimAt.ite (fun _ => SimAt.pure hR1 rfl) (fun _ => ?_)
    exact sim_deleteMapEntry hR1 _ (.str _)
  · refine SimAt.bind (ih.eval _ _ _ hR1) ?_
    rintro _ index s2 t2 hR2 rfl
    rw [ren_isError]
    exact SimAt.ite (fun _ => SimAt.pure hR2 rfl) (fun _ => sim_deleteMapEntry hR2 _ index)
  · exact SimAt.pure hR1 rfl

theorem evalIndexExpression_sim_step {σ : Sh} {fuel : Nat} (ih : SimSpec σ fuel) : ∀ left tok i s t, StR σ s t →
    SimAt σ (evalIndexExpression (fuel + 1) (ren σ left) tok i) (evalIndexExpression (fuel + 1) left tok i) s t
      (QO σ) := by
  intro left tok i s t hR
  unfold Grol.E.evalIndexExpression
  rw [ren_isError]
  refine SimAt.ite (fun _ => SimAt.pure hR rfl) (fun _ => ?_)
  refine SimAt.ite (fun _ => ?_) (fun _ => ?_)
  · refine SimAt.ite (fun _ => SimAt.pure hR rfl) (fun _ => ?_)
    exact sim_indexIdx hR left (.str _)
  · split
    · exact ih.evalIndexRange _ _ _ _ _ hR
    · refine SimAt.bind (ih.eval _ _ _ hR) ?_
      rintro _ index s1 t1 hR1 rfl
      rw [ren_isError]
      exact SimAt.ite (fun _ => SimAt.pure hR1 rfl) (fun _ => sim_indexIdx hR1 left index)

/-- the slicing part of `evalIndexRangeExpression` -/
theorem rangeBody_ren {σ : Sh} {s t : St} (hR : StR σ s t) (left : Obj) (l r : Int) :
    SimAt σ
      (match ren σ left with
      | .str x => pure (.str ((x.drop l.toNat).take (r - l).toNat))
      | .array els => pure (newArray ((els.drop l.toNat).take (r - l).toNat))
      | .map big kvs => do
        let __do_lift ← get
        pure (.map (big && decide ((r - l).toNat > __do_lift.cfg.maxSmallMap)) ((kvs.drop l.toNat).take (r - l).toNat))
      | .null => pure .null
      | _ => pure (err "range index operator not supported"))
      (match left with
      | .str x => pure (.str ((x.drop l.toNat).take (r - l).toNat))
      | .array els => pure (newArray ((els.drop l.toNat).take (r - l).toNat))
      | .map big kvs => do
        let __do_lift ← get
        pure (.map (big && decide ((r - l).toNat > __do_lift.cfg.maxSmallMap)) ((kvs.drop l.toNat).take (r - l).toNat))
      | .null => pure .null
      | _ => pure (err "range index operator not supported")) s t (QO σ) := by
  cases left with
  | array els =>
    refine SimAt.pure hR ?_
    simp only [QO, newArray, ren, renL_take, renL_drop]
  | map big kvs =>
    simp only [ren]
    refine SimAt.bind_read (runM_get s) (runM_get t) ?_
    rw [hR.cfg]
    refine SimAt.pure hR ?_
    simp only [QO, ren, renP_take, renP_drop]
  | _ => all_goals exact SimAt.pure hR rfl

theorem evalIndexRange_sim_step {σ : Sh} {fuel : Nat} (ih : SimSpec σ fuel) : ∀ left li ri s t, StR σ s t →
    SimAt σ (evalIndexRange (fuel + 1) (ren σ left) li ri) (evalIndexRange (fuel + 1) left li ri) s t (QO σ) := by
  intro left li ri s t hR
  unfold Grol.E.evalIndexRange
  refine SimAt.bind (ih.eval _ _ _ hR) ?_
  rintro _ leftIndex s0 t0 hR0 rfl
  rw [objLen_ren, int64Value_ren]
  extract_lets nilRight num jpS jpT
  have hjp : ∀ (rv : Obj) s1 t1, StR σ s1 t1 → SimAt σ (jpS (ren σ rv)) (jpT rv) s1 t1 (QO σ) := by
    intro rv s1 t1 hR1
    unfold jpS jpT
    rw [int64Value_ren]
    split
    · dsimp only
      refine SimAt.ite (fun _ => SimAt.pure hR1 rfl) (fun _ => ?_)
      exact rangeBody_ren hR1 left _ _
    · exact SimAt.pure hR1 rfl
  refine SimAt.ite (fun _ => ?_) (fun _ => ?_)
  · refine SimAt.bind_read (runM_pure _ s0) (runM_pure _ t0) ?_
    exact hjp .null s0 t0 hR0
  · refine SimAt.bind (ih.eval _ _ _ hR0) ?_
    rintro _ rv s1 t1 hR1 rfl
    exact hjp rv s1 t1 hR1

theorem evalMapLiteral_sim_step {σ : Sh} {fuel : Nat} (ih : SimSpec σ fuel) : ∀ ks vs big acc s t, StR σ s t →
    SimAt σ (evalMapLiteral (fuel + 1) ks vs big (renP σ acc)) (evalMapLiteral (fuel + 1) ks vs big acc) s t (QO σ) := by
  intro ks vs big acc s t hR
  have hdone : SimAt σ (pure (Obj.map big (renP σ acc)) : M Obj) (pure (Obj.map big acc)) s t (QO σ) :=
    SimAt.pure hR rfl
  cases ks with
  | nil => unfold Grol.E.evalMapLiteral; exact hdone
  | cons k ks =>
    cases vs with
    | nil => unfold Grol.E.evalMapLiteral; exact hdone
    | cons v vs =>
      unfold Grol.E.evalMapLiteral
      refine SimAt.bind (ih.eval _ _ _ hR) ?_
      rintro _ key0 s1 t1 hR1 rfl
      refine SimAt.bind (sim_valueOf hR1 key0) ?_
      rintro _ key s2 t2 hR2 ⟨rfl, _⟩
      rw [ren_isError]
      refine SimAt.ite (fun _ => SimAt.pure hR2 rfl) (fun _ => ?_)
      refine SimAt.bind (sim_equalsM hR2 key key) ?_
      rintro eq _ s3 t3 hR3 rfl
      refine SimAt.ite (fun _ => SimAt.pure hR3 rfl) (fun _ => ?_)
      refine SimAt.bind (ih.eval _ _ _ hR3) ?_
      rintro _ value0 s4 t4 hR4 rfl
      refine SimAt.bind (sim_valueOf hR4 value0) ?_
      rintro _ value s5 t5 hR5 ⟨rfl, _⟩
      rw [ren_isError]
      refine SimAt.ite (fun _ => SimAt.pure hR5 rfl) (fun _ => ?_)
      refine SimAt.bind_read (runM_get s5) (runM_get t5) ?_
      rw [hR5.cfg, mapSet_ren]
      refine SimAt.bind (Q := fun a b => a = (b.1, renP σ b.2))
        (SimAt.liftR hR5 (RelR.of_eq (f := fun p => (p.1, renP σ p.2)) rfl (fun _ => rfl))) ?_
      rintro _ ⟨big', acc'⟩ s6 t6 hR6 rfl
      exact ih.evalMapLiteral _ _ _ _ _ _ hR6

theorem applyExtension_sim_step {σ : Sh} {fuel : Nat} : ∀ name args s t, StR σ s t →
    SimAt σ (applyExtension (fuel + 1) name (renL σ args)) (applyExtension (fuel + 1) name args) s t (QO σ) := by
  intro name args s t hR
  unfold Grol.E.applyExtension
  exact SimAt.stop hR

theorem applyFunction_sim_step {σ : Sh} {fuel : Nat} (ih : SimSpec σ fuel) : ∀ fn args s t, StR σ s t →
    SimAt σ (applyFunction (fuel + 1) (ren σ fn) (renL σ args)) (applyFunction (fuel + 1) fn args) s t (QO σ) := by
  intro fn args s t hR
  cases fn with
  | func f =>
    simp only [ren]
    unfold Grol.E.applyFunction
    dsimp only
    have hk : (renFn σ f).key = f.key := rfl
    have hb : (renFn σ f).body = f.body := rfl
    rw [hk, hb]
    refine sim_curEnv_bind hR ?_
    refine sim_getFrame_bind hR t.cur ?_
    intro cfs0 cft0 _ _ hcfr0
    try dsimp only
    rw [sameFunction_ren σ hcfr0.cacheKey hcfr0.function f, hcfr0.localFunc]
    have hcg : SimAt σ (if (cft0.localFunc && sameFunction cft0 f) = true then pure none else cacheGet f.key (renL σ args))
        (if (cft0.localFunc && sameFunction cft0 f) = true then pure none else cacheGet f.key args) s t
        (fun a b => a = b.map (fun p => (ren σ p.1, p.2))) :=
      SimAt.ite (fun _ => SimAt.pure hR rfl) (fun _ => sim_cacheGet hR f.key args)
    refine SimAt.bind hcg ?_
    rintro _ r s1 t1 hR1 rfl
    cases r with
    | some vo =>
      obtain ⟨v, output⟩ := vo
      simp only [Option.map]
      refine SimAt.ite (fun _ => ?_) (fun _ => SimAt.pure hR1 rfl)
      exact SimAt.bind (sim_writeOut hR1 output) (fun _ _ s2 t2 hR2 _ => SimAt.pure hR2 rfl)
    | none =>
      simp only [Option.map]
      refine SimAt.bind (sim_extendFunctionEnv hR1 f args) ?_
      rintro _ r1 s2 t2 hR2 ⟨rfl, hn0⟩
      cases r1 with
      | error e => exact SimAt.pure hR2 rfl
      | ok nenv =>
        have hnenv := hn0 nenv rfl
        simp only [renX]
        refine sim_curEnv_bind hR2 ?_
        refine SimAt.bind (Q := fun _ _ => True) (SimAt.modify (g := fun st => { st with cur := sh σ nenv, outs := [] :: st.outs })
          (g' := fun st => { st with cur := nenv, outs := [] :: st.outs })
          ⟨hR2.cfg, hR2.extNames, hR2.depth, hR2.steps, by simp only [hR2.outs], hR2.cache, rfl, hR2.root, hR2.size, hR2.n0,
            hR2.pos, hR2.frames, hR2.dec⟩) ?_
        intro _ _ s3 t3 hR3 _
        refine SimAt.bind (ih.eval _ _ _ hR3) ?_
        rintro _ res s4 t4 hR4 rfl
        refine sim_getFrame_bind hR4 nenv ?_
        intro fs1 ft1 _ _ hfr1
        rw [(hfr1.counters hnenv).1, (hfr1.counters hnenv).2.1]
        refine SimAt.bind_read (runM_get s4) (runM_get t4) ?_
        rw [hR4.outs]
        try dsimp only
        refine SimAt.bind (Q := fun _ _ => True) (SimAt.set ?_) ?_
        · exact ⟨hR4.cfg, hR4.extNames, hR4.depth, hR4.steps, rfl, hR4.cache, rfl, hR4.root, hR4.size, hR4.n0,
            hR4.pos, hR4.frames, hR4.dec⟩
        · intro _ _ s5 t5 hR5 _
          exact sim_finishCall hR5 f args t2.cur _ _ _ res _
  | _ =>
    all_goals
      simp only [ren]
      unfold Grol.E.applyFunction
      exact SimAt.pure hR rfl

theorem simSpec_succ {σ : Sh} {fuel : Nat} (ih : SimSpec σ fuel) : SimSpec σ (fuel + 1) where
  eval := eval_sim_step ih
  evalI := evalI_sim_step ih
  evalStatements := evalStatements_sim_step ih
  evalExpressions := evalExpressions_sim_step ih
  evalAssignment := evalAssignment_sim_step ih
  evalIf := evalIf_sim_step ih
  evalFor := evalFor_sim_step ih
  evalForLoop := evalForLoop_sim_step ih
  evalForSpecialForms := evalForSpecialForms_sim_step ih
  evalForInteger := evalForInteger_sim_step ih
  evalForList := evalForList_sim_step ih
  evalBuiltin := evalBuiltin_sim_step ih
  evalPrint := evalPrint_sim_step ih
  evalDelete := evalDelete_sim_step ih
  evalIndexExpression := evalIndexExpression_sim_step ih
  evalIndexRange := evalIndexRange_sim_step ih
  evalMapLiteral := evalMapLiteral_sim_step ih
  applyExtension := applyExtension_sim_step
  applyFunction := applyFunction_sim_step ih

/-- every function of the tree walker, at every fuel, runs in lockstep in the two runs -/
theorem simSpec_all (σ : Sh) : ∀ fuel, SimSpec σ fuel
  | 0 => simSpec_zero σ
  | fuel + 1 => simSpec_succ (simSpec_all σ fuel)

end Grol.R

import GrolProofs.RenOps
/-
C10 (two-run simulation), part 4: the non recursive helpers of lean/Grol/Eval/Eval.lean.
-/
namespace Grol.R
open Grol.E

theorem runM_curEnv' (st : St) : runM curEnv st = (.ok st.cur, st) := rfl

/-- both runs read their current scope -/
theorem sim_curEnv_bind {σ : Sh} {s t : St} (hR : StR σ s t) {f g : Nat → M α} {Q : α → α → Prop}
    (h : SimAt σ (f (sh σ t.cur)) (g t.cur) s t Q) : SimAt σ (curEnv >>= f) (curEnv >>= g) s t Q := by
  refine SimAt.bind_read (runM_curEnv' s) (runM_curEnv' t) ?_
  rw [hR.cur]; exact h

theorem sim_writeOut {σ : Sh} {s t : St} (hR : StR σ s t) (b : List UInt8) :
    SimAt σ (writeOut b) (writeOut b) s t (fun _ _ => True) := by
  unfold SimAt writeOut
  rw [runM_modify, runM_modify]
  refine ⟨?_, trivial⟩
  rw [hR.outs]
  cases t.outs with
  | nil => exact { hR with outs := rfl }
  | cons o rest => exact { hR with outs := rfl }

theorem sim_noteHazard {σ : Sh} {s t : St} (hR : StR σ s t) (c : Bool) (k n : String) :
    SimAt σ (noteHazard c k n) (noteHazard c k n) s t (fun _ _ => True) := by
  unfold noteHazard
  refine SimAt.ite (fun _ => ?_) (fun _ => SimAt.pure hR trivial)
  unfold SimAt
  rw [runM_modify, runM_modify]
  exact ⟨{ hR with }, trivial⟩

theorem sim_noteHazard_bind {σ : Sh} {s t : St} (hR : StR σ s t) (c : Bool) (k n : String)
    {f g : Unit → M α} {Q : α → α → Prop} (h : ∀ s' t', StR σ s' t' → SimAt σ (f ()) (g ()) s' t' Q) :
    SimAt σ (noteHazard c k n >>= f) (noteHazard c k n >>= g) s t Q :=
  SimAt.bind (sim_noteHazard hR c k n) (fun _ _ s' t' hR' _ => h s' t' hR')

theorem sim_evalIdentifier {σ : Sh} {s t : St} (hR : StR σ s t) (name : String) :
    SimAt σ (evalIdentifier name) (evalIdentifier name) s t (QO σ) := by
  unfold evalIdentifier
  refine SimAt.bind_read (runM_get s) (runM_get t) ?_
  rw [hR.extNames, hR.cur]
  refine SimAt.ite (fun _ => SimAt.pure hR rfl) (fun _ => ?_)
  refine SimAt.bind (sim_envGet hR t.cur name) ?_
  rintro _ r s' t' hR' rfl
  cases r <;> exact SimAt.pure hR' rfl

/-- `if oerr.isError then pure oerr else pure v` -/
theorem sim_errOr {σ : Sh} {s t : St} (hR : StR σ s t) (oerr v : Obj) :
    SimAt σ (if (ren σ oerr).isError = true then pure (ren σ oerr) else pure (ren σ v) : M Obj)
      (if oerr.isError = true then pure oerr else pure v) s t (QO σ) := by
  rw [ren_isError]
  exact SimAt.ite (fun _ => SimAt.pure hR rfl) (fun _ => SimAt.pure hR rfl)

theorem sim_evalPrefixIncrDecr {σ : Sh} {s t : St} (hR : StR σ s t) (op : String) (node : Node) :
    SimAt σ (evalPrefixIncrDecr op node) (evalPrefixIncrDecr op node) s t (QO σ) := by
  unfold evalPrefixIncrDecr
  split
  · next id =>
    refine sim_curEnv_bind hR ?_
    refine SimAt.bind (sim_envGet hR t.cur id) ?_
    rintro _ r s1 t1 hR1 rfl
    cases r with
    | none => exact SimAt.pure hR1 rfl
    | some val =>
      simp only [Option.map]
      refine SimAt.bind (sim_valueOf hR1 val) ?_
      rintro _ v s2 t2 hR2 ⟨rfl, _⟩
      rw [incrValue_ren]
      cases incrValue v (if (op == "DECR") = true then -1 else 1) with
      | none => exact SimAt.pure hR2 rfl
      | some nv => exact sim_envSet hR2 t.cur id nv
  · exact SimAt.pure hR rfl

theorem sim_evalPostfix {σ : Sh} {s t : St} (hR : StR σ s t) (op : String) (id : String) :
    SimAt σ (evalPostfix op id) (evalPostfix op id) s t (QO σ) := by
  unfold evalPostfix
  refine sim_curEnv_bind hR ?_
  refine SimAt.bind (sim_envGet hR t.cur id) ?_
  rintro _ r s1 t1 hR1 rfl
  cases r with
  | none => exact SimAt.pure hR1 rfl
  | some val =>
    simp only [Option.map]
    refine SimAt.bind (sim_valueOf hR1 val) ?_
    rintro _ v s2 t2 hR2 ⟨rfl, _⟩
    try dsimp only
    split
    · exact SimAt.pure hR2 rfl
    · next toAdd _ =>
      rw [incrValue_ren]
      cases incrValue v toAdd with
      | none => exact SimAt.pure hR2 rfl
      | some nv =>
        simp only [Option.map]
        refine SimAt.bind (sim_envSet hR2 t.cur id nv) ?_
        rintro _ oerr s3 t3 hR3 rfl
        exact sim_errOr hR3 oerr v

theorem renL_set (σ : Sh) (l : List Obj) (i : Nat) (v : Obj) : renL σ (l.set i v) = (renL σ l).set i (ren σ v) := by
  simp [renL_eq, List.map_set]

theorem sim_evalIndexAssignment {σ : Sh} {s t : St} (hR : StR σ s t) (which : Node) (index value : Obj) :
    SimAt σ (evalIndexAssignment which (ren σ index) (ren σ value)) (evalIndexAssignment which index value) s t (QO σ) := by
  unfold evalIndexAssignment
  refine SimAt.bind (sim_valueOf hR index) ?_
  rintro _ index s0 t0 hR0 ⟨rfl, _⟩
  refine SimAt.bind (sim_valueOf hR0 value) ?_
  rintro _ value s0' t0' hR0' ⟨rfl, _⟩
  split
  · next id =>
    refine sim_curEnv_bind hR0' ?_
    refine SimAt.bind (sim_envGet hR0' t0'.cur id) ?_
    rintro _ r s1 t1 hR1 rfl
    cases r with
    | none => exact SimAt.pure hR1 rfl
    | some val =>
      simp only [Option.map]
      refine SimAt.bind (sim_valueOf hR1 val) ?_
      rintro _ v s2 t2 hR2 ⟨rfl, _⟩
      cases v with
      | array els =>
        simp only [ren, int64Value_ren, renL_length]
        cases int64Value index with
        | none => exact SimAt.pure hR2 rfl
        | some idx =>
          dsimp only
          refine SimAt.ite (fun _ => SimAt.pure hR2 rfl) (fun _ => ?_)
          refine SimAt.bind_read (runM_get s2) (runM_get t2) ?_
          rw [hR2.cfg]
          refine sim_noteHazard_bind hR2 _ _ _ (fun s3 t3 hR3 => ?_)
          have := sim_envSet hR3 t0'.cur id (newArray (els.set (if idx < 0 then (els.length : Int) + idx.toInt else idx.toInt).toNat value))
          simp only [newArray, ren, renL_set] at this
          refine SimAt.bind this ?_
          rintro _ oerr s4 t4 hR4 rfl
          exact sim_errOr hR4 oerr value
      | map big kvs =>
        simp only [ren]
        refine SimAt.bind_read (runM_get s2) (runM_get t2) ?_
        rw [hR2.cfg, mapSet_ren]
        refine SimAt.bind (Q := fun a b => a = (b.1, renP σ b.2))
          (SimAt.liftR hR2 (RelR.of_eq (f := fun p => (p.1, renP σ p.2)) rfl (fun _ => rfl))) ?_
        rintro _ ⟨big', kvs'⟩ s3 t3 hR3 rfl
        dsimp only
        refine sim_noteHazard_bind hR3 _ _ _ (fun s4 t4 hR4 => ?_)
        have := sim_envSet hR4 t0'.cur id (.map big' kvs')
        simp only [ren] at this
        refine SimAt.bind this ?_
        rintro _ oerr s5 t5 hR5 rfl
        exact sim_errOr hR5 oerr value
      | _ => all_goals exact SimAt.pure hR2 rfl
  · exact SimAt.pure hR0' rfl

theorem sim_deleteMapEntry {σ : Sh} {s t : St} (hR : StR σ s t) (left : Node) (index : Obj) :
    SimAt σ (deleteMapEntry left (ren σ index)) (deleteMapEntry left index) s t (QO σ) := by
  unfold deleteMapEntry
  split
  · next id =>
    refine sim_curEnv_bind hR ?_
    refine SimAt.bind (sim_envGet hR t.cur id) ?_
    rintro _ r s1 t1 hR1 rfl
    cases r with
    | none => exact SimAt.pure hR1 rfl
    | some obj0 =>
      simp only [Option.map]
      refine SimAt.bind (sim_valueOf hR1 obj0) ?_
      rintro _ obj s1' t1' hR1' ⟨rfl, _⟩
      cases obj with
      | map big kvs =>
        simp only [ren]
        rw [mapDelete_ren]
        refine SimAt.bind (Q := fun a b => a = b.map (renP σ))
          (SimAt.liftR hR1' (RelR.of_eq (f := Option.map (renP σ)) rfl (fun _ => rfl))) ?_
        rintro _ r2 s2 t2 hR2 rfl
        cases r2 with
        | none => exact SimAt.pure hR2 rfl
        | some kvs' =>
          simp only [Option.map]
          refine sim_noteHazard_bind hR2 _ _ _ (fun s3 t3 hR3 => ?_)
          have := sim_envSet hR3 t.cur id (.map big kvs')
          simp only [ren] at this
          refine SimAt.bind this ?_
          rintro _ oerr s4 t4 hR4 rfl
          exact sim_errOr hR4 oerr (.bool true)
      | _ => all_goals exact SimAt.pure hR1' rfl
  · exact SimAt.pure hR rfl

theorem sim_derefList {σ : Sh} : ∀ (l : List Obj) (s t : St), StR σ s t →
    SimAt σ (derefList (renL σ l)) (derefList l) s t (fun a b => a = renL σ b)
  | [], s, t, hR => SimAt.pure hR rfl
  | x :: xs, s, t, hR => by
    simp only [renL]
    unfold derefList
    refine SimAt.bind (sim_valueOf hR x) ?_
    rintro _ v s1 t1 hR1 ⟨rfl, _⟩
    refine SimAt.bind (sim_derefList xs s1 t1 hR1) ?_
    rintro _ vs s2 t2 hR2 rfl
    exact SimAt.pure hR2 rfl

/-! ### the cache -/

theorem cacheR_find {σ : Sh} {ps pt : CacheEntry → Bool} :
    ∀ {ls lt : List CacheEntry}, CacheR σ ls lt → (∀ cs ct, EntryR σ cs ct → ps cs = pt ct) →
      match ls.find? ps, lt.find? pt with
      | some cs, some ct => EntryR σ cs ct
      | none, none => True
      | _, _ => False
  | _, _, .nil, _ => trivial
  | _, _, .cons (cs := cs) (ct := ct) he hl, hp => by
    simp only [List.find?_cons]
    rw [hp cs ct he]
    cases pt ct with
    | true => exact he
    | false => exact cacheR_find hl hp

theorem cacheR_filter {σ : Sh} {ps pt : CacheEntry → Bool} :
    ∀ {ls lt : List CacheEntry}, CacheR σ ls lt → (∀ cs ct, EntryR σ cs ct → ps cs = pt ct) →
      CacheR σ (ls.filter ps) (lt.filter pt)
  | _, _, .nil, _ => .nil
  | _, _, .cons (cs := cs) (ct := ct) he hl, hp => by
    simp only [List.filter_cons]
    rw [hp cs ct he]
    cases pt ct with
    | true => exact .cons he (cacheR_filter hl hp)
    | false => exact cacheR_filter hl hp

theorem entry_pred {σ : Sh} (key : String) (args : List Obj) {cs ct : CacheEntry} (h : EntryR σ cs ct) :
    (cs.key == key && keyEqList cs.args (renL σ args)) = (ct.key == key && keyEqList ct.args args) := by
  rw [h.key, h.args, keyEqList_ren_right]

theorem sim_cacheGet {σ : Sh} {s t : St} (hR : StR σ s t) (key : String) (args : List Obj) :
    SimAt σ (cacheGet key (renL σ args)) (cacheGet key args) s t
      (fun a b => a = b.map (fun p => (ren σ p.1, p.2))) := by
  unfold cacheGet
  refine SimAt.bind_read (runM_get s) (runM_get t) ?_
  rw [hR.cfg, renL_length, hashableList_ren]
  refine SimAt.ite (fun _ => SimAt.pure hR rfl) (fun _ => ?_)
  refine SimAt.ite (fun _ => SimAt.pure hR rfl) (fun _ => ?_)
  refine SimAt.ite (fun _ => SimAt.pure hR rfl) (fun _ => ?_)
  have := cacheR_find (ps := fun c => c.key == key && keyEqList c.args (renL σ args))
    (pt := fun c => c.key == key && keyEqList c.args args) hR.cache (fun cs ct h => entry_pred key args h)
  revert this
  cases List.find? (fun c => c.key == key && keyEqList c.args (renL σ args)) s.cache <;>
    cases List.find? (fun c => c.key == key && keyEqList c.args args) t.cache <;> intro h
  · exact SimAt.pure hR rfl
  · exact h.elim
  · exact h.elim
  · refine SimAt.pure hR ?_
    simp only [Option.map, h.result, h.output]

theorem sim_cacheSet {σ : Sh} {s t : St} (hR : StR σ s t) (key : String) (args : List Obj) (res : Obj)
    (output : List UInt8) :
    SimAt σ (cacheSet key (renL σ args) (ren σ res) output) (cacheSet key args res output) s t (fun _ _ => True) := by
  unfold cacheSet
  refine SimAt.bind_read (runM_get s) (runM_get t) ?_
  rw [hR.cfg, renL_length, hashableList_ren]
  refine SimAt.ite (fun _ => SimAt.pure hR trivial) (fun _ => ?_)
  refine SimAt.ite (fun _ => SimAt.pure hR trivial) (fun _ => ?_)
  refine SimAt.ite (fun _ => SimAt.pure hR trivial) (fun _ => ?_)
  dsimp only
  unfold SimAt
  rw [runM_set, runM_set]
  refine ⟨⟨rfl, hR.extNames, hR.depth, hR.steps, hR.outs, ?_, hR.cur, hR.root, hR.size, hR.n0, hR.pos, hR.frames,
    hR.dec⟩, trivial⟩
  refine .cons ⟨rfl, rfl, rfl, fun x => keyEqList_ren_left σ args x⟩ ?_
  exact cacheR_filter hR.cache (fun cs ct h => by simp only [entry_pred key args h])

/-! ### calls -/

theorem sim_newFrame {σ : Sh} {s t : St} (hR : StR σ s t) {nfs nft : Frame}
    (hfr : FrameR σ t.frames.size nfs nft) (hdec : FrameDec t.frames.size nft) :
    SimAt σ (newFrame nfs) (newFrame nft) s t (fun a b => a = sh σ b ∧ σ.n0 ≤ b) := by
  unfold SimAt newFrame
  rw [runM_bind, runM_bind, runM_get, runM_get]
  dsimp only
  rw [runM_bind, runM_bind, runM_set, runM_set]
  dsimp only
  rw [runM_pure, runM_pure]
  have hsz : sh σ t.frames.size = s.frames.size := by rw [sh_of_ge σ hR.n0, hR.size]
  refine ⟨?_, hsz.symm, hR.n0⟩
  refine { hR with size := ?_, n0 := ?_, frames := ?_, dec := ?_ }
  · simp only [Array.size_push]; rw [hR.size]; omega
  · simp only [Array.size_push]; exact Nat.le_succ_of_le hR.n0
  · intro i fi hi
    simp only [Array.getElem?_push] at hi ⊢
    by_cases hit : i = t.frames.size
    · subst hit
      simp only [if_true] at hi
      cases hi
      exact ⟨nfs, by simp [hsz], hfr⟩
    · simp only [hit, if_false] at hi
      obtain ⟨fsi, hfsi, hfri⟩ := hR.frames i fi hi
      refine ⟨fsi, ?_, hfri⟩
      have : sh σ i ≠ s.frames.size := by
        have := lt_of_frame hfsi
        omega
      simp only [this, if_false]
      exact hfsi
  · intro i fi hi
    simp only [Array.getElem?_push] at hi
    by_cases hit : i = t.frames.size
    · subst hit
      simp only [if_true] at hi
      cases hi
      exact hdec
    · simp only [hit, if_false] at hi
      exact hR.dec i fi hi

theorem sim_bindParams {σ : Sh} (nenv : Nat) : ∀ (l : List (String × Obj)) (s t : St), StR σ s t →
    SimAt σ (bindParams (sh σ nenv) (l.map fun pa => (pa.1, ren σ pa.2))) (bindParams nenv l) s t (QOpt σ)
  | [], s, t, hR => SimAt.pure hR rfl
  | (p, a) :: rest, s, t, hR => by
    simp only [List.map_cons]
    unfold bindParams
    refine SimAt.bind (sim_valueOf hR a) ?_
    rintro _ v s1 t1 hR1 ⟨rfl, _⟩
    have hrest : ∀ s1 t1, StR σ s1 t1 → SimAt σ (do
          let oerr ← createOrSet (sh σ nenv) p (ren σ v) true
          if oerr.isError = true then pure (some oerr)
            else bindParams (sh σ nenv) (List.map (fun pa => (pa.fst, ren σ pa.snd)) rest))
        (do
          let oerr ← createOrSet nenv p v true
          if oerr.isError = true then pure (some oerr) else bindParams nenv rest) s1 t1 (QOpt σ) := by
      intro s1 t1 hR1
      refine SimAt.bind (sim_createOrSet hR1 nenv p v true) ?_
      rintro _ oerr s2 t2 hR2 rfl
      rw [ren_isError]
      exact SimAt.ite (fun _ => SimAt.pure hR2 rfl) (fun _ => sim_bindParams nenv rest s2 t2 hR2)
    dsimp only
    refine SimAt.ite (fun _ => ?_) (fun _ => hrest s1 t1 hR1)
    exact SimAt.bind (sim_triggerNoCache hR1 nenv) (fun _ _ s2 t2 hR2 _ => hrest s2 t2 hR2)

theorem zip_ren (σ : Sh) (ps : List String) (as : List Obj) :
    ps.zip (renL σ as) = (ps.zip as).map fun pa => (pa.1, ren σ pa.2) := by
  rw [renL_eq]
  induction ps generalizing as with
  | nil => rfl
  | cons p ps ih =>
    cases as with
    | nil => rfl
    | cons a as => simp [List.zip_cons_cons, ih]

theorem renL_getLast? (σ : Sh) (l : List Obj) : (renL σ l).getLast? = l.getLast?.map (ren σ) := by
  rw [renL_eq]; simp

theorem renL_dropLast (σ : Sh) (l : List Obj) : (renL σ l).dropLast = renL σ l.dropLast := by
  rw [renL_eq, renL_eq]; simp

/-- the last argument of a variadic call expanded when it is an array -/
def expandLast (args : List Obj) : List Obj :=
  match args.getLast? with
  | some (.array els) => args.dropLast ++ els
  | _ => args

def cutArgs (p : List String) (A : List Obj) (k : Nat) : List String × List Obj × List Obj :=
  if A.length ≥ k then (p, A.take k, A.drop k) else (p, A, [])

theorem splitArgs_eq (f : FuncVal) (args : List Obj) :
    splitArgs f args =
      if f.variadic then cutArgs (f.params.take (f.params.length - 1)) (expandLast args) (f.params.length - 1)
      else (f.params, args, []) := rfl

theorem expandLast_ren (σ : Sh) (args : List Obj) : expandLast (renL σ args) = renL σ (expandLast args) := by
  unfold expandLast
  rw [renL_getLast?]
  cases args.getLast? with
  | none => rfl
  | some last =>
    cases last with
    | array els => simp only [Option.map, ren]; rw [renL_dropLast, ← renL_append]
    | _ => all_goals rfl

theorem cutArgs_ren (σ : Sh) (p : List String) (A : List Obj) (k : Nat) :
    cutArgs p (renL σ A) k = ((cutArgs p A k).1, renL σ (cutArgs p A k).2.1, renL σ (cutArgs p A k).2.2) := by
  unfold cutArgs
  rw [renL_length]
  split
  · simp only [renL_take, renL_drop]
  · rfl

theorem splitArgs_ren (σ : Sh) (f : FuncVal) (args : List Obj) :
    splitArgs (renFn σ f) (renL σ args) =
      ((splitArgs f args).1, renL σ (splitArgs f args).2.1, renL σ (splitArgs f args).2.2) := by
  rw [splitArgs_eq, splitArgs_eq]
  have h1 : (renFn σ f).variadic = f.variadic := rfl
  have h2 : (renFn σ f).params = f.params := rfl
  rw [h1, h2]
  cases f.variadic with
  | true => simp only [if_true]; rw [expandLast_ren, cutArgs_ren]
  | false => rfl

def renX (σ : Sh) : Except Obj Nat → Except Obj Nat
  | .ok n => .ok (sh σ n)
  | .error e => .error (ren σ e)

theorem sim_extendFunctionEnv {σ : Sh} {s t : St} (hR : StR σ s t) (f : FuncVal) (args : List Obj) :
    SimAt σ (extendFunctionEnv (renFn σ f) (renL σ args)) (extendFunctionEnv f args) s t
      (fun a b => a = renX σ b ∧ ∀ n, b = .ok n → σ.n0 ≤ n) := by
  unfold extendFunctionEnv
  refine sim_curEnv_bind hR ?_
  refine sim_getFrame_bind hR t.cur ?_
  intro cfs cft hcte _ hcfr
  dsimp only
  have hk : (renFn σ f).key = f.key := rfl
  have hv : (renFn σ f).variadic = f.variadic := rfl
  have he : (renFn σ f).env = sh σ f.env := rfl
  rw [sameFunction_ren σ hcfr.cacheKey hcfr.function f, hk, hv, he]
  have hpar : (if (sameFunction cft f) = true then sh σ t.cur else sh σ f.env) =
      sh σ (if (sameFunction cft f) = true then t.cur else f.env) := by split <;> rfl
  rw [hpar]
  generalize (if (sameFunction cft f) = true then t.cur else f.env) = parent
  refine sim_getFrame_bind hR parent ?_
  intro pfs pft hpte _ hpfr
  rw [hpfr.depth]
  refine SimAt.bind (sim_newFrame hR ?_ ?_) ?_
  · exact ⟨rfl, rfl, rfl, rfl, rfl, fun _ => ⟨rfl, rfl, rfl⟩, by simp only [hcfr.localFunc]⟩
  · refine ⟨?_, fun k e n h => by cases h⟩
    intro o ho
    cases ho
    exact lt_of_frame hpte
  rintro _ nenv s1 t1 hR1 ⟨rfl, hn0⟩
  -- everything after the (dereferenced) argument list is known
  have hrest : ∀ (A : List Obj) (s2 t2 : St), StR σ s2 t2 →
      SimAt σ
        (if ((splitArgs (renFn σ f) (renL σ A)).2.fst.length != (splitArgs (renFn σ f) (renL σ A)).fst.length) = true then
            pure (Except.error (err "wrong number of arguments"))
          else do
            let __do_lift ← bindParams (sh σ nenv)
              ((splitArgs (renFn σ f) (renL σ A)).fst.zip (splitArgs (renFn σ f) (renL σ A)).2.fst)
            match __do_lift with
              | some oerr => pure (Except.error oerr)
              | none =>
                if f.variadic = true then do
                  let _ ← setNoChecks (sh σ nenv) ".." (newArray (splitArgs (renFn σ f) (renL σ A)).2.snd) true
                  pure (Except.ok (sh σ nenv))
                else pure (Except.ok (sh σ nenv)))
        (if ((splitArgs f A).2.fst.length != (splitArgs f A).fst.length) = true then
            pure (Except.error (err "wrong number of arguments"))
          else do
            let __do_lift ← bindParams nenv ((splitArgs f A).fst.zip (splitArgs f A).2.fst)
            match __do_lift with
              | some oerr => pure (Except.error oerr)
              | none =>
                if f.variadic = true then do
                  let _ ← setNoChecks nenv ".." (newArray (splitArgs f A).2.snd) true
                  pure (Except.ok nenv)
                else pure (Except.ok nenv)) s2 t2 (fun a b => a = renX σ b ∧ ∀ n, b = .ok n → σ.n0 ≤ n) := by
    intro A s2 t2 hR2
    rw [splitArgs_ren]
    dsimp only
    rw [renL_length, zip_ren]
    have hok : (Except.ok (sh σ nenv) : Except Obj Nat) = renX σ (Except.ok nenv) ∧
        ∀ n, (Except.ok nenv : Except Obj Nat) = .ok n → σ.n0 ≤ n := ⟨rfl, fun n h => by cases h; exact hn0⟩
    refine SimAt.ite (fun _ => SimAt.pure hR2 ⟨rfl, fun n h => by cases h⟩) (fun _ => ?_)
    refine SimAt.bind (sim_bindParams nenv _ s2 t2 hR2) ?_
    rintro _ r s3 t3 hR3 rfl
    cases r with
    | some oerr => exact SimAt.pure hR3 ⟨rfl, fun n h => by cases h⟩
    | none =>
      simp only [Option.map]
      refine SimAt.ite (fun _ => ?_) (fun _ => SimAt.pure hR3 hok)
      have := sim_setNoChecks hR3 nenv ".." (newArray (splitArgs f A).2.snd) true
      simp only [newArray, ren] at this
      refine SimAt.bind this ?_
      intro _ _ s4 t4 hR4 _
      exact SimAt.pure hR4 hok
  refine SimAt.ite (fun _ => ?_) (fun _ => ?_)
  · rw [renL_getLast?]
    cases hl : args.getLast? with
    | none =>
      simp only [Option.map]
      refine SimAt.bind_read (runM_pure _ s1) (runM_pure _ t1) ?_
      exact hrest args s1 t1 hR1
    | some last =>
      simp only [Option.map]
      refine SimAt.bind (sim_valueOf hR1 last) ?_
      rintro _ v s2 t2 hR2 ⟨rfl, _⟩
      refine SimAt.bind_read (runM_pure _ s2) (runM_pure _ t2) ?_
      have := hrest (args.dropLast ++ [v]) s2 t2 hR2
      rw [renL_append] at this
      simp only [renL] at this
      rw [renL_dropLast]
      exact this
  · refine SimAt.bind_read (runM_pure _ s1) (runM_pure _ t1) ?_
    exact hrest args s1 t1 hR1

theorem sim_finishCall {σ : Sh} {s t : St} (hR : StR σ s t) (f : FuncVal) (args : List Obj) (curState before after : Nat)
    (cantCache : Bool) (res : Obj) (output : List UInt8) :
    SimAt σ (finishCall (renFn σ f) (renL σ args) (sh σ curState) before after cantCache (ren σ res) output)
      (finishCall f args curState before after cantCache res output) s t (QO σ) := by
  unfold finishCall
  have hk : (renFn σ f).key = f.key := rfl
  rw [hk, ren_isError, holdsFunc_ren]
  have hjp : ∀ s1 t1, StR σ s1 t1 →
      SimAt σ
        (if (after != before) = true then do
            triggerNoCache (sh σ curState)
            pure (ren σ res)
          else
            if res.isError = true then pure (ren σ res)
            else
              if holdsFunc res = true then pure (ren σ res)
              else do
                cacheSet f.key (renL σ args) (ren σ res) output
                pure (ren σ res))
        (if (after != before) = true then do
            triggerNoCache curState
            pure res
          else
            if res.isError = true then pure res
            else
              if holdsFunc res = true then pure res
              else do
                cacheSet f.key args res output
                pure res) s1 t1 (QO σ) := by
    intro s1 t1 hR1
    refine SimAt.ite (fun _ => ?_) (fun _ => ?_)
    · exact SimAt.bind (sim_triggerNoCache hR1 curState) (fun _ _ s2 t2 hR2 _ => SimAt.pure hR2 rfl)
    · refine SimAt.ite (fun _ => SimAt.pure hR1 rfl) (fun _ => ?_)
      refine SimAt.ite (fun _ => SimAt.pure hR1 rfl) (fun _ => ?_)
      exact SimAt.bind (sim_cacheSet hR1 f.key args res output) (fun _ _ s2 t2 hR2 _ => SimAt.pure hR2 rfl)
  dsimp only
  refine SimAt.ite (fun _ => ?_) (fun _ => hjp s t hR)
  exact SimAt.bind (sim_writeOut hR output) (fun _ _ s1 t1 hR1 _ => hjp s1 t1 hR1)

end Grol.R

import GrolProofs.RenOps
/-
C10 (two-run simulation), part 4: the non recursive helpers of lean/Grol/Eval/Eval.lean.
-/
namespace Grol.R
open Grol.E

theorem runM_curEnv' (st : St) : runM curEnv st = (.ok st.cur, st) := rfl

/-- both runs read their current scope -/
theorem sim_curEnv_bind {σ : Sh} {s t : St} (hR : StR σ s t) {f g : Nat → M α} {Q : α → α → Prop}
    (h : SimAt σ (f (sh σ t.cur)) (g t.cur) s t Q) : SimAt σ (curEnv >>= f) (curEnv >>= g) s t Q := by
  refine SimAt.bind_read (runM_curEnv' s) (runM_curEnv' t) ?_
  rw [hR.cur]; exact h

theorem sim_writeOut {σ : Sh} {s t : St} (hR : StR σ s t) (b : List UInt8) :
    SimAt σ (writeOut b) (writeOut b) s t (fun _ _ => True) := by
  unfold SimAt writeOut
  rw [runM_modify, runM_modify]
  refine ⟨?_, trivial⟩
  rw [hR.outs]
  cases t.outs with
  | nil => exact { hR with outs := rfl }
  | cons o rest => exact { hR with outs := rfl }

theorem sim_noteHazard {σ : Sh} {s t : St} (hR : StR σ s t) (c : Bool) (k n : String) :
    SimAt σ (noteHazard c k n) (noteHazard c k n) s t (fun _ _ => True) := by
  unfold noteHazard
  refine SimAt.ite (fun _ => ?_) (fun _ => SimAt.pure hR trivial)
  unfold SimAt
  rw [runM_modify, runM_modify]
  exact ⟨{ hR with }, trivial⟩

theorem sim_noteHazard_bind {σ : Sh} {s t : St} (hR : StR σ s t) (c : Bool) (k n : String)
    {f g : Unit → M α} {Q : α → α → Prop} (h : ∀ s' t', StR σ s' t' → SimAt σ (f ()) (g ()) s' t' Q) :
    SimAt σ (noteHazard c k n >>= f) (noteHazard c k n >>= g) s t Q :=
  SimAt.bind (sim_noteHazard hR c k n) (fun _ _ s' t' hR' _ => h s' t' hR')

theorem sim_evalIdentifier {σ : Sh} {s t : St} (hR : StR σ s t) (name : String) :
    SimAt σ (evalIdentifier name) (evalIdentifier name) s t (QO σ) := by
  unfold evalIdentifier
  refine SimAt.bind_read (runM_get s) (runM_get t) ?_
  rw [hR.extNames, hR.cur]
  refine SimAt.ite (fun _ => SimAt.pure hR rfl) (fun _ => ?_)
  refine SimAt.bind (sim_envGet hR t.cur name) ?_
  rintro _ r s' t' hR' rfl
  cases r <;> exact SimAt.pure hR' rfl

/-- `if oerr.isError then pure oerr else pure v` -/
theorem sim_errOr {σ : Sh} {s t : St} (hR : StR σ s t) (oerr v : Obj) :
    SimAt σ (if (ren σ oerr).isError = true then pure (ren σ oerr) else pure (ren σ v) : M Obj)
      (if oerr.isError = true then pure oerr else pure v) s t (QO σ) := by
  rw [ren_isError]
  exact SimAt.ite (fun _ => SimAt.pure hR rfl) (fun _ => SimAt.pure hR rfl)

theorem sim_evalPrefixIncrDecr {σ : Sh} {s t : St} (hR : StR σ s t) (op : String) (node : Node) :
    SimAt σ (evalPrefixIncrDecr op node) (evalPrefixIncrDecr op node) s t (QO σ) := by
  unfold evalPrefixIncrDecr
  split
  · next id =>
    refine sim_curEnv_bind hR ?_
    refine SimAt.bind (sim_envGet hR t.cur id) ?_
    rintro _ r s1 t1 hR1 rfl
    cases r with
    | none => exact SimAt.pure hR1 rfl
    | some val =>
      simp only [Option.map]
      refine SimAt.bind (sim_valueOf hR1 val) ?_
      rintro _ v s2 t2 hR2 ⟨rfl, _⟩
      rw [incrValue_ren]
      cases incrValue v (if (op == "DECR") = true then -1 else 1) with
      | none => exact SimAt.pure hR2 rfl
      | some nv => exact sim_envSet hR2 t.cur id nv
  · exact SimAt.pure hR rfl

theorem sim_evalPostfix {σ : Sh} {s t : St} (hR : StR σ s t) (op : String) (id : String) :
    SimAt σ (evalPostfix op id) (evalPostfix op id) s t (QO σ) := by
  unfold evalPostfix
  refine sim_curEnv_bind hR ?_
  refine SimAt.bind (sim_envGet hR t.cur id) ?_
  rintro _ r s1 t1 hR1 rfl
  cases r with
  | none => exact SimAt.pure hR1 rfl
  | some val =>
    simp only [Option.map]
    refine SimAt.bind (sim_valueOf hR1 val) ?_
    rintro _ v s2 t2 hR2 ⟨rfl, _⟩
    try dsimp only
    split
    · exact SimAt.pure hR2 rfl
    · next toAdd _ =>
      rw [incrValue_ren]
      cases incrValue v toAdd with
      | none => exact SimAt.pure hR2 rfl
      | some nv =>
        simp only [Option.map]
        refine SimAt.bind (sim_envSet hR2 t.cur id nv) ?_
        rintro _ oerr s3 t3 hR3 rfl
        exact sim_errOr hR3 oerr v

theorem renL_set (σ : Sh) (l : List Obj) (i : Nat) (v : Obj) : renL σ (l.set i v) = (renL σ l).set i (ren σ v) := by
  simp [renL_eq, List.map_set]

theorem sim_evalIndexAssignment {σ : Sh} {s t : St} (hR : StR σ s t) (which : Node) (index value : Obj) :
    SimAt σ (evalIndexAssignment which (ren σ index) (ren σ value)) (evalIndexAssignment which index value) s t (QO σ) := by
  unfold evalIndexAssignment
  refine SimAt.bind (sim_valueOf hR index) ?_
  rintro _ index s0 t0 hR0 ⟨rfl, _⟩
  refine SimAt.bind (sim_valueOf hR0 value) ?_
  rintro _ value s0' t0' hR0' ⟨rfl, _⟩
  split
  · next id =>
    refine sim_curEnv_bind hR0' ?_
    refine SimAt.bind (sim_envGet hR0' t0'.cur id) ?_
    rintro _ r s1 t1 hR1 rfl
    cases r with
    | none => exact SimAt.pure hR1 rfl
    | some val =>
      simp only [Option.map]
      refine SimAt.bind (sim_valueOf hR1 val) ?_
      rintro _ v s2 t2 hR2 ⟨rfl, _⟩
      cases v with
      | array els =>
        simp only [ren, int64Value_ren, renL_length]
        cases int64Value index with
        | none => exact SimAt.pure hR2 rfl
        | some idx =>
          dsimp only
          refine SimAt.ite (fun _ => SimAt.pure hR2 rfl) (fun _ => ?_)
          refine SimAt.bind_read (runM_get s2) (runM_get t2) ?_
          rw [hR2.cfg]
          refine sim_noteHazard_bind hR2 _ _ _ (fun s3 t3 hR3 => ?_)
          have := sim_envSet hR3 t0'.cur id (newArray (els.set (if idx < 0 then (els.length : Int) + idx.toInt else idx.toInt).toNat value))
          simp only [newArray, ren, renL_set] at this
          refine SimAt.bind this ?_
          rintro _ oerr s4 t4 hR4 rfl
          exact sim_errOr hR4 oerr value
      | map big kvs =>
        simp only [ren]
        refine SimAt.bind_read (runM_get s2) (runM_get t2) ?_
        rw [hR2.cfg, mapSet_ren]
        refine SimAt.bind (Q := fun a b => a = (b.1, renP σ b.2))
          (SimAt.liftR hR2 (RelR.of_eq (f := fun p => (p.1, renP σ p.2)) rfl (fun _ => rfl))) ?_
        rintro _ ⟨big', kvs'⟩ s3 t3 hR3 rfl
        dsimp only
        refine sim_noteHazard_bind hR3 _ _ _ (fun s4 t4 hR4 => ?_)
        have := sim_envSet hR4 t0'.cur id (.map big' kvs')
        simp only [ren] at this
        refine SimAt.bind this ?_
        rintro _ oerr s5 t5 hR5 rfl
        exact sim_errOr hR5 oerr value
      | _ => all_goals exact SimAt.pure hR2 rfl
  · exact SimAt.pure hR0' rfl

theorem sim_deleteMapEntry {σ : Sh} {s t : St} (hR : StR σ s t) (left : Node) (index : Obj) :
    SimAt σ (deleteMapEntry left (ren σ index)) (deleteMapEntry left index) s t (QO σ) := by
  unfold deleteMapEntry
  split
  · next id =>
    refine sim_curEnv_bind hR ?_
    refine SimAt.bind (sim_envGet hR t.cur id) ?_
    rintro _ r s1 t1 hR1 rfl
    cases r with
    | none => exact SimAt.pure hR1 rfl
    | some obj =>
      cases obj with
      | map big kvs =>
        simp only [Option.map, ren]
        rw [mapDelete_ren]
        refine SimAt.bind (Q := fun a b => a = b.map (renP σ))
          (SimAt.liftR hR1 (RelR.of_eq (f := Option.map (renP σ)) rfl (fun _ => rfl))) ?_
        rintro _ r2 s2 t2 hR2 rfl
        cases r2 with
        | none => exact SimAt.pure hR2 rfl
        | some kvs' =>
          simp only [Option.map]
          refine sim_noteHazard_bind hR2 _ _ _ (fun s3 t3 hR3 => ?_)
          have := sim_envSet hR3 t.cur id (.map big kvs')
          simp only [ren] at this
          refine SimAt.bind this ?_
          rintro _ oerr s4 t4 hR4 rfl
          exact sim_errOr hR4 oerr (.bool true)
      | _ => all_goals exact SimAt.pure hR1 rfl
  · exact SimAt.pure hR rfl

theorem sim_derefList {σ : Sh} : ∀ (l : List Obj) (s t : St), StR σ s t →
    SimAt σ (derefList (renL σ l)) (derefList l) s t (fun a b => a = renL σ b)
  | [], s, t, hR => SimAt.pure hR rfl
  | x :: xs, s, t, hR => by
    simp only [renL]
    unfold derefList
    refine SimAt.bind (sim_valueOf hR x) ?_
    rintro _ v s1 t1 hR1 ⟨rfl, _⟩
    refine SimAt.bind (sim_derefList xs s1 t1 hR1) ?_
    rintro _ vs s2 t2 hR2 rfl
    exact SimAt.pure hR2 rfl

end Grol.R

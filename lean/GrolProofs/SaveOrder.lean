import Grol.Save
/-
C14 lemmas, part 1: `SaveGlobals` as a function from the store to lines — the keys are written in
sorted order, one line per binding that is written, nothing else.
-/
namespace Grol.Save
open Grol.E
open Grol.Wire (Bytes)

/-! ### bytewise order on names -/

theorem cmpBytes_le_total : ∀ (a b : Bytes), cmpBytes a b ≤ 0 ∨ cmpBytes b a ≤ 0
  | [], [] => by simp [cmpBytes]
  | [], _ :: _ => by simp [cmpBytes]
  | _ :: _, [] => by simp [cmpBytes]
  | x :: xs, y :: ys => by
    unfold cmpBytes
    by_cases h1 : x < y
    · simp [h1]
    · by_cases h2 : x > y
      · have h3 : y < x := h2
        simp [h3]
      · have h3 : ¬ y < x := h2
        have h4 : ¬ y > x := h1
        simp only [h1, h2, h3, h4, if_false]
        exact cmpBytes_le_total xs ys

theorem cmpBytes_le_trans : ∀ (a b c : Bytes), cmpBytes a b ≤ 0 → cmpBytes b c ≤ 0 → cmpBytes a c ≤ 0
  | [], [], _ => fun _ h => h
  | [], _ :: _, [] => fun _ _ => by simp [cmpBytes]
  | [], _ :: _, _ :: _ => fun _ _ => by simp [cmpBytes]
  | _ :: _, [], _ => fun h _ => by simp [cmpBytes] at h
  | _ :: _, _ :: _, [] => fun _ h => by simp [cmpBytes] at h
  | x :: xs, y :: ys, z :: zs => by
    intro h1 h2
    unfold cmpBytes at h1 h2 ⊢
    by_cases hxy : x < y
    · by_cases hyz : y < z
      · have : x < z := UInt8.lt_trans hxy hyz
        simp [this]
      · by_cases hzy : y > z
        · simp [hyz, hzy] at h2
        · have hyz' : y = z := UInt8.le_antisymm (UInt8.not_lt.mp hzy) (UInt8.not_lt.mp hyz)
          subst hyz'
          simp [hxy]
    · by_cases hyx : x > y
      · simp [hxy, hyx] at h1
      · have hxy' : x = y := UInt8.le_antisymm (UInt8.not_lt.mp hyx) (UInt8.not_lt.mp hxy)
        subst hxy'
        simp only [hxy, hyx, if_false] at h1
        by_cases hyz : x < z
        · simp [hyz]
        · by_cases hzy : x > z
          · simp [hyz, hzy] at h2
          · simp only [hyz, hzy, if_false] at h2 ⊢
            exact cmpBytes_le_trans xs ys zs h1 h2

theorem nameLe_total (a b : Bytes) : nameLe a b = true ∨ nameLe b a = true := by
  simpa [nameLe] using cmpBytes_le_total a b

theorem nameLe_trans {a b c : Bytes} (h1 : nameLe a b = true) (h2 : nameLe b c = true) : nameLe a c = true := by
  simp only [nameLe, decide_eq_true_eq] at h1 h2 ⊢
  exact cmpBytes_le_trans a b c h1 h2

/-! ### the sort -/

def SortedB (l : List Binding) : Prop := l.Pairwise fun x y => nameLe x.name y.name = true

theorem insertB_perm (x : Binding) : ∀ l, (insertB x l).Perm (x :: l)
  | [] => List.Perm.refl _
  | y :: ys => by
    unfold insertB
    split
    · exact List.Perm.refl _
    · exact ((insertB_perm x ys).cons y).trans (List.Perm.swap x y ys)

theorem sortB_perm : ∀ l, (sortB l).Perm l
  | [] => List.Perm.refl _
  | x :: xs => (insertB_perm x (sortB xs)).trans ((sortB_perm xs).cons x)

theorem insertB_sorted (x : Binding) : ∀ l, SortedB l → SortedB (insertB x l)
  | [], _ => by simp [insertB, SortedB]
  | y :: ys, h => by
    unfold insertB
    have hy := List.pairwise_cons.mp h
    split
    · rename_i hle
      refine List.pairwise_cons.mpr ⟨?_, h⟩
      intro z hz
      rcases List.mem_cons.mp hz with rfl | hz
      · exact hle
      · exact nameLe_trans hle (hy.1 z hz)
    · rename_i hle
      have hyx : nameLe y.name x.name = true := by
        rcases nameLe_total x.name y.name with h' | h'
        · exact absurd h' hle
        · exact h'
      refine List.pairwise_cons.mpr ⟨?_, insertB_sorted x ys hy.2⟩
      intro z hz
      rcases List.mem_cons.mp ((insertB_perm x ys).mem_iff.mp hz) with rfl | hz
      · exact hyx
      · exact hy.1 z hz

theorem sortB_sorted : ∀ l, SortedB (sortB l)
  | [] => List.Pairwise.nil
  | x :: xs => insertB_sorted x _ (sortB_sorted xs)

/-! ### one line per written binding, in store order -/

/-- `SaveGlobals` writes a line for this binding -/
def wrote (fm : Fmt) (maxLen : Nat) (b : Binding) : Bool :=
  match saveLine fm maxLen b with
  | .ok (some _) => true
  | _ => false

theorem saveSorted_spec (fm : Fmt) (maxLen : Nat) : ∀ (bs : List Binding) (out : List (Bytes × Bytes)),
    saveSorted fm maxLen bs = .ok out →
      out.map (·.1) = (bs.filter (wrote fm maxLen)).map (·.name) ∧
      ∀ p ∈ out, ∃ b ∈ bs, p.1 = b.name ∧ saveLine fm maxLen b = .ok (some p.2)
  | [], out, h => by
    simp [saveSorted, pure, Except.pure] at h
    subst h
    simp
  | b :: rest, out, h => by
    unfold saveSorted at h
    cases hl : saveLine fm maxLen b with
    | error e => simp [hl, bind, Except.bind] at h
    | ok l =>
      cases ht : saveSorted fm maxLen rest with
      | error e => simp [hl, ht, bind, Except.bind] at h
      | ok tl =>
        have ih := saveSorted_spec fm maxLen rest tl ht
        cases l with
        | none =>
          simp [hl, ht, bind, Except.bind, pure, Except.pure] at h
          subst h
          refine ⟨by simp [wrote, hl, ih.1], ?_⟩
          intro p hp
          obtain ⟨b', hb', h1, h2⟩ := ih.2 p hp
          exact ⟨b', List.mem_cons_of_mem _ hb', h1, h2⟩
        | some line =>
          simp [hl, ht, bind, Except.bind, pure, Except.pure] at h
          subst h
          refine ⟨by simp [wrote, hl, ih.1], ?_⟩
          intro p hp
          rcases List.mem_cons.mp hp with rfl | hp
          · exact ⟨b, List.mem_cons_self, rfl, hl⟩
          · obtain ⟨b', hb', h1, h2⟩ := ih.2 p hp
            exact ⟨b', List.mem_cons_of_mem _ hb', h1, h2⟩

end Grol.Save
